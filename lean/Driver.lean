/-
Line-protocol driver: one JSON request per line on stdin, one JSON reply per line on stdout.
Requests carry `"p"` (property / model family) and `"op"`.  The driver executes the very
definitions the theorems in `PeroVerif/Props` talk about (no `implemented_by`).
-/
import PeroVerif.Drv.Common
import PeroVerif.Drv.C01
import PeroVerif.Drv.C02
import PeroVerif.Drv.C04
import PeroVerif.Drv.C05
import PeroVerif.Drv.C06
import PeroVerif.Drv.C07
import PeroVerif.Drv.C08
import PeroVerif.Drv.C09
import PeroVerif.Drv.C10
import PeroVerif.Drv.C11
import PeroVerif.Drv.C12
import PeroVerif.Drv.C13
import PeroVerif.Drv.C14
import PeroVerif.Drv.C15
import PeroVerif.Drv.C16
import PeroVerif.Drv.C17
import PeroVerif.Drv.C18
import PeroVerif.Drv.C19
import PeroVerif.Drv.C20
open Lean Drv

def dispatch (p : String) : Option Handler :=
  match p with
  | "C01" => some Drv.C01.handle
  | "C02" => some Drv.C02.handle
  | "C03" => some Drv.C02.handle
  | "C04" => some Drv.C04.handle
  | "C05" => some Drv.C05.handle
  | "C06" => some Drv.C06.handle
  | "C07" => some Drv.C07.handle
  | "C08" => some Drv.C08.handle
  | "C09" => some Drv.C09.handle
  | "C10" => some Drv.C10.handle
  | "C11" => some Drv.C11.handle
  | "C12" => some Drv.C12.handle
  | "C13" => some Drv.C13.handle
  | "C14" => some Drv.C14.handle
  | "C15" => some Drv.C15.handle
  | "C16" => some Drv.C16.handle
  | "C17" => some Drv.C17.handle
  | "C18" => some Drv.C18.handle
  | "C19" => some Drv.C19.handle
  | "C20" => some Drv.C20.handle
  | _ => none

def handleLine (line : String) : String :=
  match Json.parse line with
  | .error e => (err s!"parse: {e}").compress
  | .ok j =>
    match getStr j "p" with
    | .error e => (err s!"bad-request: {e}").compress
    | .ok p =>
      match dispatch p with
      | none => (err s!"unknown-model: {p}").compress
      | some h =>
        match h j with
        | .ok r => r.compress
        | .error e => (err s!"bad-request: {e}").compress

partial def loop (hin hout : IO.FS.Stream) : IO Unit := do
  let line ← hin.getLine
  if line.isEmpty then return ()
  let l := line.trimAscii.toString
  if l.isEmpty then loop hin hout else
  hout.putStrLn (handleLine l)
  hout.flush
  loop hin hout

def main : IO Unit := do
  loop (← IO.getStdin) (← IO.getStdout)
