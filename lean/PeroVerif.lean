-- Root of the `PeroVerif` library: everything the checks need, so that `lake build` pre-builds it.
import PeroVerif.Props.C02
import PeroVerif.Props.C03
import PeroVerif.Props.C04
import PeroVerif.Props.C05
import PeroVerif.Props.C09
import PeroVerif.Props.C13
import PeroVerif.Props.C19
import PeroVerif.Props.C16
import PeroVerif.Props.C14
import PeroVerif.Props.C15
import PeroVerif.Spec.CtcMass
import PeroVerif.Spec.Lm
import PeroVerif.Spec.ConfNet
import PeroVerif.Props.C01
import PeroVerif.Props.C07
import PeroVerif.Props.C12
import PeroVerif.Props.C17
