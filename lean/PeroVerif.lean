-- Root of the `PeroVerif` library: models, lemmas, property theorems, audit.
import PeroVerif.Model.Lev
