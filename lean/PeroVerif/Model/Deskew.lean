/-
The de-skew rotation of the smart sorter (pero_ocr/layout_engines/smart_sorter.py, `rotate_page_layout`,
`rotate_polygon`, `rotate_line`: `shapely.affinity.rotate(geom, angle, origin=(0, 0))`) — C12.

The page is rotated by `-angle` before sorting and by `+angle` afterwards.  In exact arithmetic a rotation about the
origin by the angle with cosine `c` and sine `s` (`c² + s² = 1`) maps `(x, y)` to `(c·x − s·y, s·x + c·y)`; rotating
back uses `(c, −s)`.  (Floats add the round-off the property mentions; the closing vertex that shapely's exterior ring
adds is part of the harness comparison "equal as shapes".)
-/
namespace Deskew

abbrev Pt := Rat × Rat

/-- rotation about the origin; `c`, `s` = cosine and sine of the angle -/
def rot (c s : Rat) (p : Pt) : Pt := (c * p.1 - s * p.2, s * p.1 + c * p.2)

/-- a polygon / baseline is rotated vertex by vertex -/
def rotPoly (c s : Rat) (poly : List Pt) : List Pt := poly.map (rot c s)

/-- what the sorter does to one geometry: rotate by `-angle`, (sort — the geometry is not touched), rotate by `+angle` -/
def thereAndBack (c s : Rat) (poly : List Pt) : List Pt := rotPoly c s (rotPoly c (-s) poly)

end Deskew
