/-
Model of the rotated-analysis coordinate mapping (C18, PARTIAL: the ridge decoding of
`LayoutEngine.parse` — smoothing, non-maxima suppression, labelling, percentiles — is scipy/NumPy and is
judged by an oracle only).

* `rotSrc rot H W i j`    — `np.rot90(img, k=rot)[i, j] = img[rotSrc …]` for an `H × W` image
* `rotShape rot H W`      — shape of the rotated image
* `rotateLayout rot shape p` — `LayoutEngine.rotate_layout`: maps a point `(x', y')` found in the rotated
  image back; `shape` is the shape of the ROTATED image, as `detect` passes it.
-/
namespace Rot

/-- shape (rows, cols) of `np.rot90(img, k)` for an `H × W` image -/
def rotShape (rot H W : Nat) : Nat × Nat := if rot % 2 = 1 then (W, H) else (H, W)

/-- source pixel (row, col) in the original of pixel `(i, j)` of the image rotated `rot` times counter-clockwise -/
def rotSrc (rot H W : Nat) (i j : Nat) : Nat × Nat :=
  match rot % 4 with
  | 0 => (i, j)
  | 1 => (j, W - 1 - i)
  | 2 => (H - 1 - i, W - 1 - j)
  | _ => (H - 1 - j, i)

/-- `rotate_layout` on one point `(x, y)` (x = column, y = row); `shape = (rows, cols)` of the rotated image -/
def rotateLayout (rot : Nat) (shape : Nat × Nat) (p : Int × Int) : Int × Int :=
  match rot with
  | 1 => ((shape.1 : Int) - p.2, p.1)          -- flip, then x = shape[0] - x
  | 2 => ((shape.2 : Int) - p.1, (shape.1 : Int) - p.2)
  | 3 => (p.2, (shape.2 : Int) - p.1)          -- flip, then y = shape[1] - y
  | _ => p

end Rot
