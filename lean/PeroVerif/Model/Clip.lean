/-
Exact model of clipping a detected baseline (a polyline) to an axis-parallel RECTANGULAR region — the most common
region shape — i.e. of what `region_shpl.intersection(baseline_shpl)` (shapely) returns in
`mask_textline_by_region` (pero_ocr/layout_engines/layout_helpers.py) for such regions — C11.

For general polygons shapely stays a parameter of the C11 model (`Asg.mask`); for rectangles this file replaces the
parameter by an executable definition (Liang–Barsky parameter clipping of every segment, consecutive clipped
segments joined into pieces), so that "the placed baseline is a piece of the detected baseline and lies inside the
region", "a baseline wholly inside is kept unchanged" and "a baseline that does not touch the region yields nothing"
become theorems (Props/C11.lean) instead of oracle checks.  Rational coordinates (detectors give integers).
-/
namespace Clip

abbrev Pt := Rat × Rat

structure Rect where
  x0 : Rat
  y0 : Rat
  x1 : Rat
  y1 : Rat

/-- closed rectangle -/
def inRect (r : Rect) (p : Pt) : Prop := r.x0 ≤ p.1 ∧ p.1 ≤ r.x1 ∧ r.y0 ≤ p.2 ∧ p.2 ≤ r.y1

instance (r : Rect) (p : Pt) : Decidable (inRect r p) := by unfold inRect; infer_instance

/-- the point of the segment `p → q` at parameter `t ∈ [0, 1]` -/
def lerp (p q : Pt) (t : Rat) : Pt := (p.1 + t * (q.1 - p.1), p.2 + t * (q.2 - p.2))

/-- one half-plane constraint `den * t ≤ num` applied to the parameter interval `[t0, t1]` (`none` = empty) -/
def clipEdge (num den : Rat) (st : Option (Rat × Rat)) : Option (Rat × Rat) :=
  match st with
  | none => none
  | some (t0, t1) =>
    if den = 0 then (if num < 0 then none else some (t0, t1))
    else if den < 0 then
      (if num / den > t1 then none else some (max t0 (num / den), t1))     -- t ≥ num / den
    else
      (if num / den < t0 then none else some (t0, min t1 (num / den)))     -- t ≤ num / den

/-- the parameters `t ∈ [0, 1]` of the segment `p → q` that lie in the rectangle: an interval `[t0, t1]` or nothing -/
def clipSeg (r : Rect) (p q : Pt) : Option (Rat × Rat) :=
  clipEdge (r.y1 - p.2) (q.2 - p.2)
    (clipEdge (p.2 - r.y0) (-(q.2 - p.2))
      (clipEdge (r.x1 - p.1) (q.1 - p.1)
        (clipEdge (p.1 - r.x0) (-(q.1 - p.1)) (some (0, 1)))))

/-- close the piece being built (`cur` is kept reversed) -/
def flush (cur : List Pt) (acc : List (List Pt)) : List (List Pt) :=
  if cur = [] then acc else cur.reverse :: acc

/-- walk the segments `p → q₁ → q₂ …`; `cur` = the piece being built (reversed, ends at `p` when non-empty) -/
def clipGo (r : Rect) : Pt → List Pt → List Pt → List (List Pt) → List (List Pt)
  | _, [], cur, acc => (flush cur acc).reverse
  | p, q :: rest, cur, acc =>
    match clipSeg r p q with
    | none => clipGo r q rest [] (flush cur acc)
    | some (t0, t1) =>
      let a := lerp p q t0
      let b := lerp p q t1
      -- does the clipped part start at `p` and continue the current piece?
      let cur' := if t0 = 0 ∧ cur ≠ [] then b :: cur else [b, a]
      let acc' := if t0 = 0 ∧ cur ≠ [] then acc else flush cur acc
      if t1 = 1 then clipGo r q rest cur' acc'
      else clipGo r q rest [] (flush cur' acc')

/-- the pieces of the polyline inside the rectangle, in order along the polyline -/
def clipPolyline (r : Rect) : List Pt → List (List Pt)
  | [] => []
  | p :: rest => clipGo r p rest [] []

end Clip
