/-
Model of the cache PROTOCOL of the transformer decoder (C20, PARTIAL: float equality of cached vs.
recomputed scores is checked differentially, not proved).

pero_ocr/ocr_engine/transformer.py:
* `CustomMultiheadAttention.cached_forward`: `if self.linear_cache is None or seq_len == 1:` a new cache
  (`torch.empty` = garbage) is allocated; cross-attention fills its K/V rows `[:S]` at that moment;
  self-attention writes slot `seq_len-1` and reads slots `[:seq_len]`; cross-attention reads K/V `[:S]`.
* `DecoderLayer.infer`: `memory_tgt` is dropped when the batch size differs, allocated (garbage) when absent,
  slot `seq_len-1` is written, `[:seq_len]` is returned.
* `transcribe_batch`: every batch runs the steps `seq_len = 1, 2, …` in order until all lines emitted the
  boundary symbol or `len(partial_transcripts) > W // 4`.

Slots carry TAGS instead of numbers: `some (batchNo, step)` = written at that step of that batch;
`none` = garbage (`torch.empty`) — a stale value from an earlier batch keeps its old tag.
-/
namespace KV

abbrev Tag := Option (Nat × Nat)      -- (batch number, step) or garbage

structure Layer where
  selfCache : Option (List Tag)       -- `self_attn.linear_cache` (one tag per sequence slot)
  crossKV : Option (Nat × Nat)        -- batch whose encoder output fills `multihead_attn.linear_cache[:S, :, E:]`, and S
  mem : Option (Nat × List Tag)       -- `memory_tgt`: (batch size, slots)

def Layer.init : Layer := { selfCache := none, crossKV := none, mem := none }

def setSlot (l : List Tag) (i : Nat) (t : Tag) : List Tag := l.set i t

/-- what one `DecoderLayer.infer(…, is_cached=True)` call reads -/
structure Reads where
  selfSlots : List Tag                -- self-attention K/V `[:seq_len]`
  cross : Option (Nat × Nat)          -- cross-attention K/V (batch, S)
  memSlots : List Tag                 -- returned `memory_tgt[:seq_len]`

/-- one decoding step `t` (= `seq_len`, 1-based) of batch `n` with batch size `B`, source length `S` -/
def step (maxLen n B S t : Nat) (ly : Layer) : Layer × Reads :=
  -- self attention
  let sc0 : List Tag := match ly.selfCache with
    | some c => if t = 1 then List.replicate maxLen none else c
    | none => List.replicate maxLen none
  let sc := setSlot sc0 (t - 1) (some (n, t))
  -- cross attention
  let ckv : Nat × Nat := match ly.crossKV with
    | some kv => if t = 1 then (n, S) else kv
    | none => (n, S)
  -- memory
  let m0 : List Tag := match ly.mem with
    | some (b, slots) => if b ≠ B then List.replicate maxLen none else slots
    | none => List.replicate maxLen none
  let m := setSlot m0 (t - 1) (some (n, t))
  ({ selfCache := some sc, crossKV := some ckv, mem := some (B, m) },
   { selfSlots := sc.take t, cross := some ckv, memSlots := m.take t })

/-- all steps `1..steps` of one batch; returns the final layer state and the reads of every step -/
def runBatch (maxLen n B S : Nat) : Nat → Nat → Layer → Layer × List (Nat × Reads)
  | 0, _, ly => (ly, [])
  | k + 1, t, ly =>
    let (ly', r) := step maxLen n B S t ly
    let (ly'', rs) := runBatch maxLen n B S k (t + 1) ly'
    (ly'', (t, r) :: rs)

structure Batch where
  size : Nat
  srcLen : Nat
  steps : Nat

/-- a history of batches decoded with the same model instance -/
def runHistory (maxLen : Nat) : Nat → List Batch → Layer → List (Nat × Nat × Reads)
  | _, [], _ => []
  | n, b :: bs, ly =>
    let (ly', rs) := runBatch maxLen n b.size b.srcLen b.steps 1 ly
    (rs.map fun (t, r) => (n, t, r)) ++ runHistory maxLen (n + 1) bs ly'

/-- a read is fresh at step `t` of batch `n`: every slot was written in this batch at a step ≤ t -/
def freshSlots (n t : Nat) (slots : List Tag) : Bool :=
  slots.all fun tg => match tg with
    | some (n', t') => n' == n && decide (1 ≤ t' ∧ t' ≤ t)
    | none => false

def Reads.fresh (n t S : Nat) (r : Reads) : Bool :=
  freshSlots n t r.selfSlots && freshSlots n t r.memSlots && r.selfSlots.length == t && r.memSlots.length == t &&
  (r.cross == some (n, S))

/-! ### the decoding loop of `transcribe_batch` -/

/-- `next partial` = arg-max samples for the batch given the symbols emitted so far (abstract network).
Returns the emitted symbol rows `partial_transcripts[1:]` and the number of iterations. -/
def loop (next : List (List Nat) → List Nat) (eos cap : Nat) : Nat → List (List Nat) → List Bool → Nat → List (List Nat) × Nat
  | 0, part, _, it => (part, it)
  | fuel + 1, part, alive, it =>
    let samples := next part
    let alive' := List.zipWith (fun a s => a && s != eos) alive samples
    if alive'.all (· == false) then (part, it + 1)
    else if part.length + 1 > cap then (part, it + 1)      -- `len(partial_transcripts) > W // 4` (incl. the start row)
    else loop next eos cap fuel (part ++ [samples]) alive' (it + 1)

/-- `transcribe_batch`'s loop for `B` lines of width `W`; fuel `W/4 + 2` is never exhausted -/
def transcribeLoop (next : List (List Nat) → List Nat) (eos W B : Nat) : List (List Nat) × Nat :=
  loop next eos (W / 4) (W / 4 + 2) [] (List.replicate B true) 0

/-- `postprocess_decoded` for one line: stop at the boundary symbol, skip the ignore symbol -/
def postprocess (eos ign : Nat) : List Nat → List Nat
  | [] => []
  | s :: r => if s = eos then [] else if s = ign then postprocess eos ign r else s :: postprocess eos ign r

/-! ### tensor reshapes of the attention: `(S, B, E) → view(-1, B*H, D) → transpose(0, 1)` -/

/-- row-major offset of element `(s, b, h*D + d)` in a contiguous `(S, B, H*D)` tensor -/
def offSBE (B H D s b h d : Nat) : Nat := (s * B + b) * (H * D) + (h * D + d)

/-- row-major offset of element `(s, b*H + h, d)` in the `(S, B*H, D)` view -/
def offView (B H D s b h d : Nat) : Nat := (s * (B * H) + (b * H + h)) * D + d

end KV
