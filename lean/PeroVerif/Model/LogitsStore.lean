/-
Model of `PageLayout._gen_logits / save_logits / load_logits` (pero_ocr/core/layout.py) and of the
dense reconstruction `TextLine.get_dense_logits` — C09.

The pickled object is ONE dict: line id ↦ logits, plus the two reserved keys `'line_characters'` and
`'logit_coords'` holding dicts line id ↦ characters / frame window.  Keys are modelled as `Nat` with
`0 = 'line_characters'` and `1 = 'logit_coords'`, so a line whose id is one of those strings
collides exactly as in Python.  `pickle` itself is trusted to round-trip the dict.
-/
import PeroVerif.Py.Dict

namespace LS
open Py

def kChars : Nat := 0    -- 'line_characters'
def kCoords : Nat := 1   -- 'logit_coords'

/-- what a slot of the dict (or a line's `logits` attribute after loading) can hold -/
inductive Val (L K C : Type) where
  | mat (x : Option L)                       -- a logit matrix or `None`
  | charsD (d : Dict Nat (Option K))
  | coordsD (d : Dict Nat (Option C))

structure Line (L K C : Type) where
  id : Nat
  logits : Val L K C
  chars : Option K
  coords : Option C

variable {L K C : Type}

inductive Err where
  | missingLogits | missingChars | missingCoords     -- `raise Exception('Missing …')`
  | keyError | typeError
deriving DecidableEq, Repr

def fromPairs {ν : Type} (ps : List (Nat × ν)) : Dict Nat ν := ps.foldl (fun d p => Dict.set d p.1 p.2) []

def isNone : Val L K C → Bool
  | .mat none => true
  | _ => false

/-- the completeness check of `_gen_logits` (skipped entirely when `missing_line_logits_ok`) -/
def firstMissing : List (Line L K C) → Option Err
  | [] => none
  | l :: r =>
    if isNone l.logits then some .missingLogits
    else if l.chars.isNone then some .missingChars
    else if l.coords.isNone then some .missingCoords
    else firstMissing r

/-- `_gen_logits` -/
def genLogits (missingOk : Bool) (lines : List (Line L K C)) : Except Err (Dict Nat (Val L K C)) :=
  match (if missingOk then none else firstMissing lines) with
  | some e => .error e
  | none =>
    let d := fromPairs (lines.map fun l => (l.id, l.logits))
    let d := Dict.set d kChars (.charsD (fromPairs (lines.map fun l => (l.id, l.chars))))
    let d := Dict.set d kCoords (.coordsD (fromPairs (lines.map fun l => (l.id, l.coords))))
    .ok d

/-- `load_logits` for one line -/
def loadLine (d : Dict Nat (Val L K C)) (chars : Dict Nat (Option K)) (coords : Dict Nat (Option C))
    (l : Line L K C) : Except Err (Line L K C) :=
  match Dict.get? d l.id with
  | none => .ok l
  | some v =>
    match Dict.get? chars l.id, Dict.get? coords l.id with
    | some ch, some co => .ok { l with logits := v, chars := ch, coords := co }
    | _, _ => .error .keyError

/-- `load_logits`; legacy files without the reserved keys default to `None` / `[None, None]`
(`legacyCoords`). -/
def load (legacyCoords : Option C) (d : Dict Nat (Val L K C)) (lines : List (Line L K C)) :
    Except Err (List (Line L K C)) :=
  let chars : Except Err (Dict Nat (Option K)) :=
    match Dict.get? d kChars with
    | some (.charsD c) => .ok c
    | some _ => .error .typeError
    | none => .ok (d.map fun kv => (kv.1, none))
  let coords : Except Err (Dict Nat (Option C)) :=
    match Dict.get? d kCoords with
    | some (.coordsD c) => .ok c
    | some _ => .error .typeError
    | none => .ok (d.map fun kv => (kv.1, legacyCoords))
  match chars, coords with
  | .ok ch, .ok co => lines.mapM (loadLine d ch co)
  | .error e, _ => .error e
  | _, .error e => .error e

/-- `get_dense_logits`: stored value, or the floor where nothing is stored (sparse zero). -/
def dense {S : Type} [DecidableEq S] (zero floor : S) (stored : S) : S := if stored = zero then floor else stored

end LS
