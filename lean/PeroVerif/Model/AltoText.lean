/-
Model of the text side of `PageLayout.to_altoxml_string` for one line (pero_ocr/core/layout.py) — C06.

Two branches: if the line can be force-aligned, word SPANS are cut at the separator positions
(`space_idxs`) and word STRINGS come from `transcription.split()`, paired by position
(`splitted_transcription[w]` — an IndexError if there are more spans than words); otherwise the words
of `transcription.split()` are exported directly.  On Arabic-script lines every word goes through the
order conversion.  `isSpace` is Python's `str.isspace`; `isSep` is the separator test used for
`space_idxs` — GENERATED from the source (`char == ' '` or `char.isspace()`).
-/
import PeroVerif.Py.Decimal
import PeroVerif.Generated.Alto

namespace Alto
open Py

/-- `str.split()` without arguments: maximal runs of non-whitespace characters -/
def pySplitAux (isSpace : Nat → Bool) : Str → Str → List Str
  | cur, [] => if cur = [] then [] else [cur]
  | cur, c :: r =>
    if isSpace c then (if cur = [] then pySplitAux isSpace [] r else cur :: pySplitAux isSpace [] r)
    else pySplitAux isSpace (cur ++ [c]) r

def pySplit (isSpace : Nat → Bool) (s : Str) : List Str := pySplitAux isSpace [] s

/-- the separator test of `space_idxs` -/
def isSep (isSpace : Nat → Bool) (c : Nat) : Bool :=
  if Gen.Alto.sepIsSpace then isSpace c else c == 32

/-- `space_idxs = [-1] + [positions of separators] + [len]` as integers -/
def spaceIdxs (isSpace : Nat → Bool) (s : Str) : List Int :=
  [(-1 : Int)] ++ (((List.range s.length).filter fun i => isSep isSpace (s.getD i 0)).map fun (i : Nat) => Int.ofNat i) ++ [Int.ofNat s.length]

/-- word spans: for consecutive separators `a, b` with `a ≠ b - 1` the span `(a+1, b-1)` -/
def spans : List Int → List (Int × Int)
  | a :: b :: r => (if a ≠ b - 1 then [(a + 1, b - 1)] else []) ++ spans (b :: r)
  | _ => []

inductive Out where
  | words (ws : List Str) (nSP : Nat)     -- String CONTENTs in order, number of SP elements
  | indexError
deriving DecidableEq

/-- the exported words of one line. `aligned`: did `align_text` succeed; `conv`: the order
conversion applied on Arabic lines (identity otherwise). -/
def lineWords (isSpace : Nat → Bool) (conv : Str → Str) (aligned : Bool) (s : Str) : Out :=
  let split := pySplit isSpace s
  if aligned then
    let sp := spans (spaceIdxs isSpace s)
    if sp.length ≤ split.length then
      -- `if w != len(split) - 1: SP`
      .words ((split.take sp.length).map conv) ((List.range sp.length).filter (fun w => w + 1 ≠ split.length)).length
    else .indexError
  else .words (split.map conv) 0

/-- a line is exported at all iff its transcription is not blank -/
def exported (isSpace : Nat → Bool) (s : Option Str) : Bool :=
  match s with
  | none => false
  | some t => !(t.all isSpace)     -- `not transcription or transcription.strip() == ""`

/-! ### geometry: `get_hwvh`, the print-space loop and the margins (integers) -/

structure Box where
  height : Int
  width : Int
  vpos : Int
  hpos : Int
deriving DecidableEq, Repr

def maxL (d : Int) : List Int → Int
  | [] => d
  | x :: xs => xs.foldl max x
def minL (d : Int) : List Int → Int
  | [] => d
  | x :: xs => xs.foldl min x

/-- `get_hwvh(polygon)` -/
def hwvh (poly : List (Int × Int)) : Box :=
  let xs := poly.map (·.1)
  let ys := poly.map (·.2)
  ⟨maxL 0 ys - minL 0 ys, maxL 0 xs - minL 0 xs, minL 0 ys, minL 0 xs⟩

structure PS where
  height : Int
  width : Int
  vpos : Int
  hpos : Int
  bottom : Int
  right : Int

/-- one block of the print-space loop -/
def psStep (p : PS) (b : Box) : PS :=
  let bottom := max p.bottom (b.vpos + b.height)
  let right := max p.right (b.hpos + b.width)
  let vpos := min p.vpos b.vpos
  let hpos := min p.hpos b.hpos
  ⟨bottom - vpos, right - hpos, vpos, hpos, bottom, right⟩

def printSpace (H W : Int) (blocks : List Box) : PS :=
  blocks.foldl psStep ⟨0, 0, H, W, 0, 0⟩

/-- Top, Left, Right, Bottom margins as (HEIGHT, WIDTH, VPOS, HPOS) -/
def margins (H W : Int) (p : PS) : List Box :=
  [⟨p.vpos, W, 0, 0⟩, ⟨H, p.hpos, 0, 0⟩, ⟨H, W - (p.hpos + p.width), 0, p.hpos + p.width⟩,
   ⟨H - (p.vpos + p.height), W, p.vpos + p.height, 0⟩]

/-- `from_altoxml`: the transcription of a re-imported line = its String CONTENTs joined by single blanks
(`word = word + " " + text.get('CONTENT')`, no blank before the first) -/
def reimportLine : List Str → Str
  | [] => []
  | [w] => w
  | w :: r => w ++ [32] ++ reimportLine r

end Alto
