/-
Model of the resume protocol of user_scripts/parse_folder.py (C17).

The facts that matter are GENERATED from the script on every run (`Gen.ParseFolder`): which output
folders `--skip-processed` consults, how a page id is recovered from an output file name, the order of
the output writes of a page, and whether the final statistics survive an empty batch.

File system = list of (kind, file name) pairs (a set).  A page `p` with requested kinds `K` performs the
writes `writes K p` in order (one file per kind, one per line for the line crops); a KILL between two
writes keeps a prefix of the run's write list.  A resumed run recomputes the processed pages from the
directory listings and processes the rest.
-/
import PeroVerif.Py.Decimal
import PeroVerif.Generated.ParseFolder

namespace Resume
open Gen.ParseFolder Py

structure Page where
  id : Str
  lines : List Str        -- line ids, in layout order
deriving DecidableEq

abbrev File := Kind × Str
abbrev FS := List File

def extXml : Str := [46, 120, 109, 108]                 -- ".xml"
def extJpg : Str := [46, 106, 112, 103]                 -- ".jpg"
def extLogits : Str := [46, 108, 111, 103, 105, 116, 115]   -- ".logits"
def cDash : Nat := 45

/-- output files of one kind for one page, in write order -/
def filesOf (p : Page) : Kind → List File
  | .xml => [(.xml, p.id ++ extXml)]
  | .render => [(.render, p.id ++ extJpg)]
  | .logits => [(.logits, p.id ++ extLogits)]
  | .alto => [(.alto, p.id ++ extXml)]
  | .lines => p.lines.map fun l => (.lines, p.id ++ [cDash] ++ l ++ extJpg)

/-- the writes of one page, in the order of `Computator.__call__` -/
def writes (K : List Kind) (p : Page) : List File :=
  (writeOrder.filter (K.contains ·)).flatMap (filesOf p)

/-- `os.path.splitext`: split at the last dot, provided some earlier character is not a dot
(leading dots do not start an extension) -/
def splitext (name : Str) : Str × Str :=
  match name.reverse.findIdx? (· = cDot) with
  | none => (name, [])
  | some j =>
    let d := name.length - 1 - j
    if (name.take d).any (· != cDot) then (name.take d, name.drop d) else (name, [])

def isPrefix (a b : Str) : Bool := a.length ≤ b.length && b.take a.length == a

/-- the lazy regex `(.+?)(\.logits|\.xml|\.jpg)` matched at the start of the name -/
def lazyStem (name : Str) : Option Str :=
  ((List.range name.length).filter (· ≥ 1)).findSome? fun i =>
    let rest := name.drop i
    if isPrefix extLogits rest || isPrefix extXml rest || isPrefix extJpg rest then some (name.take i) else none

/-- page id recovered from an output file name (`none`: the file is ignored) -/
def stemOf (name : Str) : Option Str :=
  match matcher with
  | .lazyRegex => lazyStem name
  | .splitext =>
    let (stem, ext) := splitext name
    if ext = extLogits ∨ ext = extXml ∨ ext = extJpg then some stem else none

/-- `load_already_processed_files_in_directory` -/
def stemsIn (fs : FS) (k : Kind) : List Str := (fs.filter (·.1 = k)).filterMap fun f => stemOf f.2

/-- `load_already_processed_files`: intersection over the consulted folders that are requested;
empty when none is. -/
def processed (fs : FS) (K : List Kind) : List Str :=
  match checkedKinds.filter (K.contains ·) with
  | [] => []
  | k :: ks => (stemsIn fs k).filter fun s => ks.all fun k' => (stemsIn fs k').contains s

def todo (fs : FS) (K : List Kind) (pages : List Page) : List Page :=
  pages.filter fun p => !(processed fs K).contains p.id

/-- the write list of one (uninterrupted) run -/
def runWrites (fs : FS) (K : List Kind) (pages : List Page) : List File :=
  (todo fs K pages).flatMap (writes K)

def addFiles (fs : FS) (ws : List File) : FS := ws.foldl (fun acc f => if acc.contains f then acc else acc ++ [f]) fs

/-- a run killed before its `k`-th write (1-based; beyond the last write = not killed) -/
def crashRun (fs : FS) (K : List Kind) (pages : List Page) (k : Nat) : FS :=
  addFiles fs ((runWrites fs K pages).take (k - 1))

def fullRun (fs : FS) (K : List Kind) (pages : List Page) : FS := addFiles fs (runWrites fs K pages)

/-- a history of crashes followed by an uninterrupted resume -/
def history (K : List Kind) (pages : List Page) (crashes : List Nat) : FS :=
  fullRun (crashes.foldl (fun fs k => crashRun fs K pages k) []) K pages

/-- does the run end cleanly (no division by zero in the final statistics)? -/
def exitsCleanly (fs : FS) (K : List Kind) (pages : List Page) : Bool :=
  divisionGuarded || !(todo fs K pages).isEmpty

def allOutputs (K : List Kind) (pages : List Page) : List File := pages.flatMap (writes K)

end Resume
