/-
Model of `merge_transcriptions_and_logits` / `find_best_overlap`
(pero_ocr/ocr_engine/line_ocr_engine.py) — C15.  The two slice expressions are GENERATED from the
source (`Generated/Merge.lean`); the loop structure and the overlap search are hand-written.
-/
import PeroVerif.Model.Lev
import PeroVerif.Generated.Merge

namespace Merge
variable {α β : Type} [DecidableEq α]

/-- One iteration of `find_best_overlap`: `cer = dist / i`, kept as the fraction `(num, den)`;
`cer < best_cer` is decided by cross-multiplication (denominators are positive). -/
def overlapStep (t1 t2 : List α) (st : Nat × Nat × Nat) (k : Nat) : Nat × Nat × Nat :=
  let i := k + 1
  let d := Lev.dist Lev.unit (t1.drop (t1.length - i)) (t2.take i)
  if d * st.2.1 < st.1 * i then (d, i, i) else st

/-- `find_best_overlap(text1, text2)`; initial `best_cer = 1`, `best_overlap = 0`. -/
def findBestOverlap (t1 t2 : List α) : Nat :=
  ((List.range (min t1.length t2.length)).foldl (overlapStep t1 t2) (1, 1, 0)).2.2

/-- One iteration of the merge loop on (text, logits). -/
def mergeStep (acc : List α × List β) (p : List α × List β) : List α × List β :=
  let o : Int := (findBestOverlap acc.1 p.1 : Nat)
  (Gen.Merge.mergeText acc.1 p.1 o, Gen.Merge.mergeLogits acc.1 p.1 acc.2 p.2 o)

/-- `logits[:len(transcription)]` -/
def shrink (p : List α × List β) : List α × List β := (p.1, p.2.take p.1.length)

/-- `merge_transcriptions_and_logits`; an empty part list is an `IndexError` in Python. -/
def mergeAll (parts : List (List α × List β)) : Option (List α × List β) :=
  match parts.map shrink with
  | [] => none
  | p :: ps => some (ps.foldl mergeStep p)

/-- The overlaps detected along the way (for stating the length law). -/
def overlaps : List α × List β → List (List α × List β) → List Nat
  | _, [] => []
  | acc, p :: ps => findBestOverlap acc.1 p.1 :: overlaps (mergeStep acc p) ps

/-! ### Window splitting of an over-long line (`process_lines`, transformer mode)

    overlap = max_line_width // 4 ; start = 0 ; end = max_line_width
    while end < width: parts.append(image[:, start:end]); start += mlw - overlap; end += mlw - overlap
    parts.append(image[:, start:end])
-/
def windowsAux (width mlw : Nat) : Nat → Nat → Nat → List (Nat × Nat)
  | 0, start, e => [(start, e)]
  | fuel + 1, start, e =>
    if e < width then (start, e) :: windowsAux width mlw fuel (start + (mlw - mlw / 4)) (e + (mlw - mlw / 4))
    else [(start, e)]

/-- Windows `(start, end)` as slice bounds (the last one is clipped by slicing). -/
def windows (width mlw : Nat) : List (Nat × Nat) := windowsAux width mlw width 0 mlw

/-! ### Regrouping the window results per line (`process_lines`, transformer mode)

    start = 0
    for span in batch_image_spans:
        merged = merge_transcriptions_and_logits(out_transcriptions[start:start+span], out_logits[start:start+span])
        start += span
-/
def regroup {γ : Type} : List Nat → List γ → List (List γ)
  | [], _ => []
  | s :: r, xs => xs.take s :: regroup r (xs.drop s)

/-- the per-line results of one batch: every line's own windows, stitched -/
def batchResults (spans : List Nat) (parts : List (List α × List β)) : List (Option (List α × List β)) :=
  (regroup spans parts).map mergeAll

end Merge
