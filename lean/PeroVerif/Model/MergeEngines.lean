/-
Model of `merge_layouts` (user_scripts/merge_ocr_results.py) — C19.

Per text line there is one record per OCR engine (same line id in every layout).  The mean character
confidence of each engine's line (`get_confidences(line).mean()`, `-10` for an empty transcription) is
an input `conf`; the loop keeps the first engine whose confidence is strictly greater than the best
so far, starting from `best_confidence = 0`, and copies transcription, logits, characters and that
confidence into the first layout's line.  Ids and geometry are never assigned.
-/
namespace ME

structure Line (Q T L K G : Type) where
  id : Nat
  geom : G
  text : T
  logits : L
  chars : K
  tconf : Option Q      -- `transcription_confidence`

variable {Q T L K G : Type}

/-- the inner `for line in lines` loop: state = (best_confidence, merged_line) -/
def mergeStep (lt : Q → Q → Bool) (st : Q × Line Q T L K G) (e : Line Q T L K G × Q) : Q × Line Q T L K G :=
  if lt st.1 e.2 then
    (e.2, { st.2 with text := e.1.text, logits := e.1.logits, chars := e.1.chars, tconf := some e.2 })
  else st

/-- one line of `merge_layouts`; `none` if there is no layout (IndexError on `page_layouts[0]`). -/
def mergeLine (lt : Q → Q → Bool) (zero : Q) (engines : List (Line Q T L K G × Q)) : Option (Line Q T L K G) :=
  match engines with
  | [] => none
  | e0 :: _ => some (engines.foldl (mergeStep lt) (zero, e0.1)).2

end ME
