/-
Model of `pero_ocr/decoding/confusion_networks.py` (C14).

A confusion network is a list of positions ("sausages"); a position is an insertion-ordered dict
from arcs (`none` = epsilon, `some c` = symbol) to weights.  Weights live in an abstract field given
as a record of operations (executed with `Rat`).

`sorted_cn_paths` enumerates the arcs with an odometer whose LAST rotor moves fastest, every rotor
running through its position's arcs sorted by decreasing weight (stable); this is the
lexicographic Cartesian product `product`, which is how it is modelled (the correspondence check
compares the enumeration order with the real code), followed by a stable sort by probability.
-/
import PeroVerif.Py.Dict
import PeroVerif.Model.Lev
import PeroVerif.Model.Bag

namespace CN
open Py

abbrev Arc := Option Nat
abbrev Pos (W : Type) := Dict Arc W
abbrev Net (W : Type) := List (Pos W)

structure WOps (W : Type) extends Bag.FOps W where
  ofNat : Nat → W

variable {W : Type}

/-- stable sort by decreasing weight (Python `sorted(..., reverse=True)` keeps the original order of
equal elements) -/
def sortDesc (o : WOps W) (d : Pos W) : Pos W :=
  d.mergeSort fun a b => !(o.lt a.2 b.2)

/-- `get_pivot`: per position the first arc of maximal weight. `none` if a position is empty
(IndexError in Python). -/
def getPivot (o : WOps W) (cn : Net W) : Option (List Arc) :=
  cn.mapM fun p => (sortDesc o p).head?.map (·.1)

def posTotal (o : WOps W) (p : Pos W) : W := p.values.foldl o.add o.zero

/-- `sum(sum(position.values()) for position in cn) / len(cn)` -/
def totalWeight (o : WOps W) (cn : Net W) : W :=
  o.div ((cn.map (posTotal o)).foldl o.add o.zero) (o.ofNat cn.length)

/-- `d[k] += s` if present else `d[k] = s` -/
def bump (o : WOps W) (d : Pos W) (k : Arc) (s : W) : Pos W :=
  match Dict.get? d k with
  | some v => Dict.set d k (o.add v s)
  | none => Dict.set d k s

structure St (W : Type) where
  cn : Net W
  cnPtr : Nat
  trPtr : Nat

/-- One alignment direction of `add_hypothese`. `none` = IndexError. `advanceOnAppend` is read from
the source by the translator: whether `cn_pointer` is advanced in the append branch. -/
def addStep (o : WOps W) (advanceOnAppend : Bool) (tr : List Nat) (score tw : W)
    (st : St W) (dir : Int) : Option (St W) :=
  if dir = -1 then
    match st.cn[st.cnPtr]? with
    | none => none
    | some p => some { st with cn := st.cn.set st.cnPtr (bump o p none score), cnPtr := st.cnPtr + 1 }
  else if dir = 0 then
    match st.cn[st.cnPtr]?, tr[st.trPtr]? with
    | some p, some c =>
      some { cn := st.cn.set st.cnPtr (bump o p (some c) score), cnPtr := st.cnPtr + 1, trPtr := st.trPtr + 1 }
    | _, _ => none
  else if dir = 1 then
    match tr[st.trPtr]? with
    | none => none
    | some c =>
      let newPos : Pos W := Dict.set (Dict.set [] none tw) (some c) score
      if st.cnPtr = st.cn.length then
        some { cn := st.cn ++ [newPos], cnPtr := if advanceOnAppend then st.cnPtr + 1 else st.cnPtr,
               trPtr := st.trPtr + 1 }
      else
        some { cn := st.cn.take st.cnPtr ++ [newPos] ++ st.cn.drop st.cnPtr, cnPtr := st.cnPtr + 1,
               trPtr := st.trPtr + 1 }
  else none   -- RuntimeError

/-- `add_hypothese(cn, transcript, score)` -/
def addHyp (o : WOps W) (advanceOnAppend : Bool) (cn : Net W) (tr : List Nat) (score : W) : Option (Net W) :=
  if cn = [] then some (tr.map fun c => [(some c, score)])
  else
    match getPivot o cn with
    | none => none
    | some pivot =>
      match Lev.alignmentPath Lev.unit (tr.map some) pivot with
      | none => none
      | some path =>
        let tw := totalWeight o cn
        (path.foldlM (addStep o advanceOnAppend tr score tw) { cn := cn, cnPtr := 0, trPtr := 0 }).map (·.cn)

/-- `normalize_cn` -/
def normalize (o : WOps W) (cn : Net W) : Net W :=
  cn.map fun p => let s := posTotal o p; p.map fun kv => (kv.1, o.div kv.2 s)

/-- `produce_cn_from_boh`: fold of `add_hypothese` over (transcript, weight) pairs, then normalise. -/
def fromHyps (o : WOps W) (adv : Bool) (hyps : List (List Nat × W)) (norm : Bool) : Option (Net W) :=
  (hyps.foldlM (fun cn h => addHyp o adv cn h.1 h.2) []).map fun cn => if norm then normalize o cn else cn

/-- `best_cn_path` (symbols; epsilons removed) -/
def bestPath (o : WOps W) (cn : Net W) : Option (List Nat) :=
  (getPivot o cn).map fun pv => pv.filterMap id

/-- lexicographic Cartesian product, first position slowest -/
def product : List (List (Arc × W)) → List (List (Arc × W))
  | [] => [[]]
  | p :: ps => p.flatMap fun a => (product ps).map fun rest => a :: rest

def pathString (arcs : List (Arc × W)) : List Nat := arcs.filterMap (·.1)
def pathProb (o : WOps W) (arcs : List (Arc × W)) : W := arcs.foldl (fun acc a => o.mul acc a.2) o.one

/-- `sorted_cn_paths` -/
def sortedPaths (o : WOps W) (cn : Net W) : List (List Nat × W) :=
  if cn = [] then []
  else
    let paths := (product (cn.map (sortDesc o))).map fun arcs => (pathString arcs, pathProb o arcs)
    paths.mergeSort fun a b => !(o.lt a.2 b.2)

end CN
