/-
Model of `ArabicHelper._reverse` (pero_ocr/core/arabic_helper.py) — the logical/label order
conversion used for Arabic script (C06).  Literal state machine over code points:

* `isA c`  : `c in forward_mapping or c in _backward_mapping or c in arabic_delimiters`
* `isD c`  : `c in delimiters`   (raw membership, also used when trailing delimiters are split off)
* otherwise the character is "other" (Latin letters, digits, …)

A list of sequences is built left to right; trailing delimiters of a non-Arabic sequence are moved to
the following Arabic one; at the end Arabic sequences are reversed character-wise, the list of
sequences is reversed and everything is concatenated.
-/
namespace Ar

structure Seq where
  chars : List Nat
  arabic : Bool
deriving DecidableEq, Repr

structure St where
  done : List Seq      -- `sequences`, in push order
  cur : Seq

/-- maximal suffix of delimiters: `(rest, tail)` -/
def splitTail (isD : Nat → Bool) (cs : List Nat) : List Nat × List Nat :=
  let tail := (cs.reverse.takeWhile isD).reverse
  (cs.take (cs.length - tail.length), tail)

def step (isA isD : Nat → Bool) (st : St) (c : Nat) : St :=
  let st1 : St :=
    if isA c then
      if !st.cur.arabic then
        if st.cur.chars.length > 0 then
          let (rest, tail) := splitTail isD st.cur.chars
          { done := st.done ++ [{ st.cur with chars := rest }], cur := { chars := tail, arabic := true } }
        else { st with cur := { st.cur with arabic := true } }
      else st
    else if !isD c then
      if st.cur.arabic then
        if st.cur.chars.length > 0 then
          { done := st.done ++ [st.cur], cur := { chars := [], arabic := false } }
        else { st with cur := { st.cur with arabic := false } }
      else st
    else st
  { st1 with cur := { st1.cur with chars := st1.cur.chars ++ [c] } }

/-- the final flush -/
def finish (isD : Nat → Bool) (st : St) : List Seq :=
  if st.cur.chars.length > 0 then
    let (rest, tail) := splitTail isD st.cur.chars
    let seqs := st.done ++ [{ st.cur with chars := rest }]
    if tail.length > 0 then seqs ++ [{ chars := tail, arabic := true }] else seqs
  else st.done

/-- `_reverse(text)` -/
def reverse (isA isD : Nat → Bool) (s : List Nat) : List Nat :=
  let seqs := finish isD (s.foldl (step isA isD) { done := [], cur := { chars := [], arabic := true } })
  (seqs.map fun q => if q.arabic then q.chars.reverse else q.chars).reverse.flatten

end Ar
