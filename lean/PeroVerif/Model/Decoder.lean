/-
Functional model of the transformer decoder of pero_ocr/ocr_engine/transformer.py (C20): WHAT is computed by
`Decoder.infer` step by step — with key/value caches (`is_cached=True`) and without (`is_cached=False`) — and by
the full masked (teacher-forced) pass `TransformerOCR.forward`, for ONE lane (one line of the batch; PyTorch's
batched kernels act lane-wise: trusted base).  The arithmetic of a layer is abstract (`LayerFn`): the theorems of
Props/C20 hold for EVERY choice of projections, attention, norms and feed-forward functions, so in particular for
the float kernels the code calls.  `Model/KVCache.lean` models the same protocol with tags; here the slots carry the
values themselves and stale / garbage content is an arbitrary initial state.

Code read:
* `DecoderLayer.infer(tgt, memory, is_cached)`: `tgt` = the outputs of the layer below for positions `0..t`
  (`seq_len = t + 1`).  Only the LAST position is computed:
    z  = norm1(y_t + self_attn(y_t ; K/V of y_0..y_t))
    z' = norm2(z  + cross_attn(z ; K/V of the encoder output))
    o  = norm3(z' + linear2(act(linear1(z'))))
  `memory_tgt[t] = o` and `memory_tgt[:t+1]` is handed to the layer above.
  - cached: `self_attn.infer` writes the projection of `y_t` into slot `t` of `linear_cache` and attends over slots
    `[:t+1]`; at `t = 0` the cache is re-allocated (`torch.empty`) first.  `multihead_attn.infer` projects the encoder
    output into its cache at `t = 0` only and re-uses it afterwards.
  - uncached: K/V are projected from `tgt` / `memory` at every step (`self.self_attn(tgt, tgt, tgt)` computes all
    positions but only `[-1]` is stored).
* `TransformerOCR.forward`: `TransformerDecoder.forward` with the causal mask: position `i` of every layer attends to
  positions `≤ i` of the layer below.
-/
namespace Dec

/-- the functions of one decoder layer; `V` vectors, `M` encoder output, `K` projected key/value of one target
position, `KM` projected keys/values of the encoder output -/
structure LayerFn (V M K KM : Type) where
  projKV : V → K
  selfAttn : V → List K → V
  projMem : M → KM
  crossAttn : V → KM → V
  add : V → V → V
  norm1 : V → V
  norm2 : V → V
  norm3 : V → V
  ff : V → V

variable {V M K KM : Type}

/-- one position of one layer: query `y`, self-attention context `ctx`, cross-attention keys/values `km` -/
def LayerFn.pos (f : LayerFn V M K KM) (y : V) (ctx : List K) (km : KM) : V :=
  let z := f.norm1 (f.add y (f.selfAttn y ctx))
  let z' := f.norm2 (f.add z (f.crossAttn z km))
  f.norm3 (f.add z' (f.ff z'))

/-! ### specification: the full masked pass -/

/-- positions of `ys` from left to right, each attending to `seen ++` itself and everything before it -/
def fullLayerAux (f : LayerFn V M K KM) (km : KM) : List V → List V → List V
  | _, [] => []
  | seen, y :: r => f.pos y ((seen ++ [y]).map f.projKV) km :: fullLayerAux f km (seen ++ [y]) r

/-- `TransformerDecoderLayer.forward(tgt, memory, tgt_mask = causal)` -/
def fullLayer (f : LayerFn V M K KM) (mem : M) (ys : List V) : List V :=
  fullLayerAux f (f.projMem mem) [] ys

/-- `TransformerDecoder.forward` (no final norm: `Decoder(…, norm=None)`) -/
def fullDecoder (fs : List (LayerFn V M K KM)) (mem : M) (xs : List V) : List V :=
  fs.foldl (fun ys f => fullLayer f mem ys) xs

/-! ### the step-by-step decoder with its persistent state -/

/-- state of one `DecoderLayer` object between calls.  Slots that the current batch has not written yet hold
whatever an earlier batch (or `torch.empty`) left there. -/
structure LState (V K KM : Type) where
  selfCache : List K      -- `self_attn.linear_cache`, one slot per target position
  crossKV : KM            -- `multihead_attn.linear_cache[:S, :, E:]`
  mem : List V            -- `memory_tgt`

/-- `DecoderLayer.infer` at step `t` (0-based; `seq_len = t + 1`), `tgt` = the `t + 1` outputs of the layer below.
Returns the new state and `memory_tgt[:t+1]`. -/
def layerStep (cached : Bool) (f : LayerFn V M K KM) (mem : M) (t : Nat) (tgt : List V) (s : LState V K KM) :
    LState V K KM × List V :=
  match tgt.getLast? with
  | none => (s, [])                                     -- `tgt[-1:]` of an empty tensor: never called like this
  | some y =>
    if cached then
      let sc := s.selfCache.set t (f.projKV y)           -- slot t written (after the re-allocation at t = 0)
      let ckv := if t = 0 then f.projMem mem else s.crossKV
      let o := f.pos y (sc.take (t + 1)) ckv
      let m := s.mem.set t o
      ({ selfCache := sc, crossKV := ckv, mem := m }, m.take (t + 1))
    else
      let o := f.pos y (tgt.map f.projKV) (f.projMem mem)
      let m := s.mem.set t o
      ({ s with mem := m }, m.take (t + 1))

/-- `Decoder.infer`: the layers in order, each fed with what the layer below returned; result `tgt[-1]` -/
def decStep (cached : Bool) (mem : M) (t : Nat) :
    List (LayerFn V M K KM) → List (LState V K KM) → List V → List (LState V K KM) × List V
  | f :: fs, s :: ss, tgt =>
    let (s', out) := layerStep cached f mem t tgt s
    let (ss', top) := decStep cached mem t fs ss out
    (s' :: ss', top)
  | _, ss, tgt => (ss, tgt)

/-- the decoding of one line: step `t` is called with the embedded symbols `x_0..x_t`
(`label_embs` grows by one row per iteration of `transcribe_batch`); collects `transformed` of every step.
`done` = the symbols already fed, `todo` = the ones still to come. -/
def runSteps (cached : Bool) (fs : List (LayerFn V M K KM)) (mem : M) :
    List V → List V → List (LState V K KM) → List (LState V K KM) × List (Option V)
  | _, [], ss => (ss, [])
  | done, x :: todo, ss =>
    let (ss', top) := decStep cached mem done.length fs ss (done ++ [x])
    let (ss'', outs) := runSteps cached fs mem (done ++ [x]) todo ss'
    (ss'', top.getLast? :: outs)

/-- every cache of the state has at least `n` slots (`max_seq_len`) -/
def LState.roomy (n : Nat) (s : LState V K KM) : Prop := n ≤ s.selfCache.length ∧ n ≤ s.mem.length

/-! ### a symbolic instance: the computation as a term (for the correspondence check) -/

inductive Term where
  | var : String → Nat → Term
  | app : String → Nat → List Term → Term
  deriving Repr, BEq, Inhabited

/-- layer `l` with every function a free symbol -/
def symLayer (l : Nat) : LayerFn Term Term Term Term where
  projKV y := .app "kv" l [y]
  selfAttn y ks := .app "sa" l (y :: ks)
  projMem m := .app "pm" l [m]
  crossAttn z km := .app "ca" l [z, km]
  add a b := .app "add" l [a, b]
  norm1 a := .app "n1" l [a]
  norm2 a := .app "n2" l [a]
  norm3 a := .app "n3" l [a]
  ff a := .app "ff" l [a]

def symLayers (L : Nat) : List (LayerFn Term Term Term Term) := (List.range L).map symLayer

/-- a stale state: every slot holds a junk term that must never be read -/
def staleState (maxLen l : Nat) : LState Term Term Term where
  selfCache := (List.range maxLen).map fun i => .var "stale-k" (l * 1000 + i)
  crossKV := .var "stale-km" l
  mem := (List.range maxLen).map fun i => .var "stale-v" (l * 1000 + i)

end Dec
