/-
Model of the two reading-order sorters (C12):
* `SmartRegionSorter` / `CoupledRegions.divide_and_order` (pero_ocr/layout_engines/smart_sorter.py)
* `NaiveRegionSorter.sort_regions`                      (pero_ocr/layout_engines/naive_sorter.py)

Boxes have integer corners (the harness uses integer polygons and zero skew so that the de-skew
rotation is the identity; slanted pages are judged by an oracle only).

Facts about the Python code the model relies on (validated by exact correspondence):
* when `divide_and_order` is called, all members of `region_list` are leaf regions;
* `self in self.parent.region_list` is true for every non-top group (identity), so a non-top group
  that does not split is decoupled at once, the top group never is;
* a group's bounding box starts from `(x_min, x_max, y_min, y_max) = (1e5, 0, 1e5, 0)` and is only
  widened (`update_corners`);
* `a / 0` is `inf` (or `nan` for `0 / 0`) in NumPy: `inf > p` is true, `nan > p` false;
* `sorted` is stable.
Recursion is bounded by `fuel`; `none` = out of fuel (the theorems show `2n+2` always suffices,
i.e. the real recursion terminates).
-/
namespace SS

structure Box where
  id : Nat
  xmin : Int
  ymin : Int
  xmax : Int
  ymax : Int
deriving DecidableEq, Repr

/-- `(x_min, y_min, x_max, y_max)` of a group -/
structure BBox where
  xmin : Int
  ymin : Int
  xmax : Int
  ymax : Int
deriving DecidableEq, Repr

def BBox.init : BBox := ⟨100000, 100000, 0, 0⟩

/-- `update_corners` -/
def BBox.update (b : BBox) (l t r bt : Int) : BBox :=
  ⟨if l < b.xmin then l else b.xmin, if t < b.ymin then t else b.ymin,
   if r > b.xmax then r else b.xmax, if bt > b.ymax then bt else b.ymax⟩

def BBox.addBox (b : BBox) (x : Box) : BBox := b.update x.xmin x.ymin x.xmax x.ymax

def Box.bbox (x : Box) : BBox := ⟨x.xmin, x.ymin, x.xmax, x.ymax⟩

/-- `i / w > num/den` with NumPy's division by zero (`i ≥ 0`, `w ≥ 0`, `den > 0`) -/
def ratioGt (num den : Nat) (i w : Int) : Bool :=
  if w = 0 then decide (i > 0) else
  if w > 0 then decide (i * den > num * w) else decide (i * den < num * w)

/-- `CoupledRegions.intersect(region, vertical)` on bounding boxes -/
def intersect (num den : Nat) (a b : BBox) (vertical : Bool) : Bool :=
  if vertical && decide (a.xmin ≤ b.xmax) && decide (b.xmin ≤ a.xmax) then
    let i := min (a.xmin - b.xmax).natAbs (b.xmin - a.xmax).natAbs
    ratioGt num den i (a.xmax - a.xmin) && ratioGt num den i (b.xmax - b.xmin)
  else if !vertical && decide (a.ymin ≤ b.ymax) && decide (b.ymin ≤ a.ymax) then
    let i := min (a.ymin - b.ymax).natAbs (b.ymin - a.ymax).natAbs
    ratioGt num den i (a.ymax - a.ymin) && ratioGt num den i (b.ymax - b.ymin)
  else false

structure Group where
  members : List Box
  bbox : BBox
deriving Repr

/-- first member of `non` that intersects the group, with the rest (the `for … break`) -/
def pickFirst (num den : Nat) (vertical : Bool) (g : Group) : List Box → Option (Box × List Box)
  | [] => none
  | x :: xs =>
    if intersect num den g.bbox x.bbox vertical then some (x, xs)
    else (pickFirst num den vertical g xs).map fun (y, r) => (y, x :: r)

/-- the `while changed` loop -/
def grow (num den : Nat) (vertical : Bool) : Nat → Group → List Box → Group × List Box
  | 0, g, non => (g, non)
  | fuel + 1, g, non =>
    match pickFirst num den vertical g non with
    | none => (g, non)
    | some (x, rest) => grow num den vertical fuel ⟨g.members ++ [x], g.bbox.addBox x⟩ rest

/-- the `while len(non_aligned)` loop -/
def couple (num den : Nat) (vertical : Bool) : Nat → List Box → List Group
  | 0, _ => []
  | _, [] => []
  | fuel + 1, x :: non =>
    let (g, rest) := grow num den vertical (non.length + 1) ⟨[x], BBox.init.addBox x⟩ non
    g :: couple num den vertical fuel rest

/-- stable insertion-free sort by an integer key (Python `sorted`) -/
def sortBy {α : Type} (key : α → Int) (l : List α) : List α :=
  l.mergeSort fun a b => decide (key a ≤ key b)

/-- sum of the gaps between consecutive keys of the sorted list -/
def gaps : List Int → Nat
  | a :: b :: r => (a - b).natAbs + gaps (b :: r)
  | _ => 0

/-- `decouple`: order the members along the axis with the larger spread of minima -/
def decoupleOrder (bs : List Box) : List Box :=
  let xd := gaps ((sortBy (·.xmin) bs).map (·.xmin))
  let yd := gaps ((sortBy (·.ymin) bs).map (·.ymin))
  if xd > yd then sortBy (·.xmin) bs else sortBy (·.ymin) bs

/-- `divide_and_order` followed by `get_ordered_ids` for a group of leaves -/
def divide (num den : Nat) : Nat → List Box → Bool → Bool → Option (List Box)
  | 0, _, _, _ => none
  | fuel + 1, bs, vertical, hasParent =>
    if bs.length ≤ 1 then some bs else
    let groups := couple num den vertical bs.length bs
    let groups := if groups.length = 1 ∧ hasParent then
        (decoupleOrder ((groups.head?.map (·.members)).getD [])).map fun x => (⟨[x], BBox.init.addBox x⟩ : Group)
      else groups
    -- recursion into the groups with more than one member, in list order
    let results : Option (List (Group × List Box)) := groups.mapM fun g =>
      (if g.members.length > 1 then divide num den fuel g.members (!vertical) true else some g.members).map
        fun o => (g, o)
    match results with
    | none => none
    | some res =>
      let sorted := sortBy (fun (p : Group × List Box) => if vertical then p.1.bbox.xmin else p.1.bbox.ymin) res
      some (sorted.flatMap (·.2))

/-- `SmartRegionSorter.process_page` on boxes (zero skew): fewer than 2 regions are returned as they are. -/
def smartSort (num den : Nat) (bs : List Box) : Option (List Box) :=
  if bs.length < 2 then some bs else divide num den (2 * bs.length + 2) bs false false

/-! ### naive sorter

`labels` is DBSCAN's output (a parameter): one label per region, labels `0..k-1`.
`clusters, cluster_idxs = np.unique(labels, return_index=True)`; clusters are ordered by the key of
their first member, members by key (both stable). `none` = IndexError for a label outside `0..k-1`. -/
def uniq (labels : List Nat) : List Nat := (labels.mergeSort fun a b => decide (a ≤ b)).eraseDups

def firstIdx (labels : List Nat) (c : Nat) : Nat := labels.findIdx (· = c)

def naiveOrder (keys : List Int) (labels : List Nat) : Option (List Nat) :=
  let clusters := uniq labels
  let idxs := clusters.map (firstIdx labels)
  match clusters.mapM (fun c => (idxs[c]?).map fun i => (c, keys.getD i 0)) with
  | none => none
  | some cks =>
    let sortedClusters := (sortBy (·.2) cks).map (·.1)
    some (sortedClusters.flatMap fun c =>
      sortBy (fun i => keys.getD i 0) ((List.range labels.length).filter fun i => labels.getD i 0 = c))

end SS
