/-
Model of the discrete / algebraic skeleton of line cropping (pero_ocr/core/crop_engine.py) — C10 (PARTIAL:
polyfit, splines, atan2, arc length and cv2's fixed-point arithmetic are NOT modelled; see DESIGN §5-C10).

* `linspace a b n`         — `np.linspace`: the row offsets `vertical_map` and the arc-length samples
* `width`                  — `int(arc * target_height / ((h0 + h1) * scale))` on rationals
* `bilinear`, `subImage`   — `cv2.remap(..., INTER_LINEAR, BORDER_CONSTANT)` as exact bilinear sampling with a
                             zero border; `fast_remap`'s sub-image path vs the general path
* `cubicEvalMax` / `cubicDomainOK` — the domain logic of the cubic interpolant: nodes span
  `[left, left + L + 1/10]` (`coords[-1, 0] += 0.1`), evaluation points `arange(left, right)` and those
  `+ 0.1` (normals); `Gen.Crop.extrapolates`: is `fill_value='extrapolate'` passed (GENERATED).
* `cropOutcome`            — `crop`: any exception inside becomes a blank `H × 32` image.
-/
import PeroVerif.Generated.Crop

namespace Crop

/-- `np.linspace(a, b, n)` -/
def linspace (a b : Rat) (n : Nat) : List Rat :=
  if n = 0 then [] else if n = 1 then [a] else (List.range n).map fun (i : Nat) => a + (b - a) * ((i : Nat) : Rat) / (((n : Nat) : Rat) - 1)

/-- number of target columns: `int(arc * H / ((h0 + h1) * s))` for non-negative arguments -/
def width (arc h0 h1 s : Rat) (H : Nat) : Int := (arc * (H : Rat) / ((h0 + h1) * s)).floor

/-- a page: `px x y` for `0 ≤ x < w`, `0 ≤ y < h`; zero outside (BORDER_CONSTANT) -/
structure Image where
  w : Int
  h : Int
  px : Int → Int → Rat

def Image.at (im : Image) (x y : Int) : Rat :=
  if 0 ≤ x ∧ x < im.w ∧ 0 ≤ y ∧ y < im.h then im.px x y else 0

/-- exact bilinear sample at `(fx, fy)` -/
def bilinear (im : Image) (fx fy : Rat) : Rat :=
  let x0 := fx.floor
  let y0 := fy.floor
  let ax := fx - x0
  let ay := fy - y0
  (1 - ax) * (1 - ay) * im.at x0 y0 + ax * (1 - ay) * im.at (x0 + 1) y0 +
  (1 - ax) * ay * im.at x0 (y0 + 1) + ax * ay * im.at (x0 + 1) (y0 + 1)

/-- `img[ymin:ymax+1, xmin:xmax+1]` -/
def subImage (im : Image) (xmin ymin xmax ymax : Int) : Image :=
  { w := xmax - xmin + 1, h := ymax - ymin + 1, px := fun x y => im.at (x + xmin) (y + ymin) }

/-- `fast_remap` on one sample point; `(xmin, ymin, xmax, ymax)` = floor/ceil of the extreme coordinates -/
def fastSample (im : Image) (xmin ymin xmax ymax : Int) (fx fy : Rat) : Rat :=
  if xmin < 0 ∨ ymin < 0 ∨ xmax > im.w - 1 ∨ ymax > im.h - 1 then bilinear im fx fy
  else bilinear (subImage im xmin ymin xmax ymax) (fx - xmin) (fy - ymin)

/-- largest evaluation point (relative to `left`) of the interpolant for rotated baseline length `L ≥ 0`:
`arange(left, right)` with `right = left + L + 1/10` ends at `ceil(L + 1/10) - 1`; the normals evaluate `+ 1/10` -/
def cubicEvalMax (L : Rat) : Rat := ((L + 1/10).ceil - 1 : Int) + 1/10

/-- is every evaluation point inside the interpolant's domain `[0, L + 1/10]` (or does it extrapolate)? -/
def cubicDomainOK (L : Rat) : Bool := Gen.Crop.extrapolates || decide (cubicEvalMax L ≤ L + 1/10)

inductive Outcome where
  | cropped (height width : Nat)
  | blank (height : Nat)        -- `np.zeros([line_height, 32, channels])`
deriving DecidableEq, Repr

/-- `crop`: whatever goes wrong inside becomes a blank image of the configured height -/
def cropOutcome (H : Nat) (inner : Option Nat) : Outcome :=
  match inner with
  | some w => .cropped H w
  | none => .blank H

end Crop

/-! ### `reverse_line_mapping` and the sampling grid of a straight baseline (second part of the C10 model)

`get_crop_inputs` resamples the baseline through `reverse_line_mapping(forward_mapping, sample_positions,
sampled_values)`.  The loop is modelled literally, including Python's negative indexing (`xs[-1]` is the last
element), because the code relies on it: `forward_mapping[0] = 0` is never `>` a sample position, so the scan
never advances and the interpolation runs between index `-1` (the LAST sample) and index `0`. -/

namespace Crop

/-- Python indexing `xs[i]` for `-len ≤ i < len` (`none` = IndexError) -/
def pyGet (xs : List Rat) (i : Int) : Option Rat :=
  if 0 ≤ i then xs[i.toNat]?
  else if 0 ≤ (xs.length : Int) + i then xs[((xs.length : Int) + i).toNat]?
  else none

/-- `while forward_mapping[forward_position] > sample_positions[i]: forward_position += 1`
(`none` = IndexError when the scan runs off the end) -/
def advance (F : List Rat) (t : Rat) : Nat → Nat → Option Nat
  | 0, _ => none
  | fuel + 1, pos =>
    match F[pos]? with
    | none => none
    | some f => if f > t then advance F t fuel (pos + 1) else some pos

/-- the loop body for one sample position, starting the scan at `pos`; returns the new `pos` and the value -/
def reverseStep (F X : List Rat) (pos : Nat) (t : Rat) : Option (Nat × Rat) := do
  let pos' ← advance F t (F.length + 1) pos
  let f1 ← pyGet F pos'
  let f0 ← pyGet F ((pos' : Int) - 1)
  let x1 ← pyGet X pos'
  let x0 ← pyGet X ((pos' : Int) - 1)
  let d := f1 - f0
  let da := (t - f0) / d
  some (pos', (1 - da) * x0 + da * x1)

def reverseGo (F X : List Rat) : Nat → List Rat → Option (List Rat)
  | _, [] => some []
  | pos, t :: rest =>
    match reverseStep F X pos t with
    | none => none
    | some (pos', v) =>
      match reverseGo F X pos' rest with
      | none => none
      | some r => some (v :: r)

/-- `reverse_line_mapping(forward_mapping, sample_positions, sampled_values)` (`forward_position` persists
across samples) -/
def reverseLineMapping (F ts X : List Rat) : Option (List Rat) := reverseGo F X 0 ts

/-- `R = [[c, s], [-s, c]]`, applied to a row vector: `np.dot([x, y], R)` -/
structure Rot where
  c : Rat
  s : Rat

def Rot.apply (r : Rot) (p : Rat × Rat) : Rat × Rat := (p.1 * r.c - p.2 * r.s, p.1 * r.s + p.2 * r.c)

/-- The sampling grid of `get_crop_inputs` for a STRAIGHT baseline, in the frame rotated to the baseline
(the interpolant is the constant `y0`, so every unit step has length 1 and the normals are `(0, 1)`):
`left` = first rotated x, `n` = `len(np.arange(left, right))`, `h0 h1` = heights × scale, `H` = target height.
Row-major: `grid[r][c] = R.apply (x_c, y0 + v_r)`; `none` = an exception inside (blank crop). -/
def straightGrid (R : Rot) (left y0 : Rat) (n : Nat) (h0 h1 : Rat) (H : Nat) : Option (List (List (Rat × Rat))) :=
  let xsamples := (List.range n).map fun (i : Nat) => left + (i : Rat)
  let F := (List.range n).map fun (i : Nat) => ((i : Nat) : Rat)          -- concat([0], cumsum(ones))
  let L : Rat := ((n : Nat) : Rat) - 1
  let count := (L * ((H : Nat) : Rat) / (h0 + h1)).floor.toNat
  let ts := linspace 0 L count
  match reverseLineMapping F ts xsamples with
  | none => none
  | some xs =>
    let vmap := linspace (-h0) h1 H
    some (vmap.map fun v => xs.map fun x => R.apply (x, y0 + v))

/-- degree of the polynomial fitted through a baseline of `n` points for `INTERP = poly > 0`: two points give a straight line; otherwise
the configured degree, but never more than the points determine (`min(self.poly, n - 1)`) -/
def fitDegree (poly n : Nat) : Nat := if n > 2 then min poly (n - 1) else 1

end Crop
