/-
Model of the discrete / algebraic skeleton of line cropping (pero_ocr/core/crop_engine.py) — C10 (PARTIAL:
polyfit, splines, atan2, arc length and cv2's fixed-point arithmetic are NOT modelled; see DESIGN §5-C10).

* `linspace a b n`         — `np.linspace`: the row offsets `vertical_map` and the arc-length samples
* `width`                  — `int(arc * target_height / ((h0 + h1) * scale))` on rationals
* `bilinear`, `subImage`   — `cv2.remap(..., INTER_LINEAR, BORDER_CONSTANT)` as exact bilinear sampling with a
                             zero border; `fast_remap`'s sub-image path vs the general path
* `cubicEvalMax` / `cubicDomainOK` — the domain logic of the cubic interpolant: nodes span
  `[left, left + L + 1/10]` (`coords[-1, 0] += 0.1`), evaluation points `arange(left, right)` and those
  `+ 0.1` (normals); `Gen.Crop.extrapolates`: is `fill_value='extrapolate'` passed (GENERATED).
* `cropOutcome`            — `crop`: any exception inside becomes a blank `H × 32` image.
-/
import PeroVerif.Generated.Crop

namespace Crop

/-- `np.linspace(a, b, n)` -/
def linspace (a b : Rat) (n : Nat) : List Rat :=
  if n = 0 then [] else if n = 1 then [a] else (List.range n).map fun (i : Nat) => a + (b - a) * ((i : Nat) : Rat) / (((n : Nat) : Rat) - 1)

/-- number of target columns: `int(arc * H / ((h0 + h1) * s))` for non-negative arguments -/
def width (arc h0 h1 s : Rat) (H : Nat) : Int := (arc * (H : Rat) / ((h0 + h1) * s)).floor

/-- a page: `px x y` for `0 ≤ x < w`, `0 ≤ y < h`; zero outside (BORDER_CONSTANT) -/
structure Image where
  w : Int
  h : Int
  px : Int → Int → Rat

def Image.at (im : Image) (x y : Int) : Rat :=
  if 0 ≤ x ∧ x < im.w ∧ 0 ≤ y ∧ y < im.h then im.px x y else 0

/-- exact bilinear sample at `(fx, fy)` -/
def bilinear (im : Image) (fx fy : Rat) : Rat :=
  let x0 := fx.floor
  let y0 := fy.floor
  let ax := fx - x0
  let ay := fy - y0
  (1 - ax) * (1 - ay) * im.at x0 y0 + ax * (1 - ay) * im.at (x0 + 1) y0 +
  (1 - ax) * ay * im.at x0 (y0 + 1) + ax * ay * im.at (x0 + 1) (y0 + 1)

/-- `img[ymin:ymax+1, xmin:xmax+1]` -/
def subImage (im : Image) (xmin ymin xmax ymax : Int) : Image :=
  { w := xmax - xmin + 1, h := ymax - ymin + 1, px := fun x y => im.at (x + xmin) (y + ymin) }

/-- `fast_remap` on one sample point; `(xmin, ymin, xmax, ymax)` = floor/ceil of the extreme coordinates -/
def fastSample (im : Image) (xmin ymin xmax ymax : Int) (fx fy : Rat) : Rat :=
  if xmin < 0 ∨ ymin < 0 ∨ xmax > im.w - 1 ∨ ymax > im.h - 1 then bilinear im fx fy
  else bilinear (subImage im xmin ymin xmax ymax) (fx - xmin) (fy - ymin)

/-- largest evaluation point (relative to `left`) of the interpolant for rotated baseline length `L ≥ 0`:
`arange(left, right)` with `right = left + L + 1/10` ends at `ceil(L + 1/10) - 1`; the normals evaluate `+ 1/10` -/
def cubicEvalMax (L : Rat) : Rat := ((L + 1/10).ceil - 1 : Int) + 1/10

/-- is every evaluation point inside the interpolant's domain `[0, L + 1/10]` (or does it extrapolate)? -/
def cubicDomainOK (L : Rat) : Bool := Gen.Crop.extrapolates || decide (cubicEvalMax L ≤ L + 1/10)

inductive Outcome where
  | cropped (height width : Nat)
  | blank (height : Nat)        -- `np.zeros([line_height, 32, channels])`
deriving DecidableEq, Repr

/-- `crop`: whatever goes wrong inside becomes a blank image of the configured height -/
def cropOutcome (H : Nat) (inner : Option Nat) : Outcome :=
  match inner with
  | some w => .cropped H w
  | none => .blank H

end Crop
