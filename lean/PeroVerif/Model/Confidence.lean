/-
Model of the confidence computations (C16), in the probability domain over an abstract ordered
field given as a record of operations (executed with `Rat`):
* `get_line_confidence` / `get_line_confidence_transformer`   (pero_ocr/core/confidence_estimation.py)
* `get_letter_confidence` (after `exp`: the functions returns LOG-probabilities by its own docstring)
* `line_confident_enough`, `get_prob`/`compute_line_confidence` (pero_ocr/document_ocr/page_parser.py)
* `np.quantile(x, .5)` as used for line / word confidences        (pero_ocr/core/layout.py)
`none` results model NumPy errors (`max` of an empty array, index out of range).
-/
import PeroVerif.Model.Bag
import PeroVerif.Generated.Confidence

namespace Conf
open PB Bag

structure COps (R : Type) extends FOps R where
  sub : R → R → R

variable {R : Type}

def maxR (o : COps R) (a b : R) : R := if o.lt a b then b else a
def minR (o : COps R) (a b : R) : R := if o.lt b a then b else a

/-- `max` of a non-empty list, `none` for an empty one (NumPy raises) -/
def maxL (o : COps R) : List R → Option R
  | [] => none
  | x :: xs => some (xs.foldl (maxR o) x)

def minL (o : COps R) : List R → Option R
  | [] => none
  | x :: xs => some (xs.foldl (minR o) x)

/-- `row[c] = 0` -/
def zeroAt (o : COps R) (row : List R) (c : Nat) : List R := row.set c o.zero

/-- One label of `get_line_confidence`. `al` is the alignment extended by the sentinel (`Gen.Confidence.sentinel`, GENERATED);
the window border `Gen.Confidence.nextBorder` is GENERATED from the source as well. -/
def labelConfidence (o : COps R) (probs : List (List R)) (labels al : List Nat) (i lastBorder : Nat) :
    Option (R × Nat) :=
  match labels[i]?, al[i]?, al[i+1]? with
  | some label, some a, some a' =>
    match probs[a]? with
    | none => none
    | some row =>
      match row[label]? with
      | none => none
      | some labelProb =>
        let nextBorder := (Gen.Confidence.nextBorder (a : Int) (a' : Int)).toNat     -- GENERATED from the source
        let pos := (probs.drop lastBorder).take (nextBorder - lastBorder)
        let mask := fun (r : List R) =>
          let r1 := zeroAt o r label
          let r2 := if i > 0 then zeroAt o r1 (labels.getD (i - 1) 0) else r1
          let r3 := if i + 1 < labels.length then zeroAt o r2 (labels.getD (i + 1) 0) else r2
          r3.dropLast
        match maxL o ((pos.map mask).flatten) with
        | none => none
        | some other => some (maxR o o.zero (o.sub labelProb other), nextBorder)
  | _, _, _ => none

def lineConfAux (o : COps R) (probs : List (List R)) (labels al : List Nat) :
    Nat → Nat → Nat → Option (List R)
  | 0, _, _ => some []
  | n + 1, i, lastBorder =>
    match labelConfidence o probs labels al i lastBorder with
    | none => none
    | some (c, nb) => (lineConfAux o probs labels al n (i + 1) nb).map (c :: ·)

/-- `get_line_confidence` (CTC branch) -/
def lineConfidence (o : COps R) (probs : List (List R)) (labels alignment : List Nat) : Option (List R) :=
  lineConfAux o probs labels (alignment ++ [(Gen.Confidence.sentinel (probs.length : Int)).toNat]) labels.length 0 0

/-- `get_line_confidence_transformer`: `probs[arange(n), labels]` -/
def lineConfidenceTransformer (probs : List (List R)) (labels : List Nat) : Option (List R) :=
  (List.range labels.length).mapM fun i =>
    match probs[i]?, labels[i]? with
    | some row, some l => row[l]?
    | _, _ => none

/-- `get_line_confidence`: one frame per label (transformer output) needs no alignment. -/
def getLineConfidence (o : COps R) (probs : List (List R)) (labels alignment : List Nat) : Option (List R) :=
  if probs.length = labels.length then lineConfidenceTransformer probs labels
  else lineConfidence o probs labels alignment

/-- `line_confident_enough`: the smallest per-frame maximum exceeds the threshold. -/
def lineConfidentEnough (o : COps R) (probs : List (List R)) (thr : R) : Option Bool :=
  match probs.mapM (maxL o) with
  | none => none
  | some bests => (minL o bests).map fun w => o.lt thr w

/-- `get_prob`: over runs of equal arg-max ids take the maximum probability, over runs the minimum. -/
def getProbAux (o : COps R) : Int → R → R → List (Nat × R) → R
  | _, lastProb, worst, [] => minR o worst lastProb
  | lastId, lastProb, worst, (id, p) :: r =>
    if (id : Int) ≠ lastId then getProbAux o id p (minR o worst lastProb) r
    else getProbAux o lastId (maxR o p lastProb) worst r

def getProb (o : COps R) (best : List (Nat × R)) : R := getProbAux o (-1) o.one o.one best

/-- `get_letter_confidence` in the probability domain: the per-frame probability of the aligned
symbol, grouped by runs of the alignment, maximum per non-blank run. -/
def letterGroups : List (Nat × R) → List (Nat × List R)
  | [] => []
  | (s, p) :: r =>
    match letterGroups r with
    | (s', g) :: gs => if s' = s then (s, p :: g) :: gs else (s, [p]) :: (s', g) :: gs
    | [] => [(s, [p])]

def letterConfidence (o : COps R) (probs : List (List R)) (alignment : List Nat) (blank : Nat) :
    Option (List R) :=
  match (List.range alignment.length).mapM (fun t =>
      match probs[t]?, alignment[t]? with
      | some row, some s => (row[s]?).map fun p => (s, p)
      | _, _ => none) with
  | none => none
  | some fr => ((letterGroups fr).filter (·.1 ≠ blank)).mapM fun g => maxL o g.2

/-- `np.quantile(x, .5)` (linear interpolation): middle element, or the mean of the two middle ones. -/
def median (o : COps R) (two : R) (xs : List R) : Option R :=
  let s := xs.mergeSort fun a b => !(o.lt b a)
  let n := s.length
  if n = 0 then none
  else if n % 2 = 1 then s[n / 2]?
  else match s[n / 2 - 1]?, s[n / 2]? with
    | some a, some b => some (o.div (o.add a b) two)
    | _, _ => none

end Conf
