/-
Model of `pero_ocr/core/force_alignment.py` (C05).  Costs are exact integers or +∞
(`Cost = Option Int`, `none` = `np.inf`) — domain D1 of DESIGN §3.

Python pipeline (`force_align`):
  complete_state_seq  : ValueError if blank ∈ labels;  states = [b, l0, b, l1, …, b]
  hmm_trans_from_string : ValueError if labels = [];  stay, +1, and +2 from an odd state to a different label
  expand_logits       : M[:, states]
  viterbi_align       : first = initial_cost + frame0 (states 0,1);  per frame `compute_update`
                        (pairs (j,i) in row-major order of `np.where(A != inf)`, strict `<`, backpointer
                        default 0);  final = cost + final_cost (last two states);  ValueError if min = inf;
                        `argmin` = first minimum;  backtrack through the backpointers.
-/
import PeroVerif.Model.Ctc

namespace FA

abbrev Cost := Option Int   -- none = +inf

def addC : Cost → Cost → Cost
  | some a, some b => some (a + b)
  | _, _ => none

/-- strict `<` on costs, `inf < x` is false, `x < inf` is true for finite `x` -/
def ltC : Cost → Cost → Bool
  | some a, some b => decide (a < b)
  | some _, none => true
  | none, _ => false

def leC (a b : Cost) : Bool := !ltC b a

inductive Err where
  | blankInLabels   -- ValueError (complete_state_seq)
  | emptyLabels     -- ValueError (hmm_trans_from_string)
  | index           -- IndexError (label outside the matrix, or no frames)
  | unalignable     -- ValueError: best path has cost inf
deriving DecidableEq, Repr

/-- `complete_state_seq`: `[b, l0, b, l1, …, b]` -/
def states (blank : Nat) : List Nat → List Nat
  | [] => [blank]
  | l :: ls => blank :: l :: states blank ls

/-- `char_sequence`: `-1` (none) on blank states, the label index on label states. -/
def charSeq (n : Nat) : List (Option Nat) :=
  (List.range (2 * n + 1)).map fun i => if i % 2 = 1 then some (i / 2) else none

/-- `A[j, i] != inf` -/
def allowed (labels : List Nat) (j i : Nat) : Bool :=
  let nb := 2 * labels.length + 1
  i == j || i == j + 1 ||
    (i == j + 2 && j % 2 == 1 && decide (j < nb - 2) && (labels[j / 2]? != labels[j / 2 + 1]?))

/-- One target state of `compute_update`: scan the sources `j` in ascending order. -/
def updateCell (labels : List Nat) (act : List Cost) (fi : Cost) (i : Nat) : Cost × Nat :=
  (List.range act.length).foldl
    (fun (st : Cost × Nat) j =>
      if allowed labels j i then
        let u := addC (act.getD j none) fi
        if ltC u st.1 then (u, j) else st
      else st)
    (none, 0)

/-- `compute_update`: new costs and backpointers for one frame (already expanded to states). -/
def update (labels : List Nat) (act : List Cost) (frame : List Cost) : List Cost × List Nat :=
  let cells := (List.range act.length).map fun i => updateCell labels act (frame.getD i none) i
  (cells.map (·.1), cells.map (·.2))

/-- `expand_logits` for one frame; `none` if a state symbol is outside the frame (IndexError). -/
def expand (row : List Cost) (sts : List Nat) : Option (List Cost) :=
  sts.mapM fun s => row[s]?

/-- `np.argmin` (first minimum) of a cost list, with the minimum. -/
def argminC : List Cost → Nat × Cost
  | [] => (0, none)
  | x :: xs =>
    let rec go (best : Cost) (bi i : Nat) : List Cost → Nat × Cost
      | [] => (bi, best)
      | y :: ys => if ltC y best then go y i (i + 1) ys else go best bi (i + 1) ys
    go x 0 1 xs

/-- `backtrack`: `bps` are the backpointer rows of frames `1..T-1` in REVERSE order. -/
def backtrack : List (List Nat) → Nat → List Nat → List Nat
  | [], s, acc => s :: acc
  | bp :: rest, s, acc => backtrack rest (bp.getD s 0) (s :: acc)

/-- `viterbi_align` on expanded frames; returns the state path. -/
def viterbi (labels : List Nat) (frames : List (List Cost)) : Except Err (List Nat) :=
  match frames with
  | [] => .error .index
  | f0 :: rest =>
    let nb := 2 * labels.length + 1
    let first : List Cost := (List.range nb).map fun i => if i < 2 then f0.getD i none else none
    let (act, bps) := rest.foldl
      (fun (st : List Cost × List (List Nat)) fr =>
        let (c, bp) := update labels st.1 fr
        (c, bp :: st.2))
      (first, [])
    let final : List Cost := (List.range nb).map fun i => if nb - 2 ≤ i then act.getD i none else none
    let (fs, m) := argminC final
    match m with
    | none => .error .unalignable
    | some _ => .ok (backtrack bps fs [])

/-- State path of `force_align`. -/
def statePath (M : List (List Cost)) (labels : List Nat) (blank : Nat) : Except Err (List Nat) :=
  if blank ∈ labels then .error .blankInLabels
  else if labels = [] then .error .emptyLabels
  else
    match M.mapM (fun row => expand row (states blank labels)) with
    | none => .error .index
    | some frames => viterbi labels frames

/-- `force_align(..., return_seq_positions=False)`: one symbol per frame. -/
def forceAlign (M : List (List Cost)) (labels : List Nat) (blank : Nat) : Except Err (List Nat) :=
  (statePath M labels blank).map fun p => p.map fun s => (states blank labels).getD s blank

/-- `force_align(..., return_seq_positions=True)`: label index per frame (`none` = -1 = blank). -/
def forceAlignPos (M : List (List Cost)) (labels : List Nat) (blank : Nat) :
    Except Err (List (Option Nat)) :=
  (statePath M labels blank).map fun p => p.map fun s => if s % 2 = 1 then some (s / 2) else none

/-- `(-neg_logprobs).max(axis=-1)` as a cost: the minimum cost of the frame. -/
def frameMin (row : List Cost) : Cost := (argminC row).2

/-- `align_text`: for every label the first frame, among those aligned to it, with the smallest
`frameMin` (= largest max-probability).  `none` inside = Python's `argmax of empty sequence` error. -/
def alignText (M : List (List Cost)) (labels : List Nat) (blank : Nat) :
    Except Err (List (Option Nat)) :=
  (forceAlignPos M labels blank).map fun pos =>
    (List.range labels.length).map fun i =>
      let frames := (List.range pos.length).filter fun t => pos.getD t none == some i
      match frames with
      | [] => none
      | _ => some (frames.getD (argminC (frames.map fun t => frameMin (M.getD t []))).1 0)

/-- Cost of a symbol path (out-of-range symbol or missing frame = +inf). -/
def pathCost : List (List Cost) → List Nat → Cost
  | [], [] => some 0
  | row :: M, s :: p => addC (row.getD s none) (pathCost M p)
  | _, _ => none

end FA
