/-
Model of `CTCPrefixLogRawNumpyDecoder.__call__` (pero_ocr/decoding/decoders.py) — C02, C03.

Probability domain (DESIGN §3, D3): the decoder works on log-probabilities with `logaddexp`; the
model runs the same algorithm over an abstract record of operations `Ops R`
(`logaddexp ↔ add`, `+ ↔ mul`, `-inf ↔ zero`, `0.0 ↔ one`), executed with exact rationals in the
driver and proved for ordered commutative semirings in `Lemmas/`/`Props/`.

One frame of the Python loop (beam entries `i`, selected non-blank symbols `S`):
  total_Pnb[i, c]    = logaddexp(Pb[i] + Pc[c], [c ≠ last_i] (Pnb[i] + Pc[c]))          (extension)
  total_Pnb[i, stay] = Pnb[i] + Pc[last_i]    (−inf if last_i ∉ S)                       (continuation)
  adjust_for_prefix_joining: for every non-empty prefix q whose prefix[:-1] is in the beam as j:
        total_Pnb[q, stay] ⊕= total_Pnb[j, last_q];  total_Pnb[j, last_q] = −inf
  total_Pb[i]        = logaddexp(Pb[i], Pnb[i]) + Pc[blank]
  score: extension → total_Pnb[i, c]; stay → logaddexp(total_Pb[i], total_Pnb[i, stay])  (+ scale·Plm)
  keep  min(k, #finite)  best candidates (np.argpartition: any top-k set).
If `S = ∅`: Pb = logaddexp(Pb, Pnb) + Pc[blank]; Pnb = −inf; beam unchanged.
-/
namespace PB

structure Ops (R : Type) where
  zero : R
  one : R
  add : R → R → R
  mul : R → R → R
  lt : R → R → Bool

/-- A language model in the probability domain: `prob h c` already includes the insertion-bonus
factor, as `compute_Plm` adds the bonus to every per-character score. -/
structure LM (H R : Type) where
  adv : H → Nat → H
  prob : H → Nat → R
  eos : H → R

structure Entry (H R : Type) where
  pre : List Nat
  last : Nat
  pb : R
  pnb : R
  plm : R
  h : H

variable {H R : Type}

def score (o : Ops R) (e : Entry H R) : R := o.add e.pb e.pnb

def rowAt (o : Ops R) (row : List R) (c : Nat) : R := row.getD c o.zero

/-- `Pc[-1]` -/
def blankP (o : Ops R) (row : List R) : R := row.getD (row.length - 1) o.zero

/-- `select_relevant_logits(Pc[:-1])` for a selector given as a predicate on the probability. -/
def selected (o : Ops R) (sel : R → Bool) (row : List R) : List Nat :=
  (List.range (row.length - 1)).filter fun c => sel (rowAt o row c)

/-- `total_Pnb[i, c]` before joining. -/
def ext (o : Ops R) (row : List R) (e : Entry H R) (c : Nat) : R :=
  o.add (o.mul e.pb (rowAt o row c)) (if c = e.last then o.zero else o.mul e.pnb (rowAt o row c))

/-- Does beam entry `q` absorb the extension of `e` by `c` (prefix joining)? -/
def absorbs (q e : Entry H R) (c : Nat) : Bool :=
  q.pre ≠ [] && q.pre.dropLast == e.pre && q.last == c

/-- `total_Pnb[i, c]` after joining. -/
def extJ (o : Ops R) (S : List Nat) (beam : List (Entry H R)) (row : List R) (e : Entry H R) (c : Nat) : R :=
  if beam.any (fun q => absorbs q e c && S.contains q.last) then o.zero else ext o row e c

/-- `total_Pnb[q, stay]` after joining. -/
def stayPnb (o : Ops R) (S : List Nat) (beam : List (Entry H R)) (row : List R) (q : Entry H R) : R :=
  let cont := o.mul q.pnb (if S.contains q.last then rowAt o row q.last else o.zero)
  if q.pre = [] then cont
  else match beam.find? (fun e => e.pre == q.pre.dropLast) with
    | some e => if S.contains q.last then o.add cont (ext o row e q.last) else cont
    | none => cont

def stayPb (o : Ops R) (row : List R) (e : Entry H R) : R :=
  o.mul (o.add e.pb e.pnb) (blankP o row)

/-- All candidates of one frame, in the row-major order of `total_P`. -/
def candidates (o : Ops R) (lm : LM H R) (S : List Nat) (beam : List (Entry H R)) (row : List R) :
    List (Entry H R) :=
  beam.flatMap fun e =>
    (S.map fun c =>
      ({ pre := e.pre ++ [c], last := c, pb := o.zero, pnb := extJ o S beam row e c,
         plm := o.mul e.plm (lm.prob e.h c), h := lm.adv e.h c } : Entry H R)) ++
    [{ e with pb := stayPb o row e, pnb := stayPnb o S beam row e }]

/-- Stable descending sort by `key`, keep `k` — the executable instance of the beam cut
(`np.argpartition` may return any top-`k` set; theorems quantify over every admissible cut). -/
def topK (o : Ops R) (key : Entry H R → R) (k : Nat) (l : List (Entry H R)) : List (Entry H R) :=
  (l.mergeSort fun a b => !(o.lt (key a) (key b))).take k

/-- One frame. `choose k cands` is the beam cut. -/
def step (o : Ops R) (lm : LM H R) (sel : R → Bool) (k : Nat)
    (choose : Nat → List (Entry H R) → List (Entry H R))
    (beam : List (Entry H R)) (row : List R) : List (Entry H R) :=
  let S := selected o sel row
  if S.isEmpty then
    beam.map fun e => { e with pb := stayPb o row e, pnb := o.zero }
  else
    let pos := (candidates o lm S beam row).filter fun c => o.lt o.zero (score o c)
    choose (min k pos.length) pos

def init (o : Ops R) (h0 : H) : List (Entry H R) :=
  [{ pre := [], last := 0, pb := o.one, pnb := o.zero, plm := o.one, h := h0 }]

def rowSum (o : Ops R) (row : List R) : R := row.foldl o.add o.zero

/-- `logprobs_max_deviation(logits) > tol` : some row sum is outside `[1 - tol, 1 + tol]`. -/
def unnormalised (o : Ops R) (tol : R) (M : List (List R)) : Bool :=
  M.any fun row => o.lt (o.add o.one tol) (rowSum o row) || o.lt (o.add (rowSum o row) tol) o.one

inductive Err where
  | reject      -- ValueError('Expected properly normalized logits')
deriving DecidableEq, Repr

/-- The beam after all frames (or rejection). -/
def decodeBeam (o : Ops R) (lm : LM H R) (sel : R → Bool) (k : Nat)
    (choose : Nat → List (Entry H R) → List (Entry H R)) (tol : R) (h0 : H) (M : List (List R)) :
    Except Err (List (Entry H R)) :=
  if unnormalised o tol M then .error .reject
  else .ok (M.foldl (step o lm sel k choose) (init o h0))

/-- A returned hypothesis: transcript, visual score `Pom`, LM score, LM state. -/
structure Hyp (H R : Type) where
  pre : List Nat
  vis : R
  lm : R
  h : H

/-- `Pom = logaddexp(Pb, Pnb)`; `Plm += eos_scores(h)` when `model_eos`. -/
def finish (o : Ops R) (lm : LM H R) (modelEos : Bool) (beam : List (Entry H R)) : List (Hyp H R) :=
  beam.map fun e => { pre := e.pre, vis := score o e, lm := if modelEos then o.mul e.plm (lm.eos e.h) else e.plm, h := e.h }

def decode (o : Ops R) (lm : LM H R) (sel : R → Bool) (k : Nat)
    (choose : Nat → List (Entry H R) → List (Entry H R)) (tol : R) (h0 : H) (modelEos : Bool)
    (M : List (List R)) : Except Err (List (Hyp H R)) :=
  (decodeBeam o lm sel k choose tol h0 M).map (finish o lm modelEos)

/-- The LM-free decoder: trivial LM, cut by visual score. -/
def trivialLM (o : Ops R) : LM Unit R := { adv := fun _ _ => (), prob := fun _ _ => o.one, eos := fun _ => o.one }

def powN (o : Ops R) (x : R) : Nat → R
  | 0 => o.one
  | n + 1 => o.mul x (powN o x n)

/-- Ranking key for LM scale `num/den` (log domain: `vis + (num/den)·plm`; monotone-equivalent in the
probability domain: `vis^den · plm^num`). `num = 0` ignores the LM. -/
def fusedKey (o : Ops R) (num den : Nat) (e : Entry H R) : R :=
  o.mul (powN o (score o e) den) (powN o e.plm num)

end PB
