/-
Model of `BagOfHypotheses` (pero_ocr/decoding/bag_of_hypotheses.py) in the probability domain —
C03, C16.  A hypothesis' total score `vis_sc + lm_weight * lm_sc` (log domain) is an abstract
positive weight `t` here; `posteriors = t_i / Σ t`, `confidence = max posterior`.
-/
import PeroVerif.Model.PrefixBeam

namespace Bag
open PB

structure FOps (R : Type) extends Ops R where
  div : R → R → R

variable {R : Type}

def total (f : FOps R) (ts : List R) : R := ts.foldl f.add f.zero

/-- `posteriors()` : `exp(s_i - logsumexp(s))` -/
def posteriors (f : FOps R) (ts : List R) : List R := ts.map fun t => f.div t (total f ts)

/-- Python's `max(...)` / `np.argmax`: index of the first maximum; `none` for an empty bag
(`max()` of an empty sequence raises). -/
def argmaxIdx (lt : R → R → Bool) : List R → Option Nat
  | [] => none
  | x :: xs =>
    let rec go (best : R) (bi i : Nat) : List R → Nat
      | [] => bi
      | y :: ys => if lt best y then go y i (i + 1) ys else go best bi (i + 1) ys
    some (go x 0 1 xs)

/-- `confidence()` : the largest posterior. -/
def confidence (f : FOps R) (ts : List R) : Option R :=
  (argmaxIdx f.lt (posteriors f ts)).map fun i => (posteriors f ts).getD i f.zero

/-- `best_hyp()` selects by `bestKeys` (the translator records which expression the source uses). -/
def bestIdx (f : FOps R) (bestKeys : List R) : Option Nat := argmaxIdx f.lt bestKeys

/-- `transcript_confidence(transcript)`: posterior of the first hypothesis with that transcript, else 0. -/
def transcriptConfidence {τ : Type} [DecidableEq τ] (f : FOps R) (trs : List τ) (ts : List R) (x : τ) : R :=
  match trs.findIdx? (· = x) with
  | some i => (posteriors f ts).getD i f.zero
  | none => f.zero

end Bag
