/-
Model of `assign_lines_to_regions` (pero_ocr/layout_engines/layout_helpers.py) and of the id scheme of
`LayoutExtractor.process_page` (pero_ocr/document_ocr/page_parser.py) — C11 (PARTIAL: everything
shapely computes — `mask_textline_by_region` — enters as the parameter `mask`).

    candidates = not ((maxL.y <= minR.y or minL.y >= maxR.y) and (maxL.x <= minR.x or minL.x >= maxR.x))
    for line_id, region_id in zip(*candidates.nonzero()):          -- row-major: by line, then by region
        b, t = mask_textline_by_region(baseline, textline, region.polygon)
        if b is not None and t is not None:
            region.lines.append(TextLine(id='{}-l{:03d}'.format(region.id, line_id + 1), baseline=b, polygon=t, heights=heights))
-/
import PeroVerif.Py.Decimal
import PeroVerif.Generated.Layout

namespace Asg
open Py

structure BBox where
  xmin : Int
  ymin : Int
  xmax : Int
  ymax : Int
deriving DecidableEq, Repr

/-- the pre-filter on bounding boxes -/
def candidate (l r : BBox) : Bool :=
  !((decide (l.ymax ≤ r.ymin) || decide (l.ymin ≥ r.ymax)) && (decide (l.xmax ≤ r.xmin) || decide (l.xmin ≥ r.xmax)))

/-- `'{:03d}'.format(n)` -/
def pad3 (n : Nat) : Str := padZeros 3 (showNat n)

/-- `'{}-l{:03d}'.format(region_id, line_index + 1)` -/
def lineId (rid : Str) (i : Nat) : Str := rid ++ [45, 108] ++ pad3 (i + 1)

structure Placed (G : Type) where
  id : Str
  geom : G          -- (clipped baseline, clipped outline) as returned by `mask`
  heights : Nat     -- payload: index of the detected line whose heights are kept

structure Region (G : Type) where
  id : Str
  bbox : BBox
  lines : List (Placed G)

variable {G : Type}

/-- one (line, region) pair of the loop -/
def placeOne (mask : Nat → Nat → Option G) (lineBoxes : List BBox) (li : Nat) (regs : List (Region G)) (ri : Nat) :
    List (Region G) :=
  match regs[ri]?, lineBoxes[li]? with
  | some r, some lb =>
    if candidate lb r.bbox then
      match mask li ri with
      | some g => regs.set ri { r with lines := r.lines ++ [⟨lineId r.id li, g, li⟩] }
      | none => regs
    else regs
  | _, _ => regs

/-- `assign_lines_to_regions`: `mask li ri` is shapely's answer for detected line `li` and region `ri` -/
def assign (mask : Nat → Nat → Option G) (lineBoxes : List BBox) (regs : List (Region G)) : List (Region G) :=
  (List.range lineBoxes.length).foldl
    (fun acc li => (List.range regs.length).foldl (fun acc' ri => placeOne mask lineBoxes li acc' ri) acc) regs

/-- `mask_textline_by_region` keeps the longest piece (first maximum, `np.argmax`) -/
def pickLongest (lens : List Nat) : Option Nat :=
  match lens with
  | [] => none
  | x :: xs => some ((xs.foldl (fun (st : Nat × Nat × Nat) y => if st.2.1 < y then (st.2.2, y, st.2.2 + 1) else (st.1, st.2.1, st.2.2 + 1)) (0, x, 1)).1)

/-! ### line ids across the orientation passes of `LayoutExtractor.process_page`

With given regions (`detect_lines ∧ ¬detect_regions`) every pass appends to the same regions.
`Gen.Layout.rotSuffix`: does the source suffix the ids of lines found in a rotated pass (`rot > 0`)
with `_{rot}`? -/
def passLineId (rid : Str) (i rot : Nat) : Str :=
  if Gen.Layout.rotSuffix ∧ rot > 0 then lineId rid i ++ [95] ++ showNat rot else lineId rid i

/-- ids produced for one region over the passes `rots`, pass `k` placing the detected-line indices `placed k` -/
def passIds (rid : Str) (rots : List Nat) (placed : Nat → List Nat) : List Str :=
  rots.flatMap fun rot => (placed rot).map fun i => passLineId rid i rot

end Asg
