/-
Model of `order_lines_vertical` (pero_ocr/layout_engines/layout_helpers.py) — C18.

    baselines_order = [baseline[0][1] + random.uniform(0.001, 0.999) for baseline in baselines]
    baselines = [b for _, b in sorted(zip(baselines_order, baselines))]
    heights   = [h for _, h in sorted(zip(baselines_order, heights))]
    textlines = [t for _, t in sorted(zip(baselines_order, textlines))]

Three SEPARATE sorts of `(key, payload)` tuples with the same key list.  Python compares tuples lexicographically;
with pairwise distinct keys (the jitter's purpose) the payload is never compared and `sorted` is the sort by key.
The model sorts by key with a stable insertion sort; `keys` are the jittered values (the jitter is an input).
-/
namespace OrdL

/-- insert `x` into a list sorted by key, after all elements with a key `≤` its own (stable) -/
def insertBy {α : Type} (x : Rat × α) : List (Rat × α) → List (Rat × α)
  | [] => [x]
  | y :: ys => if x.1 < y.1 then x :: y :: ys else y :: insertBy x ys

/-- stable sort by the first component -/
def sortByKey {α : Type} (l : List (Rat × α)) : List (Rat × α) := l.foldl (fun acc x => insertBy x acc) []

/-- one of the three sorts: `[p for _, p in sorted(zip(keys, payloads))]` -/
def reorder {α : Type} (keys : List Rat) (payloads : List α) : List α := (sortByKey (keys.zip payloads)).map Prod.snd

/-- `order_lines_vertical(baselines, heights, textlines)` given the jittered keys -/
def orderLines {β η τ : Type} (keys : List Rat) (bs : List β) (hs : List η) (ts : List τ) : List β × List η × List τ :=
  (reorder keys bs, reorder keys hs, reorder keys ts)

end OrdL
