/-
Model of `pero_ocr/sequence_alignment.py` (C13; used by C14, C15).

Core Lean only (no Mathlib) so that the driver links natively.

The Python code keeps one rolling row `dist` of length `|target|+1` and, for the alignment
variants, a backtrack matrix with entries `1` (consume source only: "del"), `0` (consume both:
"sub"/match) and `-1` (consume target only: "ins").  One row update is

    cost4sub = dist[:-1] + (target != s) * sub_cost
    dist    += del_cost
    where_sub = cost4sub < dist[1:]            -- strict: on a tie the deletion is kept
    ...                                        -- then, left to right:
    if dist[jj+1] > dist[jj] + ins_cost: dist[jj+1] = dist[jj] + ins_cost   -- strict again

`levenshtein_distance` computes the same values with `np.minimum`.  The model fuses the vector
step and the sweep into one left-to-right pass (`stepAux`); cell `j+1` of the new row reads the old
cells `j`, `j+1` and the *new* cell `j`, exactly as the two Python passes do.
-/
namespace Lev

structure Costs where
  sub : Nat
  ins : Nat
  del : Nat
deriving Repr

inductive Tag where
  | del   -- backtrack value  1 : consume a source symbol only
  | sub   -- backtrack value  0 : consume one symbol of each
  | ins   -- backtrack value -1 : consume a target symbol only
deriving DecidableEq, Repr

def Tag.toInt : Tag → Int
  | .del => 1
  | .sub => 0
  | .ins => -1

abbrev Cell := Nat × Tag

variable {α : Type} [DecidableEq α]

def subCost (c : Costs) (t s : α) : Nat := if t = s then 0 else c.sub

/-- Row 0: `dist = arange(|t|+1) * ins`, `backtrack[0] = -1`. -/
def initRow (c : Costs) (t : List α) : List Cell :=
  (List.range (t.length + 1)).map fun j => (j * c.ins, Tag.ins)

/-- One cell: vector step (`where_sub`, strict) then the insertion sweep (strict). -/
def cell (c : Costs) (s tj : α) (left diag up : Nat) : Cell :=
  let v0 : Cell := if diag + subCost c tj s < up + c.del then (diag + subCost c tj s, Tag.sub)
                   else (up + c.del, Tag.del)
  if v0.1 > left + c.ins then (left + c.ins, Tag.ins) else v0

/-- The cells `1..` of the new row. `left` is the new cell to the left, the second argument is the
old row from the cell diagonally up-left onwards, the third the remaining target symbols. -/
def stepAux (c : Costs) (s : α) : Nat → List Cell → List α → List Cell
  | left, diag :: up :: rest, tj :: ts =>
      let v := cell c s tj left diag.1 up.1
      v :: stepAux c s v.1 (up :: rest) ts
  | _, _, _ => []

/-- One source symbol: `dist[0] += del` (backtrack column 0 stays `1`), then the sweep. -/
def rowStep (c : Costs) (t : List α) (row : List Cell) (s : α) : List Cell :=
  match row with
  | [] => []
  | d0 :: _ => (d0.1 + c.del, Tag.del) :: stepAux c s (d0.1 + c.del) row t

/-- All rows of the DP, row `i` belongs to `source.take i`. -/
def rows (c : Costs) (t : List α) : List Cell → List α → List (List Cell)
  | row, [] => [row]
  | row, s :: ss => row :: rows c t (rowStep c t row s) ss

def lastRow (c : Costs) (s t : List α) : List Cell :=
  s.foldl (rowStep c t) (initRow c t)

/-- `levenshtein_distance`. -/
def dist (c : Costs) (s t : List α) : Nat :=
  match (lastRow c s t).getLast? with
  | some x => x.1
  | none => 0   -- unreachable: rows are never empty (`lastRow_length`)

def tagAt (rs : List (List Cell)) (i j : Nat) : Option Tag :=
  match rs[i]? with
  | none => none
  | some r => match r[j]? with
    | none => none
    | some x => some x.2

/-- The backtracking loop; `none` would be an index error in Python (proved impossible). -/
def back (rs : List (List Cell)) (s t : List α) :
    Nat → Nat → Nat → List (Option α × Option α) → Option (List (Option α × Option α))
  | 0, i, j, acc => if i = 0 ∧ j = 0 then some acc else none
  | fuel + 1, i, j, acc =>
    if i = 0 ∧ j = 0 then some acc else
    match tagAt rs i j with
    | none => none
    | some .del =>
      match i, s[i-1]? with
      | i' + 1, some x => back rs s t fuel i' j ((some x, none) :: acc)
      | _, _ => none
    | some .sub =>
      match i, j, s[i-1]?, t[j-1]? with
      | i' + 1, j' + 1, some x, some y => back rs s t fuel i' j' ((some x, some y) :: acc)
      | _, _, _, _ => none
    | some .ins =>
      match j, t[j-1]? with
      | j' + 1, some y => back rs s t fuel i j' ((none, some y) :: acc)
      | _, _ => none

/-- `levenshtein_alignment` (pairs, `none` = the empty symbol). -/
def alignment (c : Costs) (s t : List α) : Option (List (Option α × Option α)) :=
  back (rows c t (initRow c t) s) s t (s.length + t.length) s.length t.length []

/-- `levenshtein_alignment_path`: the same walk, recorded as `1 / 0 / -1`. -/
def pathOf : List (Option α × Option α) → List Int
  | [] => []
  | (some _, none) :: r => 1 :: pathOf r
  | (some _, some _) :: r => 0 :: pathOf r
  | (none, some _) :: r => (-1) :: pathOf r
  | (none, none) :: r => pathOf r

def alignmentPath (c : Costs) (s t : List α) : Option (List Int) :=
  (alignment c s t).map pathOf

/-- `edit_stats_for_alignment`: `(nphn, ncor, nins, ndel, nsub)`; the first component of a pair is
the hypothesis symbol, the second the reference symbol (as `ErrorsSummary.from_lists` calls it with
`levenshtein_alignment(hyp, ref)`). -/
def editStats (al : List (Option α × Option α)) : Nat × Nat × Nat × Nat × Nat :=
  let ncor := (al.filter fun p => p.1 = p.2).length
  let ndel := (al.filter fun p => p.1 = none).length
  let nphn := (al.filter fun p => p.2 ≠ none).length
  let nins := al.length - nphn
  let nsub := nphn - ncor - ndel
  (nphn, ncor, nins, ndel, nsub)

/-! ### Substring variant (`levenshtein_distance_substring`)

    if len(target) > len(source): target, source = source, target
    dist = arange(|t|+2) * ins ; dist[-1] = dist[-2]
    for s in source:
        dist[1:-1] = minimum(dist[1:-1] + del, dist[:-2] + (target != s) * sub)
        sweep over cells 1..|t|        -- dist[0] stays 0: the match may start anywhere
        dist[-1] = minimum(dist[-1], dist[-2])
    return dist[-1]

The model keeps the extra last cell separately as `best`. -/

def rowStepSub (c : Costs) (t : List α) (row : List Cell) (s : α) : List Cell :=
  (0, Tag.del) :: stepAux c s 0 row t

def lastVal (row : List Cell) : Nat :=
  match row.getLast? with
  | some x => x.1
  | none => 0

def subLoop (c : Costs) (t : List α) : List Cell → Nat → List α → Nat
  | _, best, [] => best
  | row, best, s :: ss =>
    let row' := rowStepSub c t row s
    subLoop c t row' (min best (lastVal row')) ss

def orient (s t : List α) : List α × List α :=
  if t.length > s.length then (t, s) else (s, t)

def distSub (c : Costs) (s t : List α) : Nat :=
  let (src, tgt) := orient s t
  subLoop c tgt (initRow c tgt) (tgt.length * c.ins) src

/-! ### Substring alignment (`levenshtein_alignment_substring`)

Rows as in the substring distance (`rowStepSub`: column 0 stays 0 with backtrack value 1, so walking up
column 0 consumes source symbols for free).  The extra last column records, per row `i ≥ 1`, how the best
end so far relates to ending at row `i`:  `0` (equal: `dist[-1] == dist[-2]`), `-1` (this row is better:
taken), `1` (an earlier row stays better).  Row 0 is `-1`.  `suffix_beginning` = 1 + the last row whose
last-column value is < 1 (if some row has value 1), else the number of rows.  The alignment is the free
suffix `source[suffix_beginning-1:]` paired with the empty symbol, preceded by the ordinary backtrack from
`(suffix_beginning-1, |target|)` in the truncated matrix.  Sequences are swapped first if the target is
longer, and the pairs are swapped back at the end. -/

/-- all rows of the substring DP with, per row, the last-column tag and the running best -/
def subRows (c : Costs) (t : List α) : List Cell → Nat → List α → List (List Cell × Tag)
  | _, _, [] => []
  | row, best, s :: ss =>
    let row' := rowStepSub c t row s
    let v := lastVal row'
    let tg : Tag := if best = v then Tag.sub else if v < best then Tag.ins else Tag.del
    (row', tg) :: subRows c t row' (min best v) ss

/-- `suffix_beginning` from the last-column tags of rows `0..n` (row 0 has tag `ins` = -1) -/
def suffixBeginning (lastTags : List Tag) : Nat :=
  if lastTags.any (· == Tag.del) then
    -- np.where(backtrack[:, -1] < 1)[0][-1] + 1
    match ((List.range lastTags.length).filter fun i => lastTags.getD i Tag.ins != Tag.del).getLast? with
    | some i => i + 1
    | none => lastTags.length
  else lastTags.length

/-- `levenshtein_alignment_substring` (pairs are (source symbol, target symbol) of the ORIGINAL call) -/
def alignmentSub (c : Costs) (s t : List α) : Option (List (Option α × Option α)) :=
  let swapped := decide (t.length > s.length)
  let (src, tgt) := orient s t
  let r0 := initRow c tgt
  let rs := subRows c tgt r0 (tgt.length * c.ins) src
  let lastTags := Tag.ins :: rs.map (·.2)
  let sb := suffixBeginning lastTags
  let rows := (r0 :: rs.map (·.1)).take sb
  let tail : List (Option α × Option α) := (src.drop (sb - 1)).map fun x => (some x, none)
  match back rows src tgt (sb - 1 + tgt.length) (sb - 1) tgt.length tail with
  | none => none
  | some al => some (if swapped then al.map fun p => (p.2, p.1) else al)

/-! ### `ErrorsSummary` (numeric fields) -/

structure Summary where
  lines : Nat
  refLen : Nat
  errors : Nat
  subs : Nat
  inss : Nat
  dels : Nat
deriving DecidableEq, Repr

def Summary.zero : Summary := ⟨0, 0, 0, 0, 0, 0⟩

def Summary.add (a b : Summary) : Summary :=
  ⟨a.lines + b.lines, a.refLen + b.refLen, a.errors + b.errors, a.subs + b.subs, a.inss + b.inss,
   a.dels + b.dels⟩

def unit : Costs := { sub := 1, ins := 1, del := 1 }

/-- `ErrorsSummary.from_lists(ref, hyp)`: distance of `(ref, hyp)`, stats of the alignment of
`(hyp, ref)`. -/
def Summary.fromLists (ref hyp : List α) : Option Summary :=
  match alignment unit hyp ref with
  | none => none
  | some al =>
    let (_, _, nins, ndel, nsub) := editStats al
    some ⟨1, ref.length, dist unit ref hyp, nsub, nins, ndel⟩

/-- `ErrorsSummary.aggregate`: the accumulation loop. -/
def Summary.aggregate (xs : List Summary) : Summary := xs.foldl Summary.add Summary.zero

/-! ### `ErrorsSummary.confusions`

`from_lists` counts, for every pair of the alignment of `(hyp, ref)`, `confusions[ref_sym][hyp_sym] += 1`;
`aggregate` adds the tables (`Counter.update`).  The table is a bag of pairs: the model keeps the pairs
themselves, the count of a pair is `List.count`. -/

def Summary.confusions (ref hyp : List α) : List (Option α × Option α) :=
  (alignment unit hyp ref).getD []

def aggregateConfusions (xs : List (List (Option α × Option α))) : List (Option α × Option α) :=
  xs.foldl (· ++ ·) []

/-! ### Line-end statistics (`BoundaryErrorsSummary`, error_summary.py)

`from_lists` classifies every pair of the alignment of `(hyp, ref)` (`get_match_type`), takes the errors after the last
correct pair (`get_non_matching_suffix`) and sets one of six flags (`BoundaryErrorsSummary.__init__`); two `AssertionError`s
are possible in the code (a `None`-`None` pair; an insertion and a deletion together). -/

/-- `MatchTypes` of error_summary.py -/
inductive MatchType where
  | C | S | I | D
  deriving DecidableEq, Repr

/-- `get_match_type(ref_sym = a[1], hyp_sym = a[0])` for a pair `a = (hyp_sym, ref_sym)` of the alignment of `(hyp, ref)`;
`none`: `AssertionError("Invalid alignment None-None")`. -/
def matchType : Option α × Option α → Option MatchType
  | (none, none) => none
  | (h, r) => some (if r = h then .C else if r = none then .I else if h = none then .D else .S)

def matchTypes : List (Option α × Option α) → Option (List MatchType)
  | [] => some []
  | p :: r =>
    match matchType p, matchTypes r with
    | some m, some ms => some (m :: ms)
    | _, _ => none

/-- `get_non_matching_prefix`: up to the first `C`. -/
def nonMatchPrefix (l : List MatchType) : List MatchType := l.takeWhile (· ≠ .C)

/-- `get_non_matching_suffix`: the prefix of the reversed list, reversed back. -/
def nonMatchSuffix (l : List MatchType) : List MatchType := (nonMatchPrefix l.reverse).reverse

/-- the flag `BoundaryErrorsSummary.__init__` sets (`nothing`: none of the six) -/
inductive EndClass where
  | correct | pureDel | mixedDel | pureIns | mixedIns | pureSub | nothing
  deriving DecidableEq, Repr

/-- `BoundaryErrorsSummary(boundary_alignment)`; `none`: `AssertionError` (insertion and deletion together). -/
def boundaryClass (b : List MatchType) : Option EndClass :=
  if .I ∈ b ∧ .D ∈ b then none
  else if b.length = 0 then some .correct
  else if .S ∈ b ∧ .D ∈ b then some .mixedDel
  else if .S ∈ b ∧ .I ∈ b then some .mixedIns
  else if .D ∈ b then some .pureDel
  else if .I ∈ b then some .pureIns
  else if .S ∈ b then some .pureSub
  else some .nothing

/-- the line-end part of `ErrorsSummary.from_lists(ref, hyp)`; `none`: an exception. -/
def Summary.ending (ref hyp : List α) : Option EndClass :=
  match alignment unit hyp ref with
  | none => none
  | some al =>
    match matchTypes al with
    | none => none
    | some mts => boundaryClass (nonMatchSuffix mts)

end Lev
