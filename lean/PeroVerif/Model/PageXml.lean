/-
Model of PAGE XML export / import (`PageLayout.to_pagexml_string`, `from_pagexml`,
`sort_regions_by_reading_order`, `get_reading_order`, `RegionLayout.to_page_xml`,
`points_string_to_array` in pero_ocr/core/layout.py) — C01.

* Strings are code-point lists (`Py.Str`); lxml's serialisation/escaping/parsing is trusted: the
  model works on a neutral element tree (tag, attributes in order, text, children).
* The page is QUANTISED (what the documented rounding keeps): integer coordinates, heights in tenths,
  confidence in thousandths.  The harness quantises with decimal arithmetic independently of the
  code under test and compares the real export with `exportPage` of the quantised page.
* `importPage` covers the documents `exportPage` produces (plus absent `index`, absent `TextEquiv`,
  empty `Unicode`); anything else is `Err.unsupported` — the driver never guesses.
* Whether the reading-order sort is keyed by the region id is GENERATED from the source
  (`Gen.Page.sortKeyById`).
-/
import PeroVerif.Py.Decimal
import PeroVerif.Py.Dict
import PeroVerif.Generated.Page

namespace PX
open Py

inductive Xml where
  | node (tag : Str) (attrs : List (Str × Str)) (text : Option Str) (children : List Xml)

structure Line where
  id : Str
  index : Option Int
  baseline : List (Int × Int)
  polygon : List (Int × Int)
  heights : Option (Nat × Nat)     -- tenths; `none` = no heights stored
  text : Option Str
  conf : Option Nat                -- thousandths
deriving DecidableEq

structure Region where
  id : Str
  rtype : Option Str
  polygon : List (Int × Int)
  text : Option Str
  lines : List Line
deriving DecidableEq

structure Page where
  id : Str
  height : Int
  width : Int
  regions : List Region
  ro : Option (Dict Str Int)       -- `None` or the reading-order dict (insertion ordered)
deriving DecidableEq

inductive Version where
  | v2019 | v2013
deriving DecidableEq

inductive Err where
  | missing        -- KeyError / IndexError / AttributeError: a required element or attribute is absent
  | badNumber      -- ValueError from int()/float()/json
  | unsupported    -- outside the modelled fragment
deriving DecidableEq, Repr

/-! ### tag / attribute names (ASCII code points, written out so that the kernel can compare them) -/
/-- "Baseline" -/
def k_Baseline : Str := [66, 97, 115, 101, 108, 105, 110, 101]
/-- "Coords" -/
def k_Coords : Str := [67, 111, 111, 114, 100, 115]
/-- "Metadata" -/
def k_Metadata : Str := [77, 101, 116, 97, 100, 97, 116, 97]
/-- "OrderedGroup" -/
def k_OrderedGroup : Str := [79, 114, 100, 101, 114, 101, 100, 71, 114, 111, 117, 112]
/-- "Page" -/
def k_Page : Str := [80, 97, 103, 101]
/-- "PcGts" -/
def k_PcGts : Str := [80, 99, 71, 116, 115]
/-- "ReadingOrder" -/
def k_ReadingOrder : Str := [82, 101, 97, 100, 105, 110, 103, 79, 114, 100, 101, 114]
/-- "RegionRefIndexed" -/
def k_RegionRefIndexed : Str := [82, 101, 103, 105, 111, 110, 82, 101, 102, 73, 110, 100, 101, 120, 101, 100]
/-- "TextEquiv" -/
def k_TextEquiv : Str := [84, 101, 120, 116, 69, 113, 117, 105, 118]
/-- "TextLine" -/
def k_TextLine : Str := [84, 101, 120, 116, 76, 105, 110, 101]
/-- "TextRegion" -/
def k_TextRegion : Str := [84, 101, 120, 116, 82, 101, 103, 105, 111, 110]
/-- "Unicode" -/
def k_Unicode : Str := [85, 110, 105, 99, 111, 100, 101]
/-- "conf" -/
def k_conf : Str := [99, 111, 110, 102]
/-- "custom" -/
def k_custom : Str := [99, 117, 115, 116, 111, 109]
/-- "heights_v2:[" -/
def k_heights_v2_pre : Str := [104, 101, 105, 103, 104, 116, 115, 95, 118, 50, 58, 91]
/-- "id" -/
def k_id : Str := [105, 100]
/-- "imageFilename" -/
def k_imageFilename : Str := [105, 109, 97, 103, 101, 70, 105, 108, 101, 110, 97, 109, 101]
/-- "imageHeight" -/
def k_imageHeight : Str := [105, 109, 97, 103, 101, 72, 101, 105, 103, 104, 116]
/-- "imageWidth" -/
def k_imageWidth : Str := [105, 109, 97, 103, 101, 87, 105, 100, 116, 104]
/-- "index" -/
def k_index : Str := [105, 110, 100, 101, 120]
/-- "points" -/
def k_points : Str := [112, 111, 105, 110, 116, 115]
/-- "reading_order" -/
def k_reading_order : Str := [114, 101, 97, 100, 105, 110, 103, 95, 111, 114, 100, 101, 114]
/-- "regionRef" -/
def k_regionRef : Str := [114, 101, 103, 105, 111, 110, 82, 101, 102]
/-- "type" -/
def k_type : Str := [116, 121, 112, 101]

/-- for examples and the driver only -/
def s (x : String) : Str := x.toList.map Char.toNat

/-! ### export -/

def showPoint (p : Int × Int) : Str := showInt p.1 ++ [cComma] ++ showInt p.2
def showPoints (ps : List (Int × Int)) : Str := join [cSpace] (ps.map showPoint)

/-- `heights_v2:[a.b,c.d]` -/
def showHeights (h : Nat × Nat) : Str :=
  k_heights_v2_pre ++ showFixed 1 h.1 ++ [cComma] ++ showFixed 1 h.2 ++ [cRBr]

def textEquiv (conf : Option Nat) (t : Str) : Xml :=
  .node k_TextEquiv (match conf with | some c => [(k_conf, showFixed 3 c)] | none => []) none
    [.node k_Unicode [] (some t) []]

def exportLine (i : Nat) (l : Line) : Xml :=
  .node k_TextLine
    ([(k_id, l.id), (k_index, showInt (l.index.getD (i : Int)))] ++
      (match l.heights with | some h => [(k_custom, showHeights h)] | none => []))
    none
    ([.node k_Coords [(k_points, showPoints l.polygon)] none [],
      .node k_Baseline [(k_points, showPoints l.baseline)] none []] ++
      (match l.text with | some t => [textEquiv l.conf t] | none => []))

def exportLines : Nat → List Line → List Xml
  | _, [] => []
  | i, l :: ls => exportLine i l :: exportLines (i + 1) ls

def exportRegion (r : Region) : Xml :=
  .node k_TextRegion
    ([(k_id, r.id)] ++ (match r.rtype with | some t => [(k_type, t)] | none => []))
    none
    ([.node k_Coords [(k_points, showPoints r.polygon)] none []] ++
      (match r.text with | some t => [textEquiv none t] | none => []) ++
      exportLines 0 r.lines)

/-- key of `sort_regions_by_reading_order`: `reading_order[k.id]` or +∞ (`none`) -/
def roKey (ro : Dict Str Int) (r : Region) : Option Int :=
  if Gen.Page.sortKeyById then Dict.get? ro r.id else none

/-- `a ≤ b` with `none` = +∞ -/
def keyLe : Option Int → Option Int → Bool
  | some a, some b => decide (a ≤ b)
  | _, none => true
  | none, some _ => false

/-- Python's stable `sorted` by the reading-order key -/
def sortRO (ro : Dict Str Int) (rs : List Region) : List Region :=
  rs.mergeSort fun a b => keyLe (roKey ro a) (roKey ro b)

def exportRO (ro : Dict Str Int) : Xml :=
  .node k_ReadingOrder [] none
    [.node k_OrderedGroup [(k_id, k_reading_order)] none
      (ro.map fun kv => .node k_RegionRefIndexed [(k_regionRef, kv.1), (k_index, showInt kv.2)] none [])]

/-- `to_pagexml_string`: the `Page` element (the `Metadata` subtree of the 2019 version carries only
creator and timestamps and is left abstract). -/
def exportPageElem (p : Page) : Xml :=
  .node k_Page
    [(k_imageFilename, p.id), (k_imageWidth, showInt p.width), (k_imageHeight, showInt p.height)]
    none
    ((match p.ro with | some ro => [exportRO ro] | none => []) ++
      ((match p.ro with | some ro => sortRO ro p.regions | none => p.regions).map exportRegion))

def exportPage (v : Version) (p : Page) : Xml :=
  .node k_PcGts [] none
    ((match v with | .v2019 => [.node k_Metadata [] none []] | .v2013 => []) ++ [exportPageElem p])

/-! ### import -/

def Xml.tag : Xml → Str | .node t _ _ _ => t
def Xml.attrs : Xml → List (Str × Str) | .node _ a _ _ => a
def Xml.text : Xml → Option Str | .node _ _ t _ => t
def Xml.children : Xml → List Xml | .node _ _ _ c => c

def attr? (x : Xml) (k : Str) : Option Str := (x.attrs.find? fun kv => kv.1 = k).map (·.2)

/-- `elem.find(tag)`: first direct child with that tag -/
def findChild (x : Xml) (t : Str) : Option Xml := x.children.find? fun c => c.tag = t

/-- `elem.iter(tag)` restricted to proper descendants, document order; depth-bounded (documents are
finite; `fuel` = nesting depth considered) -/
def iterDesc (t : Str) : Nat → Xml → List Xml
  | 0, _ => []
  | fuel + 1, x => x.children.flatMap fun c => (if c.tag = t then [c] else []) ++ iterDesc t fuel c

/-- `points_string_to_array` on integer literals -/
def parsePoint (tok : Str) : Except Err (Int × Int) :=
  match splitOn cComma tok with
  | [a, b] =>
    match parseInt a, parseInt b with
    | some x, some y => .ok (x, y)
    | _, _ => .error .unsupported     -- non-integer literals (e.g. "1.5") are outside the modelled fragment
  | _ => .error .badNumber

def parsePoints (sv : Str) : Except Err (List (Int × Int)) := (splitOn cSpace sv).mapM parsePoint

def getCoords (x : Xml) : Except Err (List (Int × Int)) :=
  match attr? x k_points with
  | some v => parsePoints v
  | none => .error .unsupported       -- `<Point>` children: floats, outside the modelled fragment

/-- `heights_v2:[a.b,c.d]` -/
def parseHeights (v : Str) : Except Err (Nat × Nat) :=
  let pre := k_heights_v2_pre
  if v.take pre.length = pre ∧ v.getLast? = some cRBr then
    match splitOn cComma ((v.drop pre.length).dropLast) with
    | [a, b] =>
      match parseFixed 1 a, parseFixed 1 b with
      | some x, some y => .ok (x, y)
      | _, _ => .error .unsupported
    | _ => .error .unsupported
  else .error .unsupported

def importText (x : Xml) : Except Err (Option Str × Option Nat) :=
  match findChild x k_TextEquiv with
  | none => .ok (none, none)
  | some te =>
    match findChild te k_Unicode with
    | none => .error .missing
    | some u =>
      let t := u.text.getD []
      match attr? te k_conf with
      | none => .ok (some t, none)
      | some c =>
        match parseFixed 3 c with
        | some q => .ok (some t, some q)
        | none => .error .unsupported

def importLine (i : Nat) (x : Xml) : Except Err Line := do
  let id ← match attr? x k_id with | some v => pure v | none => throw Err.missing
  let heights ← match attr? x k_custom with
    | some v => (parseHeights v).map some
    | none => pure none
  let index : Int := match attr? x k_index with
    | some v => (parseInt v).getD i
    | none => i
  let baseline ← match findChild x k_Baseline with
    | some b => getCoords b
    | none => throw Err.unsupported   -- the real loader skips such lines
  let polygon ← match findChild x k_Coords with
    | some c => getCoords c
    | none => throw Err.unsupported
  let (text, conf) ← importText x
  return { id := id, index := some index, baseline := baseline, polygon := polygon, heights := heights,
           text := text, conf := conf }

def importLines : Nat → List Xml → Except Err (List Line)
  | _, [] => .ok []
  | i, x :: xs => do
    let l ← importLine i x
    let ls ← importLines (i + 1) xs
    return l :: ls

def importRegion (x : Xml) : Except Err Region := do
  let coords ← match findChild x k_Coords with | some c => getCoords c | none => throw Err.missing
  let id ← match attr? x k_id with | some v => pure v | none => throw Err.missing
  let (text, _) ← importText x
  let lines ← importLines 0 (iterDesc k_TextLine 8 x)
  return { id := id, rtype := attr? x k_type, polygon := coords, text := text, lines := lines }

/-- `get_reading_order` -/
def importRO (page : Xml) : Except Err (Dict Str Int) :=
  let refs := (iterDesc k_ReadingOrder 8 page).flatMap fun ro =>
    (iterDesc k_OrderedGroup 8 ro).flatMap fun og => iterDesc k_RegionRefIndexed 8 og
  refs.foldlM (fun d r =>
    match attr? r k_index, attr? r k_regionRef with
    | some i, some k =>
      match parseInt i with
      | some n => .ok (Dict.set d k n)
      | none => .error .badNumber
    | _, _ => .error .missing) []

/-- `PageLayout(file=…)`: `from_pagexml`, then the reading-order sort. -/
def importPage (root : Xml) : Except Err Page := do
  let page ← match findChild root k_Page with | some p => pure p | none => throw Err.missing
  let id ← match attr? page k_imageFilename with | some v => pure v | none => throw Err.missing
  let h ← match (attr? page k_imageHeight).bind parseInt with | some v => pure v | none => throw Err.badNumber
  let w ← match (attr? page k_imageWidth).bind parseInt with | some v => pure v | none => throw Err.badNumber
  let ro ← importRO page
  let regions ← (iterDesc k_TextRegion 8 root).mapM importRegion
  return { id := id, height := h, width := w, regions := sortRO ro regions, ro := some ro }

/-! ### what a round trip must yield -/

def canonLines : Nat → List Line → List Line
  | _, [] => []
  | i, l :: ls => { l with index := some (l.index.getD (i : Int)) } :: canonLines (i + 1) ls

/-- regions in reading order, `index` filled with the position when absent, an absent reading order
becomes the empty one (the loader always creates a dict) -/
def canon (p : Page) : Page :=
  let ro := p.ro.getD []
  { p with
    regions := (sortRO ro p.regions).map fun r => { r with lines := canonLines 0 r.lines },
    ro := some ro }

end PX
