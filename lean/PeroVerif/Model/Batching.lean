/-
Model of `BaseEngineLineOCR.process_lines` batching (pero_ocr/ocr_engine/line_ocr_engine.py, CTC
mode) — C07:

    line_ids = [i for i, _ in sorted(enumerate(lines), key=lambda x: -width(x))]      -- stable
    while line_ids:
        max_width  = ceil(width(line_ids[0]) / 32) * 32
        batch_size = max(1, (480 * self.batch_size) // max_width)
        batch, line_ids = line_ids[:batch_size], line_ids[batch_size:]
        data width = max_width + 2 * pad, cropped to 480 * self.batch_size
        outputs are scattered back by line id
    logit_coords[i] = [pad // sub, (pad + width(i)) // sub]

`run_ocr` is a parameter: under the property's own assumption (the network's output for a line
depends only on that line's image) the scatter is `lines.map f`.
-/
namespace Bat

def ceil32 (w : Nat) : Nat := (w + 31) / 32 * 32

/-- indices sorted by descending width, stable -/
def order (ws : List Nat) : List Nat :=
  ((List.range ws.length).zip ws).mergeSort (fun a b => decide (a.2 ≥ b.2)) |>.map (·.1)

def widthOf (ws : List Nat) (i : Nat) : Nat := ws.getD i 0

/-- the `while line_ids` loop: (ids of the batch, width of the batch tensor) -/
def batchesAux (ws : List Nat) (budget pad : Nat) : Nat → List Nat → List (List Nat × Nat)
  | 0, _ => []
  | _, [] => []
  | fuel + 1, i :: rest =>
    let mw := ceil32 (widthOf ws i)
    let bs := max 1 (budget / mw)
    let ids := i :: rest
    (ids.take bs, min (mw + 2 * pad) budget) :: batchesAux ws budget pad fuel (ids.drop bs)

def batches (ws : List Nat) (batchSize pad : Nat) : List (List Nat × Nat) :=
  batchesAux ws (480 * batchSize) pad ws.length (order ws)

/-- frame window of a line: `[pad // sub, (pad + w) // sub]` -/
def coords (pad sub w : Nat) : Nat × Nat := (pad / sub, (pad + w) / sub)

/-- scatter the per-batch outputs back to input positions (`all_…[ids] = …`), given what the
network returns for image `i` -/
def scatter {β : Type} (n : Nat) (bs : List (List Nat × Nat)) (out : Nat → β) : List (Option β) :=
  (List.range n).map fun i => if bs.any (fun b => b.1.contains i) then some (out i) else none

/-- sparse storage: `logits[probs < thr] = 0` -/
def sparsify {R : Type} (lt : R → R → Bool) (zero thr : R) (probs logits : List R) : List R :=
  List.zipWith (fun p l => if lt p thr then zero else l) probs logits

end Bat
