/-
Model of the three greedy CTC decoders (C04):
* `greedy_decode_ctc`            (pero_ocr/ocr_engine/pytorch_ocr_engine.py) — batched, index tricks
* `GreedyDecoder.__call__`       (pero_ocr/decoding/decoders.py)              — itertools.groupby
* `greedy_filtration`            (pero_ocr/char_confidences.py)               — explicit loop
All three are modelled on the per-frame arg-max sequence (`Ctc.argmaxFirst` of each frame).
-/
import PeroVerif.Model.Ctc

namespace Greedy
open Ctc

/-- `greedy_decode_ctc` for one line with `C` classes (blank = `C-1`), on the arg-max path `am`
(one class index per frame):

    prepend a frame whose arg-max is blank;  best = argmax + 1
    mask = best[:-1] == best[1:];  best = best[1:];  best[mask] = 0;  best[best == C] = 0
    best = best - 1;  keep entries >= 0
-/
def engineLine (C : Nat) (am : List Nat) : List Nat :=
  let best : List Nat := ((C - 1) :: am).map (· + 1)
  let mask : List Bool := List.zipWith (fun a b => a == b) best best.tail
  let best1 : List Nat := best.tail
  let best2 : List Nat := List.zipWith (fun b m => if m then 0 else b) best1 mask
  let best3 : List Nat := best2.map fun b => if b = C then 0 else b
  let best4 : List Int := best3.map fun (b : Nat) => (Int.ofNat b) - 1
  (best4.filter (· ≥ 0)).map Int.toNat

/-- The batched decoder treats the lines independently (tensor ops along the time axis only). -/
def engineBatch (C : Nat) (ams : List (List Nat)) : List (List Nat) := ams.map (engineLine C)

/-- `[g[0] for g in itertools.groupby(argmaxes)]` -/
def groupHeads : List Nat → List Nat
  | [] => []
  | [x] => [x]
  | x :: y :: r => if x = y then groupHeads (y :: r) else x :: groupHeads (y :: r)

/-- `GreedyDecoder`: group heads, drop blanks. -/
def standalone (blank : Nat) (am : List Nat) : List Nat := (groupHeads am).filter (· ≠ blank)

/-- `greedy_filtration` on class indices (characters are compared through `chars`, which is
injective for a valid character table): `last` is `last_char`. -/
def filtration (blank : Nat) : Option Nat → List Nat → List Nat
  | _, [] => []
  | last, c :: r =>
    if c ≠ blank then
      if last ≠ some c then c :: filtration blank (some c) r else filtration blank last r
    else filtration blank none r

/-- From scores (frames × classes) to the arg-max path. -/
def argmaxPath (frames : List (List Int)) : List Nat := frames.map argmaxFirst

end Greedy
