/-
Shared CTC definitions (C02–C05, C16): the collapse function B (merge adjacent repeats, then drop
blanks).  Core Lean only.
-/
namespace Ctc

/-- `collapseAux blank prev π`: collapse of `π` given that the symbol before it was `prev`. -/
def collapseAux (blank : Nat) : Option Nat → List Nat → List Nat
  | _, [] => []
  | prev, s :: rest =>
      (if s = blank ∨ prev = some s then [] else [s]) ++ collapseAux blank (some s) rest

/-- CTC collapse: merge adjacent repeats, then drop blanks. -/
def collapse (blank : Nat) (p : List Nat) : List Nat := collapseAux blank none p

/-- First index of a maximum (NumPy / Torch `argmax` on ties). `0` for an empty list. -/
def argmaxFirst {α : Type} [LT α] [DecidableRel (α := α) (· < ·)] : List α → Nat
  | [] => 0
  | x :: xs =>
    let rec go (best : α) (bi : Nat) (i : Nat) : List α → Nat
      | [] => bi
      | y :: ys => if best < y then go y i (i + 1) ys else go best bi (i + 1) ys
    go x 0 1 xs

end Ctc
