/-
Model of `PageDecoder` (pero_ocr/document_ocr/page_parser.py) — C08.

    process_page:  self.last_h = None            (and, if the source does so, self.last_line = None)
                   for line in page: line.transcription = self.decode_line(line)
    decode_line:   if threshold is not None and line_confident_enough(logits, threshold):
                       last_h = None; last_line = line.transcription; return line.transcription
                   if carry_h_over:
                       if not last_h and last_line: last_h = lm.initial_h_from_line(last_line)
                       hyps, h = decoder(logits, return_h=True, init_h=last_h); last_h = lm.add_line_end(h)
                   else: hyps = decoder(logits)
                   last_line = hyps.best_hyp(); return it

The decoder is a pure function of (logits, initial state) — C02/C03 — and enters as the parameter
`dec`.  Whether `process_page` resets `last_line` is GENERATED from the source.
-/
import PeroVerif.Py.Decimal
import PeroVerif.Generated.PageDecoder

namespace PD
open Py

structure Line (X : Type) where
  logits : X                 -- whatever the decoder reads
  confident : Bool           -- `line_confident_enough(logits, threshold)` (false when no threshold is set)
  text : Option Str          -- transcription before decoding (from the OCR engine)

structure Env (X H : Type) where
  dec : X → Option H → Str × H        -- decoder with LM: (best transcription, state of the best hypothesis)
  decPlain : X → Str                  -- decoder called without state (`carry_h_over = False`)
  fromLine : Str → H                  -- `lm.initial_h_from_line`
  lineEnd : H → H                     -- `lm.add_line_end`
  carry : Bool                        -- `carry_h_over`

structure St (H : Type) where
  lastH : Option H
  lastLine : Option Str

variable {X H : Type}

/-- Python truthiness of `self.last_line`: a non-empty string -/
def truthy : Option Str → Bool
  | some (_ :: _) => true
  | _ => false

/-- `decode_line`: new state and the transcription assigned to the line -/
def decodeLine (e : Env X H) (st : St H) (l : Line X) : St H × Option Str :=
  if l.confident then ({ lastH := none, lastLine := l.text }, l.text)
  else if e.carry then
    let h0 : Option H := match st.lastH with
      | some h => some h
      | none => if truthy st.lastLine then some (e.fromLine (st.lastLine.getD [])) else none
    let (t, h) := e.dec l.logits h0
    ({ lastH := some (e.lineEnd h), lastLine := some t }, some t)
  else
    let t := e.decPlain l.logits
    ({ st with lastLine := some t }, some t)

/-- `process_page`: final state and the transcriptions of the page's lines -/
def processPage (e : Env X H) (st : St H) (page : List (Line X)) : St H × List (Option Str) :=
  let st0 : St H := { lastH := none, lastLine := if Gen.PageDecoder.resetsLastLine then none else st.lastLine }
  page.foldl (fun (acc : St H × List (Option Str)) l =>
    let (s', t) := decodeLine e acc.1 l
    (s', acc.2 ++ [t])) (st0, [])

def init : St H := { lastH := none, lastLine := none }

/-- one decoder instance fed a sequence of pages: the outputs, page by page -/
def run (e : Env X H) (pages : List (List (Line X))) : St H × List (List (Option Str)) :=
  pages.foldl (fun (acc : St H × List (List (Option Str))) pg =>
    let (s', out) := processPage e acc.1 pg
    (s', acc.2 ++ [out])) (init, [])

/-- the page object after a pass: every line carries the transcription the pass assigned to it (same logits, hence the same
answer of `line_confident_enough`) -/
def writeBack (pg : List (Line X)) (out : List (Option Str)) : List (Line X) :=
  List.zipWith (fun l t => { l with text := t }) pg out

end PD
