/-
Model of `merge_lines` (pero_ocr/layout_engines/layout_helpers.py) and of the merge loop of
`LayoutExtractor.process_page` (pero_ocr/document_ocr/page_parser.py) — C11: the loop re-assigns the merged lines
to their region until the number of lines stops changing; DESIGN listed its termination as "assumed".

    for i in range(n):                                   # merge_lines, grouping pass
        lines_to_merge_i = []
        for j in range(n):
            if i != j and compatible(i, j):
                if i not in merged_lines: lines_to_merge_i.append(i); merged_lines.append(i)
                if j not in merged_lines: lines_to_merge_i.append(j); merged_lines.append(j)
        lines_to_merge.append(lines_to_merge_i)
    for group in lines_to_merge:                         # one new line per non-empty group
        if len(group) > 0: baselines.append(merge(group)); heights.append(max heights of group)
    baselines = filter_list(baselines, merged_lines)     # the merged originals are removed

    while True:                                          # LayoutExtractor.process_page, per region
        n0 = len(region.lines)
        b, h = merge_lines(...); region.lines = []; region = assign_lines_to_regions(b, h, t, [region])[0]
        if len(region.lines) == n0: break

`compatible` is computed on de-skewed coordinates truncated to integers (`.astype(np.int32)`); for horizontal
baselines with integer coordinates the de-skew angle is 0 and the predicate is exact integer arithmetic (`compat`).
-/
namespace MergeLoop

/-- what `merge_lines` looks at: horizontal extent, mean vertical position, ascender / descender height -/
structure Ln where
  xmin : Int
  xmax : Int
  y : Int
  h0 : Int
  h1 : Int
deriving DecidableEq, Repr, Inhabited

/-- the pairwise test of `merge_lines` (`0.7 * m` as the exact rational 7m/10) -/
def compat (a b : Ln) : Bool :=
  let vOverlay := (decide (a.xmin > b.xmin) && decide (a.xmax < b.xmax)) || (decide (b.xmin > a.xmin) && decide (b.xmax < a.xmax))
  let vGap := max (a.xmin - b.xmax) (b.xmin - a.xmax)
  let hOverlay := min (a.y + a.h1) (b.y + b.h1) - max (a.y - a.h0) (b.y - b.h0)
  let m := min (a.h0 + a.h1) (b.h0 + b.h1)
  decide (10 * hOverlay > 7 * m) && !vOverlay && decide (vGap < 2 * m)

/-- distance of the pair from the two thresholds (0 = a float comparison could go either way) -/
def margin (a b : Ln) : Int :=
  let vGap := max (a.xmin - b.xmax) (b.xmin - a.xmax)
  let hOverlay := min (a.y + a.h1) (b.y + b.h1) - max (a.y - a.h0) (b.y - b.h0)
  let m := min (a.h0 + a.h1) (b.h0 + b.h1)
  min (10 * hOverlay - 7 * m).natAbs (2 * m - vGap).natAbs

/-- state of the grouping pass: (group of the current `i`, `merged_lines`) -/
abbrev GState := List Nat × List Nat

/-- body of the inner loop for one `j` -/
def innerStep (c : Nat → Nat → Bool) (i : Nat) (st : GState) (j : Nat) : GState :=
  if i ≠ j ∧ c i j = true then
    let st1 : GState := if i ∈ st.2 then st else (st.1 ++ [i], st.2 ++ [i])
    if j ∈ st1.2 then st1 else (st1.1 ++ [j], st1.2 ++ [j])
  else st

/-- one iteration of the outer loop: returns `lines_to_merge_i` and the new `merged_lines` -/
def outerStep (c : Nat → Nat → Bool) (n : Nat) (merged : List Nat) (i : Nat) : List Nat × List Nat :=
  (List.range n).foldl (innerStep c i) ([], merged)

/-- the grouping pass: (`lines_to_merge`, `merged_lines`) -/
def grouping (c : Nat → Nat → Bool) (n : Nat) : List (List Nat) × List Nat :=
  (List.range n).foldl (fun (acc : List (List Nat) × List Nat) i =>
    let r := outerStep c n acc.2 i
    (acc.1 ++ [r.1], r.2)) ([], [])

/-- number of lines `merge_lines` returns for `n` lines: the untouched ones plus one per non-empty group -/
def mergedCount (c : Nat → Nat → Bool) (n : Nat) : Nat :=
  let g := grouping c n
  ((List.range n).filter fun i => !g.2.contains i).length + (g.1.filter fun grp => !grp.isEmpty).length

/-- the line that replaces a group: extent = union of extents, heights = maxima (starting from 0) -/
def fuse (ls : List Ln) (grp : List Nat) : Ln :=
  let ms := grp.map fun i => ls.getD i default
  { xmin := (ms.map (·.xmin)).foldl min (ms.headD default).xmin,
    xmax := (ms.map (·.xmax)).foldl max (ms.headD default).xmax,
    y := (ms.headD default).y,
    h0 := (ms.map (·.h0)).foldl max 0,
    h1 := (ms.map (·.h1)).foldl max 0 }

/-- `merge_lines` on the abstract lines (order: untouched lines in input order, then the fused groups; the final
sort by vertical position is not modelled — the correspondence compares multisets) -/
def mergeLines (ls : List Ln) : List Ln :=
  let c := fun i j => compat (ls.getD i default) (ls.getD j default)
  let g := grouping c ls.length
  ((List.range ls.length).filter fun i => !g.2.contains i).map (fun i => ls.getD i default) ++
    (g.1.filter fun grp => !grp.isEmpty).map (fuse ls)

/-- the `while True` loop of `process_page` for one region, `step` = merge, then re-assign to the region.
Returns the final lines and the number of iterations; `none` = fuel exhausted. -/
def loop {α : Type} (step : List α → List α) : Nat → List α → Option (List α × Nat)
  | 0, _ => none
  | fuel + 1, ls =>
    let ls' := step ls
    if ls'.length = ls.length then some (ls', 1)
    else (loop step fuel ls').map fun r => (r.1, r.2 + 1)

end MergeLoop
