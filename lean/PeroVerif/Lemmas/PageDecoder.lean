-- helper lemmas for C08
import PeroVerif.Model.PageDecoder

namespace PD
open Py
variable {X H : Type}

/-- the step function of `processPage` -/
def lineStep (e : Env X H) (acc : St H × List (Option Str)) (l : Line X) : St H × List (Option Str) :=
  ((decodeLine e acc.1 l).1, acc.2 ++ [(decodeLine e acc.1 l).2])

/-- the step function of `run` -/
def pageStep (e : Env X H) (acc : St H × List (List (Option Str))) (pg : List (Line X)) :
    St H × List (List (Option Str)) :=
  ((processPage e acc.1 pg).1, acc.2 ++ [(processPage e acc.1 pg).2])

theorem processPage_eq_foldl (e : Env X H) (st : St H) (pg : List (Line X)) :
    processPage e st pg =
      pg.foldl (lineStep e)
        ({ lastH := none,
           lastLine := if Gen.PageDecoder.resetsLastLine then none else st.lastLine }, []) := rfl

theorem run_eq_foldl (e : Env X H) (pages : List (List (Line X))) :
    run e pages = pages.foldl (pageStep e) (init, []) := rfl

/-- With the reset flag, a page is processed from the fresh state whatever the incoming state. -/
theorem processPage_state_indep (hr : Gen.PageDecoder.resetsLastLine = true)
    (e : Env X H) (st st' : St H) (pg : List (Line X)) :
    processPage e st pg = processPage e st' pg := by
  simp only [processPage_eq_foldl, hr, if_true]

theorem foldl_lineStep_length (e : Env X H) (pg : List (Line X)) :
    ∀ (s : St H) (acc : List (Option Str)),
      (pg.foldl (lineStep e) (s, acc)).2.length = acc.length + pg.length := by
  induction pg with
  | nil => intro s acc; simp only [List.foldl_nil, List.length_nil, Nat.add_zero]
  | cons l ls ih =>
    intro s acc
    simp only [List.foldl_cons, lineStep, ih, List.length_append, List.length_cons,
      List.length_nil]
    omega

theorem processPage_length (e : Env X H) (st : St H) (pg : List (Line X)) :
    (processPage e st pg).2.length = pg.length := by
  rw [processPage_eq_foldl, foldl_lineStep_length]
  simp only [List.length_nil, Nat.zero_add]

theorem run_snoc (e : Env X H) (ps : List (List (Line X))) (p : List (Line X)) :
    run e (ps ++ [p]) =
      ((processPage e (run e ps).1 p).1, (run e ps).2 ++ [(processPage e (run e ps).1 p).2]) := by
  simp only [run_eq_foldl, List.foldl_append, List.foldl_cons, List.foldl_nil, pageStep]

theorem foldl_pageStep_pagewise (hr : Gen.PageDecoder.resetsLastLine = true)
    (e : Env X H) (pages : List (List (Line X))) :
    ∀ (s : St H) (acc : List (List (Option Str))),
      (pages.foldl (pageStep e) (s, acc)).2 =
        acc ++ pages.map fun pg => (processPage e init pg).2 := by
  induction pages with
  | nil => intro s acc; simp only [List.foldl_nil, List.map_nil, List.append_nil]
  | cons p ps ih =>
    intro s acc
    simp only [List.foldl_cons, pageStep, ih, List.map_cons, List.append_assoc,
      List.cons_append, List.nil_append]
    rw [processPage_state_indep hr e s init p]

theorem run_pagewise (hr : Gen.PageDecoder.resetsLastLine = true)
    (e : Env X H) (pages : List (List (Line X))) :
    (run e pages).2 = pages.map fun pg => (processPage e init pg).2 := by
  rw [run_eq_foldl, foldl_pageStep_pagewise hr]
  simp only [List.nil_append]

theorem decodeLine_writeBack (e : Env X H) (s : St H) (l : Line X) :
    decodeLine e s { l with text := (decodeLine e s l).2 } = decodeLine e s l := by
  unfold decodeLine
  by_cases hc : l.confident
  · simp [hc]
  · simp only [hc]
    by_cases hk : e.carry <;> simp [hk]

theorem foldl_writeBack (e : Env X H) :
    ∀ (pg : List (Line X)) (s : St H) (acc acc' : List (Option Str)),
      let r := pg.foldl (fun (a : St H × List (Option Str)) l =>
        let (s', t) := decodeLine e a.1 l
        (s', a.2 ++ [t])) (s, acc)
      ∃ outs, r.2 = acc ++ outs ∧ outs.length = pg.length ∧
        (writeBack pg outs).foldl (fun (a : St H × List (Option Str)) l =>
          let (s', t) := decodeLine e a.1 l
          (s', a.2 ++ [t])) (s, acc') = (r.1, acc' ++ outs) := by
  intro pg
  induction pg with
  | nil => intro s acc acc'; exact ⟨[], by simp, by simp, by simp [writeBack]⟩
  | cons l pg ih =>
    intro s acc acc'
    simp only [List.foldl_cons]
    obtain ⟨outs, h1, h2, h3⟩ := ih (decodeLine e s l).1 (acc ++ [(decodeLine e s l).2]) (acc' ++ [(decodeLine e s l).2])
    refine ⟨(decodeLine e s l).2 :: outs, ?_, by simp [h2], ?_⟩
    · simpa [List.append_assoc] using h1
    · simp only [writeBack, List.zipWith_cons_cons, List.foldl_cons]
      rw [decodeLine_writeBack]
      simpa [writeBack, List.append_assoc] using h3

theorem processPage_writeBack (hr : Gen.PageDecoder.resetsLastLine = true) (e : Env X H) (st st' : St H) (pg : List (Line X)) :
    (processPage e st' (writeBack pg (processPage e st pg).2)).2 = (processPage e st pg).2 := by
  unfold processPage
  simp only [hr, if_true]
  obtain ⟨outs, h1, _, h3⟩ := foldl_writeBack e pg { lastH := none, lastLine := none } [] []
  simp only [List.nil_append] at h1 h3
  rw [h1, h3]

end PD
