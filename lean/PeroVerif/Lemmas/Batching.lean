-- helper lemmas for C07
import PeroVerif.Model.Batching

namespace Bat

/-- the sorted list of (index, width) pairs underlying `order` -/
def sortedPairs (ws : List Nat) : List (Nat × Nat) :=
  ((List.range ws.length).zip ws).mergeSort (fun a b => decide (a.2 ≥ b.2))

theorem order_eq (ws : List Nat) : order ws = (sortedPairs ws).map (·.1) := rfl

theorem sortedPairs_perm (ws : List Nat) :
    (sortedPairs ws).Perm ((List.range ws.length).zip ws) :=
  List.mergeSort_perm _ _

theorem map_fst_zip_range (ws : List Nat) :
    ((List.range ws.length).zip ws).map (·.1) = List.range ws.length := by
  rw [← List.unzip_fst, List.unzip_zip]
  simp

theorem order_perm' (ws : List Nat) : (order ws).Perm (List.range ws.length) := by
  rw [order_eq]
  have h := (sortedPairs_perm ws).map (·.1)
  rw [map_fst_zip_range] at h
  exact h

theorem mem_zip_range_width (ws : List Nat) (p : Nat × Nat)
    (hp : p ∈ (List.range ws.length).zip ws) : widthOf ws p.1 = p.2 := by
  obtain ⟨i, h⟩ := List.mem_iff_getElem?.mp hp
  rw [List.getElem?_zip_eq_some] at h
  obtain ⟨h1, h2⟩ := h
  have hlt : i < ws.length := by
    rcases Nat.lt_or_ge i ws.length with h | h
    · exact h
    · rw [List.getElem?_eq_none h] at h2; cases h2
  rw [List.getElem?_range hlt] at h1
  have h1' : i = p.1 := Option.some.inj h1
  unfold widthOf
  rw [List.getD_eq_getElem?_getD, ← h1', h2]
  rfl

theorem sortedPairs_pairwise (ws : List Nat) :
    (sortedPairs ws).Pairwise (fun a b => a.2 ≥ b.2) := by
  have h := List.pairwise_mergeSort (le := fun (a b : Nat × Nat) => decide (a.2 ≥ b.2))
    (by intro a b c h1 h2; simp only [decide_eq_true_eq] at *; omega)
    (by intro a b; simp only [Bool.or_eq_true, decide_eq_true_eq]; omega)
    ((List.range ws.length).zip ws)
  exact h.imp (by intro a b h; simpa using h)

theorem order_pairwise (ws : List Nat) :
    (order ws).Pairwise (fun a b => widthOf ws a ≥ widthOf ws b) := by
  rw [order_eq, List.pairwise_map]
  have h := sortedPairs_pairwise ws
  have hm : ∀ p ∈ sortedPairs ws, widthOf ws p.1 = p.2 := fun p hp =>
    mem_zip_range_width ws p ((sortedPairs_perm ws).mem_iff.mp hp)
  exact List.Pairwise.imp_of_mem (by
    intro a b ha hb hab
    rw [hm a ha, hm b hb]; exact hab) h

theorem order_length (ws : List Nat) : (order ws).length = ws.length := by
  rw [(order_perm' ws).length_eq, List.length_range]

theorem le_ceil32 (w : Nat) : w ≤ ceil32 w := by
  unfold ceil32; omega

/-- main invariant lemma for the chunking loop -/
theorem batchesAux_spec (ws : List Nat) (budget pad : Nat) :
    ∀ (fuel : Nat) (ids : List Nat), ids.length ≤ fuel →
      ids.Pairwise (fun a b => widthOf ws a ≥ widthOf ws b) →
      ((batchesAux ws budget pad fuel ids).flatMap (·.1)) = ids ∧
      (∀ b ∈ batchesAux ws budget pad fuel ids, b.1 ≠ []) ∧
      (∀ b ∈ batchesAux ws budget pad fuel ids, ∀ i ∈ b.1,
        b.2 = budget ∨ widthOf ws i + 2 * pad ≤ b.2) := by
  intro fuel
  induction fuel with
  | zero =>
    intro ids hl _
    have : ids = [] := List.eq_nil_of_length_eq_zero (by omega)
    subst this
    simp [batchesAux]
  | succ fuel ih =>
    intro ids hl hp
    cases ids with
    | nil => simp [batchesAux]
    | cons i rest =>
      simp only [batchesAux]
      generalize hbs : max 1 (budget / ceil32 (widthOf ws i)) = bs
      have hbs1 : 1 ≤ bs := by omega
      obtain ⟨k, rfl⟩ : ∃ k, bs = k + 1 := ⟨bs - 1, by omega⟩
      have hl' : ((i :: rest).drop (k + 1)).length ≤ fuel := by
        simp only [List.length_drop, List.length_cons] at *; omega
      have hp' : ((i :: rest).drop (k + 1)).Pairwise
          (fun a b => widthOf ws a ≥ widthOf ws b) :=
        hp.sublist (List.drop_sublist _ _)
      obtain ⟨h1, h2, h3⟩ := ih _ hl' hp'
      refine ⟨?_, ?_, ?_⟩
      · rw [List.flatMap_cons, h1]
        exact List.take_append_drop _ _
      · intro b hb
        rcases List.mem_cons.mp hb with rfl | hb
        · simp
        · exact h2 b hb
      · intro b hb j hj
        rcases List.mem_cons.mp hb with rfl | hb
        · simp only at hj ⊢
          have hj' : j ∈ i :: rest := List.mem_of_mem_take hj
          have hw : widthOf ws j ≤ widthOf ws i := by
            rcases List.mem_cons.mp hj' with rfl | hjr
            · exact Nat.le_refl _
            · exact (List.pairwise_cons.mp hp).1 j hjr
          have := le_ceil32 (widthOf ws i)
          omega
        · exact h3 b hb j hj

theorem batches_spec (ws : List Nat) (batchSize pad : Nat) :
    ((batches ws batchSize pad).flatMap (·.1)) = order ws ∧
    (∀ b ∈ batches ws batchSize pad, b.1 ≠ []) ∧
    (∀ b ∈ batches ws batchSize pad, ∀ i ∈ b.1,
      b.2 = 480 * batchSize ∨ widthOf ws i + 2 * pad ≤ b.2) :=
  batchesAux_spec ws (480 * batchSize) pad ws.length (order ws)
    (by rw [order_length]; exact Nat.le_refl _) (order_pairwise ws)

theorem mem_batches_of_lt (ws : List Nat) (batchSize pad i : Nat) (hi : i < ws.length) :
    (batches ws batchSize pad).any (fun b => b.1.contains i) = true := by
  have hmem : i ∈ order ws := (order_perm' ws).mem_iff.mpr (List.mem_range.mpr hi)
  rw [← (batches_spec ws batchSize pad).1, List.mem_flatMap] at hmem
  obtain ⟨b, hb, hib⟩ := hmem
  rw [List.any_eq_true]
  exact ⟨b, hb, by simpa using hib⟩

theorem ceil32_mono {a b : Nat} (h : a ≤ b) : ceil32 a ≤ ceil32 b := by
  unfold ceil32; omega

/-- pixel budget of the chunking loop: a batch of more than one line fits the budget at the padded
width of EACH of its lines (hence of its widest) -/
theorem batchesAux_budget (ws : List Nat) (budget pad : Nat) :
    ∀ (fuel : Nat) (ids : List Nat),
      ids.Pairwise (fun a b => widthOf ws a ≥ widthOf ws b) →
      ∀ b ∈ batchesAux ws budget pad fuel ids,
        b.1.length = 1 ∨ ∀ i ∈ b.1, b.1.length * ceil32 (widthOf ws i) ≤ budget := by
  intro fuel
  induction fuel with
  | zero => intro ids _ b hb; simp [batchesAux] at hb
  | succ fuel ih =>
    intro ids hp b hb
    cases ids with
    | nil => simp [batchesAux] at hb
    | cons i rest =>
      simp only [batchesAux] at hb
      rcases List.mem_cons.mp hb with rfl | hb
      · simp only
        by_cases hq : 1 ≤ budget / ceil32 (widthOf ws i)
        · right
          intro j hj
          have hj' : j ∈ i :: rest := List.mem_of_mem_take hj
          have hw : widthOf ws j ≤ widthOf ws i := by
            rcases List.mem_cons.mp hj' with rfl | hjr
            · exact Nat.le_refl _
            · exact (List.pairwise_cons.mp hp).1 j hjr
          have hm := ceil32_mono hw
          have hpos : 0 < ceil32 (widthOf ws i) := by
            rcases Nat.eq_zero_or_pos (ceil32 (widthOf ws i)) with h0 | h0
            · rw [h0, Nat.div_zero] at hq; omega
            · exact h0
          have hlen : ((i :: rest).take (max 1 (budget / ceil32 (widthOf ws i)))).length
              ≤ budget / ceil32 (widthOf ws i) := by
            rw [List.length_take]; omega
          have h1 := (Nat.le_div_iff_mul_le hpos).1 hlen
          exact Nat.le_trans (Nat.mul_le_mul_left _ hm) h1
        · left
          have : max 1 (budget / ceil32 (widthOf ws i)) = 1 := by omega
          rw [this]; simp
      · exact ih _ (hp.sublist (List.drop_sublist _ _)) b hb
end Bat
