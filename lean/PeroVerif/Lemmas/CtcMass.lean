-- path-sum lemmas (CTC recursions)
import Mathlib.Algebra.BigOperators.Ring.List
import Mathlib.Algebra.Order.Ring.Defs
import Mathlib.Algebra.Order.BigOperators.Group.List
import Mathlib.Algebra.Order.BigOperators.GroupWithZero.List
import Mathlib.Data.List.Induction
import PeroVerif.Spec.CtcMass
import PeroVerif.Lemmas.Ctc

namespace Ctc

/-! ### paths -/

theorem length_of_mem_paths {C T : ℕ} {p : List ℕ} (h : p ∈ paths C T) : p.length = T := by
  induction T generalizing p with
  | zero => simp [paths] at h; simp [h]
  | succ T ih =>
    simp [paths] at h
    obtain ⟨q, hq, s, _, rfl⟩ := h
    simp [ih hq]

theorem lt_of_mem_paths {C T : ℕ} {p : List ℕ} (h : p ∈ paths C T) : ∀ s ∈ p, s < C := by
  induction T generalizing p with
  | zero => simp [paths] at h; simp [h]
  | succ T ih =>
    simp [paths] at h
    obtain ⟨q, hq, s, hs, rfl⟩ := h
    intro x hx
    simp only [List.mem_append, List.mem_singleton] at hx
    rcases hx with hx | rfl
    · exact ih hq x hx
    · exact hs

/-! ### collapse facts -/

theorem mem_collapseAux {blank : ℕ} {prev : Option ℕ} {p : List ℕ} {x : ℕ}
    (h : x ∈ collapseAux blank prev p) : x ∈ p := by
  induction p generalizing prev with
  | nil => simp [collapseAux] at h
  | cons s rest ih =>
    simp only [collapseAux, List.mem_append] at h
    rcases h with h | h
    · split at h
      · simp at h
      · simp only [List.mem_singleton] at h; simp [h]
    · exact List.mem_cons_of_mem _ (ih h)

theorem mem_collapse {blank : ℕ} {p : List ℕ} {x : ℕ} (h : x ∈ collapse blank p) : x ∈ p :=
  mem_collapseAux h

/-- symbols of a collapsed path over `C` symbols with blank `C-1` are `< C-1` -/
theorem lt_of_mem_collapse_paths {C T : ℕ} {p : List ℕ} (hp : p ∈ paths C T) {x : ℕ}
    (hx : x ∈ collapse (C - 1) p) : x < C - 1 := by
  have h1 : x < C := lt_of_mem_paths hp x (mem_collapse hx)
  have h2 : x ≠ C - 1 := fun h => blank_not_mem_collapse (C - 1) p (h ▸ hx)
  omega

/-- the collapse of a path ending in a non-blank symbol `s` ends in `s` -/
theorem getLast?_collapse_snoc (blank : ℕ) (p : List ℕ) (s : ℕ) (hs : s ≠ blank) :
    (collapse blank (p ++ [s])).getLast? = some s := by
  induction p using List.reverseRecOn with
  | nil => simp [collapse, collapseAux, hs]
  | append_singleton q t ih =>
    rw [collapse_snoc]
    by_cases h : t = s
    · subst h
      simp only [hs, List.getLast?_append, List.getLast?_singleton, false_or]
      simpa using ih
    · have : ¬ (s = blank ∨ (q ++ [t]).getLast? = some s) := by
        simp [hs, h]
      rw [if_neg this]
      simp

theorem endsBlank_nil (blank : ℕ) : endsBlank blank [] := by simp [endsBlank]

theorem endsBlank_snoc (blank : ℕ) (p : List ℕ) (s : ℕ) : endsBlank blank (p ++ [s]) ↔ s = blank := by
  simp [endsBlank]

/-- a path not ending in blank ends in the last symbol of its collapse -/
theorem getLast?_of_not_endsBlank {blank : ℕ} {p : List ℕ} (h : ¬ endsBlank blank p) :
    ∃ s, s ≠ blank ∧ p.getLast? = some s ∧ (collapse blank p).getLast? = some s := by
  induction p using List.reverseRecOn with
  | nil => exact absurd (endsBlank_nil blank) h
  | append_singleton q t _ =>
    rw [endsBlank_snoc] at h
    exact ⟨t, h, by simp, getLast?_collapse_snoc blank q t h⟩

theorem endsBlank_of_getLast? {blank : ℕ} {p : List ℕ} {s : ℕ} (h : p.getLast? = some s) :
    endsBlank blank p ↔ s = blank := by
  simp [endsBlank, h]

/-! ### path sums -/

section Mass
variable {R : Type} [CommSemiring R]

theorem weight_snoc (M : List (List R)) (r : List R) (p : List ℕ) (s : ℕ) (h : p.length = M.length) :
    weight (M ++ [r]) (p ++ [s]) = weight M p * r.getD s 0 := by
  simp [weight, List.zipWith_append (h := h.symm)]

theorem massP_snoc (C : ℕ) (M : List (List R)) (r : List R) (P : List ℕ → Prop) [DecidablePred P] :
    massP C (M ++ [r]) P =
      ((paths C M.length).map fun p =>
        ((List.range C).map fun s => if P (p ++ [s]) then weight M p * r.getD s 0 else 0).sum).sum := by
  unfold massP
  simp only [List.length_append, List.length_singleton, paths, List.flatMap_def, List.map_flatten,
    List.sum_flatten, List.map_map]
  congr 1
  apply List.map_congr_left
  intro p hp
  simp only [Function.comp]
  congr 1
  rw [List.map_map]
  apply List.map_congr_left
  intro s _
  simp only [Function.comp]
  rw [weight_snoc _ _ _ _ (length_of_mem_paths hp)]

theorem massP_congr {C : ℕ} {M : List (List R)} {P Q : List ℕ → Prop} [DecidablePred P]
    [DecidablePred Q] (h : ∀ p ∈ paths C M.length, P p ↔ Q p) : massP C M P = massP C M Q := by
  unfold massP
  congr 1
  apply List.map_congr_left
  intro p hp
  exact if_congr (h p hp) rfl rfl

theorem massP_eq_zero {C : ℕ} {M : List (List R)} {P : List ℕ → Prop} [DecidablePred P]
    (h : ∀ p ∈ paths C M.length, ¬ P p) : massP C M P = 0 := by
  unfold massP
  apply List.sum_eq_zero
  intro x hx
  simp only [List.mem_map] at hx
  obtain ⟨p, hp, rfl⟩ := hx
  rw [if_neg (h p hp)]

theorem massP_or {C : ℕ} {M : List (List R)} {P Q : List ℕ → Prop} [DecidablePred P]
    [DecidablePred Q] (h : ∀ p ∈ paths C M.length, ¬ (P p ∧ Q p)) :
    massP C M (fun p => P p ∨ Q p) = massP C M P + massP C M Q := by
  unfold massP
  rw [← List.sum_map_add]
  congr 1
  apply List.map_congr_left
  intro p hp
  by_cases hP : P p <;> by_cases hQ : Q p
  · exact absurd ⟨hP, hQ⟩ (h p hp)
  · simp [hP, hQ]
  · simp [hP, hQ]
  · simp [hP, hQ]

theorem sum_range_ite_eq (C c : ℕ) (hc : c < C) (q : Prop) [Decidable q] (f : ℕ → R) :
    ((List.range C).map fun s => if s = c ∧ q then f s else 0).sum = if q then f c else 0 := by
  induction C with
  | zero => omega
  | succ n ih =>
    rw [List.range_succ, List.map_append, List.sum_append]
    by_cases h : c = n
    · subst h
      have : ((List.range c).map fun s => if s = c ∧ q then f s else 0).sum = 0 := by
        apply List.sum_eq_zero
        intro x hx
        simp only [List.mem_map, List.mem_range] at hx
        obtain ⟨s, hs, rfl⟩ := hx
        have : ¬ (s = c ∧ q) := fun h => by omega
        rw [if_neg this]
      rw [this]
      by_cases hq : q <;> simp [hq]
    · rw [ih (by omega)]
      have : ¬ (n = c ∧ q) := fun h' => h h'.1.symm
      simp [this]

theorem massP_snoc_single {C : ℕ} {M : List (List R)} (r : List R) {P Q : List ℕ → Prop}
    [DecidablePred P] [DecidablePred Q] (c : ℕ) (hc : c < C)
    (h : ∀ p ∈ paths C M.length, ∀ s < C, P (p ++ [s]) ↔ (s = c ∧ Q p)) :
    massP C (M ++ [r]) P = massP C M Q * r.getD c 0 := by
  rw [massP_snoc]
  unfold massP
  rw [← List.sum_map_mul_right]
  congr 1
  apply List.map_congr_left
  intro p hp
  have : ((List.range C).map fun s => if P (p ++ [s]) then weight M p * r.getD s 0 else 0) =
      ((List.range C).map fun s => if s = c ∧ Q p then weight M p * r.getD s 0 else 0) := by
    apply List.map_congr_left
    intro s hs
    exact if_congr (h p hp s (List.mem_range.mp hs)) rfl rfl
  rw [this, sum_range_ite_eq C c hc]
  by_cases hq : Q p <;> simp [hq]

end Mass

/-! ### pointwise facts used by the recursions -/

theorem b_snoc_iff (blank : ℕ) (ℓ p : List ℕ) (s : ℕ) :
    (collapse blank (p ++ [s]) = ℓ ∧ endsBlank blank (p ++ [s])) ↔
      (s = blank ∧ collapse blank p = ℓ) := by
  rw [endsBlank_snoc, collapse_snoc]
  constructor
  · rintro ⟨h1, rfl⟩
    simpa using h1
  · rintro ⟨rfl, h⟩
    simpa using h

theorem nb_snoc_iff (blank c : ℕ) (hc : c ≠ blank) (ℓ' p : List ℕ) (s : ℕ) :
    (collapse blank (p ++ [s]) = ℓ' ++ [c] ∧ ¬ endsBlank blank (p ++ [s])) ↔
      (s = c ∧ ((collapse blank p = ℓ' ++ [c] ∧ ¬ endsBlank blank p) ∨
        ((collapse blank p = ℓ' ∧ endsBlank blank p) ∨
          (ℓ'.getLast? ≠ some c ∧ collapse blank p = ℓ' ∧ ¬ endsBlank blank p)))) := by
  rw [endsBlank_snoc, collapse_snoc]
  constructor
  · rintro ⟨h1, hs⟩
    by_cases hl : p.getLast? = some s
    · have hcond : s = blank ∨ p.getLast? = some s := Or.inr hl
      rw [if_pos hcond, List.append_nil] at h1
      have hne : ¬ endsBlank blank p := by rw [endsBlank_of_getLast? hl]; exact hs
      obtain ⟨s', _, h2, h3⟩ := getLast?_of_not_endsBlank hne
      rw [hl] at h2
      rw [h1] at h3
      simp at h2 h3
      exact ⟨by omega, Or.inl ⟨h1, hne⟩⟩
    · have hcond : ¬ (s = blank ∨ p.getLast? = some s) := by simp [hs, hl]
      rw [if_neg hcond] at h1
      have h1' := List.append_inj' h1 rfl
      obtain ⟨h4, h5⟩ := h1'
      simp only [List.cons.injEq, and_true] at h5
      subst h5
      refine ⟨rfl, Or.inr ?_⟩
      by_cases he : endsBlank blank p
      · exact Or.inl ⟨h4, he⟩
      · refine Or.inr ⟨?_, h4, he⟩
        obtain ⟨s', _, h2, h3⟩ := getLast?_of_not_endsBlank he
        intro h6
        rw [h4, h6] at h3
        simp at h3
        subst h3
        exact hl h2
  · rintro ⟨rfl, h⟩
    refine ⟨?_, hc⟩
    rcases h with ⟨h1, hne⟩ | ⟨h1, he⟩ | ⟨h0, h1, hne⟩
    · obtain ⟨s', _, h2, h3⟩ := getLast?_of_not_endsBlank hne
      rw [h1] at h3
      simp at h3
      subst h3
      rw [if_pos (Or.inr h2), List.append_nil, h1]
    · have hcond : ¬ (s = blank ∨ p.getLast? = some s) := by
        rintro (h | h)
        · exact hc h
        · exact hc ((endsBlank_of_getLast? h).mp he)
      rw [if_neg hcond, h1]
    · obtain ⟨s', _, h2, h3⟩ := getLast?_of_not_endsBlank hne
      have hcond : ¬ (s = blank ∨ p.getLast? = some s) := by
        rintro (h | h)
        · exact hc h
        · rw [h1] at h3; rw [h] at h2; rw [h3, ← h2] at h0; exact h0 rfl
      rw [if_neg hcond, h1]

section Rec
variable {R : Type} [CommSemiring R]

theorem mass_eq_add (C blank : ℕ) (M : List (List R)) (ℓ : List ℕ) :
    mass C blank M ℓ = massB C blank M ℓ + massNB C blank M ℓ := by
  unfold mass massB massNB
  rw [← massP_or]
  · apply massP_congr
    intro p _
    by_cases h : endsBlank blank p <;> simp [h]
  · intro p _ h
    exact h.2.2 h.1.2

theorem massB_nil_nil (C blank : ℕ) : massB C blank ([] : List (List R)) [] = 1 := by
  simp [massB, massP, paths, weight, collapse, collapseAux, endsBlank]

theorem massB_nil_cons (C blank : ℕ) (a : ℕ) (l : List ℕ) :
    massB C blank ([] : List (List R)) (a :: l) = 0 := by
  simp [massB, massP, paths, collapse, collapseAux]

theorem massNB_nil_left (C blank : ℕ) (ℓ : List ℕ) :
    massNB C blank ([] : List (List R)) ℓ = 0 := by
  simp [massNB, massP, paths, endsBlank]

theorem massNB_nil (C blank : ℕ) (M : List (List R)) : massNB C blank M [] = 0 := by
  unfold massNB
  apply massP_eq_zero
  rintro p _ ⟨h1, h2⟩
  obtain ⟨s, _, _, h3⟩ := getLast?_of_not_endsBlank h2
  rw [h1] at h3
  simp at h3

theorem massB_snoc (C : ℕ) (hC : 0 < C) (M : List (List R)) (r : List R) (ℓ : List ℕ) :
    massB C (C - 1) (M ++ [r]) ℓ =
      (massB C (C - 1) M ℓ + massNB C (C - 1) M ℓ) * r.getD (C - 1) 0 := by
  rw [← mass_eq_add]
  unfold massB mass
  apply massP_snoc_single r (C - 1) (by omega)
  intro p _ s _
  exact b_snoc_iff (C - 1) ℓ p s

theorem massNB_snoc (C : ℕ) (M : List (List R)) (r : List R) (ℓ' : List ℕ) (c : ℕ)
    (hc : c < C - 1) :
    massNB C (C - 1) (M ++ [r]) (ℓ' ++ [c]) =
      massNB C (C - 1) M (ℓ' ++ [c]) * r.getD c 0 +
        (massB C (C - 1) M ℓ' + (if ℓ'.getLast? = some c then 0 else massNB C (C - 1) M ℓ')) *
          r.getD c 0 := by
  rw [← add_mul]
  have h1 := massP_snoc_single (C := C) (M := M) r
    (P := fun p => collapse (C - 1) p = ℓ' ++ [c] ∧ ¬ endsBlank (C - 1) p)
    (Q := fun p => (collapse (C - 1) p = ℓ' ++ [c] ∧ ¬ endsBlank (C - 1) p) ∨
        ((collapse (C - 1) p = ℓ' ∧ endsBlank (C - 1) p) ∨
          (ℓ'.getLast? ≠ some c ∧ collapse (C - 1) p = ℓ' ∧ ¬ endsBlank (C - 1) p)))
    c (by omega) (fun p _ s _ => nb_snoc_iff (C - 1) c (by omega) ℓ' p s)
  unfold massNB massB
  rw [h1]
  congr 1
  rw [massP_or, massP_or]
  · congr 2
    by_cases hl : ℓ'.getLast? = some c
    · rw [if_pos hl]
      apply massP_eq_zero
      intro p _ h
      exact h.1 hl
    · rw [if_neg hl]
      apply massP_congr
      intro p _
      simp [hl]
  · rintro p _ ⟨h1, h2⟩
    exact h2.2.2 h1.2
  · rintro p _ ⟨h1, h2 | h2⟩
    · exact h1.2 h2.2
    · have := h1.1.symm.trans h2.2.1
      simp at this

/-- A transcript containing the blank or a symbol `≥ C` has no mass. -/
theorem massP_collapse_eq_zero (C : ℕ) (M : List (List R)) (ℓ : List ℕ)
    (P : List ℕ → Prop) [DecidablePred P] (h : ∃ x ∈ ℓ, ¬ x < C - 1) :
    massP C M (fun p => collapse (C - 1) p = ℓ ∧ P p) = 0 := by
  apply massP_eq_zero
  rintro p hp ⟨h1, _⟩
  obtain ⟨x, hx, hx'⟩ := h
  rw [← h1] at hx
  exact hx' (lt_of_mem_collapse_paths hp hx)

theorem massNB_eq_zero_of_mem (C : ℕ) (M : List (List R)) (ℓ : List ℕ)
    (h : ∃ x ∈ ℓ, ¬ x < C - 1) : massNB C (C - 1) M ℓ = 0 :=
  massP_collapse_eq_zero C M ℓ _ h

theorem massB_eq_zero_of_mem (C : ℕ) (M : List (List R)) (ℓ : List ℕ)
    (h : ∃ x ∈ ℓ, ¬ x < C - 1) : massB C (C - 1) M ℓ = 0 :=
  massP_collapse_eq_zero C M ℓ _ h

end Rec

/-! ### non-negativity -/

section Order
variable {R : Type} [CommSemiring R] [LinearOrder R] [IsStrictOrderedRing R]

omit [IsStrictOrderedRing R] in
theorem getD_nonneg {row : List R} (h : ∀ x ∈ row, 0 ≤ x) (s : ℕ) : 0 ≤ row.getD s 0 := by
  rw [List.getD_eq_getElem?_getD]
  by_cases hs : s < row.length
  · rw [List.getElem?_eq_getElem hs]
    exact h _ (List.getElem_mem hs)
  · rw [List.getElem?_eq_none (by omega)]
    exact le_refl _

theorem weight_nonneg {M : List (List R)} (h : ∀ row ∈ M, ∀ x ∈ row, 0 ≤ x) (p : List ℕ) :
    0 ≤ weight M p := by
  induction M generalizing p with
  | nil => simp [weight]
  | cons row M ih =>
    cases p with
    | nil => simp [weight]
    | cons s p =>
      have : weight (row :: M) (s :: p) = row.getD s 0 * weight M p := by
        simp [weight]
      rw [this]
      exact mul_nonneg (getD_nonneg (h row (by simp)) s)
        (ih (fun r hr => h r (List.mem_cons_of_mem _ hr)) p)

theorem massP_nonneg {C : ℕ} {M : List (List R)} (h : ∀ row ∈ M, ∀ x ∈ row, 0 ≤ x)
    (P : List ℕ → Prop) [DecidablePred P] : 0 ≤ massP C M P := by
  unfold massP
  apply List.sum_nonneg
  intro x hx
  simp only [List.mem_map] at hx
  obtain ⟨p, _, rfl⟩ := hx
  split
  · exact weight_nonneg h p
  · exact le_refl _

theorem massB_nonneg {C blank : ℕ} {M : List (List R)} (h : ∀ row ∈ M, ∀ x ∈ row, 0 ≤ x)
    (ℓ : List ℕ) : 0 ≤ massB C blank M ℓ := massP_nonneg h _

theorem massNB_nonneg {C blank : ℕ} {M : List (List R)} (h : ∀ row ∈ M, ∀ x ∈ row, 0 ≤ x)
    (ℓ : List ℕ) : 0 ≤ massNB C blank M ℓ := massP_nonneg h _

theorem mass_nonneg {C blank : ℕ} {M : List (List R)} (h : ∀ row ∈ M, ∀ x ∈ row, 0 ≤ x)
    (ℓ : List ℕ) : 0 ≤ mass C blank M ℓ := massP_nonneg h _

end Order

end Ctc
