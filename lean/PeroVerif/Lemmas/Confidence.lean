-- helper lemmas for C16
import Mathlib.Algebra.Order.Field.Basic
import Mathlib.Tactic.Linarith
import Mathlib.Analysis.SpecialFunctions.Log.Basic
import PeroVerif.Model.Confidence

namespace Conf
open PB Bag

variable {R : Type}

/-! ## 1. Generic facts (any record of operations) -/

theorem maxR_eq (o : COps R) (a b : R) : maxR o a b = a ∨ maxR o a b = b := by
  unfold maxR; split <;> simp

theorem minR_eq (o : COps R) (a b : R) : minR o a b = a ∨ minR o a b = b := by
  unfold minR; split <;> simp

theorem foldl_sel_mem (f : R → R → R) (hf : ∀ a b, f a b = a ∨ f a b = b) (l : List R) (x : R) :
    l.foldl f x ∈ x :: l := by
  induction l generalizing x with
  | nil => simp
  | cons y ys ih =>
    simp only [List.foldl_cons]
    rcases List.mem_cons.1 (ih (f x y)) with h | h
    · rw [h]
      rcases hf x y with h' | h' <;> simp [h']
    · simp [h]

theorem maxL_mem {o : COps R} {l : List R} {m : R} (h : maxL o l = some m) : m ∈ l := by
  cases l with
  | nil => simp [maxL] at h
  | cons x xs =>
    simp only [maxL, Option.some.injEq] at h
    rw [← h]; exact foldl_sel_mem _ (maxR_eq o) xs x

theorem minL_mem {o : COps R} {l : List R} {m : R} (h : minL o l = some m) : m ∈ l := by
  cases l with
  | nil => simp [minL] at h
  | cons x xs =>
    simp only [minL, Option.some.injEq] at h
    rw [← h]; exact foldl_sel_mem _ (minR_eq o) xs x

theorem maxL_eq_none {o : COps R} {l : List R} : maxL o l = none ↔ l = [] := by
  cases l <;> simp [maxL]

theorem minL_eq_none {o : COps R} {l : List R} : minL o l = none ↔ l = [] := by
  cases l <;> simp [minL]

theorem maxL_isSome {o : COps R} {l : List R} (h : l ≠ []) : ∃ m, maxL o l = some m := by
  cases l with
  | nil => exact absurd rfl h
  | cons x xs => exact ⟨_, rfl⟩

/-! ### `Option`-`mapM` -/

theorem option_mapM_cons {α β : Type} (f : α → Option β) (a : α) (l : List α) :
    (a :: l).mapM f =
      match f a with
      | none => none
      | some b => match l.mapM f with
        | none => none
        | some bs => some (b :: bs) := by
  rw [List.mapM_cons]
  cases f a with
  | none => rfl
  | some b => cases l.mapM f <;> rfl

theorem option_mapM_some_cons {α β : Type} {f : α → Option β} {a : α} {l : List α} {r : List β}
    (h : (a :: l).mapM f = some r) : ∃ b bs, f a = some b ∧ l.mapM f = some bs ∧ r = b :: bs := by
  rw [option_mapM_cons] at h
  cases hfa : f a with
  | none => simp [hfa] at h
  | some b =>
    cases hl : l.mapM f with
    | none => simp [hfa, hl] at h
    | some bs =>
      simp [hfa, hl] at h
      exact ⟨b, bs, rfl, rfl, h.symm⟩

theorem option_mapM_some {α β : Type} {f : α → Option β} {l : List α} {r : List β}
    (h : l.mapM f = some r) :
    r.length = l.length ∧ ∀ y ∈ r, ∃ x ∈ l, f x = some y := by
  induction l generalizing r with
  | nil =>
    simp only [List.mapM_nil] at h
    cases h
    simp
  | cons a l ih =>
    obtain ⟨b, bs, hfa, hl, rfl⟩ := option_mapM_some_cons h
    obtain ⟨ih1, ih2⟩ := ih hl
    refine ⟨by simp [ih1], ?_⟩
    intro y hy
    rcases List.mem_cons.1 hy with rfl | hy
    · exact ⟨a, List.mem_cons_self, hfa⟩
    · obtain ⟨x, hx, hfx⟩ := ih2 y hy
      exact ⟨x, List.mem_cons_of_mem _ hx, hfx⟩

/-! ### `labelConfidence` characterisation -/

/-- the masking of one frame inside `labelConfidence` -/
def maskRow (o : COps R) (labels : List Nat) (i label : Nat) (r : List R) : List R :=
  let r1 := zeroAt o r label
  let r2 := if i > 0 then zeroAt o r1 (labels.getD (i - 1) 0) else r1
  let r3 := if i + 1 < labels.length then zeroAt o r2 (labels.getD (i + 1) 0) else r2
  r3.dropLast

theorem labelConfidence_eq (hB : ∀ a a' : Nat, (Gen.Confidence.nextBorder (a : Int) (a' : Int)).toNat = (a + 1 + a') / 2)
    (o : COps R) (probs : List (List R)) (labels al : List Nat)
    (i lb : Nat) :
    labelConfidence o probs labels al i lb =
      match labels[i]?, al[i]?, al[i+1]? with
      | some label, some a, some a' =>
        match probs[a]? with
        | none => none
        | some row =>
          match row[label]? with
          | none => none
          | some labelProb =>
            match maxL o ((((probs.drop lb).take ((a + 1 + a') / 2 - lb)).map
                (maskRow o labels i label)).flatten) with
            | none => none
            | some other => some (maxR o o.zero (o.sub labelProb other), (a + 1 + a') / 2)
      | _, _, _ => none := by
  unfold labelConfidence
  simp only [hB]
  rfl

theorem labelConfidence_some (hB : ∀ a a' : Nat, (Gen.Confidence.nextBorder (a : Int) (a' : Int)).toNat = (a + 1 + a') / 2)
    {o : COps R} {probs : List (List R)} {labels al : List Nat}
    {i lb : Nat} {c : R} {nb : Nat} (h : labelConfidence o probs labels al i lb = some (c, nb)) :
    ∃ label a a' row labelProb other,
      labels[i]? = some label ∧ al[i]? = some a ∧ al[i+1]? = some a' ∧ probs[a]? = some row ∧
      row[label]? = some labelProb ∧ nb = (a + 1 + a') / 2 ∧
      maxL o ((((probs.drop lb).take (nb - lb)).map (maskRow o labels i label)).flatten)
        = some other ∧
      c = maxR o o.zero (o.sub labelProb other) := by
  rw [labelConfidence_eq hB] at h
  split at h
  · rename_i label a a' h1 h2 h3
    split at h
    · cases h
    · rename_i row h4
      split at h
      · cases h
      · rename_i labelProb h5
        split at h
        · cases h
        · rename_i other h6
          simp only [Option.some.injEq, Prod.mk.injEq] at h
          obtain ⟨rfl, rfl⟩ := h
          exact ⟨label, a, a', row, labelProb, other, h1, h2, h3, h4, h5, rfl, h6, rfl⟩
  · cases h


theorem lineConfAux_succ (o : COps R) (probs : List (List R)) (labels al : List Nat) (n i lb : Nat) :
    lineConfAux o probs labels al (n + 1) i lb =
      match labelConfidence o probs labels al i lb with
      | none => none
      | some (c, nb) => (lineConfAux o probs labels al n (i + 1) nb).map (c :: ·) := rfl

theorem mem_maskRow {o : COps R} {labels : List Nat} {i label : Nat} {r : List R} {x : R}
    (h : x ∈ maskRow o labels i label r) : x ∈ r ∨ x = o.zero := by
  unfold maskRow at h
  have h := List.dropLast_subset _ h
  split at h
  · rcases List.mem_or_eq_of_mem_set h with h | h
    · split at h
      · rcases List.mem_or_eq_of_mem_set h with h | h
        · exact List.mem_or_eq_of_mem_set h
        · exact Or.inr h
      · exact List.mem_or_eq_of_mem_set h
    · exact Or.inr h
  · split at h
    · rcases List.mem_or_eq_of_mem_set h with h | h
      · exact List.mem_or_eq_of_mem_set h
      · exact Or.inr h
    · exact List.mem_or_eq_of_mem_set h

theorem length_maskRow (o : COps R) (labels : List Nat) (i label : Nat) (r : List R) :
    (maskRow o labels i label r).length = r.length - 1 := by
  unfold maskRow zeroAt
  dsimp only
  split <;> split <;> simp

theorem maskRow_getElem? {o : COps R} {labels : List Nat} {i label : Nat} {r : List R} {j : Nat}
    {x : R} (h : (maskRow o labels i label r)[j]? = some x) :
    x = o.zero ∨ (r[j]? = some x ∧ j + 1 < r.length ∧ j ≠ label ∧
      (i > 0 → j ≠ labels.getD (i - 1) 0) ∧ (i + 1 < labels.length → j ≠ labels.getD (i + 1) 0)) := by
  unfold maskRow zeroAt at h
  dsimp only at h
  split at h <;> split at h <;>
    simp only [List.getElem?_dropLast, List.getElem?_set, List.length_set] at h <;> grind

theorem mem_window {probs : List (List R)} {lb k : Nat} {r : List R}
    (h : r ∈ (probs.drop lb).take k) : r ∈ probs :=
  List.mem_of_mem_drop (List.mem_of_mem_take h)

/-! ### `letterGroups`, `getProbAux` -/

theorem letterGroups_forall (P : R → Prop) (fr : List (Nat × R)) (h : ∀ x ∈ fr, P x.2) :
    ∀ g ∈ letterGroups fr, ∀ p ∈ g.2, P p := by
  induction fr with
  | nil => simp [letterGroups]
  | cons x r ih =>
    obtain ⟨s, p⟩ := x
    have ih := ih (fun x hx => h x (List.mem_cons_of_mem _ hx))
    have hp : P p := h (s, p) List.mem_cons_self
    unfold letterGroups
    split
    · rename_i s' g gs heq
      rw [heq] at ih
      have hg : ∀ q ∈ g, P q := ih (s', g) List.mem_cons_self
      have hgs : ∀ g' ∈ gs, ∀ q ∈ g'.2, P q := fun g' hg' => ih g' (List.mem_cons_of_mem _ hg')
      split
      · intro g' hg' q hq
        rcases List.mem_cons.1 hg' with rfl | hg'
        · rcases List.mem_cons.1 hq with rfl | hq
          · exact hp
          · exact hg q hq
        · exact hgs g' hg' q hq
      · intro g' hg' q hq
        rcases List.mem_cons.1 hg' with rfl | hg'
        · simp only [List.mem_singleton] at hq
          rw [hq]; exact hp
        · exact ih g' hg' q hq
    · intro g' hg' q hq
      simp only [List.mem_singleton] at hg'
      subst hg'
      simp only [List.mem_singleton] at hq
      rw [hq]; exact hp

theorem getProbAux_sel (o : COps R) (P : R → Prop) (best : List (Nat × R)) :
    ∀ (lastId : Int) (lastProb worst : R), P lastProb → P worst → (∀ b ∈ best, P b.2) →
      P (getProbAux o lastId lastProb worst best) := by
  have hmin : ∀ a b, P a → P b → P (minR o a b) := by
    intro a b ha hb; rcases minR_eq o a b with h | h <;> rw [h] <;> assumption
  have hmax : ∀ a b, P a → P b → P (maxR o a b) := by
    intro a b ha hb; rcases maxR_eq o a b with h | h <;> rw [h] <;> assumption
  induction best with
  | nil => intro lastId lastProb worst h1 h2 _; exact hmin _ _ h2 h1
  | cons x r ih =>
    obtain ⟨id, p⟩ := x
    intro lastId lastProb worst h1 h2 h3
    have hp : P p := h3 (id, p) List.mem_cons_self
    have h3' : ∀ b ∈ r, P b.2 := fun b hb => h3 b (List.mem_cons_of_mem _ hb)
    unfold getProbAux
    split
    · exact ih _ _ _ hp (hmin _ _ h2 h1) h3'
    · exact ih _ _ _ (hmax _ _ hp h1) h2 h3'

/-! ## 2. Ordered fields -/

section Ordered
variable [Field R] [LinearOrder R]

/-- the record of operations of an ordered field (the Props file's `C16.COps.of` is this, by `rfl`) -/
def cops (R : Type) [Field R] [LinearOrder R] : COps R :=
  { zero := 0, one := 1, add := (· + ·), mul := (· * ·), lt := fun a b => decide (a < b),
    div := (· / ·), sub := (· - ·) }

@[simp] theorem cops_zero : (cops R).zero = 0 := rfl
@[simp] theorem cops_one : (cops R).one = 1 := rfl
@[simp] theorem cops_lt (a b : R) : (cops R).lt a b = decide (a < b) := rfl
@[simp] theorem cops_sub (a b : R) : (cops R).sub a b = a - b := rfl
@[simp] theorem cops_add (a b : R) : (cops R).add a b = a + b := rfl
@[simp] theorem cops_div (a b : R) : (cops R).div a b = a / b := rfl

theorem maxR_cops (a b : R) : maxR (cops R) a b = max a b := by
  unfold maxR
  simp only [cops_lt, decide_eq_true_eq]
  split
  · rw [max_eq_right (le_of_lt ‹_›)]
  · rw [max_eq_left (not_lt.1 ‹_›)]

theorem minR_cops (a b : R) : minR (cops R) a b = min a b := by
  unfold minR
  simp only [cops_lt, decide_eq_true_eq]
  split
  · rw [min_eq_right (le_of_lt ‹_›)]
  · rw [min_eq_left (not_lt.1 ‹_›)]

theorem foldl_maxR_le (l : List R) (x : R) :
    x ≤ l.foldl (maxR (cops R)) x ∧ ∀ y ∈ l, y ≤ l.foldl (maxR (cops R)) x := by
  induction l generalizing x with
  | nil => simp
  | cons y ys ih =>
    simp only [List.foldl_cons, maxR_cops]
    obtain ⟨h1, h2⟩ := ih (max x y)
    refine ⟨le_trans (le_max_left _ _) h1, ?_⟩
    intro z hz
    rcases List.mem_cons.1 hz with rfl | hz
    · exact le_trans (le_max_right _ _) h1
    · exact h2 z hz

theorem foldl_minR_le (l : List R) (x : R) :
    l.foldl (minR (cops R)) x ≤ x ∧ ∀ y ∈ l, l.foldl (minR (cops R)) x ≤ y := by
  induction l generalizing x with
  | nil => simp
  | cons y ys ih =>
    simp only [List.foldl_cons, minR_cops]
    obtain ⟨h1, h2⟩ := ih (min x y)
    refine ⟨le_trans h1 (min_le_left _ _), ?_⟩
    intro z hz
    rcases List.mem_cons.1 hz with rfl | hz
    · exact le_trans h1 (min_le_right _ _)
    · exact h2 z hz

/-- `maxL` is the maximum: an element that dominates all others -/
theorem maxL_spec {l : List R} {m : R} (h : maxL (cops R) l = some m) : m ∈ l ∧ ∀ x ∈ l, x ≤ m := by
  refine ⟨maxL_mem h, ?_⟩
  cases l with
  | nil => simp [maxL] at h
  | cons x xs =>
    simp only [maxL, Option.some.injEq] at h
    subst h
    intro y hy
    rcases List.mem_cons.1 hy with rfl | hy
    · exact (foldl_maxR_le xs _).1
    · exact (foldl_maxR_le xs x).2 y hy

theorem minL_spec {l : List R} {m : R} (h : minL (cops R) l = some m) : m ∈ l ∧ ∀ x ∈ l, m ≤ x := by
  refine ⟨minL_mem h, ?_⟩
  cases l with
  | nil => simp [minL] at h
  | cons x xs =>
    simp only [minL, Option.some.injEq] at h
    subst h
    intro y hy
    rcases List.mem_cons.1 hy with rfl | hy
    · exact (foldl_minR_le xs _).1
    · exact (foldl_minR_le xs x).2 y hy

/-- copy of the Props file's `C16.Probs` (equal by `Iff.rfl`) -/
def ProbsL (C : ℕ) (probs : List (List R)) : Prop :=
  ∀ row ∈ probs, row.length = C ∧ ∀ x ∈ row, 0 ≤ x ∧ x ≤ 1


variable [IsStrictOrderedRing R]

omit [IsStrictOrderedRing R] in
theorem ProbsL.entry {C : ℕ} {probs : List (List R)} (hp : ProbsL C probs) {a l : Nat}
    {row : List R} {x : R} (h1 : probs[a]? = some row) (h2 : row[l]? = some x) : 0 ≤ x ∧ x ≤ 1 :=
  (hp row (List.mem_of_getElem? h1)).2 x (List.mem_of_getElem? h2)

/-! ### `get_line_confidence` -/

theorem labelConfidence_range (hB : ∀ a a' : Nat, (Gen.Confidence.nextBorder (a : Int) (a' : Int)).toNat = (a + 1 + a') / 2)
    {C : ℕ} {probs : List (List R)} (hp : ProbsL C probs)
    {labels al : List Nat} {i lb : Nat} {c : R} {nb : Nat}
    (h : labelConfidence (cops R) probs labels al i lb = some (c, nb)) : 0 ≤ c ∧ c ≤ 1 := by
  obtain ⟨label, a, a', row, labelProb, other, -, -, -, h4, h5, -, h7, rfl⟩ := labelConfidence_some hB h
  have hlp := hp.entry h4 h5
  have hoth : 0 ≤ other := by
    have hm := maxL_mem h7
    obtain ⟨mr, hmr, hx⟩ := List.mem_flatten.1 hm
    obtain ⟨r, hr, rfl⟩ := List.mem_map.1 hmr
    rcases mem_maskRow hx with hx | hx
    · exact ((hp r (mem_window hr)).2 other hx).1
    · rw [hx]; exact le_refl _
  rw [maxR_cops]
  simp only [cops_zero, cops_sub]
  exact ⟨le_max_left _ _, max_le zero_le_one (by linarith [hlp.2])⟩

theorem lineConfAux_range (hB : ∀ a a' : Nat, (Gen.Confidence.nextBorder (a : Int) (a' : Int)).toNat = (a + 1 + a') / 2)
    {C : ℕ} {probs : List (List R)} (hp : ProbsL C probs)
    (labels al : List Nat) :
    ∀ (n i lb : Nat) (cs : List R), lineConfAux (cops R) probs labels al n i lb = some cs →
      cs.length = n ∧ ∀ c ∈ cs, 0 ≤ c ∧ c ≤ 1 := by
  intro n
  induction n with
  | zero =>
    intro i lb cs h
    simp only [lineConfAux, Option.some.injEq] at h
    subst h; simp
  | succ n ih =>
    intro i lb cs h
    rw [lineConfAux_succ] at h
    split at h
    · cases h
    · rename_i c nb hlc
      cases hrec : lineConfAux (cops R) probs labels al n (i + 1) nb with
      | none => simp [hrec] at h
      | some cs' =>
        simp only [hrec, Option.map_some, Option.some.injEq] at h
        subst h
        obtain ⟨h1, h2⟩ := ih _ _ _ hrec
        refine ⟨by simp [h1], ?_⟩
        intro x hx
        rcases List.mem_cons.1 hx with rfl | hx
        · exact labelConfidence_range hB hp hlc
        · exact h2 x hx

omit [IsStrictOrderedRing R] in
theorem transformer_rangeL {C : ℕ} {probs : List (List R)} (hp : ProbsL C probs)
    {labels : List Nat} {cs : List R} (h : lineConfidenceTransformer probs labels = some cs) :
    cs.length = labels.length ∧ ∀ c ∈ cs, 0 ≤ c ∧ c ≤ 1 := by
  unfold lineConfidenceTransformer at h
  obtain ⟨h1, h2⟩ := option_mapM_some h
  refine ⟨by simpa using h1, ?_⟩
  intro c hc
  obtain ⟨i, -, hi⟩ := h2 c hc
  split at hi
  · rename_i row l hr hl
    exact hp.entry hr hi
  · cases hi

theorem lineConfidence_rangeL (hB : ∀ a a' : Nat, (Gen.Confidence.nextBorder (a : Int) (a' : Int)).toNat = (a + 1 + a') / 2)
    {C : ℕ} {probs : List (List R)} (hp : ProbsL C probs)
    {labels alignment : List Nat} {cs : List R}
    (h : getLineConfidence (cops R) probs labels alignment = some cs) :
    cs.length = labels.length ∧ ∀ c ∈ cs, 0 ≤ c ∧ c ≤ 1 := by
  unfold getLineConfidence at h
  split at h
  · exact transformer_rangeL hp h
  · exact lineConfAux_range hB hp _ _ _ _ _ _ h

omit [IsStrictOrderedRing R] in
/-- one label is defined when its window contains the aligned frame -/
theorem labelConfidence_defined (hB : ∀ a a' : Nat, (Gen.Confidence.nextBorder (a : Int) (a' : Int)).toNat = (a + 1 + a') / 2)
    {C : ℕ} (hC : 2 ≤ C) {probs : List (List R)} (hp : ProbsL C probs)
    {labels al : List Nat} {i lb label a a' : Nat}
    (h1 : labels[i]? = some label) (h2 : al[i]? = some a) (h3 : al[i+1]? = some a')
    (hlab : label < C) (ha : a < probs.length) (haa : a < a') (hlb : lb ≤ a) :
    ∃ c, labelConfidence (cops R) probs labels al i lb = some (c, (a + 1 + a') / 2) := by
  rw [labelConfidence_eq hB, h1, h2, h3]
  dsimp only
  have hrow : probs[a]? = some probs[a] := List.getElem?_eq_getElem ha
  rw [hrow]
  dsimp only
  have hlen : probs[a].length = C := (hp _ (List.getElem_mem ha)).1
  have hl : probs[a][label]? = some (probs[a][label]'(by omega)) := List.getElem?_eq_getElem (by omega)
  rw [hl]
  dsimp only
  have hlb' : lb < probs.length := by omega
  have hne : ((((probs.drop lb).take ((a + 1 + a') / 2 - lb)).map
      (maskRow (cops R) labels i label)).flatten) ≠ [] := by
    intro hnil
    rw [List.flatten_eq_nil_iff] at hnil
    have hmem : probs[lb] ∈ (probs.drop lb).take ((a + 1 + a') / 2 - lb) := by
      apply List.mem_of_getElem? (i := 0)
      rw [List.getElem?_take]
      have : 0 < (a + 1 + a') / 2 - lb := by omega
      simp [this, hlb']
    have := hnil _ (List.mem_map_of_mem hmem)
    have hlen' := length_maskRow (cops R) labels i label probs[lb]
    rw [this, (hp _ (List.getElem_mem hlb')).1] at hlen'
    simp at hlen'
    omega
  obtain ⟨m, hm⟩ := maxL_isSome (o := cops R) hne
  rw [hm]
  exact ⟨_, rfl⟩

omit [IsStrictOrderedRing R] in
theorem lineConfAux_defined (hB : ∀ a a' : Nat, (Gen.Confidence.nextBorder (a : Int) (a' : Int)).toNat = (a + 1 + a') / 2)
    {C : ℕ} (hC : 2 ≤ C) {probs : List (List R)} (hp : ProbsL C probs)
    {labels al : List Nat} (hlen : al.length = labels.length + 1)
    (hlab : ∀ l ∈ labels, l < C) (hal : al.Pairwise (· < ·))
    (hT : ∀ j (hj : j < al.length), j < labels.length → al[j] < probs.length) :
    ∀ (n i lb : Nat), i + n = labels.length → (∀ (hi : i < al.length), lb ≤ al[i]) →
      ∃ cs, lineConfAux (cops R) probs labels al n i lb = some cs := by
  intro n
  induction n with
  | zero => intro i lb _ _; exact ⟨[], rfl⟩
  | succ n ih =>
    intro i lb hin hlb
    have hi : i < labels.length := by omega
    have hi1 : i < al.length := by omega
    have hi2 : i + 1 < al.length := by omega
    have haa : al[i] < al[i + 1] := List.pairwise_iff_getElem.1 hal i (i + 1) hi1 hi2 (by omega)
    obtain ⟨c, hc⟩ := labelConfidence_defined (R := R) hB hC hp (labels := labels) (al := al) (lb := lb)
      (List.getElem?_eq_getElem hi) (List.getElem?_eq_getElem hi1) (List.getElem?_eq_getElem hi2)
      (hlab _ (List.getElem_mem hi)) (hT i hi1 hi) haa (hlb hi1)
    obtain ⟨cs, hcs⟩ := ih (i + 1) ((al[i] + 1 + al[i + 1]) / 2) (by omega) (by intro _; omega)
    exact ⟨c :: cs, by rw [lineConfAux_succ, hc]; simp [hcs]⟩

omit [IsStrictOrderedRing R] in
theorem lineConfidence_definedL (hB : ∀ a a' : Nat, (Gen.Confidence.nextBorder (a : Int) (a' : Int)).toNat = (a + 1 + a') / 2)
    (hS : ∀ T : Nat, (Gen.Confidence.sentinel (T : Int)).toNat = max 1000 T)
    {C : ℕ} (hC : 2 ≤ C) {probs : List (List R)} (hp : ProbsL C probs)
    {labels alignment : List Nat} (hl : labels.length = alignment.length)
    (hlab : ∀ l ∈ labels, l < C) (hal : alignment.Pairwise (· < ·))
    (hT : ∀ a ∈ alignment, a < probs.length) :
    ∃ cs, lineConfidence (cops R) probs labels alignment = some cs := by
  unfold lineConfidence
  rw [hS]
  apply lineConfAux_defined hB hC hp (by simp [hl]) hlab
  · rw [List.pairwise_append]
    refine ⟨hal, List.pairwise_singleton _ _, ?_⟩
    intro a ha b hb
    simp only [List.mem_singleton] at hb
    subst hb
    exact lt_of_lt_of_le (hT a ha) (le_max_right _ _)
  · intro j hj hj'
    rw [List.getElem_append_left (by omega)]
    exact hT _ (List.getElem_mem _)
  · omega
  · intro _; exact Nat.zero_le _

/-! ### one-hot posteriors -/

theorem labelConfidence_onehotL (hB : ∀ a a' : Nat, (Gen.Confidence.nextBorder (a : Int) (a' : Int)).toNat = (a + 1 + a') / 2)
    {C : ℕ} {probs : List (List R)} (hp : ProbsL C probs)
    {labels al : List ℕ} {i lastBorder : ℕ} {c : R} {nb : ℕ}
    (h : labelConfidence (cops R) probs labels al i lastBorder = some (c, nb))
    (hlab : ∀ row, probs[al.getD i 0]? = some row → row[labels.getD i 0]? = some 1)
    (hoth : ∀ row ∈ (probs.drop lastBorder).take (nb - lastBorder), ∀ j, j + 1 < C →
        j ≠ labels.getD i 0 → (i > 0 → j ≠ labels.getD (i - 1) 0) →
        (i + 1 < labels.length → j ≠ labels.getD (i + 1) 0) → row[j]? = some 0) :
    c = 1 := by
  obtain ⟨label, a, a', row, labelProb, other, h1, h2, h3, h4, h5, -, h7, rfl⟩ :=
    labelConfidence_some hB h
  have e1 : labels.getD i 0 = label := by simp [List.getD_eq_getElem?_getD, h1]
  have e2 : al.getD i 0 = a := by simp [List.getD_eq_getElem?_getD, h2]
  rw [e1] at hlab hoth
  rw [e2] at hlab
  have hlp : labelProb = 1 := by
    have := hlab row h4
    rw [h5] at this
    exact Option.some.inj this
  have hother : other = 0 := by
    have hm := maxL_mem h7
    obtain ⟨mr, hmr, hx⟩ := List.mem_flatten.1 hm
    obtain ⟨r, hr, rfl⟩ := List.mem_map.1 hmr
    obtain ⟨j, hj⟩ := List.mem_iff_getElem?.1 hx
    rcases maskRow_getElem? hj with h0 | ⟨hrj, hjl, hne, hprev, hnext⟩
    · exact h0
    · have hrl : r.length = C := (hp r (mem_window hr)).1
      have := hoth r hr j (by omega) hne hprev hnext
      rw [hrj] at this
      exact Option.some.inj this
  rw [maxR_cops, hlp, hother]
  simp

/-! ### letter confidences, `get_prob`, `line_confident_enough`, median -/

omit [IsStrictOrderedRing R] in
theorem letterConfidence_rangeL {C : ℕ} {probs : List (List R)} (hp : ProbsL C probs)
    {alignment : List ℕ} {blank : ℕ} {cs : List R}
    (h : letterConfidence (cops R) probs alignment blank = some cs) :
    ∀ c ∈ cs, 0 ≤ c ∧ c ≤ 1 := by
  unfold letterConfidence at h
  split at h
  · cases h
  · rename_i fr hfr
    have hfr' : ∀ x ∈ fr, 0 ≤ x.2 ∧ x.2 ≤ 1 := by
      intro x hx
      obtain ⟨t, -, ht⟩ := (option_mapM_some hfr).2 x hx
      split at ht
      · rename_i row s hr hs
        cases hrs : row[s]? with
        | none => simp [hrs] at ht
        | some p =>
          simp only [hrs, Option.map_some, Option.some.injEq] at ht
          subst ht
          exact hp.entry hr hrs
      · cases ht
    have hg := letterGroups_forall (fun p : R => 0 ≤ p ∧ p ≤ 1) fr hfr'
    intro c hc
    obtain ⟨g, hgm, hgc⟩ := (option_mapM_some h).2 c hc
    exact hg g ((List.mem_filter.1 hgm).1) c (maxL_mem hgc)

theorem getProb_rangeL (best : List (ℕ × R)) (h : ∀ b ∈ best, 0 ≤ b.2 ∧ b.2 ≤ 1) :
    0 ≤ getProb (cops R) best ∧ getProb (cops R) best ≤ 1 := by
  unfold getProb
  exact getProbAux_sel (cops R) (fun p : R => 0 ≤ p ∧ p ≤ 1) best _ _ _
    ⟨zero_le_one, le_refl _⟩ ⟨zero_le_one, le_refl _⟩ h

omit [IsStrictOrderedRing R] in
theorem confident_monotoneL (probs : List (List R)) (t₁ t₂ : R) (ht : t₁ ≤ t₂)
    (h : lineConfidentEnough (cops R) probs t₂ = some true) :
    lineConfidentEnough (cops R) probs t₁ = some true := by
  unfold lineConfidentEnough at h ⊢
  cases hb : List.mapM (maxL (cops R)) probs with
  | none => simp [hb] at h
  | some bests =>
    rw [hb] at h
    dsimp only at h ⊢
    cases hw : minL (cops R) bests with
    | none => simp [hw] at h
    | some w =>
      simp only [hw, Option.map_some, cops_lt, Option.some.injEq, decide_eq_true_eq] at h ⊢
      exact lt_of_le_of_lt ht h

theorem median_rangeL (xs : List R) (m : R) (hx : ∀ x ∈ xs, 0 ≤ x ∧ x ≤ 1)
    (h : median (cops R) 2 xs = some m) : 0 ≤ m ∧ m ≤ 1 := by
  unfold median at h
  dsimp only at h
  have hs : ∀ {k : Nat} {y : R},
      (xs.mergeSort fun a b => !((cops R).lt b a))[k]? = some y → 0 ≤ y ∧ y ≤ 1 := by
    intro k y hk
    exact hx y (List.mem_mergeSort.1 (List.mem_of_getElem? hk))
  split at h
  · cases h
  · split at h
    · exact hs h
    · split at h
      · rename_i a b ha hb
        simp only [cops_add, cops_div, Option.some.injEq] at h
        subst h
        have h1 := hs ha
        have h2 := hs hb
        constructor
        · apply div_nonneg _ (by norm_num)
          linarith [h1.1, h2.1]
        · rw [div_le_iff₀ (by norm_num)]
          linarith [h1.2, h2.2]
      · cases h

omit [IsStrictOrderedRing R] in
theorem median_definedL (xs : List R) (hne : xs ≠ []) : ∃ m, median (cops R) 2 xs = some m := by
  unfold median
  dsimp only
  have hlen : (xs.mergeSort fun a b => !((cops R).lt b a)).length = xs.length :=
    List.length_mergeSort _
  have hpos : 0 < xs.length := List.length_pos_iff.2 hne
  generalize (xs.mergeSort fun a b => !((cops R).lt b a)) = s at hlen
  rw [if_neg (by omega)]
  split
  · exact ⟨s[s.length / 2]'(by omega), List.getElem?_eq_getElem _⟩
  · have h1 : s[s.length / 2 - 1]? = some (s[s.length / 2 - 1]'(by omega)) := List.getElem?_eq_getElem _
    have h2 : s[s.length / 2]? = some (s[s.length / 2]'(by omega)) := List.getElem?_eq_getElem _
    rw [h1, h2]
    exact ⟨_, rfl⟩

end Ordered

/-! ## 3. `log_softmax` over the reals -/

section Real

theorem sum_exp_nonneg (x : List ℝ) : 0 ≤ (x.map Real.exp).sum := by
  induction x with
  | nil => simp
  | cons a l ih =>
    simp only [List.map_cons, List.sum_cons]
    exact add_nonneg (Real.exp_pos a).le ih

theorem sum_exp_pos (x : List ℝ) (hne : x ≠ []) : 0 < (x.map Real.exp).sum := by
  cases x with
  | nil => exact absurd rfl hne
  | cons a l =>
    simp only [List.map_cons, List.sum_cons]
    exact add_pos_of_pos_of_nonneg (Real.exp_pos a) (sum_exp_nonneg l)

theorem exp_le_sum_exp {x : List ℝ} {a : ℝ} (h : a ∈ x) : Real.exp a ≤ (x.map Real.exp).sum := by
  induction x with
  | nil => simp at h
  | cons b l ih =>
    simp only [List.map_cons, List.sum_cons]
    rcases List.mem_cons.1 h with rfl | h
    · linarith [sum_exp_nonneg l]
    · linarith [ih h, Real.exp_pos b]

/-- `logsumexp (x + c) = logsumexp x + c` -/
theorem log_sum_exp_shift (x : List ℝ) (c : ℝ) (hne : x ≠ []) :
    Real.log (((x.map (· + c)).map Real.exp).sum) = Real.log ((x.map Real.exp).sum) + c := by
  have h1 : ((x.map (· + c)).map Real.exp).sum = (x.map Real.exp).sum * Real.exp c := by
    rw [List.map_map, ← List.sum_map_mul_right]
    congr 1
    apply List.map_congr_left
    intro a _
    simp [Real.exp_add]
  rw [h1, Real.log_mul (sum_exp_pos x hne).ne' (Real.exp_pos c).ne', Real.log_exp]

/-- `Σ exp (a - logsumexp x) = 1` -/
theorem sum_exp_sub_log (x : List ℝ) (hne : x ≠ []) :
    ((x.map fun a => a - Real.log ((x.map Real.exp).sum)).map Real.exp).sum = 1 := by
  have hS := sum_exp_pos x hne
  have h1 : ((x.map fun a => a - Real.log ((x.map Real.exp).sum)).map Real.exp)
      = x.map fun a => Real.exp a * ((x.map Real.exp).sum)⁻¹ := by
    rw [List.map_map]
    apply List.map_congr_left
    intro a _
    simp only [Function.comp_apply]
    rw [Real.exp_sub, Real.exp_log hS, div_eq_mul_inv]
  rw [h1, List.sum_map_mul_right, mul_inv_cancel₀ hS.ne']

theorem exp_sub_log_range (x : List ℝ) {a : ℝ} (h : a ∈ x) :
    0 < Real.exp (a - Real.log ((x.map Real.exp).sum)) ∧
      Real.exp (a - Real.log ((x.map Real.exp).sum)) ≤ 1 := by
  have hS := sum_exp_pos x (List.ne_nil_of_mem h)
  refine ⟨Real.exp_pos _, ?_⟩
  rw [Real.exp_sub, Real.exp_log hS, div_le_one hS]
  exact exp_le_sum_exp h

end Real

end Conf

/-! ### definedness of the transformer branch (used by C06.alto_confidence_total) -/

namespace Conf
variable {R : Type}

theorem option_mapM_defined {α β : Type} {f : α → Option β} {l : List α}
    (h : ∀ x ∈ l, ∃ y, f x = some y) : ∃ r, l.mapM f = some r := by
  induction l with
  | nil => exact ⟨[], by simp⟩
  | cons a l ih =>
    obtain ⟨b, hb⟩ := h a List.mem_cons_self
    obtain ⟨bs, hbs⟩ := ih fun x hx => h x (List.mem_cons_of_mem _ hx)
    exact ⟨b :: bs, by rw [option_mapM_cons, hb, hbs]⟩

/-- one frame per label, rows of length `C`, labels `< C`: every `probs[i][labels[i]]` exists -/
theorem transformer_definedL {C : ℕ} {probs : List (List R)} {labels : List Nat}
    (hrow : ∀ row ∈ probs, row.length = C) (hlen : probs.length = labels.length)
    (hlab : ∀ l ∈ labels, l < C) : ∃ cs, lineConfidenceTransformer probs labels = some cs := by
  unfold lineConfidenceTransformer
  apply option_mapM_defined
  intro i hi
  have hi' : i < labels.length := List.mem_range.1 hi
  have hp : i < probs.length := by omega
  have hl := hlab labels[i] (List.getElem_mem hi')
  have hr := hrow probs[i] (List.getElem_mem hp)
  rw [List.getElem?_eq_getElem hp, List.getElem?_eq_getElem hi']
  exact ⟨(probs[i])[labels[i]]'(by omega), by simp [List.getElem?_eq_getElem (show labels[i] < probs[i].length by omega)]⟩

end Conf
