/-
Helper lemmas for C13 (Levenshtein DP, backtracking, substring variant, summaries).
Core Lean only.

Overview
* §1  alignments: append / singleton lemmas, `IsMin` base cases and the DP step (`isMin_step`),
      the same for "minimum over all suffixes of the source" (`IsMinSuf`) and "over all infixes"
      (`IsMinInf`).
* §2  a generic row invariant `RowP` and its preservation by `stepAux`.
* §3  the plain DP: `CellOK`, `lastRow_rowP`, `dist_isMin`.
* §4  backtracking: `back_ok`, `alignment_ok`, `pathCost_pathOf`.
* §5  substring variant: `subLoop_ok`, `distSub_isMinInf`.
* §6  unit costs: symmetry, `editStats`.
* §7  `Summary` algebra.
-/
import PeroVerif.Model.Lev
import PeroVerif.Spec.Lev

namespace Lev
variable {α : Type}

/-! ## §1 Alignments -/

theorem snoc_induction {P : List α → Prop} (nil : P [])
    (snoc : ∀ l a, P l → P (l ++ [a])) : ∀ l, P l := by
  have h : ∀ l : List α, P l.reverse := by
    intro l
    induction l with
    | nil => exact nil
    | cons a l ih => rw [List.reverse_cons]; exact snoc _ _ ih
  intro l
  have := h l.reverse
  rwa [List.reverse_reverse] at this

@[simp] theorem srcOf_append (a b : Alignment α) : srcOf (a ++ b) = srcOf a ++ srcOf b := by
  simp [srcOf]
@[simp] theorem tgtOf_append (a b : Alignment α) : tgtOf (a ++ b) = tgtOf a ++ tgtOf b := by
  simp [tgtOf]
@[simp] theorem cost_append [DecidableEq α] (c : Costs) (a b : Alignment α) :
    cost c (a ++ b) = cost c a + cost c b := by simp [cost]
theorem wf_append {a b : Alignment α} : WellFormed (a ++ b) ↔ WellFormed a ∧ WellFormed b := by
  simp [WellFormed, or_imp, forall_and]

@[simp] theorem srcOf_single (p : Option α × Option α) : srcOf [p] = p.1.toList := by
  rcases p with ⟨_|a, q⟩ <;> simp [srcOf]
@[simp] theorem tgtOf_single (p : Option α × Option α) : tgtOf [p] = p.2.toList := by
  rcases p with ⟨q, _|a⟩ <;> simp [tgtOf]
@[simp] theorem cost_single [DecidableEq α] (c : Costs) (p : Option α × Option α) :
    cost c [p] = stepCost c p := by simp [cost]
theorem wf_single {p : Option α × Option α} (h : p ≠ (none, none)) : WellFormed [p] := by
  intro q hq; simp at hq; subst hq; exact h
theorem wf_nil : WellFormed ([] : Alignment α) := by
  intro p hp; cases hp

@[simp] theorem srcOf_nil : srcOf ([] : Alignment α) = [] := rfl
@[simp] theorem tgtOf_nil : tgtOf ([] : Alignment α) = [] := rfl
@[simp] theorem cost_nil [DecidableEq α] (c : Costs) : cost c ([] : Alignment α) = 0 := rfl

section
variable [DecidableEq α]

theorem stepCost_sub (c : Costs) (a b : α) : stepCost c (some a, some b) = subCost c b a := by
  simp [stepCost, subCost, eq_comm]

theorem isMin_unique {c : Costs} {s t : List α} {v w : Nat} (hv : IsMin c s t v)
    (hw : IsMin c s t w) : v = w := by
  obtain ⟨⟨a, wa, sa, ta, ca⟩, lv⟩ := hv
  obtain ⟨⟨b, wb, sb, tb, cb⟩, lw⟩ := hw
  have h1 := lv b wb sb tb
  have h2 := lw a wa sa ta
  omega

theorem isMin_nil (c : Costs) : IsMin c ([] : List α) [] 0 :=
  ⟨⟨[], wf_nil, rfl, rfl, rfl⟩, fun _ _ _ _ => Nat.zero_le _⟩

theorem isMin_step (c : Costs) (σ tp : List α) (x t : α) (diag up left : Nat)
    (hd : IsMin c σ tp diag) (hu : IsMin c σ (tp ++ [t]) up) (hl : IsMin c (σ ++ [x]) tp left) :
    IsMin c (σ ++ [x]) (tp ++ [t]) (min (min (up + c.del) (diag + subCost c t x)) (left + c.ins)) := by
  constructor
  · -- attained
    obtain ⟨⟨ad, wd, sd, td, cd⟩, _⟩ := hd
    obtain ⟨⟨au, wu, su, tu, cu⟩, _⟩ := hu
    obtain ⟨⟨al, wl, sl, tl, cl⟩, _⟩ := hl
    by_cases h1 : min (up + c.del) (diag + subCost c t x) ≤ left + c.ins
    · by_cases h2 : up + c.del ≤ diag + subCost c t x
      · refine ⟨au ++ [(some x, none)], wf_append.2 ⟨wu, wf_single (by simp)⟩, ?_, ?_, ?_⟩
        · rw [srcOf_append, su]; simp
        · rw [tgtOf_append, tu]; simp
        · rw [cost_append, cu]; simp [stepCost]; omega
      · refine ⟨ad ++ [(some x, some t)], wf_append.2 ⟨wd, wf_single (by simp)⟩, ?_, ?_, ?_⟩
        · rw [srcOf_append, sd]; simp
        · rw [tgtOf_append, td]; simp
        · rw [cost_append, cd, cost_single, stepCost_sub]; omega
    · refine ⟨al ++ [(none, some t)], wf_append.2 ⟨wl, wf_single (by simp)⟩, ?_, ?_, ?_⟩
      · rw [srcOf_append, sl]; simp
      · rw [tgtOf_append, tl]; simp
      · rw [cost_append, cl]; simp [stepCost]; omega
  · -- lower bound
    intro a wa sa ta
    rcases List.eq_nil_or_concat a with rfl | ⟨a', p, rfl⟩
    · simp [srcOf] at sa
    · rw [List.concat_eq_append] at *
      obtain ⟨wa', wp⟩ := wf_append.1 wa
      rw [srcOf_append] at sa
      rw [tgtOf_append] at ta
      rw [cost_append, cost_single]
      obtain ⟨ps, pt⟩ := p
      rcases ps with _ | a0 <;> rcases pt with _ | b0
      · exact absurd rfl (wp _ (by simp))
      · -- insertion
        simp at sa ta
        have hb := hl.2 a' wa' sa ta.1
        simp [stepCost]; omega
      · -- deletion
        simp at sa ta
        have hb := hu.2 a' wa' sa.1 ta
        simp [stepCost]; omega
      · -- substitution / match
        simp at sa ta
        obtain ⟨h1, rfl⟩ := sa
        obtain ⟨h3, rfl⟩ := ta
        have hb := hd.2 a' wa' h1 h3
        rw [stepCost_sub]; omega

theorem isMin_del (c : Costs) (σ : List α) (x : α) (v : Nat) (h : IsMin c σ [] v) :
    IsMin c (σ ++ [x]) [] (v + c.del) := by
  constructor
  · obtain ⟨⟨au, wu, su, tu, cu⟩, _⟩ := h
    refine ⟨au ++ [(some x, none)], wf_append.2 ⟨wu, wf_single (by simp)⟩, ?_, ?_, ?_⟩
    · rw [srcOf_append, su]; simp
    · rw [tgtOf_append, tu]; simp
    · rw [cost_append, cu]; simp [stepCost]
  · intro a wa sa ta
    rcases List.eq_nil_or_concat a with rfl | ⟨a', p, rfl⟩
    · simp [srcOf] at sa
    · rw [List.concat_eq_append] at *
      obtain ⟨wa', wp⟩ := wf_append.1 wa
      rw [srcOf_append] at sa
      rw [tgtOf_append] at ta
      rw [cost_append, cost_single]
      obtain ⟨ps, pt⟩ := p
      rcases ps with _ | a0 <;> rcases pt with _ | b0
      · exact absurd rfl (wp _ (by simp))
      · simp at ta
      · simp at sa ta
        have hb := h.2 a' wa' sa.1 ta
        simp [stepCost]; omega
      · simp at ta

theorem isMin_ins (c : Costs) (τ : List α) (t : α) (v : Nat) (h : IsMin c [] τ v) :
    IsMin c [] (τ ++ [t]) (v + c.ins) := by
  constructor
  · obtain ⟨⟨au, wu, su, tu, cu⟩, _⟩ := h
    refine ⟨au ++ [(none, some t)], wf_append.2 ⟨wu, wf_single (by simp)⟩, ?_, ?_, ?_⟩
    · rw [srcOf_append, su]; simp
    · rw [tgtOf_append, tu]; simp
    · rw [cost_append, cu]; simp [stepCost]
  · intro a wa sa ta
    rcases List.eq_nil_or_concat a with rfl | ⟨a', p, rfl⟩
    · simp [tgtOf] at ta
    · rw [List.concat_eq_append] at *
      obtain ⟨wa', wp⟩ := wf_append.1 wa
      rw [srcOf_append] at sa
      rw [tgtOf_append] at ta
      rw [cost_append, cost_single]
      obtain ⟨ps, pt⟩ := p
      rcases ps with _ | a0 <;> rcases pt with _ | b0
      · exact absurd rfl (wp _ (by simp))
      · simp at sa ta
        have hb := h.2 a' wa' sa ta.1
        simp [stepCost]; omega
      · simp at sa
      · simp at sa

/-- Row 0 of the DP. -/
theorem isMin_nil_left (c : Costs) (τ : List α) : IsMin c [] τ (τ.length * c.ins) := by
  induction τ using snoc_induction with
  | nil => simpa using isMin_nil c
  | snoc τ t ih =>
    have := isMin_ins c τ t _ ih
    rw [List.length_append, List.length_singleton, Nat.succ_mul]
    exact this

end

/-! ## §2 Generic row invariant -/

section
variable [DecidableEq α]

theorem cell_eq (c : Costs) (s tj : α) (left diag up : Nat) :
    cell c s tj left diag up = (left + c.ins, Tag.ins) ∨
    cell c s tj left diag up = (diag + subCost c tj s, Tag.sub) ∨
    cell c s tj left diag up = (up + c.del, Tag.del) := by
  unfold cell
  by_cases h1 : diag + subCost c tj s < up + c.del
  · by_cases h2 : diag + subCost c tj s > left + c.ins <;> simp [h1, h2]
  · by_cases h2 : up + c.del > left + c.ins <;> simp [h1, h2]

theorem cell_val (c : Costs) (s tj : α) (left diag up : Nat) :
    (cell c s tj left diag up).1 =
      min (min (up + c.del) (diag + subCost c tj s)) (left + c.ins) := by
  unfold cell
  by_cases h1 : diag + subCost c tj s < up + c.del
  · by_cases h2 : diag + subCost c tj s > left + c.ins <;> simp [h1, h2] <;> omega
  · by_cases h2 : up + c.del > left + c.ins <;> simp [h1, h2] <;> omega

/-- `RowP R τ₁ τ₂ row`: `row` has `|τ₂|+1` cells, and the cell at offset `k` satisfies
`R (τ₁ ++ τ₂.take k)`. -/
def RowP (R : List α → Cell → Prop) : List α → List α → List Cell → Prop
  | τ₁, [], row => ∃ x, row = [x] ∧ R τ₁ x
  | τ₁, t :: τ₂, row => ∃ x rest, row = x :: rest ∧ R τ₁ x ∧ RowP R (τ₁ ++ [t]) τ₂ rest

omit [DecidableEq α] in
theorem rowP_head {R : List α → Cell → Prop} {τ₁ τ₂ : List α} {row : List Cell}
    (h : RowP R τ₁ τ₂ row) : ∃ x rest, row = x :: rest ∧ R τ₁ x := by
  cases τ₂ with
  | nil => obtain ⟨x, rfl, hx⟩ := h; exact ⟨x, [], rfl, hx⟩
  | cons t τ₂ => obtain ⟨x, rest, rfl, hx, _⟩ := h; exact ⟨x, rest, rfl, hx⟩

theorem stepAux_rowP (c : Costs) (x : α) (R R' : List α → Cell → Prop)
    (hstep : ∀ tp t d u l, R tp d → R (tp ++ [t]) u → R' tp l →
      R' (tp ++ [t]) (cell c x t l.1 d.1 u.1)) :
    ∀ (τ₂ τ₁ : List α) (lc : Cell) (row : List Cell), RowP R τ₁ τ₂ row → R' τ₁ lc →
      RowP R' τ₁ τ₂ (lc :: stepAux c x lc.1 row τ₂) := by
  intro τ₂
  induction τ₂ with
  | nil =>
    intro τ₁ lc row h hl
    obtain ⟨d, rfl, hd⟩ := h
    exact ⟨lc, by simp [stepAux], hl⟩
  | cons t τ₂ ih =>
    intro τ₁ lc row h hl
    obtain ⟨d, rest, rfl, hd, hrest⟩ := h
    obtain ⟨u, rest', rfl, hu⟩ := rowP_head hrest
    refine ⟨lc, _, rfl, hl, ?_⟩
    simp only [stepAux]
    exact ih (τ₁ ++ [t]) _ (u :: rest') hrest (hstep τ₁ t d u lc hd hu hl)

omit [DecidableEq α] in
theorem rowP_getLast {R : List α → Cell → Prop} :
    ∀ (τ₂ τ₁ : List α) (row : List Cell), RowP R τ₁ τ₂ row →
      ∃ x, row.getLast? = some x ∧ R (τ₁ ++ τ₂) x := by
  intro τ₂
  induction τ₂ with
  | nil =>
    intro τ₁ row h
    obtain ⟨x, rfl, hx⟩ := h
    exact ⟨x, by simp, by simpa using hx⟩
  | cons t τ₂ ih =>
    intro τ₁ row h
    obtain ⟨x, rest, rfl, _, hrest⟩ := h
    obtain ⟨y, rest', rfl, _⟩ := rowP_head hrest
    obtain ⟨z, hz, hR⟩ := ih (τ₁ ++ [t]) _ hrest
    refine ⟨z, by rw [List.getLast?_cons_cons]; exact hz, ?_⟩
    simpa [List.append_assoc] using hR

omit [DecidableEq α] in
theorem rowP_get {R : List α → Cell → Prop} :
    ∀ (τ₂ τ₁ : List α) (row : List Cell), RowP R τ₁ τ₂ row → ∀ j, j ≤ τ₂.length →
      ∃ x, row[j]? = some x ∧ R (τ₁ ++ τ₂.take j) x := by
  intro τ₂
  induction τ₂ with
  | nil =>
    intro τ₁ row h j hj
    obtain ⟨x, rfl, hx⟩ := h
    have : j = 0 := by simpa using hj
    subst this
    exact ⟨x, by simp, by simpa using hx⟩
  | cons t τ₂ ih =>
    intro τ₁ row h j hj
    obtain ⟨x, rest, rfl, hx, hrest⟩ := h
    cases j with
    | zero => exact ⟨x, by simp, by simpa using hx⟩
    | succ j =>
      obtain ⟨z, hz, hR⟩ := ih (τ₁ ++ [t]) _ hrest j (by simpa using hj)
      refine ⟨z, by simpa using hz, ?_⟩
      simpa [List.append_assoc] using hR

omit [DecidableEq α] in
theorem range'_rowP (c : Costs) (R : List α → Cell → Prop)
    (h : ∀ τ', R τ' (τ'.length * c.ins, Tag.ins)) :
    ∀ τ₂ τ₁ : List α, RowP R τ₁ τ₂
      ((List.range' τ₁.length (τ₂.length + 1)).map fun j => (j * c.ins, Tag.ins)) := by
  intro τ₂
  induction τ₂ with
  | nil => intro τ₁; exact ⟨_, by simp [List.range'], h τ₁⟩
  | cons t τ₂ ih =>
    intro τ₁
    have := ih (τ₁ ++ [t])
    rw [List.length_append, List.length_singleton] at this
    rw [List.length_cons, List.range'_succ, List.map_cons]
    exact ⟨_, _, rfl, h τ₁, this⟩

omit [DecidableEq α] in
theorem initRow_rowP (c : Costs) (R : List α → Cell → Prop)
    (h : ∀ τ', R τ' (τ'.length * c.ins, Tag.ins)) (t : List α) :
    RowP R [] t (initRow c t) := by
  have := range'_rowP c R h t []
  rw [initRow, List.range_eq_range']
  exact this

/-! ## §3 The plain DP -/

/-- The backtrack tag of a cell names a predecessor that realises the value. -/
def TagOK (c : Costs) (σ τ : List α) (x : Cell) : Prop :=
  match x.2 with
  | .del => ∃ σ' a v, σ = σ' ++ [a] ∧ IsMin c σ' τ v ∧ x.1 = v + c.del
  | .sub => ∃ σ' a τ' b v, σ = σ' ++ [a] ∧ τ = τ' ++ [b] ∧ IsMin c σ' τ' v ∧
      x.1 = v + subCost c b a
  | .ins => ∃ τ' b v, τ = τ' ++ [b] ∧ IsMin c σ τ' v ∧ x.1 = v + c.ins

def CellOK (c : Costs) (σ τ : List α) (x : Cell) : Prop :=
  IsMin c σ τ x.1 ∧ ((σ = [] ∧ τ = []) ∨ TagOK c σ τ x)

theorem cellOK_step (c : Costs) (σ : List α) (x : α) :
    ∀ tp t d u l, CellOK c σ tp d → CellOK c σ (tp ++ [t]) u → CellOK c (σ ++ [x]) tp l →
      CellOK c (σ ++ [x]) (tp ++ [t]) (cell c x t l.1 d.1 u.1) := by
  intro tp t d u l hd hu hl
  refine ⟨by rw [cell_val]; exact isMin_step c σ tp x t _ _ _ hd.1 hu.1 hl.1, Or.inr ?_⟩
  rcases cell_eq c x t l.1 d.1 u.1 with h | h | h <;> rw [h]
  · exact ⟨tp, t, l.1, rfl, hl.1, rfl⟩
  · exact ⟨σ, x, tp, t, d.1, rfl, rfl, hd.1, rfl⟩
  · exact ⟨σ, x, u.1, rfl, hu.1, rfl⟩

theorem cellOK_init (c : Costs) (τ : List α) : CellOK c [] τ (τ.length * c.ins, Tag.ins) := by
  refine ⟨isMin_nil_left c τ, ?_⟩
  rcases List.eq_nil_or_concat τ with rfl | ⟨τ', b, rfl⟩
  · exact Or.inl ⟨rfl, rfl⟩
  · right
    rw [List.concat_eq_append]
    exact ⟨τ', b, τ'.length * c.ins, rfl, isMin_nil_left c τ', by
      simp [Nat.succ_mul]⟩

theorem rowStep_rowP (c : Costs) (σ : List α) (x : α) (t : List α) (row : List Cell)
    (h : RowP (CellOK c σ) [] t row) :
    RowP (CellOK c (σ ++ [x])) [] t (rowStep c t row x) := by
  obtain ⟨d0, rest, rfl, hd0⟩ := rowP_head h
  simp only [rowStep]
  exact stepAux_rowP c x _ _ (cellOK_step c σ x) t [] (d0.1 + c.del, Tag.del) _ h
    ⟨isMin_del c σ x _ hd0.1, Or.inr ⟨σ, x, d0.1, rfl, hd0.1, rfl⟩⟩

theorem foldl_rowStep_rowP (c : Costs) (t : List α) :
    ∀ (s' σ : List α) (row : List Cell), RowP (CellOK c σ) [] t row →
      RowP (CellOK c (σ ++ s')) [] t (s'.foldl (rowStep c t) row) := by
  intro s'
  induction s' with
  | nil => intro σ row h; simpa using h
  | cons x s' ih =>
    intro σ row h
    have := ih (σ ++ [x]) _ (rowStep_rowP c σ x t row h)
    simpa [List.append_assoc] using this

theorem lastRow_rowP (c : Costs) (s t : List α) : RowP (CellOK c s) [] t (lastRow c s t) := by
  have := foldl_rowStep_rowP c t s [] _ (initRow_rowP c _ (cellOK_init c) t)
  simpa [lastRow] using this

/-- The DP value is the minimum alignment cost. -/
theorem dist_isMin (c : Costs) (s t : List α) : IsMin c s t (dist c s t) := by
  obtain ⟨x, hx, hok⟩ := rowP_getLast t [] _ (lastRow_rowP c s t)
  rw [dist, hx]
  simpa using hok.1

end

/-! ## §4 Backtracking -/

section
variable [DecidableEq α]

theorem rows_getElem? (c : Costs) (t : List α) :
    ∀ (s : List α) (row : List Cell) (i : Nat), i ≤ s.length →
      (rows c t row s)[i]? = some ((s.take i).foldl (rowStep c t) row) := by
  intro s
  induction s with
  | nil =>
    intro row i hi
    have : i = 0 := by simpa using hi
    subst this
    simp [rows]
  | cons x s ih =>
    intro row i hi
    cases i with
    | zero => simp [rows]
    | succ i =>
      have := ih (rowStep c t row x) i (by simpa using hi)
      simpa [rows] using this

theorem rows_ok (c : Costs) (s t : List α) (i : Nat) (hi : i ≤ s.length) (j : Nat)
    (hj : j ≤ t.length) :
    ∃ r x, (rows c t (initRow c t) s)[i]? = some r ∧ r[j]? = some x ∧
      CellOK c (s.take i) (t.take j) x := by
  have h1 := rows_getElem? c t s (initRow c t) i hi
  have h2 := foldl_rowStep_rowP c t (s.take i) [] _ (initRow_rowP c _ (cellOK_init c) t)
  obtain ⟨x, hx, hok⟩ := rowP_get t [] _ h2 j hj
  exact ⟨_, x, h1, hx, by simpa using hok⟩

omit [DecidableEq α] in
/-- Unfolding of `back` (Lean cannot generate the equation lemmas automatically). -/
theorem back_succ (rs : List (List Cell)) (s t : List α) (fuel i j : Nat) (acc : Alignment α) :
    back rs s t (fuel + 1) i j acc =
      if i = 0 ∧ j = 0 then some acc else
      match tagAt rs i j with
      | none => none
      | some .del =>
        match i, s[i-1]? with
        | i' + 1, some x => back rs s t fuel i' j ((some x, none) :: acc)
        | _, _ => none
      | some .sub =>
        match i, j, s[i-1]?, t[j-1]? with
        | i' + 1, j' + 1, some x, some y => back rs s t fuel i' j' ((some x, some y) :: acc)
        | _, _, _, _ => none
      | some .ins =>
        match j, t[j-1]? with
        | j' + 1, some y => back rs s t fuel i j' ((none, some y) :: acc)
        | _, _ => none := rfl

omit [DecidableEq α] in
theorem back_zero (rs : List (List Cell)) (s t : List α) (i j : Nat) (acc : Alignment α) :
    back rs s t 0 i j acc = if i = 0 ∧ j = 0 then some acc else none := rfl

omit [DecidableEq α] in
theorem back_zero_zero (rs : List (List Cell)) (s t : List α) (fuel : Nat)
    (acc : Alignment α) : back rs s t fuel 0 0 acc = some acc := by
  cases fuel
  · simp [back_zero]
  · simp [back_succ]

omit [DecidableEq α] in
theorem back_del (rs : List (List Cell)) (s t : List α) (fuel i j : Nat) (acc : Alignment α)
    (x : α) (h1 : tagAt rs (i + 1) j = some Tag.del) (h2 : s[i]? = some x) :
    back rs s t (fuel + 1) (i + 1) j acc = back rs s t fuel i j ((some x, none) :: acc) := by
  simp [back_succ, h1, h2]

omit [DecidableEq α] in
theorem back_sub (rs : List (List Cell)) (s t : List α) (fuel i j : Nat) (acc : Alignment α)
    (x y : α) (h1 : tagAt rs (i + 1) (j + 1) = some Tag.sub) (h2 : s[i]? = some x)
    (h3 : t[j]? = some y) :
    back rs s t (fuel + 1) (i + 1) (j + 1) acc =
      back rs s t fuel i j ((some x, some y) :: acc) := by
  simp [back_succ, h1, h2, h3]

omit [DecidableEq α] in
theorem back_ins (rs : List (List Cell)) (s t : List α) (fuel i j : Nat) (acc : Alignment α)
    (y : α) (h1 : tagAt rs i (j + 1) = some Tag.ins) (h3 : t[j]? = some y) :
    back rs s t (fuel + 1) i (j + 1) acc = back rs s t fuel i j ((none, some y) :: acc) := by
  simp [back_succ, h1, h3]

theorem tagAt_eq (rs : List (List Cell)) (i j : Nat) (r : List Cell) (x : Cell)
    (hr : rs[i]? = some r) (hx : r[j]? = some x) : tagAt rs i j = some x.2 := by
  simp [tagAt, hr, hx]

theorem back_ok (c : Costs) (s t : List α) (rs : List (List Cell))
    (hrs : ∀ i, i ≤ s.length → ∀ j, j ≤ t.length →
      ∃ r x, rs[i]? = some r ∧ r[j]? = some x ∧ CellOK c (s.take i) (t.take j) x) :
    ∀ fuel i j (acc : Alignment α), i ≤ s.length → j ≤ t.length → i + j ≤ fuel →
      ∃ al, back rs s t fuel i j acc = some (al ++ acc) ∧ WellFormed al ∧
        srcOf al = s.take i ∧ tgtOf al = t.take j ∧
        IsMin c (s.take i) (t.take j) (cost c al) := by
  intro fuel
  induction fuel with
  | zero =>
    intro i j acc hi hj hf
    have h1 : i = 0 := by omega
    have h2 : j = 0 := by omega
    subst h1 h2
    exact ⟨[], by simp [back_zero_zero], wf_nil, by simp, by simp, by simpa using isMin_nil c⟩
  | succ fuel ih =>
    intro i j acc hi hj hf
    by_cases h0 : i = 0 ∧ j = 0
    · obtain ⟨rfl, rfl⟩ := h0
      exact ⟨[], by simp [back_zero_zero], wf_nil, by simp, by simp, by simpa using isMin_nil c⟩
    · obtain ⟨r, x, hr, hx, hmin, htag⟩ := hrs i hi j hj
      have hta := tagAt_eq rs i j r x hr hx
      have htag' : TagOK c (s.take i) (t.take j) x := by
        rcases htag with ⟨h1, h2⟩ | h
        · exfalso
          apply h0
          have e1 := congrArg List.length h1
          have e2 := congrArg List.length h2
          simp only [List.length_take, List.length_nil] at e1 e2
          omega
        · exact h
      obtain ⟨v, tg⟩ := x
      cases tg with
      | del =>
        obtain ⟨σ', a, v', hσ, hv', hval⟩ := htag'
        cases i with
        | zero => simp at hσ
        | succ i' =>
          have hlt : i' < s.length := by omega
          rw [List.take_succ_eq_append_getElem hlt] at hσ
          obtain ⟨e1, e2⟩ := List.append_inj' hσ rfl
          have e3 : s[i'] = a := by simpa using e2
          subst e1
          obtain ⟨al, hb, hw, hsrc, htgt, hm⟩ := ih i' j ((some a, none) :: acc) (by omega) hj
            (by omega)
          have hc := isMin_unique hm hv'
          refine ⟨al ++ [(some a, none)], ?_, wf_append.2 ⟨hw, wf_single (by simp)⟩, ?_, ?_, ?_⟩
          · rw [back_del rs s t fuel i' j acc a hta (by simp [← e3, hlt]), hb]; simp
          · rw [srcOf_append, hsrc, List.take_succ_eq_append_getElem hlt, e3]; simp
          · rw [tgtOf_append, htgt]; simp
          · rw [cost_append, hc, cost_single]
            simp only [stepCost]
            simp only at hval
            rw [← hval]; exact hmin
      | sub =>
        obtain ⟨σ', a, τ', b, v', hσ, hτ, hv', hval⟩ := htag'
        cases i with
        | zero => simp at hσ
        | succ i' =>
        cases j with
        | zero => simp at hτ
        | succ j' =>
          have hlt : i' < s.length := by omega
          have hlt' : j' < t.length := by omega
          rw [List.take_succ_eq_append_getElem hlt] at hσ
          rw [List.take_succ_eq_append_getElem hlt'] at hτ
          obtain ⟨e1, e2⟩ := List.append_inj' hσ rfl
          obtain ⟨f1, f2⟩ := List.append_inj' hτ rfl
          have e3 : s[i'] = a := by simpa using e2
          have f3 : t[j'] = b := by simpa using f2
          subst e1 f1
          obtain ⟨al, hb, hw, hsrc, htgt, hm⟩ := ih i' j' ((some a, some b) :: acc) (by omega)
            (by omega) (by omega)
          have hc := isMin_unique hm hv'
          refine ⟨al ++ [(some a, some b)], ?_, wf_append.2 ⟨hw, wf_single (by simp)⟩, ?_, ?_, ?_⟩
          · rw [back_sub rs s t fuel i' j' acc a b hta (by simp [← e3, hlt])
              (by simp [← f3, hlt']), hb]; simp
          · rw [srcOf_append, hsrc, List.take_succ_eq_append_getElem hlt, e3]; simp
          · rw [tgtOf_append, htgt, List.take_succ_eq_append_getElem hlt', f3]; simp
          · rw [cost_append, hc, cost_single, stepCost_sub]
            simp only at hval
            rw [← hval]; exact hmin
      | ins =>
        obtain ⟨τ', b, v', hτ, hv', hval⟩ := htag'
        cases j with
        | zero => simp at hτ
        | succ j' =>
          have hlt' : j' < t.length := by omega
          rw [List.take_succ_eq_append_getElem hlt'] at hτ
          obtain ⟨f1, f2⟩ := List.append_inj' hτ rfl
          have f3 : t[j'] = b := by simpa using f2
          subst f1
          obtain ⟨al, hb, hw, hsrc, htgt, hm⟩ := ih i j' ((none, some b) :: acc) hi (by omega)
            (by omega)
          have hc := isMin_unique hm hv'
          refine ⟨al ++ [(none, some b)], ?_, wf_append.2 ⟨hw, wf_single (by simp)⟩, ?_, ?_, ?_⟩
          · rw [back_ins rs s t fuel i j' acc b hta (by simp [← f3, hlt']), hb]; simp
          · rw [srcOf_append, hsrc]; simp
          · rw [tgtOf_append, htgt, List.take_succ_eq_append_getElem hlt', f3]; simp
          · rw [cost_append, hc, cost_single]
            simp only [stepCost]
            simp only at hval
            rw [← hval]; exact hmin

theorem alignment_ok (c : Costs) (s t : List α) :
    ∃ al, alignment c s t = some al ∧ WellFormed al ∧ srcOf al = s ∧ tgtOf al = t ∧
      cost c al = dist c s t := by
  obtain ⟨al, hb, hw, hsrc, htgt, hm⟩ := back_ok c s t _ (rows_ok c s t) (s.length + t.length)
    s.length t.length [] (Nat.le_refl _) (Nat.le_refl _) (Nat.le_refl _)
  simp only [List.take_length] at hsrc htgt hm
  refine ⟨al, by simpa [alignment] using hb, hw, hsrc, htgt, ?_⟩
  exact isMin_unique hm (dist_isMin c s t)


omit [DecidableEq α] in
theorem srcOf_cons (p : Option α × Option α) (al : Alignment α) :
    srcOf (p :: al) = p.1.toList ++ srcOf al := by
  rcases p with ⟨_|a, q⟩ <;> simp [srcOf]
omit [DecidableEq α] in
theorem tgtOf_cons (p : Option α × Option α) (al : Alignment α) :
    tgtOf (p :: al) = p.2.toList ++ tgtOf al := by
  rcases p with ⟨q, _|a⟩ <;> simp [tgtOf]
theorem cost_cons (c : Costs) (p : Option α × Option α) (al : Alignment α) :
    cost c (p :: al) = stepCost c p + cost c al := by simp [cost]
omit [DecidableEq α] in
theorem wf_cons {p : Option α × Option α} {al : Alignment α} :
    WellFormed (p :: al) ↔ p ≠ (none, none) ∧ WellFormed al := by
  simp [WellFormed]

theorem pathCost_pathOf (c : Costs) (al : Alignment α) (hw : WellFormed al) :
    pathCost c (srcOf al) (tgtOf al) (pathOf al) = some (cost c al) := by
  induction al with
  | nil => simp [pathCost, pathOf]
  | cons p al ih =>
    obtain ⟨hp, hw'⟩ := wf_cons.1 hw
    have ih := ih hw'
    rw [srcOf_cons, tgtOf_cons, cost_cons]
    obtain ⟨ps, pt⟩ := p
    rcases ps with _ | a <;> rcases pt with _ | b
    · exact absurd rfl hp
    · simp [pathOf, pathCost, ih, stepCost, Nat.add_comm]
    · simp [pathOf, pathCost, ih, stepCost, Nat.add_comm]
    · simp [pathOf, pathCost, ih, stepCost, Nat.add_comm]

end

/-! ## §5 Substring variant -/

section
variable [DecidableEq α]


/-- `v` is the minimum cost of aligning some suffix of `σ` with `τ`. -/
def IsMinSuf (c : Costs) (σ τ : List α) (v : Nat) : Prop :=
  (∃ al : Alignment α, WellFormed al ∧ srcOf al <:+ σ ∧ tgtOf al = τ ∧ cost c al = v) ∧
  (∀ al : Alignment α, WellFormed al → srcOf al <:+ σ → tgtOf al = τ → v ≤ cost c al)

/-- `v` is the minimum cost of aligning some infix of `σ` with `τ`. -/
def IsMinInf (c : Costs) (σ τ : List α) (v : Nat) : Prop :=
  (∃ al : Alignment α, WellFormed al ∧ srcOf al <:+: σ ∧ tgtOf al = τ ∧ cost c al = v) ∧
  (∀ al : Alignment α, WellFormed al → srcOf al <:+: σ → tgtOf al = τ → v ≤ cost c al)

theorem isMinSuf_nil_left (c : Costs) (τ : List α) : IsMinSuf c [] τ (τ.length * c.ins) := by
  obtain ⟨⟨a, wa, sa, ta, ca⟩, lb⟩ := isMin_nil_left c τ
  refine ⟨⟨a, wa, by rw [sa]; exact List.suffix_refl _, ta, ca⟩, ?_⟩
  intro b wb sb tb
  exact lb b wb (List.suffix_nil.1 sb) tb

theorem isMinInf_nil_left (c : Costs) (τ : List α) : IsMinInf c [] τ (τ.length * c.ins) := by
  obtain ⟨⟨a, wa, sa, ta, ca⟩, lb⟩ := isMin_nil_left c τ
  refine ⟨⟨a, wa, by rw [sa]; exact List.infix_refl _, ta, ca⟩, ?_⟩
  intro b wb sb tb
  exact lb b wb (List.infix_nil.1 sb) tb

theorem isMinSuf_nil_right (c : Costs) (σ : List α) : IsMinSuf c σ [] 0 :=
  ⟨⟨[], wf_nil, List.nil_suffix, rfl, rfl⟩, fun _ _ _ _ => Nat.zero_le _⟩

theorem isMinSuf_step (c : Costs) (σ tp : List α) (x t : α) (diag up left : Nat)
    (hd : IsMinSuf c σ tp diag) (hu : IsMinSuf c σ (tp ++ [t]) up)
    (hl : IsMinSuf c (σ ++ [x]) tp left) :
    IsMinSuf c (σ ++ [x]) (tp ++ [t])
      (min (min (up + c.del) (diag + subCost c t x)) (left + c.ins)) := by
  constructor
  · -- attained
    obtain ⟨⟨ad, wd, sd, td, cd⟩, _⟩ := hd
    obtain ⟨⟨au, wu, su, tu, cu⟩, _⟩ := hu
    obtain ⟨⟨al, wl, sl, tl, cl⟩, _⟩ := hl
    by_cases h1 : min (up + c.del) (diag + subCost c t x) ≤ left + c.ins
    · by_cases h2 : up + c.del ≤ diag + subCost c t x
      · refine ⟨au ++ [(some x, none)], wf_append.2 ⟨wu, wf_single (by simp)⟩, ?_, ?_, ?_⟩
        · rw [srcOf_append]
          exact (List.suffix_append_inj_of_length_eq rfl).2 ⟨su, by simp⟩
        · rw [tgtOf_append, tu]; simp
        · rw [cost_append, cu]; simp [stepCost]; omega
      · refine ⟨ad ++ [(some x, some t)], wf_append.2 ⟨wd, wf_single (by simp)⟩, ?_, ?_, ?_⟩
        · rw [srcOf_append]
          exact (List.suffix_append_inj_of_length_eq rfl).2 ⟨sd, by simp⟩
        · rw [tgtOf_append, td]; simp
        · rw [cost_append, cd, cost_single, stepCost_sub]; omega
    · refine ⟨al ++ [(none, some t)], wf_append.2 ⟨wl, wf_single (by simp)⟩, ?_, ?_, ?_⟩
      · rw [srcOf_append]; simpa using sl
      · rw [tgtOf_append, tl]; simp
      · rw [cost_append, cl]; simp [stepCost]; omega
  · -- lower bound
    intro a wa sa ta
    rcases List.eq_nil_or_concat a with rfl | ⟨a', p, rfl⟩
    · simp [tgtOf] at ta
    · rw [List.concat_eq_append] at *
      obtain ⟨wa', wp⟩ := wf_append.1 wa
      rw [srcOf_append] at sa
      rw [tgtOf_append] at ta
      rw [cost_append, cost_single]
      obtain ⟨ps, pt⟩ := p
      rcases ps with _ | a0 <;> rcases pt with _ | b0
      · exact absurd rfl (wp _ (by simp))
      · -- insertion
        simp only [srcOf_single, Option.toList, List.append_nil] at sa
        simp at ta
        have hb := hl.2 a' wa' sa ta.1
        simp [stepCost]; omega
      · -- deletion
        simp only [srcOf_single, Option.toList] at sa
        obtain ⟨sa1, sa2⟩ := (List.suffix_append_inj_of_length_eq (s₁ := [a0]) (s₂ := [x]) rfl).1 sa
        simp at ta
        have hb := hu.2 a' wa' sa1 ta
        simp [stepCost]; omega
      · -- substitution / match
        simp only [srcOf_single, Option.toList] at sa
        obtain ⟨sa1, sa2⟩ := (List.suffix_append_inj_of_length_eq (s₁ := [a0]) (s₂ := [x]) rfl).1 sa
        simp at ta sa2
        obtain ⟨h3, rfl⟩ := ta
        subst sa2
        have hb := hd.2 a' wa' sa1 h3
        rw [stepCost_sub]; omega

theorem isMinInf_step (c : Costs) (σ τ : List α) (x : α) (b v : Nat)
    (hb : IsMinInf c σ τ b) (hv : IsMinSuf c (σ ++ [x]) τ v) :
    IsMinInf c (σ ++ [x]) τ (min b v) := by
  constructor
  · obtain ⟨⟨ab, wb, sb, tb, cb⟩, _⟩ := hb
    obtain ⟨⟨av, wv, sv, tv, cv⟩, _⟩ := hv
    by_cases h : b ≤ v
    · exact ⟨ab, wb, List.infix_concat_iff.2 (Or.inr sb), tb, by omega⟩
    · exact ⟨av, wv, sv.isInfix, tv, by omega⟩
  · intro a wa sa ta
    rcases List.infix_concat_iff.1 sa with h | h
    · have := hv.2 a wa h ta; omega
    · have := hb.2 a wa h ta; omega

theorem rowStepSub_rowP (c : Costs) (σ : List α) (x : α) (t : List α) (row : List Cell)
    (h : RowP (fun τ' y => IsMinSuf c σ τ' y.1) [] t row) :
    RowP (fun τ' y => IsMinSuf c (σ ++ [x]) τ' y.1) [] t (rowStepSub c t row x) := by
  refine stepAux_rowP c x _ _ ?_ t [] (0, Tag.del) row h (isMinSuf_nil_right c _)
  intro tp t d u l hd hu hl
  show IsMinSuf c (σ ++ [x]) (tp ++ [t]) (cell c x t l.1 d.1 u.1).1
  rw [cell_val]
  exact isMinSuf_step c σ tp x t _ _ _ hd hu hl

theorem subLoop_ok (c : Costs) (t : List α) :
    ∀ (ss σ : List α) (row : List Cell) (best : Nat),
      RowP (fun τ' y => IsMinSuf c σ τ' y.1) [] t row → IsMinInf c σ t best →
      IsMinInf c (σ ++ ss) t (subLoop c t row best ss) := by
  intro ss
  induction ss with
  | nil => intro σ row best _ hb; simpa [subLoop] using hb
  | cons x ss ih =>
    intro σ row best hrow hb
    have hrow' := rowStepSub_rowP c σ x t row hrow
    obtain ⟨y, hy, hmin⟩ := rowP_getLast t [] _ hrow'
    have hlv : lastVal (rowStepSub c t row x) = y.1 := by simp [lastVal, hy]
    have hmin' : IsMinSuf c (σ ++ [x]) t y.1 := by simpa using hmin
    have := ih (σ ++ [x]) _ (min best y.1) hrow' (isMinInf_step c σ t x best y.1 hb hmin')
    simp only [subLoop, hlv]
    simpa [List.append_assoc] using this

theorem distSub_eq (c : Costs) (s t : List α) :
    distSub c s t = subLoop c (orient s t).2 (initRow c (orient s t).2)
      ((orient s t).2.length * c.ins) (orient s t).1 := rfl

theorem distSub_isMinInf (c : Costs) (s t : List α) :
    IsMinInf c (orient s t).1 (orient s t).2 (distSub c s t) := by
  rw [distSub_eq]
  have := subLoop_ok c (orient s t).2 (orient s t).1 [] _ _
    (initRow_rowP c _ (fun τ' => isMinSuf_nil_left c τ') _) (isMinInf_nil_left c _)
  simpa using this

theorem distSub_optimal (c : Costs) (src tgt : List α) (v : Nat) (h : IsMinInf c src tgt v) :
    (∃ u, u <:+: src ∧ dist c u tgt = v) ∧ (∀ u, u <:+: src → v ≤ dist c u tgt) := by
  obtain ⟨⟨a, wa, sa, ta, ca⟩, lb⟩ := h
  have key : ∀ u, u <:+: src → v ≤ dist c u tgt := by
    intro u hu
    obtain ⟨b, wb, sb, tb, cb⟩ := (dist_isMin c u tgt).1
    rw [← cb]
    exact lb b wb (by rw [sb]; exact hu) tb
  refine ⟨⟨srcOf a, sa, ?_⟩, key⟩
  have h1 := (dist_isMin c (srcOf a) tgt).2 a wa rfl ta
  have h2 := key _ sa
  omega

end

/-! ## §6 Unit costs: symmetry and `editStats` -/

section
variable [DecidableEq α]

def swapAl (al : Alignment α) : Alignment α := al.map Prod.swap

omit [DecidableEq α] in
theorem srcOf_swapAl (al : Alignment α) : srcOf (swapAl al) = tgtOf al := by
  induction al with
  | nil => rfl
  | cons p al ih =>
    have : swapAl (p :: al) = p.swap :: swapAl al := rfl
    rw [this, srcOf_cons, tgtOf_cons, ih]; rfl

omit [DecidableEq α] in
theorem tgtOf_swapAl (al : Alignment α) : tgtOf (swapAl al) = srcOf al := by
  induction al with
  | nil => rfl
  | cons p al ih =>
    have : swapAl (p :: al) = p.swap :: swapAl al := rfl
    rw [this, srcOf_cons, tgtOf_cons, ih]; rfl

omit [DecidableEq α] in
theorem swapAl_swapAl (al : Alignment α) : swapAl (swapAl al) = al := by
  simp [swapAl]

omit [DecidableEq α] in
theorem wf_swapAl {al : Alignment α} (h : WellFormed al) : WellFormed (swapAl al) := by
  intro p hp
  simp only [swapAl, List.mem_map] at hp
  obtain ⟨q, hq, rfl⟩ := hp
  have := h q hq
  obtain ⟨q1, q2⟩ := q
  intro e
  apply this
  simp only [Prod.swap, Prod.mk.injEq] at e
  rw [e.1, e.2]

theorem cost_swapAl (c : Costs) (hc : c.ins = c.del) (al : Alignment α) :
    cost c (swapAl al) = cost c al := by
  induction al with
  | nil => rfl
  | cons p al ih =>
    have : swapAl (p :: al) = p.swap :: swapAl al := rfl
    rw [this, cost_cons, cost_cons, ih]
    congr 1
    obtain ⟨_ | a, _ | b⟩ := p <;> simp [stepCost, Prod.swap, hc, eq_comm]

theorem isMin_swap (c : Costs) (hc : c.ins = c.del) {s t : List α} {v : Nat}
    (h : IsMin c s t v) : IsMin c t s v := by
  obtain ⟨⟨a, wa, sa, ta, ca⟩, lb⟩ := h
  refine ⟨⟨swapAl a, wf_swapAl wa, by rw [srcOf_swapAl, ta], by rw [tgtOf_swapAl, sa],
    by rw [cost_swapAl c hc, ca]⟩, ?_⟩
  intro b wb sb tb
  have := lb (swapAl b) (wf_swapAl wb) (by rw [srcOf_swapAl, tb]) (by rw [tgtOf_swapAl, sb])
  rwa [cost_swapAl c hc] at this

theorem dist_symm (c : Costs) (hc : c.ins = c.del) (s t : List α) : dist c s t = dist c t s :=
  isMin_unique (dist_isMin c s t) (isMin_swap c hc (dist_isMin c t s))

theorem editStats_aux (al : Alignment α) (hw : WellFormed al) :
    (al.filter fun p => p.1 = p.2).length + (al.filter fun p => p.1 = none).length
      ≤ (al.filter fun p => p.2 ≠ none).length ∧
    (al.filter fun p => p.2 ≠ none).length ≤ al.length ∧
    ((al.filter fun p => p.2 ≠ none).length - (al.filter fun p => p.1 = p.2).length
        - (al.filter fun p => p.1 = none).length)
      + (al.length - (al.filter fun p => p.2 ≠ none).length)
      + (al.filter fun p => p.1 = none).length = cost unit al := by
  induction al with
  | nil => simp
  | cons p al ih =>
    obtain ⟨hp, hw'⟩ := wf_cons.1 hw
    obtain ⟨h1, h2, h3⟩ := ih hw'
    rw [cost_cons]
    obtain ⟨_ | a, _ | b⟩ := p
    · exact absurd rfl hp
    · simp [stepCost, unit] at h1 h2 h3 ⊢; omega
    · simp [stepCost, unit] at h1 h2 h3 ⊢; omega
    · by_cases hab : a = b <;> simp [stepCost, unit, hab] at h1 h2 h3 ⊢ <;> omega

theorem editStats_sum (al : Alignment α) (hw : WellFormed al) :
    (editStats al).2.2.2.2 + (editStats al).2.2.1 + (editStats al).2.2.2.1 = cost unit al :=
  (editStats_aux al hw).2.2


theorem fromLists_eq (ref hyp : List α) (al : Alignment α)
    (h : alignment unit hyp ref = some al) :
    Summary.fromLists ref hyp = some ⟨1, ref.length, dist unit ref hyp, (editStats al).2.2.2.2,
      (editStats al).2.2.1, (editStats al).2.2.2.1⟩ := by
  simp only [Summary.fromLists, h]

end

/-! ## §7 `Summary` -/

theorem Summary.add_assoc (a b c : Summary) : (a.add b).add c = a.add (b.add c) := by
  simp [Summary.add, Nat.add_assoc]

theorem Summary.zero_add (a : Summary) : Summary.zero.add a = a := by
  cases a; simp [Summary.add, Summary.zero]

theorem Summary.add_zero (a : Summary) : a.add Summary.zero = a := by
  cases a; simp [Summary.add, Summary.zero]

theorem foldl_summary_add (ys : List Summary) (a : Summary) :
    ys.foldl Summary.add a = a.add (ys.foldl Summary.add Summary.zero) := by
  induction ys generalizing a with
  | nil => simp [Summary.add_zero]
  | cons y ys ih =>
    simp only [List.foldl_cons]
    rw [ih (a.add y), ih (Summary.zero.add y), Summary.zero_add, Summary.add_assoc]

theorem aggregate_append' (xs ys : List Summary) :
    Summary.aggregate (xs ++ ys) = (Summary.aggregate xs).add (Summary.aggregate ys) := by
  simp only [Summary.aggregate, List.foldl_append]
  exact foldl_summary_add _ _

end Lev
