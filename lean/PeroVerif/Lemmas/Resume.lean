/-
Helper lemmas for C17 (resume protocol).

Every lemma that depends on the GENERATED configuration (`checkedKinds`, `writeOrder`, `matcher`,
`divisionGuarded`) takes the facts it needs as hypotheses, so this file compiles whatever the
generated constants are; `PeroVerif/Props/C17.lean` instantiates the hypotheses with the `cfg_*`
theorems.  Core Lean only.
-/
import PeroVerif.Model.Resume

namespace Resume
open Gen.ParseFolder Py

/-! ### generic list helpers -/

theorem findIdx?_append_hit {α} (p : α → Bool) (xs : List α) (y : α) (ys : List α)
    (hx : ∀ c ∈ xs, p c = false) (hy : p y = true) :
    (xs ++ y :: ys).findIdx? p = some xs.length := by
  induction xs with
  | nil => simp [List.findIdx?_cons, hy]
  | cons x xs ih =>
    have hx' : p x = false := hx x (by simp)
    have := ih (fun c hc => hx c (by simp [hc]))
    simp [List.findIdx?_cons, hx', this]

theorem eq_of_nodup_map {α β} (g : α → β) :
    ∀ (l : List α), (l.map g).Nodup → ∀ x ∈ l, ∀ y ∈ l, g x = g y → x = y := by
  intro l
  induction l with
  | nil => intro _ x hx; cases hx
  | cons a l ih =>
    intro hn x hx y hy hxy
    rw [List.map_cons, List.nodup_cons] at hn
    rcases List.mem_cons.1 hx with rfl | hx'
    · rcases List.mem_cons.1 hy with rfl | hy'
      · rfl
      · exact absurd (List.mem_map.2 ⟨y, hy', hxy.symm⟩) hn.1
    · rcases List.mem_cons.1 hy with rfl | hy'
      · exact absurd (List.mem_map.2 ⟨x, hx', hxy⟩) hn.1
      · exact ih hn.2 x hx' y hy' hxy

/-- union of two prefixes (as sets) of the same list is a prefix -/
theorem prefix_union {β} (L A B : List β) (n1 n2 : Nat)
    (h1 : ∀ f, (f ∈ A ∧ f ∈ L) ↔ f ∈ L.take n1) (h2 : ∀ f, (f ∈ B ∧ f ∈ L) ↔ f ∈ L.take n2) :
    ∀ f, ((f ∈ A ∨ f ∈ B) ∧ f ∈ L) ↔ f ∈ L.take (max n1 n2) := by
  intro f
  rcases Nat.le_total n1 n2 with h | h
  · rw [Nat.max_eq_right h]
    constructor
    · rintro ⟨hA | hB, hL⟩
      · exact List.take_subset_take_left L h ((h1 f).1 ⟨hA, hL⟩)
      · exact (h2 f).1 ⟨hB, hL⟩
    · intro hf
      exact ⟨Or.inr ((h2 f).2 hf).1, ((h2 f).2 hf).2⟩
  · rw [Nat.max_eq_left h]
    constructor
    · rintro ⟨hA | hB, hL⟩
      · exact (h1 f).1 ⟨hA, hL⟩
      · exact List.take_subset_take_left L h ((h2 f).1 ⟨hB, hL⟩)
    · intro hf
      exact ⟨Or.inl ((h1 f).2 hf).1, ((h1 f).2 hf).2⟩

/-- a cut of the concatenated write lists meets the write list of any one owner in a prefix,
provided the owners own disjoint items -/
theorem take_flatMap_prefix {α β} (g : α → List β) (p : α) :
    ∀ (l : List α) (m : Nat), l.Nodup → (∀ y ∈ l, ∀ f, f ∈ g p → f ∈ g y → p = y) →
      ∃ n, ∀ f, (f ∈ (l.flatMap g).take m ∧ f ∈ g p) ↔ f ∈ (g p).take n := by
  intro l
  induction l with
  | nil => intro m _ _; exact ⟨0, by simp⟩
  | cons x l ih =>
    intro m hn hd
    rw [List.nodup_cons] at hn
    rw [List.flatMap_cons, List.take_append]
    by_cases hpx : p = x
    · subst hpx
      refine ⟨m, fun f => ⟨?_, fun hf => ⟨List.mem_append_left _ hf, List.mem_of_mem_take hf⟩⟩⟩
      rintro ⟨hf, hfp⟩
      rcases List.mem_append.1 hf with hf | hf
      · exact hf
      · obtain ⟨y, hy, hfy⟩ := List.mem_flatMap.1 (List.mem_of_mem_take hf)
        have := hd y (List.mem_cons_of_mem _ hy) f hfp hfy
        subst this
        exact absurd hy hn.1
    · obtain ⟨n, hn'⟩ := ih (m - (g x).length) hn.2 (fun y hy => hd y (List.mem_cons_of_mem _ hy))
      refine ⟨n, fun f => ⟨?_, fun hf => ?_⟩⟩
      · rintro ⟨hf, hfp⟩
        rcases List.mem_append.1 hf with hf | hf
        · exact absurd (hd x (List.mem_cons_self ..) f hfp (List.mem_of_mem_take hf)) hpx
        · exact (hn' f).1 ⟨hf, hfp⟩
      · exact ⟨List.mem_append_right _ ((hn' f).2 hf).1, ((hn' f).2 hf).2⟩

/-- if the last element of a list does not occur before, a prefix containing it is the whole list -/
theorem take_eq_self_of_last_mem {β} (L : List β) (x : β) (n : Nat) (hx : x ∉ L)
    (h : x ∈ (L ++ [x]).take n) : (L ++ [x]).take n = L ++ [x] := by
  apply List.take_of_length_le
  by_cases hn : n ≤ L.length
  · rw [List.take_append_of_le_length hn] at h
    exact absurd (List.mem_of_mem_take h) hx
  · simp; omega

/-! ### `splitext` / `stemOf` -/

theorem splitext_append (id e : Str) (he : ∀ c ∈ e, c ≠ cDot) (hid : id.any (· != cDot) = true) :
    splitext (id ++ cDot :: e) = (id, cDot :: e) := by
  have hrev : (id ++ cDot :: e).reverse = e.reverse ++ cDot :: id.reverse := by simp
  have hfind : (id ++ cDot :: e).reverse.findIdx? (fun c => decide (c = cDot)) = some e.length := by
    rw [hrev]
    have := findIdx?_append_hit (fun c => decide (c = cDot)) e.reverse cDot id.reverse
      (by simpa using he) (by simp)
    simpa using this
  have hd : (id ++ cDot :: e).length - 1 - e.length = id.length := by
    simp only [List.length_append, List.length_cons]; omega
  unfold splitext
  rw [hfind]
  simp only [hd]
  simp [hid]

/-- extension of the single output file of a kind other than `.lines` -/
def extOf : Kind → Str
  | .xml => extXml | .render => extJpg | .logits => extLogits | .alto => extXml | .lines => extJpg

theorem filesOf_single (p : Page) (k : Kind) (hk : k ≠ .lines) :
    filesOf p k = [(k, p.id ++ extOf k)] := by
  cases k <;> first | rfl | exact absurd rfl hk

theorem stemOf_ext (hm : matcher = .splitext) (id : Str) (hid : id.any (· != cDot) = true) (k : Kind) :
    stemOf (id ++ extOf k) = some id := by
  have hX : splitext (id ++ extXml) = (id, extXml) :=
    splitext_append id [120, 109, 108] (by simp [cDot]) hid
  have hJ : splitext (id ++ extJpg) = (id, extJpg) :=
    splitext_append id [106, 112, 103] (by simp [cDot]) hid
  have hL : splitext (id ++ extLogits) = (id, extLogits) :=
    splitext_append id [108, 111, 103, 105, 116, 115] (by simp [cDot]) hid
  unfold stemOf
  rw [hm]
  cases k <;> simp [extOf, hX, hJ, hL]

/-! ### membership facts -/

theorem filesOf_kind {p : Page} {k : Kind} {f : File} (h : f ∈ filesOf p k) : f.1 = k := by
  cases k
  case lines =>
    simp only [filesOf, List.mem_map] at h
    obtain ⟨l, _, rfl⟩ := h
    rfl
  all_goals
    simp only [filesOf, List.mem_singleton] at h
    subst h
    rfl

theorem mem_writes {K : List Kind} {p : Page} {f : File} :
    f ∈ writes K p ↔ f.1 ∈ writeOrder ∧ f.1 ∈ K ∧ f ∈ filesOf p f.1 := by
  simp only [writes, List.mem_flatMap, List.mem_filter, List.contains_iff_mem]
  constructor
  · rintro ⟨k, ⟨hk1, hk2⟩, hf⟩
    have := filesOf_kind hf
    subst this
    exact ⟨hk1, hk2, hf⟩
  · rintro ⟨h1, h2, h3⟩
    exact ⟨f.1, ⟨h1, h2⟩, h3⟩

theorem mem_allOutputs {K : List Kind} {pages : List Page} {f : File} :
    f ∈ allOutputs K pages ↔ ∃ p ∈ pages, f ∈ writes K p := by
  simp [allOutputs, List.mem_flatMap]

theorem mem_addFiles {f : File} : ∀ (ws : List File) (fs : FS), f ∈ addFiles fs ws ↔ f ∈ fs ∨ f ∈ ws := by
  intro ws
  induction ws with
  | nil => intro fs; simp [addFiles]
  | cons w ws ih =>
    intro fs
    have : addFiles fs (w :: ws) = addFiles (if fs.contains w then fs else fs ++ [w]) ws := rfl
    rw [this, ih]
    by_cases hw : fs.contains w = true
    · rw [if_pos hw]
      have hw' : w ∈ fs := List.contains_iff_mem.1 hw
      constructor
      · rintro (h | h)
        · exact Or.inl h
        · exact Or.inr (List.mem_cons_of_mem _ h)
      · rintro (h | h)
        · exact Or.inl h
        · rcases List.mem_cons.1 h with rfl | h
          · exact Or.inl hw'
          · exact Or.inr h
    · rw [if_neg hw]
      simp only [List.mem_append, List.mem_cons, List.not_mem_nil, or_false]
      constructor
      · rintro ((h | h) | h)
        · exact Or.inl h
        · exact Or.inr (Or.inl h)
        · exact Or.inr (Or.inr h)
      · rintro (h | h | h)
        · exact Or.inl (Or.inl h)
        · exact Or.inl (Or.inr h)
        · exact Or.inr h

theorem mem_stemsIn {fs : FS} {k : Kind} {s : Str} :
    s ∈ stemsIn fs k ↔ ∃ f ∈ fs, f.1 = k ∧ stemOf f.2 = some s := by
  simp only [stemsIn, List.mem_filterMap, List.mem_filter, decide_eq_true_eq]
  constructor
  · rintro ⟨f, ⟨h1, h2⟩, h3⟩; exact ⟨f, h1, h2, h3⟩
  · rintro ⟨f, h1, h2, h3⟩; exact ⟨f, ⟨h1, h2⟩, h3⟩

theorem mem_processed {fs : FS} {K : List Kind} {s : Str} :
    s ∈ processed fs K ↔
      checkedKinds.filter (K.contains ·) ≠ [] ∧ ∀ k ∈ checkedKinds.filter (K.contains ·), s ∈ stemsIn fs k := by
  unfold processed
  generalize checkedKinds.filter (K.contains ·) = L
  cases L with
  | nil => simp
  | cons k ks =>
    simp only [List.mem_filter, List.all_eq_true, List.contains_iff_mem, ne_eq, reduceCtorEq,
      not_false_eq_true, true_and, List.mem_cons, forall_eq_or_imp]

theorem processed_eq_nil {fs : FS} {K : List Kind} (h : checkedKinds.filter (K.contains ·) = []) :
    processed fs K = [] := by
  unfold processed
  rw [h]

theorem todo_sublist (fs : FS) (K : List Kind) (pages : List Page) : (todo fs K pages).Sublist pages :=
  List.filter_sublist

theorem mem_todo {fs : FS} {K : List Kind} {pages : List Page} {p : Page} :
    p ∈ todo fs K pages ↔ p ∈ pages ∧ p.id ∉ processed fs K := by
  simp [todo, List.mem_filter]

/-! ### good batches -/

/-- same as `C17.GoodPages` (which lives in the Props file) -/
def GoodBatch (pages : List Page) : Prop :=
  (pages.map (·.id)).Nodup ∧ (∀ p ∈ pages, p.id.any (· != cDot) = true) ∧
  ∀ p ∈ pages, ∀ q ∈ pages, p ≠ q → ∀ f ∈ filesOf p .lines, f ∉ filesOf q .lines

theorem GoodBatch.nodup {pages : List Page} (hg : GoodBatch pages) : pages.Nodup :=
  List.Pairwise.of_map (·.id) (fun _ _ h e => h (congrArg _ e)) hg.1

theorem GoodBatch.id_inj {pages : List Page} (hg : GoodBatch pages) {p q : Page}
    (hp : p ∈ pages) (hq : q ∈ pages) (h : p.id = q.id) : p = q :=
  eq_of_nodup_map (·.id) pages hg.1 p hp q hq h

/-- pages own disjoint files -/
theorem filesOf_disjoint {pages : List Page} (hg : GoodBatch pages) {p q : Page}
    (hp : p ∈ pages) (hq : q ∈ pages) {k : Kind} {f : File}
    (h1 : f ∈ filesOf p k) (h2 : f ∈ filesOf q k) : p = q := by
  by_cases hk : k = .lines
  · subst hk
    apply Classical.byContradiction
    intro hne
    exact hg.2.2 p hp q hq hne f h1 h2
  · rw [filesOf_single p k hk, List.mem_singleton] at h1
    rw [filesOf_single q k hk, List.mem_singleton] at h2
    apply hg.id_inj hp hq
    have := h1.symm.trans h2
    exact List.append_cancel_right (Prod.mk.inj this).2

theorem writes_disjoint {pages : List Page} (hg : GoodBatch pages) {K : List Kind} {p q : Page}
    (hp : p ∈ pages) (hq : q ∈ pages) {f : File}
    (h1 : f ∈ writes K p) (h2 : f ∈ writes K q) : p = q :=
  filesOf_disjoint hg hp hq (mem_writes.1 h1).2.2 (mem_writes.1 h2).2.2

/-! ### the invariant of a crash history -/

/-- (I1) only requested outputs of the batch are on disk; (I2) of every page, a prefix of its write
list (as a set) is on disk -/
def Inv (K : List Kind) (pages : List Page) (fs : FS) : Prop :=
  (∀ f ∈ fs, f ∈ allOutputs K pages) ∧
  ∀ p ∈ pages, ∃ n, ∀ f, (f ∈ fs ∧ f ∈ writes K p) ↔ f ∈ (writes K p).take n

theorem inv_nil (K : List Kind) (pages : List Page) : Inv K pages [] :=
  ⟨fun _ h => (nomatch h), fun _ _ => ⟨0, by simp⟩⟩

theorem runWrites_subset {fs : FS} {K : List Kind} {pages : List Page} {f : File}
    (h : f ∈ runWrites fs K pages) : f ∈ allOutputs K pages := by
  obtain ⟨p, hp, hf⟩ := List.mem_flatMap.1 h
  exact mem_allOutputs.2 ⟨p, (mem_todo.1 hp).1, hf⟩

theorem inv_crashRun {K : List Kind} {pages : List Page} (hg : GoodBatch pages) {fs : FS}
    (hinv : Inv K pages fs) (k : Nat) : Inv K pages (crashRun fs K pages k) := by
  unfold crashRun
  refine ⟨?_, ?_⟩
  · intro f hf
    rcases (mem_addFiles _ _).1 hf with h | h
    · exact hinv.1 f h
    · exact runWrites_subset (List.mem_of_mem_take h)
  · intro p hp
    obtain ⟨n1, h1⟩ := hinv.2 p hp
    obtain ⟨n2, h2⟩ := take_flatMap_prefix (writes K) p (todo fs K pages) (k - 1)
      ((todo_sublist fs K pages).nodup hg.nodup)
      (fun y hy f hfp hfy => writes_disjoint hg hp (mem_todo.1 hy).1 hfp hfy)
    refine ⟨max n1 n2, fun f => ?_⟩
    rw [mem_addFiles]
    exact prefix_union (writes K p) fs _ n1 n2 h1 h2 f

theorem inv_foldl {K : List Kind} {pages : List Page} (hg : GoodBatch pages) :
    ∀ (crashes : List Nat) (fs : FS), Inv K pages fs →
      Inv K pages (crashes.foldl (fun fs k => crashRun fs K pages k) fs) := by
  intro crashes
  induction crashes with
  | nil => intro fs h; exact h
  | cons k ks ih => intro fs h; exact ih _ (inv_crashRun hg h k)

/-! ### consequences of the configuration obligations (as hypotheses) -/

/-- shape of `cfg_last_write_checked`, for an arbitrary requested-kinds predicate -/
def LastWriteChecked : Prop :=
  ∀ r : Kind → Bool, checkedKinds.filter r ≠ [] →
    ∃ k, (writeOrder.filter r).getLast? = some k ∧ k ∈ checkedKinds ∧ k ≠ .lines

theorem lines_not_checked (HL : LastWriteChecked) : Kind.lines ∉ checkedKinds := by
  intro hmem
  have hne : checkedKinds.filter (fun k => k == Kind.lines) ≠ [] := by
    intro h
    have : Kind.lines ∈ checkedKinds.filter (fun k => k == Kind.lines) :=
      List.mem_filter.2 ⟨hmem, by simp⟩
    rw [h] at this
    cases this
  obtain ⟨k, hk, _, hkl⟩ := HL _ hne
  have := (List.mem_filter.1 (List.mem_of_getLast? hk)).2
  exact hkl (by simpa using this)

/-- (I3) a page counted as processed has all its requested outputs on disk -/
theorem processed_complete (hm : matcher = .splitext) (HL : LastWriteChecked) (HN : writeOrder.Nodup)
    {K : List Kind} {pages : List Page} (hg : GoodBatch pages) {fs : FS} (hinv : Inv K pages fs)
    {p : Page} (hp : p ∈ pages) (hdone : p.id ∈ processed fs K) :
    ∀ f ∈ writes K p, f ∈ fs := by
  obtain ⟨hne, hall⟩ := mem_processed.1 hdone
  obtain ⟨kl, hlast, hkc, hkl⟩ := HL (K.contains ·) hne
  obtain ⟨init, hinit⟩ := List.getLast?_eq_some_iff.1 hlast
  have hklmem := List.mem_filter.1 (List.mem_of_getLast? hlast)
  have hklK : kl ∈ K := List.contains_iff_mem.1 hklmem.2
  -- the file of kind `kl` with stem `p.id`
  obtain ⟨f, hf, hfk, hfs⟩ := mem_stemsIn.1 (hall kl (List.mem_filter.2 ⟨hkc, hklmem.2⟩))
  obtain ⟨q, hq, hfq⟩ := mem_allOutputs.1 (hinv.1 f hf)
  have hfq' := (mem_writes.1 hfq).2.2
  rw [hfk, filesOf_single q kl hkl, List.mem_singleton] at hfq'
  have hstem : stemOf f.2 = some q.id := by
    rw [hfq']; exact stemOf_ext hm q.id (hg.2.1 q hq) kl
  have hqp : q = p := hg.id_inj hq hp (Option.some.inj (hstem.symm.trans hfs))
  subst hqp
  -- it is the last write of the page and does not occur before
  have hw : writes K q = init.flatMap (filesOf q) ++ [f] := by
    unfold writes
    rw [hinit, List.flatMap_append, List.flatMap_singleton, filesOf_single q kl hkl, hfq']
  have hnot : f ∉ init.flatMap (filesOf q) := by
    intro h
    obtain ⟨k, hk, hfk'⟩ := List.mem_flatMap.1 h
    have hkk : k = kl := (filesOf_kind hfk').symm.trans hfk
    have hnd : (init ++ [kl]).Nodup := hinit ▸ (List.filter_sublist.nodup HN)
    have := (List.nodup_append.1 hnd).2.2 k hk kl (List.mem_singleton.2 rfl)
    exact this hkk
  obtain ⟨n, hn⟩ := hinv.2 q hp
  have hfn : f ∈ (writes K q).take n := (hn f).1 ⟨hf, hfq⟩
  rw [hw] at hfn
  have hwhole := take_eq_self_of_last_mem _ f n hnot hfn
  intro g hg'
  have : g ∈ (writes K q).take n := by rw [hw, hwhole, ← hw]; exact hg'
  exact ((hn g).2 this).1

/-- after a resume, the disk holds exactly the requested outputs -/
theorem fullRun_complete (hm : matcher = .splitext) (HL : LastWriteChecked) (HN : writeOrder.Nodup)
    {K : List Kind} {pages : List Page} (hg : GoodBatch pages) {fs : FS} (hinv : Inv K pages fs) :
    ∀ f, f ∈ fullRun fs K pages ↔ f ∈ allOutputs K pages := by
  intro f
  unfold fullRun
  rw [mem_addFiles]
  constructor
  · rintro (h | h)
    · exact hinv.1 f h
    · exact runWrites_subset h
  · intro h
    obtain ⟨p, hp, hfp⟩ := mem_allOutputs.1 h
    by_cases hdone : p.id ∈ processed fs K
    · exact Or.inl (processed_complete hm HL HN hg hinv hp hdone f hfp)
    · exact Or.inr (List.mem_flatMap.2 ⟨p, mem_todo.2 ⟨hp, hdone⟩, hfp⟩)

/-- if every requested output is on disk, every page is counted as processed -/
theorem all_processed (hm : matcher = .splitext) (HL : LastWriteChecked) (HW : ∀ k, k ∈ writeOrder)
    {K : List Kind} {pages : List Page} (hg : GoodBatch pages) {fs : FS}
    (hall : ∀ f ∈ allOutputs K pages, f ∈ fs) (hK : checkedKinds.filter (K.contains ·) ≠ [])
    {p : Page} (hp : p ∈ pages) : p.id ∈ processed fs K := by
  refine mem_processed.2 ⟨hK, fun k hk => ?_⟩
  obtain ⟨hkc, hkK⟩ := List.mem_filter.1 hk
  have hkl : k ≠ .lines := fun h => lines_not_checked HL (h ▸ hkc)
  refine mem_stemsIn.2 ⟨(k, p.id ++ extOf k), ?_, rfl, stemOf_ext hm p.id (hg.2.1 p hp) k⟩
  apply hall
  refine mem_allOutputs.2 ⟨p, hp, mem_writes.2 ⟨HW k, List.contains_iff_mem.1 hkK, ?_⟩⟩
  show (k, p.id ++ extOf k) ∈ filesOf p k
  rw [filesOf_single p k hkl]
  exact List.mem_singleton.2 rfl

theorem todo_eq_nil_of_all_processed {fs : FS} {K : List Kind} {pages : List Page}
    (h : ∀ p ∈ pages, p.id ∈ processed fs K) : todo fs K pages = [] := by
  unfold todo
  rw [List.filter_eq_nil_iff]
  intro p hp
  simp [h p hp]

theorem todo_lines_only (HL : LastWriteChecked) (pages : List Page) (fs : FS) :
    todo fs [.lines] pages = pages := by
  have hnil : checkedKinds.filter (([Kind.lines] : List Kind).contains ·) = [] := by
    rw [List.filter_eq_nil_iff]
    intro k hk hc
    have : k = Kind.lines := by simpa using hc
    exact lines_not_checked HL (this ▸ hk)
  unfold todo
  rw [processed_eq_nil hnil]
  simp

end Resume
