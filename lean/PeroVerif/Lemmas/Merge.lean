/-
Helper lemmas for C15 (merge of overlapping transcription parts, window splitting).

`Batteries.Data.List.Basic` is imported only because it defines `List.IsChain`, which the statement
of `C15.windows_chain` uses (core Lean 4.33 does not have it).
-/
import Batteries.Data.List.Basic
import PeroVerif.Model.Merge
import PeroVerif.Lemmas.LevExtra

/-! ### More Python-slice lemmas (natural-number forms) -/
namespace Py

/-- `l[:k]` for an integer `k` that is the natural number `n`. -/
theorem slice_to_nat {α : Type} (l : List α) (k : Int) (n : Nat) (hk : k = (n : Int)) :
    slice l none (some k) = l.take n := by
  subst hk
  rw [slice_to l _ (Int.natCast_nonneg n), Int.toNat_natCast]

/-- `l[k:]` for an integer `k` that is the natural number `n`. -/
theorem slice_from_nat {α : Type} (l : List α) (k : Int) (n : Nat) (hk : k = (n : Int)) :
    slice l (some k) none = l.drop n := by
  subst hk
  rw [slice_from l _ (Int.natCast_nonneg n), Int.toNat_natCast]

end Py

namespace Merge

/-! ### Generic fold invariant -/

theorem foldl_inv {σ ι : Type} (P : σ → Prop) (f : σ → ι → σ) :
    ∀ (l : List ι) (s : σ), P s → (∀ s k, k ∈ l → P s → P (f s k)) → P (l.foldl f s)
  | [], s, h0, _ => h0
  | k :: l, s, h0, hstep => by
    rw [List.foldl_cons]
    apply foldl_inv P f l
    · exact hstep s k (List.mem_cons_self ..) h0
    · intro s' k' hk' hs'
      exact hstep s' k' (List.mem_cons_of_mem _ hk') hs'

/-! ### `find_best_overlap` -/
section
variable {α : Type} [DecidableEq α]

theorem overlapStep_le (t1 t2 : List α) (st : Nat × Nat × Nat) (k m : Nat) (hk : k < m)
    (hst : st.2.2 ≤ m) : (overlapStep t1 t2 st k).2.2 ≤ m := by
  unfold overlapStep
  dsimp only
  split
  · exact hk
  · exact hst

theorem findBestOverlap_le_min (a b : List α) : findBestOverlap a b ≤ min a.length b.length := by
  unfold findBestOverlap
  apply foldl_inv (fun st : Nat × Nat × Nat => st.2.2 ≤ min a.length b.length)
  · exact Nat.zero_le _
  · intro s k hk hs
    exact overlapStep_le a b s k _ (List.mem_range.mp hk) hs

end

/-! ### The cut-and-append expression -/

/-- `r[:len(r) - (o+1)//2] + p[o//2:]` -/
def cut {γ : Type} (r p : List γ) (o : Nat) : List γ :=
  r.take (r.length - (o + 1) / 2) ++ p.drop (o / 2)

theorem cut_length {γ : Type} (r p : List γ) (o : Nat) (hr : o ≤ r.length) (hp : o ≤ p.length) :
    (cut r p o).length + o = r.length + p.length := by
  simp only [cut, List.length_append, List.length_take, List.length_drop]
  omega

theorem cut_length' {γ : Type} (r p : List γ) (o : Nat) (hr : o ≤ r.length) :
    (cut r p o).length = (r.length - (o + 1) / 2) + (p.length - o / 2) := by
  simp only [cut, List.length_append, List.length_take, List.length_drop]
  omega

theorem cut_zero {γ : Type} (r p : List γ) : cut r p 0 = r ++ p := by
  simp [cut]

/-- Taking at most the kept part of `r` out of `cut r p o` only sees `r`. -/
theorem take_cut {γ : Type} (r p : List γ) (o k : Nat) (hk : k ≤ r.length - (o + 1) / 2) :
    (cut r p o).take k = r.take k := by
  unfold cut
  rw [List.take_append_of_le_length (by simp only [List.length_take]; omega), List.take_take,
    Nat.min_eq_left hk]

/-! ### Window splitting -/

theorem windowsAux_spec (width mlw : Nat) (h : 0 < mlw) :
    ∀ (fuel start e : Nat), e = start + mlw → width ≤ e + fuel * (mlw - mlw / 4) →
      (∃ rest, windowsAux width mlw fuel start e = (start, e) :: rest) ∧
      List.IsChain (fun a b : Nat × Nat => b.1 + mlw / 4 = a.2 ∧ b.2 = b.1 + mlw ∧ a.2 < width)
        (windowsAux width mlw fuel start e) ∧
      (∀ l ∈ (windowsAux width mlw fuel start e).getLast?, width ≤ l.2) := by
  intro fuel
  induction fuel with
  | zero =>
    intro start e _ hw
    refine ⟨⟨[], rfl⟩, ?_, ?_⟩
    · exact List.IsChain.singleton _
    · intro l hl
      simp only [windowsAux, List.getLast?_singleton, Option.mem_def, Option.some.injEq] at hl
      subst hl
      simpa using hw
  | succ fuel ih =>
    intro start e he hw
    by_cases hlt : e < width
    · have hw' : width ≤ (e + (mlw - mlw / 4)) + fuel * (mlw - mlw / 4) := by
        rw [Nat.succ_mul] at hw
        omega
      have he' : e + (mlw - mlw / 4) = (start + (mlw - mlw / 4)) + mlw := by omega
      obtain ⟨⟨rest, hrest⟩, hchain, hlast⟩ := ih (start + (mlw - mlw / 4)) (e + (mlw - mlw / 4)) he' hw'
      have hunf : windowsAux width mlw (fuel + 1) start e =
          (start, e) :: windowsAux width mlw fuel (start + (mlw - mlw / 4)) (e + (mlw - mlw / 4)) := by
        simp only [windowsAux, if_pos hlt]
      rw [hunf]
      refine ⟨⟨_, rfl⟩, ?_, ?_⟩
      · rw [hrest] at hchain ⊢
        refine List.IsChain.cons_cons ?_ hchain
        dsimp only
        omega
      · intro l hl
        apply hlast l
        rw [hrest] at hl ⊢
        simpa only [List.getLast?_cons_cons] using hl
    · have hunf : windowsAux width mlw (fuel + 1) start e = [(start, e)] := by
        simp only [windowsAux, if_neg hlt]
      rw [hunf]
      refine ⟨⟨[], rfl⟩, List.IsChain.singleton _, ?_⟩
      intro l hl
      simp only [List.getLast?_singleton, Option.mem_def, Option.some.injEq] at hl
      subst hl
      exact Nat.le_of_not_lt hlt

theorem regroup_flatten' {γ : Type} : ∀ (spans : List Nat) (xs : List γ), spans.sum = xs.length →
    (regroup spans xs).flatten = xs := by
  intro spans
  induction spans with
  | nil => intro xs h; simp at h; simp [regroup, List.eq_nil_of_length_eq_zero h.symm]
  | cons s r ih =>
    intro xs h
    simp only [List.sum_cons] at h
    have : r.sum = (xs.drop s).length := by simp; omega
    simp [regroup, ih _ this]

theorem regroup_lengths' {γ : Type} : ∀ (spans : List Nat) (xs : List γ), spans.sum ≤ xs.length →
    (regroup spans xs).map List.length = spans := by
  intro spans
  induction spans with
  | nil => intro xs _; simp [regroup]
  | cons s r ih =>
    intro xs h
    simp only [List.sum_cons] at h
    have : r.sum ≤ (xs.drop s).length := by simp; omega
    simp [regroup, ih _ this]; omega

theorem regroup_get' {γ : Type} : ∀ (spans : List Nat) (xs : List γ) (k : Nat), k < spans.length →
    (regroup spans xs)[k]? = some ((xs.drop (spans.take k).sum).take (spans.getD k 0)) := by
  intro spans
  induction spans with
  | nil => intro xs k h; simp at h
  | cons s r ih =>
    intro xs k h
    cases k with
    | zero => simp [regroup]
    | succ k =>
      have hk : k < r.length := by simpa using h
      simp [regroup, ih (xs.drop s) k hk, List.drop_drop]

section textonly
variable {α β : Type} [DecidableEq α]

theorem mergeStep_fst_indep {γ : Type} (acc : List α × List β) (acc' : List α × List γ) (p : List α × List β) (p' : List α × List γ)
    (ha : acc.1 = acc'.1) (hp : p.1 = p'.1) : (mergeStep acc p).1 = (mergeStep acc' p').1 := by
  simp [mergeStep, ha, hp]

theorem foldl_mergeStep_fst_indep {γ : Type} : ∀ (ps : List (List α × List β)) (ps' : List (List α × List γ))
    (acc : List α × List β) (acc' : List α × List γ), acc.1 = acc'.1 → ps.map (·.1) = ps'.map (·.1) →
    (ps.foldl mergeStep acc).1 = (ps'.foldl mergeStep acc').1 := by
  intro ps
  induction ps with
  | nil => intro ps' acc acc' ha h; cases ps' with
    | nil => simpa using ha
    | cons _ _ => simp at h
  | cons p ps ih =>
    intro ps' acc acc' ha h
    cases ps' with
    | nil => simp at h
    | cons p' ps' =>
      simp only [List.map_cons, List.cons.injEq] at h
      simp only [List.foldl_cons]
      exact ih ps' _ _ (mergeStep_fst_indep acc acc' p p' ha h.1) h.2

theorem mergeAll_text_indep {γ : Type} (parts : List (List α × List β)) (parts' : List (List α × List γ))
    (h : parts.map (·.1) = parts'.map (·.1)) : (mergeAll parts).map (·.1) = (mergeAll parts').map (·.1) := by
  unfold mergeAll
  cases parts with
  | nil => cases parts' with
    | nil => rfl
    | cons _ _ => simp at h
  | cons p ps =>
    cases parts' with
    | nil => simp at h
    | cons p' ps' =>
      simp only [List.map_cons, List.cons.injEq] at h
      simp only [List.map_cons, Option.map_some, Option.some.injEq]
      apply foldl_mergeStep_fst_indep
      · simpa [shrink] using h.1
      · have hs : ∀ (δ : Type) (l : List (List α × List δ)), (l.map shrink).map (·.1) = l.map (·.1) := by
          intro δ l; induction l with
          | nil => rfl
          | cons x xs ih => simp [shrink, ih]
        rw [hs, hs]; exact h.2

end textonly

/-! ### Specification of the overlap search (C15.findBestOverlap_spec, exact_overlap_found) -/
section ovspec
variable {α : Type} [DecidableEq α]

/-- distance between the last `i` symbols of `t1` and the first `i` of `t2` (numerator of `cer` in `find_best_overlap`) -/
def ovDist (t1 t2 : List α) (i : Nat) : Nat :=
  Lev.dist Lev.unit (t1.drop (t1.length - i)) (t2.take i)

/-- invariant of the search loop after the candidates `1..n` -/
def OvInv (d : Nat → Nat) (n : Nat) (st : Nat × Nat × Nat) : Prop :=
  1 ≤ st.2.1 ∧ st.1 ≤ st.2.1 ∧
  ((st.2.2 = 0 ∧ st.1 = 1 ∧ st.2.1 = 1) ∨
   (1 ≤ st.2.2 ∧ st.2.2 ≤ n ∧ st.1 = d st.2.2 ∧ st.2.1 = st.2.2 ∧ st.1 < st.2.1)) ∧
  (∀ i, 1 ≤ i → i ≤ n → st.1 * i ≤ d i * st.2.1) ∧
  (∀ i, 1 ≤ i → i < st.2.2 → st.1 * i < d i * st.2.1)

theorem ovInv_step (t1 t2 : List α) (n : Nat) (st : Nat × Nat × Nat) (h : OvInv (ovDist t1 t2) n st) :
    OvInv (ovDist t1 t2) (n + 1) (overlapStep t1 t2 st n) := by
  obtain ⟨hden, hnd, hcase, hle, hlt⟩ := h
  have hb : st.2.2 ≤ n := by rcases hcase with ⟨h0, _, _⟩ | ⟨_, h1, _⟩ <;> omega
  unfold overlapStep
  dsimp only
  change OvInv (ovDist t1 t2) (n + 1)
    (if ovDist t1 t2 (n + 1) * st.2.1 < st.1 * (n + 1) then (ovDist t1 t2 (n + 1), n + 1, n + 1) else st)
  generalize hd : ovDist t1 t2 (n + 1) = dn
  split
  next hupd =>
    -- the new candidate is strictly better than everything before
    have hdn : dn < n + 1 := by
      have h1 : st.1 * (n + 1) ≤ st.2.1 * (n + 1) := Nat.mul_le_mul_right _ hnd
      have h2 : dn * st.2.1 < (n + 1) * st.2.1 := by rw [Nat.mul_comm (n + 1)]; omega
      exact Nat.lt_of_mul_lt_mul_right h2
    have key : ∀ j, 1 ≤ j → j ≤ n → dn * j < ovDist t1 t2 j * (n + 1) := by
      intro j hj1 hjn
      have h1 : dn * st.2.1 * j < st.1 * (n + 1) * j := Nat.mul_lt_mul_of_pos_right hupd (by omega)
      have h2 : st.1 * j * (n + 1) ≤ ovDist t1 t2 j * st.2.1 * (n + 1) := Nat.mul_le_mul_right _ (hle j hj1 hjn)
      have h3 : dn * j * st.2.1 < ovDist t1 t2 j * (n + 1) * st.2.1 := by
        calc dn * j * st.2.1 = dn * st.2.1 * j := by ac_rfl
          _ < st.1 * (n + 1) * j := h1
          _ = st.1 * j * (n + 1) := by ac_rfl
          _ ≤ ovDist t1 t2 j * st.2.1 * (n + 1) := h2
          _ = ovDist t1 t2 j * (n + 1) * st.2.1 := by ac_rfl
      exact Nat.lt_of_mul_lt_mul_right h3
    refine ⟨by simp, by simp; omega, Or.inr ⟨by simp, by simp, by simp [hd], rfl, by simpa using hdn⟩, ?_, ?_⟩
    · intro j hj1 hjn
      simp only
      rcases Nat.lt_or_ge j (n + 1) with hlt' | hge
      · exact Nat.le_of_lt (key j hj1 (by omega))
      · have : j = n + 1 := by omega
        subst this; rw [hd]; exact Nat.le_refl _
    · intro j hj1 hjn
      simp only at hjn ⊢
      exact key j hj1 (by omega)
  next hno =>
    refine ⟨hden, hnd, ?_, ?_, hlt⟩
    · rcases hcase with h0 | ⟨a, b, c, d, e⟩
      · exact Or.inl h0
      · exact Or.inr ⟨a, by omega, c, d, e⟩
    · intro j hj1 hjn
      rcases Nat.lt_or_ge j (n + 1) with hlt' | hge
      · exact hle j hj1 (by omega)
      · have : j = n + 1 := by omega
        subst this; rw [hd]; omega

theorem foldl_range_inv {σ : Type} (P : Nat → σ → Prop) (f : σ → Nat → σ) (s : σ) (h0 : P 0 s)
    (hstep : ∀ n st, P n st → P (n + 1) (f st n)) : ∀ m, P m ((List.range m).foldl f s) := by
  intro m
  induction m with
  | zero => simpa using h0
  | succ m ih => rw [List.range_succ, List.foldl_append]; exact hstep m _ ih

theorem findBestOverlap_inv (t1 t2 : List α) :
    OvInv (ovDist t1 t2) (min t1.length t2.length)
      ((List.range (min t1.length t2.length)).foldl (overlapStep t1 t2) (1, 1, 0)) := by
  apply foldl_range_inv (OvInv (ovDist t1 t2))
  · exact ⟨by simp, by simp, Or.inl ⟨rfl, rfl, rfl⟩, by intro i h1 h2; omega, by intro i h1 h2; simp at h2⟩
  · intro n st h; exact ovInv_step t1 t2 n st h

end ovspec

end Merge
