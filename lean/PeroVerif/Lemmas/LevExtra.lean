/-
Helper lemmas for the C13 corollaries dist_self / dist_unit_eq_zero_iff / dist_unit_ge_length_diff.
-/
import PeroVerif.Spec.Lev
import PeroVerif.Lemmas.Lev
namespace Lev
variable {α : Type} [DecidableEq α]

/-- The identity alignment of a sequence with itself. -/
def idAl (s : List α) : Alignment α := s.map (fun a => (some a, some a))

theorem idAl_props (c : Costs) (s : List α) :
    WellFormed (idAl s) ∧ srcOf (idAl s) = s ∧ tgtOf (idAl s) = s ∧ cost c (idAl s) = 0 := by
  refine ⟨?_, ?_, ?_, ?_⟩
  · intro p hp; simp [idAl] at hp; obtain ⟨a, _, rfl⟩ := hp; simp
  · induction s with
    | nil => rfl
    | cons a s ih => simpa [idAl, srcOf] using ih
  · induction s with
    | nil => rfl
    | cons a s ih => simpa [idAl, tgtOf] using ih
  · induction s with
    | nil => rfl
    | cons a s ih => simpa [idAl, cost, stepCost] using ih

theorem zero_cost_eq (al : Alignment α) (hw : WellFormed al) (h : cost unit al = 0) :
    srcOf al = tgtOf al := by
  induction al with
  | nil => rfl
  | cons p al ih =>
    have hw' : WellFormed al := fun q hq => hw q (List.mem_cons_of_mem _ hq)
    have hp := hw p (List.mem_cons_self)
    simp only [cost, List.map_cons, List.sum_cons] at h
    have h1 : stepCost unit p = 0 := by omega
    have h2 : cost unit al = 0 := by simp only [cost]; omega
    have ih' := ih hw' h2
    rcases p with ⟨_ | a, _ | b⟩
    · exact absurd rfl hp
    · simp [stepCost, unit] at h1
    · simp [stepCost, unit] at h1
    · by_cases hab : a = b
      · subst hab; simp [srcOf, tgtOf] at ih' ⊢; exact ih'
      · simp [stepCost, unit, hab] at h1

theorem len_le_cost (al : Alignment α) :
    (srcOf al).length ≤ (tgtOf al).length + cost unit al ∧
    (tgtOf al).length ≤ (srcOf al).length + cost unit al := by
  induction al with
  | nil => simp [srcOf, tgtOf, cost]
  | cons p al ih =>
    rcases p with ⟨_ | a, _ | b⟩ <;>
      simp [srcOf, tgtOf, cost, stepCost, unit] at ih ⊢ <;> (try split) <;> omega

/-- Pair the sequences position by position; the longer one's tail is deleted / inserted. -/
def zipAl : List α → List α → Alignment α
  | [], t => t.map (fun b => (none, some b))
  | a :: s, [] => (a :: s).map (fun a => (some a, none))
  | a :: s, b :: t => (some a, some b) :: zipAl s t

theorem zipAl_props (s t : List α) :
    WellFormed (zipAl s t) ∧ srcOf (zipAl s t) = s ∧ tgtOf (zipAl s t) = t ∧
      cost unit (zipAl s t) ≤ max s.length t.length := by
  fun_induction zipAl s t with
  | case1 t =>
    refine ⟨?_, ?_, ?_, ?_⟩
    · intro p hp; simp at hp; obtain ⟨a, _, rfl⟩ := hp; simp
    · induction t with
      | nil => rfl
      | cons b t ih => simp [srcOf]
    · induction t with
      | nil => rfl
      | cons b t ih => simpa [tgtOf] using ih
    · induction t with
      | nil => simp [cost]
      | cons b t ih => simp [cost, stepCost, unit] at ih ⊢; omega
  | case2 a s =>
    refine ⟨?_, ?_, ?_, ?_⟩
    · intro p hp; simp at hp; rcases hp with rfl | ⟨x, _, rfl⟩ <;> simp
    · generalize a :: s = l
      induction l with
      | nil => rfl
      | cons b t ih => simpa [srcOf] using ih
    · generalize a :: s = l
      induction l with
      | nil => rfl
      | cons b t ih => simp [tgtOf]
    · generalize a :: s = l
      induction l with
      | nil => simp [cost]
      | cons b t ih => simp [cost, stepCost, unit] at ih ⊢; omega
  | case3 a s b t ih =>
    obtain ⟨hw, hs, ht, hc⟩ := ih
    refine ⟨?_, ?_, ?_, ?_⟩
    · intro p hp; simp at hp; rcases hp with rfl | hp
      · simp
      · exact hw p hp
    · simpa [srcOf] using hs
    · simpa [tgtOf] using ht
    · simp only [cost, List.map_cons, List.sum_cons, List.length_cons] at hc ⊢
      have : stepCost unit (some a, some b) ≤ 1 := by simp [stepCost, unit]; split <;> omega
      omega

/-! ### line-end classification (C13.ending_total) -/

/-- total version of `matchType`, for the proofs only -/
def mtT (p : Option α × Option α) : MatchType := (matchType p).getD .C

theorem matchTypes_wf (al : Alignment α) (hw : WellFormed al) : matchTypes al = some (al.map mtT) := by
  induction al with
  | nil => rfl
  | cons p al ih =>
    have hw' : WellFormed al := fun q hq => hw q (List.mem_cons_of_mem _ hq)
    have hp := hw p List.mem_cons_self
    rw [matchTypes, ih hw']
    rcases p with ⟨_ | a, _ | b⟩
    · exact absurd rfl hp
    all_goals simp [matchType, mtT]

theorem stepCost_of_nonC (p : Option α × Option α) (hp : p ≠ (none, none)) (h : mtT p ≠ .C) :
    stepCost unit p = 1 := by
  rcases p with ⟨_ | a, _ | b⟩
  · exact absurd rfl hp
  · simp [stepCost, unit]
  · simp [stepCost, unit]
  · by_cases hab : a = b
    · subst hab; simp [mtT, matchType] at h
    · simp [stepCost, unit, hab]

theorem mtT_I (p : Option α × Option α) (h : mtT p = .I) : p.2 = none := by
  rcases p with ⟨_ | a, _ | b⟩ <;> simp [mtT, matchType] at h ⊢
  split at h <;> simp_all

theorem mtT_D (p : Option α × Option α) (h : mtT p = .D) : p.1 = none := by
  rcases p with ⟨_ | a, _ | b⟩ <;> simp [mtT, matchType] at h ⊢
  split at h <;> simp_all

theorem cost_nonC (suf : Alignment α) (hw : WellFormed suf) (h : ∀ p ∈ suf, mtT p ≠ .C) :
    cost unit suf = suf.length := by
  induction suf with
  | nil => rfl
  | cons p suf ih =>
    have hw' : WellFormed suf := fun q hq => hw q (List.mem_cons_of_mem _ hq)
    have := stepCost_of_nonC p (hw p List.mem_cons_self) (h p List.mem_cons_self)
    have ih' := ih hw' (fun q hq => h q (List.mem_cons_of_mem _ hq))
    simp only [cost, List.map_cons, List.sum_cons, List.length_cons] at ih' ⊢
    omega

theorem filterMap_length_lt {β γ : Type} (f : β → Option γ) (l : List β) (h : ∃ p ∈ l, f p = none) :
    (l.filterMap f).length < l.length := by
  induction l with
  | nil => obtain ⟨p, hp, _⟩ := h; simp at hp
  | cons x l ih =>
    obtain ⟨p, hp, hf⟩ := h
    have hle := List.length_filterMap_le f l
    rcases List.mem_cons.mp hp with rfl | hp
    · rw [List.filterMap_cons_none hf, List.length_cons]; omega
    · have := ih ⟨p, hp, hf⟩
      cases hx : f x with
      | none => rw [List.filterMap_cons_none hx, List.length_cons]; omega
      | some y => rw [List.filterMap_cons_some hx, List.length_cons, List.length_cons]; omega

theorem boundaryClass_ok (b : List MatchType) (hC : ∀ m ∈ b, m ≠ .C) (hID : ¬(.I ∈ b ∧ .D ∈ b)) :
    ∃ c, boundaryClass b = some c ∧ c ≠ .nothing := by
  unfold boundaryClass
  rw [if_neg hID]
  cases b with
  | nil => simp
  | cons m r =>
    have hm := hC m List.mem_cons_self
    by_cases hS : MatchType.S ∈ m :: r <;> by_cases hD : MatchType.D ∈ m :: r <;>
      by_cases hI : MatchType.I ∈ m :: r <;> simp only [hS, hD, hI, List.length_cons] <;> simp
    cases m <;> simp_all


/-- In an OPTIMAL well-formed alignment, the non-matching suffix never holds an insertion and a deletion together. -/
theorem optimal_suffix_no_ins_del (s t : List α) (al : Alignment α) (hw : WellFormed al)
    (hs : srcOf al = s) (ht : tgtOf al = t) (hc : cost unit al = dist unit s t) :
    ¬(MatchType.I ∈ nonMatchSuffix (al.map mtT) ∧ MatchType.D ∈ nonMatchSuffix (al.map mtT)) ∧
    ∀ m ∈ nonMatchSuffix (al.map mtT), m ≠ .C := by
  let q : Option α × Option α → Bool := fun p => decide (mtT p ≠ .C)
  let suf := (al.reverse.takeWhile q).reverse
  let pre := (al.reverse.dropWhile q).reverse
  have hal : al = pre ++ suf := by
    have := List.takeWhile_append_dropWhile (p := q) (l := al.reverse)
    have h2 := congrArg List.reverse this
    rw [List.reverse_append, List.reverse_reverse] at h2
    exact h2.symm
  have hsuf : nonMatchSuffix (al.map mtT) = suf.map mtT := by
    simp only [nonMatchSuffix, nonMatchPrefix, ← List.map_reverse, List.takeWhile_map, suf, q]
    rfl
  have hnc : ∀ p ∈ suf, mtT p ≠ .C := by
    intro p hp
    have hp' : p ∈ al.reverse.takeWhile q := List.mem_reverse.mp hp
    have hall := List.all_takeWhile (p := q) (l := al.reverse)
    have := List.all_eq_true.mp hall p hp'
    simpa [q] using this
  rw [hsuf]
  refine ⟨?_, ?_⟩
  · rintro ⟨hI, hD⟩
    obtain ⟨pI, hpI, hmI⟩ := List.mem_map.mp hI
    obtain ⟨pD, hpD, hmD⟩ := List.mem_map.mp hD
    have hwp : WellFormed pre ∧ WellFormed suf := wf_append.mp (hal ▸ hw)
    have hcs := cost_nonC suf hwp.2 hnc
    have h1 : (tgtOf suf).length < suf.length :=
      filterMap_length_lt Prod.snd suf ⟨pI, hpI, mtT_I pI hmI⟩
    have h2 : (srcOf suf).length < suf.length :=
      filterMap_length_lt Prod.fst suf ⟨pD, hpD, mtT_D pD hmD⟩
    obtain ⟨zw, zs, zt, zc⟩ := zipAl_props (srcOf suf) (tgtOf suf)
    have hw' : WellFormed (pre ++ zipAl (srcOf suf) (tgtOf suf)) := wf_append.mpr ⟨hwp.1, zw⟩
    have hs' : srcOf (pre ++ zipAl (srcOf suf) (tgtOf suf)) = s := by
      rw [srcOf_append, zs, ← srcOf_append, ← hal, hs]
    have ht' : tgtOf (pre ++ zipAl (srcOf suf) (tgtOf suf)) = t := by
      rw [tgtOf_append, zt, ← tgtOf_append, ← hal, ht]
    have hmin := (dist_isMin unit s t).2 _ hw' hs' ht'
    rw [cost_append] at hmin
    have hcal : cost unit al = cost unit pre + cost unit suf := by rw [hal, cost_append]
    omega
  · intro m hm
    obtain ⟨p, hp, rfl⟩ := List.mem_map.mp hm
    exact hnc p hp

/-- A sequence is at distance 0 from itself, for every cost table. -/
theorem dist_self (c : Costs) (s : List α) : dist c s s = 0 := by
  obtain ⟨hw, hs, ht, hc⟩ := idAl_props c s
  have := (dist_isMin c s s).2 (idAl s) hw hs ht
  omega

/-- With unit costs, distance 0 means equal sequences. -/
theorem dist_unit_eq_zero_iff (s t : List α) : dist unit s t = 0 ↔ s = t := by
  constructor
  · intro h
    obtain ⟨al, hw, hs, ht, hc⟩ := (dist_isMin unit s t).1
    rw [← hs, ← ht]; exact zero_cost_eq al hw (by omega)
  · rintro rfl; exact dist_self unit s

/-! ### composition of alignments (C13.dist_unit_triangle) -/

/-- compose an alignment of `s` with `t` and an alignment of `t` with `u` into one of `s` with `u` -/
def compose : Alignment α → Alignment α → Alignment α
  | [], al2 => al2
  | (some a, none) :: r1, al2 => (some a, none) :: compose r1 al2
  | (none, none) :: r1, al2 => compose r1 al2
  | (x, some b) :: r1, [] => (x, some b) :: r1
  | (x, some b) :: r1, (none, some c) :: r2 => (none, some c) :: compose ((x, some b) :: r1) r2
  | (x, some b) :: r1, (none, none) :: r2 => compose ((x, some b) :: r1) r2
  | (none, some _) :: r1, (some _, none) :: r2 => compose r1 r2
  | (some a, some _) :: r1, (some _, none) :: r2 => (some a, none) :: compose r1 r2
  | (x, some _) :: r1, (some _, some c) :: r2 => (x, some c) :: compose r1 r2
termination_by al1 al2 => al1.length + al2.length

theorem compose_spec (al1 al2 : Alignment α) (hw1 : WellFormed al1) (hw2 : WellFormed al2)
    (h : tgtOf al1 = srcOf al2) :
    WellFormed (compose al1 al2) ∧ srcOf (compose al1 al2) = srcOf al1 ∧ tgtOf (compose al1 al2) = tgtOf al2 ∧
    cost unit (compose al1 al2) ≤ cost unit al1 + cost unit al2 := by
  fun_induction compose al1 al2 with
  | case1 al2 =>
    refine ⟨hw2, ?_, rfl, by simp [cost]⟩
    simpa [srcOf, tgtOf] using h.symm
  | case2 a r1 al2 ih =>
    obtain ⟨i1, i2, i3, i4⟩ := ih (wf_cons.mp hw1).2 hw2 (by simpa [tgtOf] using h)
    refine ⟨wf_cons.mpr ⟨by simp, i1⟩, by simp [srcOf] at i2 ⊢; exact i2, i3, ?_⟩
    simp only [cost, List.map_cons, List.sum_cons] at i4 ⊢; omega
  | case3 r1 al2 ih => exact absurd rfl (wf_cons.mp hw1).1
  | case4 x b r1 => simp [srcOf, tgtOf] at h
  | case5 x b r1 c r2 ih =>
    obtain ⟨i1, i2, i3, i4⟩ := ih hw1 (wf_cons.mp hw2).2 (by simpa [srcOf] using h)
    refine ⟨wf_cons.mpr ⟨by simp, i1⟩, by simpa [srcOf] using i2, by simp [tgtOf] at i3 ⊢; exact i3, ?_⟩
    simp only [cost, List.map_cons, List.sum_cons] at i4 ⊢; omega
  | case6 x b r1 r2 ih => exact absurd rfl (wf_cons.mp hw2).1
  | case7 b r1 b' r2 ih =>
    obtain ⟨i1, i2, i3, i4⟩ := ih (wf_cons.mp hw1).2 (wf_cons.mp hw2).2 (by simp [srcOf, tgtOf] at h; exact h.2)
    refine ⟨i1, by simpa [srcOf] using i2, by simpa [tgtOf] using i3, ?_⟩
    simp only [cost, List.map_cons, List.sum_cons] at i4 ⊢; omega
  | case8 a b r1 b' r2 ih =>
    obtain ⟨i1, i2, i3, i4⟩ := ih (wf_cons.mp hw1).2 (wf_cons.mp hw2).2 (by simp [srcOf, tgtOf] at h; exact h.2)
    refine ⟨wf_cons.mpr ⟨by simp, i1⟩, by simp [srcOf] at i2 ⊢; exact i2, by simpa [tgtOf] using i3, ?_⟩
    simp only [cost, List.map_cons, List.sum_cons, stepCost, unit] at i4 ⊢; split <;> omega
  | case9 x b r1 b' c r2 ih =>
    simp [srcOf, tgtOf] at h
    obtain ⟨i1, i2, i3, i4⟩ := ih (wf_cons.mp hw1).2 (wf_cons.mp hw2).2 (by simpa [srcOf, tgtOf] using h.2)
    obtain ⟨hb, _⟩ := h
    subst hb
    refine ⟨wf_cons.mpr ⟨by simp, i1⟩, ?_, by simp [tgtOf] at i3 ⊢; exact i3, ?_⟩
    · cases x <;> simp [srcOf] at i2 ⊢ <;> exact i2
    · cases x with
      | none => simp only [cost, List.map_cons, List.sum_cons, stepCost, unit] at i4 ⊢; split <;> omega
      | some a =>
        simp only [cost, List.map_cons, List.sum_cons, stepCost, unit] at i4 ⊢
        by_cases h1 : a = b <;> by_cases h2 : b = c <;> by_cases h3 : a = c <;> simp_all <;> omega

end Lev
