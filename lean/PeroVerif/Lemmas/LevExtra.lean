/-
Helper lemmas for the C13 corollaries dist_self / dist_unit_eq_zero_iff / dist_unit_ge_length_diff.
-/
import PeroVerif.Spec.Lev
namespace Lev
variable {α : Type} [DecidableEq α]

/-- The identity alignment of a sequence with itself. -/
def idAl (s : List α) : Alignment α := s.map (fun a => (some a, some a))

theorem idAl_props (c : Costs) (s : List α) :
    WellFormed (idAl s) ∧ srcOf (idAl s) = s ∧ tgtOf (idAl s) = s ∧ cost c (idAl s) = 0 := by
  refine ⟨?_, ?_, ?_, ?_⟩
  · intro p hp; simp [idAl] at hp; obtain ⟨a, _, rfl⟩ := hp; simp
  · induction s with
    | nil => rfl
    | cons a s ih => simpa [idAl, srcOf] using ih
  · induction s with
    | nil => rfl
    | cons a s ih => simpa [idAl, tgtOf] using ih
  · induction s with
    | nil => rfl
    | cons a s ih => simpa [idAl, cost, stepCost] using ih

theorem zero_cost_eq (al : Alignment α) (hw : WellFormed al) (h : cost unit al = 0) :
    srcOf al = tgtOf al := by
  induction al with
  | nil => rfl
  | cons p al ih =>
    have hw' : WellFormed al := fun q hq => hw q (List.mem_cons_of_mem _ hq)
    have hp := hw p (List.mem_cons_self)
    simp only [cost, List.map_cons, List.sum_cons] at h
    have h1 : stepCost unit p = 0 := by omega
    have h2 : cost unit al = 0 := by simp only [cost]; omega
    have ih' := ih hw' h2
    rcases p with ⟨_ | a, _ | b⟩
    · exact absurd rfl hp
    · simp [stepCost, unit] at h1
    · simp [stepCost, unit] at h1
    · by_cases hab : a = b
      · subst hab; simp [srcOf, tgtOf] at ih' ⊢; exact ih'
      · simp [stepCost, unit, hab] at h1

theorem len_le_cost (al : Alignment α) :
    (srcOf al).length ≤ (tgtOf al).length + cost unit al ∧
    (tgtOf al).length ≤ (srcOf al).length + cost unit al := by
  induction al with
  | nil => simp [srcOf, tgtOf, cost]
  | cons p al ih =>
    rcases p with ⟨_ | a, _ | b⟩ <;>
      simp [srcOf, tgtOf, cost, stepCost, unit] at ih ⊢ <;> (try split) <;> omega

/-- Pair the sequences position by position; the longer one's tail is deleted / inserted. -/
def zipAl : List α → List α → Alignment α
  | [], t => t.map (fun b => (none, some b))
  | a :: s, [] => (a :: s).map (fun a => (some a, none))
  | a :: s, b :: t => (some a, some b) :: zipAl s t

theorem zipAl_props (s t : List α) :
    WellFormed (zipAl s t) ∧ srcOf (zipAl s t) = s ∧ tgtOf (zipAl s t) = t ∧
      cost unit (zipAl s t) ≤ max s.length t.length := by
  fun_induction zipAl s t with
  | case1 t =>
    refine ⟨?_, ?_, ?_, ?_⟩
    · intro p hp; simp at hp; obtain ⟨a, _, rfl⟩ := hp; simp
    · induction t with
      | nil => rfl
      | cons b t ih => simp [srcOf]
    · induction t with
      | nil => rfl
      | cons b t ih => simpa [tgtOf] using ih
    · induction t with
      | nil => simp [cost]
      | cons b t ih => simp [cost, stepCost, unit] at ih ⊢; omega
  | case2 a s =>
    refine ⟨?_, ?_, ?_, ?_⟩
    · intro p hp; simp at hp; rcases hp with rfl | ⟨x, _, rfl⟩ <;> simp
    · generalize a :: s = l
      induction l with
      | nil => rfl
      | cons b t ih => simpa [srcOf] using ih
    · generalize a :: s = l
      induction l with
      | nil => rfl
      | cons b t ih => simp [tgtOf]
    · generalize a :: s = l
      induction l with
      | nil => simp [cost]
      | cons b t ih => simp [cost, stepCost, unit] at ih ⊢; omega
  | case3 a s b t ih =>
    obtain ⟨hw, hs, ht, hc⟩ := ih
    refine ⟨?_, ?_, ?_, ?_⟩
    · intro p hp; simp at hp; rcases hp with rfl | hp
      · simp
      · exact hw p hp
    · simpa [srcOf] using hs
    · simpa [tgtOf] using ht
    · simp only [cost, List.map_cons, List.sum_cons, List.length_cons] at hc ⊢
      have : stepCost unit (some a, some b) ≤ 1 := by simp [stepCost, unit]; split <;> omega
      omega
end Lev
