-- helper lemmas for C09
import PeroVerif.Model.LogitsStore

namespace Py.Dict
variable {κ ν : Type} [DecidableEq κ]

@[simp] theorem get?_nil (k : κ) : get? ([] : Dict κ ν) k = none := rfl

theorem get?_cons (k' : κ) (v : ν) (r : Dict κ ν) (k : κ) :
    get? ((k', v) :: r) k = if k' = k then some v else get? r k := rfl

theorem get?_set_self (d : Dict κ ν) (k : κ) (v : ν) : get? (set d k v) k = some v := by
  induction d with
  | nil => simp [set, get?]
  | cons p r ih =>
    obtain ⟨k', v'⟩ := p
    by_cases h : k' = k
    · simp [set, get?, h]
    · simp [set, get?, h, ih]

theorem get?_set_ne (d : Dict κ ν) (k k' : κ) (v : ν) (h : k' ≠ k) :
    get? (set d k' v) k = get? d k := by
  induction d with
  | nil => simp [set, get?, h]
  | cons p r ih =>
    obtain ⟨k'', v''⟩ := p
    by_cases h2 : k'' = k'
    · subst h2; simp [set, get?, h]
    · simp only [set, h2, if_false, get?, ih]

theorem get?_set (d : Dict κ ν) (k k' : κ) (v : ν) :
    get? (set d k' v) k = if k' = k then some v else get? d k := by
  by_cases h : k' = k
  · subst h; simp [get?_set_self]
  · simp [h, get?_set_ne _ _ _ _ h]

/-- `get?` on a mapped dict whose keys are preserved -/
theorem get?_map_val {μ : Type} (d : Dict κ ν) (f : κ × ν → μ) (k : κ) :
    get? (d.map fun kv => (kv.1, f kv)) k = none ↔ get? d k = none := by
  induction d with
  | nil => simp [get?]
  | cons p r ih =>
    obtain ⟨k', v'⟩ := p
    by_cases h : k' = k <;> simp [get?, h, ih]

theorem get?_eq_none_iff (d : Dict κ ν) (k : κ) : get? d k = none ↔ k ∉ d.map (·.1) := by
  induction d with
  | nil => simp [get?]
  | cons p r ih =>
    obtain ⟨k', v'⟩ := p
    by_cases h : k' = k
    · simp [get?, h]
    · have h' : ¬ k = k' := fun e => h e.symm
      simp [get?, h, h', ih]

/-- later `set`s of other keys do not affect `get?` -/
theorem get?_foldl_set_not_mem (ps : List (κ × ν)) (acc : Dict κ ν) (k : κ)
    (h : k ∉ ps.map (·.1)) :
    get? (ps.foldl (fun d p => set d p.1 p.2) acc) k = get? acc k := by
  induction ps generalizing acc with
  | nil => rfl
  | cons p r ih =>
    simp only [List.map_cons, List.mem_cons, not_or] at h
    simp only [List.foldl_cons]
    rw [ih _ h.2, get?_set_ne _ _ _ _ (fun e => h.1 e.symm)]

/-- general form: the LAST pair with key `k` wins; otherwise the accumulator decides -/
theorem get?_foldl_set (ps : List (κ × ν)) (acc : Dict κ ν) (k : κ) :
    get? (ps.foldl (fun d p => set d p.1 p.2) acc) k =
      match ps.reverse.find? (fun p => p.1 = k) with
      | some p => some p.2
      | none => get? acc k := by
  induction ps generalizing acc with
  | nil => rfl
  | cons p r ih =>
    simp only [List.foldl_cons, List.reverse_cons, List.find?_append]
    rw [ih]
    cases hf : r.reverse.find? (fun p => p.1 = k) with
    | some q => simp
    | none =>
      by_cases hk : p.1 = k
      · simp [List.find?, hk, get?_set]
      · simp [List.find?, hk, get?_set]

theorem get?_foldl_set_mem_nodup (ps : List (κ × ν)) (acc : Dict κ ν) (k : κ) (v : ν)
    (hnd : (ps.map (·.1)).Nodup) (hm : (k, v) ∈ ps) :
    get? (ps.foldl (fun d p => set d p.1 p.2) acc) k = some v := by
  induction ps generalizing acc with
  | nil => cases hm
  | cons p r ih =>
    simp only [List.map_cons, List.nodup_cons] at hnd
    simp only [List.foldl_cons]
    rcases List.mem_cons.1 hm with e | hr
    · subst e
      rw [get?_foldl_set_not_mem _ _ _ hnd.1, get?_set_self]
    · exact ih _ hnd.2 hr

end Py.Dict

namespace LS
open Py
variable {L K C : Type}

theorem get?_fromPairs_not_mem {ν : Type} (ps : List (Nat × ν)) (k : Nat) (h : k ∉ ps.map (·.1)) :
    Dict.get? (fromPairs ps) k = none := by
  unfold fromPairs
  rw [Dict.get?_foldl_set_not_mem _ _ _ h]; rfl

theorem get?_fromPairs_mem_nodup {ν : Type} (ps : List (Nat × ν)) (k : Nat) (v : ν)
    (hnd : (ps.map (·.1)).Nodup) (hm : (k, v) ∈ ps) :
    Dict.get? (fromPairs ps) k = some v :=
  Dict.get?_foldl_set_mem_nodup _ _ _ _ hnd hm

/-- last-wins form (duplicates allowed) -/
theorem get?_fromPairs_last {ν : Type} (ps : List (Nat × ν)) (k : Nat) :
    Dict.get? (fromPairs ps) k = (ps.reverse.find? (fun p => p.1 = k)).map (·.2) := by
  unfold fromPairs
  rw [Dict.get?_foldl_set]
  cases ps.reverse.find? (fun p => p.1 = k) <;> simp

/-- `find?` form for Nodup keys (first = last = only) -/
theorem get?_fromPairs_find {ν : Type} (ps : List (Nat × ν)) (k : Nat)
    (hnd : (ps.map (·.1)).Nodup) :
    Dict.get? (fromPairs ps) k = (ps.find? (fun p => p.1 = k)).map (·.2) := by
  cases hf : ps.find? (fun p => p.1 = k) with
  | none =>
    rw [List.find?_eq_none] at hf
    rw [get?_fromPairs_not_mem]; · rfl
    intro hm
    obtain ⟨p, hp, e⟩ := List.mem_map.1 hm
    exact hf p hp (by simpa using e)
  | some p =>
    have hp := List.mem_of_find?_eq_some hf
    have hk : p.1 = k := by simpa using List.find?_some hf
    rw [get?_fromPairs_mem_nodup ps k p.2 hnd (by rw [← hk]; exact hp)]; rfl

/-! ### firstMissing -/

theorem firstMissing_cases (lines : List (Line L K C)) :
    firstMissing lines = none ∨ firstMissing lines = some .missingLogits ∨
      firstMissing lines = some .missingChars ∨ firstMissing lines = some .missingCoords := by
  induction lines with
  | nil => exact .inl rfl
  | cons l r ih =>
    unfold firstMissing
    split
    · exact .inr (.inl rfl)
    · split
      · exact .inr (.inr (.inl rfl))
      · split
        · exact .inr (.inr (.inr rfl))
        · exact ih

theorem firstMissing_eq_none_iff (lines : List (Line L K C)) :
    firstMissing lines = none ↔
      ∀ l ∈ lines, isNone l.logits = false ∧ l.chars.isSome ∧ l.coords.isSome := by
  induction lines with
  | nil => simp [firstMissing]
  | cons l r ih =>
    unfold firstMissing
    cases h1 : isNone l.logits <;> cases h2 : l.chars <;> cases h3 : l.coords <;>
      simp [h1, h2, h3, ih]

/-! ### the saved dict -/

theorem genLogits_ok_eq (flag : Bool) (lines : List (Line L K C)) (d : Dict Nat (Val L K C))
    (h : genLogits flag lines = .ok d) :
    d = Dict.set (Dict.set (fromPairs (lines.map fun l => (l.id, l.logits))) kChars
          (.charsD (fromPairs (lines.map fun l => (l.id, l.chars))))) kCoords
          (.coordsD (fromPairs (lines.map fun l => (l.id, l.coords)))) := by
  unfold genLogits at h
  split at h
  · cases h
  · simp only [Except.ok.injEq] at h; exact h.symm

theorem kCoords_ne_kChars : kCoords ≠ kChars := by decide

/-! ### mapM over `Except` -/

theorem mapM_ok_of_forall {α β ε : Type} (f : α → Except ε β) (g : α → β) (xs : List α)
    (h : ∀ x ∈ xs, f x = .ok (g x)) : xs.mapM f = .ok (xs.map g) := by
  induction xs with
  | nil => rfl
  | cons x r ih =>
    rw [List.mapM_cons, h x (List.mem_cons_self ..), ih (fun y hy => h y (List.mem_cons_of_mem _ hy))]
    rfl

/-! ### loading a saved dict -/

/-- what loading does to one target line: take the source line with the same id, if any -/
def restore (src : List (Line L K C)) (l : Line L K C) : Line L K C :=
  match src.find? (fun s => s.id = l.id) with
  | some s => s
  | none => l

theorem map_fst_pairs {ν : Type} (f : Line L K C → ν) (lines : List (Line L K C)) :
    (lines.map fun l => (l.id, f l)).map (·.1) = lines.map (·.id) := by
  simp [List.map_map, Function.comp_def]

theorem get?_pairs_mem {ν : Type} (f : Line L K C → ν) (src : List (Line L K C))
    (hnd : (src.map (·.id)).Nodup) (s : Line L K C) (hs : s ∈ src) :
    Dict.get? (fromPairs (src.map fun l => (l.id, f l))) s.id = some (f s) := by
  apply get?_fromPairs_mem_nodup
  · rw [map_fst_pairs]; exact hnd
  · exact List.mem_map.2 ⟨s, hs, rfl⟩

theorem get?_pairs_not_mem {ν : Type} (f : Line L K C → ν) (src : List (Line L K C))
    (k : Nat) (hk : k ∉ src.map (·.id)) :
    Dict.get? (fromPairs (src.map fun l => (l.id, f l))) k = none := by
  apply get?_fromPairs_not_mem
  rw [map_fst_pairs]; exact hk

theorem loadLine_saved (src : List (Line L K C)) (hnd : (src.map (·.id)).Nodup)
    (d : Dict Nat (Val L K C))
    (hd : ∀ k, k ≠ kChars → k ≠ kCoords →
      Dict.get? d k = Dict.get? (fromPairs (src.map fun l => (l.id, l.logits))) k)
    (l : Line L K C) (hl : l.id ≠ kChars ∧ l.id ≠ kCoords) :
    loadLine d (fromPairs (src.map fun l => (l.id, l.chars)))
      (fromPairs (src.map fun l => (l.id, l.coords))) l = .ok (restore src l) := by
  unfold loadLine restore
  rw [hd _ hl.1 hl.2]
  cases hf : src.find? (fun s => s.id = l.id) with
  | none =>
    rw [List.find?_eq_none] at hf
    rw [get?_pairs_not_mem]
    intro hm
    obtain ⟨s, hs, e⟩ := List.mem_map.1 hm
    exact hf s hs (by simpa using e)
  | some s =>
    have hs := List.mem_of_find?_eq_some hf
    have hk : s.id = l.id := by simpa using List.find?_some hf
    rw [← hk, get?_pairs_mem _ src hnd s hs, get?_pairs_mem _ src hnd s hs,
      get?_pairs_mem _ src hnd s hs]

theorem load_saved (flag : Bool) (legacy : Option C) (src dst : List (Line L K C))
    (d : Dict Nat (Val L K C)) (hnd : (src.map (·.id)).Nodup)
    (hs : genLogits flag src = .ok d)
    (hdst : ∀ l ∈ dst, l.id ≠ kChars ∧ l.id ≠ kCoords) :
    load legacy d dst = .ok (dst.map (restore src)) := by
  have hd := genLogits_ok_eq flag src d hs
  have h1 : Dict.get? d kChars = some (.charsD (fromPairs (src.map fun l => (l.id, l.chars)))) := by
    rw [hd, Dict.get?_set_ne _ _ _ _ kCoords_ne_kChars, Dict.get?_set_self]
  have h2 : Dict.get? d kCoords = some (.coordsD (fromPairs (src.map fun l => (l.id, l.coords)))) := by
    rw [hd, Dict.get?_set_self]
  have h3 : ∀ k, k ≠ kChars → k ≠ kCoords →
      Dict.get? d k = Dict.get? (fromPairs (src.map fun l => (l.id, l.logits))) k := by
    intro k hk1 hk2
    rw [hd, Dict.get?_set_ne _ _ _ _ (fun e => hk2 e.symm), Dict.get?_set_ne _ _ _ _ (fun e => hk1 e.symm)]
  unfold load
  simp only [h1, h2]
  exact mapM_ok_of_forall _ _ _ (fun l hl => loadLine_saved src hnd d h3 l (hdst l hl))

theorem eq_of_nodup_map {α β : Type} (f : α → β) (xs : List α) (hnd : (xs.map f).Nodup)
    (a b : α) (ha : a ∈ xs) (hb : b ∈ xs) (h : f a = f b) : a = b := by
  induction xs with
  | nil => cases ha
  | cons x r ih =>
    simp only [List.map_cons, List.nodup_cons, List.mem_map, not_exists, not_and] at hnd
    rcases List.mem_cons.1 ha with rfl | ha' <;> rcases List.mem_cons.1 hb with rfl | hb'
    · rfl
    · exact absurd h.symm (hnd.1 b hb')
    · exact absurd h (hnd.1 a ha')
    · exact ih hnd.2 ha' hb'

theorem restore_of_mem (src : List (Line L K C)) (hnd : (src.map (·.id)).Nodup)
    (l s : Line L K C) (hs : s ∈ src) (hid : s.id = l.id) : restore src l = s := by
  unfold restore
  cases hf : src.find? (fun s => s.id = l.id) with
  | none =>
    rw [List.find?_eq_none] at hf
    exact absurd (by simpa using hid) (hf s hs)
  | some s' =>
    have hs' := List.mem_of_find?_eq_some hf
    have hk : s'.id = l.id := by simpa using List.find?_some hf
    simp only
    exact eq_of_nodup_map _ src hnd s' s hs' hs (hk.trans hid.symm)

theorem restore_of_not_mem (src : List (Line L K C)) (l : Line L K C)
    (h : ∀ s ∈ src, s.id ≠ l.id) : restore src l = l := by
  unfold restore
  have : src.find? (fun s => s.id = l.id) = none := by
    rw [List.find?_eq_none]; intro s hs; simpa using h s hs
  rw [this]

theorem map_restore_eq (src dst : List (Line L K C)) (hnd : (src.map (·.id)).Nodup)
    (hids : dst.map (·.id) = src.map (·.id)) : dst.map (restore src) = src := by
  apply List.ext_getElem
  · simpa using congrArg List.length hids
  · intro i h1 h2
    simp only [List.getElem_map]
    have hlen : i < dst.length := by simpa using h1
    apply restore_of_mem src hnd _ _ (List.getElem_mem h2)
    have := congrArg (fun (xs : List Nat) => xs[i]?) hids
    simp [List.getElem?_map, List.getElem?_eq_getElem hlen, List.getElem?_eq_getElem h2] at this
    exact this.symm

end LS
