-- helper lemmas for C12
import PeroVerif.Model.SmartSort

namespace SS

/-! ### generic list facts -/

theorem perm_flatMap_congr {α β : Type} {l : List α} {f g : α → List β}
    (h : ∀ a ∈ l, (f a).Perm (g a)) : (l.flatMap f).Perm (l.flatMap g) := by
  induction l with
  | nil => simp
  | cons a l ih =>
    simp only [List.flatMap_cons]
    exact List.Perm.append (h a (by simp)) (ih fun b hb => h b (by simp [hb]))

theorem sortBy_perm {α : Type} (key : α → Int) (l : List α) : (sortBy key l).Perm l :=
  List.mergeSort_perm _ _

/-- `mapM` over `Option` succeeds when every call does; results are tagged with their argument. -/
theorem mapM_option_pair {α γ : Type} (Q : α → γ → Prop) (f : α → Option (α × γ)) (l : List α)
    (h : ∀ a ∈ l, ∃ o, f a = some (a, o) ∧ Q a o) :
    ∃ res, l.mapM f = some res ∧ res.map (·.1) = l ∧ ∀ p ∈ res, Q p.1 p.2 := by
  induction l with
  | nil => exact ⟨[], rfl, rfl, by simp⟩
  | cons a l ih =>
    obtain ⟨b, hb, hP⟩ := h a (by simp)
    obtain ⟨bs, hbs, hm, hF⟩ := ih fun x hx => h x (by simp [hx])
    refine ⟨(a, b) :: bs, ?_, by simp [hm], ?_⟩
    · simp [List.mapM_cons, hb, hbs]
    · intro p hp
      simp only [List.mem_cons] at hp
      rcases hp with rfl | hp
      · exact hP
      · exact hF p hp

theorem mapM_option_congr {α β : Type} (f g : α → Option β) (l : List α)
    (h : ∀ a ∈ l, f a = g a) : l.mapM f = l.mapM g := by
  induction l with
  | nil => rfl
  | cons a l ih =>
    simp only [List.mapM_cons]
    rw [h a (by simp), ih fun x hx => h x (by simp [hx])]

/-! ### pickFirst / grow / couple -/

theorem pickFirst_perm (num den : Nat) (vertical : Bool) (g : Group) :
    ∀ (non : List Box) (x : Box) (rest : List Box),
      pickFirst num den vertical g non = some (x, rest) → (x :: rest).Perm non := by
  intro non
  induction non with
  | nil => intro x rest h; simp [pickFirst] at h
  | cons y ys ih =>
    intro x rest h
    simp only [pickFirst] at h
    split at h
    · simp only [Option.some.injEq, Prod.mk.injEq] at h
      obtain ⟨rfl, rfl⟩ := h
      exact List.Perm.refl _
    · cases hp : pickFirst num den vertical g ys with
      | none => simp [hp] at h
      | some p =>
        obtain ⟨z, r⟩ := p
        simp only [hp, Option.map_some, Option.some.injEq, Prod.mk.injEq] at h
        obtain ⟨rfl, rfl⟩ := h
        exact (List.Perm.swap y z r).trans ((ih z r hp).cons y)

theorem grow_inv (num den : Nat) (vertical : Bool) :
    ∀ (fuel : Nat) (g : Group) (non : List Box),
      ((grow num den vertical fuel g non).1.members ++ (grow num den vertical fuel g non).2).Perm
        (g.members ++ non) ∧
      (g.members ≠ [] → (grow num den vertical fuel g non).1.members ≠ []) := by
  intro fuel
  induction fuel with
  | zero => intro g non; simp [grow]
  | succ fuel ih =>
    intro g non
    simp only [grow]
    cases hp : pickFirst num den vertical g non with
    | none => simp
    | some p =>
      obtain ⟨x, rest⟩ := p
      simp only
      have hperm := pickFirst_perm num den vertical g non x rest hp
      obtain ⟨h1, h2⟩ := ih ⟨g.members ++ [x], g.bbox.addBox x⟩ rest
      refine ⟨?_, fun _ => h2 (by simp)⟩
      refine h1.trans ?_
      simp only [List.append_assoc, List.singleton_append]
      exact List.Perm.append_left _ hperm

theorem grow_rest_length (num den : Nat) (vertical : Bool) (fuel : Nat) (g : Group) (non : List Box) :
    (grow num den vertical fuel g non).2.length ≤ non.length := by
  induction fuel generalizing g non with
  | zero => simp [grow]
  | succ fuel ih =>
    simp only [grow]
    cases hp : pickFirst num den vertical g non with
    | none => simp
    | some p =>
      obtain ⟨x, rest⟩ := p
      simp only
      have hperm := (pickFirst_perm num den vertical g non x rest hp).length_eq
      have := ih ⟨g.members ++ [x], g.bbox.addBox x⟩ rest
      simp only [List.length_cons] at hperm
      omega

theorem couple_cons (num den : Nat) (vertical : Bool) (fuel : Nat) (x : Box) (non : List Box) :
    couple num den vertical (fuel + 1) (x :: non) =
      (grow num den vertical (non.length + 1) ⟨[x], BBox.init.addBox x⟩ non).1 ::
        couple num den vertical fuel
          (grow num den vertical (non.length + 1) ⟨[x], BBox.init.addBox x⟩ non).2 := rfl

theorem couple_partition_gen (num den : Nat) (vertical : Bool) :
    ∀ (fuel : Nat) (bs : List Box), bs.length ≤ fuel →
      ((couple num den vertical fuel bs).flatMap (·.members)).Perm bs ∧
      ∀ g ∈ couple num den vertical fuel bs, g.members ≠ [] := by
  intro fuel
  induction fuel with
  | zero =>
    intro bs h
    have : bs = [] := List.length_eq_zero_iff.mp (by omega)
    subst this
    simp [couple]
  | succ fuel ih =>
    intro bs h
    cases bs with
    | nil => simp [couple]
    | cons x non =>
      rw [couple_cons]
      have hg := grow_inv num den vertical (non.length + 1) ⟨[x], BBox.init.addBox x⟩ non
      have hl := grow_rest_length num den vertical (non.length + 1) ⟨[x], BBox.init.addBox x⟩ non
      generalize grow num den vertical (non.length + 1) ⟨[x], BBox.init.addBox x⟩ non = gr at hg hl
      obtain ⟨g, rest⟩ := gr
      simp only at hg hl ⊢
      simp only [List.length_cons] at h
      obtain ⟨ih1, ih2⟩ := ih rest (by omega)
      refine ⟨?_, ?_⟩
      · simp only [List.flatMap_cons]
        exact (List.Perm.append_left _ ih1).trans (by simpa using hg.1)
      · intro g' hg'
        simp only [List.mem_cons] at hg'
        rcases hg' with rfl | hg'
        · exact hg.2 (by simp)
        · exact ih2 g' hg'

/-! ### decoupleOrder / divide -/

theorem decoupleOrder_perm (bs : List Box) : (decoupleOrder bs).Perm bs := by
  unfold decoupleOrder
  simp only
  split <;> exact sortBy_perm _ _

/-- the groups `divide` recurses into (after the "did not split" replacement) -/
def divGroups (num den : Nat) (bs : List Box) (vertical hasParent : Bool) : List Group :=
  let groups := couple num den vertical bs.length bs
  if groups.length = 1 ∧ hasParent then
    (decoupleOrder ((groups.head?.map (·.members)).getD [])).map fun x => (⟨[x], BBox.init.addBox x⟩ : Group)
  else groups

/-- one recursive call of `divide` -/
def divStep (num den fuel : Nat) (vertical : Bool) (g : Group) : Option (Group × List Box) :=
  (if g.members.length > 1 then divide num den fuel g.members (!vertical) true else some g.members).map
    fun o => (g, o)

def divKey (vertical : Bool) (p : Group × List Box) : Int :=
  if vertical then p.1.bbox.xmin else p.1.bbox.ymin

theorem divide_succ (num den fuel : Nat) (bs : List Box) (vertical hasParent : Bool) :
    divide num den (fuel + 1) bs vertical hasParent =
      if bs.length ≤ 1 then some bs else
      match (divGroups num den bs vertical hasParent).mapM (divStep num den fuel vertical) with
      | none => none
      | some res => some ((sortBy (divKey vertical) res).flatMap (·.2)) := rfl

theorem length_lt_flatMap_of_mem {gs : List Group} (hne : ∀ g ∈ gs, g.members ≠ []) {g : Group}
    (hg : g ∈ gs) :
    g.members.length ≤ (gs.flatMap (·.members)).length ∧
    (2 ≤ gs.length → g.members.length < (gs.flatMap (·.members)).length) := by
  obtain ⟨l1, l2, rfl⟩ := List.append_of_mem hg
  simp only [List.flatMap_append, List.flatMap_cons, List.length_append, List.length_cons]
  refine ⟨by omega, fun h2 => ?_⟩
  have hpos : ∀ (l : List Group), (∀ g ∈ l, g.members ≠ []) → l ≠ [] →
      0 < (l.flatMap (·.members)).length := by
    intro l hl hn
    cases l with
    | nil => exact absurd rfl hn
    | cons a t =>
      have := hl a (by simp)
      have : 0 < a.members.length := List.length_pos_iff.mpr this
      simp only [List.flatMap_cons, List.length_append]
      omega
  by_cases h1 : l1 = []
  · subst h1
    have : l2 ≠ [] := by
      intro h; subst h; simp at h2
    have := hpos l2 (fun g hg => hne g (by simp [hg])) this
    omega
  · have := hpos l1 (fun g hg => hne g (by simp [hg])) h1
    omega

theorem divGroups_spec (num den : Nat) (bs : List Box) (vertical hasParent : Bool) :
    ((divGroups num den bs vertical hasParent).flatMap (·.members)).Perm bs ∧
    ∀ g ∈ divGroups num den bs vertical hasParent, 1 < g.members.length →
      g.members.length + (if hasParent then 1 else 0) ≤ bs.length := by
  obtain ⟨hperm, hne⟩ := couple_partition_gen num den vertical bs.length bs (Nat.le_refl _)
  unfold divGroups
  simp only
  generalize couple num den vertical bs.length bs = groups at hperm hne
  have hlen := hperm.length_eq
  split
  · rename_i hc
    obtain ⟨h1, hp⟩ := hc
    match groups, h1 with
    | [g], _ =>
      simp only [List.head?_cons, Option.map_some, Option.getD_some]
      refine ⟨?_, ?_⟩
      · rw [List.flatMap_map]
        simp only [List.flatMap_singleton']
        refine (decoupleOrder_perm _).trans ?_
        simpa using hperm
      · intro g' hg'
        simp only [List.mem_map] at hg'
        obtain ⟨x, _, rfl⟩ := hg'
        simp
  · rename_i hc
    refine ⟨hperm, ?_⟩
    intro g hg hg1
    obtain ⟨hle, hlt⟩ := length_lt_flatMap_of_mem hne hg
    cases hasParent with
    | false => simp only [Bool.false_eq_true, if_false]; omega
    | true =>
      simp only [if_true]
      have h2 : 2 ≤ groups.length := by
        have : groups.length ≠ 1 := fun h => hc ⟨h, rfl⟩
        have : groups.length ≠ 0 := by
          intro h
          have := List.length_eq_zero_iff.mp h
          subst this
          simp at hg
        omega
      have := hlt h2
      omega

theorem divide_total (num den : Nat) :
    ∀ (fuel : Nat) (bs : List Box) (vertical hasParent : Bool),
      bs.length + (if hasParent then 1 else 2) ≤ fuel →
      ∃ out, divide num den fuel bs vertical hasParent = some out ∧ out.Perm bs := by
  intro fuel
  induction fuel with
  | zero =>
    intro bs v hp h
    cases hp <;> simp at h
  | succ fuel ih =>
    intro bs v hp h
    rw [divide_succ]
    by_cases hs : bs.length ≤ 1
    · exact ⟨bs, by simp [hs], List.Perm.refl _⟩
    · simp only [hs, if_false]
      obtain ⟨hperm, hsz⟩ := divGroups_spec num den bs v hp
      have hall : ∀ g ∈ divGroups num den bs v hp,
          ∃ o, divStep num den fuel v g = some (g, o) ∧ o.Perm g.members := by
        intro g hg
        unfold divStep
        by_cases h1 : g.members.length > 1
        · have hb := hsz g hg h1
          obtain ⟨o, ho, hop⟩ := ih g.members (!v) true (by
            simp only [if_true]
            cases hp <;> simp at h hb <;> omega)
          exact ⟨o, by simp [h1, ho], hop⟩
        · exact ⟨g.members, by simp [h1], List.Perm.refl _⟩
      obtain ⟨res, hres, hmap, hQ⟩ :=
        mapM_option_pair (fun (g : Group) (o : List Box) => o.Perm g.members) _ _ hall
      rw [hres]
      refine ⟨_, rfl, ?_⟩
      refine ((sortBy_perm _ res).flatMap_right _).trans ?_
      refine (perm_flatMap_congr (g := fun p => p.1.members) fun p hp => hQ p hp).trans ?_
      have : res.flatMap (fun p => p.1.members) = (res.map (·.1)).flatMap (·.members) := by
        rw [List.flatMap_map]
      rw [this, hmap]
      exact hperm

theorem divide_fuel_gen (num den : Nat) :
    ∀ (f₁ f₂ : Nat) (bs : List Box) (vertical hasParent : Bool),
      bs.length + (if hasParent then 1 else 2) ≤ f₁ →
      bs.length + (if hasParent then 1 else 2) ≤ f₂ →
      divide num den f₁ bs vertical hasParent = divide num den f₂ bs vertical hasParent := by
  intro f₁
  induction f₁ with
  | zero =>
    intro f₂ bs v hp h
    cases hp <;> simp at h
  | succ f₁ ih =>
    intro f₂ bs v hp h1 h2
    cases f₂ with
    | zero => cases hp <;> simp at h2
    | succ f₂ =>
      rw [divide_succ, divide_succ]
      by_cases hs : bs.length ≤ 1
      · simp [hs]
      · simp only [hs, if_false]
        obtain ⟨_, hsz⟩ := divGroups_spec num den bs v hp
        have : (divGroups num den bs v hp).mapM (divStep num den f₁ v) =
            (divGroups num den bs v hp).mapM (divStep num den f₂ v) := by
          apply mapM_option_congr
          intro g hg
          unfold divStep
          by_cases hg1 : g.members.length > 1
          · have hb := hsz g hg hg1
            simp only [hg1, if_true]
            rw [ih f₂ g.members (!v) true
              (by simp only [if_true]; cases hp <;> simp at h1 hb <;> omega)
              (by simp only [if_true]; cases hp <;> simp at h2 hb <;> omega)]
          · simp [hg1]
        rw [this]

/-! ### naive sorter -/

theorem nodup_eraseDups : ∀ (n : Nat) (l : List Nat), l.length ≤ n → l.eraseDups.Nodup := by
  intro n
  induction n with
  | zero =>
    intro l h
    have : l = [] := List.length_eq_zero_iff.mp (by omega)
    subst this
    simp
  | succ n ih =>
    intro l h
    cases l with
    | nil => simp
    | cons a as =>
      rw [List.eraseDups_cons, List.nodup_cons]
      refine ⟨?_, ih _ ?_⟩
      · rw [List.mem_eraseDups]
        simp
      · have := List.length_filter_le (fun b => !b == a) as
        simp only [List.length_cons] at h
        omega

theorem mem_uniq {labels : List Nat} {c : Nat} : c ∈ uniq labels ↔ c ∈ labels := by
  unfold uniq
  rw [List.mem_eraseDups, List.mem_mergeSort]

theorem nodup_uniq (labels : List Nat) : (uniq labels).Nodup :=
  nodup_eraseDups _ _ (Nat.le_refl _)

/-- the fibres of `f` over a duplicate-free list of values covering `f '' l` partition `l` -/
theorem flatMap_filter_perm {α : Type} (f : α → Nat) :
    ∀ (cs : List Nat) (l : List α), cs.Nodup → (∀ x ∈ l, f x ∈ cs) →
      (cs.flatMap fun c => l.filter fun x => f x = c).Perm l := by
  intro cs
  induction cs with
  | nil =>
    intro l _ h
    cases l with
    | nil => simp
    | cons x t => exact absurd (h x (by simp)) (by simp)
  | cons c cs ih =>
    intro l hnd h
    rw [List.nodup_cons] at hnd
    obtain ⟨hc, hnd⟩ := hnd
    simp only [List.flatMap_cons]
    refine List.Perm.trans ?_ (List.filter_append_perm (fun x => f x = c) l)
    refine List.Perm.append_left _ ?_
    have h' : ∀ x ∈ l.filter (fun x => !decide (f x = c)), f x ∈ cs := by
      intro x hx
      simp only [List.mem_filter, Bool.not_eq_true', decide_eq_false_iff_not] at hx
      have := h x hx.1
      simp only [List.mem_cons] at this
      rcases this with e | e
      · exact absurd e hx.2
      · exact e
    refine List.Perm.trans ?_ (ih _ hnd h')
    apply perm_flatMap_congr
    intro c' hc'
    refine List.Perm.of_eq ?_
    rw [List.filter_filter]
    apply List.filter_congr
    intro x _
    have hne : c' ≠ c := fun e => hc (e ▸ hc')
    by_cases e : f x = c'
    · simp [e, hne]
    · simp [e]

theorem naive_perm (keys : List Int) (labels : List Nat)
    (hlab : ∀ c ∈ labels, c < (uniq labels).length) :
    ∃ o, naiveOrder keys labels = some o ∧ o.Perm (List.range labels.length) := by
  unfold naiveOrder
  simp only
  have hall : ∀ c ∈ uniq labels,
      ∃ o, (((uniq labels).map (firstIdx labels))[c]?.map fun i => (c, keys.getD i 0)) = some (c, o) ∧ True := by
    intro c hc
    have hlt : c < ((uniq labels).map (firstIdx labels)).length := by
      rw [List.length_map]; exact hlab c (mem_uniq.mp hc)
    rw [List.getElem?_eq_getElem hlt]
    exact ⟨_, rfl, trivial⟩
  obtain ⟨cks, hcks, hmap, _⟩ := mapM_option_pair (fun (_ : Nat) (_ : Int) => True) _ _ hall
  rw [hcks]
  refine ⟨_, rfl, ?_⟩
  have hp : ((sortBy (·.2) cks).map (·.1)).Perm (uniq labels) := by
    rw [← hmap]
    exact (sortBy_perm _ cks).map _
  refine (hp.flatMap_right _).trans ?_
  refine (perm_flatMap_congr (g := fun c => (List.range labels.length).filter fun i => labels.getD i 0 = c)
    fun c _ => sortBy_perm _ _).trans ?_
  apply flatMap_filter_perm (fun i => labels.getD i 0) _ _ (nodup_uniq labels)
  intro i hi
  rw [List.mem_range] at hi
  rw [mem_uniq, List.getD_eq_getElem?_getD, List.getElem?_eq_getElem hi]
  simp

end SS
