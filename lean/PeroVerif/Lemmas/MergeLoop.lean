/-
Helper lemmas for the merge loop model (C11).  Statements used by Props/C11.lean.
-/
import PeroVerif.Model.MergeLoop
import PeroVerif.Model.Assign
import PeroVerif.Lemmas.Assign
import Batteries.Data.List.Perm

namespace MergeLoop
open Asg

/-! ### auxiliary lemmas: the grouping pass -/

/-- membership in `merged` after one inner step -/
theorem innerStep_mem (c : Nat → Nat → Bool) (i j : Nat) (st : GState) (x : Nat)
    (hx : x ∈ (innerStep c i st j).2) : x ∈ st.2 ∨ (i ≠ j ∧ c i j = true ∧ (x = i ∨ x = j)) := by
  unfold innerStep at hx
  split at hx
  · rename_i hc
    split at hx <;> (simp only [] at hx; split at hx) <;> (try simp at hx) <;> grind
  · exact Or.inl hx

/-- invariant of the inner fold: `merged = pre ++ group`, no duplicates -/
def GInv (pre : List Nat) (st : GState) : Prop := st.2 = pre ++ st.1 ∧ st.2.Nodup

theorem innerStep_inv (c : Nat → Nat → Bool) (i j : Nat) (pre : List Nat) (st : GState) (h : GInv pre st) :
    GInv pre (innerStep c i st j) := by
  obtain ⟨g, m⟩ := st
  obtain ⟨h1, h2⟩ := h
  simp only at h1 h2
  subst h1
  unfold innerStep GInv
  split
  · split <;> (simp only []; split) <;> simp_all [List.nodup_append] <;> grind
  · exact ⟨rfl, h2⟩

theorem inner_fold_inv (c : Nat → Nat → Bool) (i : Nat) (pre : List Nat) (js : List Nat) (st : GState)
    (h : GInv pre st) : GInv pre (js.foldl (innerStep c i) st) := by
  induction js generalizing st with
  | nil => exact h
  | cons j js ih => exact ih _ (innerStep_inv c i j pre st h)

theorem inner_fold_mem (c : Nat → Nat → Bool) (i : Nat) (js : List Nat) (st : GState) (x : Nat)
    (hx : x ∈ (js.foldl (innerStep c i) st).2) :
    x ∈ st.2 ∨ ∃ j ∈ js, i ≠ j ∧ c i j = true ∧ (x = i ∨ x = j) := by
  induction js generalizing st with
  | nil => exact Or.inl hx
  | cons j js ih =>
    rcases ih _ hx with h | ⟨j', hj', h⟩
    · rcases innerStep_mem c i j st x h with h | h
      · exact Or.inl h
      · exact Or.inr ⟨j, by simp, h⟩
    · exact Or.inr ⟨j', by simp [hj'], h⟩

theorem outerStep_inv (c : Nat → Nat → Bool) (n : Nat) (merged : List Nat) (i : Nat) (hm : merged.Nodup) :
    (outerStep c n merged i).2 = merged ++ (outerStep c n merged i).1 ∧ (outerStep c n merged i).2.Nodup :=
  inner_fold_inv c i merged (List.range n) ([], merged) ⟨by simp, hm⟩

theorem outerStep_mem (c : Nat → Nat → Bool) (n : Nat) (merged : List Nat) (i x : Nat)
    (hx : x ∈ (outerStep c n merged i).2) :
    x ∈ merged ∨ ∃ j, j < n ∧ i ≠ j ∧ c i j = true ∧ (x = i ∨ x = j) := by
  rcases inner_fold_mem c i (List.range n) ([], merged) x hx with h | ⟨j, hj, h⟩
  · exact Or.inl h
  · exact Or.inr ⟨j, List.mem_range.mp hj, h⟩

/-- the outer fold of `grouping`, over an arbitrary list of indices -/
def gfold (c : Nat → Nat → Bool) (n : Nat) (is : List Nat) (acc : List (List Nat) × List Nat) :
    List (List Nat) × List Nat :=
  is.foldl (fun (acc : List (List Nat) × List Nat) i =>
    let r := outerStep c n acc.2 i
    (acc.1 ++ [r.1], r.2)) acc

theorem grouping_eq (c : Nat → Nat → Bool) (n : Nat) : grouping c n = gfold c n (List.range n) ([], []) := rfl

theorem gfold_inv (c : Nat → Nat → Bool) (n : Nat) (is : List Nat) (acc : List (List Nat) × List Nat)
    (h1 : acc.1.flatten = acc.2) (h2 : acc.2.Nodup) :
    (gfold c n is acc).1.flatten = (gfold c n is acc).2 ∧ (gfold c n is acc).2.Nodup ∧
    (gfold c n is acc).1.length = acc.1.length + is.length := by
  induction is generalizing acc with
  | nil => exact ⟨h1, h2, rfl⟩
  | cons i is ih =>
    obtain ⟨e, nd⟩ := outerStep_inv c n acc.2 i h2
    have := ih (acc.1 ++ [(outerStep c n acc.2 i).1], (outerStep c n acc.2 i).2)
      (by simp [h1, e]) nd
    simp only [gfold, List.foldl_cons] at this ⊢
    refine ⟨this.1, this.2.1, ?_⟩
    rw [this.2.2]; simp; omega

/-- every member of `merged` is one end of a compatible pair of distinct indices `< n` -/
theorem gfold_mem (c : Nat → Nat → Bool) (n : Nat) (is : List Nat) (acc : List (List Nat) × List Nat) (x : Nat)
    (hx : x ∈ (gfold c n is acc).2) :
    x ∈ acc.2 ∨ ∃ i ∈ is, ∃ j, j < n ∧ i ≠ j ∧ c i j = true ∧ (x = i ∨ x = j) := by
  induction is generalizing acc with
  | nil => exact Or.inl hx
  | cons i is ih =>
    simp only [gfold, List.foldl_cons] at hx
    rcases ih _ hx with h | ⟨i', hi', h⟩
    · rcases outerStep_mem c n acc.2 i x h with h | h
      · exact Or.inl h
      · exact Or.inr ⟨i, by simp, h⟩
    · exact Or.inr ⟨i', by simp [hi'], h⟩

theorem grouping_mem (c : Nat → Nat → Bool) (n : Nat) (x : Nat) (hx : x ∈ (grouping c n).2) :
    ∃ i, i < n ∧ ∃ j, j < n ∧ i ≠ j ∧ c i j = true ∧ (x = i ∨ x = j) := by
  rw [grouping_eq] at hx
  rcases gfold_mem c n _ _ x hx with h | ⟨i, hi, h⟩
  · simp at h
  · exact ⟨i, List.mem_range.mp hi, h⟩

/-! ### auxiliary lemmas: counting -/

theorem nonempty_groups_le (gs : List (List Nat)) :
    (gs.filter fun grp => !grp.isEmpty).length ≤ gs.flatten.length := by
  induction gs with
  | nil => simp
  | cons g gs ih =>
    cases g with
    | nil => simpa using ih
    | cons a g => simp at ih ⊢; omega

theorem untouched_add_merged_le (n : Nat) (m : List Nat) (hnd : m.Nodup) (hlt : ∀ i ∈ m, i < n) :
    ((List.range n).filter fun i => !m.contains i).length + m.length ≤ n := by
  have hnd' : (((List.range n).filter fun i => !m.contains i) ++ m).Nodup := by
    rw [List.nodup_append]
    refine ⟨List.nodup_range.filter _, hnd, ?_⟩
    intro a ha b hb hab
    subst hab
    simp at ha
    exact ha.2 hb
  have hsub : (((List.range n).filter fun i => !m.contains i) ++ m) ⊆ List.range n := by
    intro a ha
    rw [List.mem_append] at ha
    rcases ha with ha | ha
    · exact (List.mem_filter.mp ha).1
    · exact List.mem_range.mpr (hlt a ha)
  have := (List.subperm_of_subset hnd' hsub).length_le
  simpa using this

theorem grouping_partition (c : Nat → Nat → Bool) (n : Nat) :
    (grouping c n).1.flatten = (grouping c n).2 ∧ (grouping c n).2.Nodup ∧ (∀ i ∈ (grouping c n).2, i < n) ∧
    (grouping c n).1.length = n := by
  have h := gfold_inv c n (List.range n) ([], []) rfl List.nodup_nil
  rw [← grouping_eq] at h
  refine ⟨h.1, h.2.1, ?_, by simpa using h.2.2⟩
  intro x hx
  obtain ⟨i, hi, j, hj, -, -, h | h⟩ := grouping_mem c n x hx <;> omega

theorem mergedCount_le (c : Nat → Nat → Bool) (n : Nat) : mergedCount c n ≤ n := by
  obtain ⟨h1, h2, h3, -⟩ := grouping_partition c n
  unfold mergedCount
  simp only
  have a := nonempty_groups_le (grouping c n).1
  rw [h1] at a
  have b := untouched_add_merged_le n (grouping c n).2 h2 h3
  omega

theorem mergeLines_length_le (ls : List Ln) : (mergeLines ls).length ≤ ls.length := by
  have := mergedCount_le (fun i j => compat (ls.getD i default) (ls.getD j default)) ls.length
  unfold mergedCount at this
  unfold mergeLines
  simpa using this

theorem mergeLines_keeps_isolated (ls : List Ln) (i : Nat) (hi : i < ls.length)
    (hiso : ∀ j, j < ls.length → j ≠ i → compat (ls.getD i default) (ls.getD j default) = false ∧
      compat (ls.getD j default) (ls.getD i default) = false) :
    ls.getD i default ∈ mergeLines ls := by
  unfold mergeLines
  simp only
  apply List.mem_append_left
  apply List.mem_map.mpr
  refine ⟨i, ?_, rfl⟩
  rw [List.mem_filter]
  refine ⟨List.mem_range.mpr hi, ?_⟩
  simp only [Bool.not_eq_true', List.contains_eq_mem, decide_eq_false_iff_not]
  intro hmem
  obtain ⟨a, ha, b, hb, hab, hc, h | h⟩ := grouping_mem _ _ i hmem
  · subst h
    have hc' : compat (ls.getD i default) (ls.getD b default) = true := hc
    rw [(hiso b hb (Ne.symm hab)).1] at hc'
    cases hc'
  · subst h
    have hc' : compat (ls.getD a default) (ls.getD i default) = true := hc
    rw [(hiso a ha hab).2] at hc'
    cases hc'

theorem assign_one_region_count {G : Type} (mask : Nat → Nat → Option G) (lineBoxes : List BBox) (r : Region G)
    (hr : r.lines = []) :
    ∀ r', (assign mask lineBoxes [r])[0]? = some r' → r'.lines.length ≤ lineBoxes.length := by
  intro r' hr'
  obtain ⟨r'', h1, -, -, h4⟩ := assign_spec' mask lineBoxes [r] 0 r rfl
  rw [hr'] at h1
  cases h1
  rw [h4, hr]
  simpa using List.length_filterMap_le _ (List.range lineBoxes.length)

/-- termination with a fuel-independent result -/
theorem loop_term_aux {α : Type} (step : List α → List α) (hstep : ∀ l, (step l).length ≤ l.length) :
    ∀ (m : Nat) (ls : List α), ls.length = m → ∃ r k, 1 ≤ k ∧ k ≤ m + 1 ∧ r.length ≤ m ∧
      ∀ fuel, m + 1 ≤ fuel → loop step fuel ls = some (r, k) := by
  intro m
  induction m using Nat.strongRecOn with
  | ind m ih =>
    intro ls hl
    by_cases h : (step ls).length = ls.length
    · refine ⟨step ls, 1, Nat.le_refl _, by omega, by omega, ?_⟩
      intro fuel hf
      obtain ⟨f, rfl⟩ : ∃ f, fuel = f + 1 := ⟨fuel - 1, by omega⟩
      simp [loop, h]
    · have hlt : (step ls).length < m := by have := hstep ls; omega
      obtain ⟨r, k, h1, h2, h3, h4⟩ := ih _ hlt (step ls) rfl
      refine ⟨r, k + 1, by omega, by omega, by omega, ?_⟩
      intro fuel hf
      obtain ⟨f, rfl⟩ : ∃ f, fuel = f + 1 := ⟨fuel - 1, by omega⟩
      simp [loop, h, h4 f (by omega)]

theorem loop_terminates {α : Type} (step : List α → List α) (hstep : ∀ l, (step l).length ≤ l.length)
    (ls : List α) :
    ∃ r k, loop step (ls.length + 1) ls = some (r, k) ∧ 1 ≤ k ∧ k ≤ ls.length + 1 ∧ r.length ≤ ls.length ∧
      ∀ extra, loop step (ls.length + 1 + extra) ls = some (r, k) := by
  obtain ⟨r, k, h1, h2, h3, h4⟩ := loop_term_aux step hstep ls.length ls rfl
  exact ⟨r, k, h4 _ (Nat.le_refl _), h1, h2, h3, fun extra => h4 _ (by omega)⟩

theorem loop_exit {α : Type} (step : List α → List α) (fuel : Nat) (ls r : List α) (k : Nat)
    (h : loop step fuel ls = some (r, k)) : ∃ prev, r = step prev ∧ (step prev).length = prev.length := by
  induction fuel generalizing ls r k with
  | zero => simp [loop] at h
  | succ fuel ih =>
    unfold loop at h
    simp only at h
    split at h
    · rename_i he
      simp only [Option.some.injEq, Prod.mk.injEq] at h
      exact ⟨ls, h.1.symm, he⟩
    · rw [Option.map_eq_some_iff] at h
      obtain ⟨⟨r', k'⟩, hl, he⟩ := h
      simp only [Prod.mk.injEq] at he
      obtain ⟨rfl, -⟩ := he
      exact ih _ _ _ hl

end MergeLoop
