-- helper lemmas for C05
import PeroVerif.Model.ForceAlign
import PeroVerif.Lemmas.Ctc

namespace FA
open Ctc

/-! ## 1. Cost algebra -/

theorem leC_refl (a : Cost) : leC a a = true := by
  cases a <;> simp [leC, ltC]

theorem leC_none (a : Cost) : leC a none = true := by
  cases a <;> simp [leC, ltC]

theorem leC_none_left {a : Cost} (h : leC none a = true) : a = none := by
  cases a <;> simp [leC, ltC] at h ⊢

theorem leC_trans {a b c : Cost} (h1 : leC a b = true) (h2 : leC b c = true) : leC a c = true := by
  cases a <;> cases b <;> cases c <;> simp [leC, ltC] at h1 h2 ⊢
  omega

theorem leC_of_ltC {a b : Cost} (h : ltC a b = true) : leC a b = true := by
  cases a <;> cases b <;> simp [leC, ltC] at h ⊢
  omega

theorem leC_of_not_ltC {a b : Cost} (h : ltC a b = false) : leC b a = true := by
  simp [leC, h]

theorem leC_total (a b : Cost) : leC a b = true ∨ leC b a = true := by
  cases a <;> cases b <;> simp [leC, ltC]
  omega

theorem addC_none_left (a : Cost) : addC none a = none := by
  cases a <;> rfl

theorem addC_none_right (a : Cost) : addC a none = none := by
  cases a <;> rfl

theorem addC_zero_right (a : Cost) : addC a (some 0) = a := by
  cases a <;> simp [addC]

theorem addC_comm (a b : Cost) : addC a b = addC b a := by
  cases a <;> cases b <;> simp [addC]
  omega

theorem addC_assoc (a b c : Cost) : addC (addC a b) c = addC a (addC b c) := by
  cases a <;> cases b <;> cases c <;> simp [addC]
  omega

theorem addC_mono_left {a b : Cost} (c : Cost) (h : leC a b = true) :
    leC (addC a c) (addC b c) = true := by
  cases a <;> cases b <;> cases c <;> simp [leC, ltC, addC] at h ⊢
  omega

theorem addC_mono_right {a b : Cost} (c : Cost) (h : leC a b = true) :
    leC (addC c a) (addC c b) = true := by
  rw [addC_comm c a, addC_comm c b]; exact addC_mono_left c h

theorem addC_eq_some {a b : Cost} {c : Int} (h : addC a b = some c) :
    ∃ x y, a = some x ∧ b = some y ∧ c = x + y := by
  cases a <;> cases b <;> simp [addC] at h ⊢
  omega

theorem addC_isSome {a b : Cost} : (addC a b).isSome = (a.isSome && b.isSome) := by
  cases a <;> cases b <;> simp [addC]

end FA

namespace FA
open Ctc

/-! ## 2. States, symbols, transitions -/

/-- symbol of a state (the `getD` default is `blank`, which is also the symbol of every even state) -/
def symOf (blank : Nat) (labels : List Nat) (s : Nat) : Nat := (states blank labels).getD s blank

theorem states_length (blank : Nat) (labels : List Nat) :
    (states blank labels).length = 2 * labels.length + 1 := by
  induction labels with
  | nil => simp [states]
  | cons l ls ih => simp [states, ih]; omega

theorem symOf_even (blank : Nat) (labels : List Nat) (k : Nat) : symOf blank labels (2 * k) = blank := by
  induction labels generalizing k with
  | nil => cases k <;> simp [symOf, states]
  | cons l ls ih =>
    cases k with
    | zero => simp [symOf, states]
    | succ k =>
      have := ih k
      simp only [symOf, states] at this ⊢
      have e : 2 * (k + 1) = 2 * k + 1 + 1 := by omega
      rw [e]
      simpa using this

theorem symOf_odd (blank : Nat) (labels : List Nat) (k : Nat) :
    symOf blank labels (2 * k + 1) = labels.getD k blank := by
  induction labels generalizing k with
  | nil => cases k <;> simp [symOf, states]
  | cons l ls ih =>
    cases k with
    | zero => simp [symOf, states]
    | succ k =>
      have := ih k
      simp only [symOf, states] at this ⊢
      have e : 2 * (k + 1) + 1 = 2 * k + 1 + 1 + 1 := by omega
      rw [e]
      simpa using this

theorem symOf_odd_lt (blank : Nat) (labels : List Nat) (k : Nat) (hk : k < labels.length) :
    symOf blank labels (2 * k + 1) = labels[k] := by
  rw [symOf_odd]; simp [List.getD, hk]

theorem allowed_iff (labels : List Nat) (j i : Nat) :
    allowed labels j i = true ↔
      i = j ∨ i = j + 1 ∨
        (i = j + 2 ∧ j % 2 = 1 ∧ j < 2 * labels.length + 1 - 2 ∧ labels[j / 2]? ≠ labels[j / 2 + 1]?) := by
  simp [allowed, and_assoc, or_assoc]

/-- prefix-admissible state path (snoc form) together with its last state -/
inductive PPath (labels : List Nat) : List Nat → Nat → Prop
  | start (s : Nat) : s < 2 → s < 2 * labels.length + 1 → PPath labels [s] s
  | step (q : List Nat) (j i : Nat) : PPath labels q j → allowed labels j i = true →
      i < 2 * labels.length + 1 → PPath labels (q ++ [i]) i

/-- admissible: ends in one of the last two states -/
def Adm (labels : List Nat) (q : List Nat) : Prop :=
  ∃ e, PPath labels q e ∧ 2 * labels.length + 1 - 2 ≤ e

theorem PPath.ne_nil {labels q e} (h : PPath labels q e) : q ≠ [] := by
  cases h <;> simp

theorem PPath.getLast? {labels q e} (h : PPath labels q e) : q.getLast? = some e := by
  cases h <;> simp

theorem PPath.last_lt {labels q e} (h : PPath labels q e) : e < 2 * labels.length + 1 := by
  cases h <;> assumption

theorem PPath.all_lt {labels q e} (h : PPath labels q e) : ∀ s ∈ q, s < 2 * labels.length + 1 := by
  induction h with
  | start s h1 h2 => simp; exact h2
  | step q j i hq ha hi ih =>
    intro s hs
    simp at hs
    rcases hs with hs | rfl
    · exact ih s hs
    · exact hi

theorem PPath.length_pos {labels q e} (h : PPath labels q e) : 0 < q.length := by
  cases h <;> simp

end FA
namespace FA
open Ctc

theorem parity_cases (j : Nat) : ∃ k, j = 2 * k ∨ j = 2 * k + 1 := ⟨j / 2, by omega⟩

theorem take_succ_getElem (l : List Nat) (k : Nat) (hk : k < l.length) :
    l.take (k + 1) = l.take k ++ [l[k]] := by
  rw [List.take_add_one]; simp [hk]

theorem mem_getElem_ne {blank : Nat} {labels : List Nat} (hb : blank ∉ labels) (k : Nat)
    (hk : k < labels.length) : labels[k] ≠ blank := by
  intro h; apply hb; rw [← h]; exact List.getElem_mem hk

theorem PPath.collapse_eq {blank : Nat} {labels q e} (hb : blank ∉ labels) (h : PPath labels q e) :
    collapse blank (q.map (symOf blank labels)) = labels.take ((e + 1) / 2) := by
  induction h with
  | start s h1 h2 =>
    have : s = 0 ∨ s = 1 := by omega
    rcases this with rfl | rfl
    · have := symOf_even blank labels 0
      simp only [Nat.mul_zero] at this
      simp [collapse, collapseAux, this]
    · have hk : 0 < labels.length := by omega
      have := symOf_odd_lt blank labels 0 hk
      simp only [Nat.mul_zero, Nat.zero_add] at this
      have hne := mem_getElem_ne hb 0 hk
      simp [collapse, collapseAux, this, hne]
      cases labels with
      | nil => simp at hk
      | cons a r => simp
  | step q j i hq ha hi ih =>
    rw [List.map_append, List.map_singleton, collapse_snoc, ih]
    have hlast : (q.map (symOf blank labels)).getLast? = some (symOf blank labels j) := by
      rw [List.getLast?_map, hq.getLast?]; rfl
    rw [hlast]
    have hj := hq.last_lt
    rw [allowed_iff] at ha
    rcases parity_cases j with ⟨k, rfl | rfl⟩
    · -- j even
      rcases ha with rfl | rfl | ⟨_, h, _⟩
      · simp [symOf_even]
      · have hk : k < labels.length := by omega
        have hne := mem_getElem_ne hb k hk
        rw [symOf_odd_lt _ _ _ hk, symOf_even]
        have e1 : (2 * k + 1 + 1) / 2 = k + 1 := by omega
        have e2 : (2 * k + 1) / 2 = k := by omega
        rw [e1, e2, take_succ_getElem _ _ hk]
        have hne' : ¬ (some blank = some labels[k]) := by
          intro h; exact hne (Option.some.inj h).symm
        simp [hne, hne']
      · omega
    · -- j odd
      have hk : k < labels.length := by omega
      rcases ha with rfl | rfl | ⟨rfl, _, h3, h4⟩
      · simp
      · have e : 2 * k + 1 + 1 = 2 * (k + 1) := by omega
        rw [e, symOf_even]
        have e1 : (2 * (k + 1) + 1) / 2 = k + 1 := by omega
        have e2 : (2 * k + 1 + 1) / 2 = k + 1 := by omega
        simp [e1]
      · have hk1 : k + 1 < labels.length := by omega
        have e : 2 * k + 1 + 2 = 2 * (k + 1) + 1 := by omega
        have e0 : (2 * k + 1) / 2 = k := by omega
        rw [e0] at h4
        rw [e, symOf_odd_lt _ _ _ hk1, symOf_odd_lt _ _ _ hk]
        have hne := mem_getElem_ne hb (k + 1) hk1
        have e1 : (2 * (k + 1) + 1 + 1) / 2 = k + 1 + 1 := by omega
        have e2 : (2 * k + 1 + 1) / 2 = k + 1 := by omega
        rw [e1, e2, take_succ_getElem _ _ hk1]
        have hne' : ¬ (some labels[k] = some labels[k + 1]) := by
          intro h; apply h4; simp [hk, hk1, Option.some.inj h]
        simp [hne, hne']

theorem Adm.collapse_eq {blank : Nat} {labels q} (hb : blank ∉ labels) (h : Adm labels q) :
    collapse blank (q.map (symOf blank labels)) = labels := by
  obtain ⟨e, hp, he⟩ := h
  rw [hp.collapse_eq hb]
  have := hp.last_lt
  apply List.take_of_length_le
  omega
end FA
namespace FA
open Ctc

theorem snoc_induction {α : Type} {P : List α → Prop} (nil : P [])
    (snoc : ∀ l a, P l → P (l ++ [a])) : ∀ l, P l := by
  have : ∀ l : List α, P l.reverse := by
    intro l
    induction l with
    | nil => exact nil
    | cons a l ih => rw [List.reverse_cons]; exact snoc _ _ ih
  intro l
  have := this l.reverse
  rwa [List.reverse_reverse] at this

theorem allowed_self (labels : List Nat) (j : Nat) : allowed labels j j = true := by
  rw [allowed_iff]; exact Or.inl rfl

theorem allowed_succ (labels : List Nat) (j : Nat) : allowed labels j (j + 1) = true := by
  rw [allowed_iff]; exact Or.inr (Or.inl rfl)

theorem symOf_ne_blank_odd {blank : Nat} {labels : List Nat} (e : Nat)
    (h : symOf blank labels e ≠ blank) : e % 2 = 1 := by
  rcases parity_cases e with ⟨k, rfl | rfl⟩
  · exact absurd (symOf_even blank labels k) h
  · omega

/-- splitting `l ++ [s] = labels.take k` -/
theorem snoc_eq_take {labels l : List Nat} {s k : Nat} (hk : k ≤ labels.length)
    (h : l ++ [s] = labels.take k) :
    ∃ k', k = k' + 1 ∧ ∃ hk' : k' < labels.length, l = labels.take k' ∧ s = labels[k'] := by
  have hlen := congrArg List.length h
  simp only [List.length_append, List.length_singleton, List.length_take] at hlen
  have hk0 : k = l.length + 1 := by omega
  refine ⟨l.length, hk0, by omega, ?_⟩
  have hk' : l.length < labels.length := by omega
  rw [hk0, take_succ_getElem _ _ hk'] at h
  have := List.append_inj' h rfl
  exact ⟨this.1, by simpa using this.2⟩

theorem exists_ppath_of_collapse {blank : Nat} {labels : List Nat} (hb : blank ∉ labels) :
    ∀ π : List Nat, π ≠ [] → ∀ k, k ≤ labels.length → collapse blank π = labels.take k →
      ∃ q e, PPath labels q e ∧ q.map (symOf blank labels) = π ∧ (e + 1) / 2 = k := by
  intro π
  induction π using snoc_induction with
  | nil => intro h; exact absurd rfl h
  | snoc π' s ih =>
    intro _ k hk hc
    rw [collapse_snoc] at hc
    by_cases hnil : π' = []
    · subst hnil
      simp only [collapse_nil, List.getLast?_nil, List.nil_append, reduceCtorEq, or_false] at hc
      by_cases hs : s = blank
      · subst hs
        refine ⟨[0], 0, PPath.start 0 (by omega) (by omega), ?_, ?_⟩
        · have := symOf_even s labels 0
          simp only [Nat.mul_zero] at this
          simp [this]
        · simp only [if_true] at hc
          have := congrArg List.length hc
          simp at this
          omega
      · simp only [hs, if_false] at hc
        obtain ⟨k', rfl, hk', hl, hs'⟩ := snoc_eq_take (l := []) hk hc
        have : k' = 0 := by
          have := congrArg List.length hl; simp at this; omega
        subst this
        refine ⟨[1], 1, PPath.start 1 (by omega) (by omega), ?_, rfl⟩
        have := symOf_odd_lt blank labels 0 hk'
        simp only [Nat.mul_zero, Nat.zero_add] at this
        simp [this, hs']
    · -- π' non-empty
      by_cases hcond : s = blank ∨ π'.getLast? = some s
      · rw [if_pos hcond, List.append_nil] at hc
        obtain ⟨q', e', hp, hm, he⟩ := ih hnil k hk hc
        have hlast : π'.getLast? = some (symOf blank labels e') := by
          rw [← hm, List.getLast?_map, hp.getLast?]; rfl
        have he' := hp.last_lt
        by_cases hs : s = blank
        · subst hs
          rcases parity_cases e' with ⟨m, rfl | rfl⟩
          · refine ⟨q' ++ [2 * m], 2 * m, PPath.step _ _ _ hp (allowed_self _ _) he', ?_, he⟩
            simp [hm, symOf_even]
          · refine ⟨q' ++ [2 * m + 1 + 1], 2 * m + 1 + 1,
              PPath.step _ _ _ hp (allowed_succ _ _) (by omega), ?_, by omega⟩
            have e : 2 * m + 1 + 1 = 2 * (m + 1) := by omega
            simp only [List.map_append, hm, List.map_singleton]
            rw [e, symOf_even]
        · have h2 : π'.getLast? = some s := by
            rcases hcond with h | h
            · exact absurd h hs
            · exact h
          rw [hlast] at h2
          have h3 : symOf blank labels e' = s := Option.some.inj h2
          refine ⟨q' ++ [e'], e', PPath.step _ _ _ hp (allowed_self _ _) he', ?_, he⟩
          simp [hm, h3]
      · rw [if_neg hcond] at hc
        obtain ⟨k', rfl, hk', hl, hs'⟩ := snoc_eq_take hk hc
        obtain ⟨q', e', hp, hm, he⟩ := ih hnil k' (by omega) hl
        have hlast : π'.getLast? = some (symOf blank labels e') := by
          rw [← hm, List.getLast?_map, hp.getLast?]; rfl
        have he' := hp.last_lt
        simp only [not_or] at hcond
        rcases parity_cases e' with ⟨m, rfl | rfl⟩
        · have hmk : m = k' := by omega
          subst hmk
          refine ⟨q' ++ [2 * m + 1], 2 * m + 1,
            PPath.step _ _ _ hp (allowed_succ _ _) (by omega), ?_, by omega⟩
          simp only [List.map_append, hm, List.map_singleton]
          rw [symOf_odd_lt _ _ _ hk', hs']
        · have hmk : k' = m + 1 := by omega
          subst hmk
          have hm' : m < labels.length := by omega
          have hne : labels[m] ≠ labels[m + 1] := by
            intro h
            apply hcond.2
            rw [hlast, symOf_odd_lt _ _ _ hm', hs', h]
          refine ⟨q' ++ [2 * m + 1 + 2], 2 * m + 1 + 2,
            PPath.step _ _ _ hp ?_ (by omega), ?_, by omega⟩
          · rw [allowed_iff]
            refine Or.inr (Or.inr ⟨rfl, by omega, by omega, ?_⟩)
            have e0 : (2 * m + 1) / 2 = m := by omega
            rw [e0]
            simp [hm', hk', hne]
          · have e : 2 * m + 1 + 2 = 2 * (m + 1) + 1 := by omega
            simp only [List.map_append, hm, List.map_singleton]
            rw [e, symOf_odd_lt _ _ _ hk', hs']

theorem exists_adm_of_collapse {blank : Nat} {labels : List Nat} (hb : blank ∉ labels)
    (hne : labels ≠ []) (π : List Nat) (hc : collapse blank π = labels) :
    ∃ q, Adm labels q ∧ q.map (symOf blank labels) = π := by
  have hπ : π ≠ [] := by
    intro h; subst h; rw [collapse_nil] at hc; exact hne hc.symm
  obtain ⟨q, e, hp, hm, he⟩ :=
    exists_ppath_of_collapse hb π hπ labels.length (Nat.le_refl _) (by simpa using hc)
  exact ⟨q, ⟨e, hp, by omega⟩, hm⟩

end FA
namespace FA
open Ctc

/-! ## 3. Viterbi -/

theorem pathCost_snoc (fs : List (List Cost)) (f : List Cost) (q : List Nat) (i : Nat)
    (hl : fs.length = q.length) :
    pathCost (fs ++ [f]) (q ++ [i]) = addC (pathCost fs q) (f.getD i none) := by
  induction fs generalizing q with
  | nil =>
    cases q with
    | nil => simp [pathCost, addC_zero_right]; cases f[i]?.getD none <;> simp [addC]
    | cons a q => simp at hl
  | cons g fs ih =>
    cases q with
    | nil => simp at hl
    | cons a q =>
      simp only [List.length_cons, Nat.add_right_cancel_iff] at hl
      simp only [List.cons_append, pathCost, ih q hl, addC_assoc]

theorem pathCost_isSome_length {M : List (List Cost)} {p : List Nat}
    (h : (pathCost M p).isSome = true) : p.length = M.length := by
  induction M generalizing p with
  | nil => cases p <;> simp [pathCost] at h ⊢
  | cons r M ih =>
    cases p with
    | nil => simp [pathCost] at h
    | cons s p =>
      simp only [pathCost, addC_isSome, Bool.and_eq_true] at h
      simp [ih h.2]

/-- path reconstructed from backpointers (newest row first), ending in `s` -/
def bt : List (List Nat) → Nat → List Nat
  | [], s => [s]
  | bp :: rest, s => bt rest (bp.getD s 0) ++ [s]

theorem backtrack_eq (bps : List (List Nat)) (s : Nat) (acc : List Nat) :
    backtrack bps s acc = bt bps s ++ acc := by
  induction bps generalizing s acc with
  | nil => simp [backtrack, bt]
  | cons bp rest ih => simp [backtrack, bt, ih]

/-- generic fold of `updateCell` over a list of sources -/
theorem updateCell_fold (labels : List Nat) (act : List Cost) (fi : Cost) (i : Nat)
    (l : List Nat) (st : Cost × Nat) :
    let r := l.foldl
      (fun (st : Cost × Nat) j =>
        if allowed labels j i then
          let u := addC (act.getD j none) fi
          if ltC u st.1 then (u, j) else st
        else st) st
    leC r.1 st.1 = true ∧
    (∀ j ∈ l, allowed labels j i = true → leC r.1 (addC (act.getD j none) fi) = true) ∧
    (r = st ∨ (r.2 ∈ l ∧ allowed labels r.2 i = true ∧ r.1 = addC (act.getD r.2 none) fi)) := by
  induction l generalizing st with
  | nil => simp [leC_refl]
  | cons j l ih =>
    simp only [List.foldl_cons]
    by_cases ha : allowed labels j i = true
    · simp only [ha, if_true]
      by_cases hlt : ltC (addC (act.getD j none) fi) st.1 = true
      · simp only [hlt, if_true]
        obtain ⟨h1, h2, h3⟩ := ih (addC (act.getD j none) fi, j)
        refine ⟨leC_trans h1 (leC_of_ltC hlt), ?_, ?_⟩
        · intro j' hj' ha'
          simp only [List.mem_cons] at hj'
          rcases hj' with rfl | hj'
          · exact h1
          · exact h2 j' hj' ha'
        · right
          rcases h3 with h3 | ⟨h3, h4, h5⟩
          · rw [h3]; exact ⟨by simp, ha, rfl⟩
          · exact ⟨List.mem_cons_of_mem _ h3, h4, h5⟩
      · simp only [hlt]
        have hlt' : ltC (addC (act.getD j none) fi) st.1 = false := by simpa using hlt
        obtain ⟨h1, h2, h3⟩ := ih st
        refine ⟨h1, ?_, ?_⟩
        · intro j' hj' ha'
          simp only [List.mem_cons] at hj'
          rcases hj' with rfl | hj'
          · exact leC_trans h1 (leC_of_not_ltC hlt')
          · exact h2 j' hj' ha'
        · rcases h3 with h3 | ⟨h3, h4, h5⟩
          · left; exact h3
          · right; exact ⟨List.mem_cons_of_mem _ h3, h4, h5⟩
    · simp only [ha]
      obtain ⟨h1, h2, h3⟩ := ih st
      refine ⟨h1, ?_, ?_⟩
      · intro j' hj' ha'
        simp only [List.mem_cons] at hj'
        rcases hj' with rfl | hj'
        · exact absurd ha' ha
        · exact h2 j' hj' ha'
      · rcases h3 with h3 | ⟨h3, h4, h5⟩
        · left; exact h3
        · right; exact ⟨List.mem_cons_of_mem _ h3, h4, h5⟩

theorem updateCell_le (labels : List Nat) (act : List Cost) (fi : Cost) (i j : Nat)
    (hj : j < act.length) (ha : allowed labels j i = true) :
    leC (updateCell labels act fi i).1 (addC (act.getD j none) fi) = true :=
  (updateCell_fold labels act fi i (List.range act.length) (none, 0)).2.1 j
    (List.mem_range.mpr hj) ha

theorem updateCell_some (labels : List Nat) (act : List Cost) (fi : Cost) (i : Nat) (c : Int)
    (h : (updateCell labels act fi i).1 = some c) :
    (updateCell labels act fi i).2 < act.length ∧
    allowed labels (updateCell labels act fi i).2 i = true ∧
    addC (act.getD (updateCell labels act fi i).2 none) fi = some c := by
  rcases (updateCell_fold labels act fi i (List.range act.length) (none, 0)).2.2 with h3 | ⟨h3, h4, h5⟩
  · have : (updateCell labels act fi i) = (none, 0) := h3
    rw [this] at h; simp at h
  · exact ⟨List.mem_range.mp h3, h4, by rw [← h]; exact h5.symm⟩

theorem update_length (labels : List Nat) (act : List Cost) (fr : List Cost) :
    (update labels act fr).1.length = act.length := by
  simp [update]

theorem update_cost_getD (labels : List Nat) (act : List Cost) (fr : List Cost) (i : Nat)
    (hi : i < act.length) :
    (update labels act fr).1.getD i none = (updateCell labels act (fr.getD i none) i).1 := by
  simp [update, hi]

theorem update_bp_getD (labels : List Nat) (act : List Cost) (fr : List Cost) (i : Nat)
    (hi : i < act.length) :
    (update labels act fr).2.getD i 0 = (updateCell labels act (fr.getD i none) i).2 := by
  simp [update, hi]

end FA
namespace FA
open Ctc

/-- DP invariant after processing the frames `fs` -/
def Inv (labels : List Nat) (fs : List (List Cost)) (act : List Cost) (bps : List (List Nat)) : Prop :=
  0 < fs.length ∧
  act.length = 2 * labels.length + 1 ∧
  (∀ q e, PPath labels q e → q.length = fs.length →
    leC (act.getD e none) (pathCost fs q) = true) ∧
  (∀ e, e < 2 * labels.length + 1 → ∀ c, act.getD e none = some c →
    PPath labels (bt bps e) e ∧ (bt bps e).length = fs.length ∧ pathCost fs (bt bps e) = some c)

def firstRow (labels : List Nat) (f0 : List Cost) : List Cost :=
  (List.range (2 * labels.length + 1)).map fun i => if i < 2 then f0.getD i none else none

theorem firstRow_getD (labels : List Nat) (f0 : List Cost) (i : Nat) :
    (firstRow labels f0).getD i none =
      if i < 2 ∧ i < 2 * labels.length + 1 then f0.getD i none else none := by
  simp only [firstRow, List.getD_eq_getElem?_getD, List.getElem?_map]
  by_cases h : i < 2 * labels.length + 1
  · simp [h]
  · simp [h]

theorem inv_base (labels : List Nat) (f0 : List Cost) :
    Inv labels [f0] (firstRow labels f0) [] := by
  refine ⟨by simp, by simp [firstRow], ?_, ?_⟩
  · intro q e hp hl
    cases hp with
    | start s h1 h2 =>
      rw [firstRow_getD]
      simp [h1, h2, pathCost, addC_zero_right, leC_refl]
    | step q j i hq ha hi =>
      have := hq.length_pos
      simp only [List.length_append, List.length_cons, List.length_nil] at hl; omega
  · intro e he c hc
    rw [firstRow_getD] at hc
    by_cases h : e < 2 ∧ e < 2 * labels.length + 1
    · rw [if_pos h] at hc
      refine ⟨PPath.start e h.1 h.2, by simp [bt], ?_⟩
      simp only [bt, pathCost, addC_zero_right]; exact hc
    · rw [if_neg h] at hc; simp at hc

theorem inv_step (labels : List Nat) (fs : List (List Cost)) (act : List Cost)
    (bps : List (List Nat)) (fr : List Cost) (h : Inv labels fs act bps) :
    Inv labels (fs ++ [fr]) (update labels act fr).1 ((update labels act fr).2 :: bps) := by
  obtain ⟨hpos, hlen, hlow, hach⟩ := h
  refine ⟨by simp, by rw [update_length, hlen], ?_, ?_⟩
  · intro q' e hp hl
    cases hp with
    | start s h1 h2 =>
      simp only [List.length_append, List.length_cons, List.length_nil] at hl; omega
    | step q j i hq ha hi =>
      have hql : q.length = fs.length := by simpa using hl
      rw [pathCost_snoc _ _ _ _ hql.symm, update_cost_getD _ _ _ _ (by omega)]
      have hj := hq.last_lt
      refine leC_trans (updateCell_le labels act _ _ j (by omega) ha) ?_
      exact addC_mono_left _ (hlow q j hq hql)
  · intro e he c hc
    rw [update_cost_getD _ _ _ _ (by omega)] at hc
    obtain ⟨hb1, hb2, hb3⟩ := updateCell_some _ _ _ _ _ hc
    obtain ⟨x, y, hx, hy, hxy⟩ := addC_eq_some hb3
    simp only [bt]
    rw [update_bp_getD _ _ _ _ (by omega)]
    obtain ⟨hp, hl, hcst⟩ := hach _ (by omega) x hx
    refine ⟨PPath.step _ _ _ hp hb2 he, by simp only [List.length_append, List.length_singleton, hl], ?_⟩
    rw [pathCost_snoc _ _ _ _ hl.symm, hcst, hy, hxy]; rfl

theorem inv_fold (labels : List Nat) (rest : List (List Cost)) :
    ∀ (fs : List (List Cost)) (act : List Cost) (bps : List (List Nat)), Inv labels fs act bps →
    Inv labels (fs ++ rest)
      (rest.foldl (fun (st : List Cost × List (List Nat)) fr =>
        let (c, bp) := update labels st.1 fr
        (c, bp :: st.2)) (act, bps)).1
      (rest.foldl (fun (st : List Cost × List (List Nat)) fr =>
        let (c, bp) := update labels st.1 fr
        (c, bp :: st.2)) (act, bps)).2 := by
  induction rest with
  | nil => intro fs act bps h; simpa using h
  | cons fr rest ih =>
    intro fs act bps h
    have := ih _ _ _ (inv_step labels fs act bps fr h)
    simpa [List.foldl_cons] using this

end FA
namespace FA
open Ctc

theorem argminC_go_spec (pre ys : List Cost) (best : Cost) (bi : Nat)
    (hbi : bi < pre.length) (hbest : pre.getD bi none = best)
    (hmin : ∀ x ∈ pre, leC best x = true) :
    (argminC.go best bi pre.length ys).1 < (pre ++ ys).length ∧
    (pre ++ ys).getD (argminC.go best bi pre.length ys).1 none = (argminC.go best bi pre.length ys).2 ∧
    ∀ x ∈ pre ++ ys, leC (argminC.go best bi pre.length ys).2 x = true := by
  induction ys generalizing pre best bi with
  | nil =>
    simp only [argminC.go, List.append_nil]
    exact ⟨hbi, hbest, hmin⟩
  | cons y ys ih =>
    have hlen : (pre ++ [y]).length = pre.length + 1 := by simp
    have happ : pre ++ y :: ys = (pre ++ [y]) ++ ys := by simp
    by_cases hlt : ltC y best = true
    · have := ih (pre ++ [y]) y pre.length (by simp) (by simp) (by
        intro x hx
        simp only [List.mem_append, List.mem_singleton] at hx
        rcases hx with hx | rfl
        · exact leC_trans (leC_of_ltC hlt) (hmin x hx)
        · exact leC_refl _)
      rw [hlen] at this
      simp only [argminC.go, hlt, if_true, happ]
      exact this
    · have hlt' : ltC y best = false := by simpa using hlt
      have := ih (pre ++ [y]) best bi (by simp; omega) (by
        rw [← hbest]; simp [List.getElem?_append_left hbi]) (by
        intro x hx
        simp only [List.mem_append, List.mem_singleton] at hx
        rcases hx with hx | rfl
        · exact hmin x hx
        · exact leC_of_not_ltC hlt')
      rw [hlen] at this
      simp only [argminC.go, hlt', happ]
      exact this

theorem argminC_spec (l : List Cost) (hl : l ≠ []) :
    (argminC l).1 < l.length ∧ l.getD (argminC l).1 none = (argminC l).2 ∧
    ∀ i, leC (argminC l).2 (l.getD i none) = true := by
  cases l with
  | nil => exact absurd rfl hl
  | cons x xs =>
    have := argminC_go_spec [x] xs x 0 (by simp) (by simp) (by simp [leC_refl])
    simp only [List.length_singleton, List.singleton_append] at this
    simp only [argminC]
    refine ⟨this.1, this.2.1, ?_⟩
    intro i
    by_cases hi : i < (x :: xs).length
    · apply this.2.2
      rw [List.getD_eq_getElem?_getD, List.getElem?_eq_getElem hi]
      exact List.getElem_mem hi
    · have : (x :: xs).getD i none = none := by
        rw [List.getD_eq_getElem?_getD, List.getElem?_eq_none (by omega)]; rfl
      rw [this]; exact leC_none _

end FA
namespace FA
open Ctc

def finalRow (labels : List Nat) (act : List Cost) : List Cost :=
  (List.range (2 * labels.length + 1)).map fun i =>
    if 2 * labels.length + 1 - 2 ≤ i then act.getD i none else none

theorem finalRow_getD (labels : List Nat) (act : List Cost) (i : Nat) :
    (finalRow labels act).getD i none =
      if 2 * labels.length + 1 - 2 ≤ i ∧ i < 2 * labels.length + 1 then act.getD i none else none := by
  simp only [finalRow, List.getD_eq_getElem?_getD, List.getElem?_map]
  by_cases h : i < 2 * labels.length + 1
  · simp [h]
  · simp [h]

theorem finalRow_ne_nil (labels : List Nat) (act : List Cost) : finalRow labels act ≠ [] := by
  intro h
  have := congrArg List.length h
  simp [finalRow] at this

/-- the fold of `viterbi` -/
def vfold (labels : List Nat) (f0 : List Cost) (rest : List (List Cost)) :
    List Cost × List (List Nat) :=
  rest.foldl (fun (st : List Cost × List (List Nat)) fr =>
    let (c, bp) := update labels st.1 fr
    (c, bp :: st.2)) (firstRow labels f0, [])

theorem viterbi_cons (labels : List Nat) (f0 : List Cost) (rest : List (List Cost)) :
    viterbi labels (f0 :: rest) =
      match (argminC (finalRow labels (vfold labels f0 rest).1)).2 with
      | none => .error .unalignable
      | some _ => .ok (backtrack (vfold labels f0 rest).2
          (argminC (finalRow labels (vfold labels f0 rest).1)).1 []) := rfl

theorem vfold_inv (labels : List Nat) (f0 : List Cost) (rest : List (List Cost)) :
    Inv labels (f0 :: rest) (vfold labels f0 rest).1 (vfold labels f0 rest).2 :=
  inv_fold labels rest [f0] _ _ (inv_base labels f0)

theorem viterbi_ok {labels : List Nat} {frames : List (List Cost)} {p : List Nat}
    (h : viterbi labels frames = .ok p) :
    frames ≠ [] ∧ Adm labels p ∧ p.length = frames.length ∧
    (pathCost frames p).isSome = true ∧
    ∀ q, Adm labels q → q.length = frames.length →
      leC (pathCost frames p) (pathCost frames q) = true := by
  cases frames with
  | nil => simp [viterbi] at h
  | cons f0 rest =>
    rw [viterbi_cons] at h
    obtain ⟨_, _, hlow, hach⟩ := vfold_inv labels f0 rest
    obtain ⟨h1, h2, h3⟩ := argminC_spec _ (finalRow_ne_nil labels (vfold labels f0 rest).1)
    generalize hm : (argminC (finalRow labels (vfold labels f0 rest).1)).2 = m at h h2 h3
    generalize hs : (argminC (finalRow labels (vfold labels f0 rest).1)).1 = s at h h1 h2
    cases m with
    | none => simp at h
    | some c =>
      simp only [Except.ok.injEq] at h
      rw [backtrack_eq, List.append_nil] at h
      subst h
      rw [finalRow_getD] at h2
      by_cases hcond : 2 * labels.length + 1 - 2 ≤ s ∧ s < 2 * labels.length + 1
      · rw [if_pos hcond] at h2
        obtain ⟨hp, hl, hc⟩ := hach s hcond.2 c h2
        refine ⟨by simp, ⟨s, hp, hcond.1⟩, hl, by simp [hc], ?_⟩
        intro q ⟨e, hq, he⟩ hql
        rw [hc]
        have := h3 e
        rw [finalRow_getD, if_pos ⟨he, hq.last_lt⟩] at this
        exact leC_trans this (hlow q e hq hql)
      · rw [if_neg hcond] at h2; simp at h2

theorem viterbi_error {labels : List Nat} {frames : List (List Cost)} {e : Err}
    (h : viterbi labels frames = .error e) :
    (frames = [] ∧ e = .index) ∨
    (frames ≠ [] ∧ e = .unalignable ∧
      ∀ q, Adm labels q → q.length = frames.length → pathCost frames q = none) := by
  cases frames with
  | nil => simp [viterbi] at h; exact Or.inl ⟨rfl, h.symm⟩
  | cons f0 rest =>
    right
    rw [viterbi_cons] at h
    obtain ⟨_, _, hlow, hach⟩ := vfold_inv labels f0 rest
    obtain ⟨h1, h2, h3⟩ := argminC_spec _ (finalRow_ne_nil labels (vfold labels f0 rest).1)
    generalize hm : (argminC (finalRow labels (vfold labels f0 rest).1)).2 = m at h h2 h3
    cases m with
    | some c => simp at h
    | none =>
      simp only [Except.error.injEq] at h
      refine ⟨by simp, h.symm, ?_⟩
      intro q ⟨e', hq, he⟩ hql
      have := h3 e'
      rw [finalRow_getD, if_pos ⟨he, hq.last_lt⟩] at this
      exact leC_none_left (leC_trans this (hlow q e' hq hql))

end FA
namespace FA
open Ctc

/-! ## 4. Transfer between expanded frames and the matrix -/

theorem option_mapM_cons {α β : Type} (f : α → Option β) (a : α) (l : List α) :
    (a :: l).mapM f =
      match f a with
      | none => none
      | some b => match l.mapM f with
        | none => none
        | some bs => some (b :: bs) := by
  rw [List.mapM_cons]
  cases f a with
  | none => rfl
  | some b => cases l.mapM f <;> rfl

theorem option_mapM_some_cons {α β : Type} {f : α → Option β} {a : α} {l : List α} {r : List β}
    (h : (a :: l).mapM f = some r) : ∃ b bs, f a = some b ∧ l.mapM f = some bs ∧ r = b :: bs := by
  rw [option_mapM_cons] at h
  cases hfa : f a with
  | none => simp [hfa] at h
  | some b =>
    cases hl : l.mapM f with
    | none => simp [hfa, hl] at h
    | some bs =>
      simp [hfa, hl] at h
      exact ⟨b, bs, rfl, rfl, h.symm⟩

theorem option_mapM_some_getElem {α β : Type} {f : α → Option β} {l : List α} {r : List β}
    (h : l.mapM f = some r) :
    r.length = l.length ∧ ∀ i (h1 : i < l.length) (h2 : i < r.length), f l[i] = some r[i] := by
  induction l generalizing r with
  | nil =>
    simp only [List.mapM_nil] at h
    cases h
    simp
  | cons a l ih =>
    obtain ⟨b, bs, hfa, hl, rfl⟩ := option_mapM_some_cons h
    obtain ⟨ih1, ih2⟩ := ih hl
    refine ⟨by simp [ih1], ?_⟩
    intro i h1 h2
    cases i with
    | zero => simpa using hfa
    | succ i => simpa using ih2 i (by simpa using h1) (by simpa using h2)

theorem option_mapM_exists {α β : Type} {f : α → Option β} {l : List α}
    (h : ∀ a ∈ l, (f a).isSome = true) : ∃ r, l.mapM f = some r := by
  induction l with
  | nil => exact ⟨[], rfl⟩
  | cons a l ih =>
    obtain ⟨r, hr⟩ := ih (fun x hx => h x (List.mem_cons_of_mem _ hx))
    have ha := h a (List.mem_cons_self)
    rw [Option.isSome_iff_exists] at ha
    obtain ⟨b, hb⟩ := ha
    exact ⟨b :: r, by rw [option_mapM_cons, hb, hr]⟩

theorem expand_getD {row : List Cost} {sts : List Nat} {fr : List Cost} (blank : Nat)
    (h : expand row sts = some fr) (s : Nat) (hs : s < sts.length) :
    fr.getD s none = row.getD (sts.getD s blank) none := by
  obtain ⟨h1, h2⟩ := option_mapM_some_getElem h
  have hs' : s < fr.length := by omega
  have := h2 s hs hs'
  simp only [List.getD_eq_getElem?_getD, List.getElem?_eq_getElem hs, List.getElem?_eq_getElem hs',
    Option.getD_some, this]

theorem pathCost_transfer (blank : Nat) (labels : List Nat) :
    ∀ (M frames : List (List Cost)) (q : List Nat),
      M.mapM (fun row => expand row (states blank labels)) = some frames →
      (∀ s ∈ q, s < 2 * labels.length + 1) →
      pathCost frames q = pathCost M (q.map (symOf blank labels)) := by
  intro M
  induction M with
  | nil =>
    intro frames q h _
    simp only [List.mapM_nil] at h
    cases h
    cases q <;> simp [pathCost]
  | cons row M ih =>
    intro frames q h hq
    obtain ⟨fr, frs, hfr, hfrs, rfl⟩ := option_mapM_some_cons h
    cases q with
    | nil => simp [pathCost]
    | cons s q =>
      simp only [List.map_cons, pathCost]
      rw [ih frs q hfrs (fun x hx => hq x (List.mem_cons_of_mem _ hx))]
      have hs : s < (states blank labels).length := by
        rw [states_length]; exact hq s (List.mem_cons_self)
      rw [expand_getD blank hfr s hs]
      rfl

theorem mapM_expand_length {blank : Nat} {labels : List Nat} {M frames : List (List Cost)}
    (h : M.mapM (fun row => expand row (states blank labels)) = some frames) :
    frames.length = M.length := (option_mapM_some_getElem h).1

end FA
namespace FA
open Ctc

/-! ## 5. `statePath` / `forceAlign` -/

theorem statePath_ok {M : List (List Cost)} {labels : List Nat} {blank : Nat} {p : List Nat}
    (h : statePath M labels blank = .ok p) :
    blank ∉ labels ∧ labels ≠ [] ∧
    ∃ frames, M.mapM (fun row => expand row (states blank labels)) = some frames ∧
      viterbi labels frames = .ok p := by
  unfold statePath at h
  by_cases hb : blank ∈ labels
  · simp [hb] at h
  · by_cases hne : labels = []
    · simp [hne] at h
    · simp only [hb, hne, if_false] at h
      cases hm : M.mapM (fun row => expand row (states blank labels)) with
      | none => simp [hm] at h
      | some frames =>
        simp only [hm] at h
        exact ⟨hb, hne, frames, rfl, h⟩

theorem statePath_eq_of_mapM {M : List (List Cost)} {labels : List Nat} {blank : Nat}
    {frames : List (List Cost)} (hb : blank ∉ labels) (hne : labels ≠ [])
    (hm : M.mapM (fun row => expand row (states blank labels)) = some frames) :
    statePath M labels blank = viterbi labels frames := by
  unfold statePath
  simp only [hb, hne, if_false, hm]

theorem forceAlign_ok {M : List (List Cost)} {labels : List Nat} {blank : Nat} {π : List Nat}
    (h : forceAlign M labels blank = .ok π) :
    ∃ p, statePath M labels blank = .ok p ∧ π = p.map (symOf blank labels) := by
  unfold forceAlign at h
  cases hs : statePath M labels blank with
  | error e => simp [hs, Except.map] at h
  | ok p =>
    simp only [hs, Except.map, Except.ok.injEq] at h
    exact ⟨p, rfl, h.symm⟩

theorem forceAlign_error {M : List (List Cost)} {labels : List Nat} {blank : Nat} {e : Err} :
    forceAlign M labels blank = .error e ↔ statePath M labels blank = .error e := by
  unfold forceAlign
  cases hs : statePath M labels blank <;> simp [Except.map]

/-- everything one needs to know about a successful run -/
theorem forceAlign_ok_spec {M : List (List Cost)} {labels : List Nat} {blank : Nat} {π : List Nat}
    (h : forceAlign M labels blank = .ok π) :
    blank ∉ labels ∧ labels ≠ [] ∧
    ∃ p, statePath M labels blank = .ok p ∧ π = p.map (symOf blank labels) ∧ Adm labels p ∧
      p.length = M.length ∧ (pathCost M π).isSome = true ∧
      ∀ π', π'.length = M.length → collapse blank π' = labels →
        leC (pathCost M π) (pathCost M π') = true := by
  obtain ⟨p, hsp, rfl⟩ := forceAlign_ok h
  obtain ⟨hb, hne, frames, hm, hv⟩ := statePath_ok hsp
  obtain ⟨_, hadm, hlen, hfin, hopt⟩ := viterbi_ok hv
  have hfl := mapM_expand_length hm
  obtain ⟨e, hp, he⟩ := hadm
  have htr := pathCost_transfer blank labels M frames p hm hp.all_lt
  refine ⟨hb, hne, p, hsp, rfl, ⟨e, hp, he⟩, by omega, by rw [← htr]; exact hfin, ?_⟩
  intro π' hl' hc'
  obtain ⟨q, hq, rfl⟩ := exists_adm_of_collapse hb hne π' hc'
  obtain ⟨e', hq', he'⟩ := hq
  rw [← htr, ← pathCost_transfer blank labels M frames q hm hq'.all_lt]
  apply hopt q ⟨e', hq', he'⟩
  rw [hfl, ← hl']; simp

end FA
namespace FA
open Ctc

theorem mem_states {blank : Nat} {labels : List Nat} {s : Nat} (h : s ∈ states blank labels) :
    s = blank ∨ s ∈ labels := by
  induction labels with
  | nil => simp [states] at h; exact Or.inl h
  | cons l ls ih =>
    simp only [states, List.mem_cons] at h
    rcases h with h | h | h
    · exact Or.inl h
    · exact Or.inr (by simp [h])
    · rcases ih h with h | h
      · exact Or.inl h
      · exact Or.inr (List.mem_cons_of_mem _ h)

theorem mapM_expand_exists (blank : Nat) (labels : List Nat) (M : List (List Cost))
    (h : ∀ row ∈ M, blank < row.length ∧ ∀ l ∈ labels, l < row.length) :
    ∃ frames, M.mapM (fun row => expand row (states blank labels)) = some frames := by
  apply option_mapM_exists
  intro row hrow
  obtain ⟨h1, h2⟩ := h row hrow
  rw [Option.isSome_iff_exists]
  apply option_mapM_exists
  intro s hs
  have : s < row.length := by
    rcases mem_states hs with rfl | hs
    · exact h1
    · exact h2 s hs
  simp [this]

theorem forceAlign_fails {M : List (List Cost)} {labels : List Nat} {blank : Nat}
    (hb : blank ∉ labels) (hne : labels ≠ []) (hM : M ≠ [])
    (hwf : ∀ row ∈ M, blank < row.length ∧ ∀ l ∈ labels, l < row.length) :
    (forceAlign M labels blank = .error .unalignable ↔
      ¬ ∃ π : List Nat, π.length = M.length ∧ collapse blank π = labels ∧
        (pathCost M π).isSome = true) ∧
    (∀ e, forceAlign M labels blank = .error e → e = .unalignable) := by
  obtain ⟨frames, hm⟩ := mapM_expand_exists blank labels M hwf
  have hfl := mapM_expand_length hm
  have hfne : frames ≠ [] := by
    intro h; rw [h] at hfl; exact hM (List.eq_nil_of_length_eq_zero hfl.symm)
  have hsp := statePath_eq_of_mapM hb hne hm
  have hall : ∀ e, forceAlign M labels blank = .error e → e = .unalignable := by
    intro e he
    rw [forceAlign_error, hsp] at he
    rcases viterbi_error he with ⟨h, _⟩ | ⟨_, h, _⟩
    · exact absurd h hfne
    · exact h
  refine ⟨⟨?_, ?_⟩, hall⟩
  · intro he ⟨π, hl, hc, hfin⟩
    rw [forceAlign_error, hsp] at he
    rcases viterbi_error he with ⟨h, _⟩ | ⟨_, _, h⟩
    · exact absurd h hfne
    · obtain ⟨q, ⟨e', hq', he'⟩, rfl⟩ := exists_adm_of_collapse hb hne π hc
      rw [← pathCost_transfer blank labels M frames q hm hq'.all_lt,
        h q ⟨e', hq', he'⟩ (by rw [hfl, ← hl]; simp)] at hfin
      simp at hfin
  · intro hno
    cases hr : forceAlign M labels blank with
    | error e => rw [hall e hr]
    | ok π =>
      exfalso
      apply hno
      obtain ⟨_, _, p, _, rfl, hadm, hlen, hfin, _⟩ := forceAlign_ok_spec hr
      exact ⟨_, by simpa using hlen, hadm.collapse_eq hb, hfin⟩

end FA
namespace FA
open Ctc

/-! ## 6. Character positions -/

theorem PPath.visits {labels q e} (h : PPath labels q e) :
    ∀ o, o % 2 = 1 → o ≤ e → o ∈ q := by
  induction h with
  | start s h1 h2 =>
    intro o ho hoe
    have : o = s := by omega
    simp [this]
  | step q j i hq ha hi ih =>
    intro o ho hoe
    rw [allowed_iff] at ha
    by_cases hoj : o ≤ j
    · exact List.mem_append_left _ (ih o ho hoj)
    · have : o = i := by omega
      simp [this]

theorem PPath.le_last {labels q e} (h : PPath labels q e) : ∀ s ∈ q, s ≤ e := by
  induction h with
  | start s h1 h2 => simp
  | step q j i hq ha hi ih =>
    intro s hs
    rw [allowed_iff] at ha
    simp only [List.mem_append, List.mem_singleton] at hs
    rcases hs with hs | rfl
    · have := ih s hs; omega
    · exact Nat.le_refl _

theorem PPath.sorted {labels q e} (h : PPath labels q e) : q.Pairwise (· ≤ ·) := by
  induction h with
  | start s h1 h2 => simp
  | step q j i hq ha hi ih =>
    rw [List.pairwise_append]
    refine ⟨ih, by simp, ?_⟩
    intro a ha' b hb
    simp only [List.mem_singleton] at hb
    subst hb
    rw [allowed_iff] at ha
    have := hq.le_last a ha'
    omega

theorem sorted_index_lt {q : List Nat} (hs : q.Pairwise (· ≤ ·)) {a b x y : Nat}
    (ha : q[a]? = some x) (hb : q[b]? = some y) (hxy : x < y) : a < b := by
  rw [List.pairwise_iff_getElem] at hs
  obtain ⟨ha1, ha2⟩ := List.getElem?_eq_some_iff.mp ha
  obtain ⟨hb1, hb2⟩ := List.getElem?_eq_some_iff.mp hb
  by_cases h : a < b
  · exact h
  · exfalso
    by_cases hab : a = b
    · subst hab; omega
    · have := hs b a hb1 ha1 (by omega)
      omega

end FA
namespace FA
open Ctc

def posOf (s : Nat) : Option Nat := if s % 2 = 1 then some (s / 2) else none

def block (pos : List (Option Nat)) (i : Nat) : List Nat :=
  (List.range pos.length).filter fun t => pos.getD t none == some i

def pick (M : List (List Cost)) (pos : List (Option Nat)) (i : Nat) : Nat :=
  (block pos i).getD (argminC ((block pos i).map fun t => frameMin (M.getD t []))).1 0

theorem posOf_eq_some (s i : Nat) : posOf s = some i ↔ s = 2 * i + 1 := by
  unfold posOf
  by_cases h : s % 2 = 1
  · simp [h]; omega
  · simp [h]; omega

theorem pos_getElem?_iff (p : List Nat) (t i : Nat) :
    (p.map posOf)[t]? = some (some i) ↔ p[t]? = some (2 * i + 1) := by
  rw [List.getElem?_map]
  cases h : p[t]? with
  | none => simp
  | some s => simp [posOf_eq_some]

theorem mem_block_iff (p : List Nat) (t i : Nat) :
    t ∈ block (p.map posOf) i ↔ p[t]? = some (2 * i + 1) := by
  unfold block
  rw [List.mem_filter, List.mem_range, List.getD_eq_getElem?_getD, beq_iff_eq, ← pos_getElem?_iff]
  constructor
  · rintro ⟨h1, h2⟩
    rw [List.getElem?_eq_getElem h1] at h2 ⊢
    simpa using h2
  · intro h
    obtain ⟨h1, _⟩ := List.getElem?_eq_some_iff.mp h
    exact ⟨h1, by rw [h]; rfl⟩

theorem alignText_eq (M : List (List Cost)) (labels : List Nat) (blank : Nat) :
    alignText M labels blank =
      (forceAlignPos M labels blank).map fun pos =>
        (List.range labels.length).map fun i =>
          match block pos i with
          | [] => none
          | _ => some (pick M pos i) := rfl

theorem match_ne_nil {α β : Type} (x : β) : ∀ l : List α, l ≠ [] →
    (match l with | [] => none | _ => some x) = some x := by
  intro l h
  cases l with
  | nil => exact absurd rfl h
  | cons a l => rfl

theorem argmin_pick (fm : Nat → Cost) (l : List Nat) (h : l ≠ []) :
    l.getD (argminC (l.map fm)).1 0 ∈ l ∧
    ∀ t ∈ l, leC (fm (l.getD (argminC (l.map fm)).1 0)) (fm t) = true := by
  have hne : l.map fm ≠ [] := by simpa using h
  obtain ⟨h1, h2, h3⟩ := argminC_spec _ hne
  rw [List.length_map] at h1
  have hpick : l.getD (argminC (l.map fm)).1 0 = l[(argminC (l.map fm)).1] := by
    rw [List.getD_eq_getElem?_getD, List.getElem?_eq_getElem h1]; rfl
  refine ⟨by rw [hpick]; exact List.getElem_mem h1, ?_⟩
  intro t ht
  obtain ⟨k, hk, rfl⟩ := List.getElem_of_mem ht
  have := h3 k
  rw [← h2] at this
  simp only [List.getD_eq_getElem?_getD, List.getElem?_map, List.getElem?_eq_getElem h1,
    List.getElem?_eq_getElem hk, Option.map_some, Option.getD_some] at this
  rw [hpick]; exact this

theorem pick_spec (M : List (List Cost)) (pos : List (Option Nat)) (i : Nat)
    (h : block pos i ≠ []) :
    pick M pos i ∈ block pos i ∧
    ∀ t ∈ block pos i,
      leC (frameMin (M.getD (pick M pos i) [])) (frameMin (M.getD t [])) = true :=
  argmin_pick (fun t => frameMin (M.getD t [])) (block pos i) h

theorem forceAlignPos_ok {M : List (List Cost)} {labels : List Nat} {blank : Nat}
    {pos : List (Option Nat)} (h : forceAlignPos M labels blank = .ok pos) :
    ∃ p, statePath M labels blank = .ok p ∧ pos = p.map posOf := by
  unfold forceAlignPos at h
  cases hs : statePath M labels blank with
  | error e => simp [hs, Except.map] at h
  | ok p =>
    simp only [hs, Except.map, Except.ok.injEq] at h
    exact ⟨p, rfl, h.symm⟩

theorem statePath_adm {M : List (List Cost)} {labels : List Nat} {blank : Nat} {p : List Nat}
    (h : statePath M labels blank = .ok p) : Adm labels p := by
  obtain ⟨_, _, frames, _, hv⟩ := statePath_ok h
  exact (viterbi_ok hv).2.1

theorem block_ne_nil {labels : List Nat} {p : List Nat} (h : Adm labels p) (i : Nat)
    (hi : i < labels.length) : block (p.map posOf) i ≠ [] := by
  obtain ⟨e, hp, he⟩ := h
  have hm := hp.visits (2 * i + 1) (by omega) (by omega)
  obtain ⟨t, ht⟩ := List.mem_iff_getElem?.mp hm
  intro hnil
  have := (mem_block_iff p t i).mpr ht
  rw [hnil] at this
  simp at this

theorem alignText_spec (M : List (List Cost)) (labels : List Nat) (blank : Nat)
    (ps : List (Option Nat)) (h : alignText M labels blank = .ok ps) :
    ∃ (qs : List Nat) (pos : List (Option Nat)),
      forceAlignPos M labels blank = .ok pos ∧
      ps = qs.map some ∧ qs.length = labels.length ∧ qs.Pairwise (· < ·) ∧
      ∀ i (hi : i < qs.length),
        pos[qs[i]]? = some (some i) ∧
        ∀ t, pos[t]? = some (some i) →
          leC (frameMin (M.getD qs[i] [])) (frameMin (M.getD t [])) = true := by
  rw [alignText_eq] at h
  cases hf : forceAlignPos M labels blank with
  | error e => simp [hf, Except.map] at h
  | ok pos =>
    simp only [hf, Except.map, Except.ok.injEq] at h
    obtain ⟨p, hsp, rfl⟩ := forceAlignPos_ok hf
    have hadm := statePath_adm hsp
    have hsorted : p.Pairwise (· ≤ ·) := by
      obtain ⟨e, hp, _⟩ := hadm; exact hp.sorted
    refine ⟨(List.range labels.length).map (pick M (p.map posOf)), p.map posOf, rfl, ?_,
      by simp, ?_, ?_⟩
    · rw [← h, List.map_map]
      apply List.map_congr_left
      intro i hi
      rw [List.mem_range] at hi
      have hne := block_ne_nil hadm i hi
      simp only [Function.comp_apply]
    · rw [List.pairwise_iff_getElem]
      intro i j hi hj hij
      simp only [List.length_map, List.length_range] at hi hj
      simp only [List.getElem_map, List.getElem_range]
      have h1 := (pick_spec M (p.map posOf) i (block_ne_nil hadm i hi)).1
      have h2 := (pick_spec M (p.map posOf) j (block_ne_nil hadm j hj)).1
      rw [mem_block_iff] at h1 h2
      exact sorted_index_lt hsorted h1 h2 (by omega)
    · intro i hi
      simp only [List.length_map, List.length_range] at hi
      simp only [List.getElem_map, List.getElem_range]
      obtain ⟨h1, h2⟩ := pick_spec M (p.map posOf) i (block_ne_nil hadm i hi)
      refine ⟨by rw [pos_getElem?_iff, ← mem_block_iff]; exact h1, ?_⟩
      intro t ht
      rw [pos_getElem?_iff, ← mem_block_iff] at ht
      exact h2 t ht

end FA
namespace FA
open Ctc

/-! ## 7. Structural failure (finite matrices) -/

/-- number of adjacent equal pairs (same as `C05.repeats`) -/
def reps : List Nat → Nat
  | a :: b :: r => (if a = b then 1 else 0) + reps (b :: r)
  | _ => 0

/-- 1 if the previous symbol is a non-blank equal to the head of the remaining collapse -/
def extra (blank : Nat) : Option Nat → List Nat → Nat
  | some x, y :: _ => if x ≠ blank ∧ x = y then 1 else 0
  | _, _ => 0

theorem extra_le_one (blank : Nat) (prev : Option Nat) (c : List Nat) : extra blank prev c ≤ 1 := by
  unfold extra
  split
  · split <;> omega
  · omega

theorem extra_blank (blank : Nat) (c : List Nat) : extra blank (some blank) c = 0 := by
  cases c <;> simp [extra]

theorem reps_cons (blank s : Nat) (c : List Nat) (hs : s ≠ blank) :
    reps (s :: c) = extra blank (some s) c + reps c := by
  cases c with
  | nil => simp [reps, extra]
  | cons y c => simp [reps, extra, hs]

theorem extra_cons_ne (blank : Nat) (prev : Option Nat) (s : Nat) (c : List Nat)
    (h : prev ≠ some s) : extra blank prev (s :: c) = 0 := by
  cases prev with
  | none => simp [extra]
  | some x =>
    have : x ≠ s := fun hx => h (by rw [hx])
    simp [extra, this]

theorem collapseAux_length_reps (blank : Nat) (prev : Option Nat) (π : List Nat) :
    (collapseAux blank prev π).length + reps (collapseAux blank prev π) +
      extra blank prev (collapseAux blank prev π) ≤ π.length := by
  induction π generalizing prev with
  | nil => simp [collapseAux, reps]; cases prev <;> simp [extra]
  | cons s rest ih =>
    rw [collapseAux_cons]
    by_cases hs : s = blank
    · subst hs
      simp only [true_or, if_true, List.nil_append, List.length_cons]
      have h1 := ih (some s)
      rw [extra_blank] at h1
      have h2 := extra_le_one s prev (collapseAux s (some s) rest)
      omega
    · by_cases hp : prev = some s
      · subst hp
        simp only [hs, false_or, if_true, List.nil_append, List.length_cons]
        have h1 := ih (some s)
        omega
      · simp only [hs, hp, or_self, if_false, List.singleton_append, List.length_cons]
        rw [reps_cons blank s _ hs, extra_cons_ne blank prev s _ hp]
        have h1 := ih (some s)
        omega

theorem collapse_length_reps (blank : Nat) (π : List Nat) :
    (collapse blank π).length + reps (collapse blank π) ≤ π.length := by
  have := collapseAux_length_reps blank none π
  unfold collapse
  omega

/-- shortest path collapsing to the labels -/
def canon (blank : Nat) : List Nat → List Nat
  | a :: b :: r => a :: ((if a = b then [blank] else []) ++ canon blank (b :: r))
  | [a] => [a]
  | [] => []

theorem canon_length (blank : Nat) (ls : List Nat) :
    (canon blank ls).length = ls.length + reps ls := by
  induction ls with
  | nil => simp [canon, reps]
  | cons a r ih =>
    cases r with
    | nil => simp [canon, reps]
    | cons b r =>
      simp only [canon, reps, List.length_cons, List.length_append, ih]
      split <;> simp <;> omega

theorem canon_mem (blank : Nat) (ls : List Nat) : ∀ s ∈ canon blank ls, s = blank ∨ s ∈ ls := by
  induction ls with
  | nil => simp [canon]
  | cons a r ih =>
    cases r with
    | nil => simp [canon]
    | cons b r =>
      intro s hs
      simp only [canon, List.mem_cons, List.mem_append] at hs
      rcases hs with rfl | hs | hs
      · simp
      · split at hs
        · simp at hs; exact Or.inl hs
        · simp at hs
      · rcases ih s hs with h | h
        · exact Or.inl h
        · exact Or.inr (List.mem_cons_of_mem _ h)

theorem collapseAux_canon (blank : Nat) (ls : List Nat) (hb : blank ∉ ls) :
    ∀ prev : Option Nat, (∀ x, prev = some x → ls.head? ≠ some x) →
      collapseAux blank prev (canon blank ls) = ls := by
  induction ls with
  | nil => intro prev _; simp [canon, collapseAux]
  | cons a r ih =>
    intro prev hprev
    have ha : a ≠ blank := fun h => hb (by simp [h])
    have hpa : prev ≠ some a := fun h => hprev a h (by simp)
    have hbr : blank ∉ r := fun h => hb (List.mem_cons_of_mem _ h)
    cases r with
    | nil => simp [canon, collapseAux, ha, hpa]
    | cons b r =>
      simp only [canon, collapseAux_cons, ha, hpa, or_self, if_false, List.singleton_append]
      congr 1
      by_cases hab : a = b
      · subst hab
        simp only [if_true, List.singleton_append, collapseAux_cons, true_or, List.nil_append]
        rw [collapseAux_some_blank]
        exact ih hbr none (by simp)
      · simp only [hab, if_false, List.nil_append]
        apply ih hbr (some a)
        intro x hx
        simp only [Option.some.injEq] at hx
        subst hx
        simp [Ne.symm hab]

theorem collapse_replicate_blank (blank : Nat) (k : Nat) (π : List Nat) :
    collapse blank (List.replicate k blank ++ π) = collapse blank π := by
  induction k with
  | zero => simp
  | succ k ih =>
    rw [List.replicate_succ, List.cons_append]
    unfold collapse at ih ⊢
    rw [collapseAux_cons, collapseAux_some_blank]
    simpa using ih

theorem pathCost_finite (M : List (List Cost)) :
    ∀ π : List Nat, π.length = M.length → (∀ row ∈ M, ∀ c ∈ row, c ≠ none) →
      (∀ row ∈ M, ∀ s ∈ π, s < row.length) → (pathCost M π).isSome = true := by
  induction M with
  | nil => intro π hl _ _; cases π <;> simp [pathCost] at hl ⊢
  | cons row M ih =>
    intro π hl hfin hrng
    cases π with
    | nil => simp at hl
    | cons s π =>
      simp only [pathCost, addC_isSome, Bool.and_eq_true]
      constructor
      · have hs : s < row.length := hrng row (by simp) s (by simp)
        have hc := hfin row (by simp) row[s] (List.getElem_mem hs)
        rw [List.getD_eq_getElem?_getD, List.getElem?_eq_getElem hs, Option.getD_some]
        cases h : row[s] with
        | none => exact absurd h hc
        | some v => rfl
      · apply ih π (by simpa using hl)
          (fun r hr => hfin r (List.mem_cons_of_mem _ hr))
        intro r hr x hx
        exact hrng r (List.mem_cons_of_mem _ hr) x (List.mem_cons_of_mem _ hx)

theorem forceAlign_fails_structural {M : List (List Cost)} {labels : List Nat} {blank : Nat}
    (hb : blank ∉ labels) (hne : labels ≠ []) (hM : M ≠ [])
    (hwf : ∀ row ∈ M, blank < row.length ∧ ∀ l ∈ labels, l < row.length)
    (hfin : ∀ row ∈ M, ∀ c ∈ row, c ≠ none) :
    forceAlign M labels blank = .error .unalignable ↔ M.length < labels.length + reps labels := by
  rw [(forceAlign_fails hb hne hM hwf).1]
  constructor
  · intro hno
    apply Decidable.byContradiction
    intro hlt
    apply hno
    refine ⟨List.replicate (M.length - (labels.length + reps labels)) blank ++ canon blank labels,
      ?_, ?_, ?_⟩
    · rw [List.length_append, List.length_replicate, canon_length]; omega
    · rw [collapse_replicate_blank]
      exact collapseAux_canon blank labels hb none (by simp)
    · apply pathCost_finite _ _ _ hfin
      · intro row hrow s hs
        obtain ⟨h1, h2⟩ := hwf row hrow
        simp only [List.mem_append, List.mem_replicate] at hs
        rcases hs with ⟨_, rfl⟩ | hs
        · exact h1
        · rcases canon_mem blank labels s hs with rfl | h
          · exact h1
          · exact h2 s h
      · rw [List.length_append, List.length_replicate, canon_length]; omega
  · intro hlt ⟨π, hl, hc, _⟩
    have := collapse_length_reps blank π
    rw [hc] at this
    omega

end FA
