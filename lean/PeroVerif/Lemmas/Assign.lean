-- helper lemmas for C11
import Mathlib.Data.List.Nodup
import PeroVerif.Model.Assign
import PeroVerif.Lemmas.Decimal

namespace Asg
open Py

/-! ### strings: splitting at the last non-digit -/

/-- If two strings end in a `P`-block preceded by a non-`P` character, the decompositions agree. -/
theorem split_last (P : Nat → Prop) (a a' : Str) (x x' : Nat) (d d' : Str)
    (hd : ∀ c ∈ d, P c) (hd' : ∀ c ∈ d', P c) (hx : ¬ P x) (hx' : ¬ P x')
    (h : a ++ x :: d = a' ++ x' :: d') : a = a' ∧ x = x' ∧ d = d' := by
  induction a generalizing a' with
  | nil =>
    cases a' with
    | nil => simp at h; simp [h]
    | cons y a'' =>
      simp only [List.nil_append, List.cons_append, List.cons.injEq] at h
      exfalso; apply hx'; apply hd; rw [h.2]; simp
  | cons y a ih =>
    cases a' with
    | nil =>
      simp only [List.nil_append, List.cons_append, List.cons.injEq] at h
      exfalso; apply hx; apply hd'; rw [← h.2]; simp
    | cons y' a'' =>
      simp only [List.cons_append, List.cons.injEq] at h
      obtain ⟨rfl, h⟩ := h
      obtain ⟨rfl, h2⟩ := ih a'' h
      exact ⟨rfl, h2⟩

theorem pad3_digits (n : Nat) : ∀ c ∈ pad3 n, isDigit c = true :=
  padZeros_digits 3 _ (showNat_digits n)

theorem pad3_val (n : Nat) : val (pad3 n) = n := by
  rw [pad3, padZeros_val, showNat_val]

theorem pad3_injective {n m : Nat} (h : pad3 n = pad3 m) : n = m := by
  have := congrArg val h
  rwa [pad3_val, pad3_val] at this

theorem showNat_injective {n m : Nat} (h : showNat n = showNat m) : n = m := by
  have := congrArg val h
  rwa [showNat_val, showNat_val] at this

theorem lineId_eq (r : Str) (i : Nat) : lineId r i = (r ++ [45]) ++ 108 :: pad3 (i + 1) := by
  simp [lineId]

theorem lineId_inj (r r' : Str) (i i' : Nat) (h : lineId r i = lineId r' i') : r = r' ∧ i = i' := by
  rw [lineId_eq, lineId_eq] at h
  obtain ⟨h1, -, h3⟩ := split_last (fun c => isDigit c = true) _ _ _ _ _ _
    (pad3_digits _) (pad3_digits _) (by decide) (by decide) h
  have := pad3_injective h3
  exact ⟨List.append_cancel_right h1, by omega⟩

/-! ### pass ids -/

theorem passLineId_zero (rid : Str) (i : Nat) :
    passLineId rid i 0 = lineId rid i := by
  simp [passLineId]

theorem passLineId_pos (h : Gen.Layout.rotSuffix = true) (rid : Str) (i rot : Nat) (hr : 0 < rot) :
    passLineId rid i rot = lineId rid i ++ 95 :: showNat rot := by
  simp [passLineId, h, hr]

theorem passLineId_inj (h : Gen.Layout.rotSuffix = true) (rid : Str) (i i' rot rot' : Nat)
    (he : passLineId rid i rot = passLineId rid i' rot') : i = i' ∧ rot = rot' := by
  rcases Nat.eq_zero_or_pos rot with rfl | hr <;> rcases Nat.eq_zero_or_pos rot' with rfl | hr'
  · rw [passLineId_zero, passLineId_zero] at he
    exact ⟨(lineId_inj _ _ _ _ he).2, rfl⟩
  · rw [passLineId_zero, passLineId_pos h _ _ _ hr', lineId_eq] at he
    have := split_last (fun c => isDigit c = true) _ _ _ _ _ _
      (pad3_digits _) (showNat_digits _) (by decide) (by decide) he
    exact absurd this.2.1 (by decide)
  · have he := he.symm
    rw [passLineId_zero, passLineId_pos h _ _ _ hr, lineId_eq] at he
    have := split_last (fun c => isDigit c = true) _ _ _ _ _ _
      (pad3_digits _) (showNat_digits _) (by decide) (by decide) he
    exact absurd this.2.1 (by decide)
  · rw [passLineId_pos h _ _ _ hr, passLineId_pos h _ _ _ hr'] at he
    obtain ⟨h1, -, h3⟩ := split_last (fun c => isDigit c = true) _ _ _ _ _ _
      (showNat_digits _) (showNat_digits _) (by decide) (by decide) he
    exact ⟨(lineId_inj _ _ _ _ h1).2, showNat_injective h3⟩

theorem passIds_nodup (h : Gen.Layout.rotSuffix = true) (rid : Str) (rots : List Nat) (placed : Nat → List Nat)
    (hr : rots.Nodup) (hp : ∀ rot ∈ rots, (placed rot).Nodup) :
    (passIds rid rots placed).Nodup := by
  unfold passIds
  rw [List.nodup_flatMap]
  refine ⟨fun rot hrot => ?_, ?_⟩
  · refine (hp rot hrot).map_on ?_
    intro a _ b _ hab
    exact (passLineId_inj h _ _ _ _ _ hab).1
  · refine hr.imp ?_
    intro a b hab
    simp only [Function.onFun]
    rw [List.disjoint_left]
    intro s hs hs'
    simp only [List.mem_map] at hs hs'
    obtain ⟨i, -, rfl⟩ := hs
    obtain ⟨i', -, he⟩ := hs'
    exact hab (passLineId_inj h _ _ _ _ _ he).2.symm

/-! ### pickLongest -/

/-- the fold step of `pickLongest` -/
def plStep (st : Nat × Nat × Nat) (y : Nat) : Nat × Nat × Nat :=
  if st.2.1 < y then (st.2.2, y, st.2.2 + 1) else (st.1, st.2.1, st.2.2 + 1)

/-- invariant of the fold state `(bestIdx, bestVal, nextIdx)` w.r.t. the consumed prefix `l` -/
def PlInv (l : List Nat) (st : Nat × Nat × Nat) : Prop :=
  st.2.2 = l.length ∧ ∃ h : st.1 < l.length, l[st.1] = st.2.1 ∧
    (∀ j (hj : j < l.length), l[j] ≤ st.2.1) ∧ (∀ j (hj : j < st.1), l[j] < st.2.1)

theorem plInv_step (l : List Nat) (st : Nat × Nat × Nat) (y : Nat) (h : PlInv l st) :
    PlInv (l ++ [y]) (plStep st y) := by
  obtain ⟨b, v, n⟩ := st
  obtain ⟨hn, hb, hv, hmax, hfirst⟩ := h
  simp only at hn hb hv hmax hfirst
  subst hn
  unfold plStep
  simp only
  split
  · rename_i hlt
    refine ⟨by simp, by simp, by simp, ?_, ?_⟩
    · intro j hj
      simp only [List.length_append, List.length_singleton] at hj
      rw [List.getElem_append]
      split
      · have := hmax j (by assumption); simp only; omega
      · simp
    · intro j hj
      simp only at hj
      rw [List.getElem_append_left hj]
      have := hmax j hj; simp only; omega
  · rename_i hge
    refine ⟨by simp, by simp; omega, ?_, ?_, ?_⟩
    · simp only; rw [List.getElem_append_left hb]; exact hv
    · intro j hj
      simp only [List.length_append, List.length_singleton] at hj
      rw [List.getElem_append]
      split
      · exact hmax j (by assumption)
      · simp only [List.getElem_singleton]; omega
    · intro j hj
      simp only at hj
      rw [List.getElem_append_left (by omega)]
      exact hfirst j hj

theorem plInv_foldl (xs l : List Nat) (st : Nat × Nat × Nat) (h : PlInv l st) :
    PlInv (l ++ xs) (xs.foldl plStep st) := by
  induction xs generalizing l st with
  | nil => simpa using h
  | cons y ys ih =>
    have := ih (l ++ [y]) (plStep st y) (plInv_step l st y h)
    simpa using this

theorem pickLongest_spec (lens : List Nat) (k : Nat) (h : pickLongest lens = some k) :
    ∃ hk : k < lens.length, (∀ j (hj : j < lens.length), lens[j] ≤ lens[k]) ∧
      ∀ j (hj : j < k), lens[j]'(by omega) < lens[k] := by
  cases lens with
  | nil => simp [pickLongest] at h
  | cons x xs =>
    simp only [pickLongest, Option.some.injEq] at h
    have hinv : PlInv [x] (0, x, 1) := ⟨rfl, by simp, by simp, by simp, by simp⟩
    have := plInv_foldl xs [x] (0, x, 1) hinv
    change PlInv (x :: xs) (xs.foldl plStep (0, x, 1)) at this
    change (xs.foldl plStep (0, x, 1)).1 = k at h
    obtain ⟨-, hb, hv, hmax, hfirst⟩ := this
    subst h
    refine ⟨hb, ?_, ?_⟩
    · intro j hj; rw [hv]; exact hmax j hj
    · intro j hj; rw [hv]; exact hfirst j hj

/-! ### assign -/

variable {G : Type}

/-- what the pair (line `li`, region `ri` with id `rid`, bbox `bb`) contributes -/
def newLine (mask : Nat → Nat → Option G) (lineBoxes : List BBox) (li ri : Nat) (rid : Str) (bb : BBox) :
    Option (Placed G) :=
  match lineBoxes[li]? with
  | some lb => if candidate lb bb then (mask li ri).map fun g => ⟨lineId rid li, g, li⟩ else none
  | none => none

/-- `S'` is `S` with `f ri id bbox` appended to the lines of every slot `ri` -/
def Ext (f : Nat → Str → BBox → List (Placed G)) (S S' : List (Region G)) : Prop :=
  S'.length = S.length ∧ ∀ ri r, S[ri]? = some r →
    ∃ r', S'[ri]? = some r' ∧ r'.id = r.id ∧ r'.bbox = r.bbox ∧ r'.lines = r.lines ++ f ri r.id r.bbox

theorem Ext.refl (S : List (Region G)) : Ext (fun _ _ _ => []) S S :=
  ⟨rfl, fun ri r h => ⟨r, h, rfl, rfl, by simp⟩⟩

theorem Ext.trans {f g : Nat → Str → BBox → List (Placed G)} {S S' S'' : List (Region G)}
    (h1 : Ext f S S') (h2 : Ext g S' S'') : Ext (fun ri id bb => f ri id bb ++ g ri id bb) S S'' := by
  refine ⟨h2.1.trans h1.1, fun ri r h => ?_⟩
  obtain ⟨r', hr', hid', hbb', hl'⟩ := h1.2 ri r h
  obtain ⟨r'', hr'', hid'', hbb'', hl''⟩ := h2.2 ri r' hr'
  refine ⟨r'', hr'', hid''.trans hid', hbb''.trans hbb', ?_⟩
  rw [hl'', hl', hid', hbb', List.append_assoc]

theorem Ext.congr {f g : Nat → Str → BBox → List (Placed G)} {S S' : List (Region G)}
    (h : Ext f S S') (hfg : ∀ ri, ri < S.length → ∀ id bb, f ri id bb = g ri id bb) : Ext g S S' := by
  refine ⟨h.1, fun ri r hr => ?_⟩
  obtain ⟨r', hr', hid', hbb', hl'⟩ := h.2 ri r hr
  have hlt : ri < S.length := (List.getElem?_eq_some_iff.mp hr).1
  exact ⟨r', hr', hid', hbb', by rw [hl', hfg ri hlt]⟩

theorem placeOne_ext (mask : Nat → Nat → Option G) (lineBoxes : List BBox) (li : Nat) (S : List (Region G)) (ri0 : Nat) :
    Ext (fun ri id bb => if ri = ri0 then (newLine mask lineBoxes li ri id bb).toList else []) S
      (placeOne mask lineBoxes li S ri0) := by
  unfold placeOne
  split
  · rename_i r lb hr hlb
    split
    · rename_i hc
      split
      · rename_i g hg
        refine ⟨by simp, fun ri r1 h1 => ?_⟩
        by_cases hri : ri = ri0
        · subst hri
          have : r1 = r := by rw [hr] at h1; exact (Option.some.inj h1).symm
          subst this
          have hlt : ri < S.length := (List.getElem?_eq_some_iff.mp hr).1
          refine ⟨{ r1 with lines := r1.lines ++ [⟨lineId r1.id li, g, li⟩] },
            by rw [List.getElem?_set_self hlt], rfl, rfl, ?_⟩
          simp [newLine, hlb, hc, hg]
        · refine ⟨r1, ?_, rfl, rfl, by simp [hri]⟩
          rw [List.getElem?_set_ne (Ne.symm hri)]; exact h1
      · rename_i hg
        refine ⟨rfl, fun ri r1 h1 => ⟨r1, h1, rfl, rfl, ?_⟩⟩
        by_cases hri : ri = ri0
        · subst hri
          have : r1 = r := by rw [hr] at h1; exact (Option.some.inj h1).symm
          subst this
          simp [newLine, hlb, hc, hg]
        · simp [hri]
    · rename_i hc
      refine ⟨rfl, fun ri r1 h1 => ⟨r1, h1, rfl, rfl, ?_⟩⟩
      by_cases hri : ri = ri0
      · subst hri
        have : r1 = r := by rw [hr] at h1; exact (Option.some.inj h1).symm
        subst this
        simp [newLine, hlb, hc]
      · simp [hri]
  · rename_i hno
    refine ⟨rfl, fun ri r1 h1 => ⟨r1, h1, rfl, rfl, ?_⟩⟩
    by_cases hri : ri = ri0
    · subst hri
      cases hlb : lineBoxes[li]? with
      | none => simp [newLine, hlb]
      | some lb => exact absurd hlb (hno r1 lb h1)
    · simp [hri]

theorem inner_ext (mask : Nat → Nat → Option G) (lineBoxes : List BBox) (li : Nat) (ris : List Nat)
    (hnd : ris.Nodup) (S : List (Region G)) :
    Ext (fun ri id bb => if ri ∈ ris then (newLine mask lineBoxes li ri id bb).toList else []) S
      (ris.foldl (fun acc' ri => placeOne mask lineBoxes li acc' ri) S) := by
  induction ris generalizing S with
  | nil => simpa using Ext.refl S
  | cons ri0 ris ih =>
    rw [List.nodup_cons] at hnd
    rw [List.foldl_cons]
    refine ((placeOne_ext mask lineBoxes li S ri0).trans (ih hnd.2 _)).congr ?_
    intro ri _ id bb
    by_cases h0 : ri = ri0
    · subst h0; simp [hnd.1]
    · simp [h0]

theorem inner_range_ext (mask : Nat → Nat → Option G) (lineBoxes : List BBox) (li : Nat) (S : List (Region G)) :
    Ext (fun ri id bb => (newLine mask lineBoxes li ri id bb).toList) S
      ((List.range S.length).foldl (fun acc' ri => placeOne mask lineBoxes li acc' ri) S) := by
  refine (inner_ext mask lineBoxes li _ List.nodup_range S).congr ?_
  intro ri hri id bb
  simp [hri]

theorem outer_ext (mask : Nat → Nat → Option G) (lineBoxes : List BBox) (regs : List (Region G)) (k : Nat) :
    Ext (fun ri id bb => (List.range k).filterMap fun li => newLine mask lineBoxes li ri id bb) regs
      ((List.range k).foldl
        (fun acc li => (List.range regs.length).foldl (fun acc' ri => placeOne mask lineBoxes li acc' ri) acc) regs) := by
  induction k with
  | zero => simpa using Ext.refl regs
  | succ k ih =>
    rw [List.range_succ, List.foldl_append, List.foldl_cons, List.foldl_nil]
    have hlen := ih.1
    have h2 := inner_range_ext mask lineBoxes k
      ((List.range k).foldl
        (fun acc li => (List.range regs.length).foldl (fun acc' ri => placeOne mask lineBoxes li acc' ri) acc) regs)
    rw [hlen] at h2
    refine (ih.trans h2).congr ?_
    intro ri _ id bb
    rw [List.filterMap_append]
    congr 1

theorem assign_ext (mask : Nat → Nat → Option G) (lineBoxes : List BBox) (regs : List (Region G)) :
    Ext (fun ri id bb => (List.range lineBoxes.length).filterMap fun li => newLine mask lineBoxes li ri id bb) regs
      (assign mask lineBoxes regs) :=
  outer_ext mask lineBoxes regs lineBoxes.length

theorem newLine_filterMap (mask : Nat → Nat → Option G) (lineBoxes : List BBox) (ri : Nat) (rid : Str) (bb : BBox) :
    ((List.range lineBoxes.length).filterMap fun li => newLine mask lineBoxes li ri rid bb) =
    (List.range lineBoxes.length).filterMap fun li =>
      if candidate (lineBoxes.getD li ⟨0, 0, 0, 0⟩) bb then (mask li ri).map fun g => ⟨lineId rid li, g, li⟩ else none := by
  apply List.filterMap_congr
  intro li hli
  rw [List.mem_range] at hli
  simp [newLine, List.getElem?_eq_getElem hli, List.getD_eq_getElem?_getD]

theorem assign_spec' (mask : Nat → Nat → Option G) (lineBoxes : List BBox) (regs : List (Region G)) (ri : Nat)
    (r : Region G) (hr : regs[ri]? = some r) :
    ∃ r', (assign mask lineBoxes regs)[ri]? = some r' ∧ r'.id = r.id ∧ r'.bbox = r.bbox ∧
      r'.lines = r.lines ++ (List.range lineBoxes.length).filterMap fun li =>
        if candidate (lineBoxes.getD li ⟨0, 0, 0, 0⟩) r.bbox then (mask li ri).map fun g => ⟨lineId r.id li, g, li⟩ else none := by
  obtain ⟨r', h1, h2, h3, h4⟩ := (assign_ext mask lineBoxes regs).2 ri r hr
  exact ⟨r', h1, h2, h3, by rw [h4]; simp only []; rw [newLine_filterMap]⟩

theorem newLine_id (mask : Nat → Nat → Option G) (lineBoxes : List BBox) (li ri : Nat) (rid : Str) (bb : BBox)
    (p : Placed G) (h : newLine mask lineBoxes li ri rid bb = some p) : p.id = lineId rid li := by
  unfold newLine at h
  split at h
  · split at h
    · rw [Option.map_eq_some_iff] at h
      obtain ⟨g, -, rfl⟩ := h
      rfl
    · cases h
  · cases h

theorem ids_nodup (mask : Nat → Nat → Option G) (lineBoxes : List BBox) (regs : List (Region G))
    (hid : (regs.map (·.id)).Nodup) (hempty : ∀ r ∈ regs, r.lines = []) :
    (((assign mask lineBoxes regs).flatMap (·.lines)).map (·.id)).Nodup := by
  have hext := assign_ext mask lineBoxes regs
  generalize assign mask lineBoxes regs = S' at hext
  have hmem : ∀ x ∈ S', ∃ ri, x.lines =
      (List.range lineBoxes.length).filterMap fun li => newLine mask lineBoxes li ri x.id x.bbox := by
    intro x hx
    obtain ⟨ri, hri⟩ := List.mem_iff_getElem?.mp hx
    have hlt : ri < regs.length := hext.1 ▸ (List.getElem?_eq_some_iff.mp hri).1
    obtain ⟨r', h1, h2, h3, h4⟩ := hext.2 ri regs[ri] (List.getElem?_eq_getElem hlt)
    have : r' = x := by rw [hri] at h1; exact (Option.some.inj h1).symm
    subst this
    refine ⟨ri, ?_⟩
    rw [h4, hempty _ (List.getElem_mem hlt), h2, h3]; rfl
  have hids : S'.map (·.id) = regs.map (·.id) := by
    apply List.ext_getElem?
    intro i
    rw [List.getElem?_map, List.getElem?_map]
    cases hr : regs[i]? with
    | some r =>
      obtain ⟨r', h1, h2, -, -⟩ := hext.2 i r hr
      rw [h1]; simp [h2]
    | none =>
      have : S'[i]? = none := by
        rw [List.getElem?_eq_none_iff] at hr ⊢
        rw [hext.1]; exact hr
      rw [this]
  rw [List.map_flatMap, List.nodup_flatMap]
  refine ⟨fun x hx => ?_, ?_⟩
  · obtain ⟨ri, hl⟩ := hmem x hx
    rw [hl, List.map_filterMap]
    refine List.Nodup.filterMap ?_ List.nodup_range
    intro a a' b hb hb'
    simp only [Option.mem_def, Option.map_eq_some_iff] at hb hb'
    obtain ⟨p, hp, rfl⟩ := hb
    obtain ⟨p', hp', he⟩ := hb'
    rw [newLine_id _ _ _ _ _ _ _ hp, newLine_id _ _ _ _ _ _ _ hp'] at he
    exact (lineId_inj _ _ _ _ he).2.symm
  · have hnd : (S'.map (·.id)).Nodup := hids ▸ hid
    rw [List.Nodup, List.pairwise_map] at hnd
    refine hnd.imp_of_mem ?_
    intro x y hx hy hne
    simp only [Function.onFun]
    rw [List.disjoint_left]
    intro s hs hs'
    obtain ⟨ri, hl⟩ := hmem x hx
    obtain ⟨ri', hl'⟩ := hmem y hy
    rw [hl] at hs
    rw [hl'] at hs'
    simp only [List.mem_map, List.mem_filterMap] at hs hs'
    obtain ⟨p, ⟨li, -, hp⟩, rfl⟩ := hs
    obtain ⟨p', ⟨li', -, hp'⟩, he⟩ := hs'
    rw [newLine_id _ _ _ _ _ _ _ hp, newLine_id _ _ _ _ _ _ _ hp'] at he
    exact hne (lineId_inj _ _ _ _ he).1.symm

end Asg
