-- helper lemmas for C01
import PeroVerif.Model.PageXml
import PeroVerif.Lemmas.Decimal

namespace PX
open Py

/-! ### mapM over `Except` -/

theorem mapM_ok_of_forall {α β ε : Type} (f : α → Except ε β) (g : α → β) (xs : List α)
    (h : ∀ x ∈ xs, f x = .ok (g x)) : xs.mapM f = .ok (xs.map g) := by
  induction xs with
  | nil => rfl
  | cons x r ih =>
    rw [List.mapM_cons, h x (List.mem_cons_self ..), ih (fun y hy => h y (List.mem_cons_of_mem _ hy))]
    rfl

theorem mapM_map_ok {α β ε : Type} (f : β → Except ε α) (g : α → β) (xs : List α)
    (h : ∀ x ∈ xs, f (g x) = .ok x) : (xs.map g).mapM f = .ok xs := by
  induction xs with
  | nil => rfl
  | cons x r ih =>
    rw [List.map_cons, List.mapM_cons, h x (List.mem_cons_self ..),
      ih (fun y hy => h y (List.mem_cons_of_mem _ hy))]
    rfl

/-! ### points -/

theorem intChar_ne {c : Nat} (h : IntChar c) : c ≠ cComma ∧ c ≠ cSpace := by
  rcases h with h | h
  · exact ⟨(digit_ne h).2.1, (digit_ne h).2.2.1⟩
  · subst h; decide

theorem showPoint_nospace (p : Int × Int) : ∀ c ∈ showPoint p, c ≠ cSpace := by
  intro c hc
  simp only [showPoint, List.mem_append, List.mem_singleton] at hc
  rcases hc with (hc | hc) | hc
  · exact (intChar_ne (showInt_chars _ c hc)).2
  · subst hc; decide
  · exact (intChar_ne (showInt_chars _ c hc)).2

theorem parsePoint_showPoint (p : Int × Int) : parsePoint (showPoint p) = .ok p := by
  have hsplit : splitOn cComma (showPoint p) = [showInt p.1, showInt p.2] := by
    simp only [showPoint, List.append_assoc, List.singleton_append]
    rw [splitOn_append _ _ _ (fun c hc => (intChar_ne (showInt_chars _ c hc)).1)]
    rw [splitOn_nosep _ _ (fun c hc => (intChar_ne (showInt_chars _ c hc)).1)]
  simp only [parsePoint, hsplit, parseInt_showInt]

theorem parsePoints_showPoints (ps : List (Int × Int)) (h : ps ≠ []) :
    parsePoints (showPoints ps) = .ok ps := by
  unfold parsePoints showPoints
  rw [splitOn_join _ _ (by simpa using h)]
  · exact mapM_map_ok _ _ _ (fun p _ => parsePoint_showPoint p)
  · intro w hw
    obtain ⟨p, _, rfl⟩ := List.mem_map.mp hw
    exact showPoint_nospace p

theorem showFixed_nocomma (k n : Nat) : ∀ c ∈ showFixed k n, c ≠ cComma := by
  intro c hc
  rcases showFixed_chars k n c hc with h | h
  · exact (digit_ne h).2.1
  · subst h; decide

theorem parseHeights_showHeights (h : Nat × Nat) : parseHeights (showHeights h) = .ok h := by
  have hv : showHeights h = k_heights_v2_pre ++ ((showFixed 1 h.1 ++ cComma :: showFixed 1 h.2) ++ [cRBr]) := by
    simp [showHeights]
  have h1 : (showHeights h).take k_heights_v2_pre.length = k_heights_v2_pre := by
    rw [hv, List.take_left]
  have h2 : (showHeights h).getLast? = some cRBr := by
    rw [hv, ← List.append_assoc, List.getLast?_append]; simp
  have h3 : ((showHeights h).drop k_heights_v2_pre.length).dropLast = showFixed 1 h.1 ++ cComma :: showFixed 1 h.2 := by
    rw [hv, List.drop_left, List.dropLast_concat]
  have hsplit : splitOn cComma (showFixed 1 h.1 ++ cComma :: showFixed 1 h.2) = [showFixed 1 h.1, showFixed 1 h.2] := by
    rw [splitOn_append _ _ _ (showFixed_nocomma _ _), splitOn_nosep _ _ (showFixed_nocomma _ _)]
  simp only [parseHeights, h1, h2, h3, hsplit, and_self, if_true, parseFixed_showFixed_pos 1 _ (by decide)]

/-! ### tag / attribute names are distinct -/

@[simp] theorem ne_Baseline_Coords : k_Baseline ≠ k_Coords := by decide
@[simp] theorem ne_Baseline_Metadata : k_Baseline ≠ k_Metadata := by decide
@[simp] theorem ne_Baseline_OrderedGroup : k_Baseline ≠ k_OrderedGroup := by decide
@[simp] theorem ne_Baseline_Page : k_Baseline ≠ k_Page := by decide
@[simp] theorem ne_Baseline_PcGts : k_Baseline ≠ k_PcGts := by decide
@[simp] theorem ne_Baseline_ReadingOrder : k_Baseline ≠ k_ReadingOrder := by decide
@[simp] theorem ne_Baseline_RegionRefIndexed : k_Baseline ≠ k_RegionRefIndexed := by decide
@[simp] theorem ne_Baseline_TextEquiv : k_Baseline ≠ k_TextEquiv := by decide
@[simp] theorem ne_Baseline_TextLine : k_Baseline ≠ k_TextLine := by decide
@[simp] theorem ne_Baseline_TextRegion : k_Baseline ≠ k_TextRegion := by decide
@[simp] theorem ne_Baseline_Unicode : k_Baseline ≠ k_Unicode := by decide
@[simp] theorem ne_Coords_Baseline : k_Coords ≠ k_Baseline := by decide
@[simp] theorem ne_Coords_Metadata : k_Coords ≠ k_Metadata := by decide
@[simp] theorem ne_Coords_OrderedGroup : k_Coords ≠ k_OrderedGroup := by decide
@[simp] theorem ne_Coords_Page : k_Coords ≠ k_Page := by decide
@[simp] theorem ne_Coords_PcGts : k_Coords ≠ k_PcGts := by decide
@[simp] theorem ne_Coords_ReadingOrder : k_Coords ≠ k_ReadingOrder := by decide
@[simp] theorem ne_Coords_RegionRefIndexed : k_Coords ≠ k_RegionRefIndexed := by decide
@[simp] theorem ne_Coords_TextEquiv : k_Coords ≠ k_TextEquiv := by decide
@[simp] theorem ne_Coords_TextLine : k_Coords ≠ k_TextLine := by decide
@[simp] theorem ne_Coords_TextRegion : k_Coords ≠ k_TextRegion := by decide
@[simp] theorem ne_Coords_Unicode : k_Coords ≠ k_Unicode := by decide
@[simp] theorem ne_Metadata_Baseline : k_Metadata ≠ k_Baseline := by decide
@[simp] theorem ne_Metadata_Coords : k_Metadata ≠ k_Coords := by decide
@[simp] theorem ne_Metadata_OrderedGroup : k_Metadata ≠ k_OrderedGroup := by decide
@[simp] theorem ne_Metadata_Page : k_Metadata ≠ k_Page := by decide
@[simp] theorem ne_Metadata_PcGts : k_Metadata ≠ k_PcGts := by decide
@[simp] theorem ne_Metadata_ReadingOrder : k_Metadata ≠ k_ReadingOrder := by decide
@[simp] theorem ne_Metadata_RegionRefIndexed : k_Metadata ≠ k_RegionRefIndexed := by decide
@[simp] theorem ne_Metadata_TextEquiv : k_Metadata ≠ k_TextEquiv := by decide
@[simp] theorem ne_Metadata_TextLine : k_Metadata ≠ k_TextLine := by decide
@[simp] theorem ne_Metadata_TextRegion : k_Metadata ≠ k_TextRegion := by decide
@[simp] theorem ne_Metadata_Unicode : k_Metadata ≠ k_Unicode := by decide
@[simp] theorem ne_OrderedGroup_Baseline : k_OrderedGroup ≠ k_Baseline := by decide
@[simp] theorem ne_OrderedGroup_Coords : k_OrderedGroup ≠ k_Coords := by decide
@[simp] theorem ne_OrderedGroup_Metadata : k_OrderedGroup ≠ k_Metadata := by decide
@[simp] theorem ne_OrderedGroup_Page : k_OrderedGroup ≠ k_Page := by decide
@[simp] theorem ne_OrderedGroup_PcGts : k_OrderedGroup ≠ k_PcGts := by decide
@[simp] theorem ne_OrderedGroup_ReadingOrder : k_OrderedGroup ≠ k_ReadingOrder := by decide
@[simp] theorem ne_OrderedGroup_RegionRefIndexed : k_OrderedGroup ≠ k_RegionRefIndexed := by decide
@[simp] theorem ne_OrderedGroup_TextEquiv : k_OrderedGroup ≠ k_TextEquiv := by decide
@[simp] theorem ne_OrderedGroup_TextLine : k_OrderedGroup ≠ k_TextLine := by decide
@[simp] theorem ne_OrderedGroup_TextRegion : k_OrderedGroup ≠ k_TextRegion := by decide
@[simp] theorem ne_OrderedGroup_Unicode : k_OrderedGroup ≠ k_Unicode := by decide
@[simp] theorem ne_Page_Baseline : k_Page ≠ k_Baseline := by decide
@[simp] theorem ne_Page_Coords : k_Page ≠ k_Coords := by decide
@[simp] theorem ne_Page_Metadata : k_Page ≠ k_Metadata := by decide
@[simp] theorem ne_Page_OrderedGroup : k_Page ≠ k_OrderedGroup := by decide
@[simp] theorem ne_Page_PcGts : k_Page ≠ k_PcGts := by decide
@[simp] theorem ne_Page_ReadingOrder : k_Page ≠ k_ReadingOrder := by decide
@[simp] theorem ne_Page_RegionRefIndexed : k_Page ≠ k_RegionRefIndexed := by decide
@[simp] theorem ne_Page_TextEquiv : k_Page ≠ k_TextEquiv := by decide
@[simp] theorem ne_Page_TextLine : k_Page ≠ k_TextLine := by decide
@[simp] theorem ne_Page_TextRegion : k_Page ≠ k_TextRegion := by decide
@[simp] theorem ne_Page_Unicode : k_Page ≠ k_Unicode := by decide
@[simp] theorem ne_PcGts_Baseline : k_PcGts ≠ k_Baseline := by decide
@[simp] theorem ne_PcGts_Coords : k_PcGts ≠ k_Coords := by decide
@[simp] theorem ne_PcGts_Metadata : k_PcGts ≠ k_Metadata := by decide
@[simp] theorem ne_PcGts_OrderedGroup : k_PcGts ≠ k_OrderedGroup := by decide
@[simp] theorem ne_PcGts_Page : k_PcGts ≠ k_Page := by decide
@[simp] theorem ne_PcGts_ReadingOrder : k_PcGts ≠ k_ReadingOrder := by decide
@[simp] theorem ne_PcGts_RegionRefIndexed : k_PcGts ≠ k_RegionRefIndexed := by decide
@[simp] theorem ne_PcGts_TextEquiv : k_PcGts ≠ k_TextEquiv := by decide
@[simp] theorem ne_PcGts_TextLine : k_PcGts ≠ k_TextLine := by decide
@[simp] theorem ne_PcGts_TextRegion : k_PcGts ≠ k_TextRegion := by decide
@[simp] theorem ne_PcGts_Unicode : k_PcGts ≠ k_Unicode := by decide
@[simp] theorem ne_ReadingOrder_Baseline : k_ReadingOrder ≠ k_Baseline := by decide
@[simp] theorem ne_ReadingOrder_Coords : k_ReadingOrder ≠ k_Coords := by decide
@[simp] theorem ne_ReadingOrder_Metadata : k_ReadingOrder ≠ k_Metadata := by decide
@[simp] theorem ne_ReadingOrder_OrderedGroup : k_ReadingOrder ≠ k_OrderedGroup := by decide
@[simp] theorem ne_ReadingOrder_Page : k_ReadingOrder ≠ k_Page := by decide
@[simp] theorem ne_ReadingOrder_PcGts : k_ReadingOrder ≠ k_PcGts := by decide
@[simp] theorem ne_ReadingOrder_RegionRefIndexed : k_ReadingOrder ≠ k_RegionRefIndexed := by decide
@[simp] theorem ne_ReadingOrder_TextEquiv : k_ReadingOrder ≠ k_TextEquiv := by decide
@[simp] theorem ne_ReadingOrder_TextLine : k_ReadingOrder ≠ k_TextLine := by decide
@[simp] theorem ne_ReadingOrder_TextRegion : k_ReadingOrder ≠ k_TextRegion := by decide
@[simp] theorem ne_ReadingOrder_Unicode : k_ReadingOrder ≠ k_Unicode := by decide
@[simp] theorem ne_RegionRefIndexed_Baseline : k_RegionRefIndexed ≠ k_Baseline := by decide
@[simp] theorem ne_RegionRefIndexed_Coords : k_RegionRefIndexed ≠ k_Coords := by decide
@[simp] theorem ne_RegionRefIndexed_Metadata : k_RegionRefIndexed ≠ k_Metadata := by decide
@[simp] theorem ne_RegionRefIndexed_OrderedGroup : k_RegionRefIndexed ≠ k_OrderedGroup := by decide
@[simp] theorem ne_RegionRefIndexed_Page : k_RegionRefIndexed ≠ k_Page := by decide
@[simp] theorem ne_RegionRefIndexed_PcGts : k_RegionRefIndexed ≠ k_PcGts := by decide
@[simp] theorem ne_RegionRefIndexed_ReadingOrder : k_RegionRefIndexed ≠ k_ReadingOrder := by decide
@[simp] theorem ne_RegionRefIndexed_TextEquiv : k_RegionRefIndexed ≠ k_TextEquiv := by decide
@[simp] theorem ne_RegionRefIndexed_TextLine : k_RegionRefIndexed ≠ k_TextLine := by decide
@[simp] theorem ne_RegionRefIndexed_TextRegion : k_RegionRefIndexed ≠ k_TextRegion := by decide
@[simp] theorem ne_RegionRefIndexed_Unicode : k_RegionRefIndexed ≠ k_Unicode := by decide
@[simp] theorem ne_TextEquiv_Baseline : k_TextEquiv ≠ k_Baseline := by decide
@[simp] theorem ne_TextEquiv_Coords : k_TextEquiv ≠ k_Coords := by decide
@[simp] theorem ne_TextEquiv_Metadata : k_TextEquiv ≠ k_Metadata := by decide
@[simp] theorem ne_TextEquiv_OrderedGroup : k_TextEquiv ≠ k_OrderedGroup := by decide
@[simp] theorem ne_TextEquiv_Page : k_TextEquiv ≠ k_Page := by decide
@[simp] theorem ne_TextEquiv_PcGts : k_TextEquiv ≠ k_PcGts := by decide
@[simp] theorem ne_TextEquiv_ReadingOrder : k_TextEquiv ≠ k_ReadingOrder := by decide
@[simp] theorem ne_TextEquiv_RegionRefIndexed : k_TextEquiv ≠ k_RegionRefIndexed := by decide
@[simp] theorem ne_TextEquiv_TextLine : k_TextEquiv ≠ k_TextLine := by decide
@[simp] theorem ne_TextEquiv_TextRegion : k_TextEquiv ≠ k_TextRegion := by decide
@[simp] theorem ne_TextEquiv_Unicode : k_TextEquiv ≠ k_Unicode := by decide
@[simp] theorem ne_TextLine_Baseline : k_TextLine ≠ k_Baseline := by decide
@[simp] theorem ne_TextLine_Coords : k_TextLine ≠ k_Coords := by decide
@[simp] theorem ne_TextLine_Metadata : k_TextLine ≠ k_Metadata := by decide
@[simp] theorem ne_TextLine_OrderedGroup : k_TextLine ≠ k_OrderedGroup := by decide
@[simp] theorem ne_TextLine_Page : k_TextLine ≠ k_Page := by decide
@[simp] theorem ne_TextLine_PcGts : k_TextLine ≠ k_PcGts := by decide
@[simp] theorem ne_TextLine_ReadingOrder : k_TextLine ≠ k_ReadingOrder := by decide
@[simp] theorem ne_TextLine_RegionRefIndexed : k_TextLine ≠ k_RegionRefIndexed := by decide
@[simp] theorem ne_TextLine_TextEquiv : k_TextLine ≠ k_TextEquiv := by decide
@[simp] theorem ne_TextLine_TextRegion : k_TextLine ≠ k_TextRegion := by decide
@[simp] theorem ne_TextLine_Unicode : k_TextLine ≠ k_Unicode := by decide
@[simp] theorem ne_TextRegion_Baseline : k_TextRegion ≠ k_Baseline := by decide
@[simp] theorem ne_TextRegion_Coords : k_TextRegion ≠ k_Coords := by decide
@[simp] theorem ne_TextRegion_Metadata : k_TextRegion ≠ k_Metadata := by decide
@[simp] theorem ne_TextRegion_OrderedGroup : k_TextRegion ≠ k_OrderedGroup := by decide
@[simp] theorem ne_TextRegion_Page : k_TextRegion ≠ k_Page := by decide
@[simp] theorem ne_TextRegion_PcGts : k_TextRegion ≠ k_PcGts := by decide
@[simp] theorem ne_TextRegion_ReadingOrder : k_TextRegion ≠ k_ReadingOrder := by decide
@[simp] theorem ne_TextRegion_RegionRefIndexed : k_TextRegion ≠ k_RegionRefIndexed := by decide
@[simp] theorem ne_TextRegion_TextEquiv : k_TextRegion ≠ k_TextEquiv := by decide
@[simp] theorem ne_TextRegion_TextLine : k_TextRegion ≠ k_TextLine := by decide
@[simp] theorem ne_TextRegion_Unicode : k_TextRegion ≠ k_Unicode := by decide
@[simp] theorem ne_Unicode_Baseline : k_Unicode ≠ k_Baseline := by decide
@[simp] theorem ne_Unicode_Coords : k_Unicode ≠ k_Coords := by decide
@[simp] theorem ne_Unicode_Metadata : k_Unicode ≠ k_Metadata := by decide
@[simp] theorem ne_Unicode_OrderedGroup : k_Unicode ≠ k_OrderedGroup := by decide
@[simp] theorem ne_Unicode_Page : k_Unicode ≠ k_Page := by decide
@[simp] theorem ne_Unicode_PcGts : k_Unicode ≠ k_PcGts := by decide
@[simp] theorem ne_Unicode_ReadingOrder : k_Unicode ≠ k_ReadingOrder := by decide
@[simp] theorem ne_Unicode_RegionRefIndexed : k_Unicode ≠ k_RegionRefIndexed := by decide
@[simp] theorem ne_Unicode_TextEquiv : k_Unicode ≠ k_TextEquiv := by decide
@[simp] theorem ne_Unicode_TextLine : k_Unicode ≠ k_TextLine := by decide
@[simp] theorem ne_Unicode_TextRegion : k_Unicode ≠ k_TextRegion := by decide
@[simp] theorem ne_conf_custom : k_conf ≠ k_custom := by decide
@[simp] theorem ne_conf_id : k_conf ≠ k_id := by decide
@[simp] theorem ne_conf_imageFilename : k_conf ≠ k_imageFilename := by decide
@[simp] theorem ne_conf_imageHeight : k_conf ≠ k_imageHeight := by decide
@[simp] theorem ne_conf_imageWidth : k_conf ≠ k_imageWidth := by decide
@[simp] theorem ne_conf_index : k_conf ≠ k_index := by decide
@[simp] theorem ne_conf_points : k_conf ≠ k_points := by decide
@[simp] theorem ne_conf_regionRef : k_conf ≠ k_regionRef := by decide
@[simp] theorem ne_conf_type : k_conf ≠ k_type := by decide
@[simp] theorem ne_custom_conf : k_custom ≠ k_conf := by decide
@[simp] theorem ne_custom_id : k_custom ≠ k_id := by decide
@[simp] theorem ne_custom_imageFilename : k_custom ≠ k_imageFilename := by decide
@[simp] theorem ne_custom_imageHeight : k_custom ≠ k_imageHeight := by decide
@[simp] theorem ne_custom_imageWidth : k_custom ≠ k_imageWidth := by decide
@[simp] theorem ne_custom_index : k_custom ≠ k_index := by decide
@[simp] theorem ne_custom_points : k_custom ≠ k_points := by decide
@[simp] theorem ne_custom_regionRef : k_custom ≠ k_regionRef := by decide
@[simp] theorem ne_custom_type : k_custom ≠ k_type := by decide
@[simp] theorem ne_id_conf : k_id ≠ k_conf := by decide
@[simp] theorem ne_id_custom : k_id ≠ k_custom := by decide
@[simp] theorem ne_id_imageFilename : k_id ≠ k_imageFilename := by decide
@[simp] theorem ne_id_imageHeight : k_id ≠ k_imageHeight := by decide
@[simp] theorem ne_id_imageWidth : k_id ≠ k_imageWidth := by decide
@[simp] theorem ne_id_index : k_id ≠ k_index := by decide
@[simp] theorem ne_id_points : k_id ≠ k_points := by decide
@[simp] theorem ne_id_regionRef : k_id ≠ k_regionRef := by decide
@[simp] theorem ne_id_type : k_id ≠ k_type := by decide
@[simp] theorem ne_imageFilename_conf : k_imageFilename ≠ k_conf := by decide
@[simp] theorem ne_imageFilename_custom : k_imageFilename ≠ k_custom := by decide
@[simp] theorem ne_imageFilename_id : k_imageFilename ≠ k_id := by decide
@[simp] theorem ne_imageFilename_imageHeight : k_imageFilename ≠ k_imageHeight := by decide
@[simp] theorem ne_imageFilename_imageWidth : k_imageFilename ≠ k_imageWidth := by decide
@[simp] theorem ne_imageFilename_index : k_imageFilename ≠ k_index := by decide
@[simp] theorem ne_imageFilename_points : k_imageFilename ≠ k_points := by decide
@[simp] theorem ne_imageFilename_regionRef : k_imageFilename ≠ k_regionRef := by decide
@[simp] theorem ne_imageFilename_type : k_imageFilename ≠ k_type := by decide
@[simp] theorem ne_imageHeight_conf : k_imageHeight ≠ k_conf := by decide
@[simp] theorem ne_imageHeight_custom : k_imageHeight ≠ k_custom := by decide
@[simp] theorem ne_imageHeight_id : k_imageHeight ≠ k_id := by decide
@[simp] theorem ne_imageHeight_imageFilename : k_imageHeight ≠ k_imageFilename := by decide
@[simp] theorem ne_imageHeight_imageWidth : k_imageHeight ≠ k_imageWidth := by decide
@[simp] theorem ne_imageHeight_index : k_imageHeight ≠ k_index := by decide
@[simp] theorem ne_imageHeight_points : k_imageHeight ≠ k_points := by decide
@[simp] theorem ne_imageHeight_regionRef : k_imageHeight ≠ k_regionRef := by decide
@[simp] theorem ne_imageHeight_type : k_imageHeight ≠ k_type := by decide
@[simp] theorem ne_imageWidth_conf : k_imageWidth ≠ k_conf := by decide
@[simp] theorem ne_imageWidth_custom : k_imageWidth ≠ k_custom := by decide
@[simp] theorem ne_imageWidth_id : k_imageWidth ≠ k_id := by decide
@[simp] theorem ne_imageWidth_imageFilename : k_imageWidth ≠ k_imageFilename := by decide
@[simp] theorem ne_imageWidth_imageHeight : k_imageWidth ≠ k_imageHeight := by decide
@[simp] theorem ne_imageWidth_index : k_imageWidth ≠ k_index := by decide
@[simp] theorem ne_imageWidth_points : k_imageWidth ≠ k_points := by decide
@[simp] theorem ne_imageWidth_regionRef : k_imageWidth ≠ k_regionRef := by decide
@[simp] theorem ne_imageWidth_type : k_imageWidth ≠ k_type := by decide
@[simp] theorem ne_index_conf : k_index ≠ k_conf := by decide
@[simp] theorem ne_index_custom : k_index ≠ k_custom := by decide
@[simp] theorem ne_index_id : k_index ≠ k_id := by decide
@[simp] theorem ne_index_imageFilename : k_index ≠ k_imageFilename := by decide
@[simp] theorem ne_index_imageHeight : k_index ≠ k_imageHeight := by decide
@[simp] theorem ne_index_imageWidth : k_index ≠ k_imageWidth := by decide
@[simp] theorem ne_index_points : k_index ≠ k_points := by decide
@[simp] theorem ne_index_regionRef : k_index ≠ k_regionRef := by decide
@[simp] theorem ne_index_type : k_index ≠ k_type := by decide
@[simp] theorem ne_points_conf : k_points ≠ k_conf := by decide
@[simp] theorem ne_points_custom : k_points ≠ k_custom := by decide
@[simp] theorem ne_points_id : k_points ≠ k_id := by decide
@[simp] theorem ne_points_imageFilename : k_points ≠ k_imageFilename := by decide
@[simp] theorem ne_points_imageHeight : k_points ≠ k_imageHeight := by decide
@[simp] theorem ne_points_imageWidth : k_points ≠ k_imageWidth := by decide
@[simp] theorem ne_points_index : k_points ≠ k_index := by decide
@[simp] theorem ne_points_regionRef : k_points ≠ k_regionRef := by decide
@[simp] theorem ne_points_type : k_points ≠ k_type := by decide
@[simp] theorem ne_regionRef_conf : k_regionRef ≠ k_conf := by decide
@[simp] theorem ne_regionRef_custom : k_regionRef ≠ k_custom := by decide
@[simp] theorem ne_regionRef_id : k_regionRef ≠ k_id := by decide
@[simp] theorem ne_regionRef_imageFilename : k_regionRef ≠ k_imageFilename := by decide
@[simp] theorem ne_regionRef_imageHeight : k_regionRef ≠ k_imageHeight := by decide
@[simp] theorem ne_regionRef_imageWidth : k_regionRef ≠ k_imageWidth := by decide
@[simp] theorem ne_regionRef_index : k_regionRef ≠ k_index := by decide
@[simp] theorem ne_regionRef_points : k_regionRef ≠ k_points := by decide
@[simp] theorem ne_regionRef_type : k_regionRef ≠ k_type := by decide
@[simp] theorem ne_type_conf : k_type ≠ k_conf := by decide
@[simp] theorem ne_type_custom : k_type ≠ k_custom := by decide
@[simp] theorem ne_type_id : k_type ≠ k_id := by decide
@[simp] theorem ne_type_imageFilename : k_type ≠ k_imageFilename := by decide
@[simp] theorem ne_type_imageHeight : k_type ≠ k_imageHeight := by decide
@[simp] theorem ne_type_imageWidth : k_type ≠ k_imageWidth := by decide
@[simp] theorem ne_type_index : k_type ≠ k_index := by decide
@[simp] theorem ne_type_points : k_type ≠ k_points := by decide
@[simp] theorem ne_type_regionRef : k_type ≠ k_regionRef := by decide

def canonLine (i : Nat) (l : Line) : Line := { l with index := some (l.index.getD (i : Int)) }


@[simp] theorem tag_node (t a x c) : (Xml.node t a x c).tag = t := rfl
@[simp] theorem attrs_node (t a x c) : (Xml.node t a x c).attrs = a := rfl
@[simp] theorem text_node (t a x c) : (Xml.node t a x c).text = x := rfl
@[simp] theorem children_node (t a x c) : (Xml.node t a x c).children = c := rfl

theorem getCoords_points (ps : List (Int × Int)) (h : ps ≠ []) (t : Str) :
    getCoords (.node t [(k_points, showPoints ps)] none []) = .ok ps := by
  simp [getCoords, attr?, parsePoints_showPoints ps h]

theorem importText_textEquiv_some (tag : Str) (attrs : List (Str × Str)) (pre post : List Xml)
    (hpre : pre.find? (fun c => c.tag = k_TextEquiv) = none) (c : Nat) (t : Str) :
    importText (.node tag attrs none (pre ++ textEquiv (some c) t :: post)) = .ok (some t, some c) := by
  simp [importText, findChild, List.find?_append, hpre, textEquiv, attr?,  parseFixed_showFixed_pos 3 c (by decide)]

theorem importText_textEquiv_none (tag : Str) (attrs : List (Str × Str)) (pre post : List Xml)
    (hpre : pre.find? (fun c => c.tag = k_TextEquiv) = none) (t : Str) :
    importText (.node tag attrs none (pre ++ textEquiv none t :: post)) = .ok (some t, none) := by
  simp [importText, findChild, List.find?_append, hpre, textEquiv, attr?, ]

theorem importText_absent (tag : Str) (attrs : List (Str × Str)) (cs : List Xml)
    (h : cs.find? (fun c => c.tag = k_TextEquiv) = none) :
    importText (.node tag attrs none cs) = .ok (none, none) := by
  simp [importText, findChild, h]

theorem importLine_exportLine (i : Nat) (l : Line) (hb : l.baseline ≠ []) (hp : l.polygon ≠ [])
    (hc : l.text = none → l.conf = none) :
    importLine i (exportLine i l) = .ok (canonLine i l) := by
  obtain ⟨id, index, baseline, polygon, heights, text, conf⟩ := l
  simp only at hb hp hc
  have htext : importText (exportLine i ⟨id, index, baseline, polygon, heights, text, conf⟩) = .ok (text, conf) := by
    unfold exportLine
    cases text with
    | none => simp [hc rfl, importText_absent]
    | some t =>
      cases conf with
      | none => exact importText_textEquiv_none _ _ _ [] (by simp) t
      | some c => exact importText_textEquiv_some _ _ _ [] (by simp) c t
  unfold importLine
  rw [htext]
  cases heights <;>
  simp [exportLine, attr?, findChild, getCoords_points, hb, hp, parseInt_showInt, canonLine,
    parseHeights_showHeights, bind, Except.bind, pure, Except.pure, Except.map]

theorem importLines_exportLines (i : Nat) (ls : List Line)
    (h : ∀ l ∈ ls, l.baseline ≠ [] ∧ l.polygon ≠ [] ∧ (l.text = none → l.conf = none)) :
    importLines i (exportLines i ls) = .ok (canonLines i ls) := by
  induction ls generalizing i with
  | nil => rfl
  | cons l ls ih =>
    have hl := h l List.mem_cons_self
    simp only [exportLines, importLines, canonLines]
    rw [importLine_exportLine i l hl.1 hl.2.1 hl.2.2, ih (i + 1) (fun x hx => h x (List.mem_cons_of_mem _ hx))]
    rfl

/-! ### iterDesc -/

theorem iterDesc_succ (t : Str) (f : Nat) (x : Xml) :
    iterDesc t (f + 1) x = x.children.flatMap fun c => (if c.tag = t then [c] else []) ++ iterDesc t f c := rfl

theorem iterDesc_leaf (t : Str) (f : Nat) (tag a x) : iterDesc t f (.node tag a x []) = [] := by
  cases f <;> simp [iterDesc]

theorem iterDesc_textEquiv (t : Str) (f : Nat) (c : Option Nat) (s : Str) (h : k_Unicode ≠ t) :
    iterDesc t f (textEquiv c s) = [] := by
  cases f <;> simp [iterDesc, textEquiv, iterDesc_leaf, h]

theorem exportLine_tag (i : Nat) (l : Line) : (exportLine i l).tag = k_TextLine := rfl
theorem exportRegion_tag (r : Region) : (exportRegion r).tag = k_TextRegion := rfl
theorem textEquiv_tag (c : Option Nat) (s : Str) : (textEquiv c s).tag = k_TextEquiv := rfl

theorem iterDesc_exportLine (t : Str) (f i : Nat) (l : Line) (h1 : k_Unicode ≠ t) (h2 : k_TextEquiv ≠ t)
    (h3 : k_Coords ≠ t) (h4 : k_Baseline ≠ t) : iterDesc t f (exportLine i l) = [] := by
  cases f with
  | zero => rfl
  | succ f =>
    cases hl : l.text <;>
    simp [iterDesc_succ, exportLine, hl, iterDesc_leaf, iterDesc_textEquiv, textEquiv_tag, h1, h2, h3, h4]


theorem flatMap_exportLines_self (f i : Nat) (ls : List Line) :
    ((exportLines i ls).flatMap fun c => (if c.tag = k_TextLine then [c] else []) ++ iterDesc k_TextLine f c)
      = exportLines i ls := by
  induction ls generalizing i with
  | nil => rfl
  | cons l ls ih =>
    simp [exportLines, exportLine_tag, iterDesc_exportLine, ih (i + 1)]

theorem flatMap_exportLines_nil (t : Str) (f i : Nat) (ls : List Line) (h0 : k_TextLine ≠ t)
    (h1 : k_Unicode ≠ t) (h2 : k_TextEquiv ≠ t) (h3 : k_Coords ≠ t) (h4 : k_Baseline ≠ t) :
    ((exportLines i ls).flatMap fun c => (if c.tag = t then [c] else []) ++ iterDesc t f c) = [] := by
  induction ls generalizing i with
  | nil => rfl
  | cons l ls ih =>
    simp [exportLines, exportLine_tag, iterDesc_exportLine, ih (i + 1), h0, h1, h2, h3, h4]

theorem iterDesc_TextLine_exportRegion (f : Nat) (r : Region) :
    iterDesc k_TextLine (f + 1) (exportRegion r) = exportLines 0 r.lines := by
  cases ht : r.text <;>
  simp [iterDesc_succ, exportRegion, ht, iterDesc_leaf, iterDesc_textEquiv, textEquiv_tag,
    flatMap_exportLines_self]

theorem iterDesc_exportRegion_nil (t : Str) (f : Nat) (r : Region) (h0 : k_TextLine ≠ t)
    (h1 : k_Unicode ≠ t) (h2 : k_TextEquiv ≠ t) (h3 : k_Coords ≠ t) (h4 : k_Baseline ≠ t) :
    iterDesc t f (exportRegion r) = [] := by
  cases f with
  | zero => rfl
  | succ f =>
    cases ht : r.text <;>
    simp [iterDesc_succ, exportRegion, ht, iterDesc_leaf, iterDesc_textEquiv, textEquiv_tag,
      flatMap_exportLines_nil, h0, h1, h2, h3, h4]

theorem find?_exportLines (t : Str) (i : Nat) (ls : List Line) (h : k_TextLine ≠ t) :
    (exportLines i ls).find? (fun c => c.tag = t) = none := by
  induction ls generalizing i with
  | nil => rfl
  | cons l ls ih => simp [exportLines, exportLine_tag, h, ih (i + 1)]

def canonRegion (r : Region) : Region := { r with lines := canonLines 0 r.lines }

theorem importRegion_exportRegion (r : Region) (hp : r.polygon ≠ [])
    (h : ∀ l ∈ r.lines, l.baseline ≠ [] ∧ l.polygon ≠ [] ∧ (l.text = none → l.conf = none)) :
    importRegion (exportRegion r) = .ok (canonRegion r) := by
  have hlines := importLines_exportLines 0 r.lines h
  have hit := iterDesc_TextLine_exportRegion 7 r
  obtain ⟨id, rtype, polygon, text, lines⟩ := r
  simp only at hp hlines hit
  have htext : ∃ c, importText (exportRegion ⟨id, rtype, polygon, text, lines⟩) = .ok (text, c) := by
    unfold exportRegion
    cases text with
    | none => exact ⟨none, importText_absent _ _ _ (by simp [find?_exportLines])⟩
    | some t => exact ⟨none, importText_textEquiv_none _ _ [_] _ (by simp) t⟩
  obtain ⟨c, htext⟩ := htext
  unfold importRegion
  rw [htext, hit, hlines]
  cases rtype <;>
  simp [exportRegion, attr?, findChild, getCoords_points, hp, canonRegion,
    bind, Except.bind, pure, Except.pure]

/-! ### reading order element -/

def mkRef (kv : Str × Int) : Xml :=
  .node k_RegionRefIndexed [(k_regionRef, kv.1), (k_index, showInt kv.2)] none []

theorem exportRO_eq (ro : Dict Str Int) : exportRO ro =
    .node k_ReadingOrder [] none [.node k_OrderedGroup [(k_id, k_reading_order)] none (ro.map mkRef)] := rfl

theorem flatMap_refs_self (f : Nat) (ro : List (Str × Int)) :
    ((ro.map mkRef).flatMap fun c => (if c.tag = k_RegionRefIndexed then [c] else []) ++
      iterDesc k_RegionRefIndexed f c) = ro.map mkRef := by
  induction ro with
  | nil => rfl
  | cons kv ro ih =>
    rw [List.map_cons, List.flatMap_cons, ih]
    simp [mkRef, iterDesc_leaf]

theorem flatMap_refs_nil (t : Str) (f : Nat) (ro : List (Str × Int)) (h : k_RegionRefIndexed ≠ t) :
    ((ro.map mkRef).flatMap fun c => (if c.tag = t then [c] else []) ++ iterDesc t f c) = [] := by
  induction ro with
  | nil => rfl
  | cons kv ro ih =>
    rw [List.map_cons, List.flatMap_cons, ih]
    simp [mkRef, iterDesc_leaf, h]

theorem iterDesc_exportRO_nil (t : Str) (f : Nat) (ro : Dict Str Int) (h1 : k_OrderedGroup ≠ t)
    (h2 : k_RegionRefIndexed ≠ t) : iterDesc t f (exportRO ro) = [] := by
  cases f with
  | zero => rfl
  | succ f =>
    cases f with
    | zero => simp [exportRO_eq, h1, iterDesc]
    | succ f => simp [exportRO_eq, iterDesc_succ, h1, flatMap_refs_nil, h2]

theorem iterDesc_node (t : Str) (f : Nat) (tag a x cs) :
    iterDesc t (f + 1) (.node tag a x cs) =
      cs.flatMap fun c => (if c.tag = t then [c] else []) ++ iterDesc t f c := rfl

theorem iterDesc_OG_exportRO (f : Nat) (ro : Dict Str Int) :
    iterDesc k_OrderedGroup (f + 1) (exportRO ro) =
      [.node k_OrderedGroup [(k_id, k_reading_order)] none (ro.map mkRef)] := by
  rw [exportRO_eq, iterDesc_node]
  cases f with
  | zero => simp [iterDesc]
  | succ f => simp [iterDesc_node, flatMap_refs_nil]

theorem refs_exportRO (f g : Nat) (ro : Dict Str Int) :
    ((iterDesc k_OrderedGroup (f + 1) (exportRO ro)).flatMap fun og => iterDesc k_RegionRefIndexed (g + 1) og)
      = ro.map mkRef := by
  rw [iterDesc_OG_exportRO]
  simp [iterDesc_node, flatMap_refs_self]

theorem flatMap_regions_self (f : Nat) (rs : List Region) :
    ((rs.map exportRegion).flatMap fun c => (if c.tag = k_TextRegion then [c] else []) ++
      iterDesc k_TextRegion f c) = rs.map exportRegion := by
  induction rs with
  | nil => rfl
  | cons r rs ih =>
    rw [List.map_cons, List.flatMap_cons, ih]
    simp [exportRegion_tag, iterDesc_exportRegion_nil]

theorem flatMap_regions_nil (t : Str) (f : Nat) (rs : List Region) (h : k_TextRegion ≠ t) (h0 : k_TextLine ≠ t)
    (h1 : k_Unicode ≠ t) (h2 : k_TextEquiv ≠ t) (h3 : k_Coords ≠ t) (h4 : k_Baseline ≠ t) :
    ((rs.map exportRegion).flatMap fun c => (if c.tag = t then [c] else []) ++ iterDesc t f c) = [] := by
  induction rs with
  | nil => rfl
  | cons r rs ih =>
    rw [List.map_cons, List.flatMap_cons, ih]
    simp [exportRegion_tag, iterDesc_exportRegion_nil, h, h0, h1, h2, h3, h4]

/-! ### dict rebuilt by insertion -/

theorem set_append_new (d : Dict Str Int) (k : Str) (v : Int) (h : k ∉ d.map (·.1)) :
    Dict.set d k v = d ++ [(k, v)] := by
  induction d with
  | nil => rfl
  | cons kv d ih =>
    obtain ⟨k', v'⟩ := kv
    simp only [List.map_cons, List.mem_cons, not_or] at h
    simp [Dict.set, Ne.symm h.1, ih h.2]

theorem foldl_set_append (l acc : Dict Str Int) (hnd : (l.map (·.1)).Nodup)
    (hdis : ∀ k ∈ l.map (·.1), k ∉ acc.map (·.1)) :
    l.foldl (fun d kv => Dict.set d kv.1 kv.2) acc = acc ++ l := by
  induction l generalizing acc with
  | nil => simp
  | cons kv l ih =>
    simp only [List.map_cons, List.nodup_cons] at hnd
    rw [List.foldl_cons, set_append_new _ _ _ (hdis kv.1 (by simp)), ih _ hnd.2]
    · simp
    · intro k hk
      simp only [List.map_append, List.map_cons, List.map_nil, List.mem_append, List.mem_singleton, not_or]
      refine ⟨hdis k (by simp [hk]), ?_⟩
      rintro rfl; exact hnd.1 hk

/-- regions as listed in the exported document -/
def docRegions (p : Page) : List Region :=
  match p.ro with | some ro => sortRO ro p.regions | none => p.regions

theorem exportPageElem_eq (p : Page) : exportPageElem p =
    .node k_Page [(k_imageFilename, p.id), (k_imageWidth, showInt p.width), (k_imageHeight, showInt p.height)]
      none ((match p.ro with | some ro => [exportRO ro] | none => []) ++ (docRegions p).map exportRegion) := rfl

theorem exportRO_tag (ro : Dict Str Int) : (exportRO ro).tag = k_ReadingOrder := rfl

theorem foldlM_refs_gen (step : Dict Str Int → Xml → Except Err (Dict Str Int))
    (hstep : ∀ d kv, step d (mkRef kv) = .ok (Dict.set d kv.1 kv.2))
    (ro : List (Str × Int)) (acc : Dict Str Int) :
    (ro.map mkRef).foldlM step acc = .ok (ro.foldl (fun d kv => Dict.set d kv.1 kv.2) acc) := by
  induction ro generalizing acc with
  | nil => rfl
  | cons kv ro ih =>
    rw [List.map_cons, List.foldlM_cons, hstep]
    exact ih _

theorem importRO_exportPageElem (p : Page) (h : ∀ ro, p.ro = some ro → (ro.map (·.1)).Nodup) :
    importRO (exportPageElem p) = .ok (p.ro.getD []) := by
  unfold importRO
  rw [exportPageElem_eq]
  have h8 : (8 : Nat) = 7 + 1 := rfl
  cases hro : p.ro with
  | none =>
    have : iterDesc k_ReadingOrder 8 (Xml.node k_Page
        [(k_imageFilename, p.id), (k_imageWidth, showInt p.width), (k_imageHeight, showInt p.height)] none
        ([] ++ (docRegions p).map exportRegion)) = [] := by
      rw [h8, iterDesc_node, List.nil_append, flatMap_regions_nil] <;> simp
    simp only [this]
    rfl
  | some ro =>
    have : iterDesc k_ReadingOrder 8 (Xml.node k_Page
        [(k_imageFilename, p.id), (k_imageWidth, showInt p.width), (k_imageHeight, showInt p.height)] none
        ([exportRO ro] ++ (docRegions p).map exportRegion)) = [exportRO ro] := by
      rw [h8, iterDesc_node, List.flatMap_append, flatMap_regions_nil] <;>
      simp [exportRO_tag, iterDesc_exportRO_nil]
    simp only [this, List.flatMap_cons, List.flatMap_nil, List.append_nil]
    rw [refs_exportRO 7 7, foldlM_refs_gen, foldl_set_append _ _ (h ro hro) (by simp)]
    · simp
    · intro d kv
      simp [mkRef, attr?, parseInt_showInt]

theorem iterDesc_TextRegion_exportPage (v : Version) (p : Page) :
    iterDesc k_TextRegion 8 (exportPage v p) = (docRegions p).map exportRegion := by
  have h8 : (8 : Nat) = 6 + 1 + 1 := rfl
  unfold exportPage
  rw [h8, iterDesc_node, exportPageElem_eq]
  cases v <;> cases p.ro <;>
  simp [iterDesc_node, flatMap_regions_self, exportRO_tag, iterDesc_exportRO_nil]

theorem findChild_Page_exportPage (v : Version) (p : Page) :
    findChild (exportPage v p) k_Page = some (exportPageElem p) := by
  cases v <;> simp [exportPage, findChild, exportPageElem_eq]

/-! ### reading-order sort -/

theorem keyLe_refl (a : Option Int) : keyLe a a = true := by
  cases a <;> simp [keyLe]

theorem keyLe_trans (a b c : Option Int) (h1 : keyLe a b = true) (h2 : keyLe b c = true) : keyLe a c = true := by
  cases a <;> cases b <;> cases c <;> simp_all [keyLe] <;> omega

theorem keyLe_total (a b : Option Int) : (keyLe a b || keyLe b a) = true := by
  cases a <;> cases b <;> simp [keyLe] <;> omega

def roLe (ro : Dict Str Int) (a b : Region) : Bool := keyLe (roKey ro a) (roKey ro b)

theorem sortRO_eq (ro : Dict Str Int) (rs : List Region) : sortRO ro rs = rs.mergeSort (roLe ro) := rfl

theorem roLe_trans (ro : Dict Str Int) (a b c : Region) : roLe ro a b = true → roLe ro b c = true → roLe ro a c = true :=
  keyLe_trans _ _ _

theorem roLe_total (ro : Dict Str Int) (a b : Region) : (roLe ro a b || roLe ro b a) = true := keyLe_total _ _

theorem sortRO_perm' (ro : Dict Str Int) (rs : List Region) : (sortRO ro rs).Perm rs :=
  List.mergeSort_perm _ _

theorem sortRO_pairwise (ro : Dict Str Int) (rs : List Region) :
    (sortRO ro rs).Pairwise fun a b => keyLe (roKey ro a) (roKey ro b) = true :=
  List.pairwise_mergeSort (le := roLe ro) (roLe_trans ro) (roLe_total ro) rs

theorem sortRO_idem (ro : Dict Str Int) (rs : List Region) : sortRO ro (sortRO ro rs) = sortRO ro rs :=
  List.mergeSort_of_pairwise (le := roLe ro) (sortRO_pairwise ro rs)

theorem sortRO_map (ro : Dict Str Int) (f : Region → Region) (hf : ∀ r, (f r).id = r.id) (rs : List Region) :
    sortRO ro (rs.map f) = (sortRO ro rs).map f := by
  rw [sortRO_eq, sortRO_eq]
  symm
  apply List.map_mergeSort
  intro a _ b _
  simp [roLe, roKey, hf]

theorem sortRO_stable' (ro : Dict Str Int) (rs : List Region) (k : Option Int) :
    (sortRO ro rs).filter (fun r => roKey ro r = k) = rs.filter (fun r => roKey ro r = k) := by
  symm
  apply List.Sublist.eq_of_length
  · have h1 : (rs.filter (fun r => roKey ro r = k)).Sublist (sortRO ro rs) := by
      apply List.sublist_mergeSort (le := roLe ro) (roLe_trans ro) (roLe_total ro)
      · apply List.pairwise_of_forall_mem_list
        intro a ha b hb
        have ha := (List.mem_filter.mp ha).2
        have hb := (List.mem_filter.mp hb).2
        simp only [decide_eq_true_eq] at ha hb
        simp [roLe, ha, hb, keyLe_refl]
      · exact List.filter_sublist
    have h2 := h1.filter (fun r => decide (roKey ro r = k))
    simpa [List.filter_filter] using h2
  · exact ((sortRO_perm' ro rs).filter _).length_eq.symm

/-! ### the page round trip -/

theorem mapM_map_ok' {α β γ ε : Type} (f : β → Except ε γ) (e : α → β) (g : α → γ) (xs : List α)
    (h : ∀ x ∈ xs, f (e x) = .ok (g x)) : (xs.map e).mapM f = .ok (xs.map g) := by
  induction xs with
  | nil => rfl
  | cons x r ih =>
    rw [List.map_cons, List.mapM_cons, h x (List.mem_cons_self ..),
      ih (fun y hy => h y (List.mem_cons_of_mem _ hy))]
    rfl

theorem canon_eq (p : Page) : canon p =
    { p with regions := (sortRO (p.ro.getD []) p.regions).map canonRegion, ro := some (p.ro.getD []) } := rfl

theorem mem_docRegions (p : Page) (r : Region) : r ∈ docRegions p ↔ r ∈ p.regions := by
  unfold docRegions
  cases p.ro with
  | none => rfl
  | some ro => exact (sortRO_perm' ro p.regions).mem_iff

theorem canonRegion_id (r : Region) : (canonRegion r).id = r.id := rfl

theorem sortRO_docRegions (p : Page) :
    sortRO (p.ro.getD []) ((docRegions p).map canonRegion) = (sortRO (p.ro.getD []) p.regions).map canonRegion := by
  rw [sortRO_map _ _ canonRegion_id]
  unfold docRegions
  cases p.ro with
  | none => rfl
  | some ro => simp only [Option.getD_some, sortRO_idem]

theorem importPage_exportPage (v : Version) (p : Page)
    (hreg : ∀ r ∈ p.regions, r.polygon ≠ [] ∧
      ∀ l ∈ r.lines, l.baseline ≠ [] ∧ l.polygon ≠ [] ∧ (l.text = none → l.conf = none))
    (hro : ∀ ro, p.ro = some ro → (ro.map (·.1)).Nodup) :
    importPage (exportPage v p) = .ok (canon p) := by
  have hregions : (iterDesc k_TextRegion 8 (exportPage v p)).mapM importRegion
      = .ok ((docRegions p).map canonRegion) := by
    rw [iterDesc_TextRegion_exportPage]
    apply mapM_map_ok'
    intro r hr
    have := hreg r ((mem_docRegions p r).mp hr)
    exact importRegion_exportRegion r this.1 this.2
  unfold importPage
  rw [findChild_Page_exportPage, hregions]
  simp only [bind, Except.bind, pure, Except.pure]
  rw [importRO_exportPageElem p hro]
  simp [exportPageElem_eq, attr?, parseInt_showInt, canon_eq, sortRO_docRegions]

/-! ### canonical form -/

theorem canonLines_idem (i : Nat) (ls : List Line) : canonLines i (canonLines i ls) = canonLines i ls := by
  induction ls generalizing i with
  | nil => rfl
  | cons l ls ih => simp [canonLines, ih (i + 1)]

theorem canonRegion_idem (r : Region) : canonRegion (canonRegion r) = canonRegion r := by
  simp [canonRegion, canonLines_idem]

theorem mem_canonLines (i : Nat) (ls : List Line) (l' : Line) (h : l' ∈ canonLines i ls) :
    ∃ l ∈ ls, ∃ j, l' = canonLine j l := by
  induction ls generalizing i with
  | nil => cases h
  | cons l ls ih =>
    simp only [canonLines, List.mem_cons] at h
    rcases h with rfl | h
    · exact ⟨l, List.mem_cons_self, i, rfl⟩
    · obtain ⟨x, hx, j, rfl⟩ := ih (i + 1) h
      exact ⟨x, List.mem_cons_of_mem _ hx, j, rfl⟩

theorem canon_canon (p : Page) : canon (canon p) = canon p := by
  simp only [canon_eq, Option.getD_some]
  rw [sortRO_map _ _ canonRegion_id, sortRO_idem, List.map_map]
  congr 1
  apply List.map_congr_left
  intro r _
  exact canonRegion_idem r

theorem canon_regions_wf (p : Page)
    (hreg : ∀ r ∈ p.regions, r.polygon ≠ [] ∧
      ∀ l ∈ r.lines, l.baseline ≠ [] ∧ l.polygon ≠ [] ∧ (l.text = none → l.conf = none)) :
    ∀ r ∈ (canon p).regions, r.polygon ≠ [] ∧
      ∀ l ∈ r.lines, l.baseline ≠ [] ∧ l.polygon ≠ [] ∧ (l.text = none → l.conf = none) := by
  intro r hr
  simp only [canon_eq, List.mem_map] at hr
  obtain ⟨r0, hr0, rfl⟩ := hr
  have h0 := hreg r0 ((sortRO_perm' _ _).mem_iff.mp hr0)
  refine ⟨h0.1, ?_⟩
  intro l hl
  obtain ⟨l0, hl0, j, rfl⟩ := mem_canonLines _ _ _ hl
  exact h0.2 l0 hl0

theorem canon_ro_wf (p : Page) (hro : ∀ ro, p.ro = some ro → (ro.map (·.1)).Nodup) :
    ∀ ro, (canon p).ro = some ro → (ro.map (·.1)).Nodup := by
  intro ro h
  simp only [canon_eq, Option.some.injEq] at h
  subst h
  cases hp : p.ro with
  | none => simp
  | some ro => exact hro ro hp

end PX
