-- helper lemmas: ALTO words and geometry
import PeroVerif.Model.AltoText

namespace Alto
open Py

/-! ### `str.split()` -/

theorem pySplitAux_flatten (isSpace : Nat → Bool) (s : Str) : ∀ cur : Str,
    (pySplitAux isSpace cur s).flatten = cur ++ s.filter (fun c => !isSpace c) := by
  induction s with
  | nil => intro cur; by_cases h : cur = [] <;> simp [pySplitAux, h]
  | cons c r ih =>
    intro cur
    by_cases hc : isSpace c = true
    · by_cases h : cur = [] <;> simp [pySplitAux, h, hc, ih]
    · simp [pySplitAux, hc, ih]

theorem pySplitAux_words (isSpace : Nat → Bool) (s : Str) : ∀ cur : Str,
    (∀ c ∈ cur, isSpace c = false) →
    ∀ w ∈ pySplitAux isSpace cur s, w ≠ [] ∧ ∀ c ∈ w, isSpace c = false := by
  induction s with
  | nil =>
    intro cur hcur w hw
    by_cases h : cur = []
    · simp [pySplitAux, h] at hw
    · simp [pySplitAux, h] at hw
      subst hw; exact ⟨h, hcur⟩
  | cons c r ih =>
    intro cur hcur w hw
    by_cases hc : isSpace c = true
    · by_cases h : cur = []
      · simp [pySplitAux, h, hc] at hw
        exact ih [] (by simp) w hw
      · simp [pySplitAux, h, hc] at hw
        rcases hw with hw | hw
        · subst hw; exact ⟨h, hcur⟩
        · exact ih [] (by simp) w hw
    · simp [pySplitAux, hc] at hw
      refine ih (cur ++ [c]) ?_ w hw
      intro x hx
      simp at hx
      rcases hx with hx | hx
      · exact hcur x hx
      · subst hx; simpa using hc

theorem pySplitAux_eq_nil (isSpace : Nat → Bool) (s : Str) : ∀ cur : Str,
    pySplitAux isSpace cur s = [] ↔ cur = [] ∧ s.all isSpace = true := by
  induction s with
  | nil => intro cur; by_cases h : cur = [] <;> simp [pySplitAux, h]
  | cons c r ih =>
    intro cur
    by_cases hc : isSpace c = true
    · by_cases h : cur = [] <;> simp [pySplitAux, h, hc, ih]
    · simp [pySplitAux, hc, ih]

/-! ### counting runs -/

/-- number of maximal runs of non-blank characters starting in `s` (`inRun`: are we inside one) -/
def runs (isSpace : Nat → Bool) : Bool → Str → Nat
  | _, [] => 0
  | inRun, c :: r =>
    if isSpace c then runs isSpace false r
    else (if inRun then 0 else 1) + runs isSpace true r

theorem pySplitAux_length (isSpace : Nat → Bool) (s : Str) : ∀ cur : Str,
    (pySplitAux isSpace cur s).length =
      (if cur = [] then 0 else 1) + runs isSpace (!decide (cur = [])) s := by
  induction s with
  | nil => intro cur; by_cases h : cur = [] <;> simp [pySplitAux, h, runs]
  | cons c r ih =>
    intro cur
    by_cases hc : isSpace c = true
    · by_cases h : cur = [] <;> simp [pySplitAux, h, hc, ih, runs] <;> omega
    · by_cases h : cur = [] <;> simp [pySplitAux, h, hc, ih, runs] <;> omega

/-- separator positions of `s`, shifted by `off` -/
def idxs (p : Nat → Bool) : Int → Str → List Int
  | _, [] => []
  | off, c :: r => (if p c then [off] else []) ++ idxs p (off + 1) r

theorem idxs_eq (p : Nat → Bool) (s : Str) : ∀ off : Int,
    ((List.range s.length).filter fun i => p (s.getD i 0)).map (fun (i : Nat) => off + Int.ofNat i)
      = idxs p off s := by
  induction s with
  | nil => intro off; simp [idxs]
  | cons c r ih =>
    intro off
    rw [List.length_cons, List.range_succ_eq_map, List.filter_cons]
    simp only [idxs]
    rw [← ih (off + 1)]
    have e : ∀ i : Nat, off + ((i : Int) + 1) = off + 1 + (i : Int) := by intro i; omega
    by_cases hc : p c = true
    · simp [hc, List.filter_map, Function.comp_def, e]
    · simp [hc, List.filter_map, Function.comp_def, e]

theorem spans_idxs_length (p : Nat → Bool) (s : Str) : ∀ (prev off : Int), prev ≤ off - 1 →
    (spans (prev :: (idxs p off s ++ [off + Int.ofNat s.length]))).length =
      runs p (decide (prev ≠ off - 1)) s + (if prev ≠ off - 1 then 1 else 0) := by
  induction s with
  | nil =>
    intro prev off _
    by_cases h : prev = off - 1 <;> simp [idxs, spans, runs, h]
  | cons c r ih =>
    intro prev off hle
    by_cases hc : p c = true
    · have e : off + Int.ofNat (c :: r).length = (off + 1) + Int.ofNat r.length := by
        simp; omega
      rw [e]
      simp only [idxs, hc, if_true, List.cons_append, List.nil_append, spans, List.length_append]
      rw [ih off (off + 1) (by omega)]
      by_cases h : prev = off - 1 <;> simp [runs, hc, h] <;> omega
    · have e : off + Int.ofNat (c :: r).length = (off + 1) + Int.ofNat r.length := by
        simp; omega
      rw [e]
      have hc' : p c = false := by simpa using hc
      simp only [idxs, hc', List.nil_append, Bool.false_eq_true, if_false]
      rw [ih prev (off + 1) (by omega)]
      have h1 : off + 1 - 1 = off := by omega
      have h2 : ¬ prev = off := by omega
      have h3 : ¬ off - 1 = off := by omega
      rw [h1]
      by_cases h : prev = off - 1 <;> simp [runs, hc, h, h2, h3] <;> omega

theorem isSep_eq (hs : Gen.Alto.sepIsSpace = true) (isSpace : Nat → Bool) :
    isSep isSpace = isSpace := by
  funext c; simp [isSep, hs]

theorem spaceIdxs_eq (isSpace : Nat → Bool) (s : Str) :
    spaceIdxs isSpace s = (-1 : Int) :: (idxs (isSep isSpace) 0 s ++ [(0 : Int) + Int.ofNat s.length]) := by
  unfold spaceIdxs
  rw [← idxs_eq]
  simp

theorem spans_length (hs : Gen.Alto.sepIsSpace = true) (isSpace : Nat → Bool) (s : Str) :
    (spans (spaceIdxs isSpace s)).length = (pySplit isSpace s).length := by
  rw [spaceIdxs_eq, spans_idxs_length _ _ _ _ (by omega), isSep_eq hs, pySplit, pySplitAux_length]
  simp

theorem filter_range_length (L : Nat) :
    ((List.range L).filter (fun w => w + 1 ≠ L)).length = L - 1 := by
  cases L with
  | zero => simp
  | succ k =>
    rw [List.range_succ, List.filter_append]
    have : (List.range k).filter (fun w => decide (w + 1 ≠ k + 1)) = List.range k := by
      rw [List.filter_eq_self]
      intro a ha
      have := List.mem_range.mp ha
      simp; omega
    rw [this]; simp

theorem lineWords_eq (hs : Gen.Alto.sepIsSpace = true) (isSpace : Nat → Bool) (conv : Str → Str)
    (aligned : Bool) (s : Str) :
    ∃ n, lineWords isSpace conv aligned s = .words ((pySplit isSpace s).map conv) n ∧
      (aligned = true → n = (pySplit isSpace s).length - 1) := by
  cases aligned with
  | false => exact ⟨0, by simp [lineWords], by simp⟩
  | true =>
    refine ⟨(pySplit isSpace s).length - 1, ?_, fun _ => rfl⟩
    simp only [lineWords, spans_length hs, if_true, Nat.le_refl, List.take_length,
      filter_range_length]

/-! ### geometry -/

theorem foldl_max_spec (xs : List Int) : ∀ x : Int,
    (xs.foldl max x ∈ x :: xs) ∧ ∀ y ∈ x :: xs, y ≤ xs.foldl max x := by
  induction xs with
  | nil => intro x; simp
  | cons a r ih =>
    intro x
    obtain ⟨hm, hb⟩ := ih (max x a)
    simp only [List.foldl_cons]
    constructor
    · rcases List.mem_cons.mp hm with h | h
      · rw [h]
        by_cases hxa : x ≤ a
        · simp [Int.max_def, hxa]
        · simp [Int.max_def, hxa]
      · simp [h]
    · intro y hy
      have h0 := hb (max x a) (by simp)
      rcases List.mem_cons.mp hy with h | h
      · subst h; omega
      · rcases List.mem_cons.mp h with h | h
        · subst h; omega
        · exact hb y (by simp [h])

theorem foldl_min_spec (xs : List Int) : ∀ x : Int,
    (xs.foldl min x ∈ x :: xs) ∧ ∀ y ∈ x :: xs, xs.foldl min x ≤ y := by
  induction xs with
  | nil => intro x; simp
  | cons a r ih =>
    intro x
    obtain ⟨hm, hb⟩ := ih (min x a)
    simp only [List.foldl_cons]
    constructor
    · rcases List.mem_cons.mp hm with h | h
      · rw [h]
        by_cases hxa : x ≤ a
        · simp [Int.min_def, hxa]
        · simp [Int.min_def, hxa]
      · simp [h]
    · intro y hy
      have h0 := hb (min x a) (by simp)
      rcases List.mem_cons.mp hy with h | h
      · subst h; omega
      · rcases List.mem_cons.mp h with h | h
        · subst h; omega
        · exact hb y (by simp [h])

theorem maxL_spec (d : Int) (xs : List Int) (h : xs ≠ []) :
    maxL d xs ∈ xs ∧ ∀ y ∈ xs, y ≤ maxL d xs := by
  cases xs with
  | nil => exact absurd rfl h
  | cons x r => exact foldl_max_spec r x

theorem minL_spec (d : Int) (xs : List Int) (h : xs ≠ []) :
    minL d xs ∈ xs ∧ ∀ y ∈ xs, minL d xs ≤ y := by
  cases xs with
  | nil => exact absurd rfl h
  | cons x r => exact foldl_min_spec r x

/-- the print-space loop: invariant of the fold -/
theorem psFold_spec (bs : List Box) : ∀ p0 : PS,
    ((bs.foldl psStep p0).vpos ≤ p0.vpos ∧ (∀ b ∈ bs, (bs.foldl psStep p0).vpos ≤ b.vpos) ∧
      ((bs.foldl psStep p0).vpos = p0.vpos ∨ ∃ b ∈ bs, b.vpos = (bs.foldl psStep p0).vpos)) ∧
    ((bs.foldl psStep p0).hpos ≤ p0.hpos ∧ (∀ b ∈ bs, (bs.foldl psStep p0).hpos ≤ b.hpos) ∧
      ((bs.foldl psStep p0).hpos = p0.hpos ∨ ∃ b ∈ bs, b.hpos = (bs.foldl psStep p0).hpos)) ∧
    (p0.bottom ≤ (bs.foldl psStep p0).bottom ∧
      (∀ b ∈ bs, b.vpos + b.height ≤ (bs.foldl psStep p0).bottom) ∧
      ((bs.foldl psStep p0).bottom = p0.bottom ∨
        ∃ b ∈ bs, b.vpos + b.height = (bs.foldl psStep p0).bottom)) ∧
    (p0.right ≤ (bs.foldl psStep p0).right ∧
      (∀ b ∈ bs, b.hpos + b.width ≤ (bs.foldl psStep p0).right) ∧
      ((bs.foldl psStep p0).right = p0.right ∨
        ∃ b ∈ bs, b.hpos + b.width = (bs.foldl psStep p0).right)) := by
  induction bs with
  | nil => intro p0; simp
  | cons a r ih =>
    intro p0
    have ev : (psStep p0 a).vpos = min p0.vpos a.vpos := rfl
    have eh : (psStep p0 a).hpos = min p0.hpos a.hpos := rfl
    have eb : (psStep p0 a).bottom = max p0.bottom (a.vpos + a.height) := rfl
    have er : (psStep p0 a).right = max p0.right (a.hpos + a.width) := rfl
    simp only [List.foldl_cons]
    generalize psStep p0 a = q at *
    obtain ⟨⟨v1, v2, v3⟩, ⟨h1, h2, h3⟩, ⟨b1, b2, b3⟩, ⟨r1, r2, r3⟩⟩ := ih q
    have g1 : (List.foldl psStep q r).vpos ≤ p0.vpos := by clear v3 h3 b3 r3; omega
    have g2 : (List.foldl psStep q r).hpos ≤ p0.hpos := by clear v3 h3 b3 r3; omega
    have g3 : p0.bottom ≤ (List.foldl psStep q r).bottom := by clear v3 h3 b3 r3; omega
    have g4 : p0.right ≤ (List.foldl psStep q r).right := by clear v3 h3 b3 r3; omega
    refine ⟨⟨g1, ?_, ?_⟩, ⟨g2, ?_, ?_⟩, ⟨g3, ?_, ?_⟩, ⟨g4, ?_, ?_⟩⟩
    · clear v3 h3 b3 r3
      intro b hb
      rcases List.mem_cons.mp hb with h | h
      · subst h; omega
      · exact v2 b h
    · clear h3 b3 r3
      rcases v3 with h | ⟨b, hb, h⟩
      · by_cases hle : p0.vpos ≤ a.vpos
        · left; omega
        · right; exact ⟨a, by simp, by omega⟩
      · right; exact ⟨b, by simp [hb], h⟩
    · clear v3 h3 b3 r3
      intro b hb
      rcases List.mem_cons.mp hb with h | h
      · subst h; omega
      · exact h2 b h
    · clear v3 b3 r3
      rcases h3 with h | ⟨b, hb, h⟩
      · by_cases hle : p0.hpos ≤ a.hpos
        · left; omega
        · right; exact ⟨a, by simp, by omega⟩
      · right; exact ⟨b, by simp [hb], h⟩
    · clear v3 h3 b3 r3
      intro b hb
      rcases List.mem_cons.mp hb with h | h
      · subst h; omega
      · exact b2 b h
    · clear v3 h3 r3
      rcases b3 with h | ⟨b, hb, h⟩
      · by_cases hle : a.vpos + a.height ≤ p0.bottom
        · left; omega
        · right; exact ⟨a, by simp, by omega⟩
      · right; exact ⟨b, by simp [hb], h⟩
    · clear v3 h3 b3 r3
      intro b hb
      rcases List.mem_cons.mp hb with h | h
      · subst h; omega
      · exact r2 b h
    · clear v3 h3 b3
      rcases r3 with h | ⟨b, hb, h⟩
      · by_cases hle : a.hpos + a.width ≤ p0.right
        · left; omega
        · right; exact ⟨a, by simp, by omega⟩
      · right; exact ⟨b, by simp [hb], h⟩

theorem psStep_hw (p : PS) (b : Box) :
    (psStep p b).height = (psStep p b).bottom - (psStep p b).vpos ∧
    (psStep p b).width = (psStep p b).right - (psStep p b).hpos := ⟨rfl, rfl⟩

theorem psFold_hw (bs : List Box) (h : bs ≠ []) (p0 : PS) :
    (bs.foldl psStep p0).height = (bs.foldl psStep p0).bottom - (bs.foldl psStep p0).vpos ∧
    (bs.foldl psStep p0).width = (bs.foldl psStep p0).right - (bs.foldl psStep p0).hpos := by
  rw [← List.dropLast_concat_getLast h, List.foldl_append]
  exact psStep_hw _ _

/-- with blocks inside the page the initial values `H`, `W`, `0`, `0` are absorbed -/
theorem printSpace_facts (H W : Int) (blocks : List Box) (hne : blocks ≠ [])
    (hin : ∀ b ∈ blocks, 0 ≤ b.height ∧ 0 ≤ b.width ∧ 0 ≤ b.vpos ∧ 0 ≤ b.hpos ∧
      b.vpos + b.height ≤ H ∧ b.hpos + b.width ≤ W) :
    (∃ b ∈ blocks, b.vpos = (printSpace H W blocks).vpos) ∧
    (∃ b ∈ blocks, b.hpos = (printSpace H W blocks).hpos) ∧
    (∃ b ∈ blocks, b.vpos + b.height = (printSpace H W blocks).bottom) ∧
    (∃ b ∈ blocks, b.hpos + b.width = (printSpace H W blocks).right) := by
  obtain ⟨b0, r, rfl⟩ := List.exists_cons_of_ne_nil hne
  have hb0 : b0 ∈ b0 :: r := by simp
  have i0 := hin b0 hb0
  obtain ⟨⟨v1, v2, v3⟩, ⟨h1, h2, h3⟩, ⟨b1, b2, b3⟩, ⟨r1, r2, r3⟩⟩ :=
    psFold_spec (b0 :: r) ⟨0, 0, H, W, 0, 0⟩
  have v0 := v2 b0 hb0; have h0 := h2 b0 hb0; have b0' := b2 b0 hb0; have r0 := r2 b0 hb0
  simp only [printSpace]
  simp only at v1 v3 h1 h3 b1 b3 r1 r3
  refine ⟨?_, ?_, ?_, ?_⟩
  · rcases v3 with h | h
    · exact ⟨b0, hb0, by clear h3 b3 r3; omega⟩
    · exact h
  · rcases h3 with h | h
    · exact ⟨b0, hb0, by clear v3 b3 r3; omega⟩
    · exact h
  · rcases b3 with h | h
    · exact ⟨b0, hb0, by clear v3 h3 r3; omega⟩
    · exact h
  · rcases r3 with h | h
    · exact ⟨b0, hb0, by clear v3 h3 b3; omega⟩
    · exact h

theorem pySplitAux_append_word (isSpace : Nat → Bool) (w : Str) (hw : ∀ c ∈ w, isSpace c = false) :
    ∀ (cur rest : Str), pySplitAux isSpace cur (w ++ rest) = pySplitAux isSpace (cur ++ w) rest := by
  induction w with
  | nil => intro cur rest; simp
  | cons c w ih =>
    intro cur rest
    have hc : isSpace c = false := hw c (by simp)
    have := ih (fun d hd => hw d (by simp [hd])) (cur ++ [c]) rest
    simp [pySplitAux, hc, this, List.append_assoc]

theorem pySplit_reimport (isSpace : Nat → Bool) (h32 : isSpace 32 = true) :
    ∀ (ws : List Str), (∀ w ∈ ws, w ≠ [] ∧ ∀ c ∈ w, isSpace c = false) →
      pySplitAux isSpace [] (reimportLine ws) = ws := by
  intro ws
  induction ws with
  | nil => intro _; simp [reimportLine, pySplitAux]
  | cons w r ih =>
    intro h
    have hw := h w (by simp)
    cases r with
    | nil =>
      have := pySplitAux_append_word isSpace w hw.2 [] []
      simp only [List.append_nil, List.nil_append] at this
      simp [reimportLine, this, pySplitAux, hw.1]
    | cons w2 r2 =>
      have hr := ih (fun x hx => h x (by simp [hx]))
      have := pySplitAux_append_word isSpace w hw.2 [] ([32] ++ reimportLine (w2 :: r2))
      simp only [List.nil_append] at this
      simp only [reimportLine, List.append_assoc]
      rw [this]
      simp [pySplitAux, h32, hw.1, hr]

end Alto
