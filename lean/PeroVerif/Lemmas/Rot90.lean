-- helper lemmas for C18
import PeroVerif.Model.Rot90

namespace Rot

theorem rotSrc_mod0 {rot : Nat} (h : rot % 4 = 0) (H W i j : Nat) :
    rotSrc rot H W i j = (i, j) := by
  simp only [rotSrc, h]

theorem rotSrc_mod1 {rot : Nat} (h : rot % 4 = 1) (H W i j : Nat) :
    rotSrc rot H W i j = (j, W - 1 - i) := by
  simp only [rotSrc, h]

theorem rotSrc_mod2 {rot : Nat} (h : rot % 4 = 2) (H W i j : Nat) :
    rotSrc rot H W i j = (H - 1 - i, W - 1 - j) := by
  simp only [rotSrc, h]

theorem rotSrc_mod3 {rot : Nat} (h : rot % 4 = 3) (H W i j : Nat) :
    rotSrc rot H W i j = (H - 1 - j, i) := by
  simp only [rotSrc, h]

theorem rotShape_odd {rot : Nat} (h : rot % 2 = 1) (H W : Nat) : rotShape rot H W = (W, H) := by
  simp only [rotShape, h, if_true]

theorem rotShape_even {rot : Nat} (h : rot % 2 = 0) (H W : Nat) : rotShape rot H W = (H, W) := by
  have : ¬ (rot % 2 = 1) := by omega
  simp only [rotShape, this, if_false]

theorem mod4_cases (rot : Nat) : rot % 4 = 0 ∨ rot % 4 = 1 ∨ rot % 4 = 2 ∨ rot % 4 = 3 := by omega

end Rot
