-- helper lemmas for C19
import Mathlib.Order.Basic
import PeroVerif.Model.MergeEngines

namespace ME
variable {Q T L K G : Type} [LinearOrder Q]

omit [LinearOrder Q] in
/-- Ids and geometry of the state line are never touched by the fold. -/
theorem foldl_id_geom (lt : Q → Q → Bool) (es : List (Line Q T L K G × Q)) (st : Q × Line Q T L K G) :
    (es.foldl (mergeStep lt) st).2.id = st.2.id ∧ (es.foldl (mergeStep lt) st).2.geom = st.2.geom := by
  induction es generalizing st with
  | nil => exact ⟨rfl, rfl⟩
  | cons e es ih =>
    simp only [List.foldl_cons]
    rw [(ih _).1, (ih _).2]
    unfold mergeStep
    split <;> exact ⟨rfl, rfl⟩

/-- One step with a confidence that is not better leaves the state alone. -/
theorem mergeStep_of_le (lt : Q → Q → Bool) (hlt : ∀ a b, lt a b = true ↔ a < b)
    (st : Q × Line Q T L K G) (e : Line Q T L K G × Q) (h : e.2 ≤ st.1) :
    mergeStep lt st e = st := by
  unfold mergeStep
  have : ¬ (lt st.1 e.2 = true) := by rw [hlt]; exact not_lt.mpr h
  simp [this]

/-- One step with a strictly better confidence takes that engine's fields. -/
theorem mergeStep_of_lt (lt : Q → Q → Bool) (hlt : ∀ a b, lt a b = true ↔ a < b)
    (st : Q × Line Q T L K G) (e : Line Q T L K G × Q) (h : st.1 < e.2) :
    mergeStep lt st e =
      (e.2, { st.2 with text := e.1.text, logits := e.1.logits, chars := e.1.chars, tconf := some e.2 }) := by
  unfold mergeStep
  have : lt st.1 e.2 = true := (hlt _ _).mpr h
  simp [this]

/-- If no remaining engine beats the current best, the fold is the identity. -/
theorem foldl_no_improve (lt : Q → Q → Bool) (hlt : ∀ a b, lt a b = true ↔ a < b)
    (es : List (Line Q T L K G × Q)) (st : Q × Line Q T L K G) (h : ∀ e ∈ es, e.2 ≤ st.1) :
    es.foldl (mergeStep lt) st = st := by
  induction es with
  | nil => rfl
  | cons e es ih =>
    have h1 : mergeStep lt st e = st := mergeStep_of_le lt hlt st e (h e (by simp))
    simp only [List.foldl_cons, h1]
    exact ih (fun e he => h e (by simp [he]))

/-- Generalised invariant: from any state whose best confidence is strictly below the
(first) maximum of the remaining engines, the fold ends with that engine's fields. -/
theorem foldl_first_max (lt : Q → Q → Bool) (hlt : ∀ a b, lt a b = true ↔ a < b)
    (es : List (Line Q T L K G × Q)) (st : Q × Line Q T L K G) (j : ℕ) (hj : j < es.length)
    (hmax : ∀ i (hi : i < es.length), es[i].2 ≤ es[j].2)
    (hfirst : ∀ i (hi : i < j), (es[i]'(by omega)).2 < es[j].2)
    (hpos : st.1 < es[j].2) :
    (es.foldl (mergeStep lt) st).2.text = es[j].1.text ∧
    (es.foldl (mergeStep lt) st).2.logits = es[j].1.logits ∧
    (es.foldl (mergeStep lt) st).2.chars = es[j].1.chars ∧
    (es.foldl (mergeStep lt) st).2.tconf = some es[j].2 := by
  induction es generalizing st j with
  | nil => simp at hj
  | cons e es ih =>
    cases j with
    | zero =>
      simp only [List.getElem_cons_zero] at hpos hmax ⊢
      simp only [List.foldl_cons]
      rw [mergeStep_of_lt lt hlt st e hpos]
      rw [foldl_no_improve lt hlt]
      · exact ⟨rfl, rfl, rfl, rfl⟩
      · intro x hx
        obtain ⟨i, hi, rfl⟩ := List.getElem_of_mem hx
        have := hmax (i + 1) (by simp; omega)
        simpa using this
    | succ j =>
      simp only [List.getElem_cons_succ] at hpos hmax hfirst ⊢
      simp only [List.foldl_cons]
      have hj' : j < es.length := by simpa using hj
      have he : e.2 < es[j].2 := by
        have := hfirst 0 (by omega)
        simpa using this
      apply ih (mergeStep lt st e) j hj'
      · intro i hi
        have := hmax (i + 1) (by simp; omega)
        simpa using this
      · intro i hi
        have := hfirst (i + 1) (by omega)
        simpa using this
      · unfold mergeStep
        split
        · exact he
        · exact hpos

/-- Invariant of the fold started at `(zero, x)`: the running maximum never drops below `zero`; once it
is strictly above, the state line records exactly it; and if it is not strictly above, nothing happened. -/
theorem foldl_inv (lt : Q → Q → Bool) (hlt : ∀ a b, lt a b = true ↔ a < b) (zero : Q)
    (x : Line Q T L K G) (l : List (Line Q T L K G × Q)) :
    zero ≤ (l.foldl (mergeStep lt) (zero, x)).1 ∧
    (zero < (l.foldl (mergeStep lt) (zero, x)).1 →
      (l.foldl (mergeStep lt) (zero, x)).2.tconf = some (l.foldl (mergeStep lt) (zero, x)).1) ∧
    (¬ zero < (l.foldl (mergeStep lt) (zero, x)).1 →
      l.foldl (mergeStep lt) (zero, x) = (zero, x) ∧ ∀ e ∈ l, e.2 ≤ zero) := by
  rw [← List.reverse_reverse l]
  generalize l.reverse = r
  induction r with
  | nil => simp
  | cons e r ih =>
    rw [List.reverse_cons, List.foldl_append, List.foldl_cons, List.foldl_nil]
    generalize r.reverse = l at ih ⊢
    generalize l.foldl (mergeStep lt) (zero, x) = st at ih ⊢
    obtain ⟨h1, h2, h3⟩ := ih
    by_cases hf : st.1 < e.2
    · rw [mergeStep_of_lt lt hlt st e hf]
      exact ⟨le_of_lt (lt_of_le_of_lt h1 hf), fun _ => rfl, fun hn => absurd (lt_of_le_of_lt h1 hf) hn⟩
    · have hle := not_lt.mp hf
      rw [mergeStep_of_le lt hlt st e hle]
      refine ⟨h1, h2, fun hn => ?_⟩
      obtain ⟨h4, h5⟩ := h3 hn
      refine ⟨h4, ?_⟩
      intro e' he'
      rcases List.mem_append.mp he' with h | h
      · exact h5 _ h
      · rw [List.mem_singleton] at h
        subst h
        rw [h4] at hle
        exact hle

/-- Feeding the state line back in (with the confidence of its content) as first engine of a fresh merge
reproduces the state. -/
theorem mergeStep_restart (lt : Q → Q → Bool) (hlt : ∀ a b, lt a b = true ↔ a < b) (zero : Q)
    (st : Q × Line Q T L K G) (c0 : Q) (h1 : zero ≤ st.1)
    (h2 : zero < st.1 → st.2.tconf = some st.1) (h3 : ¬ zero < st.1 → c0 ≤ zero) :
    mergeStep lt (zero, st.2) (st.2, if zero < st.1 then st.1 else c0) = st := by
  by_cases hp : zero < st.1
  · rw [if_pos hp, mergeStep_of_lt lt hlt (zero, st.2) (st.2, st.1) hp]
    have h := h2 hp
    obtain ⟨a, ⟨i, g, t, lg, ch, tc⟩⟩ := st
    simp only at h ⊢
    rw [h]
  · rw [if_neg hp, mergeStep_of_le lt hlt (zero, st.2) (st.2, c0) (h3 hp)]
    exact Prod.ext (le_antisymm h1 (not_lt.mp hp)) rfl

/-- The confidence presented for the state line never beats the running maximum. -/
theorem restart_conf_le (zero : Q) (s c0 : Q) (h3 : ¬ zero < s → c0 ≤ zero) (h1 : zero ≤ s) :
    (if zero < s then s else c0) ≤ s := by
  by_cases hp : zero < s
  · rw [if_pos hp]
  · rw [if_neg hp]; exact le_trans (h3 hp) h1

end ME
