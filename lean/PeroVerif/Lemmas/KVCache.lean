-- helper lemmas for C20
import PeroVerif.Model.KVCache

namespace KV

/-! ### slot lists -/

/-- the first `k` slots were written in batch `n` at steps `1..k` (slot `i` at step `i+1`) -/
def Good (n k : Nat) (l : List Tag) : Prop := ∀ i, i < k → l[i]? = some (some (n, i + 1))

theorem good_zero (n : Nat) (l : List Tag) : Good n 0 l := by
  intro i hi; omega

theorem good_set (n k : Nat) (l : List Tag) (h : Good n k l) (hk : k < l.length) :
    Good n (k + 1) (setSlot l k (some (n, k + 1))) := by
  intro i hi
  unfold setSlot
  rw [List.getElem?_set]
  by_cases hik : k = i
  · subst hik; simp [hk]
  · simp only [hik, if_false]
    exact h i (by omega)

theorem freshSlots_take (n k : Nat) (l : List Tag) (h : Good n k l) :
    freshSlots n k (l.take k) = true := by
  unfold freshSlots
  rw [List.all_eq_true]
  intro tg htg
  obtain ⟨i, hi, rfl⟩ := List.getElem_of_mem htg
  have hik : i < k := by
    rw [List.length_take] at hi; omega
  have h1 := h i hik
  have h2 : (l.take k)[i]? = some (some (n, i + 1)) := by
    rw [List.getElem?_take]; simp [hik, h1]
  have h3 : (l.take k)[i] = some (n, i + 1) := by
    rw [List.getElem?_eq_getElem hi] at h2
    exact Option.some.inj h2
  rw [h3]
  simp
  omega

theorem length_setSlot (l : List Tag) (i : Nat) (t : Tag) : (setSlot l i t).length = l.length := by
  unfold setSlot; simp

/-! ### layer invariants -/

def LenInv (maxLen : Nat) (ly : Layer) : Prop :=
  (∀ c, ly.selfCache = some c → c.length = maxLen) ∧
  (∀ b sl, ly.mem = some (b, sl) → sl.length = maxLen)

/-- state before step `k+1` of batch `n` -/
def Inv (maxLen n B S k : Nat) (ly : Layer) : Prop :=
  LenInv maxLen ly ∧
  (0 < k →
    (∃ c, ly.selfCache = some c ∧ Good n k c) ∧ ly.crossKV = some (n, S) ∧
    (∃ sl, ly.mem = some (B, sl) ∧ Good n k sl))

theorem lenInv_init (maxLen : Nat) : LenInv maxLen Layer.init := by
  constructor
  · intro c h; simp [Layer.init] at h
  · intro b sl h; simp [Layer.init] at h

theorem step_lenInv (maxLen n B S t : Nat) (ly : Layer) (h : LenInv maxLen ly) :
    LenInv maxLen (step maxLen n B S t ly).1 := by
  obtain ⟨hs, hm⟩ := h
  constructor
  · intro c hc
    simp only [step, Option.some.injEq] at hc
    subst hc
    rw [length_setSlot]
    cases hsc : ly.selfCache with
    | none => simp
    | some c0 =>
      simp only
      split
      · simp
      · exact hs c0 hsc
  · intro b sl hsl
    simp only [step, Option.some.injEq, Prod.mk.injEq] at hsl
    obtain ⟨_, hsl⟩ := hsl
    subst hsl
    rw [length_setSlot]
    cases hmm : ly.mem with
    | none => simp
    | some p =>
      obtain ⟨b0, sl0⟩ := p
      simp only
      split
      · simp
      · exact hm b0 sl0 hmm

/-- the self-attention slot list used at step `k+1` -/
theorem step_spec (maxLen n B S k : Nat) (ly : Layer) (h : Inv maxLen n B S k ly) (hk : k < maxLen) :
    Inv maxLen n B S (k + 1) (step maxLen n B S (k + 1) ly).1 ∧
    (step maxLen n B S (k + 1) ly).2.fresh n (k + 1) S = true := by
  obtain ⟨hlen, hinv⟩ := h
  have hlen' := step_lenInv maxLen n B S (k + 1) ly hlen
  obtain ⟨hs, hm⟩ := hlen
  -- the three components before the write
  have hself : ∃ sc0 : List Tag, sc0.length = maxLen ∧ Good n k sc0 ∧
      (step maxLen n B S (k + 1) ly).1.selfCache = some (setSlot sc0 k (some (n, k + 1))) ∧
      (step maxLen n B S (k + 1) ly).2.selfSlots = (setSlot sc0 k (some (n, k + 1))).take (k + 1) := by
    by_cases hk0 : k = 0
    · subst hk0
      refine ⟨List.replicate maxLen none, by simp, good_zero _ _, ?_, ?_⟩ <;>
        (cases hsc : ly.selfCache <;> simp [step, hsc])
    · obtain ⟨⟨c, hc, hg⟩, _, _⟩ := hinv (by omega)
      refine ⟨c, hs c hc, hg, ?_, ?_⟩ <;> simp [step, hc, hk0]
  have hcross : (step maxLen n B S (k + 1) ly).1.crossKV = some (n, S) ∧
      (step maxLen n B S (k + 1) ly).2.cross = some (n, S) := by
    by_cases hk0 : k = 0
    · subst hk0
      constructor <;> (cases hc : ly.crossKV <;> simp [step, hc])
    · obtain ⟨_, hc, _⟩ := hinv (by omega)
      constructor <;> simp [step, hc, hk0]
  have hmem : ∃ m0 : List Tag, m0.length = maxLen ∧ Good n k m0 ∧
      (step maxLen n B S (k + 1) ly).1.mem = some (B, setSlot m0 k (some (n, k + 1))) ∧
      (step maxLen n B S (k + 1) ly).2.memSlots = (setSlot m0 k (some (n, k + 1))).take (k + 1) := by
    by_cases hk0 : k = 0
    · subst hk0
      cases hmm : ly.mem with
      | none =>
        refine ⟨List.replicate maxLen none, by simp, good_zero _ _, ?_, ?_⟩ <;> simp [step, hmm]
      | some p =>
        obtain ⟨b0, sl0⟩ := p
        by_cases hb : b0 = B
        · refine ⟨sl0, hm b0 sl0 hmm, good_zero _ _, ?_, ?_⟩ <;> simp [step, hmm, hb]
        · refine ⟨List.replicate maxLen none, by simp, good_zero _ _, ?_, ?_⟩ <;> simp [step, hmm, hb]
    · obtain ⟨_, _, ⟨sl, hsl, hg⟩⟩ := hinv (by omega)
      refine ⟨sl, hm B sl hsl, hg, ?_, ?_⟩ <;> simp [step, hsl]
  obtain ⟨sc0, hscl, hscg, hsc1, hsc2⟩ := hself
  obtain ⟨hc1, hc2⟩ := hcross
  obtain ⟨m0, hml, hmg, hm1, hm2⟩ := hmem
  have gs := good_set n k sc0 hscg (by omega)
  have gm := good_set n k m0 hmg (by omega)
  constructor
  · refine ⟨hlen', fun _ => ⟨⟨_, hsc1, gs⟩, hc1, ⟨_, hm1, gm⟩⟩⟩
  · unfold Reads.fresh
    rw [hsc2, hm2, hc2, freshSlots_take _ _ _ gs, freshSlots_take _ _ _ gm]
    simp [length_setSlot, hscl, hml]
    omega

/-! ### one batch -/

theorem runBatch_lenInv (maxLen n B S : Nat) : ∀ (k t : Nat) (ly : Layer), LenInv maxLen ly →
    LenInv maxLen (runBatch maxLen n B S k t ly).1 := by
  intro k
  induction k with
  | zero => intro t ly h; simpa [runBatch] using h
  | succ k ih =>
    intro t ly h
    simp only [runBatch]
    exact ih (t + 1) _ (step_lenInv maxLen n B S t ly h)

theorem runBatch_fresh (maxLen n B S : Nat) : ∀ (k j : Nat) (ly : Layer), j + k ≤ maxLen →
    Inv maxLen n B S j ly →
    ∀ tr ∈ (runBatch maxLen n B S k (j + 1) ly).2, tr.2.fresh n tr.1 S = true := by
  intro k
  induction k with
  | zero => intro j ly _ _ tr htr; simp [runBatch] at htr
  | succ k ih =>
    intro j ly hjk hinv tr htr
    obtain ⟨hinv', hfresh⟩ := step_spec maxLen n B S j ly hinv (by omega)
    simp only [runBatch, List.mem_cons] at htr
    rcases htr with rfl | htr
    · exact hfresh
    · exact ih (j + 1) _ (by omega) hinv' tr htr

theorem runBatch_steps (maxLen n B S : Nat) : ∀ (k t : Nat) (ly : Layer),
    (runBatch maxLen n B S k t ly).2.map (fun tr => tr.1) = (List.range k).map (fun i => t + i) := by
  intro k
  induction k with
  | zero => intro t ly; simp [runBatch]
  | succ k ih =>
    intro t ly
    simp only [runBatch, List.map_cons, List.range_succ_eq_map, List.map_map]
    rw [ih]
    simp only [Nat.add_zero, List.cons.injEq, true_and]
    apply List.map_congr_left
    intro i _
    simp only [Function.comp]
    omega

/-! ### histories -/

theorem runHistory_fresh (maxLen : Nat) : ∀ (hist : List Batch) (n : Nat) (ly : Layer),
    (∀ b ∈ hist, b.steps ≤ maxLen) → LenInv maxLen ly →
    ∀ r ∈ runHistory maxLen n hist ly,
      n ≤ r.1 ∧ r.2.2.fresh r.1 r.2.1 ((hist.getD (r.1 - n) ⟨0, 0, 0⟩).srcLen) = true := by
  intro hist
  induction hist with
  | nil => intro n ly _ _ r hr; simp [runHistory] at hr
  | cons b bs ih =>
    intro n ly hsteps hlen r hr
    simp only [runHistory, List.mem_append, List.mem_map] at hr
    rcases hr with ⟨tr, htr, rfl⟩ | hr
    · have := runBatch_fresh maxLen n b.size b.srcLen b.steps 0 ly
        (by have := hsteps b (by simp); omega) ⟨hlen, fun h => absurd h (by omega)⟩ tr htr
      simpa using this
    · have hlen' := runBatch_lenInv maxLen n b.size b.srcLen b.steps 1 ly hlen
      obtain ⟨h1, h2⟩ := ih (n + 1) _ (fun b' hb' => hsteps b' (by simp [hb'])) hlen' r hr
      refine ⟨by omega, ?_⟩
      have : r.1 - n = (r.1 - (n + 1)) + 1 := by omega
      rw [this, List.getD_cons_succ]
      exact h2

theorem runHistory_steps (maxLen : Nat) : ∀ (hist : List Batch) (n : Nat) (ly : Layer),
    (runHistory maxLen n hist ly).map (fun r => (r.1, r.2.1)) =
      (List.range hist.length).flatMap fun j =>
        (List.range (hist.getD j ⟨0, 0, 0⟩).steps).map fun k => (n + j, k + 1) := by
  intro hist
  induction hist with
  | nil => intro n ly; simp [runHistory]
  | cons b bs ih =>
    intro n ly
    simp only [runHistory, List.map_append, List.map_map, List.length_cons, List.range_succ_eq_map,
      List.flatMap_cons, List.flatMap_map]
    rw [ih]
    congr 1
    · have h := runBatch_steps maxLen n b.size b.srcLen b.steps 1 ly
      have h2 := congrArg (List.map (fun t => (n, t))) h
      simp only [List.map_map] at h2
      simp only [List.getD_cons_zero, Nat.add_zero]
      refine Eq.trans ?_ (Eq.trans h2 ?_)
      · apply List.map_congr_left; intro a _; rfl
      · apply List.map_congr_left; intro a _; simp only [Function.comp]; congr 1; omega
    · congr 1
      funext j
      simp only [List.getD_cons_succ]
      apply List.map_congr_left
      intro k _
      congr 1
      omega

/-! ### the decoding loop -/

theorem loop_bounds (next : List (List Nat) → List Nat) (eos cap : Nat) :
    ∀ (fuel : Nat) (part : List (List Nat)) (alive : List Bool) (it : Nat),
      (loop next eos cap fuel part alive it).2 ≤ it + fuel ∧
      it ≤ (loop next eos cap fuel part alive it).2 ∧
      (fuel ≠ 0 → it + 1 ≤ (loop next eos cap fuel part alive it).2) ∧
      (loop next eos cap fuel part alive it).1.length ≤ max part.length cap := by
  intro fuel
  induction fuel with
  | zero => intro part alive it; simp [loop]; omega
  | succ fuel ih =>
    intro part alive it
    simp only [loop]
    split
    · simp; omega
    · split
      · simp; omega
      · rename_i _ hcap
        obtain ⟨h1, h2, _, h4⟩ := ih (part ++ [next part])
          (List.zipWith (fun a s => a && s != eos) alive (next part)) (it + 1)
        simp only [List.length_append, List.length_singleton] at h4
        refine ⟨by omega, by omega, fun _ => by omega, by omega⟩

/-! ### postprocessing -/

theorem postprocess_mem (eos ign : Nat) : ∀ (line : List Nat) (x : Nat),
    x ∈ postprocess eos ign line → x ≠ eos ∧ x ≠ ign := by
  intro line
  induction line with
  | nil => intro x hx; simp [postprocess] at hx
  | cons s r ih =>
    intro x hx
    simp only [postprocess] at hx
    split at hx
    · simp at hx
    · split at hx
      · exact ih x hx
      · rcases List.mem_cons.1 hx with rfl | hx
        · constructor <;> assumption
        · exact ih x hx

theorem postprocess_sublist (eos ign : Nat) : ∀ (line : List Nat),
    (postprocess eos ign line).Sublist line := by
  intro line
  induction line with
  | nil => simp [postprocess]
  | cons s r ih =>
    simp only [postprocess]
    split
    · exact List.nil_sublist _
    · split
      · exact List.Sublist.cons _ ih
      · exact List.Sublist.cons_cons _ ih

/-! ### reshapes -/

theorem offSBE_eq_offView (B H D s b h d : Nat) : offSBE B H D s b h d = offView B H D s b h d := by
  unfold offSBE offView
  simp only [Nat.add_mul, Nat.mul_assoc, Nat.add_assoc]

theorem head_batch_inj (H b h b' h' : Nat) (hh : h < H) (hh' : h' < H)
    (heq : b * H + h = b' * H + h') : b = b' ∧ h = h' := by
  have hpos : 0 < H := by omega
  have hb : b = b' := by
    have := congrArg (· / H) heq
    simp only [Nat.mul_comm _ H, Nat.mul_add_div hpos, Nat.div_eq_of_lt hh, Nat.div_eq_of_lt hh',
      Nat.add_zero] at this
    exact this
  subst hb
  exact ⟨rfl, by omega⟩

end KV
