/- Required shared lemmas in PeroVerif/Lemmas/Ctc.lean (names and statements fixed; reused later): -/
import PeroVerif.Model.Ctc
namespace Ctc

theorem collapseAux_nil (blank : Nat) (prev : Option Nat) : collapseAux blank prev [] = [] := by
  simp only [collapseAux]

theorem collapseAux_cons (blank : Nat) (prev : Option Nat) (s : Nat) (rest : List Nat) :
    collapseAux blank prev (s :: rest) =
      (if s = blank ∨ prev = some s then [] else [s]) ++ collapseAux blank (some s) rest := by
  simp only [collapseAux]

theorem collapseAux_snoc (blank : Nat) (prev : Option Nat) (p : List Nat) (s : Nat) :
    collapseAux blank prev (p ++ [s]) =
      collapseAux blank prev p ++
        (if s = blank ∨ (p.getLast?.or prev) = some s then [] else [s]) := by
  induction p generalizing prev with
  | nil =>
    simp only [List.nil_append, collapseAux, List.append_nil, List.getLast?_nil, Option.none_or]
    split <;> rename_i h <;> simp [h]
  | cons a rest ih =>
    simp only [List.cons_append, collapseAux, ih, List.append_assoc]
    congr 2
    cases rest with
    | nil => simp
    | cons b r =>
      have : ((b :: r).getLast?.or (some a)) = ((a :: b :: r).getLast?.or prev) := by
        simp [List.getLast?_cons_cons]
        cases h : (b :: r).getLast? <;> simp_all
      rw [this]

theorem collapse_snoc (blank : Nat) (p : List Nat) (s : Nat) :
    collapse blank (p ++ [s]) =
      collapse blank p ++ (if s = blank ∨ p.getLast? = some s then [] else [s]) := by
  simp only [collapse, collapseAux_snoc, Option.or_none]

theorem collapse_nil (blank : Nat) : collapse blank [] = [] := by
  simp only [collapse, collapseAux]

/-- A blank predecessor never suppresses anything (blanks are dropped anyway). -/
theorem collapseAux_some_blank (blank : Nat) (p : List Nat) :
    collapseAux blank (some blank) p = collapseAux blank none p := by
  cases p with
  | nil => simp only [collapseAux]
  | cons s rest =>
    simp only [collapseAux]
    congr 1
    by_cases h : s = blank
    · simp [h]
    · have : ¬ (some blank = some s) := by
        intro h'; exact h (Option.some.inj h').symm
      simp [h, this]

theorem blank_not_mem_collapseAux (blank : Nat) (prev : Option Nat) (p : List Nat) :
    blank ∉ collapseAux blank prev p := by
  induction p generalizing prev with
  | nil => simp [collapseAux]
  | cons s rest ih =>
    simp only [collapseAux, List.mem_append, not_or]
    refine ⟨?_, ih _⟩
    split
    · simp
    · rename_i h
      simp only [not_or] at h
      simp only [List.mem_singleton]
      exact fun h' => h.1 h'.symm

/-- no blank in the output -/
theorem blank_not_mem_collapse (blank : Nat) (p : List Nat) : blank ∉ collapse blank p :=
  blank_not_mem_collapseAux blank none p

theorem collapseAux_length_le (blank : Nat) (prev : Option Nat) (p : List Nat) :
    (collapseAux blank prev p).length ≤ p.length := by
  induction p generalizing prev with
  | nil => simp [collapseAux]
  | cons s rest ih =>
    simp only [collapseAux, List.length_append, List.length_cons]
    have := ih (some s)
    split <;> simp <;> omega

/-- the output is no longer than the path -/
theorem collapse_length_le (blank : Nat) (p : List Nat) : (collapse blank p).length ≤ p.length :=
  collapseAux_length_le blank none p

end Ctc
