-- helper lemmas: Arabic order conversion
import PeroVerif.Model.Arabic

namespace Ar

/-! ### a simpler machine: no bookkeeping of the sequence list

`ar acc`: the machine is in an Arabic sequence, `acc` is the output for everything consumed;
`no acc blk pend`: in a non-Arabic sequence `blk ++ pend` (`blk` ends with a non-delimiter, `pend`
are delimiters), `acc` is the output for everything before it. -/

inductive SS where
  | ar (acc : List Nat)
  | no (acc blk pend : List Nat)

def stepS (isA isD : Nat → Bool) : SS → Nat → SS
  | .ar acc, c => if isA c then .ar (c :: acc) else if isD c then .ar (c :: acc) else .no acc [c] []
  | .no acc b p, c =>
    if isA c then .ar (c :: (p.reverse ++ (b ++ acc)))
    else if isD c then .no acc b (p ++ [c]) else .no acc (b ++ p ++ [c]) []

def finS : SS → List Nat
  | .ar acc => acc
  | .no acc b p => p.reverse ++ (b ++ acc)

def spec (isA isD : Nat → Bool) (s : List Nat) : List Nat :=
  finS (s.foldl (stepS isA isD) (.ar []))

/-- output value of a list of sequences -/
def val (seqs : List Seq) : List Nat :=
  (seqs.map fun q => if q.arabic then q.chars.reverse else q.chars).reverse.flatten

theorem val_append (a b : List Seq) : val (a ++ b) = val b ++ val a := by
  simp [val]

theorem val_nil : val [] = [] := rfl

theorem val_cons (q : Seq) (l : List Seq) :
    val (q :: l) = val l ++ (if q.arabic then q.chars.reverse else q.chars) := by
  simp [val]

theorem val_single (q : Seq) : val [q] = if q.arabic then q.chars.reverse else q.chars := by
  simp [val]

/-! ### `splitTail` -/

theorem takeWhile_append_stop (p : Nat → Bool) (l1 : List Nat) (x : Nat) (l2 : List Nat)
    (h1 : ∀ c ∈ l1, p c = true) (hx : p x = false) :
    (l1 ++ x :: l2).takeWhile p = l1 := by
  induction l1 with
  | nil => simp [hx]
  | cons a r ih =>
    have ha : p a = true := h1 a (by simp)
    simp [ha]
    exact ih (fun c hc => h1 c (by simp [hc]))

theorem splitTail_block (isD : Nat → Bool) (l : List Nat) (x : Nat) (pend : List Nat)
    (hx : isD x = false) (hp : ∀ c ∈ pend, isD c = true) :
    splitTail isD ((l ++ [x]) ++ pend) = (l ++ [x], pend) := by
  have h : ((l ++ [x]) ++ pend).reverse.takeWhile isD = pend.reverse := by
    have : ((l ++ [x]) ++ pend).reverse = pend.reverse ++ x :: l.reverse := by simp
    rw [this]
    exact takeWhile_append_stop isD _ x _ (by simpa using hp) hx
  simp only [splitTail, h, List.reverse_reverse]
  congr 1
  have : ((l ++ [x]) ++ pend).length - pend.length = (l ++ [x]).length := by
    simp; omega
  rw [this, List.take_left']
  rfl

theorem splitTail_append (isD : Nat → Bool) (cs : List Nat) :
    (splitTail isD cs).1 ++ (splitTail isD cs).2 = cs := by
  simp only [splitTail]
  have h := List.takeWhile_append_dropWhile (p := isD) (l := cs.reverse)
  have h2 : cs = (cs.reverse.dropWhile isD).reverse ++ (cs.reverse.takeWhile isD).reverse := by
    rw [← List.reverse_append, h, List.reverse_reverse]
  generalize (cs.reverse.takeWhile isD).reverse = b at h2 ⊢
  generalize (cs.reverse.dropWhile isD).reverse = a at h2
  subst h2
  simp

/-! ### simulation -/

def Rel (isD : Nat → Bool) (st : St) : SS → Prop
  | .ar acc => st.cur.arabic = true ∧ acc = st.cur.chars.reverse ++ val st.done
  | .no acc blk pend => st.cur.arabic = false ∧ st.cur.chars = blk ++ pend ∧ acc = val st.done ∧
      (∃ l x, blk = l ++ [x] ∧ isD x = false) ∧ ∀ c ∈ pend, isD c = true

theorem rel_step (isA isD : Nat → Bool) (st : St) (S : SS) (c : Nat) (h : Rel isD st S) :
    Rel isD (step isA isD st c) (stepS isA isD S c) := by
  obtain ⟨done, ⟨chars, arabic⟩⟩ := st
  cases S with
  | ar acc =>
    obtain ⟨h1, h2⟩ := h
    simp only at h1 h2
    subst h1 h2
    by_cases hA : isA c = true
    · simp [step, stepS, hA, Rel]
    · by_cases hD : isD c = true
      · simp [step, stepS, hA, hD, Rel]
      · by_cases hc : chars = []
        · subst hc
          simp [step, stepS, hA, hD, Rel]
          exact ⟨[], c, by simp, by simpa using hD⟩
        · have hl : chars.length > 0 := List.length_pos_iff.mpr hc
          simp [step, stepS, hA, hD, Rel, hl, val_append, val_single]
          exact ⟨[], c, by simp, by simpa using hD⟩
  | no acc blk pend =>
    obtain ⟨h1, h2, h3, ⟨l, x, hb, hx⟩, hp⟩ := h
    simp only at h1 h2 h3
    subst h1 h2 h3 hb
    by_cases hA : isA c = true
    · have hl : (l ++ [x] ++ pend).length > 0 := by simp; omega
      simp only [step, stepS, hA, if_true, Bool.not_false, hl, splitTail_block isD l x pend hx hp,
        Rel, val_append, val_single]
      simp
    · by_cases hD : isD c = true
      · simp only [step, stepS, hA, hD, Rel]
        simp
        refine ⟨⟨l, x, by simp, hx⟩, ?_⟩
        intro a ha
        rcases ha with ha | ha
        · exact hp a ha
        · subst ha; exact hD
      · simp only [step, stepS, hA, hD, Rel]
        simp
        exact ⟨l ++ x :: pend, c, by simp, by simpa using hD⟩

theorem rel_finish (isD : Nat → Bool) (st : St) (S : SS) (h : Rel isD st S) :
    val (finish isD st) = finS S := by
  obtain ⟨done, ⟨chars, arabic⟩⟩ := st
  cases S with
  | ar acc =>
    obtain ⟨h1, h2⟩ := h
    simp only at h1 h2
    subst h1 h2
    by_cases hc : chars = []
    · subst hc; simp [finish, finS]
    · have hl : chars.length > 0 := List.length_pos_iff.mpr hc
      have hs := splitTail_append isD chars
      simp only [finish, hl, if_true, finS]
      generalize splitTail isD chars = rt at hs ⊢
      obtain ⟨rest, tail⟩ := rt
      simp only at hs
      subst hs
      by_cases ht : tail = []
      · subst ht
        simp [val_append, val_cons, val_nil]
      · have htl : tail.length > 0 := List.length_pos_iff.mpr ht
        simp [htl, val_append, val_cons, val_nil]
  | no acc blk pend =>
    obtain ⟨h1, h2, h3, ⟨l, x, hb, hx⟩, hp⟩ := h
    simp only at h1 h2 h3
    subst h1 h2 h3 hb
    have hl : (l ++ [x] ++ pend).length > 0 := by simp; omega
    simp only [finish, hl, if_true, splitTail_block isD l x pend hx hp, finS]
    by_cases ht : pend = []
    · subst ht; simp [val_append, val_cons, val_nil]
    · have htl : pend.length > 0 := List.length_pos_iff.mpr ht
      simp [htl, val_append, val_cons, val_nil]

theorem rel_foldl (isA isD : Nat → Bool) (s : List Nat) : ∀ (st : St) (S : SS), Rel isD st S →
    Rel isD (s.foldl (step isA isD) st) (s.foldl (stepS isA isD) S) := by
  induction s with
  | nil => intro st S h; exact h
  | cons c r ih => intro st S h; exact ih _ _ (rel_step isA isD st S c h)

theorem reverse_eq_spec (isA isD : Nat → Bool) (s : List Nat) :
    reverse isA isD s = spec isA isD s := by
  have h0 : Rel isD { done := [], cur := { chars := [], arabic := true } } (.ar []) := by
    simp [Rel, val_nil]
  exact rel_finish isD _ _ (rel_foldl isA isD s _ _ h0)

/-! ### the simple machine: permutation -/

def content : SS → List Nat
  | .ar acc => acc
  | .no acc b p => acc ++ b ++ p

theorem count_finS (a : Nat) (S : SS) : (finS S).count a = (content S).count a := by
  cases S <;> simp [finS, content, List.count_append] <;> omega

theorem count_stepS (isA isD : Nat → Bool) (a : Nat) (S : SS) (c : Nat) :
    (content (stepS isA isD S c)).count a = (content S).count a + [c].count a := by
  cases S <;> simp only [stepS] <;> split <;> (try split) <;>
    simp [content, List.count_append, List.count_cons] <;> omega

theorem count_foldS (isA isD : Nat → Bool) (a : Nat) (s : List Nat) : ∀ S : SS,
    (content (s.foldl (stepS isA isD) S)).count a = (content S).count a + s.count a := by
  induction s with
  | nil => intro S; simp
  | cons c r ih =>
    intro S
    rw [List.foldl_cons, ih, count_stepS]
    simp [List.count_cons]; omega

theorem spec_perm (isA isD : Nat → Bool) (s : List Nat) : (spec isA isD s).Perm s := by
  rw [List.perm_iff_count]
  intro a
  rw [spec, count_finS, count_foldS]
  simp [content]

/-! ### the simple machine: involution -/

def SS.app (a : List Nat) : SS → SS
  | .ar acc => .ar (acc ++ a)
  | .no acc b p => .no (acc ++ a) b p

theorem stepS_app (isA isD : Nat → Bool) (a : List Nat) (S : SS) (c : Nat) :
    stepS isA isD (S.app a) c = (stepS isA isD S c).app a := by
  cases S <;> by_cases hA : isA c = true <;> by_cases hD : isD c = true <;>
    simp [stepS, SS.app, hA, hD]

theorem foldS_app (isA isD : Nat → Bool) (a : List Nat) (s : List Nat) : ∀ S : SS,
    s.foldl (stepS isA isD) (S.app a) = (s.foldl (stepS isA isD) S).app a := by
  induction s with
  | nil => intro S; rfl
  | cons c r ih => intro S; rw [List.foldl_cons, stepS_app, ih]; rfl

theorem finS_app (a : List Nat) (S : SS) : finS (S.app a) = finS S ++ a := by
  cases S <;> simp [finS, SS.app]

theorem fin_fold_ar (isA isD : Nat → Bool) (acc s : List Nat) :
    finS (s.foldl (stepS isA isD) (.ar acc)) = spec isA isD s ++ acc := by
  have : SS.ar acc = (SS.ar []).app acc := by simp [SS.app]
  rw [this, foldS_app, finS_app]; rfl

theorem spec_nil (isA isD : Nat → Bool) : spec isA isD [] = [] := rfl

theorem spec_cons_nonO (isA isD : Nat → Bool) (c : Nat) (r : List Nat)
    (h : isA c = true ∨ isD c = true) : spec isA isD (c :: r) = spec isA isD r ++ [c] := by
  have : stepS isA isD (.ar []) c = .ar [c] := by
    rcases h with h | h
    · simp [stepS, h]
    · by_cases hA : isA c = true <;> simp [stepS, h, hA]
  rw [spec, List.foldl_cons, this, fin_fold_ar]

theorem finS_stepS_nonO (isA isD : Nat → Bool) (S : SS) (c : Nat)
    (h : isA c = true ∨ isD c = true) : finS (stepS isA isD S c) = c :: finS S := by
  cases S with
  | ar acc =>
    rcases h with h | h
    · simp [stepS, h, finS]
    · by_cases hA : isA c = true <;> simp [stepS, h, hA, finS]
  | no acc b p =>
    by_cases hA : isA c = true
    · simp [stepS, hA, finS]
    · have hD : isD c = true := by rcases h with h | h; exact absurd h hA; exact h
      simp [stepS, hA, hD, finS]

theorem spec_snoc_nonO (isA isD : Nat → Bool) (c : Nat) (r : List Nat)
    (h : isA c = true ∨ isD c = true) : spec isA isD (r ++ [c]) = c :: spec isA isD r := by
  simp only [spec, List.foldl_append, List.foldl_cons, List.foldl_nil]
  exact finS_stepS_nonO isA isD _ c h

/-- no Arabic character, and the last character (if any) is not a delimiter -/
def endsO (isA isD : Nat → Bool) : List Nat → Bool
  | [] => true
  | c :: r => !isA c && (!isD c || !r.isEmpty) && endsO isA isD r

/-- delimiters followed by an Arabic character, or delimiters only -/
def beginsAr (isA isD : Nat → Bool) : List Nat → Bool
  | [] => true
  | c :: r => isA c || (isD c && beginsAr isA isD r)

theorem fold_block (isA isD : Nat → Bool) (acc : List Nat) (B : List Nat) : ∀ (blk pend : List Nat),
    endsO isA isD B = true → (B = [] → pend = []) →
    B.foldl (stepS isA isD) (.no acc blk pend) = .no acc (blk ++ pend ++ B) [] := by
  induction B with
  | nil => intro blk pend _ h; simp [h rfl]
  | cons c r ih =>
    intro blk pend h _
    simp only [endsO, Bool.and_eq_true, Bool.or_eq_true, Bool.not_eq_true'] at h
    obtain ⟨⟨hA, hD⟩, hr⟩ := h
    rw [List.foldl_cons]
    by_cases hd : isD c = true
    · have hne : r ≠ [] := by
        rcases hD with hD | hD
        · rw [hD] at hd; exact absurd hd (by simp)
        · intro e; subst e; simp at hD
      simp only [stepS, hA, hd, if_true, Bool.false_eq_true, if_false]
      rw [ih blk (pend ++ [c]) hr (fun e => absurd e hne)]
      simp
    · simp only [stepS, hA, hd, Bool.false_eq_true, if_false]
      rw [ih (blk ++ pend ++ [c]) [] hr (fun _ => rfl)]
      simp

theorem decomp (isA isD : Nat → Bool) (r : List Nat) :
    ∃ B t, r = B ++ t ∧ endsO isA isD B = true ∧ beginsAr isA isD t = true := by
  induction r with
  | nil => exact ⟨[], [], rfl, rfl, rfl⟩
  | cons c r ih =>
    obtain ⟨B, t, rfl, hB, ht⟩ := ih
    by_cases hA : isA c = true
    · exact ⟨[], c :: (B ++ t), rfl, rfl, by simp [beginsAr, hA]⟩
    · by_cases hD : isD c = true
      · cases B with
        | nil => exact ⟨[], c :: t, rfl, rfl, by simp [beginsAr, hD, ht]⟩
        | cons b B' => exact ⟨c :: b :: B', t, rfl, by simp [endsO, hA] at hB ⊢; exact hB, ht⟩
      · exact ⟨c :: B, t, rfl, by simp [endsO, hA, hD, hB], ht⟩

theorem fold_no_begins (isA isD : Nat → Bool) (acc B : List Nat) (t : List Nat) : ∀ pend : List Nat,
    beginsAr isA isD t = true →
    finS (t.foldl (stepS isA isD) (.no acc B pend)) = spec isA isD t ++ (pend.reverse ++ (B ++ acc)) := by
  induction t with
  | nil => intro pend _; simp [finS, spec_nil]
  | cons c r ih =>
    intro pend h
    rw [List.foldl_cons]
    by_cases hA : isA c = true
    · simp only [stepS, hA, if_true]
      rw [fin_fold_ar, spec_cons_nonO isA isD c r (Or.inl hA)]
      simp
    · simp only [beginsAr, Bool.or_eq_true, Bool.and_eq_true] at h
      have h' : isD c = true ∧ beginsAr isA isD r = true := by
        rcases h with h | h; exact absurd h hA; exact h
      simp only [stepS, hA, h'.1, if_true, Bool.false_eq_true, if_false]
      rw [ih _ h'.2, spec_cons_nonO isA isD c r (Or.inr h'.1)]
      simp

def endsAr (isA isD : Nat → Bool) (u : List Nat) : Prop :=
  ∃ acc, u.foldl (stepS isA isD) (.ar []) = .ar acc

theorem spec_block_app (isA isD : Nat → Bool) (o : Nat) (B t : List Nat)
    (hoA : isA o = false) (hoD : isD o = false) (hB : endsO isA isD B = true)
    (ht : beginsAr isA isD t = true) :
    spec isA isD (o :: B ++ t) = spec isA isD t ++ o :: B := by
  have h1 : stepS isA isD (.ar []) o = .no [] [o] [] := by simp [stepS, hoA, hoD]
  rw [spec, List.cons_append, List.foldl_cons, List.foldl_append, h1,
    fold_block isA isD [] B [o] [] hB (fun _ => rfl), fold_no_begins isA isD _ _ _ _ ht]
  simp

theorem spec_app_block (isA isD : Nat → Bool) (o : Nat) (B t : List Nat)
    (hoA : isA o = false) (hoD : isD o = false) (hB : endsO isA isD B = true)
    (ht : endsAr isA isD t) :
    spec isA isD (t ++ o :: B) = o :: B ++ spec isA isD t := by
  obtain ⟨acc, hacc⟩ := ht
  have h1 : stepS isA isD (.ar acc) o = .no acc [o] [] := by simp [stepS, hoA, hoD]
  have h2 : spec isA isD t = acc := by rw [spec, hacc]; rfl
  rw [spec, List.foldl_append, hacc, List.foldl_cons, h1,
    fold_block isA isD acc B [o] [] hB (fun _ => rfl), h2]
  simp [finS]

theorem endsAr_snoc (isA isD : Nat → Bool) (u : List Nat) (c : Nat)
    (h : isA c = true ∨ (isD c = true ∧ endsAr isA isD u)) : endsAr isA isD (u ++ [c]) := by
  unfold endsAr
  simp only [List.foldl_append, List.foldl_cons, List.foldl_nil]
  rcases h with h | ⟨hD, acc, hacc⟩
  · cases u.foldl (stepS isA isD) (.ar []) <;> simp [stepS, h]
  · rw [hacc]
    by_cases hA : isA c = true <;> simp [stepS, hA, hD]

theorem endsAr_spec (isA isD : Nat → Bool) (s : List Nat) (h : beginsAr isA isD s = true) :
    endsAr isA isD (spec isA isD s) := by
  induction s with
  | nil => exact ⟨[], rfl⟩
  | cons c r ih =>
    simp only [beginsAr, Bool.or_eq_true, Bool.and_eq_true] at h
    rcases h with h | h
    · rw [spec_cons_nonO isA isD c r (Or.inl h)]
      exact endsAr_snoc isA isD _ c (Or.inl h)
    · rw [spec_cons_nonO isA isD c r (Or.inr h.1)]
      exact endsAr_snoc isA isD _ c (Or.inr ⟨h.1, ih h.2⟩)

theorem spec_involutive_aux (isA isD : Nat → Bool) (n : Nat) : ∀ s : List Nat, s.length ≤ n →
    spec isA isD (spec isA isD s) = s := by
  induction n with
  | zero =>
    intro s hs
    have : s = [] := List.length_eq_zero_iff.mp (by omega)
    subst this; rfl
  | succ n ih =>
    intro s hs
    cases s with
    | nil => rfl
    | cons c r =>
      simp only [List.length_cons] at hs
      by_cases hc : isA c = true ∨ isD c = true
      · rw [spec_cons_nonO isA isD c r hc, spec_snoc_nonO isA isD c _ hc, ih r (by omega)]
      · have hoA : isA c = false := by
          cases h : isA c; rfl; exact absurd (Or.inl h) hc
        have hoD : isD c = false := by
          cases h : isD c; rfl; exact absurd (Or.inr h) hc
        obtain ⟨B, t, rfl, hB, ht⟩ := decomp isA isD r
        have hlen : t.length ≤ n := by simp only [List.length_append] at hs; omega
        rw [← List.cons_append, spec_block_app isA isD c B t hoA hoD hB ht,
          spec_app_block isA isD c B _ hoA hoD hB (endsAr_spec isA isD t ht), ih t hlen]

theorem spec_involutive (isA isD : Nat → Bool) (s : List Nat) :
    spec isA isD (spec isA isD s) = s :=
  spec_involutive_aux isA isD s.length s (Nat.le_refl _)

end Ar
