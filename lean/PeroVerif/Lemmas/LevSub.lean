/-
Helper lemmas for C13.substring_alignment_correct (`levenshtein_alignment_substring`).
Core Lean only.

* §1  tagged invariant of the substring rows (`SubCellOK`): every cell is the minimum over all
      alignments of a suffix of the source prefix (`IsMinSuf`), and its tag names a predecessor
      realising the value (column 0 is exempt: it is the free prefix).
* §2  `subRows`: row `i` is the fold of `rowStepSub` over `src.take i`; its last-column tag compares
      the running best (`subLoop` over `src.take (i-1)`) with the row's last value.
* §3  `suffixBeginning` picks the last row whose last-column tag is not `del`; that row attains
      the overall best.
* §4  backtracking in the substring matrix (`back_sub_ok`).
* §5  `alignmentSub_ok`.
-/
import PeroVerif.Lemmas.Lev

namespace Lev
variable {α : Type}

section
variable [DecidableEq α]

/-! ## §1 Tagged invariant -/

theorem isMinSuf_unique {c : Costs} {s t : List α} {v w : Nat} (hv : IsMinSuf c s t v)
    (hw : IsMinSuf c s t w) : v = w := by
  obtain ⟨⟨a, wa, sa, ta, ca⟩, lv⟩ := hv
  obtain ⟨⟨b, wb, sb, tb, cb⟩, lw⟩ := hw
  have h1 := lv b wb sb tb
  have h2 := lw a wa sa ta
  omega

/-- as `TagOK`, for the substring rows -/
def SubTagOK (c : Costs) (σ τ : List α) (x : Cell) : Prop :=
  match x.2 with
  | .del => ∃ σ' a v, σ = σ' ++ [a] ∧ IsMinSuf c σ' τ v ∧ x.1 = v + c.del
  | .sub => ∃ σ' a τ' b v, σ = σ' ++ [a] ∧ τ = τ' ++ [b] ∧ IsMinSuf c σ' τ' v ∧
      x.1 = v + subCost c b a
  | .ins => ∃ τ' b v, τ = τ' ++ [b] ∧ IsMinSuf c σ τ' v ∧ x.1 = v + c.ins

/-- column 0 (`τ = []`) carries no tag information: it is the free prefix -/
def SubCellOK (c : Costs) (σ τ : List α) (x : Cell) : Prop :=
  IsMinSuf c σ τ x.1 ∧ (τ = [] ∨ SubTagOK c σ τ x)

theorem subCellOK_step (c : Costs) (σ : List α) (x : α) :
    ∀ tp t d u l, SubCellOK c σ tp d → SubCellOK c σ (tp ++ [t]) u → SubCellOK c (σ ++ [x]) tp l →
      SubCellOK c (σ ++ [x]) (tp ++ [t]) (cell c x t l.1 d.1 u.1) := by
  intro tp t d u l hd hu hl
  refine ⟨by rw [cell_val]; exact isMinSuf_step c σ tp x t _ _ _ hd.1 hu.1 hl.1, Or.inr ?_⟩
  rcases cell_eq c x t l.1 d.1 u.1 with h | h | h <;> rw [h]
  · exact ⟨tp, t, l.1, rfl, hl.1, rfl⟩
  · exact ⟨σ, x, tp, t, d.1, rfl, rfl, hd.1, rfl⟩
  · exact ⟨σ, x, u.1, rfl, hu.1, rfl⟩

theorem subCellOK_init (c : Costs) (τ : List α) :
    SubCellOK c [] τ (τ.length * c.ins, Tag.ins) := by
  refine ⟨isMinSuf_nil_left c τ, ?_⟩
  rcases List.eq_nil_or_concat τ with rfl | ⟨τ', b, rfl⟩
  · exact Or.inl rfl
  · right
    rw [List.concat_eq_append]
    exact ⟨τ', b, τ'.length * c.ins, rfl, isMinSuf_nil_left c τ', by simp [Nat.succ_mul]⟩

theorem rowStepSub_subCellOK (c : Costs) (σ : List α) (x : α) (t : List α) (row : List Cell)
    (h : RowP (SubCellOK c σ) [] t row) :
    RowP (SubCellOK c (σ ++ [x])) [] t (rowStepSub c t row x) :=
  stepAux_rowP c x _ _ (subCellOK_step c σ x) t [] (0, Tag.del) row h
    ⟨isMinSuf_nil_right c _, Or.inl rfl⟩

theorem foldl_rowStepSub_subCellOK (c : Costs) (t : List α) :
    ∀ (s' σ : List α) (row : List Cell), RowP (SubCellOK c σ) [] t row →
      RowP (SubCellOK c (σ ++ s')) [] t (s'.foldl (rowStepSub c t) row) := by
  intro s'
  induction s' with
  | nil => intro σ row h; simpa using h
  | cons x s' ih =>
    intro σ row h
    have := ih (σ ++ [x]) _ (rowStepSub_subCellOK c σ x t row h)
    simpa [List.append_assoc] using this

/-- row `i` of the substring DP -/
def subRow (c : Costs) (t s : List α) (i : Nat) : List Cell :=
  (s.take i).foldl (rowStepSub c t) (initRow c t)

theorem subRow_rowP (c : Costs) (t s : List α) (i : Nat) :
    RowP (SubCellOK c (s.take i)) [] t (subRow c t s i) := by
  have := foldl_rowStepSub_subCellOK c t (s.take i) [] _ (initRow_rowP c _ (subCellOK_init c) t)
  simpa [subRow] using this

theorem subRow_succ (c : Costs) (t s : List α) (i : Nat) (hi : i < s.length) :
    subRow c t s (i + 1) = rowStepSub c t (subRow c t s i) s[i] := by
  unfold subRow
  rw [List.take_succ_eq_append_getElem hi, List.foldl_append]
  rfl

theorem subRow_zero (c : Costs) (t s : List α) : subRow c t s 0 = initRow c t := by
  simp [subRow]

omit [DecidableEq α] in
theorem lastVal_initRow (c : Costs) (t : List α) : lastVal (initRow c t) = t.length * c.ins := by
  have h := initRow_rowP c (fun (τ' : List α) (y : Cell) => y.1 = τ'.length * c.ins)
    (fun _ => rfl) t
  obtain ⟨x, hx, hv⟩ := rowP_getLast t [] _ h
  simp only [lastVal, hx]
  simpa using hv

/-! ## §2 `subRows` -/

def tagOf (b v : Nat) : Tag := if b = v then Tag.sub else if v < b then Tag.ins else Tag.del

theorem subRows_length (c : Costs) (t : List α) :
    ∀ (ss : List α) (row : List Cell) (best : Nat), (subRows c t row best ss).length = ss.length := by
  intro ss
  induction ss with
  | nil => intro row best; rfl
  | cons x ss ih => intro row best; simp [subRows, ih]

theorem subRows_getElem? (c : Costs) (t : List α) :
    ∀ (ss : List α) (row : List Cell) (best i : Nat), i < ss.length →
      (subRows c t row best ss)[i]? =
        some ((ss.take (i + 1)).foldl (rowStepSub c t) row,
          tagOf (subLoop c t row best (ss.take i))
            (lastVal ((ss.take (i + 1)).foldl (rowStepSub c t) row))) := by
  intro ss
  induction ss with
  | nil => intro row best i hi; simp at hi
  | cons x ss ih =>
    intro row best i hi
    cases i with
    | zero => simp [subRows, subLoop, tagOf]
    | succ i =>
      have := ih (rowStepSub c t row x) (min best (lastVal (rowStepSub c t row x))) i
        (by simpa using hi)
      simpa [subRows, subLoop] using this

theorem subLoop_snoc (c : Costs) (t : List α) (x : α) :
    ∀ (l : List α) (row : List Cell) (best : Nat),
      subLoop c t row best (l ++ [x]) =
        min (subLoop c t row best l) (lastVal ((l ++ [x]).foldl (rowStepSub c t) row)) := by
  intro l
  induction l with
  | nil => intro row best; simp [subLoop]
  | cons y l ih => intro row best; simp only [List.cons_append, subLoop, List.foldl_cons]; exact ih _ _

end

/-! ## §3 `suffixBeginning` -/

theorem lastSat (p : Nat → Bool) :
    ∀ n, match ((List.range n).filter p).getLast? with
      | some i => i < n ∧ p i = true ∧ ∀ j, i < j → j < n → p j = false
      | none => ∀ j, j < n → p j = false := by
  intro n
  induction n with
  | zero => simp
  | succ n ih =>
    rw [List.range_succ, List.filter_append]
    by_cases hp : p n = true
    · simp only [List.filter_cons, hp, List.filter_nil, if_true]
      rw [List.getLast?_append]
      simp only [List.getLast?_singleton, Option.some_or]
      exact ⟨by omega, hp, by intro j h1 h2; omega⟩
    · have hp' : p n = false := by simpa using hp
      simp only [List.filter_cons, hp', List.filter_nil, List.append_nil, Bool.false_eq_true,
        if_false]
      revert ih
      cases ((List.range n).filter p).getLast? with
      | none =>
        intro ih j hj
        by_cases h : j = n
        · subst h; exact hp'
        · exact ih j (by omega)
      | some i =>
        rintro ⟨h1, h2, h3⟩
        refine ⟨by omega, h2, ?_⟩
        intro j hj1 hj2
        by_cases h : j = n
        · subst h; exact hp'
        · exact h3 j hj1 (by omega)

theorem suffixBeginning_spec (tags : List Tag) (hne : 0 < tags.length)
    (h0 : tags.getD 0 Tag.ins ≠ Tag.del) :
    1 ≤ suffixBeginning tags ∧ suffixBeginning tags ≤ tags.length ∧
      tags.getD (suffixBeginning tags - 1) Tag.ins ≠ Tag.del ∧
      ∀ j, suffixBeginning tags ≤ j → j < tags.length → tags.getD j Tag.ins = Tag.del := by
  unfold suffixBeginning
  by_cases hany : tags.any (· == Tag.del) = true
  · rw [if_pos hany]
    have hl := lastSat (fun i => tags.getD i Tag.ins != Tag.del) tags.length
    revert hl
    cases ((List.range tags.length).filter fun i => tags.getD i Tag.ins != Tag.del).getLast? with
    | none =>
      intro hl
      have := hl 0 hne
      simp at this
      exact absurd this h0
    | some i =>
      rintro ⟨h1, h2, h3⟩
      dsimp only
      refine ⟨by omega, by omega, ?_, ?_⟩
      · simpa using h2
      · intro j hj1 hj2
        have := h3 j (by omega) hj2
        simpa using this
  · rw [if_neg hany]
    refine ⟨hne, Nat.le_refl _, ?_, ?_⟩
    · intro hd
      apply hany
      rw [List.any_eq_true]
      refine ⟨tags[tags.length - 1]'(by omega), List.getElem_mem _, ?_⟩
      have : tags.getD (tags.length - 1) Tag.ins = tags[tags.length - 1]'(by omega) := by
        simp [List.getD_eq_getElem?_getD,
          List.getElem?_eq_getElem (show tags.length - 1 < tags.length by omega)]
      rw [← this, hd]; rfl
    · intro j h1 h2; omega

/-- the last row whose last-column tag is not `del` attains the final running best -/
theorem last_nondel (n : Nat) (B V : Nat → Nat) (tag : Nat → Tag) (hB0 : B 0 = V 0)
    (hB : ∀ i, i < n → B (i + 1) = min (B i) (V (i + 1)))
    (htag : ∀ i, i < n → tag (i + 1) = tagOf (B i) (V (i + 1)))
    (k : Nat) (hk : k ≤ n) (hk1 : k = 0 ∨ tag k ≠ Tag.del)
    (hk2 : ∀ j, k < j → j ≤ n → tag j = Tag.del) : V k = B n := by
  have hstab : ∀ d, k + d ≤ n → B (k + d) = B k := by
    intro d
    induction d with
    | zero => intro _; rfl
    | succ d ih =>
      intro hd
      have h1 := hB (k + d) (by omega)
      have h2 := htag (k + d) (by omega)
      have h3 := hk2 (k + d + 1) (by omega) (by omega)
      rw [h2] at h3
      have h4 : B (k + d) < V (k + d + 1) := by
        unfold tagOf at h3
        split at h3
        · cases h3
        · split at h3
          · cases h3
          · omega
      have : B (k + (d + 1)) = B (k + d) := by
        rw [← Nat.add_assoc, h1]; omega
      rw [this]; exact ih (by omega)
  have hk' : B k = V k := by
    cases k with
    | zero => exact hB0
    | succ k' =>
      have h1 := hB k' (by omega)
      have h2 := htag k' (by omega)
      have h3 : tag (k' + 1) ≠ Tag.del := by
        rcases hk1 with h | h
        · omega
        · exact h
      rw [h2] at h3
      have h4 : V (k' + 1) ≤ B k' := by
        unfold tagOf at h3
        split at h3
        · omega
        · split at h3
          · omega
          · exact absurd rfl h3
      rw [h1]; omega
  have := hstab (n - k) (by omega)
  rw [show k + (n - k) = n by omega] at this
  rw [this, hk']

/-! ## §4 Backtracking in the substring matrix -/

theorem srcOf_map_del (l : List α) : srcOf (l.map fun x => ((some x, none) : Option α × Option α)) = l := by
  induction l with
  | nil => rfl
  | cons a l ih => rw [List.map_cons, srcOf_cons, ih]; rfl

theorem tgtOf_map_del (l : List α) : tgtOf (l.map fun x => ((some x, none) : Option α × Option α)) = [] := by
  induction l with
  | nil => rfl
  | cons a l ih => rw [List.map_cons, tgtOf_cons, ih]; rfl

theorem wf_map_del (l : List α) : WellFormed (l.map fun x => ((some x, none) : Option α × Option α)) := by
  intro p hp
  obtain ⟨x, _, rfl⟩ := List.mem_map.1 hp
  simp

/-- walking up column 0: the free prefix -/
theorem back_col0 (rs : List (List Cell)) (s t : List α) (k : Nat) (hk : k ≤ s.length)
    (h0 : ∀ i, i < k → tagAt rs (i + 1) 0 = some Tag.del) :
    ∀ i fuel (acc : Alignment α), i ≤ k → i ≤ fuel →
      back rs s t fuel i 0 acc = some ((s.take i).map (fun x => (some x, none)) ++ acc) := by
  intro i
  induction i with
  | zero => intro fuel acc _ _; simp [back_zero_zero]
  | succ i ih =>
    intro fuel acc hi hf
    cases fuel with
    | zero => omega
    | succ fuel =>
      have hlt : i < s.length := by omega
      rw [back_del rs s t fuel i 0 acc s[i] (h0 i (by omega)) (by simp [hlt]),
        ih fuel _ (by omega) (by omega), List.take_succ_eq_append_getElem hlt, List.map_append]
      simp only [List.map_cons, List.map_nil, List.append_assoc, List.singleton_append]

section
variable [DecidableEq α]

theorem back_sub_ok (c : Costs) (s t : List α) (rs : List (List Cell)) (k : Nat)
    (hk : k ≤ s.length) (h0 : ∀ i, i < k → tagAt rs (i + 1) 0 = some Tag.del)
    (hrs : ∀ i, i ≤ k → ∀ j, j ≤ t.length →
      ∃ r x, rs[i]? = some r ∧ r[j]? = some x ∧ SubCellOK c (s.take i) (t.take j) x) :
    ∀ fuel i j (acc : Alignment α), i ≤ k → j ≤ t.length → i + j ≤ fuel →
      ∃ pre core, back rs s t fuel i j acc = some (pre ++ core ++ acc) ∧
        (∀ p ∈ pre, ∃ x, p = (some x, none)) ∧ WellFormed core ∧
        srcOf pre ++ srcOf core = s.take i ∧ tgtOf core = t.take j ∧
        IsMinSuf c (s.take i) (t.take j) (cost c core) := by
  have col0 : ∀ fuel i (acc : Alignment α), i ≤ k → i ≤ fuel →
      ∃ pre core, back rs s t fuel i 0 acc = some (pre ++ core ++ acc) ∧
        (∀ p ∈ pre, ∃ x, p = (some x, none)) ∧ WellFormed core ∧
        srcOf pre ++ srcOf core = s.take i ∧ tgtOf core = t.take 0 ∧
        IsMinSuf c (s.take i) (t.take 0) (cost c core) := by
    intro fuel i acc hi hf
    refine ⟨(s.take i).map (fun x => (some x, none)), [], ?_, ?_, wf_nil, ?_, by simp, ?_⟩
    · rw [back_col0 rs s t k hk h0 i fuel acc hi hf]; simp
    · intro p hp
      obtain ⟨x, _, rfl⟩ := List.mem_map.1 hp
      exact ⟨x, rfl⟩
    · rw [srcOf_map_del]; simp
    · simpa using isMinSuf_nil_right c (s.take i)
  intro fuel
  induction fuel with
  | zero =>
    intro i j acc hi hj hf
    have h2 : j = 0 := by omega
    subst h2
    exact col0 0 i acc hi (by omega)
  | succ fuel ih =>
    intro i j acc hi hj hf
    cases j with
    | zero => exact col0 (fuel + 1) i acc hi (by omega)
    | succ j' =>
      have hi' : i ≤ s.length := by omega
      obtain ⟨r, x, hr, hx, hmin, htag⟩ := hrs i hi (j' + 1) hj
      have hta := tagAt_eq rs i (j' + 1) r x hr hx
      have hlt' : j' < t.length := by omega
      have htag' : SubTagOK c (s.take i) (t.take (j' + 1)) x := by
        rcases htag with h1 | h
        · exfalso
          have e2 := congrArg List.length h1
          simp only [List.length_take, List.length_nil] at e2
          omega
        · exact h
      obtain ⟨v, tg⟩ := x
      cases tg with
      | del =>
        obtain ⟨σ', a, v', hσ, hv', hval⟩ := htag'
        cases i with
        | zero => simp at hσ
        | succ i' =>
          have hlt : i' < s.length := by omega
          rw [List.take_succ_eq_append_getElem hlt] at hσ
          obtain ⟨e1, e2⟩ := List.append_inj' hσ rfl
          have e3 : s[i'] = a := by simpa using e2
          subst e1
          obtain ⟨pre, core, hb, hpre, hw, hsrc, htgt, hm⟩ :=
            ih i' (j' + 1) ((some a, none) :: acc) (by omega) hj (by omega)
          have hc := isMinSuf_unique hm hv'
          refine ⟨pre, core ++ [(some a, none)], ?_, hpre,
            wf_append.2 ⟨hw, wf_single (by simp)⟩, ?_, ?_, ?_⟩
          · rw [back_del rs s t fuel i' (j' + 1) acc a hta (by simp [← e3, hlt]), hb]; simp
          · rw [srcOf_append, ← List.append_assoc, hsrc, List.take_succ_eq_append_getElem hlt, e3]
            simp
          · rw [tgtOf_append, htgt]; simp
          · rw [cost_append, hc, cost_single]
            simp only [stepCost]
            simp only at hval
            rw [← hval]; exact hmin
      | sub =>
        obtain ⟨σ', a, τ', b, v', hσ, hτ, hv', hval⟩ := htag'
        cases i with
        | zero => simp at hσ
        | succ i' =>
          have hlt : i' < s.length := by omega
          rw [List.take_succ_eq_append_getElem hlt] at hσ
          rw [List.take_succ_eq_append_getElem hlt'] at hτ
          obtain ⟨e1, e2⟩ := List.append_inj' hσ rfl
          obtain ⟨f1, f2⟩ := List.append_inj' hτ rfl
          have e3 : s[i'] = a := by simpa using e2
          have f3 : t[j'] = b := by simpa using f2
          subst e1 f1
          obtain ⟨pre, core, hb, hpre, hw, hsrc, htgt, hm⟩ :=
            ih i' j' ((some a, some b) :: acc) (by omega) (by omega) (by omega)
          have hc := isMinSuf_unique hm hv'
          refine ⟨pre, core ++ [(some a, some b)], ?_, hpre,
            wf_append.2 ⟨hw, wf_single (by simp)⟩, ?_, ?_, ?_⟩
          · rw [back_sub rs s t fuel i' j' acc a b hta (by simp [← e3, hlt])
              (by simp [← f3, hlt']), hb]; simp
          · rw [srcOf_append, ← List.append_assoc, hsrc, List.take_succ_eq_append_getElem hlt, e3]
            simp
          · rw [tgtOf_append, htgt, List.take_succ_eq_append_getElem hlt', f3]; simp
          · rw [cost_append, hc, cost_single, stepCost_sub]
            simp only at hval
            rw [← hval]; exact hmin
      | ins =>
        obtain ⟨τ', b, v', hτ, hv', hval⟩ := htag'
        rw [List.take_succ_eq_append_getElem hlt'] at hτ
        obtain ⟨f1, f2⟩ := List.append_inj' hτ rfl
        have f3 : t[j'] = b := by simpa using f2
        subst f1
        obtain ⟨pre, core, hb, hpre, hw, hsrc, htgt, hm⟩ :=
          ih i j' ((none, some b) :: acc) hi (by omega) (by omega)
        have hc := isMinSuf_unique hm hv'
        refine ⟨pre, core ++ [(none, some b)], ?_, hpre,
          wf_append.2 ⟨hw, wf_single (by simp)⟩, ?_, ?_, ?_⟩
        · rw [back_ins rs s t fuel i j' acc b hta (by simp [← f3, hlt']), hb]; simp
        · rw [srcOf_append, ← List.append_assoc, hsrc]; simp
        · rw [tgtOf_append, htgt, List.take_succ_eq_append_getElem hlt', f3]; simp
        · rw [cost_append, hc, cost_single]
          simp only [stepCost]
          simp only at hval
          rw [← hval]; exact hmin

end

/-! ## §5 `alignmentSub` -/

theorem del_list_facts {l : Alignment α} (h : ∀ p ∈ l, ∃ x, p = (some x, none)) :
    tgtOf l = [] ∧ WellFormed l := by
  induction l with
  | nil => exact ⟨rfl, wf_nil⟩
  | cons p l ih =>
    obtain ⟨x, rfl⟩ := h p List.mem_cons_self
    obtain ⟨h1, h2⟩ := ih fun q hq => h q (List.mem_cons_of_mem _ hq)
    exact ⟨by rw [tgtOf_cons, h1]; rfl, wf_cons.2 ⟨by simp, h2⟩⟩

section
variable [DecidableEq α]

/-- `alignmentSub` before the final swap, on the oriented pair -/
def alignSubCore (c : Costs) (src tgt : List α) : Option (Alignment α) :=
  let r0 := initRow c tgt
  let rs := subRows c tgt r0 (tgt.length * c.ins) src
  let lastTags := Tag.ins :: rs.map (·.2)
  let sb := suffixBeginning lastTags
  let rows := (r0 :: rs.map (·.1)).take sb
  let tail : List (Option α × Option α) := (src.drop (sb - 1)).map fun x => (some x, none)
  back rows src tgt (sb - 1 + tgt.length) (sb - 1) tgt.length tail

theorem alignmentSub_eq (c : Costs) (s t : List α) :
    alignmentSub c s t = (alignSubCore c (orient s t).1 (orient s t).2).map fun al =>
      if decide (t.length > s.length) then al.map (fun p => (p.2, p.1)) else al := by
  unfold alignmentSub alignSubCore
  simp only []
  split <;> rename_i h <;> rw [h] <;> rfl

theorem alignSubCore_ok (c : Costs) (src tgt : List α) :
    ∃ pre core suf, alignSubCore c src tgt = some (pre ++ core ++ suf) ∧
      (∀ p ∈ pre, ∃ x, p = (some x, none)) ∧ (∀ p ∈ suf, ∃ x, p = (some x, none)) ∧
      WellFormed core ∧ srcOf pre ++ srcOf core ++ srcOf suf = src ∧ tgtOf core = tgt ∧
      cost c core = subLoop c tgt (initRow c tgt) (tgt.length * c.ins) src := by
  unfold alignSubCore
  simp only []
  generalize hrs : subRows c tgt (initRow c tgt) (tgt.length * c.ins) src = rs
  have hlen : rs.length = src.length := by rw [← hrs]; exact subRows_length c tgt src _ _
  generalize htags : Tag.ins :: rs.map (·.2) = tags
  have htl : tags.length = src.length + 1 := by rw [← htags]; simp [hlen]
  have htag0 : tags.getD 0 Tag.ins = Tag.ins := by rw [← htags]; rfl
  obtain ⟨hs1, hs2, hs3, hs4⟩ := suffixBeginning_spec tags (by omega) (by rw [htag0]; decide)
  generalize hsb : suffixBeginning tags = sb at hs1 hs2 hs3 hs4
  obtain ⟨k, rfl⟩ : ∃ k, sb = k + 1 := ⟨sb - 1, by omega⟩
  simp only [Nat.add_sub_cancel] at hs3 ⊢
  have hk : k ≤ src.length := by omega
  -- rows and tags, by index
  have hget : ∀ i, i < src.length → rs[i]? = some (subRow c tgt src (i + 1),
      tagOf (subLoop c tgt (initRow c tgt) (tgt.length * c.ins) (src.take i))
        (lastVal (subRow c tgt src (i + 1)))) := by
    intro i hi
    rw [← hrs, subRows_getElem? c tgt src _ _ i hi]
    rfl
  have hrow : ∀ i, i ≤ k →
      ((initRow c tgt :: rs.map (·.1)).take (k + 1))[i]? = some (subRow c tgt src i) := by
    intro i hi
    rw [List.getElem?_take, if_pos (by omega)]
    cases i with
    | zero => simp [subRow_zero]
    | succ i => simp [hget i (by omega)]
  have htagi : ∀ i, i < src.length → tags.getD (i + 1) Tag.ins =
      tagOf (subLoop c tgt (initRow c tgt) (tgt.length * c.ins) (src.take i))
        (lastVal (subRow c tgt src (i + 1))) := by
    intro i hi
    rw [← htags]
    simp [List.getD_eq_getElem?_getD, hget i hi]
  -- the chosen row attains the best
  have hbest : lastVal (subRow c tgt src k) =
      subLoop c tgt (initRow c tgt) (tgt.length * c.ins) src := by
    have := last_nondel src.length
      (fun i => subLoop c tgt (initRow c tgt) (tgt.length * c.ins) (src.take i))
      (fun i => lastVal (subRow c tgt src i)) (fun i => tags.getD i Tag.ins)
      (by simp [subLoop, subRow_zero, lastVal_initRow])
      (by
        intro i hi
        show subLoop c tgt (initRow c tgt) (tgt.length * c.ins) (src.take (i + 1)) =
          min (subLoop c tgt (initRow c tgt) (tgt.length * c.ins) (src.take i))
            (lastVal ((src.take (i + 1)).foldl (rowStepSub c tgt) (initRow c tgt)))
        rw [List.take_succ_eq_append_getElem hi]
        exact subLoop_snoc c tgt _ _ _ _)
      htagi k hk (Or.inr hs3)
      (by intro j h1 h2; exact hs4 j (by omega) (by omega))
    simpa using this
  have hcell : ∀ i, i ≤ k → ∀ j, j ≤ tgt.length →
      ∃ r x, ((initRow c tgt :: rs.map (·.1)).take (k + 1))[i]? = some r ∧ r[j]? = some x ∧
        SubCellOK c (src.take i) (tgt.take j) x := by
    intro i hi j hj
    obtain ⟨x, hx, hok⟩ := rowP_get tgt [] _ (subRow_rowP c tgt src i) j hj
    exact ⟨_, x, hrow i hi, hx, by simpa using hok⟩
  have hcol0 : ∀ i, i < k →
      tagAt ((initRow c tgt :: rs.map (·.1)).take (k + 1)) (i + 1) 0 = some Tag.del := by
    intro i hi
    have h1 := hrow (i + 1) (by omega)
    rw [subRow_succ c tgt src i (by omega)] at h1
    exact tagAt_eq _ (i + 1) 0 _ (0, Tag.del) h1 (by simp [rowStepSub])
  obtain ⟨pre, core, hb, hpre, hw, hsrc, htgt, hm⟩ :=
    back_sub_ok c src tgt _ k hk hcol0 hcell (k + tgt.length) k tgt.length
      ((src.drop k).map fun x => (some x, none)) (Nat.le_refl _) (Nat.le_refl _) (Nat.le_refl _)
  refine ⟨pre, core, (src.drop k).map fun x => (some x, none), hb, hpre, ?_, hw, ?_, ?_, ?_⟩
  · intro p hp
    obtain ⟨x, _, rfl⟩ := List.mem_map.1 hp
    exact ⟨x, rfl⟩
  · rw [hsrc, srcOf_map_del, List.take_append_drop]
  · simpa using htgt
  · obtain ⟨x, hx, hok⟩ := rowP_getLast tgt [] _ (subRow_rowP c tgt src k)
    have hv : lastVal (subRow c tgt src k) = x.1 := by simp [lastVal, hx]
    rw [← hbest, hv]
    rw [List.take_length] at hm
    exact isMinSuf_unique hm (by simpa using hok.1)

theorem alignmentSub_ok (c : Costs) (s t : List α) :
    ∃ al, alignmentSub c s t = some al ∧ WellFormed al ∧ srcOf al = s ∧ tgtOf al = t ∧
      ∃ pre core suf, al = pre ++ core ++ suf ∧
        (∀ p ∈ pre, (if decide (t.length > s.length) then p.1.isNone else p.2.isNone) = true) ∧
        (∀ p ∈ suf, (if decide (t.length > s.length) then p.1.isNone else p.2.isNone) = true) ∧
        cost c (if decide (t.length > s.length) then core.map Prod.swap else core) =
          distSub c s t := by
  obtain ⟨pre, core, suf, hal, hpre, hsuf, hw, hsrc, htgt, hcost⟩ :=
    alignSubCore_ok c (orient s t).1 (orient s t).2
  rw [← distSub_eq] at hcost
  obtain ⟨tp, wp⟩ := del_list_facts hpre
  obtain ⟨ts, ws⟩ := del_list_facts hsuf
  have hwall : WellFormed (pre ++ core ++ suf) := wf_append.2 ⟨wf_append.2 ⟨wp, hw⟩, ws⟩
  have hsall : srcOf (pre ++ core ++ suf) = (orient s t).1 := by
    rw [srcOf_append, srcOf_append]; exact hsrc
  have htall : tgtOf (pre ++ core ++ suf) = (orient s t).2 := by
    rw [tgtOf_append, tgtOf_append, tp, ts, htgt]; simp
  rw [alignmentSub_eq, hal]
  by_cases hsw : t.length > s.length
  · have ho : orient s t = (t, s) := by simp [orient, hsw]
    rw [ho] at hsall htall
    simp only [decide_eq_true hsw, if_true, Option.map_some]
    refine ⟨_, rfl, wf_swapAl hwall, ?_, ?_, pre.map Prod.swap, core.map Prod.swap,
      suf.map Prod.swap, ?_, ?_, ?_, ?_⟩
    · exact (srcOf_swapAl _).trans htall
    · exact (tgtOf_swapAl _).trans hsall
    · show List.map Prod.swap (pre ++ core ++ suf) = _
      simp
    · intro p hp
      obtain ⟨q, hq, rfl⟩ := List.mem_map.1 hp
      obtain ⟨x, rfl⟩ := hpre q hq
      rfl
    · intro p hp
      obtain ⟨q, hq, rfl⟩ := List.mem_map.1 hp
      obtain ⟨x, rfl⟩ := hsuf q hq
      rfl
    · rw [List.map_map]
      simpa using hcost
  · have ho : orient s t = (s, t) := by simp [orient, hsw]
    rw [ho] at hsall htall
    simp only [decide_eq_false hsw, Bool.false_eq_true, if_false, Option.map_some]
    refine ⟨_, rfl, hwall, hsall, htall, pre, core, suf, rfl, ?_, ?_, hcost⟩
    · intro p hp
      obtain ⟨x, rfl⟩ := hpre p hp
      rfl
    · intro p hp
      obtain ⟨x, rfl⟩ := hsuf p hp
      rfl

end

end Lev
