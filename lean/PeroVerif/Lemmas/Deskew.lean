/- Helper lemmas for the de-skew rotation (C12). -/
import Mathlib.Tactic.Ring
import Mathlib.Tactic.LinearCombination
import Mathlib.Algebra.Order.Field.Rat
import PeroVerif.Model.Deskew

namespace Deskew

theorem rot_rot_back (c s : Rat) (h : c * c + s * s = 1) (p : Pt) : rot c s (rot c (-s) p) = p := by
  obtain ⟨x, y⟩ := p
  simp only [rot]
  refine Prod.ext ?_ ?_
  · show c * (c * x - -s * y) - s * (-s * x + c * y) = x
    linear_combination x * h
  · show s * (c * x - -s * y) + c * (-s * x + c * y) = y
    linear_combination y * h

theorem thereAndBack_id (c s : Rat) (h : c * c + s * s = 1) (poly : List Pt) : thereAndBack c s poly = poly := by
  unfold thereAndBack rotPoly
  rw [List.map_map]
  have : (rot c s ∘ rot c (-s)) = id := by
    funext p
    exact rot_rot_back c s h p
  rw [this, List.map_id]

theorem rot_dist (c s : Rat) (h : c * c + s * s = 1) (p q : Pt) :
    ((rot c s p).1 - (rot c s q).1) * ((rot c s p).1 - (rot c s q).1) +
      ((rot c s p).2 - (rot c s q).2) * ((rot c s p).2 - (rot c s q).2) =
    (p.1 - q.1) * (p.1 - q.1) + (p.2 - q.2) * (p.2 - q.2) := by
  obtain ⟨x, y⟩ := p
  obtain ⟨u, v⟩ := q
  simp only [rot]
  linear_combination ((x - u) * (x - u) + (y - v) * (y - v)) * h

end Deskew
