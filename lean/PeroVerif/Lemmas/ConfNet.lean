-- helper lemmas for C14
import Mathlib.Algebra.Order.Field.Basic
import Mathlib.Tactic.Ring
import Mathlib.Tactic.LinearCombination
import PeroVerif.Model.ConfNet
import PeroVerif.Spec.ConfNet
import PeroVerif.Lemmas.Lev

namespace CNL
open CN Py

variable {W : Type}

/-! ## §1 Dict / bump -/

theorem keys_set_sub {κ ν : Type} [DecidableEq κ] (d : Dict κ ν) (k : κ) (v : ν) :
    ∀ a ∈ Dict.keys d, a ∈ Dict.keys (Dict.set d k v) := by
  induction d with
  | nil => intro a h; simp [Dict.keys] at h
  | cons x d ih =>
    obtain ⟨k', v'⟩ := x
    intro a h
    simp only [Dict.set]
    split
    · simpa [Dict.keys] using h
    · simp only [Dict.keys, List.map_cons, List.mem_cons] at h ⊢
      rcases h with h | h
      · exact Or.inl h
      · exact Or.inr (ih a h)

theorem key_mem_set {κ ν : Type} [DecidableEq κ] (d : Dict κ ν) (k : κ) (v : ν) :
    k ∈ Dict.keys (Dict.set d k v) := by
  induction d with
  | nil => simp [Dict.set, Dict.keys]
  | cons x d ih =>
    obtain ⟨k', v'⟩ := x
    simp only [Dict.set]
    split
    · rename_i h; simp [Dict.keys, h]
    · simp only [Dict.keys, List.map_cons, List.mem_cons]; exact Or.inr ih

theorem set_ne_nil {κ ν : Type} [DecidableEq κ] (d : Dict κ ν) (k : κ) (v : ν) :
    Dict.set d k v ≠ [] := by
  cases d with
  | nil => simp [Dict.set]
  | cons x d => obtain ⟨k', v'⟩ := x; simp only [Dict.set]; split <;> simp

theorem keys_bump_sub (o : WOps W) (p : Pos W) (k : Arc) (s : W) :
    ∀ a ∈ Dict.keys p, a ∈ Dict.keys (bump o p k s) := by
  unfold bump; split <;> exact keys_set_sub _ _ _

theorem key_mem_bump (o : WOps W) (p : Pos W) (k : Arc) (s : W) :
    k ∈ Dict.keys (bump o p k s) := by
  unfold bump; split <;> exact key_mem_set _ _ _

theorem bump_ne_nil (o : WOps W) (p : Pos W) (k : Arc) (s : W) : bump o p k s ≠ [] := by
  unfold bump; split <;> exact set_ne_nil _ _ _

/-! ## §2 Readable -/

theorem readable_nil {w : List Nat} : Readable ([] : Net W) w ↔ w = [] := Iff.rfl

theorem readable_cons {p : Pos W} {ps : Net W} {w : List Nat} :
    Readable (p :: ps) w ↔ ∃ a ∈ Dict.keys p, ∃ w', Readable ps w' ∧ w = a.toList ++ w' := Iff.rfl

theorem readable_append {a b : Net W} {w : List Nat} :
    Readable (a ++ b) w ↔ ∃ w₁ w₂, Readable a w₁ ∧ Readable b w₂ ∧ w = w₁ ++ w₂ := by
  induction a generalizing w with
  | nil => simp [readable_nil]
  | cons p a ih =>
    simp only [List.cons_append, readable_cons, ih]
    constructor
    · rintro ⟨x, hx, w', ⟨w₁, w₂, h1, h2, rfl⟩, rfl⟩
      exact ⟨x.toList ++ w₁, w₂, ⟨x, hx, w₁, h1, rfl⟩, h2, by simp⟩
    · rintro ⟨w₁, w₂, ⟨x, hx, w', h1, rfl⟩, h2, rfl⟩
      exact ⟨x, hx, w' ++ w₂, ⟨w', w₂, h1, h2, rfl⟩, by simp⟩

/-- readability only depends on the key lists -/
theorem readable_of_keys {a b : Net W} (h : a.map Dict.keys = b.map Dict.keys) {w : List Nat} :
    Readable a w → Readable b w := by
  induction a generalizing b w with
  | nil => cases b with
    | nil => exact id
    | cons q b => simp at h
  | cons p a ih =>
    cases b with
    | nil => simp at h
    | cons q b =>
      simp only [List.map_cons, List.cons.injEq] at h
      rintro ⟨x, hx, w', hw', rfl⟩
      exact ⟨x, h.1 ▸ hx, w', ih h.2 hw', rfl⟩

/-! ## §3 The walk of `add_hypothese` as a relation -/

def newPos (tw s : W) (c : Nat) : Pos W := [(none, tw), (some c, s)]

/-- `Walk o s tw todo tr new`: walking the original positions `todo` against the transcript `tr`
produces the positions `new`. -/
inductive Walk (o : WOps W) (s tw : W) : Net W → List Nat → Net W → Prop
  | nil : Walk o s tw [] [] []
  | ins (c : Nat) {todo tr new} : Walk o s tw todo tr new →
      Walk o s tw todo (c :: tr) (newPos tw s c :: new)
  | eps (q : Pos W) {todo tr new} : Walk o s tw todo tr new →
      Walk o s tw (q :: todo) tr (bump o q none s :: new)
  | sub (q : Pos W) (c : Nat) {todo tr new} : Walk o s tw todo tr new →
      Walk o s tw (q :: todo) (c :: tr) (bump o q (some c) s :: new)

theorem Walk.wf {o : WOps W} {s tw : W} {todo tr new} (h : Walk o s tw todo tr new) : WFNet new := by
  induction h with
  | nil => intro p hp; simp at hp
  | ins c _ ih => intro p hp; rcases List.mem_cons.1 hp with rfl | hp; simp [newPos]; exact ih p hp
  | eps q _ ih => intro p hp; rcases List.mem_cons.1 hp with rfl | hp; exact bump_ne_nil _ _ _ _; exact ih p hp
  | sub q c _ ih => intro p hp; rcases List.mem_cons.1 hp with rfl | hp; exact bump_ne_nil _ _ _ _; exact ih p hp

theorem Walk.length_le {o : WOps W} {s tw : W} {todo tr new} (h : Walk o s tw todo tr new) :
    todo.length ≤ new.length := by
  induction h <;> simp <;> omega

theorem Walk.keeps {o : WOps W} {s tw : W} {todo tr new} (h : Walk o s tw todo tr new) :
    ∀ w, Readable todo w → Readable new w := by
  induction h with
  | nil => exact fun w h => h
  | ins c _ ih =>
    intro w hw
    exact ⟨none, by simp [newPos, Dict.keys], w, ih w hw, by simp⟩
  | eps q _ ih =>
    rintro w ⟨a, ha, w', hw', rfl⟩
    exact ⟨a, keys_bump_sub _ _ _ _ a ha, w', ih w' hw', rfl⟩
  | sub q c _ ih =>
    rintro w ⟨a, ha, w', hw', rfl⟩
    exact ⟨a, keys_bump_sub _ _ _ _ a ha, w', ih w' hw', rfl⟩

theorem Walk.reads_new {o : WOps W} {s tw : W} {todo tr new} (h : Walk o s tw todo tr new) :
    Readable new tr := by
  induction h with
  | nil => exact rfl
  | ins c _ ih => exact ⟨some c, by simp [newPos, Dict.keys], _, ih, by simp⟩
  | eps q _ ih => exact ⟨none, key_mem_bump _ _ _ _, _, ih, by simp⟩
  | sub q c _ ih => exact ⟨some c, key_mem_bump _ _ _ _, _, ih, by simp⟩

/-! ## §4 The path fits: inversion of `pathCost` -/

section
variable {α : Type} [DecidableEq α]
open Lev

theorem pathCost_nil_inv {c : Costs} {s t : List α} {v : Nat} (h : pathCost c s t [] = some v) :
    s = [] ∧ t = [] := by
  unfold pathCost at h
  split at h <;> simp_all

theorem pathCost_cons_inv {c : Costs} {s t : List α} {d : Int} {p : List Int} {v : Nat}
    (h : pathCost c s t (d :: p) = some v) :
    (d = 1 ∧ ∃ x s' v', s = x :: s' ∧ pathCost c s' t p = some v') ∨
    (d = -1 ∧ ∃ y t' v', t = y :: t' ∧ pathCost c s t' p = some v') ∨
    (d = 0 ∧ ∃ x s' y t' v', s = x :: s' ∧ t = y :: t' ∧ pathCost c s' t' p = some v') := by
  unfold pathCost at h
  split at h
  · simp at *
  · rename_i heq
    simp only [List.cons.injEq] at heq
    obtain ⟨rfl, rfl⟩ := heq
    simp only [Option.map_eq_some_iff] at h
    obtain ⟨v', hv', _⟩ := h
    exact Or.inl ⟨rfl, _, _, v', rfl, hv'⟩
  · rename_i heq
    simp only [List.cons.injEq] at heq
    obtain ⟨rfl, rfl⟩ := heq
    simp only [Option.map_eq_some_iff] at h
    obtain ⟨v', hv', _⟩ := h
    exact Or.inr (Or.inl ⟨rfl, _, _, v', rfl, hv'⟩)
  · rename_i heq
    simp only [List.cons.injEq] at heq
    obtain ⟨rfl, rfl⟩ := heq
    simp only [Option.map_eq_some_iff] at h
    obtain ⟨v', hv', _⟩ := h
    exact Or.inr (Or.inr ⟨rfl, _, _, _, _, v', rfl, rfl, hv'⟩)
  · simp at h

end

/-! ## §5 `addStep` on a split state -/

theorem step_eps (o : WOps W) (adv : Bool) (tr : List Nat) (s tw : W) (done todo : Net W) (q : Pos W)
    (k : Nat) :
    addStep o adv tr s tw ⟨done ++ q :: todo, done.length, k⟩ (-1) =
      some ⟨(done ++ [bump o q none s]) ++ todo, (done ++ [bump o q none s]).length, k⟩ := by
  simp [addStep]

theorem step_sub (o : WOps W) (adv : Bool) (s tw : W) (done todo : Net W) (q : Pos W)
    (pre suf : List Nat) (c : Nat) :
    addStep o adv (pre ++ c :: suf) s tw ⟨done ++ q :: todo, done.length, pre.length⟩ 0 =
      some ⟨(done ++ [bump o q (some c) s]) ++ todo, (done ++ [bump o q (some c) s]).length,
        (pre ++ [c]).length⟩ := by
  simp [addStep]

theorem step_ins (o : WOps W) (adv : Bool) (hadv : adv = true) (s tw : W) (done todo : Net W)
    (pre suf : List Nat) (c : Nat) :
    addStep o adv (pre ++ c :: suf) s tw ⟨done ++ todo, done.length, pre.length⟩ 1 =
      some ⟨(done ++ [newPos tw s c]) ++ todo, (done ++ [newPos tw s c]).length,
        (pre ++ [c]).length⟩ := by
  subst hadv
  cases todo with
  | nil => simp [addStep, newPos, Dict.set]
  | cons q todo => simp [addStep, newPos, Dict.set]

theorem walk_foldlM {α : Type} [DecidableEq α] (o : WOps W) (adv : Bool) (hadv : adv = true)
    (tr : List Nat) (s tw : W) (c : Lev.Costs) :
    ∀ (p : List Int) (done todo : Net W) (pre suf : List Nat) (src tgt : List α) (v : Nat),
      tr = pre ++ suf → src.length = suf.length → tgt.length = todo.length →
      Lev.pathCost c src tgt p = some v →
      ∃ new st', p.foldlM (addStep o adv tr s tw) ⟨done ++ todo, done.length, pre.length⟩ = some st' ∧
        st'.cn = done ++ new ∧ Walk o s tw todo suf new := by
  intro p
  induction p with
  | nil =>
    intro done todo pre suf src tgt v htr hs ht hp
    obtain ⟨rfl, rfl⟩ := pathCost_nil_inv hp
    have h1 : suf = [] := List.length_eq_zero_iff.1 (by simpa using hs.symm)
    have h2 : todo = [] := List.length_eq_zero_iff.1 (by simpa using ht.symm)
    subst h1 h2
    exact ⟨[], _, rfl, rfl, Walk.nil⟩
  | cons d p ih =>
    intro done todo pre suf src tgt v htr hs ht hp
    rcases pathCost_cons_inv hp with ⟨rfl, x, s', v', rfl, hp'⟩ | ⟨rfl, y, t', v', rfl, hp'⟩ |
      ⟨rfl, x, s', y, t', v', rfl, rfl, hp'⟩
    · -- insertion of a transcript symbol
      cases suf with
      | nil => simp at hs
      | cons ch suf =>
        subst htr
        obtain ⟨new, st', hf, hcn, hw⟩ := ih (done ++ [newPos tw s ch]) todo (pre ++ [ch]) suf s' tgt v'
          (by simp) (by simpa using hs) ht hp'
        refine ⟨newPos tw s ch :: new, st', ?_, by simpa using hcn, Walk.ins ch hw⟩
        rw [List.foldlM_cons, step_ins o adv hadv]
        exact hf
    · cases todo with
      | nil => simp at ht
      | cons q todo =>
        obtain ⟨new, st', hf, hcn, hw⟩ := ih (done ++ [bump o q none s]) todo pre suf src t' v'
          htr hs (by simpa using ht) hp'
        refine ⟨bump o q none s :: new, st', ?_, by simpa using hcn, Walk.eps q hw⟩
        rw [List.foldlM_cons, step_eps]
        exact hf
    · cases todo with
      | nil => simp at ht
      | cons q todo =>
        cases suf with
        | nil => simp at hs
        | cons ch suf =>
          subst htr
          obtain ⟨new, st', hf, hcn, hw⟩ := ih (done ++ [bump o q (some ch) s]) todo (pre ++ [ch]) suf
            s' t' v' (by simp) (by simpa using hs) (by simpa using ht) hp'
          refine ⟨bump o q (some ch) s :: new, st', ?_, by simpa using hcn, Walk.sub q ch hw⟩
          rw [List.foldlM_cons, step_sub]
          exact hf

/-! ## §6 `addHyp` -/

theorem getPivot_cons (o : WOps W) (p : Pos W) (cn : Net W) :
    getPivot o (p :: cn) =
      ((sortDesc o p).head?.map (·.1)).bind fun a => (getPivot o cn).map (a :: ·) := by
  simp only [getPivot, List.mapM_cons]
  cases h : (sortDesc o p).head? <;> simp [Option.map_eq_bind]

theorem getPivot_length (o : WOps W) : ∀ (cn : Net W) (pv : List Arc), getPivot o cn = some pv →
    pv.length = cn.length := by
  intro cn
  induction cn with
  | nil => intro pv h; simp [getPivot] at h; simp [← h]
  | cons p cn ih =>
    intro pv h
    rw [getPivot_cons] at h
    simp only [Option.bind_eq_some_iff, Option.map_eq_some_iff] at h
    obtain ⟨a, _, pv', hpv', rfl⟩ := h
    simp [ih pv' hpv']

theorem sortDesc_ne_nil (o : WOps W) (p : Pos W) (h : p ≠ []) : sortDesc o p ≠ [] := by
  intro h'
  have := List.length_mergeSort (le := fun a b => !(o.lt a.2 b.2)) p
  unfold sortDesc at h'
  rw [h'] at this
  exact h (List.length_eq_zero_iff.1 this.symm)

theorem getPivot_some (o : WOps W) : ∀ (cn : Net W), WFNet cn → ∃ pv, getPivot o cn = some pv := by
  intro cn
  induction cn with
  | nil => intro _; exact ⟨[], by simp [getPivot]⟩
  | cons p cn ih =>
    intro h
    obtain ⟨pv, hpv⟩ := ih (fun q hq => h q (List.mem_cons_of_mem _ hq))
    have hp := sortDesc_ne_nil o p (h p (List.mem_cons_self))
    rw [getPivot_cons, hpv]
    cases hs : sortDesc o p with
    | nil => exact absurd hs hp
    | cons x xs => exact ⟨x.1 :: pv, by simp⟩

theorem alignmentPath_fits {α : Type} [DecidableEq α] (c : Lev.Costs) (s t : List α) :
    ∃ p v, Lev.alignmentPath c s t = some p ∧ Lev.pathCost c s t p = some v := by
  obtain ⟨al, hal, hw, hs, ht, hc⟩ := Lev.alignment_ok c s t
  refine ⟨Lev.pathOf al, Lev.cost c al, by simp [Lev.alignmentPath, hal], ?_⟩
  have := Lev.pathCost_pathOf c al hw
  rwa [hs, ht] at this

/-- With a pivot, `addHyp` on a non-empty network succeeds and is a `Walk`. -/
theorem addHyp_walk_of_pivot (o : WOps W) (adv : Bool) (hadv : adv = true) (cn : Net W)
    (tr : List Nat) (s : W) (hne : cn ≠ []) (pv : List Arc) (hpv : getPivot o cn = some pv) :
    ∃ cn', addHyp o adv cn tr s = some cn' ∧ Walk o s (totalWeight o cn) cn tr cn' := by
  obtain ⟨p, v, hp, hfit⟩ := alignmentPath_fits Lev.unit (tr.map some) pv
  obtain ⟨new, st', hf, hcn, hw⟩ := walk_foldlM o adv hadv tr s (totalWeight o cn) Lev.unit p [] cn [] tr
    (tr.map some) pv v (by simp) (by simp) (getPivot_length o cn pv hpv) hfit
  refine ⟨new, ?_, hw⟩
  simp only [addHyp, if_neg hne, hpv, hp]
  simp only [List.nil_append, List.length_nil] at hf
  rw [hf]
  simpa using hcn

theorem addHyp_walk (o : WOps W) (adv : Bool) (hadv : adv = true) (cn : Net W)
    (tr : List Nat) (s : W) (hne : cn ≠ []) (hwf : WFNet cn) :
    ∃ cn', addHyp o adv cn tr s = some cn' ∧ Walk o s (totalWeight o cn) cn tr cn' := by
  obtain ⟨pv, hpv⟩ := getPivot_some o cn hwf
  exact addHyp_walk_of_pivot o adv hadv cn tr s hne pv hpv

theorem addHyp_walk' (o : WOps W) (adv : Bool) (hadv : adv = true) (cn cn' : Net W)
    (tr : List Nat) (s : W) (hne : cn ≠ []) (h : addHyp o adv cn tr s = some cn') :
    Walk o s (totalWeight o cn) cn tr cn' := by
  cases hpv : getPivot o cn with
  | none => simp [addHyp, if_neg hne, hpv] at h
  | some pv =>
    obtain ⟨cn'', h', hw⟩ := addHyp_walk_of_pivot o adv hadv cn tr s hne pv hpv
    rw [h] at h'
    cases h'
    exact hw

theorem addHyp_nil (o : WOps W) (adv : Bool) (tr : List Nat) (s : W) :
    addHyp o adv [] tr s = some (tr.map fun c => [(some c, s)]) := by
  simp [addHyp]

theorem readable_first (s : W) : ∀ tr : List Nat, Readable (tr.map fun c => ([(some c, s)] : Pos W)) tr := by
  intro tr
  induction tr with
  | nil => exact rfl
  | cons c tr ih => exact ⟨some c, by simp [Dict.keys], tr, ih, by simp⟩

theorem wf_first (s : W) (tr : List Nat) : WFNet (tr.map fun c => ([(some c, s)] : Pos W)) := by
  intro p hp
  simp only [List.mem_map] at hp
  obtain ⟨c, _, rfl⟩ := hp
  simp

/-! ## §7 histories -/

theorem foldlM_hyps (o : WOps W) (adv : Bool) (hadv : adv = true) :
    ∀ (rest : List (List Nat × W)) (cn : Net W), cn ≠ [] → WFNet cn →
      ∃ cn', rest.foldlM (fun cn h => addHyp o adv cn h.1 h.2) cn = some cn' ∧
        (∀ w, Readable cn w → Readable cn' w) ∧ ∀ h ∈ rest, Readable cn' h.1 := by
  intro rest
  induction rest with
  | nil => intro cn _ _; exact ⟨cn, rfl, fun _ h => h, by simp⟩
  | cons h rest ih =>
    intro cn hne hwf
    obtain ⟨cn₁, h₁, hw⟩ := addHyp_walk o adv hadv cn h.1 h.2 hne hwf
    have hne₁ : cn₁ ≠ [] := by
      intro h0
      have := hw.length_le
      rw [h0] at this
      exact hne (List.length_eq_zero_iff.1 (by simpa using this))
    obtain ⟨cn', h', hk, hr⟩ := ih cn₁ hne₁ hw.wf
    refine ⟨cn', ?_, fun w hw' => hk w (hw.keeps w hw'), ?_⟩
    · rw [List.foldlM_cons, h₁]; exact h'
    · intro x hx
      rcases List.mem_cons.1 hx with rfl | hx
      · exact hk _ hw.reads_new
      · exact hr x hx

theorem normalize_keys (o : WOps W) (cn : Net W) :
    (normalize o cn).map Dict.keys = cn.map Dict.keys := by
  simp [normalize, Dict.keys, Function.comp_def]

theorem readable_normalize (o : WOps W) (cn : Net W) (w : List Nat) (h : Readable cn w) :
    Readable (normalize o cn) w :=
  readable_of_keys (normalize_keys o cn).symm h

/-! ## §8 Cartesian product -/

section Product
variable {β : Type}

def prod' : List (List β) → List (List β)
  | [] => [[]]
  | p :: ps => p.flatMap fun a => (prod' ps).map fun rest => a :: rest

theorem foldl_mul_init (l : List Nat) (a : Nat) : l.foldl (· * ·) a = a * l.foldl (· * ·) 1 := by
  induction l generalizing a with
  | nil => simp
  | cons x l ih => simp only [List.foldl_cons]; rw [ih, ih (1 * x)]; simp [Nat.mul_assoc]

theorem length_flatMap_const (p : List β) (f : β → List (List β)) (n : Nat)
    (h : ∀ a, (f a).length = n) : (p.flatMap f).length = p.length * n := by
  induction p with
  | nil => simp
  | cons a p ih => simp [List.flatMap_cons, ih, h, Nat.add_mul, Nat.add_comm]

theorem prod'_length (ps : List (List β)) :
    (prod' ps).length = (ps.map List.length).foldl (· * ·) 1 := by
  induction ps with
  | nil => rfl
  | cons p ps ih =>
    simp only [prod', List.map_cons, List.foldl_cons]
    rw [length_flatMap_const p _ (prod' ps).length (by simp), foldl_mul_init, ih]
    simp

theorem mem_prod' (ps : List (List β)) (ch : List β) :
    ch ∈ prod' ps ↔
      (ch.length = ps.length ∧ ∀ i (hi : i < ch.length) (hj : i < ps.length), ch[i] ∈ ps[i]) := by
  induction ps generalizing ch with
  | nil =>
    simp only [prod', List.mem_singleton, List.length_nil]
    constructor
    · rintro rfl; simp
    · rintro ⟨h, _⟩; exact List.length_eq_zero_iff.1 h
  | cons p ps ih =>
    simp only [prod', List.mem_flatMap, List.mem_map]
    constructor
    · rintro ⟨a, ha, rest, hrest, rfl⟩
      obtain ⟨hl, hi⟩ := (ih rest).1 hrest
      refine ⟨by simp [hl], ?_⟩
      intro i h1 h2
      cases i with
      | zero => simpa using ha
      | succ i => simpa using hi i (by simpa using h1) (by simpa using h2)
    · rintro ⟨hl, hi⟩
      cases ch with
      | nil => simp at hl
      | cons a rest =>
        have h0 := hi 0 (by simp) (by simp)
        simp only [List.getElem_cons_zero] at h0
        refine ⟨a, h0, rest, (ih rest).2 ⟨by simpa using hl, ?_⟩, rfl⟩
        intro i h1 h2
        have h3 := hi (i + 1) (by simpa using h1) (by simpa using h2)
        simpa only [List.getElem_cons_succ] using h3

theorem prod'_nodup (ps : List (List β)) (h : ∀ p ∈ ps, p.Nodup) : (prod' ps).Nodup := by
  induction ps with
  | nil => simp [prod']
  | cons p ps ih =>
    have ihp := ih (fun q hq => h q (List.mem_cons_of_mem _ hq))
    have hp := h p List.mem_cons_self
    simp only [prod']
    unfold List.Nodup at *
    rw [List.pairwise_flatMap]
    refine ⟨fun a _ => ?_, ?_⟩
    · rw [List.pairwise_map]
      exact ihp.imp (fun hxy => by simpa using hxy)
    · refine hp.imp ?_
      intro a b hab x hx y hy hxy
      simp only [List.mem_map] at hx hy
      obtain ⟨_, _, rfl⟩ := hx
      obtain ⟨_, _, rfl⟩ := hy
      simp at hxy
      exact hab hxy.1

theorem product_eq (ps : List (List (Arc × W))) : product ps = prod' ps := by
  induction ps with
  | nil => rfl
  | cons p ps ih => simp [product, prod', ih]

end Product

/-! ## §9 Weights in an ordered field -/

section Dict
variable {κ ν : Type} [DecidableEq κ]

theorem get?_set_ne (d : Dict κ ν) (k k' : κ) (v : ν) (h : k' ≠ k) :
    Dict.get? (Dict.set d k v) k' = Dict.get? d k' := by
  induction d with
  | nil => simp [Dict.set, Dict.get?, Ne.symm h]
  | cons x d ih =>
    obtain ⟨k₀, v₀⟩ := x
    simp only [Dict.set]
    split
    · rename_i h0; subst h0; simp [Dict.get?, Ne.symm h]
    · simp only [Dict.get?, ih]

theorem get?_set_self (d : Dict κ ν) (k : κ) (v : ν) :
    Dict.get? (Dict.set d k v) k = some v := by
  induction d with
  | nil => simp [Dict.set, Dict.get?]
  | cons x d ih =>
    obtain ⟨k₀, v₀⟩ := x
    simp only [Dict.set]
    split
    · rename_i h0; simp [Dict.get?, h0]
    · rename_i h0; simp [Dict.get?, h0, ih]

end Dict

section Field
variable [Field W] [LinearOrder W] [IsStrictOrderedRing W]

def fieldOps (W : Type) [Field W] [LinearOrder W] : WOps W :=
  { zero := 0, one := 1, add := (· + ·), mul := (· * ·), lt := fun a b => decide (a < b),
    div := (· / ·), ofNat := fun n => (n : W) }

omit [LinearOrder W] [IsStrictOrderedRing W] in
theorem foldl_add (l : List W) (a : W) : l.foldl (· + ·) a = a + l.sum := by
  induction l generalizing a with
  | nil => simp
  | cons x l ih => simp only [List.foldl_cons, List.sum_cons, ih]; ring

omit [LinearOrder W] [IsStrictOrderedRing W] in
theorem sum_app (l₁ l₂ : List W) : (l₁ ++ l₂).sum = l₁.sum + l₂.sum := by
  induction l₁ with
  | nil => simp
  | cons x l ih => simp only [List.cons_append, List.sum_cons, ih]; ring

omit [LinearOrder W] [IsStrictOrderedRing W] in
theorem perm_sum {l₁ l₂ : List W} (h : l₁.Perm l₂) : l₁.sum = l₂.sum := by
  induction h with
  | nil => rfl
  | cons x _ ih => simp [ih]
  | swap x y l => simp only [List.sum_cons]; ring
  | trans _ _ ih₁ ih₂ => exact ih₁.trans ih₂

omit [IsStrictOrderedRing W] in
theorem posTotal_eq (p : Pos W) : posTotal (fieldOps W) p = (p.map (·.2)).sum := by
  show List.foldl (· + ·) (0 : W) (Dict.values p) = _
  rw [foldl_add]; simp [Dict.values]

omit [LinearOrder W] [IsStrictOrderedRing W] in
theorem sum_set (p : Pos W) (k : Arc) (x : W) :
    ((Dict.set p k x).map (·.2)).sum + (Dict.get? p k).getD 0 = (p.map (·.2)).sum + x := by
  induction p with
  | nil => simp [Dict.set, Dict.get?]
  | cons y p ih =>
    obtain ⟨k₀, v₀⟩ := y
    simp only [Dict.set, Dict.get?]
    split
    · simp; ring
    · simp only [List.map_cons, List.sum_cons]
      rw [add_assoc, ih]; ring

omit [IsStrictOrderedRing W] in
theorem posTotal_bump (p : Pos W) (k : Arc) (s : W) :
    posTotal (fieldOps W) (bump (fieldOps W) p k s) = posTotal (fieldOps W) p + s := by
  rw [posTotal_eq, posTotal_eq]
  unfold bump
  cases h : Dict.get? p k with
  | none =>
    have := sum_set p k s
    rw [h] at this
    simpa using this
  | some v =>
    have := sum_set p k (v + s)
    rw [h] at this
    simp only [Option.getD_some] at this
    show ((Dict.set p k (v + s)).map (·.2)).sum = _
    linear_combination this

omit [IsStrictOrderedRing W] in
theorem get?_bump_ne (p : Pos W) (k k' : Arc) (s : W) (h : k' ≠ k) :
    Dict.get? (bump (fieldOps W) p k s) k' = Dict.get? p k' := by
  unfold bump; split <;> exact get?_set_ne _ _ _ _ h

omit [IsStrictOrderedRing W] in
theorem get?_bump_self (p : Pos W) (k : Arc) (s : W) :
    Dict.get? (bump (fieldOps W) p k s) k = some ((Dict.get? p k).getD 0 + s) := by
  unfold bump
  cases h : Dict.get? p k with
  | none => simp [get?_set_self]
  | some v => simp only [get?_set_self, Option.getD_some]; rfl

omit [LinearOrder W] [IsStrictOrderedRing W] in
theorem sum_const {β : Type} (l : List β) (f : β → W) (T : W) (h : ∀ x ∈ l, f x = T) :
    (l.map f).sum = (l.length : W) * T := by
  induction l with
  | nil => simp
  | cons x l ih =>
    simp only [List.map_cons, List.sum_cons, List.length_cons, Nat.cast_succ]
    rw [ih (fun y hy => h y (List.mem_cons_of_mem _ hy)), h x List.mem_cons_self]; ring

theorem totalWeight_uniform (cn : Net W) (T : W) (hne : cn ≠ []) (hu : Uniform (fieldOps W) cn T) :
    totalWeight (fieldOps W) cn = T := by
  show List.foldl (· + ·) (0 : W) (cn.map (posTotal (fieldOps W))) / (cn.length : W) = T
  rw [foldl_add, sum_const cn _ T hu]
  have : (cn.length : W) ≠ 0 := by
    rw [Nat.cast_ne_zero]
    exact fun h => hne (List.length_eq_zero_iff.1 h)
  rw [zero_add, mul_div_cancel_left₀ _ this]

omit [IsStrictOrderedRing W] in
theorem Walk.uniform {s T : W} {todo tr new} (h : Walk (fieldOps W) s T todo tr new)
    (hu : Uniform (fieldOps W) todo T) : Uniform (fieldOps W) new (T + s) := by
  induction h with
  | nil => intro p hp; simp at hp
  | ins c _ ih =>
    intro p hp
    rcases List.mem_cons.1 hp with rfl | hp
    · rw [posTotal_eq]; simp [newPos]
    · exact ih hu p hp
  | eps q _ ih =>
    intro p hp
    rcases List.mem_cons.1 hp with rfl | hp
    · rw [posTotal_bump, hu q List.mem_cons_self]
    · exact ih (fun r hr => hu r (List.mem_cons_of_mem _ hr)) p hp
  | sub q c _ ih =>
    intro p hp
    rcases List.mem_cons.1 hp with rfl | hp
    · rw [posTotal_bump, hu q List.mem_cons_self]
    · exact ih (fun r hr => hu r (List.mem_cons_of_mem _ hr)) p hp

theorem addHyp_uniform (adv : Bool) (hadv : adv = true) (cn cn' : Net W) (tr : List Nat) (s T : W)
    (hne : cn ≠ []) (hu : Uniform (fieldOps W) cn T)
    (h : addHyp (fieldOps W) adv cn tr s = some cn') : Uniform (fieldOps W) cn' (T + s) := by
  have hw := addHyp_walk' (fieldOps W) adv hadv cn cn' tr s hne h
  rw [totalWeight_uniform cn T hne hu] at hw
  exact hw.uniform hu

omit [IsStrictOrderedRing W] in
theorem uniform_first (tr : List Nat) (s : W) :
    Uniform (fieldOps W) (tr.map fun c => ([(some c, s)] : Pos W)) s := by
  intro p hp
  simp only [List.mem_map] at hp
  obtain ⟨c, _, rfl⟩ := hp
  rw [posTotal_eq]; simp

omit [LinearOrder W] [IsStrictOrderedRing W] in
theorem sum_map_div {β : Type} (l : List β) (f : β → W) (t : W) :
    (l.map fun x => f x / t).sum = (l.map f).sum / t := by
  induction l with
  | nil => simp
  | cons x l ih => simp only [List.map_cons, List.sum_cons, ih]; ring

omit [IsStrictOrderedRing W] in
theorem normalize_uniform (cn : Net W) (h : ∀ p ∈ cn, posTotal (fieldOps W) p ≠ 0) :
    Uniform (fieldOps W) (normalize (fieldOps W) cn) 1 := by
  intro q hq
  simp only [normalize, List.mem_map] at hq
  obtain ⟨p, hp, rfl⟩ := hq
  have h0 := h p hp
  rw [posTotal_eq] at h0 ⊢
  simp only [List.map_map, Function.comp_def]
  show (p.map fun kv => kv.2 / posTotal (fieldOps W) p).sum = 1
  rw [sum_map_div, posTotal_eq]
  exact div_self h0

/-! ### paths -/

omit [IsStrictOrderedRing W] in
theorem sortedPaths_pairwise (cn : Net W) :
    (sortedPaths (fieldOps W) cn).Pairwise fun a b => b.2 ≤ a.2 := by
  unfold sortedPaths
  split
  · exact List.Pairwise.nil
  · have := List.pairwise_mergeSort (le := fun (a b : List Nat × W) => !((fieldOps W).lt a.2 b.2))
      (by
        intro a b c hab hbc
        simp only [fieldOps, Bool.not_eq_true', decide_eq_false_iff_not, not_lt] at hab hbc ⊢
        exact le_trans hbc hab)
      (by
        intro a b
        simp only [fieldOps, Bool.or_eq_true, Bool.not_eq_true', decide_eq_false_iff_not, not_lt]
        exact le_total _ _)
      ((product (cn.map (sortDesc (fieldOps W)))).map fun arcs =>
        (pathString arcs, pathProb (fieldOps W) arcs))
    refine this.imp ?_
    intro a b hab
    simpa [fieldOps] using hab

omit [LinearOrder W] [IsStrictOrderedRing W] in
theorem foldl_mul (arcs : List (Arc × W)) (x : W) :
    arcs.foldl (fun acc a => acc * a.2) x = x * (arcs.map (·.2)).prod := by
  induction arcs generalizing x with
  | nil => simp
  | cons a arcs ih => simp only [List.foldl_cons, List.map_cons, List.prod_cons, ih]; ring

omit [IsStrictOrderedRing W] in
theorem pathProb_eq (arcs : List (Arc × W)) :
    pathProb (fieldOps W) arcs = (arcs.map (·.2)).prod := by
  show arcs.foldl (fun acc a => acc * a.2) (1 : W) = _
  rw [foldl_mul, one_mul]

omit [LinearOrder W] [IsStrictOrderedRing W] in
theorem sum_flatMap_map {β γ : Type} (p : List β) (f : β → List γ) (g : γ → W) :
    ((p.flatMap f).map g).sum = (p.map fun a => ((f a).map g).sum).sum := by
  induction p with
  | nil => simp
  | cons a p ih => simp only [List.flatMap_cons, List.map_append, sum_app, ih, List.map_cons, List.sum_cons]

omit [LinearOrder W] [IsStrictOrderedRing W] in
theorem sum_map_mul_left {β : Type} (l : List β) (f : β → W) (c : W) :
    (l.map fun x => c * f x).sum = c * (l.map f).sum := by
  induction l with
  | nil => simp
  | cons x l ih => simp only [List.map_cons, List.sum_cons, ih]; ring

omit [LinearOrder W] [IsStrictOrderedRing W] in
theorem sum_prod' (ps : List (List (Arc × W))) (h : ∀ p ∈ ps, (p.map (·.2)).sum = 1) :
    ((prod' ps).map fun arcs => (arcs.map (·.2)).prod).sum = 1 := by
  induction ps with
  | nil => simp [prod']
  | cons p ps ih =>
    have ih := ih (fun q hq => h q (List.mem_cons_of_mem _ hq))
    simp only [prod']
    rw [sum_flatMap_map]
    simp only [List.map_map, Function.comp_def, List.map_cons, List.prod_cons]
    have : ∀ a : Arc × W,
        ((prod' ps).map fun x => a.2 * (x.map (·.2)).prod).sum = a.2 := by
      intro a
      rw [sum_map_mul_left (prod' ps) (fun x => (x.map (·.2)).prod) a.2, ih, mul_one]
    simp only [this]
    exact h p List.mem_cons_self

omit [IsStrictOrderedRing W] in
theorem sortedPaths_sum (cn : Net W) (hne : cn ≠ []) (hu : Uniform (fieldOps W) cn 1) :
    ((sortedPaths (fieldOps W) cn).map (·.2)).sum = 1 := by
  simp only [sortedPaths, if_neg hne]
  rw [perm_sum ((List.mergeSort_perm _ _).map _), product_eq]
  simp only [List.map_map, Function.comp_def, pathProb_eq]
  apply sum_prod'
  intro p hp
  simp only [List.mem_map] at hp
  obtain ⟨q, hq, rfl⟩ := hp
  have := hu q hq
  rw [posTotal_eq] at this
  rw [← this]
  exact perm_sum ((List.mergeSort_perm _ _).map _)

/-! ### a single hypothesis -/

omit [IsStrictOrderedRing W] in
theorem normalize_first (tr : List Nat) (s : W) (hs : s ≠ 0) :
    normalize (fieldOps W) (tr.map fun c => ([(some c, s)] : Pos W)) =
      tr.map fun c => ([(some c, 1)] : Pos W) := by
  simp only [normalize, List.map_map, Function.comp_def]
  apply List.map_congr_left
  intro c _
  rw [posTotal_eq]
  simp only [List.map_cons, List.map_nil, List.sum_cons, List.sum_nil, add_zero]
  show [((some c : Arc), s / s)] = _
  rw [div_self hs]

omit [Field W] [LinearOrder W] [IsStrictOrderedRing W] in
theorem getPivot_single (o : WOps W) (x : W) (tr : List Nat) :
    getPivot o (tr.map fun c => ([(some c, x)] : Pos W)) = some (tr.map some) := by
  induction tr with
  | nil => simp [getPivot]
  | cons c tr ih => rw [List.map_cons, getPivot_cons, ih]; simp [sortDesc]

theorem prod'_single {β γ : Type} (f : γ → β) (tr : List γ) :
    prod' (tr.map fun c => [f c]) = [tr.map f] := by
  induction tr with
  | nil => rfl
  | cons c tr ih => simp [prod', ih]

omit [IsStrictOrderedRing W] in
theorem sortedPaths_single (tr : List Nat) (hne : tr ≠ []) :
    sortedPaths (fieldOps W) (tr.map fun c => ([(some c, 1)] : Pos W)) = [(tr, 1)] := by
  have hne' : (tr.map fun c => ([(some c, (1 : W))] : Pos W)) ≠ [] := by simpa using hne
  simp only [sortedPaths, if_neg hne', product_eq, List.map_map, Function.comp_def]
  have : (fun c : Nat => sortDesc (fieldOps W) [(some c, (1 : W))]) =
      fun c => [((some c : Arc), (1 : W))] := by
    funext c; simp [sortDesc]
  rw [this, prod'_single (fun c : Nat => ((some c : Arc), (1 : W)))]
  simp only [List.map_cons, List.map_nil, List.mergeSort_singleton, pathProb_eq, List.map_map,
    Function.comp_def]
  congr 2
  · simp [pathString, List.filterMap_map, Function.comp_def]
  · induction tr with
    | nil => simp
    | cons c tr ih => cases tr <;> simp_all

end Field

end CNL
