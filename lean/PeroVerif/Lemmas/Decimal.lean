-- printing/parsing round trips
import PeroVerif.Py.Decimal

namespace Py

/-- value of a digit string -/
def val (s : Str) : Nat := s.foldl (fun acc c => acc * 10 + (c - c0)) 0

theorem foldl_val (s : Str) (a : Nat) :
    s.foldl (fun acc c => acc * 10 + (c - c0)) a = a * 10 ^ s.length + val s := by
  induction s generalizing a with
  | nil => simp [val]
  | cons c r ih =>
    simp only [List.foldl_cons, val, List.length_cons]
    rw [ih, ih (0 * 10 + (c - c0))]
    simp only [Nat.pow_succ, Nat.zero_mul, Nat.zero_add, Nat.add_mul]
    rw [Nat.mul_assoc, Nat.mul_comm 10, Nat.add_assoc]

theorem val_cons (c : Nat) (r : Str) : val (c :: r) = (c - c0) * 10 ^ r.length + val r := by
  simp only [val, List.foldl_cons]
  rw [foldl_val]
  simp [val]

theorem val_append (a b : Str) : val (a ++ b) = val a * 10 ^ b.length + val b := by
  simp only [val, List.foldl_append]
  rw [foldl_val]
  simp [val]

theorem val_replicate_zero (j : Nat) : val (List.replicate j c0) = 0 := by
  induction j with
  | zero => rfl
  | succ j ih => rw [List.replicate_succ, val_cons, ih]; simp

def AllDigits (s : Str) : Prop := ∀ c ∈ s, isDigit c = true

theorem isDigit_iff (c : Nat) : isDigit c = true ↔ 48 ≤ c ∧ c ≤ 57 := by
  unfold isDigit c0
  rw [Bool.and_eq_true, decide_eq_true_iff, decide_eq_true_iff]

theorem isDigit_c0_add (n : Nat) (h : n < 10) : isDigit (c0 + n) = true := by
  rw [isDigit_iff]; simp only [c0]; omega

theorem showNatAux_digits (fuel n : Nat) (acc : Str) (hf : n < fuel) (ha : AllDigits acc) :
    AllDigits (showNatAux fuel n acc) := by
  induction fuel generalizing n acc with
  | zero => omega
  | succ f ih =>
    unfold showNatAux
    split
    · intro c hc
      rcases List.mem_cons.mp hc with rfl | hc
      · exact isDigit_c0_add n (by assumption)
      · exact ha c hc
    · apply ih
      · omega
      · intro c hc
        rcases List.mem_cons.mp hc with rfl | hc
        · exact isDigit_c0_add _ (Nat.mod_lt _ (by decide))
        · exact ha c hc

theorem showNatAux_val (fuel n : Nat) (acc : Str) (hf : n < fuel) :
    val (showNatAux fuel n acc) = n * 10 ^ acc.length + val acc := by
  induction fuel generalizing n acc with
  | zero => omega
  | succ f ih =>
    unfold showNatAux
    split
    · rw [val_cons]; simp [c0]
    · rw [ih _ _ (by omega), val_cons]
      simp only [List.length_cons, Nat.pow_succ, c0, Nat.add_sub_cancel_left]
      have h := Nat.div_add_mod n 10
      generalize 10 ^ acc.length = P
      calc n / 10 * (P * 10) + (n % 10 * P + val acc)
          = (10 * (n / 10) + n % 10) * P + val acc := by
            rw [Nat.add_mul, Nat.mul_comm P 10, ← Nat.mul_assoc, Nat.mul_comm 10 (n / 10), Nat.add_assoc]
        _ = n * P + val acc := by rw [h]

theorem showNatAux_ne_nil (fuel n : Nat) (acc : Str) (hf : n < fuel) :
    showNatAux fuel n acc ≠ [] := by
  induction fuel generalizing n acc with
  | zero => omega
  | succ f ih =>
    unfold showNatAux
    split
    · simp
    · exact ih _ _ (by omega)

theorem showNatAux_length (fuel n k : Nat) (acc : Str) (hf : n < fuel) (hk : 0 < k) (hn : n < 10 ^ k) :
    (showNatAux fuel n acc).length ≤ k + acc.length := by
  induction fuel generalizing n k acc with
  | zero => omega
  | succ f ih =>
    unfold showNatAux
    split
    · simp only [List.length_cons]; omega
    · rename_i h10
      have hk2 : 2 ≤ k := by
        rcases Nat.lt_or_ge k 2 with h | h
        · have : k = 1 := by omega
          subst this; simp at hn; omega
        · exact h
      have : n / 10 < 10 ^ (k - 1) := by
        apply Nat.div_lt_of_lt_mul
        have : 10 ^ k = 10 * 10 ^ (k - 1) := by
          rw [← Nat.pow_succ']; congr 1; omega
        omega
      have := ih (n / 10) (k - 1) ((c0 + n % 10) :: acc) (by omega) (by omega) this
      simp only [List.length_cons] at this
      omega

theorem showNat_digits (n : Nat) : AllDigits (showNat n) :=
  showNatAux_digits _ _ _ (Nat.lt_succ_self n) (by intro c hc; cases hc)

theorem showNat_val (n : Nat) : val (showNat n) = n := by
  rw [showNat, showNatAux_val _ _ _ (Nat.lt_succ_self n)]; simp [val]

theorem showNat_ne_nil (n : Nat) : showNat n ≠ [] := showNatAux_ne_nil _ _ _ (Nat.lt_succ_self n)

theorem showNat_length (n k : Nat) (hk : 0 < k) (hn : n < 10 ^ k) : (showNat n).length ≤ k := by
  have := showNatAux_length (n + 1) n k [] (Nat.lt_succ_self n) hk hn
  simpa [showNat] using this

theorem parseNat_of_digits (s : Str) (hne : s ≠ []) (hd : AllDigits s) : parseNat s = some (val s) := by
  unfold parseNat
  have h1 : s.isEmpty = false := by cases s <;> simp_all
  have h2 : s.all isDigit = true := List.all_eq_true.mpr hd
  simp [h1, h2, val]

theorem parseNat_showNat (n : Nat) : parseNat (showNat n) = some n := by
  rw [parseNat_of_digits _ (showNat_ne_nil n) (showNat_digits n), showNat_val]

/-- characters of a printed integer: digits or '-' -/
def IntChar (c : Nat) : Prop := isDigit c = true ∨ c = cMinus

theorem showInt_chars (i : Int) : ∀ c ∈ showInt i, IntChar c := by
  unfold showInt
  split
  · intro c hc
    rcases List.mem_cons.mp hc with rfl | hc
    · exact Or.inr rfl
    · exact Or.inl (showNat_digits _ c hc)
  · intro c hc; exact Or.inl (showNat_digits _ c hc)

theorem showInt_ne_nil (i : Int) : showInt i ≠ [] := by
  unfold showInt
  split
  · simp
  · exact showNat_ne_nil _

theorem parseInt_showInt (i : Int) : parseInt (showInt i) = some i := by
  unfold showInt
  split
  · rename_i h
    simp only [parseInt, if_true, parseNat_showNat]
    simp; omega
  · rename_i h
    have hne := showNat_ne_nil i.toNat
    have hd := showNat_digits i.toNat
    have hp := parseNat_showNat i.toNat
    generalize showNat i.toNat = s at *
    match s, hne with
    | c :: r, _ =>
      have hc : c ≠ cMinus := by
        have := (isDigit_iff c).mp (hd c (List.mem_cons_self))
        simp only [cMinus]; omega
      simp only [parseInt, if_neg hc, hp]
      simp; omega

/-! ### splitOn / join -/

theorem splitOn_ne_nil (sep : Nat) (s : Str) : splitOn sep s ≠ [] := by
  induction s with
  | nil => simp [splitOn]
  | cons c r ih =>
    unfold splitOn
    split
    · simp
    · split <;> simp

theorem splitOn_nosep (sep : Nat) (s : Str) (h : ∀ c ∈ s, c ≠ sep) : splitOn sep s = [s] := by
  induction s with
  | nil => rfl
  | cons c r ih =>
    have hc : c ≠ sep := h c List.mem_cons_self
    have hr := ih (fun c hc => h c (List.mem_cons_of_mem _ hc))
    simp [splitOn, hc, hr]

theorem splitOn_append (sep : Nat) (a b : Str) (h : ∀ c ∈ a, c ≠ sep) :
    splitOn sep (a ++ sep :: b) = a :: splitOn sep b := by
  induction a with
  | nil => simp [splitOn]
  | cons c r ih =>
    have hc : c ≠ sep := h c List.mem_cons_self
    have hr := ih (fun c hc => h c (List.mem_cons_of_mem _ hc))
    simp [splitOn, hc, hr]

theorem splitOn_join (sep : Nat) (ws : List Str) (hne : ws ≠ [])
    (h : ∀ w ∈ ws, ∀ c ∈ w, c ≠ sep) : splitOn sep (join [sep] ws) = ws := by
  induction ws with
  | nil => exact absurd rfl hne
  | cons w ws ih =>
    cases ws with
    | nil => simp only [join]; exact splitOn_nosep _ _ (h w List.mem_cons_self)
    | cons w' ws' =>
      simp only [join]
      rw [List.append_assoc, List.singleton_append, splitOn_append _ _ _ (h w List.mem_cons_self)]
      rw [ih (by simp) (fun x hx => h x (List.mem_cons_of_mem _ hx))]

/-! ### fixed point -/

theorem padZeros_length (k : Nat) (s : Str) (h : s.length ≤ k) : (padZeros k s).length = k := by
  simp [padZeros]; omega

theorem padZeros_digits (k : Nat) (s : Str) (h : AllDigits s) : AllDigits (padZeros k s) := by
  intro c hc
  simp only [padZeros, List.mem_append, List.mem_replicate] at hc
  rcases hc with ⟨_, rfl⟩ | hc
  · decide
  · exact h c hc

theorem padZeros_val (k : Nat) (s : Str) : val (padZeros k s) = val s := by
  simp [padZeros, val_append, val_replicate_zero]

theorem digit_ne {c : Nat} (h : isDigit c = true) : c ≠ cDot ∧ c ≠ cComma ∧ c ≠ cSpace ∧ c ≠ cMinus ∧ c ≠ cRBr := by
  have := (isDigit_iff c).mp h
  simp only [cDot, cComma, cSpace, cMinus, cRBr]; omega

theorem showFixed_chars (k n : Nat) : ∀ c ∈ showFixed k n, isDigit c = true ∨ c = cDot := by
  intro c hc
  simp only [showFixed, List.mem_append, List.mem_singleton] at hc
  rcases hc with (hc | hc) | hc
  · exact Or.inl (showNat_digits _ c hc)
  · exact Or.inr hc
  · exact Or.inl (padZeros_digits _ _ (showNat_digits _) c hc)

/-- `parseFixed_showFixed` needs `0 < k`: `parseFixed 0 (showFixed 0 5) = none` -/
theorem parseFixed_showFixed_pos (k n : Nat) (hk : 0 < k) : parseFixed k (showFixed k n) = some n := by
  have hm : n % 10 ^ k < 10 ^ k := Nat.mod_lt _ (Nat.pow_pos (by decide))
  have hlen := padZeros_length k _ (showNat_length _ k hk hm)
  have hdig := padZeros_digits k _ (showNat_digits (n % 10 ^ k))
  have hsplit : splitOn cDot (showFixed k n) = [showNat (n / 10 ^ k), padZeros k (showNat (n % 10 ^ k))] := by
    simp only [showFixed, List.append_assoc, List.singleton_append]
    rw [splitOn_append _ _ _ (fun c hc => (digit_ne (showNat_digits _ c hc)).1)]
    rw [splitOn_nosep _ _ (fun c hc => (digit_ne (hdig c hc)).1)]
  have hne : padZeros k (showNat (n % 10 ^ k)) ≠ [] := by
    intro h; rw [h] at hlen; simp at hlen; omega
  simp only [parseFixed, hsplit, hlen, if_true, parseNat_showNat,
    parseNat_of_digits _ hne hdig, padZeros_val, showNat_val]
  congr 1
  rw [Nat.mul_comm]; exact Nat.div_add_mod n (10 ^ k)

end Py
