-- helper lemmas for C02
import Mathlib.Algebra.Order.Ring.Defs
import Mathlib.Data.List.Nodup
import Mathlib.Data.List.Perm.Subperm
import Mathlib.Data.List.Induction
import Mathlib.Tactic.Linarith
import PeroVerif.Spec.CtcMass
import PeroVerif.Lemmas.CtcMass

set_option linter.unusedSectionVars false

namespace PB

variable {R : Type} [CommSemiring R] [LinearOrder R]
variable {H : Type}

/-! ### the operations record of a semiring -/

@[simp] theorem of_zero : (Ops.of R).zero = 0 := rfl
@[simp] theorem of_one : (Ops.of R).one = 1 := rfl
@[simp] theorem of_add (a b : R) : (Ops.of R).add a b = a + b := rfl
@[simp] theorem of_mul (a b : R) : (Ops.of R).mul a b = a * b := rfl
@[simp] theorem of_lt (a b : R) : (Ops.of R).lt a b = decide (a < b) := rfl

/-- copy of `C02.IsCut` (the Props file imports this one) -/
def IsCut (key : Entry H R → R) (choose : ℕ → List (Entry H R) → List (Entry H R)) : Prop :=
  ∀ k l, (choose k l).Subperm l ∧ (choose k l).length = min k l.length ∧
    ∀ a ∈ choose k l, ∀ b ∈ l, b ∉ choose k l → ¬ key a < key b

/-- copy of `C02.BeamOK` -/
def OK (beam : List (Entry H R)) : Prop :=
  (beam.map (·.pre)).Nodup ∧ ∀ e ∈ beam, e.pre ≠ [] → e.pre.getLast? = some e.last

/-! ### the executable cut -/

theorem topK_isCut (key : Entry H R → R) : IsCut key (topK (Ops.of R) key) := by
  intro k l
  unfold topK
  generalize hle : (fun a b : Entry H R => !((Ops.of R).lt (key a) (key b))) = le
  have hle' : ∀ a b, le a b = true ↔ ¬ key a < key b := by
    intro a b; subst hle; simp
  have hperm := List.mergeSort_perm l le
  refine ⟨?_, ?_, ?_⟩
  · exact (List.take_sublist _ _).subperm.trans hperm.subperm
  · simp [List.length_take]
  · intro a ha b hb hnb
    have hsorted : (l.mergeSort le).Pairwise (fun a b => le a b) := by
      apply List.pairwise_mergeSort
      · intro x y z hxy hyz
        rw [hle'] at *
        exact fun h => hxy (lt_of_lt_of_le h (not_lt.mp hyz))
      · intro x y
        rw [Bool.or_eq_true, hle', hle']
        rcases lt_or_ge (key x) (key y) with h | h
        · exact Or.inr (not_lt.mpr h.le)
        · exact Or.inl (not_lt.mpr h)
    rw [← List.take_append_drop k (l.mergeSort le)] at hsorted
    have hb' : b ∈ (l.mergeSort le).drop k := by
      have : b ∈ l.mergeSort le := List.mem_mergeSort.mpr hb
      rw [← List.take_append_drop k (l.mergeSort le), List.mem_append] at this
      exact this.resolve_left hnb
    have := (List.pairwise_append.mp hsorted).2.2 a ha b hb'
    exact (hle' a b).mp this

/-! ### one frame is a cut of the positive candidates -/

theorem step_is_cut (lm : LM H R) (sel : R → Bool) (k : ℕ) (key : Entry H R → R)
    (choose : ℕ → List (Entry H R) → List (Entry H R)) (hc : IsCut key choose)
    (beam : List (Entry H R)) (row : List R) (hS : (selected (Ops.of R) sel row) ≠ []) :
    let o := Ops.of R
    let pos := (candidates o lm (selected o sel row) beam row).filter fun c => o.lt 0 (score o c)
    let out := step o lm sel k choose beam row
    out.Subperm pos ∧ out.length = min k pos.length ∧
      ∀ a ∈ out, ∀ b ∈ pos, b ∉ out → ¬ key a < key b := by
  intro o pos out
  have hS' : (selected o sel row).isEmpty = false := by
    cases h : selected o sel row with
    | nil => exact absurd h hS
    | cons a l => rfl
  have hout : out = choose (min k pos.length) pos := by
    show step o lm sel k choose beam row = _
    unfold step
    simp only [hS']
    rfl
  obtain ⟨h1, h2, h3⟩ := hc (min k pos.length) pos
  rw [hout]
  refine ⟨h1, ?_, h3⟩
  rw [h2]
  omega

/-! ### normalisation check -/

theorem foldl_add_eq (row : List R) (a : R) : row.foldl (Ops.of R).add a = a + row.sum := by
  induction row generalizing a with
  | nil => simp
  | cons x xs ih => simp [List.foldl_cons, ih, add_assoc]

theorem rowSum_eq (row : List R) : rowSum (Ops.of R) row = row.sum := by
  unfold rowSum
  rw [foldl_add_eq]
  simp

theorem unnormalised_iff (tol : R) (M : List (List R)) :
    unnormalised (Ops.of R) tol M = true ↔
      ∃ row ∈ M, 1 + tol < row.sum ∨ row.sum + tol < 1 := by
  unfold unnormalised
  simp [rowSum_eq]

theorem reject_unnormalised (lm : LM H R) (sel : R → Bool) (k : ℕ)
    (choose : ℕ → List (Entry H R) → List (Entry H R)) (tol : R) (h0 : H) (modelEos : Bool)
    (M : List (List R)) (row : List R) (hrow : row ∈ M)
    (hdev : 1 + tol < row.sum ∨ row.sum + tol < 1) :
    ∃ e, decode (Ops.of R) lm sel k choose tol h0 modelEos M = .error e := by
  have h : unnormalised (Ops.of R) tol M = true := (unnormalised_iff tol M).mpr ⟨row, hrow, hdev⟩
  refine ⟨.reject, ?_⟩
  unfold decode decodeBeam
  rw [if_pos h]
  rfl

theorem accept_normalised (lm : LM H R) (sel : R → Bool) (k : ℕ)
    (choose : ℕ → List (Entry H R) → List (Entry H R)) (tol : R) (h0 : H) (modelEos : Bool)
    (M : List (List R)) (hn : ∀ row ∈ M, ¬ (1 + tol < row.sum) ∧ ¬ (row.sum + tol < 1)) :
    decode (Ops.of R) lm sel k choose tol h0 modelEos M =
      .ok (finish (Ops.of R) lm modelEos
        (M.foldl (step (Ops.of R) lm sel k choose) (init (Ops.of R) h0))) := by
  have h : ¬ unnormalised (Ops.of R) tol M = true := by
    rw [unnormalised_iff]
    rintro ⟨row, hrow, h | h⟩
    · exact (hn row hrow).1 h
    · exact (hn row hrow).2 h
  unfold decode decodeBeam
  rw [if_neg h]
  rfl

/-! ### structure of the candidates -/

/-- extension candidate -/
def extC (o : Ops R) (lm : LM H R) (S : List ℕ) (beam : List (Entry H R)) (row : List R)
    (e : Entry H R) (c : ℕ) : Entry H R :=
  { pre := e.pre ++ [c], last := c, pb := o.zero, pnb := extJ o S beam row e c,
    plm := o.mul e.plm (lm.prob e.h c), h := lm.adv e.h c }

/-- stay candidate -/
def stayC (o : Ops R) (S : List ℕ) (beam : List (Entry H R)) (row : List R)
    (e : Entry H R) : Entry H R :=
  { e with pb := stayPb o row e, pnb := stayPnb o S beam row e }

theorem candidates_eq (o : Ops R) (lm : LM H R) (S : List ℕ) (beam : List (Entry H R))
    (row : List R) :
    candidates o lm S beam row =
      beam.flatMap fun e => (S.map (extC o lm S beam row e)) ++ [stayC o S beam row e] := rfl

theorem mem_candidates {o : Ops R} {lm : LM H R} {S : List ℕ} {beam : List (Entry H R)}
    {row : List R} {x : Entry H R} :
    x ∈ candidates o lm S beam row ↔
      ∃ e ∈ beam, (∃ c ∈ S, x = extC o lm S beam row e c) ∨ x = stayC o S beam row e := by
  rw [candidates_eq]
  simp only [List.mem_flatMap, List.mem_append, List.mem_map, List.mem_singleton]
  constructor
  · rintro ⟨e, he, ⟨c, hc, rfl⟩ | rfl⟩
    · exact ⟨e, he, Or.inl ⟨c, hc, rfl⟩⟩
    · exact ⟨e, he, Or.inr rfl⟩
  · rintro ⟨e, he, ⟨c, hc, rfl⟩ | rfl⟩
    · exact ⟨e, he, Or.inl ⟨c, hc, rfl⟩⟩
    · exact ⟨e, he, Or.inr rfl⟩

theorem mem_selected {o : Ops R} {sel : R → Bool} {row : List R} {c : ℕ} :
    c ∈ selected o sel row ↔ c < row.length - 1 ∧ sel (rowAt o row c) = true := by
  simp [selected]

theorem nodup_selected (o : Ops R) (sel : R → Bool) (row : List R) :
    (selected o sel row).Nodup :=
  List.Nodup.sublist List.filter_sublist List.nodup_range

theorem absorbs_iff (q e : Entry H R) (c : ℕ) :
    absorbs q e c = true ↔ q.pre ≠ [] ∧ q.pre.dropLast = e.pre ∧ q.last = c := by
  simp [absorbs, and_assoc]

theorem OK.pre_eq {beam : List (Entry H R)} (hb : OK beam) {q : Entry H R} (hq : q ∈ beam)
    (hne : q.pre ≠ []) : q.pre.dropLast ++ [q.last] = q.pre :=
  List.dropLast_append_getLast? _ (hb.2 q hq hne)

theorem OK.eq_of_pre_eq {beam : List (Entry H R)} (hb : OK beam) {a b : Entry H R}
    (ha : a ∈ beam) (hb' : b ∈ beam) (h : a.pre = b.pre) : a = b :=
  List.inj_on_of_nodup_map hb.1 ha hb' h

theorem extJ_absorbed {o : Ops R} {S : List ℕ} {beam : List (Entry H R)} {row : List R}
    {e q : Entry H R} {c : ℕ} (hq : q ∈ beam) (hpre : q.pre = e.pre ++ [c]) (hlast : q.last = c)
    (hc : c ∈ S) : extJ o S beam row e c = o.zero := by
  unfold extJ
  rw [if_pos]
  rw [List.any_eq_true]
  refine ⟨q, hq, ?_⟩
  rw [Bool.and_eq_true, absorbs_iff]
  refine ⟨⟨?_, ?_, hlast⟩, ?_⟩
  · rw [hpre]; simp
  · rw [hpre]; simp
  · rw [hlast]; simpa using hc

theorem extJ_not_absorbed {o : Ops R} {S : List ℕ} {beam : List (Entry H R)} {row : List R}
    {e : Entry H R} {c : ℕ} (hb : OK beam) (h : ∀ q ∈ beam, q.pre ≠ e.pre ++ [c]) :
    extJ o S beam row e c = ext o row e c := by
  unfold extJ
  rw [if_neg]
  rw [List.any_eq_true]
  rintro ⟨q, hq, hq'⟩
  rw [Bool.and_eq_true, absorbs_iff] at hq'
  obtain ⟨⟨h1, h2, h3⟩, _⟩ := hq'
  apply h q hq
  rw [← hb.pre_eq hq h1, h2, h3]

/-- In all cases `extJ` is either `0` or `ext`. -/
theorem extJ_cases (o : Ops R) (S : List ℕ) (beam : List (Entry H R)) (row : List R)
    (e : Entry H R) (c : ℕ) :
    extJ o S beam row e c = o.zero ∨ extJ o S beam row e c = ext o row e c := by
  unfold extJ
  split
  · exact Or.inl rfl
  · exact Or.inr rfl

/-! ### positive candidates have distinct prefixes; the beam invariant -/

/-- prefixes of the positive candidates generated by one beam entry -/
theorem mem_block {lm : LM H R} {S : List ℕ} {beam : List (Entry H R)} {row : List R}
    {e : Entry H R} {x : List ℕ} :
    x ∈ (((S.map (extC (Ops.of R) lm S beam row e)) ++ [stayC (Ops.of R) S beam row e]).filter
        fun c => (Ops.of R).lt 0 (score (Ops.of R) c)).map (·.pre) →
      (∃ c ∈ S, x = e.pre ++ [c] ∧ extJ (Ops.of R) S beam row e c ≠ 0) ∨ x = e.pre := by
  simp only [List.mem_map, List.mem_filter, List.mem_append, List.mem_singleton]
  rintro ⟨y, ⟨⟨c, hc, rfl⟩ | rfl, hy⟩, rfl⟩
  · left
    refine ⟨c, hc, rfl, ?_⟩
    intro h0
    simp [score, extC, h0] at hy
  · right
    rfl

theorem pos_pre_nodup (lm : LM H R) (S : List ℕ) (hS : S.Nodup) (beam : List (Entry H R))
    (row : List R) (hb : OK beam) :
    (((candidates (Ops.of R) lm S beam row).filter
      fun c => (Ops.of R).lt 0 (score (Ops.of R) c)).map (·.pre)).Nodup := by
  rw [candidates_eq, List.filter_flatMap, List.map_flatMap, List.nodup_flatMap]
  constructor
  · intro e _
    apply List.Nodup.sublist (List.filter_sublist.map _)
    rw [List.map_append, List.map_map]
    have : ((fun x : Entry H R => x.pre) ∘ extC (Ops.of R) lm S beam row e) =
        fun c => e.pre ++ [c] := rfl
    rw [this]
    rw [List.nodup_append]
    refine ⟨?_, by simp [stayC], ?_⟩
    · apply List.Nodup.map _ hS
      intro a b h
      simpa using h
    · intro a ha b hb'
      simp only [List.mem_map] at ha
      obtain ⟨c, _, rfl⟩ := ha
      simp only [stayC, List.map_cons, List.map_nil, List.mem_singleton] at hb'
      subst hb'
      simp
  · apply List.Pairwise.imp_of_mem _ (List.pairwise_map.mp hb.1)
    intro a b ha hb' hne
    show List.Disjoint _ _
    intro x hxa hxb
    rcases mem_block hxa with ⟨c, hc, rfl, h0⟩ | rfl <;>
      rcases mem_block hxb with ⟨c', hc', h1, h0'⟩ | h1
    · exact hne (List.append_inj' h1 rfl).1
    · exact h0 (extJ_absorbed hb' h1.symm (by
        have := hb.2 b hb' (by rw [← h1]; simp)
        rw [← h1] at this
        simpa using this.symm) hc)
    · exact h0' (extJ_absorbed ha h1 (by
        have := hb.2 a ha (by rw [h1]; simp)
        rw [h1] at this
        simpa using this.symm) hc')
    · exact hne h1

theorem candidates_last {lm : LM H R} {S : List ℕ} {beam : List (Entry H R)} {row : List R}
    {o : Ops R} (hb : OK beam) : ∀ x ∈ candidates o lm S beam row,
      x.pre ≠ [] → x.pre.getLast? = some x.last := by
  intro x hx
  rw [mem_candidates] at hx
  obtain ⟨e, he, ⟨c, _, rfl⟩ | rfl⟩ := hx
  · intro _; simp [extC]
  · exact hb.2 e he

theorem step_OK (lm : LM H R) (sel : R → Bool) (k : ℕ) (key : Entry H R → R)
    (choose : ℕ → List (Entry H R) → List (Entry H R)) (hc : IsCut key choose)
    (beam : List (Entry H R)) (row : List R) (hb : OK beam) :
    OK (step (Ops.of R) lm sel k choose beam row) := by
  unfold step
  simp only
  split
  · constructor
    · rw [List.map_map]
      exact hb.1
    · intro e he
      simp only [List.mem_map] at he
      obtain ⟨e', he', rfl⟩ := he
      exact hb.2 e' he'
  · generalize hpos : ((candidates (Ops.of R) lm (selected (Ops.of R) sel row) beam row).filter
      fun c => (Ops.of R).lt (Ops.of R).zero (score (Ops.of R) c)) = pos
    obtain ⟨h1, _, _⟩ := hc (min k pos.length) pos
    have hnd : (pos.map (·.pre)).Nodup := by
      rw [← hpos]
      exact pos_pre_nodup lm _ (nodup_selected _ sel row) beam row hb
    constructor
    · obtain ⟨l', hl', hsub⟩ := h1
      exact (hl'.map _).nodup_iff.mp (List.Nodup.sublist (hsub.map _) hnd)
    · intro e he
      have : e ∈ pos := h1.subset he
      rw [← hpos] at this
      exact candidates_last hb e (List.mem_filter.mp this).1

theorem init_OK (h0 : H) : OK (init (Ops.of R) h0) := by
  constructor
  · simp [init]
  · intro e he
    simp only [init, List.mem_singleton] at he
    subst he
    simp

theorem foldl_step_OK (lm : LM H R) (sel : R → Bool) (k : ℕ) (key : Entry H R → R)
    (choose : ℕ → List (Entry H R) → List (Entry H R)) (hc : IsCut key choose)
    (M : List (List R)) (beam : List (Entry H R)) (hb : OK beam) :
    OK (M.foldl (step (Ops.of R) lm sel k choose) beam) := by
  induction M generalizing beam with
  | nil => exact hb
  | cons row M ih => exact ih _ (step_OK lm sel k key choose hc beam row hb)

/-! ### generic list-sum lemmas for grouping -/

theorem sum_filter_map {β : Type} (l : List β) (p : β → Bool) (g : β → R) :
    ((l.filter p).map g).sum = (l.map fun x => if p x then g x else 0).sum := by
  induction l with
  | nil => simp
  | cons a l ih =>
    by_cases h : p a
    · simp [h, ih]
    · simp [h, ih]

theorem sum_filter_flatMap {α β : Type} (l : List α) (f : α → List β) (p : β → Bool)
    (g : β → R) :
    (((l.flatMap f).filter p).map g).sum =
      (l.map fun a => ((f a).map fun x => if p x then g x else 0).sum).sum := by
  induction l with
  | nil => simp
  | cons a l ih =>
    rw [List.flatMap_cons, List.filter_append, List.map_append, List.sum_append, ih,
      sum_filter_map]
    simp

theorem sum_map_ite_eq_of_nodup {l : List ℕ} (hl : l.Nodup) (a : ℕ) (F : ℕ → R) :
    (l.map fun c => if c = a then F c else 0).sum = if a ∈ l then F a else 0 := by
  induction l with
  | nil => simp
  | cons b l ih =>
    rw [List.nodup_cons] at hl
    rw [List.map_cons, List.sum_cons, ih hl.2]
    by_cases h : b = a
    · subst h
      simp [hl.1]
    · have : ¬ a = b := fun h' => h h'.symm
      simp [h, this]

/-- value of `F` at the beam entry with prefix `ℓ` (0 if none) -/
def lookupVal (beam : List (Entry H R)) (ℓ : List ℕ) (F : Entry H R → R) : R :=
  match beam.find? (fun e => e.pre == ℓ) with
  | some e => F e
  | none => 0

theorem sum_lookup {beam : List (Entry H R)} (hnd : (beam.map (·.pre)).Nodup) (ℓ : List ℕ)
    (F : Entry H R → R) :
    (beam.map fun e => if e.pre = ℓ then F e else 0).sum = lookupVal beam ℓ F := by
  unfold lookupVal
  induction beam with
  | nil => simp
  | cons a l ih =>
    rw [List.map_cons, List.nodup_cons] at hnd
    rw [List.map_cons, List.sum_cons, List.find?_cons]
    by_cases h : a.pre = ℓ
    · have hz : (l.map fun e => if e.pre = ℓ then F e else 0).sum = 0 := by
        apply List.sum_eq_zero
        intro x hx
        simp only [List.mem_map] at hx
        obtain ⟨e, he, rfl⟩ := hx
        have : e.pre ≠ ℓ := by
          intro h'
          apply hnd.1
          rw [h, ← h']
          exact List.mem_map_of_mem he
        rw [if_neg this]
      simp [h, hz]
    · have h' : (a.pre == ℓ) = false := by simpa using h
      rw [if_neg h, zero_add, h', ih hnd.2]

/-- grouped sum of contributions to prefix `ℓ`: extension values `X`, stay values `Y` -/
def grp (S : List ℕ) (beam : List (Entry H R)) (ℓ : List ℕ) (X : Entry H R → ℕ → R)
    (Y : Entry H R → R) : R :=
  (beam.map fun e =>
    (S.map fun c => if e.pre ++ [c] = ℓ then X e c else 0).sum +
      (if e.pre = ℓ then Y e else 0)).sum

theorem grp_nil {S : List ℕ} {beam : List (Entry H R)} (hnd : (beam.map (·.pre)).Nodup)
    (X : Entry H R → ℕ → R) (Y : Entry H R → R) :
    grp S beam [] X Y = lookupVal beam [] Y := by
  unfold grp
  rw [← sum_lookup hnd]
  congr 1
  apply List.map_congr_left
  intro e _
  have : (S.map fun c => if e.pre ++ [c] = [] then X e c else 0).sum = 0 := by
    apply List.sum_eq_zero
    intro x hx
    simp only [List.mem_map] at hx
    obtain ⟨c, _, rfl⟩ := hx
    simp
  rw [this, zero_add]

theorem grp_snoc {S : List ℕ} (hS : S.Nodup) {beam : List (Entry H R)}
    (hnd : (beam.map (·.pre)).Nodup) (ℓ' : List ℕ) (c0 : ℕ)
    (X : Entry H R → ℕ → R) (Y : Entry H R → R) :
    grp S beam (ℓ' ++ [c0]) X Y =
      (if c0 ∈ S then lookupVal beam ℓ' (fun e => X e c0) else 0) +
        lookupVal beam (ℓ' ++ [c0]) Y := by
  unfold grp
  rw [List.sum_map_add, sum_lookup hnd]
  congr 1
  have : ∀ e : Entry H R, (S.map fun c => if e.pre ++ [c] = ℓ' ++ [c0] then X e c else 0).sum =
      if e.pre = ℓ' then (if c0 ∈ S then X e c0 else 0) else 0 := by
    intro e
    by_cases h : e.pre = ℓ'
    · rw [if_pos h, ← sum_map_ite_eq_of_nodup hS c0 (X e)]
      congr 1
      apply List.map_congr_left
      intro c _
      simp [h]
    · rw [if_neg h]
      apply List.sum_eq_zero
      intro x hx
      simp only [List.mem_map] at hx
      obtain ⟨c, _, rfl⟩ := hx
      have : ¬ (e.pre ++ [c] = ℓ' ++ [c0]) := fun h' => h (List.append_inj' h' rfl).1
      rw [if_neg this]
  simp only [this]
  rw [sum_lookup hnd]
  unfold lookupVal
  by_cases hc : c0 ∈ S
  · simp [hc]
  · simp only [hc, if_false]
    split <;> rfl

/-! ### normal forms of `ext` and `stayPnb` -/

section Ordered
variable [IsStrictOrderedRing R]

theorem rowAt_nonneg {row : List R} (hrow : ∀ x ∈ row, 0 ≤ x) (c : ℕ) :
    0 ≤ rowAt (Ops.of R) row c := Ctc.getD_nonneg hrow c

theorem blankP_nonneg {row : List R} (hrow : ∀ x ∈ row, 0 ≤ x) :
    0 ≤ blankP (Ops.of R) row := Ctc.getD_nonneg hrow _

theorem ext_form {beam : List (Entry H R)} (hb : OK beam) {e : Entry H R} (he : e ∈ beam)
    (hnil : e.pre = [] → e.pnb = 0) (row : List R) (c : ℕ) :
    ext (Ops.of R) row e c =
      (e.pb + if e.pre.getLast? = some c then 0 else e.pnb) * rowAt (Ops.of R) row c := by
  unfold ext
  simp only [of_add, of_mul, of_zero]
  by_cases hp : e.pre = []
  · rw [hp, hnil hp]
    simp
  · rw [hb.2 e he hp]
    by_cases hc : c = e.last
    · subst hc; simp
    · have : ¬ (some e.last = some c) := fun h => hc (Option.some.inj h).symm
      rw [if_neg hc, if_neg this, add_mul]

theorem ext_nonneg {e : Entry H R} (h1 : 0 ≤ e.pb) (h2 : 0 ≤ e.pnb) {row : List R}
    (hrow : ∀ x ∈ row, 0 ≤ x) (c : ℕ) : 0 ≤ ext (Ops.of R) row e c := by
  unfold ext
  simp only [of_add, of_mul, of_zero]
  have hr := rowAt_nonneg hrow c
  split
  · exact add_nonneg (mul_nonneg h1 hr) (le_refl _)
  · exact add_nonneg (mul_nonneg h1 hr) (mul_nonneg h2 hr)

theorem stayPnb_form (S : List ℕ) (beam : List (Entry H R)) (row : List R) (q : Entry H R) :
    stayPnb (Ops.of R) S beam row q =
      if q.last ∈ S then
        q.pnb * rowAt (Ops.of R) row q.last +
          (if q.pre = [] then 0 else
            match beam.find? (fun e => e.pre == q.pre.dropLast) with
            | some e => ext (Ops.of R) row e q.last
            | none => 0)
      else 0 := by
  unfold stayPnb
  simp only [of_add, of_mul, of_zero]
  by_cases hS : q.last ∈ S
  · simp only [hS, List.contains_eq_mem, decide_true, if_true]
    by_cases hp : q.pre = []
    · simp [hp]
    · simp only [hp, if_false]
      generalize beam.find? (fun e => e.pre == q.pre.dropLast) = f
      cases f <;> simp
  · simp only [hS, List.contains_eq_mem, decide_false, if_false]
    by_cases hp : q.pre = []
    · simp [hp]
    · simp only [hp, if_false]
      generalize beam.find? (fun e => e.pre == q.pre.dropLast) = f
      cases f <;> simp

/-! ### joining is grouping -/

/-- copy of `C02.rawContrib` for an arbitrary selection `S` -/
def rawC (S : List ℕ) (beam : List (Entry H R)) (row : List R) : List (List ℕ × R × R) :=
  beam.flatMap fun e =>
    (S.map fun c => (e.pre ++ [c], (0 : R), ext (Ops.of R) row e c)) ++
    [(e.pre, stayPb (Ops.of R) row e,
      e.pnb * (if S.contains e.last then rowAt (Ops.of R) row e.last else 0))]

theorem cands_sum (lm : LM H R) (S : List ℕ) (beam : List (Entry H R)) (row : List R)
    (ℓ : List ℕ) (g : Entry H R → R) :
    (((candidates (Ops.of R) lm S beam row).filter fun c => c.pre = ℓ).map g).sum =
      grp S beam ℓ (fun e c => g (extC (Ops.of R) lm S beam row e c))
        (fun e => g (stayC (Ops.of R) S beam row e)) := by
  rw [candidates_eq, sum_filter_flatMap]
  unfold grp
  congr 1
  apply List.map_congr_left
  intro e _
  rw [List.map_append, List.sum_append, List.map_map]
  congr 1
  · congr 1
    apply List.map_congr_left
    intro c _
    by_cases h : e.pre ++ [c] = ℓ <;> simp [extC, h]
  · by_cases h : e.pre = ℓ <;> simp [stayC, h]

theorem raw_sum (S : List ℕ) (beam : List (Entry H R)) (row : List R)
    (ℓ : List ℕ) (g : List ℕ × R × R → R) :
    (((rawC S beam row).filter fun x => x.1 = ℓ).map g).sum =
      grp S beam ℓ (fun e c => g (e.pre ++ [c], (0 : R), ext (Ops.of R) row e c))
        (fun e => g (e.pre, stayPb (Ops.of R) row e,
          e.pnb * (if S.contains e.last then rowAt (Ops.of R) row e.last else 0))) := by
  unfold rawC
  rw [sum_filter_flatMap]
  unfold grp
  congr 1
  apply List.map_congr_left
  intro e _
  rw [List.map_append, List.sum_append, List.map_map]
  congr 1
  · congr 1
    apply List.map_congr_left
    intro c _
    by_cases h : e.pre ++ [c] = ℓ <;> simp [h]
  · by_cases h : e.pre = ℓ <;> simp [h]

theorem lookupVal_congr {beam : List (Entry H R)} {ℓ : List ℕ} {F G : Entry H R → R}
    (h : ∀ e ∈ beam, e.pre = ℓ → F e = G e) : lookupVal beam ℓ F = lookupVal beam ℓ G := by
  unfold lookupVal
  cases hf : beam.find? (fun e => e.pre == ℓ) with
  | none => rfl
  | some e =>
    exact h e (List.mem_of_find?_eq_some hf) (by simpa using List.find?_some hf)

theorem lookupVal_none {beam : List (Entry H R)} {ℓ : List ℕ} (F : Entry H R → R)
    (h : ∀ e ∈ beam, e.pre ≠ ℓ) : lookupVal beam ℓ F = 0 := by
  unfold lookupVal
  have : beam.find? (fun e => e.pre == ℓ) = none := by
    rw [List.find?_eq_none]
    intro e he
    simpa using h e he
  rw [this]

theorem lookupVal_some {beam : List (Entry H R)} (hnd : (beam.map (·.pre)).Nodup)
    {q : Entry H R} (hq : q ∈ beam) (F : Entry H R → R) : lookupVal beam q.pre F = F q := by
  unfold lookupVal
  cases hf : beam.find? (fun e => e.pre == q.pre) with
  | none =>
    rw [List.find?_eq_none] at hf
    exact absurd (hf q hq) (by simp)
  | some e =>
    have h1 : e ∈ beam := List.mem_of_find?_eq_some hf
    have h2 : e.pre = q.pre := by simpa using List.find?_some hf
    rw [List.inj_on_of_nodup_map hnd h1 hq h2]

end Ordered

section Ordered
variable [IsStrictOrderedRing R]

/-- the pnb part of grouping, in `lookupVal` normal form -/
theorem join_pnb (S : List ℕ) (hS : S.Nodup) {beam : List (Entry H R)} (hb : OK beam)
    (row : List R) (ℓ : List ℕ) :
    grp S beam ℓ (fun e c => extJ (Ops.of R) S beam row e c)
        (fun e => stayPnb (Ops.of R) S beam row e) =
      grp S beam ℓ (fun e c => ext (Ops.of R) row e c)
        (fun e => e.pnb * (if S.contains e.last then rowAt (Ops.of R) row e.last else 0)) := by
  rcases List.eq_nil_or_concat ℓ with rfl | ⟨ℓ', c0, rfl⟩
  · rw [grp_nil hb.1, grp_nil hb.1]
    apply lookupVal_congr
    intro e _ hp
    rw [stayPnb_form]
    by_cases hl : e.last ∈ S <;> simp [hl, hp]
  · rw [List.concat_eq_append, grp_snoc hS hb.1, grp_snoc hS hb.1]
    by_cases hq : ∃ q ∈ beam, q.pre = ℓ' ++ [c0]
    · obtain ⟨q, hq, hqp⟩ := hq
      have hql : q.last = c0 := by
        have := hb.2 q hq (by rw [hqp]; simp)
        rw [hqp] at this
        simpa using this.symm
      rw [← hqp, lookupVal_some hb.1 hq, lookupVal_some hb.1 hq, stayPnb_form, hql]
      have hne : q.pre ≠ [] := by rw [hqp]; simp
      have hdl : q.pre.dropLast = ℓ' := by rw [hqp]; simp
      by_cases hc : c0 ∈ S
      · simp only [hc, if_true, if_neg hne, hdl, List.contains_eq_mem, decide_true]
        have h1 : lookupVal beam ℓ' (fun e => extJ (Ops.of R) S beam row e c0) = 0 := by
          unfold lookupVal
          cases hf : beam.find? (fun e => e.pre == ℓ') with
          | none => rfl
          | some e =>
            have h2 : e.pre = ℓ' := by simpa using List.find?_some hf
            exact extJ_absorbed hq (by rw [hqp, h2]) hql hc
        rw [h1, zero_add]
        unfold lookupVal
        cases hf : beam.find? (fun e => e.pre == ℓ') with
        | none => simp
        | some e => simp [add_comm]
      · simp [hc]
    · have hq' : ∀ q ∈ beam, q.pre ≠ ℓ' ++ [c0] := fun q h1 h2 => hq ⟨q, h1, h2⟩
      rw [lookupVal_none _ hq', lookupVal_none _ hq']
      congr 1
      by_cases hc : c0 ∈ S
      · simp only [hc, if_true]
        apply lookupVal_congr
        intro e _ hp
        exact extJ_not_absorbed hb (by rw [hp]; exact hq')
      · simp [hc]

theorem joining_sums (lm : LM H R) (S : List ℕ) (hS : S.Nodup) {beam : List (Entry H R)}
    (hb : OK beam) (row : List R) (ℓ : List ℕ) :
    (((candidates (Ops.of R) lm S beam row).filter fun c => c.pre = ℓ).map (·.pb)).sum =
        (((rawC S beam row).filter fun x => x.1 = ℓ).map (·.2.1)).sum ∧
    (((candidates (Ops.of R) lm S beam row).filter fun c => c.pre = ℓ).map (·.pnb)).sum =
        (((rawC S beam row).filter fun x => x.1 = ℓ).map (·.2.2)).sum := by
  rw [cands_sum, cands_sum, raw_sum, raw_sum]
  exact ⟨rfl, join_pnb S hS hb row ℓ⟩

/-! ### the beam stays alive -/

theorem stayPnb_form' (S : List ℕ) (beam : List (Entry H R)) (row : List R) (q : Entry H R) :
    stayPnb (Ops.of R) S beam row q =
      if q.last ∈ S then
        q.pnb * rowAt (Ops.of R) row q.last +
          (if q.pre = [] then 0 else
            lookupVal beam q.pre.dropLast (fun e => ext (Ops.of R) row e q.last))
      else 0 := stayPnb_form S beam row q

theorem lookupVal_nonneg {beam : List (Entry H R)} {ℓ : List ℕ} {F : Entry H R → R}
    (h : ∀ e ∈ beam, 0 ≤ F e) : 0 ≤ lookupVal beam ℓ F := by
  unfold lookupVal
  cases hf : beam.find? (fun e => e.pre == ℓ) with
  | none => exact le_refl _
  | some e => exact h e (List.mem_of_find?_eq_some hf)

theorem stayPnb_nonneg {beam : List (Entry H R)} (hnn : ∀ e ∈ beam, 0 ≤ e.pb ∧ 0 ≤ e.pnb)
    {row : List R} (hrow : ∀ x ∈ row, 0 ≤ x) (S : List ℕ) {q : Entry H R} (hq : q ∈ beam) :
    0 ≤ stayPnb (Ops.of R) S beam row q := by
  rw [stayPnb_form']
  split
  · apply add_nonneg (mul_nonneg (hnn q hq).2 (rowAt_nonneg hrow _))
    split
    · exact le_refl _
    · exact lookupVal_nonneg fun e he => ext_nonneg (hnn e he).1 (hnn e he).2 hrow _
  · exact le_refl _

theorem stayPb_nonneg {e : Entry H R} (h1 : 0 ≤ e.pb) (h2 : 0 ≤ e.pnb) {row : List R}
    (hrow : ∀ x ∈ row, 0 ≤ x) : 0 ≤ stayPb (Ops.of R) row e :=
  mul_nonneg (add_nonneg h1 h2) (blankP_nonneg hrow)

/-- a positive extension survives, either as itself or joined into its absorbing entry -/
theorem pos_of_ext_pos (lm : LM H R) {S : List ℕ} {beam : List (Entry H R)} (hb : OK beam)
    (hnn : ∀ e ∈ beam, 0 ≤ e.pb ∧ 0 ≤ e.pnb) {row : List R} (hrow : ∀ x ∈ row, 0 ≤ x)
    {e : Entry H R} (he : e ∈ beam) {c : ℕ} (hc : c ∈ S) (hpos : 0 < ext (Ops.of R) row e c) :
    ∃ x ∈ candidates (Ops.of R) lm S beam row, 0 < score (Ops.of R) x := by
  by_cases hq : ∃ q ∈ beam, q.pre = e.pre ++ [c]
  · obtain ⟨q, hq, hqp⟩ := hq
    have hql : q.last = c := by
      have := hb.2 q hq (by rw [hqp]; simp)
      rw [hqp] at this
      simpa using this.symm
    refine ⟨stayC (Ops.of R) S beam row q, mem_candidates.mpr ⟨q, hq, Or.inr rfl⟩, ?_⟩
    have hne : q.pre ≠ [] := by rw [hqp]; simp
    have hdl : q.pre.dropLast = e.pre := by rw [hqp]; simp
    have h1 : stayPnb (Ops.of R) S beam row q =
        q.pnb * rowAt (Ops.of R) row c + ext (Ops.of R) row e c := by
      rw [stayPnb_form', hql, if_pos hc, if_neg hne, hdl, lookupVal_some hb.1 he]
    show 0 < stayPb (Ops.of R) row q + stayPnb (Ops.of R) S beam row q
    rw [h1]
    have h2 := stayPb_nonneg (hnn q hq).1 (hnn q hq).2 hrow
    have h3 := mul_nonneg (hnn q hq).2 (rowAt_nonneg hrow c)
    exact add_pos_of_nonneg_of_pos h2 (add_pos_of_nonneg_of_pos h3 hpos)
  · refine ⟨extC (Ops.of R) lm S beam row e c, mem_candidates.mpr ⟨e, he, Or.inl ⟨c, hc, rfl⟩⟩, ?_⟩
    have h1 : extJ (Ops.of R) S beam row e c = ext (Ops.of R) row e c :=
      extJ_not_absorbed hb fun q h1 h2 => hq ⟨q, h1, h2⟩
    show 0 < (0 : R) + extJ (Ops.of R) S beam row e c
    rw [h1, zero_add]
    exact hpos

theorem exists_pos_cand (lm : LM H R) {S : List ℕ} {beam : List (Entry H R)} (hb : OK beam)
    (hnn : ∀ e ∈ beam, 0 ≤ e.pb ∧ 0 ≤ e.pnb) (hnil : ∀ e ∈ beam, e.pre = [] → e.pnb = 0)
    {row : List R} (hrow : ∀ x ∈ row, 0 ≤ x)
    (ha : 0 < blankP (Ops.of R) row ∨ ∃ c ∈ S, 0 < rowAt (Ops.of R) row c)
    {e : Entry H R} (he : e ∈ beam) (hpos : 0 < score (Ops.of R) e) :
    ∃ x ∈ candidates (Ops.of R) lm S beam row, 0 < score (Ops.of R) x := by
  rcases ha with hbl | ⟨c, hc, hr⟩
  · refine ⟨stayC (Ops.of R) S beam row e, mem_candidates.mpr ⟨e, he, Or.inr rfl⟩, ?_⟩
    show 0 < stayPb (Ops.of R) row e + stayPnb (Ops.of R) S beam row e
    have h1 : 0 < stayPb (Ops.of R) row e := mul_pos hpos hbl
    exact add_pos_of_pos_of_nonneg h1 (stayPnb_nonneg hnn hrow S he)
  · have hext := ext_form hb he (hnil e he) row c
    by_cases hl : e.pre.getLast? = some c
    · -- the extension by `c` repeats the last symbol
      by_cases hpb : 0 < e.pb
      · apply pos_of_ext_pos lm hb hnn hrow he hc
        rw [hext, if_pos hl, add_zero]
        exact mul_pos hpb hr
      · have hpb0 : e.pb = 0 := le_antisymm (not_lt.mp hpb) (hnn e he).1
        have hpnb : 0 < e.pnb := by
          have : score (Ops.of R) e = e.pb + e.pnb := rfl
          rw [this, hpb0, zero_add] at hpos
          exact hpos
        have hne : e.pre ≠ [] := by
          intro h; rw [h] at hl; simp at hl
        have hlast : e.last = c := by
          have := hb.2 e he hne
          rw [hl] at this
          exact (Option.some.inj this).symm
        refine ⟨stayC (Ops.of R) S beam row e, mem_candidates.mpr ⟨e, he, Or.inr rfl⟩, ?_⟩
        show 0 < stayPb (Ops.of R) row e + stayPnb (Ops.of R) S beam row e
        apply add_pos_of_nonneg_of_pos (stayPb_nonneg (hnn e he).1 (hnn e he).2 hrow)
        rw [stayPnb_form', hlast, if_pos hc, if_neg hne]
        apply add_pos_of_pos_of_nonneg (mul_pos hpnb hr)
        exact lookupVal_nonneg fun e' he' => ext_nonneg (hnn e' he').1 (hnn e' he').2 hrow _
    · apply pos_of_ext_pos lm hb hnn hrow he hc
      rw [hext, if_neg hl]
      exact mul_pos hpos hr

theorem step_alive (lm : LM H R) (sel : R → Bool) (k : ℕ) (hk : 1 ≤ k) (key : Entry H R → R)
    (choose : ℕ → List (Entry H R) → List (Entry H R)) (hc : IsCut key choose)
    {beam : List (Entry H R)} (hb : OK beam)
    (hnn : ∀ e ∈ beam, 0 ≤ e.pb ∧ 0 ≤ e.pnb) (hnil : ∀ e ∈ beam, e.pre = [] → e.pnb = 0)
    {row : List R} (hrow : ∀ x ∈ row, 0 ≤ x)
    (ha : 0 < blankP (Ops.of R) row ∨
      ∃ c ∈ selected (Ops.of R) sel row, 0 < rowAt (Ops.of R) row c)
    (hne : beam ≠ []) (hpos : ∀ e ∈ beam, 0 < score (Ops.of R) e) :
    step (Ops.of R) lm sel k choose beam row ≠ [] ∧
      ∀ e ∈ step (Ops.of R) lm sel k choose beam row, 0 < score (Ops.of R) e := by
  unfold step
  simp only
  split
  · rename_i hS
    have hS' : selected (Ops.of R) sel row = [] := List.isEmpty_iff.mp hS
    have hbl : 0 < blankP (Ops.of R) row := by
      rcases ha with h | ⟨c, hc, _⟩
      · exact h
      · rw [hS'] at hc; simp at hc
    constructor
    · simpa using hne
    · intro x hx
      simp only [List.mem_map] at hx
      obtain ⟨e, he, rfl⟩ := hx
      show 0 < stayPb (Ops.of R) row e + 0
      rw [add_zero]
      exact mul_pos (hpos e he) hbl
  · generalize hpos' : ((candidates (Ops.of R) lm (selected (Ops.of R) sel row) beam row).filter
      fun c => (Ops.of R).lt (Ops.of R).zero (score (Ops.of R) c)) = pos
    obtain ⟨h1, h2, _⟩ := hc (min k pos.length) pos
    constructor
    · obtain ⟨e, he⟩ := List.exists_mem_of_ne_nil beam hne
      obtain ⟨x, hx, hxp⟩ := exists_pos_cand lm hb hnn hnil hrow ha he (hpos e he)
      have hxpos : x ∈ pos := by
        rw [← hpos', List.mem_filter]
        exact ⟨hx, by simpa using hxp⟩
      have hlen : 0 < pos.length := List.length_pos_of_mem hxpos
      intro h
      rw [h] at h2
      simp only [List.length_nil] at h2
      omega
    · intro x hx
      have := h1.subset hx
      rw [← hpos', List.mem_filter] at this
      simpa using this.2

/-! ### abstract one-frame recursion of the masses, and the upper-bound invariant -/

/-- The blank / non-blank masses before (`B`, `NB`) and after (`B'`, `NB'`) the frame `row`. -/
structure Rec (row : List R) (B NB B' NB' : List ℕ → R) : Prop where
  nnB : ∀ ℓ, 0 ≤ B ℓ
  nnNB : ∀ ℓ, 0 ≤ NB ℓ
  nnB' : ∀ ℓ, 0 ≤ B' ℓ
  nnNB' : ∀ ℓ, 0 ≤ NB' ℓ
  nil : NB [] = 0
  nil' : NB' [] = 0
  recB : ∀ ℓ, B' ℓ = (B ℓ + NB ℓ) * blankP (Ops.of R) row
  recNB : ∀ ℓ' c, c < row.length - 1 →
    NB' (ℓ' ++ [c]) = NB (ℓ' ++ [c]) * rowAt (Ops.of R) row c +
      (B ℓ' + if ℓ'.getLast? = some c then 0 else NB ℓ') * rowAt (Ops.of R) row c
  recNB0 : ∀ ℓ' c, ¬ c < row.length - 1 → NB' (ℓ' ++ [c]) = 0

/-- the upper-bound invariant for one entry -/
def Bd (B NB : List ℕ → R) (e : Entry H R) : Prop :=
  0 ≤ e.pb ∧ 0 ≤ e.pnb ∧ e.pb ≤ B e.pre ∧ e.pnb ≤ NB e.pre

variable {row : List R} {B NB B' NB' : List ℕ → R}

theorem Bd.pnb_nil (hrec : Rec row B NB B' NB') {e : Entry H R} (h : Bd B NB e)
    (hp : e.pre = []) : e.pnb = 0 := by
  have := h.2.2.2
  rw [hp, hrec.nil] at this
  exact le_antisymm this h.2.1

theorem Rec.aux_nonneg (hrec : Rec row B NB B' NB') (ℓ : List ℕ) (c : ℕ) :
    0 ≤ B ℓ + (if ℓ.getLast? = some c then 0 else NB ℓ) := by
  split
  · simpa using hrec.nnB ℓ
  · exact add_nonneg (hrec.nnB ℓ) (hrec.nnNB ℓ)

theorem ext_le (hrec : Rec row B NB B' NB') (hrow : ∀ x ∈ row, 0 ≤ x)
    {beam : List (Entry H R)} (hb : OK beam) {e : Entry H R} (he : e ∈ beam)
    (hbd : Bd B NB e) (c : ℕ) :
    ext (Ops.of R) row e c ≤
      (B e.pre + if e.pre.getLast? = some c then 0 else NB e.pre) * rowAt (Ops.of R) row c := by
  rw [ext_form hb he (hbd.pnb_nil hrec)]
  apply mul_le_mul_of_nonneg_right _ (rowAt_nonneg hrow c)
  split
  · simpa using hbd.2.2.1
  · exact add_le_add hbd.2.2.1 hbd.2.2.2

theorem stayPb_bd (hrec : Rec row B NB B' NB') (hrow : ∀ x ∈ row, 0 ≤ x) {e : Entry H R}
    (hbd : Bd B NB e) :
    0 ≤ stayPb (Ops.of R) row e ∧ stayPb (Ops.of R) row e ≤ B' e.pre := by
  unfold stayPb
  simp only [of_add, of_mul]
  constructor
  · exact mul_nonneg (add_nonneg hbd.1 hbd.2.1) (blankP_nonneg hrow)
  · rw [hrec.recB]
    exact mul_le_mul_of_nonneg_right (add_le_add hbd.2.2.1 hbd.2.2.2) (blankP_nonneg hrow)

theorem extJ_bd (hrec : Rec row B NB B' NB') (hrow : ∀ x ∈ row, 0 ≤ x)
    {beam : List (Entry H R)} (hb : OK beam) {e : Entry H R} (he : e ∈ beam)
    (hbd : Bd B NB e) (S : List ℕ) (c : ℕ) (hc : c < row.length - 1) :
    0 ≤ extJ (Ops.of R) S beam row e c ∧
      extJ (Ops.of R) S beam row e c ≤ NB' (e.pre ++ [c]) := by
  have h0 := ext_nonneg hbd.1 hbd.2.1 hrow c
  have h1 := ext_le hrec hrow hb he hbd c
  have h2 : ext (Ops.of R) row e c ≤ NB' (e.pre ++ [c]) := by
    rw [hrec.recNB _ _ hc]
    exact le_trans h1 (le_add_of_nonneg_left
      (mul_nonneg (hrec.nnNB _) (rowAt_nonneg hrow c)))
  rcases extJ_cases (Ops.of R) S beam row e c with h | h
  · rw [h]
    exact ⟨le_refl _, hrec.nnNB' _⟩
  · rw [h]
    exact ⟨h0, h2⟩

theorem stayPnb_bd (hrec : Rec row B NB B' NB') (hrow : ∀ x ∈ row, 0 ≤ x)
    {beam : List (Entry H R)} (hb : OK beam) (hbd : ∀ e ∈ beam, Bd B NB e)
    {q : Entry H R} (hq : q ∈ beam) (S : List ℕ) (hS : ∀ c ∈ S, c < row.length - 1) :
    0 ≤ stayPnb (Ops.of R) S beam row q ∧ stayPnb (Ops.of R) S beam row q ≤ NB' q.pre := by
  rw [stayPnb_form]
  by_cases hl : q.last ∈ S
  · rw [if_pos hl]
    have hr := rowAt_nonneg hrow q.last
    by_cases hp : q.pre = []
    · rw [if_pos hp, (hbd q hq).pnb_nil hrec hp, hp, hrec.nil']
      simp
    · rw [if_neg hp]
      have hpre := hb.pre_eq hq hp
      have hNB' := hrec.recNB q.pre.dropLast q.last (hS _ hl)
      rw [hpre] at hNB'
      rw [hNB']
      have h1 : 0 ≤ q.pnb * rowAt (Ops.of R) row q.last := mul_nonneg (hbd q hq).2.1 hr
      have h2 : q.pnb * rowAt (Ops.of R) row q.last ≤ NB q.pre * rowAt (Ops.of R) row q.last :=
        mul_le_mul_of_nonneg_right (hbd q hq).2.2.2 hr
      cases hf : beam.find? (fun e => e.pre == q.pre.dropLast) with
      | none =>
        simp only [add_zero]
        exact ⟨h1, le_trans h2 (le_add_of_nonneg_right
          (mul_nonneg (hrec.aux_nonneg _ _) hr))⟩
      | some e =>
        simp only
        have he : e ∈ beam := List.mem_of_find?_eq_some hf
        have hpe : e.pre = q.pre.dropLast := by
          have := List.find?_some hf
          simpa using this
        have h3 := ext_le hrec hrow hb he (hbd e he) q.last
        rw [hpe] at h3
        exact ⟨add_nonneg h1 (ext_nonneg (hbd e he).1 (hbd e he).2.1 hrow _),
          add_le_add h2 h3⟩
  · rw [if_neg hl]
    exact ⟨le_refl _, hrec.nnNB' _⟩

theorem candidates_bd (hrec : Rec row B NB B' NB') (hrow : ∀ x ∈ row, 0 ≤ x)
    {beam : List (Entry H R)} (hb : OK beam) (hbd : ∀ e ∈ beam, Bd B NB e)
    (lm : LM H R) (S : List ℕ) (hS : ∀ c ∈ S, c < row.length - 1) :
    ∀ x ∈ candidates (Ops.of R) lm S beam row, Bd B' NB' x := by
  intro x hx
  rw [mem_candidates] at hx
  obtain ⟨e, he, ⟨c, hc, rfl⟩ | rfl⟩ := hx
  · have := extJ_bd hrec hrow hb he (hbd e he) S c (hS c hc)
    exact ⟨le_refl _, this.1, hrec.nnB' _, this.2⟩
  · have h1 := stayPb_bd hrec hrow (hbd e he)
    have h2 := stayPnb_bd hrec hrow hb hbd he S hS
    exact ⟨h1.1, h2.1, h1.2, h2.2⟩

theorem step_bd (hrec : Rec row B NB B' NB') (hrow : ∀ x ∈ row, 0 ≤ x)
    (lm : LM H R) (sel : R → Bool) (k : ℕ) (key : Entry H R → R)
    (choose : ℕ → List (Entry H R) → List (Entry H R)) (hc : IsCut key choose)
    {beam : List (Entry H R)} (hb : OK beam) (hbd : ∀ e ∈ beam, Bd B NB e) :
    ∀ x ∈ step (Ops.of R) lm sel k choose beam row, Bd B' NB' x := by
  unfold step
  simp only
  split
  · intro x hx
    simp only [List.mem_map] at hx
    obtain ⟨e, he, rfl⟩ := hx
    have h1 := stayPb_bd hrec hrow (hbd e he)
    exact ⟨h1.1, le_refl _, h1.2, hrec.nnNB' _⟩
  · intro x hx
    have h1 := (hc _ _).1.subset hx
    exact candidates_bd hrec hrow hb hbd lm _ (fun c hc => (mem_selected.mp hc).1) x
      (List.mem_filter.mp h1).1

/-! ### the CTC masses satisfy the recursion; `beam_le_mass` -/

open Ctc in
theorem rec_mass (C : ℕ) (hC : 0 < C) (M : List (List R)) (hM : ∀ row ∈ M, ∀ x ∈ row, 0 ≤ x)
    (r : List R) (hr : r.length = C) (hrn : ∀ x ∈ r, 0 ≤ x) :
    Rec r (massB C (C - 1) M) (massNB C (C - 1) M) (massB C (C - 1) (M ++ [r]))
      (massNB C (C - 1) (M ++ [r])) := by
  have hM' : ∀ row ∈ M ++ [r], ∀ x ∈ row, 0 ≤ x := by
    intro row hrow
    rw [List.mem_append, List.mem_singleton] at hrow
    rcases hrow with h | rfl
    · exact hM row h
    · exact hrn
  refine ⟨massB_nonneg hM, massNB_nonneg hM, massB_nonneg hM', massNB_nonneg hM',
    massNB_nil _ _ _, massNB_nil _ _ _, ?_, ?_, ?_⟩
  · intro ℓ
    rw [massB_snoc C hC]
    unfold blankP
    rw [hr]
    rfl
  · intro ℓ' c hc
    rw [hr] at hc
    exact massNB_snoc C M r ℓ' c hc
  · intro ℓ' c hc
    rw [hr] at hc
    exact massNB_eq_zero_of_mem C _ _ ⟨c, by simp, hc⟩

/-- copy of `C02.WFM` -/
def WFM (C : ℕ) (M : List (List R)) : Prop :=
  0 < C ∧ ∀ row ∈ M, row.length = C ∧ ∀ x ∈ row, 0 ≤ x

theorem WFM.init {C : ℕ} {M : List (List R)} {r : List R} (h : WFM C (M ++ [r])) : WFM C M :=
  ⟨h.1, fun row hrow => h.2 row (List.mem_append_left _ hrow)⟩

theorem WFM.last {C : ℕ} {M : List (List R)} {r : List R} (h : WFM C (M ++ [r])) :
    r.length = C ∧ ∀ x ∈ r, 0 ≤ x := h.2 r (by simp)

theorem WFM.nonneg {C : ℕ} {M : List (List R)} (h : WFM C M) : ∀ row ∈ M, ∀ x ∈ row, 0 ≤ x :=
  fun row hrow => (h.2 row hrow).2

theorem WFM.rec {C : ℕ} {M : List (List R)} {r : List R} (h : WFM C (M ++ [r])) :
    Rec r (Ctc.massB C (C - 1) M) (Ctc.massNB C (C - 1) M) (Ctc.massB C (C - 1) (M ++ [r]))
      (Ctc.massNB C (C - 1) (M ++ [r])) :=
  rec_mass C h.1 M h.init.nonneg r h.last.1 h.last.2

theorem foldl_snoc_step (lm : LM H R) (sel : R → Bool) (k : ℕ)
    (choose : ℕ → List (Entry H R) → List (Entry H R)) (M : List (List R)) (r : List R)
    (b : List (Entry H R)) :
    (M ++ [r]).foldl (step (Ops.of R) lm sel k choose) b =
      step (Ops.of R) lm sel k choose (M.foldl (step (Ops.of R) lm sel k choose) b) r := by
  rw [List.foldl_append]
  rfl

theorem foldl_bd (C : ℕ) (lm : LM H R) (sel : R → Bool) (k : ℕ) (key : Entry H R → R)
    (choose : ℕ → List (Entry H R) → List (Entry H R)) (hc : IsCut key choose) (h0 : H)
    (M : List (List R)) (hM : WFM C M) :
    ∀ e ∈ M.foldl (step (Ops.of R) lm sel k choose) (init (Ops.of R) h0),
      Bd (Ctc.massB C (C - 1) M) (Ctc.massNB C (C - 1) M) e := by
  induction M using List.reverseRecOn with
  | nil =>
    intro e he
    simp only [List.foldl_nil, init, List.mem_singleton] at he
    subst he
    refine ⟨?_, ?_, ?_, ?_⟩
    · exact zero_le_one
    · exact le_refl _
    · simp only [of_one]; rw [Ctc.massB_nil_nil]
    · simp only [of_zero]; rw [Ctc.massNB_nil_left]
  | append_singleton M r ih =>
    rw [foldl_snoc_step]
    exact step_bd hM.rec hM.last.2 lm sel k key choose hc
      (foldl_step_OK lm sel k key choose hc M _ (init_OK h0)) (ih hM.init)

theorem foldl_alive (C : ℕ) (lm : LM H R) (sel : R → Bool) (k : ℕ) (hk : 1 ≤ k)
    (key : Entry H R → R)
    (choose : ℕ → List (Entry H R) → List (Entry H R)) (hc : IsCut key choose) (h0 : H)
    (M : List (List R)) (hM : WFM C M)
    (ha : ∀ row ∈ M, 0 < blankP (Ops.of R) row ∨
      ∃ c ∈ selected (Ops.of R) sel row, 0 < rowAt (Ops.of R) row c) :
    M.foldl (step (Ops.of R) lm sel k choose) (init (Ops.of R) h0) ≠ [] ∧
    ∀ e ∈ M.foldl (step (Ops.of R) lm sel k choose) (init (Ops.of R) h0),
      0 < score (Ops.of R) e := by
  induction M using List.reverseRecOn with
  | nil =>
    constructor
    · simp [init]
    · intro e he
      simp only [List.foldl_nil, init, List.mem_singleton] at he
      subst he
      show (0 : R) < 1 + 0
      rw [add_zero]
      exact zero_lt_one
  | append_singleton M r ih =>
    rw [foldl_snoc_step]
    have ih' := ih hM.init (fun row hrow => ha row (List.mem_append_left _ hrow))
    have hbd := foldl_bd C lm sel k key choose hc h0 M hM.init
    apply step_alive lm sel k hk key choose hc
      (foldl_step_OK lm sel k key choose hc M _ (init_OK h0))
      (fun e he => ⟨(hbd e he).1, (hbd e he).2.1⟩)
      (fun e he hp => (hbd e he).pnb_nil hM.rec hp)
      hM.last.2 (ha r (by simp)) ih'.1 ih'.2

/-! ### exactness and completeness without pruning -/

section Exact
variable {sel : R → Bool} {beam : List (Entry H R)}

theorem zero_of_not_mem (hrec : Rec row B NB B' NB')
    (hcomp : ∀ ℓ, 0 < B ℓ + NB ℓ → ∃ e ∈ beam, e.pre = ℓ) {ℓ : List ℕ}
    (h : ∀ q ∈ beam, q.pre ≠ ℓ) : B ℓ = 0 ∧ NB ℓ = 0 := by
  have h1 : ¬ 0 < B ℓ + NB ℓ := fun hp => by
    obtain ⟨e, he, hp'⟩ := hcomp ℓ hp
    exact h e he hp'
  have h2 := not_lt.mp h1
  have hB := hrec.nnB ℓ
  have hNB := hrec.nnNB ℓ
  constructor
  · exact le_antisymm (le_trans (le_add_of_nonneg_right hNB) h2) hB
  · exact le_antisymm (le_trans (le_add_of_nonneg_left hB) h2) hNB

theorem rowAt_zero_of_not_sel (hsel : ∀ p : R, 0 < p → sel p = true) (hrow : ∀ x ∈ row, 0 ≤ x)
    {c : ℕ} (hc : c < row.length - 1) (hns : c ∉ selected (Ops.of R) sel row) :
    rowAt (Ops.of R) row c = 0 := by
  have h1 : ¬ 0 < rowAt (Ops.of R) row c := fun hp =>
    hns (mem_selected.mpr ⟨hc, hsel _ hp⟩)
  exact le_antisymm (not_lt.mp h1) (rowAt_nonneg hrow c)

theorem NB'_zero_of_not_sel (hrec : Rec row B NB B' NB') (hsel : ∀ p : R, 0 < p → sel p = true)
    (hrow : ∀ x ∈ row, 0 ≤ x) (ℓ' : List ℕ) {c : ℕ}
    (hns : c ∉ selected (Ops.of R) sel row) : NB' (ℓ' ++ [c]) = 0 := by
  by_cases hc : c < row.length - 1
  · rw [hrec.recNB _ _ hc, rowAt_zero_of_not_sel hsel hrow hc hns]
    simp
  · exact hrec.recNB0 _ _ hc

theorem ext_exact (hrec : Rec row B NB B' NB') (hb : OK beam)
    (hex : ∀ e ∈ beam, e.pb = B e.pre ∧ e.pnb = NB e.pre) {e : Entry H R} (he : e ∈ beam)
    (c : ℕ) :
    ext (Ops.of R) row e c =
      (B e.pre + if e.pre.getLast? = some c then 0 else NB e.pre) * rowAt (Ops.of R) row c := by
  rw [ext_form hb he (fun hp => by rw [(hex e he).2, hp, hrec.nil]), (hex e he).1, (hex e he).2]

theorem lookup_ext_exact (hrec : Rec row B NB B' NB') (hb : OK beam)
    (hex : ∀ e ∈ beam, e.pb = B e.pre ∧ e.pnb = NB e.pre)
    (hcomp : ∀ ℓ, 0 < B ℓ + NB ℓ → ∃ e ∈ beam, e.pre = ℓ) (ℓ' : List ℕ) (c : ℕ) :
    lookupVal beam ℓ' (fun e => ext (Ops.of R) row e c) =
      (B ℓ' + if ℓ'.getLast? = some c then 0 else NB ℓ') * rowAt (Ops.of R) row c := by
  by_cases h : ∃ e ∈ beam, e.pre = ℓ'
  · obtain ⟨e, he, rfl⟩ := h
    rw [lookupVal_some hb.1 he, ext_exact hrec hb hex he]
  · have h' : ∀ q ∈ beam, q.pre ≠ ℓ' := fun q h1 h2 => h ⟨q, h1, h2⟩
    rw [lookupVal_none _ h']
    obtain ⟨h1, h2⟩ := zero_of_not_mem hrec hcomp h'
    rw [h1, h2]
    simp

theorem stayPb_exact (hrec : Rec row B NB B' NB')
    (hex : ∀ e ∈ beam, e.pb = B e.pre ∧ e.pnb = NB e.pre) {q : Entry H R} (hq : q ∈ beam) :
    stayPb (Ops.of R) row q = B' q.pre := by
  rw [hrec.recB, ← (hex q hq).1, ← (hex q hq).2]
  rfl

theorem stayPnb_exact (hrec : Rec row B NB B' NB') (hsel : ∀ p : R, 0 < p → sel p = true)
    (hrow : ∀ x ∈ row, 0 ≤ x) (hb : OK beam)
    (hex : ∀ e ∈ beam, e.pb = B e.pre ∧ e.pnb = NB e.pre)
    (hcomp : ∀ ℓ, 0 < B ℓ + NB ℓ → ∃ e ∈ beam, e.pre = ℓ) {q : Entry H R} (hq : q ∈ beam) :
    stayPnb (Ops.of R) (selected (Ops.of R) sel row) beam row q = NB' q.pre := by
  rw [stayPnb_form']
  by_cases hp : q.pre = []
  · rw [hp, hrec.nil', (hex q hq).2, hp, hrec.nil]
    simp
  · have hpre := hb.pre_eq hq hp
    by_cases hl : q.last ∈ selected (Ops.of R) sel row
    · rw [if_pos hl, if_neg hp, lookup_ext_exact hrec hb hex hcomp, (hex q hq).2]
      have := hrec.recNB q.pre.dropLast q.last (mem_selected.mp hl).1
      rw [hpre] at this
      rw [this]
    · rw [if_neg hl]
      have := NB'_zero_of_not_sel hrec hsel hrow q.pre.dropLast hl
      rw [hpre] at this
      exact this.symm

theorem extC_exact (hrec : Rec row B NB B' NB') (hb : OK beam)
    (hex : ∀ e ∈ beam, e.pb = B e.pre ∧ e.pnb = NB e.pre)
    (hcomp : ∀ ℓ, 0 < B ℓ + NB ℓ → ∃ e ∈ beam, e.pre = ℓ) (S : List ℕ) {e : Entry H R}
    (he : e ∈ beam) {c : ℕ} (hc : c < row.length - 1)
    (hna : ∀ q ∈ beam, q.pre ≠ e.pre ++ [c]) :
    (0 : R) = B' (e.pre ++ [c]) ∧ extJ (Ops.of R) S beam row e c = NB' (e.pre ++ [c]) := by
  obtain ⟨h1, h2⟩ := zero_of_not_mem hrec hcomp hna
  constructor
  · rw [hrec.recB, h1, h2]
    simp
  · rw [extJ_not_absorbed hb hna, hrec.recNB _ _ hc, h2, ext_exact hrec hb hex he]
    simp

theorem pos_cands_exact (hrec : Rec row B NB B' NB') (hsel : ∀ p : R, 0 < p → sel p = true)
    (hrow : ∀ x ∈ row, 0 ≤ x) (hb : OK beam)
    (hex : ∀ e ∈ beam, e.pb = B e.pre ∧ e.pnb = NB e.pre)
    (hcomp : ∀ ℓ, 0 < B ℓ + NB ℓ → ∃ e ∈ beam, e.pre = ℓ) (lm : LM H R) {x : Entry H R}
    (hx : x ∈ candidates (Ops.of R) lm (selected (Ops.of R) sel row) beam row)
    (hpos : 0 < score (Ops.of R) x) : x.pb = B' x.pre ∧ x.pnb = NB' x.pre := by
  rw [mem_candidates] at hx
  obtain ⟨e, he, ⟨c, hc, rfl⟩ | rfl⟩ := hx
  · have hna : ∀ q ∈ beam, q.pre ≠ e.pre ++ [c] := by
      intro q hq hqp
      have hql : q.last = c := by
        have := hb.2 q hq (by rw [hqp]; simp)
        rw [hqp] at this
        simpa using this.symm
      have h0 : extJ (Ops.of R) (selected (Ops.of R) sel row) beam row e c = 0 :=
        extJ_absorbed hq hqp hql hc
      have : score (Ops.of R) (extC (Ops.of R) lm (selected (Ops.of R) sel row) beam row e c) =
          0 + extJ (Ops.of R) (selected (Ops.of R) sel row) beam row e c := rfl
      rw [this, h0, add_zero] at hpos
      exact lt_irrefl _ hpos
    exact extC_exact hrec hb hex hcomp _ he (mem_selected.mp hc).1 hna
  · exact ⟨stayPb_exact hrec hex he, stayPnb_exact hrec hsel hrow hb hex hcomp he⟩

theorem cands_complete (hrec : Rec row B NB B' NB') (hsel : ∀ p : R, 0 < p → sel p = true)
    (hrow : ∀ x ∈ row, 0 ≤ x) (hb : OK beam)
    (hex : ∀ e ∈ beam, e.pb = B e.pre ∧ e.pnb = NB e.pre)
    (hcomp : ∀ ℓ, 0 < B ℓ + NB ℓ → ∃ e ∈ beam, e.pre = ℓ) (lm : LM H R) (ℓ : List ℕ)
    (hℓ : 0 < B' ℓ + NB' ℓ) :
    ∃ x ∈ candidates (Ops.of R) lm (selected (Ops.of R) sel row) beam row,
      x.pre = ℓ ∧ 0 < score (Ops.of R) x := by
  by_cases hq : ∃ q ∈ beam, q.pre = ℓ
  · obtain ⟨q, hq, rfl⟩ := hq
    refine ⟨stayC (Ops.of R) _ beam row q, mem_candidates.mpr ⟨q, hq, Or.inr rfl⟩, rfl, ?_⟩
    show 0 < stayPb (Ops.of R) row q + stayPnb (Ops.of R) _ beam row q
    rw [stayPb_exact hrec hex hq, stayPnb_exact hrec hsel hrow hb hex hcomp hq]
    exact hℓ
  · have hq' : ∀ q ∈ beam, q.pre ≠ ℓ := fun q h1 h2 => hq ⟨q, h1, h2⟩
    obtain ⟨h1, h2⟩ := zero_of_not_mem hrec hcomp hq'
    have hB' : B' ℓ = 0 := by rw [hrec.recB, h1, h2]; simp
    rw [hB', zero_add] at hℓ
    rcases List.eq_nil_or_concat ℓ with rfl | ⟨ℓ', c, rfl⟩
    · rw [hrec.nil'] at hℓ
      exact absurd hℓ (lt_irrefl _)
    · rw [List.concat_eq_append] at hℓ hq' h2
      have hcS : c ∈ selected (Ops.of R) sel row := by
        by_contra hns
        rw [NB'_zero_of_not_sel hrec hsel hrow ℓ' hns] at hℓ
        exact lt_irrefl _ hℓ
      have hc := (mem_selected.mp hcS).1
      rw [hrec.recNB _ _ hc, h2, zero_mul, zero_add] at hℓ
      have he : ∃ e ∈ beam, e.pre = ℓ' := by
        by_contra hne
        have hne' : ∀ q ∈ beam, q.pre ≠ ℓ' := fun q h1 h2 => hne ⟨q, h1, h2⟩
        obtain ⟨h3, h4⟩ := zero_of_not_mem hrec hcomp hne'
        rw [h3, h4] at hℓ
        simp at hℓ
      obtain ⟨e, he, rfl⟩ := he
      refine ⟨extC (Ops.of R) lm _ beam row e c,
        mem_candidates.mpr ⟨e, he, Or.inl ⟨c, hcS, rfl⟩⟩, by rw [List.concat_eq_append]; rfl, ?_⟩
      show 0 < (0 : R) + extJ (Ops.of R) _ beam row e c
      rw [zero_add, extJ_not_absorbed hb hq', ext_exact hrec hb hex he]
      exact hℓ

theorem step_exact (hrec : Rec row B NB B' NB') (hsel : ∀ p : R, 0 < p → sel p = true)
    (hrow : ∀ x ∈ row, 0 ≤ x) (lm : LM H R) (k : ℕ) (key : Entry H R → R)
    (choose : ℕ → List (Entry H R) → List (Entry H R)) (hc : IsCut key choose) (hb : OK beam)
    (hex : ∀ e ∈ beam, e.pb = B e.pre ∧ e.pnb = NB e.pre)
    (hcomp : ∀ ℓ, 0 < B ℓ + NB ℓ → ∃ e ∈ beam, e.pre = ℓ)
    (hnp : ((candidates (Ops.of R) lm (selected (Ops.of R) sel row) beam row).filter
      fun c => (Ops.of R).lt 0 (score (Ops.of R) c)).length ≤ k) :
    (∀ e ∈ step (Ops.of R) lm sel k choose beam row, e.pb = B' e.pre ∧ e.pnb = NB' e.pre) ∧
    (∀ ℓ, 0 < B' ℓ + NB' ℓ → ∃ e ∈ step (Ops.of R) lm sel k choose beam row, e.pre = ℓ) := by
  unfold step
  simp only
  split
  · rename_i hS
    have hS' : selected (Ops.of R) sel row = [] := List.isEmpty_iff.mp hS
    have hNB' : ∀ ℓ, NB' ℓ = 0 := by
      intro ℓ
      rcases List.eq_nil_or_concat ℓ with rfl | ⟨ℓ', c, rfl⟩
      · exact hrec.nil'
      · rw [List.concat_eq_append]
        exact NB'_zero_of_not_sel hrec hsel hrow ℓ' (by rw [hS']; simp)
    constructor
    · intro x hx
      simp only [List.mem_map] at hx
      obtain ⟨e, he, rfl⟩ := hx
      exact ⟨stayPb_exact hrec hex he, (hNB' _).symm⟩
    · intro ℓ hℓ
      rw [hNB', add_zero, hrec.recB] at hℓ
      have h1 : 0 < B ℓ + NB ℓ := by
        by_contra h
        have h2 : B ℓ + NB ℓ = 0 :=
          le_antisymm (not_lt.mp h) (add_nonneg (hrec.nnB ℓ) (hrec.nnNB ℓ))
        rw [h2, zero_mul] at hℓ
        exact lt_irrefl _ hℓ
      obtain ⟨e, he, hp⟩ := hcomp ℓ h1
      exact ⟨_, List.mem_map_of_mem he, hp⟩
  · generalize hpos' : ((candidates (Ops.of R) lm (selected (Ops.of R) sel row) beam row).filter
      fun c => (Ops.of R).lt (Ops.of R).zero (score (Ops.of R) c)) = pos
    have hnp' : pos.length ≤ k := by rw [← hpos']; exact hnp
    obtain ⟨h1, h2, _⟩ := hc (min k pos.length) pos
    have hperm : (choose (min k pos.length) pos).Perm pos :=
      h1.perm_of_length_le (by rw [h2]; omega)
    have hmem : ∀ x, x ∈ choose (min k pos.length) pos ↔
        (x ∈ candidates (Ops.of R) lm (selected (Ops.of R) sel row) beam row ∧
          0 < score (Ops.of R) x) := by
      intro x
      rw [hperm.mem_iff, ← hpos', List.mem_filter]
      simp
    constructor
    · intro x hx
      obtain ⟨hx1, hx2⟩ := (hmem x).mp hx
      exact pos_cands_exact hrec hsel hrow hb hex hcomp lm hx1 hx2
    · intro ℓ hℓ
      obtain ⟨x, hx1, hx2, hx3⟩ := cands_complete hrec hsel hrow hb hex hcomp lm ℓ hℓ
      exact ⟨x, (hmem x).mpr ⟨hx1, hx3⟩, hx2⟩

theorem foldl_exact (C : ℕ) (lm : LM H R) (k : ℕ) (key : Entry H R → R)
    (choose : ℕ → List (Entry H R) → List (Entry H R)) (hc : IsCut key choose) (h0 : H)
    (M : List (List R)) (hM : WFM C M) (hsel : ∀ p : R, 0 < p → sel p = true)
    (hnp : ∀ M' row rest, M = M' ++ row :: rest →
      ((candidates (Ops.of R) lm (selected (Ops.of R) sel row)
        (M'.foldl (step (Ops.of R) lm sel k choose) (init (Ops.of R) h0)) row).filter
          fun c => (Ops.of R).lt 0 (score (Ops.of R) c)).length ≤ k) :
    (∀ e ∈ M.foldl (step (Ops.of R) lm sel k choose) (init (Ops.of R) h0),
      e.pb = Ctc.massB C (C - 1) M e.pre ∧ e.pnb = Ctc.massNB C (C - 1) M e.pre) ∧
    (∀ ℓ, 0 < Ctc.massB C (C - 1) M ℓ + Ctc.massNB C (C - 1) M ℓ →
      ∃ e ∈ M.foldl (step (Ops.of R) lm sel k choose) (init (Ops.of R) h0), e.pre = ℓ) := by
  induction M using List.reverseRecOn with
  | nil =>
    constructor
    · intro e he
      simp only [List.foldl_nil, init, List.mem_singleton] at he
      subst he
      exact ⟨(Ctc.massB_nil_nil _ _).symm, (Ctc.massNB_nil_left _ _ _).symm⟩
    · intro ℓ hℓ
      cases ℓ with
      | nil => exact ⟨_, List.mem_singleton.mpr rfl, rfl⟩
      | cons a l =>
        rw [Ctc.massB_nil_cons, Ctc.massNB_nil_left, add_zero] at hℓ
        exact absurd hℓ (lt_irrefl _)
  | append_singleton M r ih =>
    rw [foldl_snoc_step]
    have ih' := ih hM.init (fun M' row rest h => hnp M' row (rest ++ [r]) (by rw [h]; simp))
    exact step_exact hM.rec hsel hM.last.2 lm k key choose hc
      (foldl_step_OK lm sel k key choose hc M _ (init_OK h0)) ih'.1 ih'.2
      (hnp M r [] rfl)

end Exact

end Ordered

end PB
