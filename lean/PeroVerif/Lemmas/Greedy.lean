-- helper lemmas for C04
import PeroVerif.Model.Greedy
import PeroVerif.Lemmas.Ctc

namespace Ctc

/-! ### `argmaxFirst` -/

/-- Invariant of the scanning loop of `argmaxFirst`: `best = l[bi]` is the first maximum of the
first `i` entries of `l`, and `ys` is what is left to scan. -/
theorem argmaxFirst_go_spec (l : List Int) (ys : List Int) (best : Int) (bi i : Nat)
    (hdrop : l.drop i = ys) (hbi : bi < i) (hi : i ≤ l.length)
    (hbest : l[bi]? = some best)
    (hle : ∀ j x, j < i → l[j]? = some x → x ≤ best)
    (hlt : ∀ j x, j < bi → l[j]? = some x → x < best) :
    ∃ r best', r = argmaxFirst.go best bi i ys ∧ r < l.length ∧ l[r]? = some best' ∧
      (∀ (j : Nat) x, l[j]? = some x → x ≤ best') ∧
      (∀ j x, j < r → l[j]? = some x → x < best') := by
  induction ys generalizing best bi i with
  | nil =>
    refine ⟨bi, best, ?_, by omega, hbest, ?_, hlt⟩
    · simp only [argmaxFirst.go]
    · intro j x hj
      have hlen : l.length ≤ i := by
        simpa using hdrop
      have : j < l.length := by
        rcases Nat.lt_or_ge j l.length with h | h
        · exact h
        · simp [List.getElem?_eq_none h] at hj
      exact hle j x (by omega) hj
  | cons y ys ih =>
    have hil : i < l.length := by
      rcases Nat.lt_or_ge i l.length with h | h
      · exact h
      · rw [List.drop_eq_nil_of_le h] at hdrop; cases hdrop
    have hd := List.drop_eq_getElem_cons hil
    rw [hd] at hdrop
    have hy : l[i] = y := (List.cons.inj hdrop).1
    have hys : l.drop (i + 1) = ys := (List.cons.inj hdrop).2
    have hiy : l[i]? = some y := by rw [List.getElem?_eq_getElem hil, hy]
    simp only [argmaxFirst.go]
    split
    · rename_i hby
      refine ih y i (i + 1) hys (by omega) (by omega) hiy ?_ ?_
      · intro j x hj hx
        rcases Nat.lt_or_ge j i with h | h
        · have := hle j x h hx; omega
        · have : j = i := by omega
          subst this
          rw [hiy] at hx; cases hx; omega
      · intro j x hj hx
        have := hle j x hj hx; omega
    · rename_i hby
      refine ih best bi (i + 1) hys (by omega) (by omega) hbest ?_ hlt
      intro j x hj hx
      rcases Nat.lt_or_ge j i with h | h
      · exact hle j x h hx
      · have : j = i := by omega
        subst this
        rw [hiy] at hx; cases hx; omega

theorem argmaxFirst_spec_opt (l : List Int) (h : l ≠ []) :
    ∃ best, argmaxFirst l < l.length ∧ l[argmaxFirst l]? = some best ∧
      (∀ (j : Nat) x, l[j]? = some x → x ≤ best) ∧
      (∀ j x, j < argmaxFirst l → l[j]? = some x → x < best) := by
  cases l with
  | nil => exact absurd rfl h
  | cons x xs =>
    obtain ⟨r, best', hr, h1, h2, h3, h4⟩ :=
      argmaxFirst_go_spec (x :: xs) xs x 0 1 (by simp) (by omega) (by simp) (by simp)
        (by
          intro j y hj hy
          have : j = 0 := by omega
          subst this
          simp at hy; omega)
        (by intro j y hj; omega)
    have : argmaxFirst (x :: xs) = r := by
      rw [hr]; simp only [argmaxFirst]
    rw [this]
    exact ⟨best', h1, h2, h3, h4⟩

end Ctc

namespace Greedy
open Ctc

/-! ### `engineLine` -/

/-- The engine pipeline with an arbitrary previous symbol `prev` in place of the prepended blank. -/
def engineAux (C : Nat) (prev : Nat) (am : List Nat) : List Nat :=
  let best : List Nat := (prev :: am).map (· + 1)
  let mask : List Bool := List.zipWith (fun a b => a == b) best best.tail
  let best1 : List Nat := best.tail
  let best2 : List Nat := List.zipWith (fun b m => if m then 0 else b) best1 mask
  let best3 : List Nat := best2.map fun b => if b = C then 0 else b
  let best4 : List Int := best3.map fun (b : Nat) => (Int.ofNat b) - 1
  (best4.filter (· ≥ 0)).map Int.toNat

theorem engineLine_eq_engineAux (C : Nat) (am : List Nat) :
    engineLine C am = engineAux C (C - 1) am := rfl

theorem engineAux_nil (C prev : Nat) : engineAux C prev [] = [] := by
  simp [engineAux]

theorem engineAux_cons (C prev a : Nat) (r : List Nat) :
    engineAux C prev (a :: r) =
      (if a + 1 = C ∨ prev = a then [] else [a]) ++ engineAux C a r := by
  simp only [engineAux, List.map_cons, List.tail_cons, List.zipWith_cons_cons, List.filter_cons]
  generalize List.filter _ (List.map _ (List.map _ (List.zipWith _ _ _))) = rest
  by_cases h1 : prev = a
  · simp [h1]
  · by_cases h2 : a + 1 = C
    · subst h2
      simp [h1]
    · simp [h1, h2]

theorem engineAux_eq_collapseAux (C : Nat) (hC : 0 < C) (prev : Nat) (am : List Nat) :
    engineAux C prev am = collapseAux (C - 1) (some prev) am := by
  induction am generalizing prev with
  | nil => simp only [engineAux_nil, collapseAux]
  | cons a r ih =>
    rw [engineAux_cons, collapseAux_cons, ih]
    congr 1
    have e1 : (a + 1 = C) = (a = C - 1) := by
      apply propext; constructor <;> intro h <;> omega
    have e2 : (some prev = some a) = (prev = a) := by
      apply propext; constructor
      · exact Option.some.inj
      · intro h; rw [h]
    simp only [e1, e2]

/-! ### `standalone` (groupby) -/

theorem groupHeads_filter_cons (blank x : Nat) (r : List Nat) :
    (groupHeads (x :: r)).filter (· ≠ blank) =
      (if x = blank then [] else [x]) ++ collapseAux blank (some x) r := by
  induction r generalizing x with
  | nil =>
    by_cases h : x = blank <;> simp [groupHeads, collapseAux, h]
  | cons y r' ih =>
    rw [collapseAux_cons, ← List.append_assoc]
    simp only [groupHeads]
    by_cases hxy : x = y
    · subst hxy
      rw [if_pos rfl, ih]
      by_cases hb : x = blank <;> simp [hb]
    · have hne : ¬ (some x = some y) := fun h => hxy (Option.some.inj h)
      rw [if_neg hxy, List.filter_cons, ih]
      by_cases hb : x = blank <;> by_cases hb' : y = blank <;> simp [hb, hb', hxy]
      · subst hb; simp [hxy]

theorem standalone_eq_collapse (blank : Nat) (am : List Nat) :
    standalone blank am = collapse blank am := by
  cases am with
  | nil => simp [standalone, groupHeads, collapse, collapseAux]
  | cons x r =>
    simp only [standalone, collapse]
    rw [groupHeads_filter_cons, collapseAux_cons]
    simp

/-! ### `filtration` -/

theorem filtration_eq_collapseAux (blank : Nat) (last : Option Nat) (hl : last ≠ some blank)
    (am : List Nat) : filtration blank last am = collapseAux blank last am := by
  induction am generalizing last with
  | nil => simp only [filtration, collapseAux]
  | cons c r ih =>
    rw [collapseAux_cons]
    simp only [filtration]
    by_cases hc : c = blank
    · subst hc
      simp only [ne_eq, not_true_eq_false, if_false, true_or, if_true, List.nil_append]
      rw [ih none (by simp), collapseAux_some_blank]
    · have hsc : (some c : Option Nat) ≠ some blank := fun h => hc (Option.some.inj h)
      by_cases hlc : last = some c
      · subst hlc
        simp only [ne_eq, hc, not_false_eq_true, if_true, not_true_eq_false, if_false,
          or_true, List.nil_append]
        exact ih (some c) hsc
      · simp only [ne_eq, hc, not_false_eq_true, if_true, hlc, false_or, if_false,
          List.singleton_append]
        rw [ih (some c) hsc]

theorem groupHeads_length_le (am : List Nat) : (groupHeads am).length ≤ am.length := by
  fun_induction groupHeads am <;> simp_all <;> omega

theorem groupHeads_mem (am : List Nat) : ∀ x ∈ groupHeads am, x ∈ am := by
  fun_induction groupHeads am <;> simp_all

end Greedy
