/- Helper lemmas for the `order_lines_vertical` model (C18). -/
import PeroVerif.Model.OrderLines

namespace OrdL

/-! ### generalised fold -/

/-- `sortByKey` with an arbitrary starting accumulator -/
def sortInto {α : Type} (acc l : List (Rat × α)) : List (Rat × α) := l.foldl (fun acc x => insertBy x acc) acc

theorem sortByKey_eq_sortInto {α : Type} (l : List (Rat × α)) : sortByKey l = sortInto [] l := rfl

/-! ### (1) payload maps commute with the sort -/

theorem insertBy_map {α γ : Type} (f : α → γ) (x : Rat × α) (l : List (Rat × α)) :
    insertBy (Prod.map id f x) (l.map (Prod.map id f)) = (insertBy x l).map (Prod.map id f) := by
  induction l with
  | nil => rfl
  | cons y ys ih =>
    simp only [List.map_cons, insertBy, Prod.map_fst, id_eq]
    split
    · simp only [List.map_cons]
    · simp only [List.map_cons, ih]

theorem sortInto_map {α γ : Type} (f : α → γ) (l acc : List (Rat × α)) :
    sortInto (acc.map (Prod.map id f)) (l.map (Prod.map id f)) = (sortInto acc l).map (Prod.map id f) := by
  induction l generalizing acc with
  | nil => rfl
  | cons x xs ih =>
    simp only [sortInto, List.map_cons, List.foldl_cons] at ih ⊢
    rw [insertBy_map, ih]

theorem sortByKey_map {α γ : Type} (f : α → γ) (l : List (Rat × α)) :
    sortByKey (l.map (Prod.map id f)) = (sortByKey l).map (Prod.map id f) := by
  have := sortInto_map f l []
  simpa only [sortByKey_eq_sortInto, List.map_nil] using this

theorem zip_zip_fst {β γ : Type} (ks : List Rat) (bs : List β) (cs : List γ) (h : bs.length ≤ cs.length) :
    (ks.zip (bs.zip cs)).map (Prod.map id Prod.fst) = ks.zip bs := by
  induction ks generalizing bs cs with
  | nil => simp
  | cons k ks ih =>
    cases bs with
    | nil => simp
    | cons b bs =>
      cases cs with
      | nil => simp at h
      | cons c cs =>
        simp only [List.length_cons, Nat.add_le_add_iff_right] at h
        simp only [List.zip_cons_cons, List.map_cons, Prod.map_apply, id_eq, ih bs cs h]

theorem zip_zip_snd {β γ : Type} (ks : List Rat) (bs : List β) (cs : List γ) (h : cs.length ≤ bs.length) :
    (ks.zip (bs.zip cs)).map (Prod.map id Prod.snd) = ks.zip cs := by
  induction ks generalizing bs cs with
  | nil => simp
  | cons k ks ih =>
    cases cs with
    | nil => simp
    | cons c cs =>
      cases bs with
      | nil => simp at h
      | cons b bs =>
        simp only [List.length_cons, Nat.add_le_add_iff_right] at h
        simp only [List.zip_cons_cons, List.map_cons, Prod.map_apply, id_eq, ih bs cs h]

theorem reorder_zip_fst {β γ : Type} (ks : List Rat) (bs : List β) (cs : List γ) (h : bs.length ≤ cs.length) :
    reorder ks bs = (reorder ks (bs.zip cs)).map Prod.fst := by
  unfold reorder
  rw [← zip_zip_fst ks bs cs h, sortByKey_map, List.map_map, List.map_map]
  rfl

theorem reorder_zip_snd {β γ : Type} (ks : List Rat) (bs : List β) (cs : List γ) (h : cs.length ≤ bs.length) :
    reorder ks cs = (reorder ks (bs.zip cs)).map Prod.snd := by
  unfold reorder
  rw [← zip_zip_snd ks bs cs h, sortByKey_map, List.map_map, List.map_map]
  rfl

theorem zip_map_fst_snd {β γ : Type} (l : List (β × γ)) : (l.map Prod.fst).zip (l.map Prod.snd) = l := by
  induction l with
  | nil => rfl
  | cons x xs ih => simp only [List.map_cons, List.zip_cons_cons, ih]

theorem reorder_zip {β γ : Type} (ks : List Rat) (bs : List β) (cs : List γ) (h : bs.length = cs.length) :
    (reorder ks bs).zip (reorder ks cs) = reorder ks (bs.zip cs) := by
  rw [reorder_zip_fst ks bs cs (Nat.le_of_eq h), reorder_zip_snd ks bs cs (Nat.le_of_eq h.symm), zip_map_fst_snd]

theorem orderLines_aligned {β η τ : Type} (keys : List Rat) (bs : List β) (hs : List η) (ts : List τ)
    (hb : bs.length = keys.length) (hh : hs.length = keys.length) (ht : ts.length = keys.length) :
    (orderLines keys bs hs ts).1.zip ((orderLines keys bs hs ts).2.1.zip (orderLines keys bs hs ts).2.2) =
      reorder keys (bs.zip (hs.zip ts)) := by
  simp only [orderLines]
  rw [reorder_zip keys hs ts (hh.trans ht.symm), reorder_zip keys bs (hs.zip ts)]
  simp only [List.length_zip]
  omega

/-! ### (2) permutation -/

theorem insertBy_perm {α : Type} (x : Rat × α) (l : List (Rat × α)) : (insertBy x l).Perm (x :: l) := by
  induction l with
  | nil => exact List.Perm.refl _
  | cons y ys ih =>
    simp only [insertBy]
    split
    · exact List.Perm.refl _
    · exact ((List.Perm.cons y ih).trans (List.Perm.swap x y ys))

theorem sortInto_perm {α : Type} (l acc : List (Rat × α)) : (sortInto acc l).Perm (acc ++ l) := by
  induction l generalizing acc with
  | nil => simp only [sortInto, List.foldl_nil, List.append_nil]; exact List.Perm.refl _
  | cons x xs ih =>
    simp only [sortInto, List.foldl_cons] at ih ⊢
    refine (ih (insertBy x acc)).trans ?_
    refine ((insertBy_perm x acc).append_right xs).trans ?_
    simp only [List.cons_append]
    exact List.perm_middle.symm

theorem sortByKey_perm {α : Type} (l : List (Rat × α)) : (sortByKey l).Perm l := by
  simpa only [sortByKey_eq_sortInto, List.nil_append] using sortInto_perm l []

theorem map_snd_zip_of_le {α : Type} (ks : List Rat) (xs : List α) (h : xs.length ≤ ks.length) :
    (ks.zip xs).map Prod.snd = xs := by
  induction ks generalizing xs with
  | nil =>
    cases xs with
    | nil => rfl
    | cons x xs => simp at h
  | cons k ks ih =>
    cases xs with
    | nil => simp
    | cons x xs =>
      simp only [List.length_cons, Nat.add_le_add_iff_right] at h
      simp only [List.zip_cons_cons, List.map_cons, ih xs h]

theorem reorder_perm {α : Type} (keys : List Rat) (xs : List α) (h : xs.length ≤ keys.length) :
    (reorder keys xs).Perm xs := by
  have := (sortByKey_perm (keys.zip xs)).map Prod.snd
  rwa [map_snd_zip_of_le keys xs h] at this

/-! ### (3) sortedness -/

theorem rat_le_of_not_lt {a b : Rat} (h : ¬ a < b) : b ≤ a := Rat.not_lt.mp h

theorem insertBy_sorted {α : Type} (x : Rat × α) (l : List (Rat × α))
    (hl : l.Pairwise (fun a b => a.1 ≤ b.1)) : (insertBy x l).Pairwise (fun a b => a.1 ≤ b.1) := by
  induction l with
  | nil => simp [insertBy]
  | cons y ys ih =>
    rw [List.pairwise_cons] at hl
    simp only [insertBy]
    split
    · rename_i hlt
      refine List.Pairwise.cons ?_ (List.Pairwise.cons hl.1 hl.2)
      intro b hb
      rcases List.mem_cons.mp hb with rfl | hb
      · exact Rat.le_of_lt hlt
      · exact Rat.le_trans (Rat.le_of_lt hlt) (hl.1 b hb)
    · rename_i hnlt
      refine List.Pairwise.cons ?_ (ih hl.2)
      intro b hb
      rcases List.mem_cons.mp ((insertBy_perm x ys).mem_iff.mp hb) with rfl | hb
      · exact rat_le_of_not_lt hnlt
      · exact hl.1 b hb

theorem sortInto_sorted {α : Type} (l acc : List (Rat × α))
    (hacc : acc.Pairwise (fun a b => a.1 ≤ b.1)) : (sortInto acc l).Pairwise (fun a b => a.1 ≤ b.1) := by
  induction l generalizing acc with
  | nil => exact hacc
  | cons x xs ih =>
    simp only [sortInto, List.foldl_cons] at ih ⊢
    exact ih _ (insertBy_sorted x acc hacc)

theorem sortByKey_sorted {α : Type} (l : List (Rat × α)) :
    ((sortByKey l).map Prod.fst).Pairwise (fun a b => a ≤ b) := by
  rw [List.pairwise_map]
  exact sortInto_sorted l [] List.Pairwise.nil

/-! ### (4) strictness under distinct keys -/

theorem map_fst_zip_sublist {α : Type} (ks : List Rat) (xs : List α) :
    ((ks.zip xs).map Prod.fst).Sublist ks := by
  induction ks generalizing xs with
  | nil => simp
  | cons k ks ih =>
    cases xs with
    | nil => simp
    | cons x xs =>
      simp only [List.zip_cons_cons, List.map_cons]
      exact (ih xs).cons_cons k

theorem sortByKey_keys_nodup {α : Type} (keys : List Rat) (xs : List α) (hk : keys.Nodup) :
    ((sortByKey (keys.zip xs)).map Prod.fst).Nodup := by
  have hp := (sortByKey_perm (keys.zip xs)).map Prod.fst
  exact hp.nodup_iff.mpr ((map_fst_zip_sublist keys xs).nodup hk)

theorem sortByKey_strict {α : Type} (keys : List Rat) (xs : List α) (hk : keys.Nodup) :
    ((sortByKey (keys.zip xs)).map Prod.fst).Pairwise (fun a b => a < b) := by
  have h1 := sortByKey_sorted (keys.zip xs)
  have h2 : ((sortByKey (keys.zip xs)).map Prod.fst).Pairwise (fun a b => a ≠ b) :=
    sortByKey_keys_nodup keys xs hk
  refine (h1.and h2).imp ?_
  intro a b hab
  rcases Rat.le_iff_lt_or_eq.mp hab.1 with h | h
  · exact h
  · exact absurd h hab.2

end OrdL
