/- Helper lemmas for the rectangle-clipping model (C11). -/
import PeroVerif.Model.Clip
import Mathlib.Tactic.Linarith
import Mathlib.Tactic.Ring
import Mathlib.Algebra.Order.Field.Basic
import Mathlib.Algebra.Order.Field.Rat

namespace Clip

/-! ### parameter intervals -/

/-- membership of a parameter in an interval state -/
def Mem : Option (Rat × Rat) → Rat → Prop
  | none, _ => False
  | some (a, b), t => a ≤ t ∧ t ≤ b

theorem mem_iff (st : Option (Rat × Rat)) (t : Rat) :
    Mem st t ↔ ∃ t0 t1, st = some (t0, t1) ∧ t0 ≤ t ∧ t ≤ t1 := by
  cases st with
  | none => simp [Mem]
  | some ab =>
    obtain ⟨a, b⟩ := ab
    constructor
    · intro h; exact ⟨a, b, rfl, h⟩
    · rintro ⟨t0, t1, h, h'⟩
      cases h
      exact h'

/-- `clipEdge` intersects the interval with the half-line `den * t ≤ num`. -/
theorem clipEdge_mem (num den : Rat) (st : Option (Rat × Rat)) (t : Rat) :
    Mem (clipEdge num den st) t ↔ Mem st t ∧ den * t ≤ num := by
  cases st with
  | none => simp [clipEdge, Mem]
  | some ab =>
    obtain ⟨a, b⟩ := ab
    unfold clipEdge
    simp only
    split_ifs with hd hn hneg hgt hlt
    · subst hd
      rw [zero_mul]
      exact ⟨fun h => h.elim, fun h => absurd h.2 (not_le.mpr hn)⟩
    · subst hd
      rw [zero_mul]
      exact ⟨fun h => ⟨h, not_lt.mp hn⟩, fun h => h.1⟩
    · rw [← div_le_iff_of_neg' hneg]
      constructor
      · intro h; exact h.elim
      · rintro ⟨⟨_, h2⟩, h3⟩
        exact absurd (lt_of_le_of_lt (le_trans h3 h2) hgt) (lt_irrefl _)
    · rw [← div_le_iff_of_neg' hneg]
      show (max a (num / den) ≤ t ∧ t ≤ b) ↔ (a ≤ t ∧ t ≤ b) ∧ num / den ≤ t
      rw [max_le_iff]
      tauto
    · have hpos : 0 < den := lt_of_le_of_ne (not_lt.mp hneg) (Ne.symm hd)
      rw [← le_div_iff₀' hpos]
      constructor
      · intro h; exact h.elim
      · rintro ⟨⟨h1, _⟩, h3⟩
        exact absurd (lt_of_le_of_lt (le_trans h1 h3) hlt) (lt_irrefl _)
    · have hpos : 0 < den := lt_of_le_of_ne (not_lt.mp hneg) (Ne.symm hd)
      rw [← le_div_iff₀' hpos]
      show (a ≤ t ∧ t ≤ min b (num / den)) ↔ (a ≤ t ∧ t ≤ b) ∧ t ≤ num / den
      rw [le_min_iff]
      tauto

/-- `clipEdge` keeps the interval well-formed and shrinks it. -/
theorem clipEdge_range (num den a b t0 t1 : Rat) (hab : a ≤ b)
    (h : clipEdge num den (some (a, b)) = some (t0, t1)) : a ≤ t0 ∧ t0 ≤ t1 ∧ t1 ≤ b := by
  unfold clipEdge at h
  simp only at h
  split_ifs at h with hd hn hneg hgt hlt
  · cases h; exact ⟨le_refl _, hab, le_refl _⟩
  · cases h
    exact ⟨le_max_left _ _, max_le hab (not_lt.mp hgt), le_refl _⟩
  · cases h
    exact ⟨le_refl _, le_min hab (not_lt.mp hlt), min_le_left _ _⟩

theorem clipEdge_range' (num den : Rat) (st : Option (Rat × Rat)) (lo hi : Rat)
    (hst : ∀ a b, st = some (a, b) → lo ≤ a ∧ a ≤ b ∧ b ≤ hi) :
    ∀ a b, clipEdge num den st = some (a, b) → lo ≤ a ∧ a ≤ b ∧ b ≤ hi := by
  intro t0 t1 h
  cases st with
  | none => simp [clipEdge] at h
  | some ab =>
    obtain ⟨a, b⟩ := ab
    obtain ⟨h1, h2, h3⟩ := hst a b rfl
    obtain ⟨g1, g2, g3⟩ := clipEdge_range num den a b t0 t1 h2 h
    exact ⟨le_trans h1 g1, g2, le_trans g3 h3⟩

/-- A constraint satisfied at both ends leaves `[0, 1]` unchanged. -/
theorem clipEdge_id (num den : Rat) (h0 : den * 0 ≤ num) (h1 : den * 1 ≤ num) :
    clipEdge num den (some (0, 1)) = some (0, 1) := by
  unfold clipEdge
  simp only
  split_ifs with hd hn hneg hgt hlt
  · subst hd; rw [zero_mul] at h0; exact absurd h0 (not_le.mpr hn)
  · rfl
  · rw [← div_le_iff_of_neg' hneg] at h1
    exact absurd h1 (not_le.mpr hgt)
  · rw [← div_le_iff_of_neg' hneg] at h0
    rw [max_eq_left h0]
  · have hpos : 0 < den := lt_of_le_of_ne (not_lt.mp hneg) (Ne.symm hd)
    rw [← le_div_iff₀' hpos] at h0
    exact absurd h0 (not_le.mpr hlt)
  · have hpos : 0 < den := lt_of_le_of_ne (not_lt.mp hneg) (Ne.symm hd)
    rw [← le_div_iff₀' hpos] at h1
    rw [min_eq_left h1]

/-! ### segments -/

theorem clipSeg_mem (r : Rect) (p q : Pt) (t : Rat) (h0 : 0 ≤ t) (h1 : t ≤ 1) :
    inRect r (lerp p q t) ↔ Mem (clipSeg r p q) t := by
  unfold clipSeg
  rw [clipEdge_mem, clipEdge_mem, clipEdge_mem, clipEdge_mem]
  unfold inRect lerp Mem
  simp only
  constructor
  · rintro ⟨a, b, c, d⟩
    refine ⟨⟨⟨⟨⟨h0, h1⟩, ?_⟩, ?_⟩, ?_⟩, ?_⟩ <;> linarith
  · rintro ⟨⟨⟨⟨_, a⟩, b⟩, c⟩, d⟩
    refine ⟨?_, ?_, ?_, ?_⟩ <;> linarith

theorem clipSeg_exact' (r : Rect) (p q : Pt) (t : Rat) (h0 : 0 ≤ t) (h1 : t ≤ 1) :
    inRect r (lerp p q t) ↔ ∃ t0 t1, clipSeg r p q = some (t0, t1) ∧ t0 ≤ t ∧ t ≤ t1 := by
  rw [clipSeg_mem r p q t h0 h1, mem_iff]

theorem clipSeg_range' (r : Rect) (p q : Pt) (t0 t1 : Rat) (h : clipSeg r p q = some (t0, t1)) :
    0 ≤ t0 ∧ t0 ≤ t1 ∧ t1 ≤ 1 := by
  unfold clipSeg at h
  refine clipEdge_range' _ _ _ 0 1 ?_ t0 t1 h
  refine clipEdge_range' _ _ _ 0 1 ?_
  refine clipEdge_range' _ _ _ 0 1 ?_
  refine clipEdge_range' _ _ _ 0 1 ?_
  intro a b hab
  cases hab
  exact ⟨le_refl _, by decide, le_refl _⟩

/-- both ends of the clipped part are in the rectangle -/
theorem clipSeg_ends (r : Rect) (p q : Pt) (t0 t1 : Rat) (h : clipSeg r p q = some (t0, t1)) :
    inRect r (lerp p q t0) ∧ inRect r (lerp p q t1) := by
  obtain ⟨h0, h01, h1⟩ := clipSeg_range' r p q t0 t1 h
  constructor
  · exact (clipSeg_exact' r p q t0 h0 (le_trans h01 h1)).2 ⟨t0, t1, h, le_refl _, h01⟩
  · exact (clipSeg_exact' r p q t1 (le_trans h0 h01) h1).2 ⟨t0, t1, h, h01, le_refl _⟩

theorem lerp_zero (p q : Pt) : lerp p q 0 = p := by
  unfold lerp
  ext <;> simp

theorem lerp_one (p q : Pt) : lerp p q 1 = q := by
  unfold lerp
  ext <;> simp

/-- By convexity a segment between two inside points is wholly inside. -/
theorem clipSeg_inside (r : Rect) (p q : Pt) (hp : inRect r p) (hq : inRect r q) :
    clipSeg r p q = some (0, 1) := by
  obtain ⟨p1, p2, p3, p4⟩ := hp
  obtain ⟨q1, q2, q3, q4⟩ := hq
  unfold clipSeg
  rw [clipEdge_id, clipEdge_id, clipEdge_id, clipEdge_id] <;> linarith

/-! ### the walk -/

/-- a predicate on all consecutive segments of `p :: rest` -/
def SegAll (F : Pt → Pt → Prop) : Pt → List Pt → Prop
  | _, [] => True
  | p, q :: rest => F p q ∧ SegAll F q rest

theorem segAll_of_getElem (F : Pt → Pt → Prop) : ∀ (rest : List Pt) (p : Pt),
    (∀ (i : Nat) (a b : Pt), (p :: rest)[i]? = some a → (p :: rest)[i + 1]? = some b → F a b) →
    SegAll F p rest := by
  intro rest
  induction rest with
  | nil => intro p _; trivial
  | cons q rest ih =>
    intro p h
    refine ⟨h 0 p q rfl rfl, ih q ?_⟩
    intro i a b ha hb
    exact h (i + 1) a b (by simpa using ha) (by simpa using hb)

theorem segAll_of_mem (F : Pt → Pt → Prop) : ∀ (rest : List Pt) (p : Pt),
    (∀ a ∈ p :: rest, ∀ b ∈ p :: rest, F a b) → SegAll F p rest := by
  intro rest
  induction rest with
  | nil => intro p _; trivial
  | cons q rest ih =>
    intro p h
    refine ⟨h p (by simp) q (by simp), ih q ?_⟩
    intro a ha b hb
    exact h a (List.mem_cons_of_mem _ ha) b (List.mem_cons_of_mem _ hb)

def nextCur (p q : Pt) (t0 t1 : Rat) (cur : List Pt) : List Pt :=
  if t0 = 0 ∧ cur ≠ [] then lerp p q t1 :: cur else [lerp p q t1, lerp p q t0]

def nextAcc (t0 : Rat) (cur : List Pt) (acc : List (List Pt)) : List (List Pt) :=
  if t0 = 0 ∧ cur ≠ [] then acc else flush cur acc

theorem clipGo_nil (r : Rect) (p : Pt) (cur : List Pt) (acc : List (List Pt)) :
    clipGo r p [] cur acc = (flush cur acc).reverse := by
  simp only [clipGo]

theorem clipGo_cons_none (r : Rect) (p q : Pt) (rest cur : List Pt) (acc : List (List Pt))
    (h : clipSeg r p q = none) :
    clipGo r p (q :: rest) cur acc = clipGo r q rest [] (flush cur acc) := by
  simp only [clipGo, h]

theorem clipGo_cons_some (r : Rect) (p q : Pt) (rest cur : List Pt) (acc : List (List Pt)) (t0 t1 : Rat)
    (h : clipSeg r p q = some (t0, t1)) :
    clipGo r p (q :: rest) cur acc =
      if t1 = 1 then clipGo r q rest (nextCur p q t0 t1 cur) (nextAcc t0 cur acc)
      else clipGo r q rest [] (flush (nextCur p q t0 t1 cur) (nextAcc t0 cur acc)) := by
  simp only [clipGo, h, nextCur, nextAcc]

theorem flush_forall (Q : List Pt → Prop) (cur : List Pt) (acc : List (List Pt))
    (hacc : ∀ piece ∈ acc, Q piece) (hcur : cur ≠ [] → Q cur.reverse) :
    ∀ piece ∈ flush cur acc, Q piece := by
  unfold flush
  split_ifs with h
  · exact hacc
  · intro piece hp
    rcases List.mem_cons.1 hp with rfl | hp
    · exact hcur h
    · exact hacc piece hp

/-- generic invariant of the walk: `C` holds for the piece being built, `Q` for the closed pieces -/
theorem clipGo_inv (r : Rect) (F : Pt → Pt → Prop) (C Q : List Pt → Prop)
    (hnil : C [])
    (hflush : ∀ cur, C cur → cur ≠ [] → Q cur.reverse)
    (hnew : ∀ p q t0 t1, clipSeg r p q = some (t0, t1) → F p q → C [lerp p q t1, lerp p q t0])
    (hext : ∀ p q t0 t1 cur, clipSeg r p q = some (t0, t1) → F p q → C cur → cur ≠ [] →
      C (lerp p q t1 :: cur)) :
    ∀ (rest : List Pt) (p : Pt) (cur : List Pt) (acc : List (List Pt)),
      SegAll F p rest → C cur → (∀ piece ∈ acc, Q piece) →
      ∀ piece ∈ clipGo r p rest cur acc, Q piece := by
  intro rest
  induction rest with
  | nil =>
    intro p cur acc _ hcur hacc piece hp
    rw [clipGo_nil, List.mem_reverse] at hp
    exact flush_forall Q cur acc hacc (hflush cur hcur) piece hp
  | cons q rest ih =>
    intro p cur acc hseg hcur hacc
    obtain ⟨hF, hseg'⟩ := hseg
    cases hc : clipSeg r p q with
    | none =>
      rw [clipGo_cons_none r p q rest cur acc hc]
      exact ih q [] _ hseg' hnil (flush_forall Q cur acc hacc (hflush cur hcur))
    | some tt =>
      obtain ⟨t0, t1⟩ := tt
      rw [clipGo_cons_some r p q rest cur acc t0 t1 hc]
      have hcur' : C (nextCur p q t0 t1 cur) := by
        unfold nextCur
        split_ifs with h
        · exact hext p q t0 t1 cur hc hF hcur h.2
        · exact hnew p q t0 t1 hc hF
      have hacc' : ∀ piece ∈ nextAcc t0 cur acc, Q piece := by
        unfold nextAcc
        split_ifs with h
        · exact hacc
        · exact flush_forall Q cur acc hacc (hflush cur hcur)
      split_ifs with h1
      · exact ih q _ _ hseg' hcur' hacc'
      · exact ih q [] _ hseg' hnil (flush_forall Q _ _ hacc' (hflush _ hcur'))

/-- vertex invariant: every vertex of every piece satisfies `V`, provided every point of the baseline that lies in
the rectangle does -/
theorem clipGo_vertices (r : Rect) (V : Pt → Prop) (p : Pt) (rest : List Pt)
    (hseg : SegAll (fun p q => ∀ t, 0 ≤ t → t ≤ 1 → inRect r (lerp p q t) → V (lerp p q t)) p rest) :
    ∀ piece ∈ clipGo r p rest [] [], ∀ v ∈ piece, V v := by
  refine clipGo_inv r _ (fun cur => ∀ v ∈ cur, V v) (fun piece => ∀ v ∈ piece, V v)
    ?_ ?_ ?_ ?_ rest p [] [] hseg ?_ ?_
  · intro v hv; cases hv
  · intro cur hcur _ v hv
    exact hcur v (List.mem_reverse.1 hv)
  · intro p q t0 t1 hc hF v hv
    obtain ⟨h0, h01, h1⟩ := clipSeg_range' r p q t0 t1 hc
    obtain ⟨ha, hb⟩ := clipSeg_ends r p q t0 t1 hc
    simp only [List.mem_cons, List.not_mem_nil, or_false] at hv
    rcases hv with rfl | rfl
    · exact hF t1 (le_trans h0 h01) h1 hb
    · exact hF t0 h0 (le_trans h01 h1) ha
  · intro p q t0 t1 cur hc hF hcur _ v hv
    obtain ⟨h0, h01, h1⟩ := clipSeg_range' r p q t0 t1 hc
    obtain ⟨ha, hb⟩ := clipSeg_ends r p q t0 t1 hc
    rcases List.mem_cons.1 hv with rfl | hv
    · exact hF t1 (le_trans h0 h01) h1 hb
    · exact hcur v hv
  · intro v hv; cases hv
  · intro piece hp; cases hp

theorem clipGo_length (r : Rect) (p : Pt) (rest : List Pt) :
    ∀ piece ∈ clipGo r p rest [] [], 2 ≤ piece.length := by
  refine clipGo_inv r (fun _ _ => True) (fun cur => cur = [] ∨ 2 ≤ cur.length) (fun piece => 2 ≤ piece.length)
    ?_ ?_ ?_ ?_ rest p [] [] ?_ ?_ ?_
  · exact Or.inl rfl
  · intro cur hcur hne
    rcases hcur with h | h
    · exact absurd h hne
    · simpa using h
  · intro p q t0 t1 _ _
    exact Or.inr (le_refl _)
  · intro p q t0 t1 cur _ _ hcur hne
    rcases hcur with h | h
    · exact absurd h hne
    · right; simp only [List.length_cons]; omega
  · exact segAll_of_mem _ rest p (fun _ _ _ _ => trivial)
  · exact Or.inl rfl
  · intro piece hp; cases hp

theorem flush_nil (acc : List (List Pt)) : flush [] acc = acc := by
  simp [flush]

theorem flush_ne (cur : List Pt) (acc : List (List Pt)) (h : cur ≠ []) : flush cur acc = cur.reverse :: acc := by
  simp [flush, h]

/-- no segment meets the rectangle: nothing is added -/
theorem clipGo_none (r : Rect) : ∀ (rest : List Pt) (p : Pt) (acc : List (List Pt)),
    SegAll (fun p q => clipSeg r p q = none) p rest → clipGo r p rest [] acc = acc.reverse := by
  intro rest
  induction rest with
  | nil => intro p acc _; rw [clipGo_nil, flush_nil]
  | cons q rest ih =>
    intro p acc h
    rw [clipGo_cons_none r p q rest [] acc h.1, flush_nil]
    exact ih q acc h.2

/-- every segment is wholly inside: the current piece is simply extended -/
theorem clipGo_all (r : Rect) : ∀ (rest : List Pt) (p : Pt) (cur : List Pt) (acc : List (List Pt)),
    SegAll (fun p q => clipSeg r p q = some (0, 1)) p rest → cur ≠ [] →
    clipGo r p rest cur acc = ((cur.reverse ++ rest) :: acc).reverse := by
  intro rest
  induction rest with
  | nil =>
    intro p cur acc _ hne
    rw [clipGo_nil, flush_ne cur acc hne, List.append_nil]
  | cons q rest ih =>
    intro p cur acc h hne
    rw [clipGo_cons_some r p q rest cur acc 0 1 h.1, if_pos rfl]
    have h1 : nextCur p q 0 1 cur = q :: cur := by
      unfold nextCur
      rw [if_pos ⟨rfl, hne⟩, lerp_one]
    have h2 : nextAcc 0 cur acc = acc := by
      unfold nextAcc
      rw [if_pos ⟨rfl, hne⟩]
    rw [h1, h2, ih q (q :: cur) acc h.2 (List.cons_ne_nil _ _)]
    simp

theorem clipPolyline_cons (r : Rect) (p : Pt) (rest : List Pt) :
    clipPolyline r (p :: rest) = clipGo r p rest [] [] := rfl

theorem clipPolyline_inside (r : Rect) (pts : List Pt) (hlen : 2 ≤ pts.length) (hin : ∀ v ∈ pts, inRect r v) :
    clipPolyline r pts = [pts] := by
  match pts, hlen, hin with
  | p :: q :: rest, _, hin =>
    have hseg : SegAll (fun p q => clipSeg r p q = some (0, 1)) p (q :: rest) :=
      segAll_of_mem _ _ _ (fun a ha b hb => clipSeg_inside r a b (hin a ha) (hin b hb))
    rw [clipPolyline_cons]
    rw [clipGo_cons_some r p q rest [] [] 0 1 hseg.1, if_pos rfl]
    have h1 : nextCur p q 0 1 [] = [q, p] := by
      unfold nextCur
      rw [if_neg (fun h => h.2 rfl), lerp_one, lerp_zero]
    have h2 : nextAcc 0 [] [] = [] := by
      unfold nextAcc
      rw [if_neg (fun h => h.2 rfl), flush_nil]
    rw [h1, h2, clipGo_all r rest q [q, p] [] hseg.2 (List.cons_ne_nil _ _)]
    simp

theorem clipPolyline_untouched (r : Rect) (pts : List Pt)
    (hout : ∀ (i : Nat) (p q : Pt) (t : Rat), pts[i]? = some p → pts[i + 1]? = some q → 0 ≤ t → t ≤ 1 →
      ¬ inRect r (lerp p q t)) :
    clipPolyline r pts = [] := by
  cases pts with
  | nil => rfl
  | cons p rest =>
    rw [clipPolyline_cons]
    rw [clipGo_none r rest p []]
    · rfl
    · apply segAll_of_getElem
      intro i a b ha hb
      cases hc : clipSeg r a b with
      | none => rfl
      | some tt =>
        obtain ⟨t0, t1⟩ := tt
        obtain ⟨h0, h01, h1⟩ := clipSeg_range' r a b t0 t1 hc
        exact absurd (clipSeg_ends r a b t0 t1 hc).1 (hout i a b t0 ha hb h0 (le_trans h01 h1))

theorem clipPolyline_in_rect (r : Rect) (pts : List Pt) :
    ∀ piece ∈ clipPolyline r pts, ∀ v ∈ piece, inRect r v := by
  cases pts with
  | nil => intro piece hp; cases hp
  | cons p rest =>
    rw [clipPolyline_cons]
    apply clipGo_vertices r (inRect r) p rest
    apply segAll_of_mem
    intro a _ b _ t _ _ h
    exact h

theorem clipPolyline_on_polyline (r : Rect) (pts : List Pt) :
    ∀ piece ∈ clipPolyline r pts, ∀ v ∈ piece,
      ∃ (i : Nat) (p q : Pt) (t : Rat), pts[i]? = some p ∧ pts[i + 1]? = some q ∧ 0 ≤ t ∧ t ≤ 1 ∧ v = lerp p q t := by
  cases pts with
  | nil => intro piece hp; cases hp
  | cons p rest =>
    rw [clipPolyline_cons]
    apply clipGo_vertices r (fun v => ∃ (i : Nat) (a b : Pt) (t : Rat), (p :: rest)[i]? = some a ∧
      (p :: rest)[i + 1]? = some b ∧ 0 ≤ t ∧ t ≤ 1 ∧ v = lerp a b t) p rest
    apply segAll_of_getElem
    intro i a b ha hb t h0 h1 _
    exact ⟨i, a, b, t, ha, hb, h0, h1, rfl⟩

theorem clipPolyline_length (r : Rect) (pts : List Pt) : ∀ piece ∈ clipPolyline r pts, 2 ≤ piece.length := by
  cases pts with
  | nil => intro piece hp; cases hp
  | cons p rest =>
    rw [clipPolyline_cons]
    exact clipGo_length r p rest

end Clip
