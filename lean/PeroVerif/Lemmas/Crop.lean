-- helper lemmas for C10
import PeroVerif.Model.Crop
import Mathlib.Data.Rat.Floor
import Mathlib.Tactic.Linarith
import Mathlib.Tactic.Ring
import Mathlib.Tactic.FieldSimp
import Mathlib.Tactic.Positivity

namespace Crop

/-- bridge: core `Rat.floor` is Mathlib's `Int.floor` on `ℚ` -/
theorem floor_eq (q : Rat) : q.floor = ⌊q⌋ := rfl

/-! ### linspace -/

theorem linspace_eq (a b : Rat) (n : Nat) (hn : 2 ≤ n) :
    linspace a b n = (List.range n).map fun (i : Nat) => a + (b - a) * (i : Rat) / ((n : Rat) - 1) := by
  unfold linspace
  rw [if_neg (by omega), if_neg (by omega)]

theorem linspace_length (a b : Rat) (n : Nat) (hn : 2 ≤ n) : (linspace a b n).length = n := by
  rw [linspace_eq a b n hn]; simp

theorem linspace_get (a b : Rat) (n : Nat) (hn : 2 ≤ n) (i : Nat) (hi : i < n) :
    (linspace a b n)[i]? = some (a + (b - a) * (i : Rat) / ((n : Rat) - 1)) := by
  rw [linspace_eq a b n hn]
  simp [hi]

theorem natCast_sub_one_ne (n : Nat) (hn : 2 ≤ n) : (n : Rat) - 1 ≠ 0 := by
  have : (2 : Rat) ≤ (n : Rat) := by exact_mod_cast hn
  intro h
  linarith

/-! ### width -/

theorem width_bounds (arc h0 h1 s : Rat) (H : Nat) (hpos : 0 < (h0 + h1) * s) (harc : 0 ≤ arc) :
    0 ≤ width arc h0 h1 s H ∧ (width arc h0 h1 s H : Rat) * ((h0 + h1) * s) ≤ arc * H ∧
      arc * H < ((width arc h0 h1 s H : Rat) + 1) * ((h0 + h1) * s) := by
  unfold width
  rw [floor_eq]
  set d := (h0 + h1) * s with hd
  set q := arc * (H : Rat) / d with hq
  have hH : (0 : Rat) ≤ (H : Rat) := Nat.cast_nonneg H
  have hq0 : 0 ≤ q := div_nonneg (mul_nonneg harc hH) hpos.le
  have h1 : (⌊q⌋ : Rat) ≤ q := Int.floor_le q
  have h2 : q < (⌊q⌋ : Rat) + 1 := Int.lt_floor_add_one q
  have hqd : q * d = arc * H := by
    rw [hq]; field_simp
  refine ⟨Int.floor_nonneg.mpr hq0, ?_, ?_⟩
  · rw [← hqd]; exact mul_le_mul_of_nonneg_right h1 hpos.le
  · rw [← hqd]; exact mul_lt_mul_of_pos_right h2 hpos

/-! ### bilinear sampling -/

theorem convex4 (p q v1 v2 v3 v4 lo hi : Rat) (hp0 : 0 ≤ p) (hp1 : p ≤ 1) (hq0 : 0 ≤ q) (hq1 : q ≤ 1)
    (l1 : lo ≤ v1) (l2 : lo ≤ v2) (l3 : lo ≤ v3) (l4 : lo ≤ v4)
    (u1 : v1 ≤ hi) (u2 : v2 ≤ hi) (u3 : v3 ≤ hi) (u4 : v4 ≤ hi) :
    lo ≤ (1 - p) * (1 - q) * v1 + p * (1 - q) * v2 + (1 - p) * q * v3 + p * q * v4 ∧
    (1 - p) * (1 - q) * v1 + p * (1 - q) * v2 + (1 - p) * q * v3 + p * q * v4 ≤ hi := by
  have w1 : 0 ≤ (1 - p) * (1 - q) := mul_nonneg (by linarith) (by linarith)
  have w2 : 0 ≤ p * (1 - q) := mul_nonneg hp0 (by linarith)
  have w3 : 0 ≤ (1 - p) * q := mul_nonneg (by linarith) hq0
  have w4 : 0 ≤ p * q := mul_nonneg hp0 hq0
  have a1 := mul_nonneg w1 (sub_nonneg.mpr l1)
  have a2 := mul_nonneg w2 (sub_nonneg.mpr l2)
  have a3 := mul_nonneg w3 (sub_nonneg.mpr l3)
  have a4 := mul_nonneg w4 (sub_nonneg.mpr l4)
  have b1 := mul_nonneg w1 (sub_nonneg.mpr u1)
  have b2 := mul_nonneg w2 (sub_nonneg.mpr u2)
  have b3 := mul_nonneg w3 (sub_nonneg.mpr u3)
  have b4 := mul_nonneg w4 (sub_nonneg.mpr u4)
  constructor
  · nlinarith [a1, a2, a3, a4]
  · nlinarith [b1, b2, b3, b4]

theorem frac_bounds (f : Rat) : 0 ≤ f - (f.floor : Rat) ∧ f - (f.floor : Rat) ≤ 1 := by
  rw [floor_eq]
  have h1 : (⌊f⌋ : Rat) ≤ f := Int.floor_le f
  have h2 : f < (⌊f⌋ : Rat) + 1 := Int.lt_floor_add_one f
  constructor <;> linarith

theorem bilinear_bounds (im : Image) (fx fy lo hi : Rat) (hlo : ∀ x y, lo ≤ im.at x y)
    (hhi : ∀ x y, im.at x y ≤ hi) : lo ≤ bilinear im fx fy ∧ bilinear im fx fy ≤ hi := by
  unfold bilinear
  obtain ⟨hx0, hx1⟩ := frac_bounds fx
  obtain ⟨hy0, hy1⟩ := frac_bounds fy
  exact convex4 _ _ _ _ _ _ lo hi hx0 hx1 hy0 hy1 (hlo _ _) (hlo _ _) (hlo _ _) (hlo _ _)
    (hhi _ _) (hhi _ _) (hhi _ _) (hhi _ _)

/-! ### fast path = general path -/

theorem sub_at (im : Image) (xmin ymin xmax ymax X Y : Int)
    (hX : xmin ≤ X ∧ X ≤ xmax) (hY : ymin ≤ Y ∧ Y ≤ ymax) :
    (subImage im xmin ymin xmax ymax).at (X - xmin) (Y - ymin) = im.at X Y := by
  unfold subImage
  simp only [Image.at]
  rw [if_pos (by omega)]
  simp only [Int.sub_add_cancel]

theorem floor_sub_int (f : Rat) (z : Int) : (f - (z : Rat)).floor = f.floor - z := by
  rw [floor_eq, floor_eq]; exact Int.floor_sub_intCast f z

theorem floor_range (f : Rat) (lo hi : Int) (h : (lo : Rat) ≤ f ∧ f ≤ hi) :
    lo ≤ f.floor ∧ f.floor ≤ hi ∧ (f.floor < hi ∨ f - (f.floor : Rat) = 0) := by
  rw [floor_eq]
  have h1 : (⌊f⌋ : Rat) ≤ f := Int.floor_le f
  have hlo : lo ≤ ⌊f⌋ := Int.le_floor.mpr h.1
  have hhi : ⌊f⌋ ≤ hi := by
    have : ((⌊f⌋ : Int) : Rat) ≤ (hi : Rat) := le_trans h1 h.2
    exact_mod_cast this
  refine ⟨hlo, hhi, ?_⟩
  rcases lt_or_eq_of_le hhi with hlt | heq
  · exact Or.inl hlt
  · right
    have : (hi : Rat) ≤ f := by rw [← heq]; exact h1
    rw [heq]; linarith [h.2]

theorem bil_core (im : Image) (xmin ymin xmax ymax x0 y0 : Int) (ax ay : Rat)
    (hx : xmin ≤ x0 ∧ x0 ≤ xmax) (hy : ymin ≤ y0 ∧ y0 ≤ ymax)
    (bx : x0 < xmax ∨ ax = 0) (by' : y0 < ymax ∨ ay = 0) :
    (1 - ax) * (1 - ay) * (subImage im xmin ymin xmax ymax).at (x0 - xmin) (y0 - ymin) +
      ax * (1 - ay) * (subImage im xmin ymin xmax ymax).at (x0 - xmin + 1) (y0 - ymin) +
      (1 - ax) * ay * (subImage im xmin ymin xmax ymax).at (x0 - xmin) (y0 - ymin + 1) +
      ax * ay * (subImage im xmin ymin xmax ymax).at (x0 - xmin + 1) (y0 - ymin + 1) =
    (1 - ax) * (1 - ay) * im.at x0 y0 + ax * (1 - ay) * im.at (x0 + 1) y0 +
      (1 - ax) * ay * im.at x0 (y0 + 1) + ax * ay * im.at (x0 + 1) (y0 + 1) := by
  have ex : x0 - xmin + 1 = (x0 + 1) - xmin := by omega
  have ey : y0 - ymin + 1 = (y0 + 1) - ymin := by omega
  rw [ex, ey, sub_at im xmin ymin xmax ymax x0 y0 hx hy]
  rcases bx with bx | bx <;> rcases by' with by' | by'
  · rw [sub_at im xmin ymin xmax ymax (x0 + 1) y0 (by omega) hy,
      sub_at im xmin ymin xmax ymax x0 (y0 + 1) hx (by omega),
      sub_at im xmin ymin xmax ymax (x0 + 1) (y0 + 1) (by omega) (by omega)]
  · rw [sub_at im xmin ymin xmax ymax (x0 + 1) y0 (by omega) hy, by']
    simp only [mul_zero, zero_mul, add_zero]
  · rw [sub_at im xmin ymin xmax ymax x0 (y0 + 1) hx (by omega), bx]
    simp only [zero_mul, add_zero]
  · rw [bx, by']
    simp only [mul_zero, zero_mul, add_zero]

theorem fast_eq (im : Image) (xmin ymin xmax ymax : Int) (fx fy : Rat)
    (hx : (xmin : Rat) ≤ fx ∧ fx ≤ xmax) (hy : (ymin : Rat) ≤ fy ∧ fy ≤ ymax) :
    fastSample im xmin ymin xmax ymax fx fy = bilinear im fx fy := by
  unfold fastSample
  split
  · rfl
  · obtain ⟨hx1, hx2, hx3⟩ := floor_range fx xmin xmax hx
    obtain ⟨hy1, hy2, hy3⟩ := floor_range fy ymin ymax hy
    unfold bilinear
    simp only [floor_sub_int]
    have e1 : fx - (xmin : Rat) - ((fx.floor - xmin : Int) : Rat) = fx - (fx.floor : Rat) := by
      push_cast; ring
    have e2 : fy - (ymin : Rat) - ((fy.floor - ymin : Int) : Rat) = fy - (fy.floor : Rat) := by
      push_cast; ring
    rw [e1, e2]
    exact bil_core im xmin ymin xmax ymax fx.floor fy.floor _ _ ⟨hx1, hx2⟩ ⟨hy1, hy2⟩ hx3 hy3

/-! ### cubic domain -/

theorem cubicEvalMax_witness : cubicEvalMax (2395 / 100) = 241 / 10 := by
  decide +kernel

end Crop
