-- helper lemmas for C10
import PeroVerif.Model.Crop
import Mathlib.Data.Rat.Floor
import Mathlib.Tactic.Linarith
import Mathlib.Tactic.Ring
import Mathlib.Tactic.FieldSimp
import Mathlib.Tactic.Positivity

namespace Crop

/-- bridge: core `Rat.floor` is Mathlib's `Int.floor` on `ℚ` -/
theorem floor_eq (q : Rat) : q.floor = ⌊q⌋ := rfl

/-! ### linspace -/

theorem linspace_eq (a b : Rat) (n : Nat) (hn : 2 ≤ n) :
    linspace a b n = (List.range n).map fun (i : Nat) => a + (b - a) * (i : Rat) / ((n : Rat) - 1) := by
  unfold linspace
  rw [if_neg (by omega), if_neg (by omega)]

theorem linspace_length (a b : Rat) (n : Nat) (hn : 2 ≤ n) : (linspace a b n).length = n := by
  rw [linspace_eq a b n hn]; simp

theorem linspace_get (a b : Rat) (n : Nat) (hn : 2 ≤ n) (i : Nat) (hi : i < n) :
    (linspace a b n)[i]? = some (a + (b - a) * (i : Rat) / ((n : Rat) - 1)) := by
  rw [linspace_eq a b n hn]
  simp [hi]

theorem natCast_sub_one_ne (n : Nat) (hn : 2 ≤ n) : (n : Rat) - 1 ≠ 0 := by
  have : (2 : Rat) ≤ (n : Rat) := by exact_mod_cast hn
  intro h
  linarith

/-! ### width -/

theorem width_bounds (arc h0 h1 s : Rat) (H : Nat) (hpos : 0 < (h0 + h1) * s) (harc : 0 ≤ arc) :
    0 ≤ width arc h0 h1 s H ∧ (width arc h0 h1 s H : Rat) * ((h0 + h1) * s) ≤ arc * H ∧
      arc * H < ((width arc h0 h1 s H : Rat) + 1) * ((h0 + h1) * s) := by
  unfold width
  rw [floor_eq]
  set d := (h0 + h1) * s with hd
  set q := arc * (H : Rat) / d with hq
  have hH : (0 : Rat) ≤ (H : Rat) := Nat.cast_nonneg H
  have hq0 : 0 ≤ q := div_nonneg (mul_nonneg harc hH) hpos.le
  have h1 : (⌊q⌋ : Rat) ≤ q := Int.floor_le q
  have h2 : q < (⌊q⌋ : Rat) + 1 := Int.lt_floor_add_one q
  have hqd : q * d = arc * H := by
    rw [hq]; field_simp
  refine ⟨Int.floor_nonneg.mpr hq0, ?_, ?_⟩
  · rw [← hqd]; exact mul_le_mul_of_nonneg_right h1 hpos.le
  · rw [← hqd]; exact mul_lt_mul_of_pos_right h2 hpos

/-! ### bilinear sampling -/

theorem convex4 (p q v1 v2 v3 v4 lo hi : Rat) (hp0 : 0 ≤ p) (hp1 : p ≤ 1) (hq0 : 0 ≤ q) (hq1 : q ≤ 1)
    (l1 : lo ≤ v1) (l2 : lo ≤ v2) (l3 : lo ≤ v3) (l4 : lo ≤ v4)
    (u1 : v1 ≤ hi) (u2 : v2 ≤ hi) (u3 : v3 ≤ hi) (u4 : v4 ≤ hi) :
    lo ≤ (1 - p) * (1 - q) * v1 + p * (1 - q) * v2 + (1 - p) * q * v3 + p * q * v4 ∧
    (1 - p) * (1 - q) * v1 + p * (1 - q) * v2 + (1 - p) * q * v3 + p * q * v4 ≤ hi := by
  have w1 : 0 ≤ (1 - p) * (1 - q) := mul_nonneg (by linarith) (by linarith)
  have w2 : 0 ≤ p * (1 - q) := mul_nonneg hp0 (by linarith)
  have w3 : 0 ≤ (1 - p) * q := mul_nonneg (by linarith) hq0
  have w4 : 0 ≤ p * q := mul_nonneg hp0 hq0
  have a1 := mul_nonneg w1 (sub_nonneg.mpr l1)
  have a2 := mul_nonneg w2 (sub_nonneg.mpr l2)
  have a3 := mul_nonneg w3 (sub_nonneg.mpr l3)
  have a4 := mul_nonneg w4 (sub_nonneg.mpr l4)
  have b1 := mul_nonneg w1 (sub_nonneg.mpr u1)
  have b2 := mul_nonneg w2 (sub_nonneg.mpr u2)
  have b3 := mul_nonneg w3 (sub_nonneg.mpr u3)
  have b4 := mul_nonneg w4 (sub_nonneg.mpr u4)
  constructor
  · nlinarith [a1, a2, a3, a4]
  · nlinarith [b1, b2, b3, b4]

theorem frac_bounds (f : Rat) : 0 ≤ f - (f.floor : Rat) ∧ f - (f.floor : Rat) ≤ 1 := by
  rw [floor_eq]
  have h1 : (⌊f⌋ : Rat) ≤ f := Int.floor_le f
  have h2 : f < (⌊f⌋ : Rat) + 1 := Int.lt_floor_add_one f
  constructor <;> linarith

theorem bilinear_bounds (im : Image) (fx fy lo hi : Rat) (hlo : ∀ x y, lo ≤ im.at x y)
    (hhi : ∀ x y, im.at x y ≤ hi) : lo ≤ bilinear im fx fy ∧ bilinear im fx fy ≤ hi := by
  unfold bilinear
  obtain ⟨hx0, hx1⟩ := frac_bounds fx
  obtain ⟨hy0, hy1⟩ := frac_bounds fy
  exact convex4 _ _ _ _ _ _ lo hi hx0 hx1 hy0 hy1 (hlo _ _) (hlo _ _) (hlo _ _) (hlo _ _)
    (hhi _ _) (hhi _ _) (hhi _ _) (hhi _ _)

/-! ### fast path = general path -/

theorem sub_at (im : Image) (xmin ymin xmax ymax X Y : Int)
    (hX : xmin ≤ X ∧ X ≤ xmax) (hY : ymin ≤ Y ∧ Y ≤ ymax) :
    (subImage im xmin ymin xmax ymax).at (X - xmin) (Y - ymin) = im.at X Y := by
  unfold subImage
  simp only [Image.at]
  rw [if_pos (by omega)]
  simp only [Int.sub_add_cancel]

theorem floor_sub_int (f : Rat) (z : Int) : (f - (z : Rat)).floor = f.floor - z := by
  rw [floor_eq, floor_eq]; exact Int.floor_sub_intCast f z

theorem floor_range (f : Rat) (lo hi : Int) (h : (lo : Rat) ≤ f ∧ f ≤ hi) :
    lo ≤ f.floor ∧ f.floor ≤ hi ∧ (f.floor < hi ∨ f - (f.floor : Rat) = 0) := by
  rw [floor_eq]
  have h1 : (⌊f⌋ : Rat) ≤ f := Int.floor_le f
  have hlo : lo ≤ ⌊f⌋ := Int.le_floor.mpr h.1
  have hhi : ⌊f⌋ ≤ hi := by
    have : ((⌊f⌋ : Int) : Rat) ≤ (hi : Rat) := le_trans h1 h.2
    exact_mod_cast this
  refine ⟨hlo, hhi, ?_⟩
  rcases lt_or_eq_of_le hhi with hlt | heq
  · exact Or.inl hlt
  · right
    have : (hi : Rat) ≤ f := by rw [← heq]; exact h1
    rw [heq]; linarith [h.2]

theorem bil_core (im : Image) (xmin ymin xmax ymax x0 y0 : Int) (ax ay : Rat)
    (hx : xmin ≤ x0 ∧ x0 ≤ xmax) (hy : ymin ≤ y0 ∧ y0 ≤ ymax)
    (bx : x0 < xmax ∨ ax = 0) (by' : y0 < ymax ∨ ay = 0) :
    (1 - ax) * (1 - ay) * (subImage im xmin ymin xmax ymax).at (x0 - xmin) (y0 - ymin) +
      ax * (1 - ay) * (subImage im xmin ymin xmax ymax).at (x0 - xmin + 1) (y0 - ymin) +
      (1 - ax) * ay * (subImage im xmin ymin xmax ymax).at (x0 - xmin) (y0 - ymin + 1) +
      ax * ay * (subImage im xmin ymin xmax ymax).at (x0 - xmin + 1) (y0 - ymin + 1) =
    (1 - ax) * (1 - ay) * im.at x0 y0 + ax * (1 - ay) * im.at (x0 + 1) y0 +
      (1 - ax) * ay * im.at x0 (y0 + 1) + ax * ay * im.at (x0 + 1) (y0 + 1) := by
  have ex : x0 - xmin + 1 = (x0 + 1) - xmin := by omega
  have ey : y0 - ymin + 1 = (y0 + 1) - ymin := by omega
  rw [ex, ey, sub_at im xmin ymin xmax ymax x0 y0 hx hy]
  rcases bx with bx | bx <;> rcases by' with by' | by'
  · rw [sub_at im xmin ymin xmax ymax (x0 + 1) y0 (by omega) hy,
      sub_at im xmin ymin xmax ymax x0 (y0 + 1) hx (by omega),
      sub_at im xmin ymin xmax ymax (x0 + 1) (y0 + 1) (by omega) (by omega)]
  · rw [sub_at im xmin ymin xmax ymax (x0 + 1) y0 (by omega) hy, by']
    simp only [mul_zero, zero_mul, add_zero]
  · rw [sub_at im xmin ymin xmax ymax x0 (y0 + 1) hx (by omega), bx]
    simp only [zero_mul, add_zero]
  · rw [bx, by']
    simp only [mul_zero, zero_mul, add_zero]

theorem fast_eq (im : Image) (xmin ymin xmax ymax : Int) (fx fy : Rat)
    (hx : (xmin : Rat) ≤ fx ∧ fx ≤ xmax) (hy : (ymin : Rat) ≤ fy ∧ fy ≤ ymax) :
    fastSample im xmin ymin xmax ymax fx fy = bilinear im fx fy := by
  unfold fastSample
  split
  · rfl
  · obtain ⟨hx1, hx2, hx3⟩ := floor_range fx xmin xmax hx
    obtain ⟨hy1, hy2, hy3⟩ := floor_range fy ymin ymax hy
    unfold bilinear
    simp only [floor_sub_int]
    have e1 : fx - (xmin : Rat) - ((fx.floor - xmin : Int) : Rat) = fx - (fx.floor : Rat) := by
      push_cast; ring
    have e2 : fy - (ymin : Rat) - ((fy.floor - ymin : Int) : Rat) = fy - (fy.floor : Rat) := by
      push_cast; ring
    rw [e1, e2]
    exact bil_core im xmin ymin xmax ymax fx.floor fy.floor _ _ ⟨hx1, hx2⟩ ⟨hy1, hy2⟩ hx3 hy3

/-! ### cubic domain -/

theorem cubicEvalMax_witness : cubicEvalMax (2395 / 100) = 241 / 10 := by
  decide +kernel

/-! ### `reverse_line_mapping` -/

theorem pyGet_zero (xs : List Rat) : pyGet xs 0 = xs.head? := by
  simp [pyGet, List.head?_eq_getElem?]

theorem pyGet_neg_one (xs : List Rat) (h : xs ≠ []) : pyGet xs (-1) = xs.getLast? := by
  have hp : 0 < xs.length := List.length_pos_iff.mpr h
  unfold pyGet
  rw [if_neg (by omega), if_pos (by omega), List.getLast?_eq_getElem?]
  congr 1
  omega

theorem advance_head_zero (F : List Rat) (t : Rat) (hF0 : F.head? = some 0) (ht : 0 ≤ t) (fuel : Nat) :
    advance F t (fuel + 1) 0 = some 0 := by
  rw [List.head?_eq_getElem?] at hF0
  simp [advance, hF0, not_lt.mpr ht]

theorem chord_algebra (t L x0 xl : Rat) (hL : L ≠ 0) :
    (1 - (t - L) / (0 - L)) * xl + (t - L) / (0 - L) * x0 = x0 + t / L * (xl - x0) := by
  field_simp
  ring

theorem reverseStep_chord (F X : List Rat) (L x0 xl t : Rat) (hF0 : F.head? = some 0)
    (hFl : F.getLast? = some L) (hx0 : X.head? = some x0) (hxl : X.getLast? = some xl)
    (hL : L ≠ 0) (ht : 0 ≤ t) :
    reverseStep F X 0 t = some (0, x0 + t / L * (xl - x0)) := by
  have hFne : F ≠ [] := by intro h; simp [h] at hF0
  have hXne : X ≠ [] := by intro h; simp [h] at hx0
  unfold reverseStep
  rw [advance_head_zero F t hF0 ht]
  simp only [Option.bind_eq_bind, Option.bind_some, Nat.cast_zero, Int.zero_sub]
  rw [pyGet_zero, pyGet_neg_one F hFne, pyGet_zero, pyGet_neg_one X hXne, hF0, hFl, hx0, hxl]
  simp only [Option.bind_some]
  rw [chord_algebra t L x0 xl hL]

theorem reverseGo_chord (F X : List Rat) (L x0 xl : Rat) (hF0 : F.head? = some 0)
    (hFl : F.getLast? = some L) (hx0 : X.head? = some x0) (hxl : X.getLast? = some xl)
    (hL : L ≠ 0) (ts : List Rat) (hts : ∀ t ∈ ts, 0 ≤ t) :
    reverseGo F X 0 ts = some (ts.map fun t => x0 + t / L * (xl - x0)) := by
  induction ts with
  | nil => rfl
  | cons t rest ih =>
    have ht : 0 ≤ t := hts t (by simp)
    have ih' := ih (fun u hu => hts u (by simp [hu]))
    simp only [reverseGo, reverseStep_chord F X L x0 xl t hF0 hFl hx0 hxl hL ht, ih', List.map_cons]


theorem reverse_chord (F' ts X : List Rat) (hF : F' ≠ []) (hlen : X.length = F'.length + 1)
    (hL : F'.getLast hF ≠ 0) (hts : ∀ t ∈ ts, 0 ≤ t) :
    ∃ x0 xl, X.head? = some x0 ∧ X.getLast? = some xl ∧
      reverseLineMapping (0 :: F') ts X = some (ts.map fun t => x0 + t / (F'.getLast hF) * (xl - x0)) := by
  have hX : X ≠ [] := by intro h; simp [h] at hlen
  refine ⟨X.head hX, X.getLast hX, List.head?_eq_some_head hX, List.getLast?_eq_some_getLast hX, ?_⟩
  unfold reverseLineMapping
  refine reverseGo_chord (0 :: F') X _ _ _ rfl ?_ (List.head?_eq_some_head hX) (List.getLast?_eq_some_getLast hX) hL ts hts
  rw [List.getLast?_cons_of_ne_nil hF, List.getLast?_eq_some_getLast hF]

/-! ### the grid of a straight baseline -/

theorem linspace_length' (a b : Rat) (n : Nat) : (linspace a b n).length = n := by
  unfold linspace
  split
  · simp [*]
  · split <;> simp [*]

theorem linspace_nonneg (L : Rat) (hL : 0 ≤ L) (n : Nat) : ∀ t ∈ linspace 0 L n, 0 ≤ t := by
  intro t ht
  unfold linspace at ht
  split at ht
  · simp at ht
  · split at ht
    · simp at ht; rw [ht]
    · rename_i h0 h1
      simp only [List.mem_map, List.mem_range] at ht
      obtain ⟨i, _, rfl⟩ := ht
      have hn : (2 : Rat) ≤ (n : Rat) := by exact_mod_cast (show 2 ≤ n by omega)
      have hi : (0 : Rat) ≤ (i : Rat) := Nat.cast_nonneg i
      have : 0 ≤ (L - 0) * (i : Rat) / ((n : Rat) - 1) :=
        div_nonneg (mul_nonneg (by linarith) hi) (by linarith)
      linarith

theorem range_cast_head (n : Nat) (hn : 1 ≤ n) :
    ((List.range n).map fun (i : Nat) => ((i : Nat) : Rat)).head? = some 0 := by
  rw [List.head?_eq_getElem?]
  simp [show 0 < n by omega]

theorem range_cast_last (n : Nat) (hn : 1 ≤ n) :
    ((List.range n).map fun (i : Nat) => ((i : Nat) : Rat)).getLast? = some ((n : Rat) - 1) := by
  rw [List.getLast?_eq_getElem?]
  simp [show n - 1 < n by omega]
  rw [Nat.cast_sub hn]; simp

theorem range_shift_head (left : Rat) (n : Nat) (hn : 1 ≤ n) :
    ((List.range n).map fun (i : Nat) => left + ((i : Nat) : Rat)).head? = some left := by
  rw [List.head?_eq_getElem?]
  simp [show 0 < n by omega]

theorem range_shift_last (left : Rat) (n : Nat) (hn : 1 ≤ n) :
    ((List.range n).map fun (i : Nat) => left + ((i : Nat) : Rat)).getLast? = some (left + ((n : Rat) - 1)) := by
  rw [List.getLast?_eq_getElem?]
  simp [show n - 1 < n by omega]
  rw [Nat.cast_sub hn]; simp

/-- closed form of the straight grid -/
theorem straightGrid_eq (R : Rot) (left y0 : Rat) (n : Nat) (h0 h1 : Rat) (H : Nat) (hn : 2 ≤ n) :
    straightGrid R left y0 n h0 h1 H =
      some ((linspace (-h0) h1 H).map fun v =>
        ((linspace 0 ((n : Rat) - 1)
            ((((n : Nat) : Rat) - 1) * ((H : Nat) : Rat) / (h0 + h1)).floor.toNat).map fun t => left + t).map
          fun x => R.apply (x, y0 + v)) := by
  have hne := natCast_sub_one_ne n hn
  have hLnn : (0 : Rat) ≤ (n : Rat) - 1 := by
    have : (2 : Rat) ≤ (n : Rat) := by exact_mod_cast hn
    linarith
  unfold straightGrid reverseLineMapping
  simp only
  rw [reverseGo_chord _ _ ((n : Rat) - 1) left (left + ((n : Rat) - 1))
    (range_cast_head n (by omega)) (range_cast_last n (by omega))
    (range_shift_head left n (by omega)) (range_shift_last left n (by omega)) hne _
    (linspace_nonneg _ hLnn _)]
  simp only
  congr 2
  funext v
  congr 1
  apply List.map_congr_left
  intro t _
  field_simp
  ring


theorem straightGrid_shape (R : Rot) (left y0 : Rat) (n : Nat) (h0 h1 : Rat) (H : Nat) (hn : 2 ≤ n) :
    ∃ g, straightGrid R left y0 n h0 h1 H = some g ∧ g.length = H ∧
      ∀ row ∈ g, row.length =
        ((((n : Nat) : Rat) - 1) * ((H : Nat) : Rat) / (h0 + h1)).floor.toNat := by
  refine ⟨_, straightGrid_eq R left y0 n h0 h1 H hn, ?_, ?_⟩
  · rw [List.length_map, linspace_length']
  · intro row hrow
    simp only [List.mem_map] at hrow
    obtain ⟨v, _, rfl⟩ := hrow
    rw [List.length_map, List.length_map, linspace_length']

theorem straightGrid_entry (R : Rot) (left y0 : Rat) (n : Nat) (h0 h1 : Rat) (H : Nat) (hn : 2 ≤ n)
    (hH : 2 ≤ H) (count : Nat)
    (hcount : count = ((((n : Nat) : Rat) - 1) * ((H : Nat) : Rat) / (h0 + h1)).floor.toNat)
    (hc : 2 ≤ count) (g : List (List (Rat × Rat)))
    (hg : straightGrid R left y0 n h0 h1 H = some g) (r c : Nat) (hr : r < H) (hcc : c < count) :
    (g[r]?.bind fun row => row[c]?) =
      some (R.apply (left + (((n : Nat) : Rat) - 1) * ((c : Nat) : Rat) / (((count : Nat) : Rat) - 1),
                     y0 + (-h0 + (h1 - -h0) * ((r : Nat) : Rat) / (((H : Nat) : Rat) - 1)))) := by
  rw [straightGrid_eq R left y0 n h0 h1 H hn, ← hcount] at hg
  injection hg with hg
  subst hg
  rw [List.getElem?_map, linspace_get (-h0) h1 H hH r hr]
  simp only [Option.map_some, Option.bind_some]
  rw [List.getElem?_map, List.getElem?_map, linspace_get 0 _ count hc c hcc]
  simp only [Option.map_some, sub_zero, zero_add]


/-! ### the rotation back to page coordinates -/

theorem rot_iso (R : Rot) (h : R.c * R.c + R.s * R.s = 1) (p q : Rat × Rat) :
    ((R.apply p).1 - (R.apply q).1) * ((R.apply p).1 - (R.apply q).1) +
      ((R.apply p).2 - (R.apply q).2) * ((R.apply p).2 - (R.apply q).2) =
    (p.1 - q.1) * (p.1 - q.1) + (p.2 - q.2) * (p.2 - q.2) := by
  simp only [Rot.apply]
  have e : (p.1 * R.c - p.2 * R.s - (q.1 * R.c - q.2 * R.s)) * (p.1 * R.c - p.2 * R.s - (q.1 * R.c - q.2 * R.s)) +
      (p.1 * R.s + p.2 * R.c - (q.1 * R.s + q.2 * R.c)) * (p.1 * R.s + p.2 * R.c - (q.1 * R.s + q.2 * R.c)) =
      ((p.1 - q.1) * (p.1 - q.1) + (p.2 - q.2) * (p.2 - q.2)) * (R.c * R.c + R.s * R.s) := by ring
  rw [e, h, mul_one]

theorem rot_perp (R : Rot) (x y dx dy : Rat) :
    ((R.apply (x + dx, y)).1 - (R.apply (x, y)).1) * ((R.apply (x, y + dy)).1 - (R.apply (x, y)).1) +
      ((R.apply (x + dx, y)).2 - (R.apply (x, y)).2) * ((R.apply (x, y + dy)).2 - (R.apply (x, y)).2) = 0 := by
  simp only [Rot.apply]
  ring

end Crop
