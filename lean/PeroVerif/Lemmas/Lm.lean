-- helper lemmas for C03
import Mathlib.Algebra.Order.Field.Basic
import Mathlib.Algebra.BigOperators.Group.List.Basic
import Mathlib.Algebra.Order.BigOperators.Group.List
import Mathlib.Algebra.BigOperators.Ring.List
import PeroVerif.Spec.CtcMass
import PeroVerif.Spec.Lm
import PeroVerif.Model.Bag

namespace LmL
open PB

/-! ### LM score / state along a prefix -/

section Score
variable {R : Type} [CommSemiring R] [LinearOrder R] {H : Type}

omit [CommSemiring R] [LinearOrder R] in
theorem lmState_snoc (lm : LM H R) (h0 : H) (ℓ : List ℕ) (c : ℕ) :
    lmState lm h0 (ℓ ++ [c]) = lm.adv (lmState lm h0 ℓ) c := by
  simp [lmState, List.foldl_append]

theorem lmScore_snoc (lm : LM H R) (h0 : H) (ℓ : List ℕ) (c : ℕ) :
    lmScore (Ops.of R) lm h0 (ℓ ++ [c]) =
      lmScore (Ops.of R) lm h0 ℓ * lm.prob (lmState lm h0 ℓ) c := by
  induction ℓ generalizing h0 with
  | nil => simp [lmScore, lmState, Ops.of]
  | cons a r ih =>
    have := ih (lm.adv h0 a)
    simp only [lmScore, lmState, List.cons_append, List.foldl_cons, Ops.of] at this ⊢
    rw [this, mul_assoc]

/-- the invariant of `plm_is_lm_score` -/
def Inv (lm : LM H R) (h0 : H) (e : Entry H R) : Prop :=
  e.h = lmState lm h0 e.pre ∧ e.plm = lmScore (Ops.of R) lm h0 e.pre

theorem inv_init (lm : LM H R) (h0 : H) : ∀ e ∈ init (Ops.of R) h0, Inv lm h0 e := by
  intro e he
  simp only [init, List.mem_singleton] at he
  subst he
  simp [Inv, lmState, lmScore]

theorem inv_candidates (lm : LM H R) (h0 : H) (S : List ℕ) (beam : List (Entry H R)) (row : List R)
    (hb : ∀ e ∈ beam, Inv lm h0 e) :
    ∀ e ∈ candidates (Ops.of R) lm S beam row, Inv lm h0 e := by
  intro e he
  simp only [candidates, List.mem_flatMap, List.mem_append, List.mem_map, List.mem_singleton] at he
  obtain ⟨b, hbm, he⟩ := he
  obtain ⟨hh, hp⟩ := hb b hbm
  rcases he with ⟨c, _, rfl⟩ | rfl
  · refine ⟨?_, ?_⟩
    · simp only [lmState_snoc, hh]
    · simp only [lmScore_snoc, hp, hh]
      rfl
  · exact ⟨hh, hp⟩

theorem inv_step (lm : LM H R) (h0 : H) (sel : R → Bool) (k : ℕ)
    (choose : ℕ → List (Entry H R) → List (Entry H R))
    (hs : ∀ k l, ∀ e ∈ choose k l, e ∈ l)
    (beam : List (Entry H R)) (row : List R)
    (hb : ∀ e ∈ beam, Inv lm h0 e) :
    ∀ e ∈ step (Ops.of R) lm sel k choose beam row, Inv lm h0 e := by
  intro e he
  unfold step at he
  simp only at he
  split at he
  · simp only [List.mem_map] at he
    obtain ⟨b, hbm, rfl⟩ := he
    exact hb b hbm
  · have h1 := hs _ _ e he
    exact inv_candidates lm h0 _ beam row hb e (List.mem_filter.mp h1).1

theorem inv_foldl (lm : LM H R) (h0 : H) (sel : R → Bool) (k : ℕ)
    (choose : ℕ → List (Entry H R) → List (Entry H R))
    (hs : ∀ k l, ∀ e ∈ choose k l, e ∈ l) (M : List (List R))
    (beam : List (Entry H R)) (hb : ∀ e ∈ beam, Inv lm h0 e) :
    ∀ e ∈ M.foldl (step (Ops.of R) lm sel k choose) beam, Inv lm h0 e := by
  induction M generalizing beam with
  | nil => simpa using hb
  | cons row M ih =>
    simp only [List.foldl_cons]
    exact ih _ (inv_step lm h0 sel k choose hs beam row hb)

end Score

/-! ### `argmaxIdx` -/

section Argmax
variable {R : Type} [LinearOrder R]

/-- loop invariant of `Bag.argmaxIdx.go` with `lt a b = decide (a < b)` -/
theorem go_spec (l : List R) (ys : List R) (best : R) (bi i : ℕ)
    (hd : l.drop i = ys) (hbi : bi < i) (hi : i ≤ l.length)
    (hbest : l[bi]? = some best)
    (hle : ∀ j x, j < i → l[j]? = some x → x ≤ best)
    (hlt : ∀ j x, j < bi → l[j]? = some x → x < best) :
    ∃ m, l[Bag.argmaxIdx.go (fun a b => decide (a < b)) best bi i ys]? = some m ∧
      (∀ (j : ℕ) x, l[j]? = some x → x ≤ m) ∧
      (∀ j x, j < Bag.argmaxIdx.go (fun a b => decide (a < b)) best bi i ys →
        l[j]? = some x → x < m) := by
  induction ys generalizing best bi i with
  | nil =>
    have hlen : l.length ≤ i := by
      have := congrArg List.length hd
      simp at this; omega
    refine ⟨best, by simpa [Bag.argmaxIdx.go] using hbest, ?_, ?_⟩
    · intro j x hx
      have hj : j < l.length := by
        by_contra hc
        rw [List.getElem?_eq_none (by omega)] at hx
        cases hx
      exact hle j x (by omega) hx
    · intro j x hj hx
      simp only [Bag.argmaxIdx.go] at hj
      exact hlt j x hj hx
  | cons y ys ih =>
    have hil : i < l.length := by
      have := congrArg List.length hd
      simp at this; omega
    have hy : l[i]? = some y := by
      have := congrArg (·[0]?) hd
      simpa using this
    have hd' : l.drop (i + 1) = ys := by
      have := congrArg List.tail hd
      simpa using this
    simp only [Bag.argmaxIdx.go]
    by_cases hc : best < y
    · simp only [hc, decide_true, if_true]
      refine ih y i (i + 1) hd' (by omega) (by omega) hy ?_ ?_
      · intro j x hj hx
        rcases Nat.lt_succ_iff_lt_or_eq.mp hj with h | h
        · exact le_of_lt (lt_of_le_of_lt (hle j x h hx) hc)
        · subst h; rw [hy] at hx; cases hx; exact le_rfl
      · intro j x hj hx
        exact lt_of_le_of_lt (hle j x hj hx) hc
    · simp only [hc, decide_false, Bool.false_eq_true, if_false]
      refine ih best bi (i + 1) hd' (by omega) (by omega) hbest ?_ hlt
      intro j x hj hx
      rcases Nat.lt_succ_iff_lt_or_eq.mp hj with h | h
      · exact hle j x h hx
      · subst h; rw [hy] at hx; cases hx; exact not_lt.mp hc

theorem argmaxIdx_some (ks : List R) (i : ℕ)
    (h : Bag.argmaxIdx (fun a b => decide (a < b)) ks = some i) :
    ∃ m, ks[i]? = some m ∧ (∀ (j : ℕ) x, ks[j]? = some x → x ≤ m) ∧
      (∀ j x, j < i → ks[j]? = some x → x < m) := by
  cases ks with
  | nil => simp [Bag.argmaxIdx] at h
  | cons x xs =>
    simp only [Bag.argmaxIdx, Option.some.injEq] at h
    subst h
    refine go_spec (x :: xs) xs x 0 1 (by simp) (by omega) (by simp) (by simp) ?_ ?_
    · intro j y hj hy
      have : j = 0 := by omega
      subst this
      simp at hy; subst hy; exact le_rfl
    · intro j y hj; omega

omit [LinearOrder R] in
theorem argmaxIdx_eq_none (lt : R → R → Bool) (ks : List R) :
    Bag.argmaxIdx lt ks = none ↔ ks = [] := by
  cases ks <;> simp [Bag.argmaxIdx]

/-- the first arg-max is invariant under maps that preserve the comparison -/
theorem go_map {A B : Type} (ltA : A → A → Bool) (ltB : B → B → Bool) (f : A → B)
    (hf : ∀ a b, ltB (f a) (f b) = ltA a b) (ys : List A) (best : A) (bi i : ℕ) :
    Bag.argmaxIdx.go ltB (f best) bi i (ys.map f) = Bag.argmaxIdx.go ltA best bi i ys := by
  induction ys generalizing best bi i with
  | nil => simp [Bag.argmaxIdx.go]
  | cons y ys ih =>
    simp only [List.map_cons, Bag.argmaxIdx.go, hf]
    split
    · exact ih _ _ _
    · exact ih _ _ _

theorem argmaxIdx_map {A B : Type} (ltA : A → A → Bool) (ltB : B → B → Bool) (f : A → B)
    (hf : ∀ a b, ltB (f a) (f b) = ltA a b) (l : List A) :
    Bag.argmaxIdx ltB (l.map f) = Bag.argmaxIdx ltA l := by
  cases l with
  | nil => simp [Bag.argmaxIdx]
  | cons x xs => simp only [List.map_cons, Bag.argmaxIdx, go_map ltA ltB f hf]

/-- a unique strict maximiser of `key` is what the first arg-max returns, in any order -/
theorem argmax_unique {α : Type} (l : List α) (key : α → R) (a : α) (ha : a ∈ l)
    (hmax : ∀ b ∈ l, b ≠ a → key b < key a) :
    (Bag.argmaxIdx (fun a b => decide (a < b)) (l.map key)).bind (l[·]?) = some a := by
  cases hr : Bag.argmaxIdx (fun a b => decide (a < b)) (l.map key) with
  | none =>
    rw [argmaxIdx_eq_none] at hr
    simp at hr; subst hr; simp at ha
  | some i =>
    obtain ⟨m, hm, hle, -⟩ := argmaxIdx_some _ _ hr
    simp only [Option.bind_some]
    rw [List.getElem?_map] at hm
    cases hli : l[i]? with
    | none => rw [hli] at hm; simp at hm
    | some b =>
      rw [hli] at hm
      simp only [Option.map_some, Option.some.injEq] at hm
      by_cases hba : b = a
      · rw [hba]
      · exfalso
        have hbl : b ∈ l := List.mem_of_getElem? hli
        have h1 := hmax b hbl hba
        obtain ⟨j, hj, hja⟩ := List.getElem_of_mem ha
        have h2 := hle j (key a) (by rw [List.getElem?_map, List.getElem?_eq_getElem hj, hja]; rfl)
        rw [← hm] at h2
        exact absurd h1 (not_lt.mpr h2)

end Argmax

/-! ### LM scale 0: forgetting the LM fields commutes with the search -/

section Strip
variable {R : Type} [CommSemiring R] [LinearOrder R] {H : Type}

/-- forget the LM fields (the LM-free search carries `plm = 1`, `h = ()`) -/
def strip (e : Entry H R) : Entry Unit R :=
  { pre := e.pre, last := e.last, pb := e.pb, pnb := e.pnb, plm := 1, h := () }

theorem extJ_strip (S : List ℕ) (beam : List (Entry H R)) (row : List R) (e : Entry H R) (c : ℕ) :
    extJ (Ops.of R) S (beam.map strip) row (strip e) c = extJ (Ops.of R) S beam row e c := by
  unfold extJ
  rw [List.any_map]
  rfl

theorem stayPnb_strip (S : List ℕ) (beam : List (Entry H R)) (row : List R) (q : Entry H R) :
    stayPnb (Ops.of R) S (beam.map strip) row (strip q) = stayPnb (Ops.of R) S beam row q := by
  unfold stayPnb
  rw [List.find?_map]
  have hfun : ((fun e : Entry Unit R => e.pre == (strip q).pre.dropLast) ∘ (strip : Entry H R → _)) =
      (fun e : Entry H R => e.pre == q.pre.dropLast) := rfl
  rw [hfun]
  cases List.find? (fun e : Entry H R => e.pre == q.pre.dropLast) beam with
  | none => rfl
  | some e => rfl

theorem candidates_strip (lm : LM H R) (S : List ℕ) (beam : List (Entry H R)) (row : List R) :
    candidates (Ops.of R) (trivialLM (Ops.of R)) S (beam.map strip) row =
      (candidates (Ops.of R) lm S beam row).map strip := by
  unfold candidates
  rw [List.flatMap_map, List.map_flatMap]
  congr 1
  funext e
  simp only [List.map_append, List.map_map, List.map_cons, List.map_nil]
  congr 1
  · apply List.map_congr_left
    intro c _
    have h1 := extJ_strip S beam row e c
    simp only [Function.comp, strip, trivialLM] at h1 ⊢
    have : (Ops.of R).mul 1 (Ops.of R).one = (1 : R) := by simp [Ops.of]
    rw [h1, this]
  · simp only [stayPnb_strip]
    rfl

theorem topK_strip (k : ℕ) (l : List (Entry H R)) :
    topK (Ops.of R) (fusedKey (Ops.of R) 0 1) k (l.map strip) =
      (topK (Ops.of R) (fusedKey (Ops.of R) 0 1) k l).map strip := by
  unfold topK
  rw [List.map_take]
  congr 1
  symm
  apply List.map_mergeSort
  intro a _ b _
  rfl

theorem step_strip (lm : LM H R) (sel : R → Bool) (k : ℕ) (beam : List (Entry H R)) (row : List R) :
    step (Ops.of R) (trivialLM (Ops.of R)) sel k (topK (Ops.of R) (fusedKey (Ops.of R) 0 1))
        (beam.map strip) row =
      (step (Ops.of R) lm sel k (topK (Ops.of R) (fusedKey (Ops.of R) 0 1)) beam row).map strip := by
  unfold step
  simp only
  split
  · simp only [List.map_map]
    apply List.map_congr_left
    intro e _
    rfl
  · rw [candidates_strip lm, List.filter_map, ← topK_strip, List.length_map]
    rfl

theorem foldl_strip (lm : LM H R) (sel : R → Bool) (k : ℕ) (M : List (List R))
    (beam : List (Entry H R)) :
    M.foldl (step (Ops.of R) (trivialLM (Ops.of R)) sel k
        (topK (Ops.of R) (fusedKey (Ops.of R) 0 1))) (beam.map strip) =
      (M.foldl (step (Ops.of R) lm sel k (topK (Ops.of R) (fusedKey (Ops.of R) 0 1))) beam).map
        strip := by
  induction M generalizing beam with
  | nil => rfl
  | cons row M ih => rw [List.foldl_cons, List.foldl_cons, step_strip lm, ih]

end Strip

/-! ### normalising positive totals -/

section Field
variable {R : Type} [Field R] [LinearOrder R] [IsStrictOrderedRing R]

omit [LinearOrder R] [IsStrictOrderedRing R] in
theorem foldl_add_eq (a : R) (ts : List R) : ts.foldl (· + ·) a = a + ts.sum := by
  induction ts generalizing a with
  | nil => simp
  | cons t ts ih => simp only [List.foldl_cons, List.sum_cons, ih, add_assoc]

omit [LinearOrder R] [IsStrictOrderedRing R] in
theorem foldl_add_zero (ts : List R) : ts.foldl (· + ·) 0 = ts.sum := by
  rw [foldl_add_eq, zero_add]

theorem sum_pos_of_pos (ts : List R) (hpos : ∀ t ∈ ts, 0 < t) (hne : ts ≠ []) : 0 < ts.sum :=
  List.sum_pos ts hpos hne

theorem norm_sum_one (ts : List R) (hpos : ∀ t ∈ ts, 0 < t) (hne : ts ≠ []) :
    (ts.map fun t => t / ts.sum).sum = 1 := by
  have hS := sum_pos_of_pos ts hpos hne
  simp only [div_eq_mul_inv]
  rw [List.sum_map_mul_right, List.map_id']
  exact mul_inv_cancel₀ (ne_of_gt hS)

theorem norm_range (ts : List R) (hpos : ∀ t ∈ ts, 0 < t) :
    ∀ p ∈ ts.map (fun t => t / ts.sum), 0 < p ∧ p ≤ 1 := by
  intro p hp
  obtain ⟨t, ht, rfl⟩ := List.mem_map.mp hp
  have hne : ts ≠ [] := List.ne_nil_of_mem ht
  have hS := sum_pos_of_pos ts hpos hne
  have hle : t ≤ ts.sum := List.single_le_sum (fun x hx => le_of_lt (hpos x hx)) t ht
  exact ⟨div_pos (hpos t ht) hS, (div_le_one hS).mpr hle⟩

theorem argmax_norm (ts : List R) (hpos : ∀ t ∈ ts, 0 < t) :
    Bag.argmaxIdx (fun a b => decide (a < b)) (ts.map fun t => t / ts.sum) =
      Bag.argmaxIdx (fun a b => decide (a < b)) ts := by
  by_cases hne : ts = []
  · subst hne; rfl
  · have hS := sum_pos_of_pos ts hpos hne
    apply argmaxIdx_map
    intro a b
    simp only [div_lt_div_iff_of_pos_right hS]

end Field

end LmL
