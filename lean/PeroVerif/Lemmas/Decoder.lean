/-
Helper lemmas for the functional decoder model (C20).  Statements used by Props/C20.lean.
-/
import PeroVerif.Model.Decoder

namespace Dec
variable {V M K KM : Type}

/-! ### list facts -/

theorem take_set_succ {α : Type} (l : List α) (n : Nat) (a : α) (h : n < l.length) :
    (l.set n a).take (n + 1) = l.take n ++ [a] := by
  induction l generalizing n with
  | nil => simp at h
  | cons b r ih =>
    cases n with
    | zero => simp
    | succ n =>
      have h' : n < r.length := by simpa using h
      simp [ih n h']

theorem getLast?_take_succ {α : Type} (l : List α) (n : Nat) (h : n < l.length) :
    (l.take (n + 1)).getLast? = some l[n] := by
  induction l generalizing n with
  | nil => simp at h
  | cons b r ih =>
    cases n with
    | zero => simp
    | succ n =>
      have h' : n < r.length := by simpa using h
      have := ih n h'
      rw [List.take_succ_cons, List.getLast?_cons, this]
      simp

/-! ### the full pass -/

theorem fullLayerAux_length (f : LayerFn V M K KM) (km : KM) (seen ys : List V) :
    (fullLayerAux f km seen ys).length = ys.length := by
  induction ys generalizing seen with
  | nil => rfl
  | cons y r ih => simp [fullLayerAux, ih]

theorem fullLayerAux_take (f : LayerFn V M K KM) (km : KM) (seen ys : List V) (n : Nat) :
    fullLayerAux f km seen (ys.take n) = (fullLayerAux f km seen ys).take n := by
  induction ys generalizing seen n with
  | nil => simp [fullLayerAux]
  | cons y r ih =>
    cases n with
    | zero => simp [fullLayerAux]
    | succ n => simp [fullLayerAux, ih]

theorem fullLayerAux_concat (f : LayerFn V M K KM) (km : KM) (seen ys : List V) (y : V) :
    fullLayerAux f km seen (ys ++ [y]) =
      fullLayerAux f km seen ys ++ [f.pos y ((seen ++ ys ++ [y]).map f.projKV) km] := by
  induction ys generalizing seen with
  | nil => simp [fullLayerAux]
  | cons a r ih => simp [fullLayerAux, ih]

theorem fullLayer_length (f : LayerFn V M K KM) (mem : M) (ys : List V) :
    (fullLayer f mem ys).length = ys.length :=
  fullLayerAux_length f _ [] ys

theorem fullLayer_take (f : LayerFn V M K KM) (mem : M) (ys : List V) (n : Nat) :
    fullLayer f mem (ys.take n) = (fullLayer f mem ys).take n :=
  fullLayerAux_take f _ [] ys n

theorem fullLayer_concat (f : LayerFn V M K KM) (mem : M) (ys : List V) (y : V) :
    fullLayer f mem (ys ++ [y]) =
      fullLayer f mem ys ++ [f.pos y ((ys ++ [y]).map f.projKV) (f.projMem mem)] := by
  have := fullLayerAux_concat f (f.projMem mem) [] ys y
  simpa [fullLayer] using this

theorem fullDecoder_nil (mem : M) (xs : List V) :
    fullDecoder ([] : List (LayerFn V M K KM)) mem xs = xs := rfl

theorem fullDecoder_cons (f : LayerFn V M K KM) (fs : List (LayerFn V M K KM)) (mem : M) (xs : List V) :
    fullDecoder (f :: fs) mem xs = fullDecoder fs mem (fullLayer f mem xs) := rfl

theorem fullDecoder_length (fs : List (LayerFn V M K KM)) (mem : M) (xs : List V) :
    (fullDecoder fs mem xs).length = xs.length := by
  induction fs generalizing xs with
  | nil => rfl
  | cons f fs ih => rw [fullDecoder_cons, ih, fullLayer_length]

theorem fullDecoder_take_aux (fs : List (LayerFn V M K KM)) (mem : M) (xs : List V) (n : Nat) :
    fullDecoder fs mem (xs.take n) = (fullDecoder fs mem xs).take n := by
  induction fs generalizing xs with
  | nil => rfl
  | cons f fs ih => rw [fullDecoder_cons, fullDecoder_cons, fullLayer_take, ih]

/-! ### one step -/

theorem decStep_cons (cached : Bool) (mem : M) (t : Nat) (f : LayerFn V M K KM) (fs : List (LayerFn V M K KM))
    (s : LState V K KM) (ss : List (LState V K KM)) (tgt : List V) :
    decStep cached mem t (f :: fs) (s :: ss) tgt =
      ((layerStep cached f mem t tgt s).1 :: (decStep cached mem t fs ss (layerStep cached f mem t tgt s).2).1,
        (decStep cached mem t fs ss (layerStep cached f mem t tgt s).2).2) := rfl

theorem runSteps_cons (cached : Bool) (fs : List (LayerFn V M K KM)) (mem : M) (done : List V) (x : V)
    (todo : List V) (ss : List (LState V K KM)) :
    runSteps cached fs mem done (x :: todo) ss =
      ((runSteps cached fs mem (done ++ [x]) todo (decStep cached mem done.length fs ss (done ++ [x])).1).1,
        (decStep cached mem done.length fs ss (done ++ [x])).2.getLast? ::
          (runSteps cached fs mem (done ++ [x]) todo (decStep cached mem done.length fs ss (done ++ [x])).1).2) := rfl

theorem layerStep_spec (cached : Bool) (f : LayerFn V M K KM) (mem : M) (s : LState V K KM) (inp : List V) (x : V)
    (t : Nat) (ht : t = inp.length) (hm : s.mem.take t = fullLayer f mem inp)
    (hc : cached = true → s.selfCache.take t = inp.map f.projKV ∧ (0 < t → s.crossKV = f.projMem mem))
    (h1 : t < s.selfCache.length) (h2 : t < s.mem.length) :
    (layerStep cached f mem t (inp ++ [x]) s).2 = fullLayer f mem (inp ++ [x]) ∧
    (layerStep cached f mem t (inp ++ [x]) s).1.mem.take (t + 1) = fullLayer f mem (inp ++ [x]) ∧
    (cached = true →
      (layerStep cached f mem t (inp ++ [x]) s).1.selfCache.take (t + 1) = (inp ++ [x]).map f.projKV ∧
      (layerStep cached f mem t (inp ++ [x]) s).1.crossKV = f.projMem mem) ∧
    (layerStep cached f mem t (inp ++ [x]) s).1.selfCache.length = s.selfCache.length ∧
    (layerStep cached f mem t (inp ++ [x]) s).1.mem.length = s.mem.length := by
  have hl : (inp ++ [x]).getLast? = some x := by simp
  cases cached with
  | false =>
    simp only [layerStep, hl, Bool.false_eq_true, if_false, false_implies, List.length_set, and_true]
    rw [take_set_succ _ _ _ h2, hm, fullLayer_concat]
    simp
  | true =>
    obtain ⟨hc1, hc2⟩ := hc rfl
    have hckv : (if t = 0 then f.projMem mem else s.crossKV) = f.projMem mem := by
      split
      · rfl
      · exact hc2 (by omega)
    simp only [layerStep, hl, if_true, List.length_set, and_true, true_implies, hckv]
    rw [take_set_succ _ _ _ h2, take_set_succ _ _ _ h1, hm, hc1, fullLayer_concat]
    simp

/-! ### the invariant -/

/-- state `ss` after the steps for the symbols `inp` (input of the lowest layer) -/
def Inv (cached : Bool) (mem : M) (room : Nat) :
    List (LayerFn V M K KM) → List (LState V K KM) → List V → Prop
  | [], [], _ => True
  | f :: fs, s :: ss, inp =>
      s.mem.take inp.length = fullLayer f mem inp ∧
      (cached = true → s.selfCache.take inp.length = inp.map f.projKV ∧
        (0 < inp.length → s.crossKV = f.projMem mem)) ∧
      room ≤ s.selfCache.length ∧ room ≤ s.mem.length ∧
      Inv cached mem room fs ss (fullLayer f mem inp)
  | _, _, _ => False

theorem Inv_init (cached : Bool) (mem : M) (room : Nat) (fs : List (LayerFn V M K KM))
    (ss : List (LState V K KM)) (hlen : ss.length = fs.length) (hroom : ∀ s ∈ ss, s.roomy room) :
    Inv cached mem room fs ss [] := by
  induction fs generalizing ss with
  | nil =>
    cases ss with
    | nil => simp [Inv]
    | cons s ss => simp at hlen
  | cons f fs ih =>
    cases ss with
    | nil => simp at hlen
    | cons s ss =>
      have hs := hroom s (by simp)
      have := ih ss (by simpa using hlen) (fun s' h' => hroom s' (by simp [h']))
      simp only [Inv, List.length_nil, List.take_zero, List.map_nil, true_and]
      refine ⟨rfl, ?_, hs.1, hs.2, this⟩
      intro _ h; omega

theorem Inv_forget (cached : Bool) (mem : M) (room : Nat) (fs : List (LayerFn V M K KM))
    (ss : List (LState V K KM)) (inp : List V) (h : Inv cached mem room fs ss inp) :
    ss.length = fs.length ∧ ∀ s ∈ ss, s.roomy room := by
  induction fs generalizing ss inp with
  | nil =>
    cases ss with
    | nil => simp
    | cons s ss => simp [Inv] at h
  | cons f fs ih =>
    cases ss with
    | nil => simp [Inv] at h
    | cons s ss =>
      simp only [Inv] at h
      obtain ⟨_, _, h3, h4, h5⟩ := h
      have := ih ss _ h5
      refine ⟨by simp [this.1], ?_⟩
      intro s' hs'
      rcases List.mem_cons.1 hs' with rfl | hs'
      · exact ⟨h3, h4⟩
      · exact this.2 s' hs'

theorem decStep_inv (cached : Bool) (mem : M) (room : Nat) (fs : List (LayerFn V M K KM))
    (ss : List (LState V K KM)) (inp : List V) (x : V) (t : Nat) (ht : t = inp.length)
    (h : Inv cached mem room fs ss inp) (hr : t < room) :
    Inv cached mem room fs (decStep cached mem t fs ss (inp ++ [x])).1 (inp ++ [x]) ∧
    (decStep cached mem t fs ss (inp ++ [x])).2 = fullDecoder fs mem (inp ++ [x]) := by
  induction fs generalizing ss inp x with
  | nil =>
    cases ss with
    | nil => simp [decStep, Inv, fullDecoder_nil]
    | cons s ss => simp [Inv] at h
  | cons f fs ih =>
    cases ss with
    | nil => simp [Inv] at h
    | cons s ss =>
      simp only [Inv] at h
      obtain ⟨hm, hc, h3, h4, h5⟩ := h
      subst ht
      obtain ⟨e1, e2, e3, e4, e5⟩ := layerStep_spec cached f mem s inp x inp.length rfl hm hc (by omega) (by omega)
      rw [decStep_cons, fullDecoder_cons]
      simp only [e1]
      rw [fullLayer_concat]
      have := ih ss (fullLayer f mem inp) (f.pos x ((inp ++ [x]).map f.projKV) (f.projMem mem))
        (by rw [fullLayer_length]) h5
      refine ⟨?_, this.2⟩
      simp only [Inv]
      rw [← fullLayer_concat]
      refine ⟨by simpa using e2, ?_, by omega, by omega, ?_⟩
      · intro hcd
        have := e3 hcd
        exact ⟨by simpa using this.1, fun _ => this.2⟩
      · rw [fullLayer_concat]; exact this.1

theorem runSteps_inv (cached : Bool) (mem : M) (room : Nat) (fs : List (LayerFn V M K KM))
    (done todo : List V) (ss : List (LState V K KM))
    (h : Inv cached mem room fs ss done) (hr : done.length + todo.length ≤ room) :
    Inv cached mem room fs (runSteps cached fs mem done todo ss).1 (done ++ todo) ∧
    (runSteps cached fs mem done todo ss).2 =
      ((fullDecoder fs mem (done ++ todo)).drop done.length).map some := by
  induction todo generalizing done ss with
  | nil =>
    have : (fullDecoder fs mem done).length = done.length := fullDecoder_length fs mem done
    simp [runSteps, h, ← this]
  | cons x todo ih =>
    have hstep := decStep_inv cached mem room fs ss done x done.length rfl h (by simp at hr; omega)
    have := ih (done ++ [x]) _ hstep.1 (by simp at hr ⊢; omega)
    rw [runSteps_cons]
    have happ : done ++ [x] ++ todo = done ++ x :: todo := by simp
    rw [happ] at this
    refine ⟨this.1, ?_⟩
    simp only
    rw [this.2, hstep.2]
    have hlen : (fullDecoder fs mem (done ++ x :: todo)).length = done.length + (todo.length + 1) := by
      rw [fullDecoder_length]; simp
    have hlt : done.length < (fullDecoder fs mem (done ++ x :: todo)).length := by omega
    have htake : done ++ [x] = (done ++ x :: todo).take (done.length + 1) := by
      rw [← happ, List.take_append_of_le_length (by simp)]
      have : (done ++ [x]).length = done.length + 1 := by simp
      rw [← this, List.take_length]
    have hd : (done ++ [x]).length = done.length + 1 := by simp
    rw [hd, htake, fullDecoder_take_aux, getLast?_take_succ _ _ hlt, List.drop_eq_getElem_cons hlt]
    rfl

/-! ### the statements used by Props/C20 -/

theorem runSteps_cached_eq_full (fs : List (LayerFn V M K KM)) (mem : M) (xs : List V) (ss : List (LState V K KM))
    (hlen : ss.length = fs.length) (hroom : ∀ s ∈ ss, s.roomy xs.length) :
    (runSteps true fs mem [] xs ss).2 = (fullDecoder fs mem xs).map some := by
  have := (runSteps_inv true mem xs.length fs [] xs ss (Inv_init true mem xs.length fs ss hlen hroom) (by simp)).2
  simpa using this

theorem runSteps_uncached_eq_full (fs : List (LayerFn V M K KM)) (mem : M) (xs : List V) (ss : List (LState V K KM))
    (hlen : ss.length = fs.length) (hroom : ∀ s ∈ ss, s.roomy xs.length) :
    (runSteps false fs mem [] xs ss).2 = (fullDecoder fs mem xs).map some := by
  have := (runSteps_inv false mem xs.length fs [] xs ss (Inv_init false mem xs.length fs ss hlen hroom) (by simp)).2
  simpa using this

theorem fullDecoder_take (fs : List (LayerFn V M K KM)) (mem : M) (xs : List V) (n : Nat) :
    fullDecoder fs mem (xs.take n) = (fullDecoder fs mem xs).take n :=
  fullDecoder_take_aux fs mem xs n

theorem runSteps_after_history (fs : List (LayerFn V M K KM)) (mem mem' : M) (xs xs' : List V)
    (ss : List (LState V K KM)) (n : Nat) (hlen : ss.length = fs.length) (hroom : ∀ s ∈ ss, s.roomy n)
    (hx : xs.length ≤ n) (hx' : xs'.length ≤ n) :
    (runSteps true fs mem [] xs (runSteps true fs mem' [] xs' ss).1).2 = (fullDecoder fs mem xs).map some := by
  have h1 := (runSteps_inv true mem' n fs [] xs' ss (Inv_init true mem' n fs ss hlen hroom) (by simpa using hx')).1
  obtain ⟨hl, hr⟩ := Inv_forget true mem' n fs _ _ h1
  have := (runSteps_inv true mem n fs [] xs _ (Inv_init true mem n fs _ hl hr) (by simpa using hx)).2
  simpa using this

end Dec
