import PeroVerif.Drv.Common
import PeroVerif.Model.SmartSort
open Lean Drv

namespace Drv.C12
open SS

def boxOf (j : Json) : Except String Box := do
  match ← intList j with
  | [i, a, b, c, d] => pure ⟨i.toNat, a, b, c, d⟩
  | _ => throw "box: [id, xmin, ymin, xmax, ymax]"

def handle : Handler := fun j => do
  let op ← getStr j "op"
  match op with
  | "smart" =>
    let bs ← (← arrOf (← j.getObjVal? "boxes")).mapM boxOf
    match smartSort (← getNat j "num") (← getNat j "den") bs with
    | none => return err "out-of-fuel"
    | some o => return ok (jNats (o.map (·.id)))
  | "naive" =>
    match naiveOrder (← getIntList j "keys") (← getNatList j "labels") with
    | none => return err "index-error"
    | some o => return ok (jNats o)
  | _ => throw s!"C12: unknown op {op}"

end Drv.C12
