import PeroVerif.Drv.Common
import PeroVerif.Model.ForceAlign
open Lean Drv

namespace Drv.C05

def costOf (j : Json) : Except String FA.Cost :=
  if j.isNull then pure none else do return some (← j.getInt?)

def errName : FA.Err → String
  | .blankInLabels => "reject"
  | .emptyLabels => "reject"
  | .index => "index-error"
  | .unalignable => "unalignable"

def handle : Handler := fun j => do
  let op ← getStr j "op"
  let M ← (← arrOf (← j.getObjVal? "M")).mapM fun r => do (← arrOf r).mapM costOf
  let labels ← getNatList j "labels"
  let blank ← getNat j "blank"
  match op with
  | "align" =>
    match FA.forceAlign M labels blank with
    | .ok p => return ok (jNats p)
    | .error e => return err (errName e)
  | "positions" =>
    match FA.alignText M labels blank with
    | .ok p => return ok (jList jOptNat p)
    | .error e => return err (errName e)
  | _ => throw s!"C05: unknown op {op}"

end Drv.C05
