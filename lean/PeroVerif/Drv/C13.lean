import PeroVerif.Drv.Common
import PeroVerif.Model.Lev
open Lean Drv

namespace Drv.C13

def jPair : Option Nat × Option Nat → Json
  | (a, b) => Json.arr #[jOptNat a, jOptNat b]

def costs (j : Json) : Except String Lev.Costs := do
  match ← getNatList j "c" with
  | [s, i, d] => return { sub := s, ins := i, del := d }
  | _ => throw "costs: expected [sub, ins, del]"

def handle : Handler := fun j => do
  let op ← getStr j "op"
  let s ← getNatList j "s"
  let t ← getNatList j "t"
  match op with
  | "dist" => return ok (jNat (Lev.dist (← costs j) s t))
  | "align" =>
    match Lev.alignment (← costs j) s t with
    | some al => return ok (jList jPair al)
    | none => return err "index-error"
  | "path" =>
    match Lev.alignmentPath (← costs j) s t with
    | some p => return ok (jInts p)
    | none => return err "index-error"
  | "stats" =>
    -- edit_stats_for_alignment(levenshtein_alignment(hyp = s, ref = t))
    match Lev.alignment { sub := 1, ins := 1, del := 1 } s t with
    | some al =>
      let (nphn, ncor, nins, ndel, nsub) := Lev.editStats al
      -- 6th entry: the line-end class of ErrorsSummary.from_lists(ref = t, hyp = s)
      -- (0 correct, 1 pure_deletions, 2 mixed_deletions, 3 pure_insertions, 4 mixed_insertions, 5 pure_substitutions,
      --  6 no flag, 7 an exception)
      let cls : Nat := match Lev.Summary.ending t s with
        | some .correct => 0 | some .pureDel => 1 | some .mixedDel => 2 | some .pureIns => 3
        | some .mixedIns => 4 | some .pureSub => 5 | some .nothing => 6 | none => 7
      return ok (jNats [nphn, ncor, nins, ndel, nsub, cls])
    | none => return err "index-error"
  | "alignsub" =>
    match Lev.alignmentSub (← costs j) s t with
    | some al => return ok (jList jPair al)
    | none => return err "index-error"
  | "distsub" => return ok (jNat (Lev.distSub (← costs j) s t))
  | "summary" =>
    -- ErrorsSummary.from_lists(ref = s, hyp = t)
    match Lev.Summary.fromLists s t with
    | some x => return ok (jNats [x.lines, x.refLen, x.errors, x.subs, x.inss, x.dels])
    | none => return err "index-error"
  | "aggconf" =>
    -- the confusion table of ErrorsSummary.aggregate([from_lists(ref, hyp) ...]) as a bag of (hyp, ref) pairs
    let refs ← getNatMat j "refs"
    let hyps ← getNatMat j "hyps"
    let tabs := (refs.zip hyps).map fun (r, h) => Lev.Summary.confusions r h
    return ok (jList jPair (Lev.aggregateConfusions tabs))
  | _ => throw s!"C13: unknown op {op}"

end Drv.C13
