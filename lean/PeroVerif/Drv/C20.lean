import PeroVerif.Drv.Common
import PeroVerif.Model.KVCache
open Lean Drv

namespace Drv.C20
open KV

def jTag : Tag → Json
  | none => Json.null
  | some (n, t) => jNats [n, t]

def handle : Handler := fun j => do
  let op ← getStr j "op"
  match op with
  | "history" =>
    let maxLen ← getNat j "max_len"
    let bs ← (← arrOf (← j.getObjVal? "batches")).mapM fun b => do
      match ← natList b with
      | [s, src, st] => pure ({ size := s, srcLen := src, steps := st } : Batch)
      | _ => throw "batch"
    let rs := runHistory maxLen 0 bs Layer.init
    return ok (jList (fun (x : Nat × Nat × Reads) =>
      Json.mkObj [("batch", jNat x.1), ("step", jNat x.2.1),
        ("fresh", Json.bool (x.2.2.fresh x.1 x.2.1 ((bs.getD x.1 ⟨0, 0, 0⟩).srcLen))),
        ("self", jList jTag x.2.2.selfSlots), ("mem", jList jTag x.2.2.memSlots)]) rs)
  | "postprocess" =>
    return ok (jNats (postprocess (← getNat j "eos") (← getNat j "ign") (← getNatList j "line")))
  | _ => throw s!"C20: unknown op {op}"

end Drv.C20
