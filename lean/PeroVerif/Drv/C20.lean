import PeroVerif.Drv.Common
import PeroVerif.Model.KVCache
import PeroVerif.Model.Decoder
open Lean Drv

namespace Drv.C20
open KV

def jTag : Tag → Json
  | none => Json.null
  | some (n, t) => jNats [n, t]

partial def jTerm : Dec.Term → Json
  | .var n i => Json.arr #[Json.str n, jNat i]
  | .app f l args => Json.arr #[Json.str f, jNat l, Json.arr (args.map jTerm).toArray]

def jOptTerm : Option Dec.Term → Json
  | none => Json.null
  | some t => jTerm t

def handle : Handler := fun j => do
  let op ← getStr j "op"
  match op with
  | "history" =>
    let maxLen ← getNat j "max_len"
    let bs ← (← arrOf (← j.getObjVal? "batches")).mapM fun b => do
      match ← natList b with
      | [s, src, st] => pure ({ size := s, srcLen := src, steps := st } : Batch)
      | _ => throw "batch"
    let rs := runHistory maxLen 0 bs Layer.init
    return ok (jList (fun (x : Nat × Nat × Reads) =>
      Json.mkObj [("batch", jNat x.1), ("step", jNat x.2.1),
        ("fresh", Json.bool (x.2.2.fresh x.1 x.2.1 ((bs.getD x.1 ⟨0, 0, 0⟩).srcLen))),
        ("self", jList jTag x.2.2.selfSlots), ("mem", jList jTag x.2.2.memSlots)]) rs)
  | "decoder" =>
    -- the computation of the decoder as terms: full masked pass, and the step-by-step runs (cached / uncached)
    -- started from stale caches, for `layers` layers and `steps` fed symbols
    let L ← getNat j "layers"
    let T ← getNat j "steps"
    let maxLen ← getNat j "max_len"
    let xs := (List.range T).map fun i => Dec.Term.var "x" i
    let mem := Dec.Term.var "mem" 0
    let fs := Dec.symLayers L
    let ss := (List.range L).map (Dec.staleState maxLen)
    let full := Dec.fullDecoder fs mem xs
    let cached := (Dec.runSteps true fs mem [] xs ss).2
    let uncached := (Dec.runSteps false fs mem [] xs ss).2
    -- a second line decoded with the objects the first run left behind (other encoder output "mem" 1)
    let ss' := (Dec.runSteps true fs (Dec.Term.var "mem" 1) [] ((List.range (T + 1)).map fun i => Dec.Term.var "y" i) ss).1
    let again := (Dec.runSteps true fs mem [] xs ss').2
    return ok (Json.mkObj [("full", jList jTerm full), ("cached", jList jOptTerm cached),
      ("uncached", jList jOptTerm uncached), ("after_history", jList jOptTerm again)])
  | "loop" =>
    -- transcribe_batch's greedy loop with a SCRIPTED network: line b emits script[b][step] at step `step` (the boundary
    -- symbol once its script is used up)
    let script ← getNatMat j "script"
    let eos ← getNat j "eos"
    let ign ← getNat j "ign"
    let W ← getNat j "width"
    let next := fun (part : List (List Nat)) => script.map fun ln => ln.getD part.length eos
    let (rows, iters) := transcribeLoop next eos W script.length
    let lines := (List.range script.length).map fun b => rows.map fun r => r.getD b eos
    return ok (Json.mkObj [("iterations", jNat iters), ("rows", jList jNats rows),
      ("texts", jList (fun l => jNats (postprocess eos ign l)) lines)])
  | "postprocess" =>
    return ok (jNats (postprocess (← getNat j "eos") (← getNat j "ign") (← getNatList j "line")))
  | _ => throw s!"C20: unknown op {op}"

end Drv.C20
