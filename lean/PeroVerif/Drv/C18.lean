import PeroVerif.Drv.Common
import PeroVerif.Model.Rot90
import PeroVerif.Model.OrderLines
open Lean Drv

namespace Drv.C18
open Rot

def handle : Handler := fun j => do
  let op ← getStr j "op"
  match op with
  | "rot" =>
    let rot ← getNat j "rot"
    let H ← getNat j "H"
    let W ← getNat j "W"
    let sh := rotShape rot H W
    -- for every pixel of the rotated image: its source pixel, and where rotate_layout sends its coordinates
    let cells := (List.range sh.1).flatMap fun i => (List.range sh.2).map fun jj =>
      let s := rotSrc rot H W i jj
      let q := rotateLayout rot sh ((jj : Int), (i : Int))
      jInts [s.1, s.2, q.1, q.2]
    return ok (Json.mkObj [("shape", jNats [sh.1, sh.2]), ("cells", Json.arr cells.toArray)])
  | "order" =>
    let keys ← getRatList j "keys"
    let n := keys.length
    let r := OrdL.orderLines keys (List.range n) (List.range n) (List.range n)
    return ok (Json.mkObj [("b", jNats r.1), ("h", jNats r.2.1), ("t", jNats r.2.2)])
  | _ => throw s!"C18: unknown op {op}"

end Drv.C18
