import PeroVerif.Drv.Common
import PeroVerif.Drv.C02
import PeroVerif.Model.ConfNet
open Lean Drv

namespace Drv.C14
open CN

def ratWOps : WOps Rat := { Drv.C02.ratFOps with ofNat := fun n => (n : Rat) }

def jArc : Arc → Json
  | none => Json.null
  | some c => jNat c

def jNet (cn : Net Rat) : Json :=
  jList (fun (p : Pos Rat) => jList (fun (kv : Arc × Rat) => Json.arr #[jArc kv.1, jRat kv.2]) p) cn

def hypOf (j : Json) : Except String (List Nat × Rat) := do
  match ← arrOf j with
  | [t, w] => return (← natList t, ← ratOf w)
  | _ => throw "hyp: expected [transcript, weight]"

def handle : Handler := fun j => do
  let op ← getStr j "op"
  let adv ← getBool j "adv"
  let hyps ← (← arrOf (← j.getObjVal? "hyps")).mapM hypOf
  match op with
  | "build" =>
    let norm ← getBool j "norm"
    match fromHyps ratWOps adv hyps norm with
    | none => return err "index-error"
    | some cn =>
      return ok (Json.mkObj [
        ("cn", jNet cn),
        ("best", match bestPath ratWOps cn with | some b => jNats b | none => Json.null),
        ("paths", if (cn.map List.length).foldl (· * ·) 1 ≤ 5000 then
            jList (fun (p : List Nat × Rat) => Json.arr #[jNats p.1, jRat p.2]) (sortedPaths ratWOps cn)
          else Json.null)])
  | _ => throw s!"C14: unknown op {op}"

end Drv.C14
