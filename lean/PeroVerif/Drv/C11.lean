import PeroVerif.Drv.Common
import PeroVerif.Model.Assign
import PeroVerif.Model.Clip
import PeroVerif.Model.MergeLoop
open Lean Drv

namespace Drv.C11
open Asg

def bboxOf (j : Json) : Except String BBox := do
  match ← intList j with
  | [a, b, c, d] => pure ⟨a, b, c, d⟩
  | _ => throw "bbox"

def handle : Handler := fun j => do
  let op ← getStr j "op"
  match op with
  | "assign" =>
    let lineBoxes ← (← arrOf (← j.getObjVal? "lines")).mapM bboxOf
    let regs ← (← arrOf (← j.getObjVal? "regions")).mapM fun r => do
      pure ({ id := ← getNatList r "id", bbox := ← bboxOf (← r.getObjVal? "bbox"), lines := [] } : Region Nat)
    -- mask table: list of [line, region] pairs for which shapely returned a result
    let ok' ← (← arrOf (← j.getObjVal? "mask")).mapM natList
    let mask := fun li ri => if ok'.contains [li, ri] then some (li * 1000 + ri) else none
    let out := assign mask lineBoxes regs
    return ok (jList (fun (r : Region Nat) => jList (fun (p : Placed Nat) => Json.arr #[jNats p.id, jNat p.geom]) r.lines) out)
  | "passids" =>
    let placed ← (← arrOf (← j.getObjVal? "placed")).mapM natList
    let rots ← getNatList j "rots"
    let ids := passIds (← getNatList j "rid") rots (fun rot => placed.getD (rots.findIdx (· = rot)) [])
    return ok (jList jNats ids)
  | "clip" =>
    match ← getRatList j "rect" with
    | [x0, y0, x1, y1] =>
      let pts ← getRatMat j "pts"
      let pieces := Clip.clipPolyline ⟨x0, y0, x1, y1⟩ (pts.map fun p => (p.getD 0 0, p.getD 1 0))
      return ok (jList (jList fun (p : Clip.Pt) => Json.arr #[jRat p.1, jRat p.2]) pieces)
    | _ => throw "rect"
  | "merge" =>
    -- merge_lines on horizontal integer baselines: [xmin, xmax, y, h0, h1] per line
    let ls ← (← getIntMat j "lines").mapM fun r => match r with
      | [a, b, c, d, e] => pure ({ xmin := a, xmax := b, y := c, h0 := d, h1 := e } : MergeLoop.Ln)
      | _ => throw "line"
    let jl := fun (l : MergeLoop.Ln) => jInts [l.xmin, l.xmax, l.h0, l.h1]
    let c := fun i j => MergeLoop.compat (ls.getD i default) (ls.getD j default)
    let g := MergeLoop.grouping c ls.length
    let idx := List.range ls.length
    let margins := idx.flatMap fun i => (idx.filter (· ≠ i)).map fun k => MergeLoop.margin (ls.getD i default) (ls.getD k default)
    let out := MergeLoop.mergeLines ls
    let lp := MergeLoop.loop MergeLoop.mergeLines (ls.length + 1) ls
    return ok (Json.mkObj [("lines", jList jl out), ("groups", jList jNats g.1), ("merged", jNats g.2),
      ("margin", jInt (margins.foldl min 1000000)),
      ("loop", match lp with
        | none => Json.null
        | some (r, k) => Json.mkObj [("iterations", jNat k), ("lines", jList jl r)])])
  | _ => throw s!"C11: unknown op {op}"

end Drv.C11
