import PeroVerif.Drv.Common
import PeroVerif.Model.Merge
open Lean Drv

namespace Drv.C15

def part (j : Json) : Except String (List Nat × List Nat) := do
  match ← arrOf j with
  | [a, b] => return (← natList a, ← natList b)
  | _ => throw "part: expected [text, logitRows]"

def handle : Handler := fun j => do
  let op ← getStr j "op"
  match op with
  | "overlap" => return ok (jNat (Merge.findBestOverlap (← getNatList j "a") (← getNatList j "b")))
  | "merge" =>
    let parts ← (← arrOf (← j.getObjVal? "parts")).mapM part
    match Merge.mergeAll parts with
    | none => return err "index-error"
    | some (t, l) => return ok (Json.arr #[jNats t, jNats l])
  | "regroup" =>
    let parts ← (← arrOf (← j.getObjVal? "parts")).mapM part
    let spans ← getNatList j "spans"
    return ok (jList (fun (r : Option (List Nat × List Nat)) => match r with
      | none => Json.null
      | some (t, l) => Json.arr #[jNats t, jNats l]) (Merge.batchResults spans parts))
  | "windows" =>
    let w := Merge.windows (← getNat j "width") (← getNat j "mlw")
    return ok (jList (fun (p : Nat × Nat) => jNats [p.1, p.2]) w)
  | _ => throw s!"C15: unknown op {op}"

end Drv.C15
