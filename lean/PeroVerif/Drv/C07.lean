import PeroVerif.Drv.Common
import PeroVerif.Model.Batching
open Lean Drv

namespace Drv.C07
open Bat

def handle : Handler := fun j => do
  let op ← getStr j "op"
  match op with
  | "batches" =>
    let ws ← getNatList j "widths"
    let pad ← getNat j "pad"
    let sub ← getNat j "sub"
    let bs := batches ws (← getNat j "batch_size") pad
    return ok (Json.mkObj [
      ("batches", jList (fun (b : List Nat × Nat) => Json.arr #[jNats b.1, jNat b.2]) bs),
      ("coords", jList (fun w => let c := coords pad sub w; jNats [c.1, c.2]) ws)])
  | _ => throw s!"C07: unknown op {op}"

end Drv.C07
