import PeroVerif.Drv.Common
import PeroVerif.Model.PageDecoder
open Lean Drv

namespace Drv.C08
open PD Py

def M : Nat := 1000003
def hashStr (s : Str) : Nat := s.foldl (fun a c => (a * 131 + c + 1) % M) 7

/-- the symbolic decoder used on both sides of the correspondence (harness: `FakeDecoder`) -/
def env (carry : Bool) : Env Nat Nat :=
  { dec := fun x h0 =>
      let h := match h0 with | some h => h | none => 5
      (showNat x ++ [124] ++ showNat h, (x * 31 + h * 7 + 11) % M)
    decPlain := fun x => showNat x ++ [124, 112]
    fromLine := fun s => hashStr s
    lineEnd := fun h => (h * 17 + 3) % M
    carry := carry }

def lineOf (j : Json) : Except String (Line Nat) := do
  let t ← j.getObjVal? "text"
  return { logits := ← getNat j "x", confident := ← getBool j "confident",
           text := ← if t.isNull then pure none else do pure (some (← natList t)) }

def handle : Handler := fun j => do
  let op ← getStr j "op"
  match op with
  | "run" =>
    let pages ← (← arrOf (← j.getObjVal? "pages")).mapM fun p => do (← arrOf p).mapM lineOf
    let (_, outs) := run (env (← getBool j "carry")) pages
    return ok (jList (jList (fun (t : Option Str) => match t with | none => Json.null | some s => jNats s)) outs)
  | _ => throw s!"C08: unknown op {op}"

end Drv.C08
