import PeroVerif.Drv.Common
import PeroVerif.Drv.C02
import PeroVerif.Model.Confidence
open Lean Drv

namespace Drv.C16
open Conf

def ratCOps : COps Rat := { Drv.C02.ratFOps with sub := (· - ·) }

def jOptRats : Option (List Rat) → Json
  | none => err "numpy-error"
  | some l => ok (jList jRat l)

def handle : Handler := fun j => do
  let op ← getStr j "op"
  match op with
  | "line" =>
    return jOptRats (getLineConfidence ratCOps (← getRatMat j "probs") (← getNatList j "labels") (← getNatList j "alignment"))
  | "transformer" =>
    return jOptRats (lineConfidenceTransformer (← getRatMat j "probs") (← getNatList j "labels"))
  | "letters" =>
    return jOptRats (letterConfidence ratCOps (← getRatMat j "probs") (← getNatList j "alignment") (← getNat j "blank"))
  | "enough" =>
    match lineConfidentEnough ratCOps (← getRatMat j "probs") (← getRat j "thr") with
    | none => return err "numpy-error"
    | some b => return ok (Json.bool b)
  | "getprob" =>
    let ids ← getNatList j "ids"
    let ps ← getRatList j "ps"
    return ok (jRat (getProb ratCOps (ids.zip ps)))
  | "median" =>
    match median ratCOps 2 (← getRatList j "xs") with
    | none => return err "numpy-error"
    | some m => return ok (jRat m)
  | _ => throw s!"C16: unknown op {op}"

end Drv.C16
