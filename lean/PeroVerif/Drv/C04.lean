import PeroVerif.Drv.Common
import PeroVerif.Model.Greedy
open Lean Drv

namespace Drv.C04

def handle : Handler := fun j => do
  let op ← getStr j "op"
  match op with
  | "decode" =>
    -- frames: T × C integer scores of one line
    let frames ← getIntMat j "frames"
    let C ← getNat j "C"
    let am := Greedy.argmaxPath frames
    return ok (Json.mkObj [
      ("argmax", jNats am),
      ("engine", jNats (Greedy.engineLine C am)),
      ("standalone", jNats (Greedy.standalone (C - 1) am)),
      ("filtration", jNats (Greedy.filtration (C - 1) none am)),
      ("collapse", jNats (Ctc.collapse (C - 1) am))])
  | _ => throw s!"C04: unknown op {op}"

end Drv.C04
