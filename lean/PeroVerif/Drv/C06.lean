import PeroVerif.Drv.Common
import PeroVerif.Model.Arabic
import PeroVerif.Model.AltoText
open Lean Drv

namespace Drv.C06

def boxOf (j : Json) : Except String Alto.Box := do
  match ← intList j with
  | [h, w, v, hp] => pure ⟨h, w, v, hp⟩
  | _ => throw "box"

def jBox (b : Alto.Box) : Json := jInts [b.height, b.width, b.vpos, b.hpos]

def ptsOf (j : Json) : Except String (List (Int × Int)) := do
  (← arrOf j).mapM fun p => do
    match ← intList p with
    | [x, y] => pure (x, y)
    | _ => throw "point"

def handle : Handler := fun j => do
  let op ← getStr j "op"
  match op with
  | "reverse" =>
    let A ← getNatList j "A"
    let D ← getNatList j "D"
    return ok (jNats (Ar.reverse (A.contains ·) (D.contains ·) (← getNatList j "s")))
  | "words" =>
    -- one line: transcription, whitespace code points, aligned?, arabic classes (conversion applied iff "arabic")
    let sp ← getNatList j "space"
    let A ← getNatList j "A"
    let D ← getNatList j "D"
    let arabic ← getBool j "arabic"
    let conv : Py.Str → Py.Str := if arabic then Ar.reverse (A.contains ·) (D.contains ·) else id
    let s ← getNatList j "s"
    if !Alto.exported (sp.contains ·) (some s) then return ok (Json.str "not-exported") else
    match Alto.lineWords (sp.contains ·) conv (← getBool j "aligned") s with
    | .indexError => return err "index-error"
    | .words ws n => return ok (Json.mkObj [("words", jList jNats ws), ("sp", jNat n)])
  | "geom" =>
    let H ← getInt j "H"
    let W ← getInt j "W"
    let polys ← (← arrOf (← j.getObjVal? "polys")).mapM ptsOf
    let boxes := polys.map Alto.hwvh
    let p := Alto.printSpace H W boxes
    return ok (Json.mkObj [("blocks", jList jBox boxes), ("ps", jInts [p.height, p.width, p.vpos, p.hpos]),
      ("margins", jList jBox (Alto.margins H W p))])
  | "reimport" =>
    return ok (jNats (Alto.reimportLine (← getNatMat j "words")))
  | _ => throw s!"C06: unknown op {op}"

end Drv.C06
