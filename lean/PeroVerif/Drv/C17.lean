import PeroVerif.Drv.Common
import PeroVerif.Model.Resume
open Lean Drv

namespace Drv.C17
open Resume Gen.ParseFolder

def kindOf (s : String) : Except String Kind :=
  match s with
  | "xml" => pure .xml | "render" => pure .render | "logits" => pure .logits | "alto" => pure .alto | "lines" => pure .lines
  | _ => throw s!"kind {s}"

def kindName : Kind → String
  | .xml => "xml" | .render => "render" | .logits => "logits" | .alto => "alto" | .lines => "lines"

def jFile (f : File) : Json := Json.arr #[Json.str (kindName f.1), jNats f.2]

def pageOf (j : Json) : Except String Page := do
  return { id := ← getNatList j "id", lines := ← (← arrOf (← j.getObjVal? "lines")).mapM natList }

def handle : Handler := fun j => do
  let op ← getStr j "op"
  match op with
  | "history" =>
    let K ← (← arrOf (← j.getObjVal? "kinds")).mapM fun k => do kindOf (← k.getStr?)
    let pages ← (← arrOf (← j.getObjVal? "pages")).mapM pageOf
    let crashes ← getNatList j "crashes"
    -- per run: what was written, and whether it would exit cleanly if not killed
    let (fs, logs) := crashes.foldl (fun (st : FS × List (List File)) k =>
        (crashRun st.1 K pages k, st.2 ++ [(runWrites st.1 K pages).take (k - 1)])) ([], [])
    let finalWrites := runWrites fs K pages
    let fs' := fullRun fs K pages
    return ok (Json.mkObj [
      ("logs", jList (jList jFile) (logs ++ [finalWrites])),
      ("final", jList jFile fs'),
      ("clean", Json.bool (exitsCleanly fs K pages)),
      ("todo_after", jList (fun (p : Page) => jNats p.id) (todo fs' K pages)),
      ("clean_after", Json.bool (exitsCleanly fs' K pages))])
  | "stem" => return ok (match stemOf (← getNatList j "name") with | none => Json.null | some s => jNats s)
  | _ => throw s!"C17: unknown op {op}"

end Drv.C17
