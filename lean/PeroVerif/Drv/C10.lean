import PeroVerif.Drv.Common
import PeroVerif.Model.Crop
open Lean Drv

namespace Drv.C10
open Crop

def imageOf (j : Json) : Except String Image := do
  let rows ← getIntMat j "img"
  let h := rows.length
  let w := (rows.head?.map List.length).getD 0
  return { w := w, h := h, px := fun x y => ((rows.getD y.toNat []).getD x.toNat 0 : Int) }

def handle : Handler := fun j => do
  let op ← getStr j "op"
  match op with
  | "linspace" => return ok (jList jRat (linspace (← getRat j "a") (← getRat j "b") (← getNat j "n")))
  | "width" => return ok (jInt (width (← getRat j "arc") (← getRat j "h0") (← getRat j "h1") (← getRat j "s") (← getNat j "H")))
  | "sample" =>
    let im ← imageOf j
    let pts ← getRatMat j "pts"
    let box ← getIntList j "box"
    match box with
    | [xmin, ymin, xmax, ymax] =>
      return ok (Json.mkObj [
        ("full", jList jRat (pts.map fun p => bilinear im (p.getD 0 0) (p.getD 1 0))),
        ("fast", jList jRat (pts.map fun p => fastSample im xmin ymin xmax ymax (p.getD 0 0) (p.getD 1 0)))])
    | _ => throw "box"
  | "cubic" => return ok (Json.bool (cubicDomainOK (← getRat j "L")))
  | "revmap" =>
    match reverseLineMapping (← getRatList j "F") (← getRatList j "ts") (← getRatList j "X") with
    | some r => return ok (jList jRat r)
    | none => return ok Json.null
  | "straight" =>
    let R : Rot := { c := (← getRat j "c"), s := (← getRat j "s") }
    match straightGrid R (← getRat j "left") (← getRat j "y0") (← getNat j "n") (← getRat j "h0") (← getRat j "h1") (← getNat j "H") with
    | some g => return ok (jList (jList fun (p : Rat × Rat) => Json.arr #[jRat p.1, jRat p.2]) g)
    | none => return ok Json.null
  | _ => throw s!"C10: unknown op {op}"

end Drv.C10
