import PeroVerif.Drv.Common
import PeroVerif.Model.LogitsStore
open Lean Drv

namespace Drv.C09
open LS Py

-- payloads are small integers naming objects; `null` = None
def lineOf (j : Json) : Except String (Line Nat Nat Nat) := do
  return { id := ← getNat j "id", logits := .mat (← optNat (← j.getObjVal? "logits")),
           chars := ← optNat (← j.getObjVal? "chars"), coords := ← optNat (← j.getObjVal? "coords") }

def jVal : Val Nat Nat Nat → Json
  | .mat x => jOptNat x
  | .charsD _ => Json.str "chars-dict"
  | .coordsD _ => Json.str "coords-dict"

def jLine (l : Line Nat Nat Nat) : Json :=
  Json.mkObj [("id", jNat l.id), ("logits", jVal l.logits), ("chars", jOptNat l.chars), ("coords", jOptNat l.coords)]

def errName : Err → String
  | .missingLogits => "missing-logits"
  | .missingChars => "missing-chars"
  | .missingCoords => "missing-coords"
  | .keyError => "key-error"
  | .typeError => "type-error"

def handle : Handler := fun j => do
  let op ← getStr j "op"
  match op with
  | "roundtrip" =>
    -- save `src` (flag), optionally strip reserved keys (legacy), load into `dst`
    let src ← (← arrOf (← j.getObjVal? "src")).mapM lineOf
    let dst ← (← arrOf (← j.getObjVal? "dst")).mapM lineOf
    let flag ← getBool j "missing_ok"
    let legacy ← getBool j "legacy"
    match genLogits flag src with
    | .error e => return err (errName e)
    | .ok d =>
      let d := if legacy then d.filter fun kv => kv.1 != kChars && kv.1 != kCoords else d
      match load (some 999) d dst with
      | .error e => return err (errName e)
      | .ok ls => return ok (jList jLine ls)
  | _ => throw s!"C09: unknown op {op}"

end Drv.C09
