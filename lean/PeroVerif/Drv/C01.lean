import PeroVerif.Drv.Common
import PeroVerif.Model.PageXml
open Lean Drv

namespace Drv.C01
open PX Py

def strOf (j : Json) : Except String Str := natList j
def jStr (x : Str) : Json := jNats x
def optStr (j : Json) : Except String (Option Str) := if j.isNull then pure none else do return some (← strOf j)
def jOptStr : Option Str → Json | none => Json.null | some x => jStr x

def ptsOf (j : Json) : Except String (List (Int × Int)) := do
  (← arrOf j).mapM fun p => do
    match ← intList p with
    | [x, y] => pure (x, y)
    | _ => throw "point"
def jPts (ps : List (Int × Int)) : Json := jList (fun (p : Int × Int) => jInts [p.1, p.2]) ps

def lineOf (j : Json) : Except String Line := do
  let h ← j.getObjVal? "heights"
  let heights ← if h.isNull then pure none else do
    match ← natList h with
    | [a, b] => pure (some (a, b))
    | _ => throw "heights"
  return { id := ← strOf (← j.getObjVal? "id"), index := ← optInt (← j.getObjVal? "index"),
           baseline := ← ptsOf (← j.getObjVal? "baseline"), polygon := ← ptsOf (← j.getObjVal? "polygon"),
           heights := heights, text := ← optStr (← j.getObjVal? "text"), conf := ← optNat (← j.getObjVal? "conf") }

def regionOf (j : Json) : Except String Region := do
  return { id := ← strOf (← j.getObjVal? "id"), rtype := ← optStr (← j.getObjVal? "type"),
           polygon := ← ptsOf (← j.getObjVal? "polygon"), text := ← optStr (← j.getObjVal? "text"),
           lines := ← (← arrOf (← j.getObjVal? "lines")).mapM lineOf }

def pageOf (j : Json) : Except String Page := do
  let roj ← j.getObjVal? "ro"
  let ro ← if roj.isNull then pure none else do
    let l ← (← arrOf roj).mapM fun kv => do
      match ← arrOf kv with
      | [k, v] => pure (← strOf k, ← v.getInt?)
      | _ => throw "ro"
    pure (some l)
  match ← getIntList j "size" with
  | [h, w] =>
    return { id := ← strOf (← j.getObjVal? "id"), height := h, width := w,
             regions := ← (← arrOf (← j.getObjVal? "regions")).mapM regionOf, ro := ro }
  | _ => throw "size"

def jLine (l : Line) : Json := Json.mkObj [
  ("id", jStr l.id), ("index", jOptInt l.index), ("baseline", jPts l.baseline), ("polygon", jPts l.polygon),
  ("heights", match l.heights with | none => Json.null | some h => jNats [h.1, h.2]),
  ("text", jOptStr l.text), ("conf", jOptNat l.conf)]

def jRegion (r : Region) : Json := Json.mkObj [
  ("id", jStr r.id), ("type", jOptStr r.rtype), ("polygon", jPts r.polygon), ("text", jOptStr r.text),
  ("lines", jList jLine r.lines)]

def jPage (p : Page) : Json := Json.mkObj [
  ("id", jStr p.id), ("size", jInts [p.height, p.width]), ("regions", jList jRegion p.regions),
  ("ro", (match p.ro with
          | none => Json.null
          | some ro => jList (fun (kv : Str × Int) => Json.arr #[jStr kv.1, jInt kv.2]) ro))]

partial def jXml : Xml → Json
  | .node t a tx c => Json.mkObj [("tag", jStr t),
      ("attrs", jList (fun (kv : Str × Str) => Json.arr #[jStr kv.1, jStr kv.2]) a),
      ("text", jOptStr tx), ("children", Json.arr (c.map jXml).toArray)]

partial def xmlOf (j : Json) : Except String Xml := do
  let attrs ← (← arrOf (← j.getObjVal? "attrs")).mapM fun kv => do
    match ← arrOf kv with
    | [k, v] => pure (← strOf k, ← strOf v)
    | _ => throw "attr"
  let ch ← (← arrOf (← j.getObjVal? "children")).mapM xmlOf
  return .node (← strOf (← j.getObjVal? "tag")) attrs (← optStr (← j.getObjVal? "text")) ch

def versionOf (j : Json) : Except String Version := do
  match ← getStr j "version" with
  | "PAGE_2019_07_15" => pure .v2019
  | "PAGE_2013_07_15" => pure .v2013
  | v => throw s!"version {v}"

def errName : Err → String
  | .missing => "missing"
  | .badNumber => "bad-number"
  | .unsupported => "unsupported"

def handle : Handler := fun j => do
  let op ← getStr j "op"
  match op with
  | "export" => return ok (jXml (exportPage (← versionOf j) (← pageOf (← j.getObjVal? "page"))))
  | "import" =>
    match importPage (← xmlOf (← j.getObjVal? "xml")) with
    | .ok p => return ok (jPage p)
    | .error e => return err (errName e)
  | "canon" => return ok (jPage (canon (← pageOf (← j.getObjVal? "page"))))
  | _ => throw s!"C01: unknown op {op}"

end Drv.C01
