import PeroVerif.Drv.Common
import PeroVerif.Model.MergeEngines
open Lean Drv

namespace Drv.C19
open ME

/-- payloads travel as small integers naming the engine objects -/
def engineOf (j : Json) : Except String (Line Rat Nat Nat Nat Nat × Rat) := do
  let tc ← j.getObjVal? "tconf"
  let tconf ← if tc.isNull then pure none else do pure (some (← ratOf tc))
  return ({ id := ← getNat j "id", geom := ← getNat j "geom", text := ← getNat j "text", logits := ← getNat j "logits",
            chars := ← getNat j "chars", tconf := tconf }, ← getRat j "conf")

def handle : Handler := fun j => do
  let es ← (← arrOf (← j.getObjVal? "engines")).mapM engineOf
  match mergeLine (fun a b => decide (a < b)) (0 : Rat) es with
  | none => return err "index-error"
  | some l =>
    return ok (Json.mkObj [("id", jNat l.id), ("geom", jNat l.geom), ("text", jNat l.text), ("logits", jNat l.logits),
      ("chars", jNat l.chars), ("tconf", match l.tconf with | none => Json.null | some q => jRat q)])

end Drv.C19
