/-
JSON helpers for the line-protocol driver (core Lean only).
-/
import Lean.Data.Json
open Lean

namespace Drv

abbrev Handler := Json → Except String Json

def getNat (j : Json) (k : String) : Except String Nat := do
  (← j.getObjVal? k).getNat?

def getInt (j : Json) (k : String) : Except String Int := do
  (← j.getObjVal? k).getInt?

def getStr (j : Json) (k : String) : Except String String := do
  (← j.getObjVal? k).getStr?

def getBool (j : Json) (k : String) : Except String Bool := do
  (← j.getObjVal? k).getBool?

def arrOf (j : Json) : Except String (List Json) := do
  return (← j.getArr?).toList

def natList (j : Json) : Except String (List Nat) := do
  (← arrOf j).mapM (·.getNat?)

def intList (j : Json) : Except String (List Int) := do
  (← arrOf j).mapM (·.getInt?)

def getNatList (j : Json) (k : String) : Except String (List Nat) := do
  natList (← j.getObjVal? k)

def getIntList (j : Json) (k : String) : Except String (List Int) := do
  intList (← j.getObjVal? k)

def getNatMat (j : Json) (k : String) : Except String (List (List Nat)) := do
  (← arrOf (← j.getObjVal? k)).mapM natList

def getIntMat (j : Json) (k : String) : Except String (List (List Int)) := do
  (← arrOf (← j.getObjVal? k)).mapM intList

/-- `null` ↦ none. -/
def optNat (j : Json) : Except String (Option Nat) :=
  if j.isNull then pure none else do return some (← j.getNat?)

def optInt (j : Json) : Except String (Option Int) :=
  if j.isNull then pure none else do return some (← j.getInt?)

def jNat (n : Nat) : Json := Json.num (JsonNumber.fromNat n)
def jInt (n : Int) : Json := Json.num (JsonNumber.fromInt n)
def jNats (l : List Nat) : Json := Json.arr (l.map jNat).toArray
def jInts (l : List Int) : Json := Json.arr (l.map jInt).toArray
def jOptNat : Option Nat → Json
  | none => Json.null
  | some n => jNat n
def jOptInt : Option Int → Json
  | none => Json.null
  | some n => jInt n
def jList {α} (f : α → Json) (l : List α) : Json := Json.arr (l.map f).toArray
def ok (j : Json) : Json := Json.mkObj [("ok", j)]
def err (s : String) : Json := Json.mkObj [("err", Json.str s)]

/-- Exact rationals travel as `[num, den]` integer pairs. -/
def ratOf (j : Json) : Except String Rat := do
  match ← arrOf j with
  | [n, d] => do
    let n ← n.getInt?
    let d ← d.getNat?
    if d = 0 then throw "zero denominator" else return mkRat n d
  | _ => throw "rat: expected [num, den]"

def jRat (q : Rat) : Json := Json.arr #[jInt q.num, jNat q.den]

def ratList (j : Json) : Except String (List Rat) := do (← arrOf j).mapM ratOf
def getRat (j : Json) (k : String) : Except String Rat := do ratOf (← j.getObjVal? k)
def getRatList (j : Json) (k : String) : Except String (List Rat) := do ratList (← j.getObjVal? k)
def getRatMat (j : Json) (k : String) : Except String (List (List Rat)) := do
  (← arrOf (← j.getObjVal? k)).mapM ratList

end Drv
