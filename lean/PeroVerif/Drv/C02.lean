import PeroVerif.Drv.Common
import PeroVerif.Model.PrefixBeam
import PeroVerif.Model.Bag
open Lean Drv

namespace Drv.C02
open PB

def ratOps : Ops Rat := { zero := 0, one := 1, add := (· + ·), mul := (· * ·), lt := fun a b => decide (a < b) }
def ratFOps : Bag.FOps Rat := { ratOps with div := (· / ·) }

structure Toy where
  m : Nat
  table : List Rat
  eos : List Rat
  bonus : Rat

/-- history-hash toy LM: the state is a polynomial hash of the whole prefix -/
def toyLM (t : Toy) : LM Nat Rat :=
  { adv := fun h c => (h * 31 + c + 7) % t.m
    prob := fun h c => t.table.getD ((h * 13 + c * 5) % t.table.length) 0 * t.bonus
    eos := fun h => t.eos.getD (h % t.eos.length) 0 }

def unitLM : LM Nat Rat := { adv := fun _ _ => 0, prob := fun _ _ => 1, eos := fun _ => 1 }

/-- smallest relative margin between the last kept and the first dropped candidate over all frames -/
def cutMargin (lm : LM Nat Rat) (sel : Rat → Bool) (k : Nat) (key : Entry Nat Rat → Rat)
    (beam : List (Entry Nat Rat)) (row : List Rat) : Option Rat :=
  let S := selected ratOps sel row
  if S.isEmpty then none else
  let pos := (candidates ratOps lm S beam row).filter fun c => ratOps.lt 0 (score ratOps c)
  let kk := min k pos.length
  let sorted := (pos.map key).mergeSort fun a b => decide (a ≥ b)
  match sorted[kk - 1]?, sorted[kk]? with
  | some a, some b => if a = 0 then some 0 else some ((a - b) / a)
  | _, _ => none

def optMin : Option Rat → Option Rat → Option Rat
  | none, x => x
  | x, none => x
  | some a, some b => some (min a b)

def handle : Handler := fun j => do
  let op ← getStr j "op"
  match op with
  | "decode" =>
    let M ← getRatMat j "M"
    let k ← getNat j "k"
    let thr ← getRat j "thr"
    let tol ← getRat j "tol"
    let lmj ← j.getObjVal? "lm"
    let sel : Rat → Bool := fun p => decide (p > thr)
    let (lm, h0, num, den, modelEos) ←
      if lmj.isNull then pure (unitLM, 0, 0, 1, false)
      else do
        let t : Toy := { m := ← getNat lmj "m", table := ← getRatList lmj "table", eos := ← getRatList lmj "eos",
                         bonus := ← getRat lmj "bonus" }
        pure (toyLM t, ← getNat lmj "h0", ← getNat lmj "num", ← getNat lmj "den", ← getBool lmj "model_eos")
    let key := fusedKey ratOps num den (H := Nat)
    let choose := fun k l => topK ratOps key k l
    if unnormalised ratOps tol M then return err "reject" else
    -- run frame by frame to report the cut margins
    let (beam, margin) := M.foldl
      (fun (st : List (Entry Nat Rat) × Option Rat) row =>
        (step ratOps lm sel k choose st.1 row, optMin st.2 (cutMargin lm sel k key st.1 row)))
      (init ratOps h0, none)
    let hyps := finish ratOps lm modelEos beam
    let keyH := fun (x : Hyp Nat Rat) => powN ratOps x.vis den * powN ratOps x.lm num
    let bestI := Bag.argmaxIdx ratOps.lt (hyps.map keyH)
    -- posteriors only for integer LM weights (den = 1): total = vis * lm^num
    let post := if den = 1 then Bag.posteriors ratFOps (hyps.map keyH) else []
    return ok (Json.mkObj [
      ("hyps", jList (fun (x : Hyp Nat Rat) => Json.arr #[jNats x.pre, jRat x.vis, jRat x.lm, jNat x.h]) hyps),
      ("margin", match margin with | none => Json.null | some q => jRat q),
      ("best", jOptNat bestI),
      ("posteriors", jList jRat post)])
  | "trace" =>
    -- the beam after every frame (prefix, Pb, Pnb, Plm, LM state) and the cut margin of that frame
    let M ← getRatMat j "M"
    let k ← getNat j "k"
    let thr ← getRat j "thr"
    let lmj ← j.getObjVal? "lm"
    let sel : Rat → Bool := fun p => decide (p > thr)
    let (lm, h0, num, den) ←
      if lmj.isNull then pure (unitLM, 0, 0, 1)
      else do
        let t : Toy := { m := ← getNat lmj "m", table := ← getRatList lmj "table", eos := ← getRatList lmj "eos",
                         bonus := ← getRat lmj "bonus" }
        pure (toyLM t, ← getNat lmj "h0", ← getNat lmj "num", ← getNat lmj "den")
    let key := fusedKey ratOps num den (H := Nat)
    let choose := fun k l => topK ratOps key k l
    let (_, frames) := M.foldl
      (fun (st : List (Entry Nat Rat) × List Json) row =>
        let b := step ratOps lm sel k choose st.1 row
        let mg := cutMargin lm sel k key st.1 row
        (b, st.2 ++ [Json.mkObj [
          ("beam", jList (fun (e : Entry Nat Rat) => Json.arr #[jNats e.pre, jRat e.pb, jRat e.pnb, jRat e.plm, jNat e.h]) b),
          ("margin", match mg with | none => Json.null | some q => jRat q)]]))
      (init ratOps h0, [])
    return ok (Json.arr frames.toArray)
  | _ => throw s!"C02: unknown op {op}"

end Drv.C02
