/-
Specification side of C14: which strings can be read from a confusion network.
-/
import PeroVerif.Model.ConfNet
namespace CN
variable {W : Type}

/-- A string is readable from a network: choose one arc per position, drop the epsilons. -/
def Readable : Net W → List Nat → Prop
  | [], w => w = []
  | p :: ps, w => ∃ a ∈ Py.Dict.keys p, ∃ w', Readable ps w' ∧ w = a.toList ++ w'

/-- every position has at least one arc (so `get_pivot` never fails) -/
def WFNet (cn : Net W) : Prop := ∀ p ∈ cn, p ≠ []

/-- every position carries the same total weight `T` -/
def Uniform (o : WOps W) (cn : Net W) (T : W) : Prop := ∀ p ∈ cn, posTotal o p = T

end CN
