/-
Specification side of C03: the LM's own score of a transcript from a start state.
-/
import PeroVerif.Model.PrefixBeam
namespace PB
variable {H R : Type}

/-- product (log domain: sum) of the LM's per-character scores along `ℓ` from state `h`;
`lm.prob` includes the insertion-bonus factor per character. -/
def lmScore (o : Ops R) (lm : LM H R) : H → List Nat → R
  | _, [] => o.one
  | h, c :: r => o.mul (lm.prob h c) (lmScore o lm (lm.adv h c) r)

/-- LM state after reading `ℓ` from `h`. -/
def lmState (lm : LM H R) (h : H) (ℓ : List Nat) : H := ℓ.foldl lm.adv h

end PB
