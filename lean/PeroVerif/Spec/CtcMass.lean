/-
Specification side of C02: the true CTC probability of a transcript as the sum over ALL frame paths
that collapse to it.  Nothing here mentions beams.  (Mathlib: list sums/products in a semiring.)
-/
import Mathlib.Algebra.BigOperators.Group.List.Basic
import Mathlib.Algebra.Ring.Defs
import PeroVerif.Model.Ctc
import PeroVerif.Model.PrefixBeam

namespace Ctc
variable {R : Type} [CommSemiring R]

/-- all symbol sequences of length `T` over `C` symbols -/
def paths (C : ℕ) : ℕ → List (List ℕ)
  | 0 => [[]]
  | T + 1 => (paths C T).flatMap fun p => (List.range C).map fun s => p ++ [s]

/-- `Π_t M[t][π_t]` -/
def weight (M : List (List R)) (p : List ℕ) : R :=
  (List.zipWith (fun row s => row.getD s 0) M p).prod

/-- sum of the weights of the length-`|M|` paths satisfying `P` -/
def massP (C : ℕ) (M : List (List R)) (P : List ℕ → Prop) [DecidablePred P] : R :=
  ((paths C M.length).map fun p => if P p then weight M p else 0).sum

/-- a path "ends in blank" (the empty path counts as such: initially `Pb = 1`, `Pnb = 0`) -/
def endsBlank (blank : ℕ) (p : List ℕ) : Prop := p.getLast?.getD blank = blank

instance (blank : ℕ) (p : List ℕ) : Decidable (endsBlank blank p) := by unfold endsBlank; infer_instance

/-- true CTC probability of transcript `ℓ` -/
def mass (C blank : ℕ) (M : List (List R)) (ℓ : List ℕ) : R :=
  massP C M fun p => collapse blank p = ℓ

def massB (C blank : ℕ) (M : List (List R)) (ℓ : List ℕ) : R :=
  massP C M fun p => collapse blank p = ℓ ∧ endsBlank blank p

def massNB (C blank : ℕ) (M : List (List R)) (ℓ : List ℕ) : R :=
  massP C M fun p => collapse blank p = ℓ ∧ ¬ endsBlank blank p

end Ctc

namespace PB
/-- The operations record of an ordered commutative semiring (what the theorems are proved for);
`Drv.C02.ratOps` is this record at `ℚ`. -/
def Ops.of (R : Type) [CommSemiring R] [LinearOrder R] : Ops R :=
  { zero := 0, one := 1, add := (· + ·), mul := (· * ·), lt := fun a b => decide (a < b) }
end PB
