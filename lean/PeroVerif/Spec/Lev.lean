/-
Specification side of C13: explicit alignments and their cost.  Nothing here mentions the DP.
-/
import PeroVerif.Model.Lev
namespace Lev
variable {α : Type}

/-- An alignment is a list of edit steps; `(some a, some b)` match/substitution, `(some a, none)`
deletion of a source symbol, `(none, some b)` insertion of a target symbol. -/
abbrev Alignment (α : Type) := List (Option α × Option α)

def srcOf (al : Alignment α) : List α := al.filterMap Prod.fst
def tgtOf (al : Alignment α) : List α := al.filterMap Prod.snd

def stepCost [DecidableEq α] (c : Costs) : Option α × Option α → Nat
  | (some a, some b) => if a = b then 0 else c.sub
  | (none, some _)   => c.ins
  | (some _, none)   => c.del
  | (none, none)     => 0

def cost [DecidableEq α] (c : Costs) (al : Alignment α) : Nat := (al.map (stepCost c)).sum

/-- No vacuous `(none, none)` step. -/
def WellFormed (al : Alignment α) : Prop := ∀ p ∈ al, p ≠ (none, none)

/-- `v` is the minimum alignment cost of `s` against `t`. -/
def IsMin [DecidableEq α] (c : Costs) (s t : List α) (v : Nat) : Prop :=
  (∃ al : Alignment α, WellFormed al ∧ srcOf al = s ∧ tgtOf al = t ∧ cost c al = v) ∧
  (∀ al : Alignment α, WellFormed al → srcOf al = s → tgtOf al = t → v ≤ cost c al)

/-- Cost of a `1 / 0 / -1` path replayed against the two sequences (`none`: the path does not fit). -/
def pathCost [DecidableEq α] (c : Costs) : List α → List α → List Int → Option Nat
  | [], [], [] => some 0
  | x :: s, t, 1 :: p => (pathCost c s t p).map (· + c.del)
  | s, y :: t, (-1) :: p => (pathCost c s t p).map (· + c.ins)
  | x :: s, y :: t, 0 :: p => (pathCost c s t p).map (· + (if x = y then 0 else c.sub))
  | _, _, _ => none

end Lev
