/-
C19 — property theorems (statements fixed by the architect; do not weaken).
Helper lemmas: PeroVerif/Lemmas/MergeEngines.lean.
-/
import Mathlib.Order.Basic
import PeroVerif.Model.MergeEngines
import PeroVerif.Lemmas.MergeEngines

namespace C19
open ME
variable {Q T L K G : Type} [LinearOrder Q]

def ltB (a b : Q) : Bool := decide (a < b)

/-- Index of the first engine attaining the maximum confidence. -/
def IsFirstMax (cs : List Q) (j : ℕ) : Prop :=
  ∃ hj : j < cs.length, (∀ i (hi : i < cs.length), cs[i] ≤ cs[j]) ∧ (∀ i (hi : i < j), cs[i]'(by omega) < cs[j])

theorem ltB_iff (a b : Q) : ltB a b = true ↔ a < b := by
  simp [ltB]

/-- If some engine has positive confidence, text, logits, character table and the recorded
confidence all come from the SAME engine: the first one attaining the maximum. -/
theorem merge_picks_first_max (zero : Q) (engines : List (Line Q T L K G × Q)) (j : ℕ)
    (hj : IsFirstMax (engines.map (·.2)) j) (hpos : zero < (engines.map (·.2)).getD j zero) :
    ∃ (m : Line Q T L K G) (e : Line Q T L K G × Q),
      mergeLine ltB zero engines = some m ∧ engines[j]? = some e ∧
      m.text = e.1.text ∧ m.logits = e.1.logits ∧ m.chars = e.1.chars ∧ m.tconf = some e.2 := by
  obtain ⟨hjl, hmax, hfirst⟩ := hj
  have hjl' : j < engines.length := by simpa using hjl
  have hpos' : zero < engines[j].2 := by
    simpa [List.getD_eq_getElem?_getD, List.getElem?_eq_getElem hjl'] using hpos
  have hmax' : ∀ i (hi : i < engines.length), engines[i].2 ≤ engines[j].2 := by
    intro i hi
    have := hmax i (by simpa using hi)
    simpa using this
  have hfirst' : ∀ i (hi : i < j), (engines[i]'(by omega)).2 < engines[j].2 := by
    intro i hi
    have := hfirst i hi
    simpa using this
  cases engines with
  | nil => simp at hjl'
  | cons e0 rest =>
    have key := foldl_first_max ltB ltB_iff (e0 :: rest) (zero, e0.1) j hjl' hmax' hfirst' hpos'
    refine ⟨((e0 :: rest).foldl (mergeStep ltB) (zero, e0.1)).2, (e0 :: rest)[j], rfl,
      List.getElem?_eq_getElem hjl', key⟩

/-- If no engine has positive confidence the line keeps the first layout's fields untouched. -/
theorem merge_none_positive (zero : Q) (e0 : Line Q T L K G × Q) (rest : List (Line Q T L K G × Q))
    (h : ∀ e ∈ e0 :: rest, e.2 ≤ zero) :
    mergeLine ltB zero (e0 :: rest) = some e0.1 := by
  show some ((e0 :: rest).foldl (mergeStep ltB) (zero, e0.1)).2 = some e0.1
  rw [foldl_no_improve ltB ltB_iff (e0 :: rest) (zero, e0.1) h]

/-- Ids and geometry are those of the first layout, always. -/
theorem merge_ids_geometry (zero : Q) (e0 : Line Q T L K G × Q) (rest : List (Line Q T L K G × Q)) :
    ∃ m, mergeLine ltB zero (e0 :: rest) = some m ∧ m.id = e0.1.id ∧ m.geom = e0.1.geom :=
  ⟨_, rfl, foldl_id_geom ltB (e0 :: rest) (zero, e0.1)⟩

/-- Merging a result with (copies of) itself changes nothing but the recorded confidence. -/
theorem merge_self (zero : Q) (l : Line Q T L K G) (c : Q) (n : ℕ) :
    ∃ m, mergeLine ltB zero (List.replicate (n + 1) (l, c)) = some m ∧
      m.id = l.id ∧ m.geom = l.geom ∧ m.text = l.text ∧ m.logits = l.logits ∧ m.chars = l.chars ∧
      m.tconf = (if zero < c then some c else l.tconf) := by
  refine ⟨((List.replicate (n + 1) (l, c)).foldl (mergeStep ltB) (zero, l)).2, rfl, ?_⟩
  rw [List.replicate_succ, List.foldl_cons]
  by_cases hc : zero < c
  · rw [mergeStep_of_lt ltB ltB_iff (zero, l) (l, c) hc, foldl_no_improve ltB ltB_iff]
    · simp [hc]
    · intro e he
      rw [List.eq_of_mem_replicate he]
  · rw [mergeStep_of_le ltB ltB_iff (zero, l) (l, c) (not_lt.mp hc), foldl_no_improve ltB ltB_iff]
    · simp [hc]
    · intro e he
      rw [List.eq_of_mem_replicate he]
      exact not_lt.mp hc

/-- A single layout is returned as it is (up to the recorded confidence). -/
theorem merge_single (zero : Q) (l : Line Q T L K G) (c : Q) :
    mergeLine ltB zero [(l, c)] = some (if zero < c then { l with tconf := some c } else l) := by
  show some (mergeStep ltB (zero, l) (l, c)).2 = _
  by_cases hc : zero < c
  · rw [mergeStep_of_lt ltB ltB_iff (zero, l) (l, c) hc]
    simp [hc]
  · rw [mergeStep_of_le ltB ltB_iff (zero, l) (l, c) (not_lt.mp hc)]
    simp [hc]


/-- Chained merging (a merged layout goes through the merger again, together with further engines): it gives exactly the
line that merging all engines at once gives.  The merged line is presented with the confidence of the content it carries
(`get_confidences` is a function of text, logits and character table): the running maximum if some engine was positive,
otherwise the first engine's own confidence. -/
theorem merge_chain (zero : Q) (e0 : Line Q T L K G × Q) (pre post : List (Line Q T L K G × Q)) :
    let st := (e0 :: pre).foldl (mergeStep ltB) (zero, e0.1)
    let cm := if zero < st.1 then st.1 else e0.2
    mergeLine ltB zero ((st.2, cm) :: post) = mergeLine ltB zero (e0 :: pre ++ post) := by
  intro st cm
  obtain ⟨h1, h2, h3⟩ := foldl_inv ltB ltB_iff zero e0.1 (e0 :: pre)
  have hstep : mergeStep ltB (zero, st.2) (st.2, cm) = st :=
    mergeStep_restart ltB ltB_iff zero st e0.2 h1 h2 (fun hn => (h3 hn).2 e0 (by simp))
  show some (((st.2, cm) :: post).foldl (mergeStep ltB) (zero, st.2)).2 =
    some ((e0 :: (pre ++ post)).foldl (mergeStep ltB) (zero, e0.1)).2
  rw [List.foldl_cons, hstep, ← List.cons_append, List.foldl_append]

/-- In particular merging a merged layout with itself changes nothing at all (not even the recorded confidence). -/
theorem merge_chain_self (zero : Q) (e0 : Line Q T L K G × Q) (pre : List (Line Q T L K G × Q)) (n : ℕ) :
    let st := (e0 :: pre).foldl (mergeStep ltB) (zero, e0.1)
    let cm := if zero < st.1 then st.1 else e0.2
    mergeLine ltB zero (List.replicate (n + 1) (st.2, cm)) = mergeLine ltB zero (e0 :: pre) := by
  intro st cm
  obtain ⟨h1, h2, h3⟩ := foldl_inv ltB ltB_iff zero e0.1 (e0 :: pre)
  have h3' : ¬ zero < st.1 → e0.2 ≤ zero := fun hn => (h3 hn).2 e0 (by simp)
  have hstep : mergeStep ltB (zero, st.2) (st.2, cm) = st :=
    mergeStep_restart ltB ltB_iff zero st e0.2 h1 h2 h3'
  have hcm : cm ≤ st.1 := restart_conf_le zero st.1 e0.2 h3' h1
  show some ((List.replicate (n + 1) (st.2, cm)).foldl (mergeStep ltB) (zero, st.2)).2 = some st.2
  rw [List.replicate_succ, List.foldl_cons, hstep, foldl_no_improve ltB ltB_iff]
  intro e he
  rw [List.eq_of_mem_replicate he]
  exact hcm

end C19
