import PeroVerif.Model.Arabic
namespace C06
theorem placeholder : (1:Nat) = 1 := rfl
end C06
