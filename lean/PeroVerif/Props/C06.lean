/-
C06 — property theorems (statements fixed by the architect; do not weaken).
`Gen.Alto.sepIsSpace` is GENERATED from the source on every run; it may be evaluated ONLY in
`sep_is_space` (by `rfl`); lemmas that need it take it as a hypothesis.
Helper lemmas: PeroVerif/Lemmas/Arabic.lean and PeroVerif/Lemmas/AltoText.lean.
-/
import PeroVerif.Model.Arabic
import PeroVerif.Model.AltoText
import PeroVerif.Lemmas.Arabic
import PeroVerif.Lemmas.AltoText
import PeroVerif.Props.C05
import PeroVerif.Props.C16

namespace C06
open Py

/-! ### the Arabic logical/label order conversion -/

/-- only reorders characters: none added, dropped or changed — for every classification -/
theorem reverse_perm (isA isD : Nat → Bool) (s : List Nat) : (Ar.reverse isA isD s).Perm s := by
  rw [Ar.reverse_eq_spec]; exact Ar.spec_perm isA isD s

/-- applying it twice returns the original string — for every string mixing Arabic words, other
words, numbers, delimiters and blanks (incl. leading/trailing delimiters), provided no character is
both Arabic and a delimiter (true of the real tables; checked at run time) -/
theorem reverse_involutive (isA isD : Nat → Bool) (hdisj : ∀ c, ¬ (isA c = true ∧ isD c = true))
    (s : List Nat) : Ar.reverse isA isD (Ar.reverse isA isD s) = s := by
  have _ := hdisj  -- not needed: the machine tests `isA` first, so the classes are disjoint anyway
  rw [Ar.reverse_eq_spec, Ar.reverse_eq_spec]; exact Ar.spec_involutive isA isD s

/-! ### words of a line -/

/-- obligation on the generated flag: word spans are cut at the same white space as `str.split()` -/
theorem sep_is_space : Gen.Alto.sepIsSpace = true := rfl

/-- `str.split()` neither loses nor invents nor reorders non-blank characters, and its words are
non-empty and blank-free -/
theorem pySplit_spec (isSpace : Nat → Bool) (s : Str) :
    (Alto.pySplit isSpace s).flatten = s.filter (fun c => !isSpace c) ∧
    ∀ w ∈ Alto.pySplit isSpace s, w ≠ [] ∧ ∀ c ∈ w, isSpace c = false := by
  refine ⟨?_, ?_⟩
  · simpa [Alto.pySplit] using Alto.pySplitAux_flatten isSpace s []
  · exact Alto.pySplitAux_words isSpace s [] (by simp)

/-- as many word spans as words -/
theorem spans_length (isSpace : Nat → Bool) (s : Str) :
    (Alto.spans (Alto.spaceIdxs isSpace s)).length = (Alto.pySplit isSpace s).length := 
  Alto.spans_length sep_is_space isSpace s

/-- In BOTH branches (alignable or not) the export never raises and the String contents are exactly
the whitespace-separated words of the transcription, each through the order conversion. -/
theorem words_eq_split (isSpace : Nat → Bool) (conv : Str → Str) (aligned : Bool) (s : Str) :
    ∃ n, Alto.lineWords isSpace conv aligned s = .words ((Alto.pySplit isSpace s).map conv) n ∧
      (aligned = true → n = (Alto.pySplit isSpace s).length - 1) := 
  Alto.lineWords_eq sep_is_space isSpace conv aligned s

/-- a line is exported iff its transcription has a non-blank character -/
theorem exported_iff (isSpace : Nat → Bool) (s : Str) :
    Alto.exported isSpace (some s) = true ↔ Alto.pySplit isSpace s ≠ [] := by
  have h := Alto.pySplitAux_eq_nil isSpace s []
  simp only [true_and] at h
  simp only [Alto.exported, Alto.pySplit, ne_eq, h]
  cases List.all s isSpace <;> simp

/-! ### print space and margins -/

/-- a block lies inside an `H × W` page -/
def Inside (H W : Int) (b : Alto.Box) : Prop :=
  0 ≤ b.height ∧ 0 ≤ b.width ∧ 0 ≤ b.vpos ∧ 0 ≤ b.hpos ∧ b.vpos + b.height ≤ H ∧ b.hpos + b.width ≤ W

/-- `get_hwvh` is the bounding box of the polygon -/
theorem hwvh_bbox (poly : List (Int × Int)) (h : poly ≠ []) :
    let b := Alto.hwvh poly
    (∀ p ∈ poly, b.hpos ≤ p.1 ∧ p.1 ≤ b.hpos + b.width ∧ b.vpos ≤ p.2 ∧ p.2 ≤ b.vpos + b.height) ∧
    (∃ p ∈ poly, p.1 = b.hpos) ∧ (∃ p ∈ poly, p.1 = b.hpos + b.width) ∧
    (∃ p ∈ poly, p.2 = b.vpos) ∧ (∃ p ∈ poly, p.2 = b.vpos + b.height) := by
  have hx : poly.map (·.1) ≠ [] := by simpa using h
  have hy : poly.map (·.2) ≠ [] := by simpa using h
  obtain ⟨xMm, xMb⟩ := Alto.maxL_spec 0 _ hx
  obtain ⟨xmm, xmb⟩ := Alto.minL_spec 0 _ hx
  obtain ⟨yMm, yMb⟩ := Alto.maxL_spec 0 _ hy
  obtain ⟨ymm, ymb⟩ := Alto.minL_spec 0 _ hy
  simp only [Alto.hwvh]
  refine ⟨?_, ?_, ?_, ?_, ?_⟩
  · intro p hp
    have h1 := xMb p.1 (List.mem_map_of_mem hp)
    have h2 := xmb p.1 (List.mem_map_of_mem hp)
    have h3 := yMb p.2 (List.mem_map_of_mem hp)
    have h4 := ymb p.2 (List.mem_map_of_mem hp)
    omega
  · obtain ⟨p, hp, e⟩ := List.mem_map.mp xmm
    exact ⟨p, hp, e⟩
  · obtain ⟨p, hp, e⟩ := List.mem_map.mp xMm
    exact ⟨p, hp, by omega⟩
  · obtain ⟨p, hp, e⟩ := List.mem_map.mp ymm
    exact ⟨p, hp, e⟩
  · obtain ⟨p, hp, e⟩ := List.mem_map.mp yMm
    exact ⟨p, hp, by omega⟩

/-- The print space is the bounding box of the text blocks: it contains every block and each of its
four sides touches some block. -/
theorem printspace_is_bbox (H W : Int) (blocks : List Alto.Box) (hne : blocks ≠ [])
    (hin : ∀ b ∈ blocks, Inside H W b) :
    let p := Alto.printSpace H W blocks
    (∀ b ∈ blocks, p.vpos ≤ b.vpos ∧ p.hpos ≤ b.hpos ∧ b.vpos + b.height ≤ p.vpos + p.height ∧
        b.hpos + b.width ≤ p.hpos + p.width) ∧
    (∃ b ∈ blocks, b.vpos = p.vpos) ∧ (∃ b ∈ blocks, b.hpos = p.hpos) ∧
    (∃ b ∈ blocks, b.vpos + b.height = p.vpos + p.height) ∧
    (∃ b ∈ blocks, b.hpos + b.width = p.hpos + p.width) := by
  obtain ⟨hv, hh, hb, hr⟩ := Alto.printSpace_facts H W blocks hne hin
  obtain ⟨eh, ew⟩ := Alto.psFold_hw blocks hne ⟨0, 0, H, W, 0, 0⟩
  simp only [Alto.printSpace] at *
  obtain ⟨⟨-, v2, -⟩, ⟨-, h2, -⟩, ⟨-, b2, -⟩, ⟨-, r2, -⟩⟩ := Alto.psFold_spec blocks ⟨0, 0, H, W, 0, 0⟩
  refine ⟨?_, hv, hh, ?_, ?_⟩
  · intro b hb'
    have := v2 b hb'; have := h2 b hb'; have := b2 b hb'; have := r2 b hb'
    clear hv hh hb hr
    omega
  · obtain ⟨b, hb', e⟩ := hb
    exact ⟨b, hb', by omega⟩
  · obtain ⟨b, hb', e⟩ := hr
    exact ⟨b, hb', by omega⟩

/-- The four margins cover the rest of the page: together with the print space's column/row they
tile `H × W` (top above, bottom below, left and right full height). -/
theorem margins_cover (H W : Int) (blocks : List Alto.Box) (hne : blocks ≠ [])
    (hin : ∀ b ∈ blocks, Inside H W b) :
    let p := Alto.printSpace H W blocks
    Alto.margins H W p =
      [⟨p.vpos, W, 0, 0⟩, ⟨H, p.hpos, 0, 0⟩, ⟨H, W - (p.hpos + p.width), 0, p.hpos + p.width⟩,
       ⟨H - (p.vpos + p.height), W, p.vpos + p.height, 0⟩] ∧
    0 ≤ p.vpos ∧ 0 ≤ p.hpos ∧ 0 ≤ W - (p.hpos + p.width) ∧ 0 ≤ H - (p.vpos + p.height) := by
  obtain ⟨⟨bv, hbv, ev⟩, ⟨bh, hbh, eh'⟩, ⟨bb, hbb, eb⟩, ⟨br, hbr, er⟩⟩ :=
    Alto.printSpace_facts H W blocks hne hin
  obtain ⟨eh, ew⟩ := Alto.psFold_hw blocks hne ⟨0, 0, H, W, 0, 0⟩
  have i1 := hin bv hbv; have i2 := hin bh hbh; have i3 := hin bb hbb; have i4 := hin br hbr
  simp only [Inside, Alto.printSpace] at *
  refine ⟨rfl, ?_, ?_, ?_, ?_⟩ <;> omega

/-! ### the aligned branch cannot fail in the confidence computation (C05 + C16 composed) -/

/-- Whenever `align_text` succeeds on a line, `get_line_confidence` with that alignment is defined on
any posterior matrix with the same number of frames, returns one value per character, all in [0, 1]: the
aligned branch of the ALTO export cannot raise there. -/
theorem alto_confidence_total {R : Type} [Field R] [LinearOrder R] [IsStrictOrderedRing R]
    (C : Nat) (hC : 2 ≤ C) (M : List (List FA.Cost)) (probs : List (List R)) (labels : List Nat) (blank : Nat)
    (ps : List (Option Nat)) (hp : C16.Probs C probs) (hlen : probs.length = M.length)
    (hlab : ∀ l ∈ labels, l < C) (h : FA.alignText M labels blank = .ok ps) :
    ∃ qs cs, ps = qs.map some ∧ Conf.getLineConfidence (C16.COps.of R) probs labels qs = some cs ∧
      cs.length = labels.length ∧ ∀ c ∈ cs, 0 ≤ c ∧ c ≤ 1 := by
  obtain ⟨qs, pos, hpos, hps, hql, hpw, hq⟩ := C05.positions_spec M labels blank ps h
  obtain ⟨p, hsp, rfl⟩ := FA.forceAlignPos_ok hpos
  obtain ⟨_, _, frames, hm, hv⟩ := FA.statePath_ok hsp
  have hpl : p.length = M.length := by
    rw [(FA.viterbi_ok hv).2.2.1, FA.mapM_expand_length hm]
  have hT : ∀ a ∈ qs, a < probs.length := by
    intro a ha
    obtain ⟨i, hi, rfl⟩ := List.getElem_of_mem ha
    have h1 := (hq i hi).1
    have h2 : qs[i] < (p.map FA.posOf).length := by
      by_contra hcon
      rw [List.getElem?_eq_none (by omega)] at h1
      cases h1
    rw [List.length_map] at h2
    omega
  have hdef : ∃ cs, Conf.getLineConfidence (C16.COps.of R) probs labels qs = some cs := by
    unfold Conf.getLineConfidence
    split
    · rename_i he
      exact Conf.transformer_definedL (fun row hr => (hp row hr).1) he hlab
    · exact C16.lineConfidence_defined C hC probs labels qs hp hql.symm hlab hpw hT
  obtain ⟨cs, hcs⟩ := hdef
  exact ⟨qs, cs, hps, hcs, C16.lineConfidence_range C probs labels qs cs hp hcs⟩

/-! ### re-import (`from_altoxml`): the String contents of a line are joined by single blanks -/

/-- Splitting the re-imported transcription returns exactly the exported words, for every list of non-empty, blank-free
words (what `words_eq_split` / `pySplit_spec` guarantee for the export; the order conversion only permutes characters). -/
theorem reimport_words (isSpace : Nat → Bool) (h32 : isSpace 32 = true) (ws : List Str)
    (hws : ∀ w ∈ ws, w ≠ [] ∧ ∀ c ∈ w, isSpace c = false) :
    Alto.pySplit isSpace (Alto.reimportLine ws) = ws :=
  Alto.pySplit_reimport isSpace h32 ws hws

/-- Export followed by re-import returns the same words for every transcription. -/
theorem reimport_roundtrip (isSpace : Nat → Bool) (h32 : isSpace 32 = true) (s : Str) :
    Alto.pySplit isSpace (Alto.reimportLine (Alto.pySplit isSpace s)) = Alto.pySplit isSpace s :=
  Alto.pySplit_reimport isSpace h32 _ (pySplit_spec isSpace s).2

/-- non-vacuity: "ab  c" (two blanks) exports the words ab, c and re-imports as "ab c" -/
example : Alto.reimportLine (Alto.pySplit (· == 32) [97, 98, 32, 32, 99]) = [97, 98, 32, 99] := by decide

end C06
