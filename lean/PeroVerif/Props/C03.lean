import PeroVerif.Model.PrefixBeam
import PeroVerif.Model.Bag
namespace C03
theorem placeholder : (1:Nat) = 1 := rfl
end C03
