/-
C03 — property theorems (statements fixed by the architect; do not weaken).
Helper lemmas: PeroVerif/Lemmas/Lm.lean.
-/
import Mathlib.Algebra.Order.Field.Basic
import PeroVerif.Model.PrefixBeam
import PeroVerif.Model.Bag
import PeroVerif.Spec.CtcMass
import PeroVerif.Spec.Lm
import PeroVerif.Lemmas.Lm

-- the fixed statements carry section instances / hypotheses that some proofs do not need
set_option linter.unusedSectionVars false
set_option linter.unusedVariables false

namespace C03
open PB

section Semiring
variable {R : Type} [CommSemiring R] [LinearOrder R] [IsStrictOrderedRing R]
variable {H : Type}

/-- Any cut that only selects among its candidates (all `IsCut` cuts of C02 do). -/
def Selects (choose : ℕ → List (Entry H R) → List (Entry H R)) : Prop :=
  ∀ k l, ∀ e ∈ choose k l, e ∈ l

def beamOf (lm : LM H R) (sel : R → Bool) (k : ℕ) (choose : ℕ → List (Entry H R) → List (Entry H R))
    (h0 : H) (M : List (List R)) : List (Entry H R) :=
  M.foldl (step (Ops.of R) lm sel k choose) (init (Ops.of R) h0)

/-- Whatever route the search took: the LM score and LM state of every beam entry are functions of
its prefix alone — the LM's own score / state along that prefix from the start state. -/
theorem plm_is_lm_score (lm : LM H R) (sel : R → Bool) (k : ℕ)
    (choose : ℕ → List (Entry H R) → List (Entry H R)) (hs : Selects choose) (h0 : H)
    (M : List (List R)) :
    ∀ e ∈ beamOf lm sel k choose h0 M,
      e.h = lmState lm h0 e.pre ∧ e.plm = lmScore (Ops.of R) lm h0 e.pre :=
  LmL.inv_foldl lm h0 sel k choose hs M _ (LmL.inv_init lm h0)

/-- The reported LM score: the LM's own score, times the end-of-line score when requested. -/
theorem reported_lm_score (lm : LM H R) (sel : R → Bool) (k : ℕ)
    (choose : ℕ → List (Entry H R) → List (Entry H R)) (hs : Selects choose) (h0 : H)
    (modelEos : Bool) (M : List (List R)) :
    ∀ x ∈ finish (Ops.of R) lm modelEos (beamOf lm sel k choose h0 M),
      x.h = lmState lm h0 x.pre ∧
      x.lm = (if modelEos then lmScore (Ops.of R) lm h0 x.pre * lm.eos (lmState lm h0 x.pre)
              else lmScore (Ops.of R) lm h0 x.pre) := by
  intro x hx
  simp only [finish, List.mem_map] at hx
  obtain ⟨e, he, rfl⟩ := hx
  obtain ⟨hh, hp⟩ := plm_is_lm_score lm sel k choose hs h0 M e he
  refine ⟨hh, ?_⟩
  simp only [← hh, ← hp]
  rfl

/-- `argmaxIdx` is Python's first maximum. -/
theorem argmaxIdx_spec (ks : List R) (i : ℕ)
    (h : Bag.argmaxIdx (Ops.of R).lt ks = some i) :
    ∃ hi : i < ks.length, (∀ j (hj : j < ks.length), ks[j] ≤ ks[i]) ∧
      (∀ j (hj : j < i), ks[j]'(by omega) < ks[i]) := by
  obtain ⟨m, hm, hle, hlt⟩ := LmL.argmaxIdx_some ks i h
  obtain ⟨hi, hm'⟩ := List.getElem?_eq_some_iff.mp hm
  refine ⟨hi, ?_, ?_⟩
  · intro j hj
    rw [hm']
    exact hle j _ (List.getElem?_eq_getElem hj)
  · intro j hj
    rw [hm']
    exact hlt j _ hj (List.getElem?_eq_getElem (by omega))

theorem argmaxIdx_none (ks : List R) : Bag.argmaxIdx (Ops.of R).lt ks = none ↔ ks = [] :=
  LmL.argmaxIdx_eq_none _ ks

/-- The decoder picks the returned LM state by first-arg-max over the beam order, `best_hyp()` by
first-arg-max over the bag sorted by visual score: whenever the best total score is attained by a
single hypothesis, both pick that hypothesis. -/
theorem best_independent_of_order {α : Type} [DecidableEq α] (l₁ l₂ : List α) (hp : l₁.Perm l₂)
    (key : α → R) (a : α) (ha : a ∈ l₁) (hmax : ∀ b ∈ l₁, b ≠ a → key b < key a)
    (hu : l₁.count a = 1) :
    (Bag.argmaxIdx (Ops.of R).lt (l₁.map key)).bind (l₁[·]?) = some a ∧
    (Bag.argmaxIdx (Ops.of R).lt (l₂.map key)).bind (l₂[·]?) = some a :=
  ⟨LmL.argmax_unique l₁ key a ha hmax,
   LmL.argmax_unique l₂ key a (hp.mem_iff.mp ha) fun b hb hba => hmax b (hp.mem_iff.mpr hb) hba⟩

/-- LM scale 0: the visual part of the search (prefixes, Pb, Pnb, order) is exactly the LM-free
search, for the executable cut. -/
theorem scale_zero_is_lm_free (lm : LM H R) (sel : R → Bool) (k : ℕ) (h0 : H) (M : List (List R)) :
    (beamOf lm sel k (topK (Ops.of R) (fusedKey (Ops.of R) 0 1)) h0 M).map
        (fun e => (e.pre, e.last, e.pb, e.pnb)) =
    (beamOf (trivialLM (Ops.of R)) sel k (topK (Ops.of R) (fusedKey (Ops.of R) 0 1)) () M).map
        (fun e => (e.pre, e.last, e.pb, e.pnb)) := by
  have h := LmL.foldl_strip lm sel k M (init (Ops.of R) h0)
  have hi : (init (Ops.of R) h0).map LmL.strip = init (Ops.of R) () := rfl
  rw [hi] at h
  unfold beamOf
  rw [h, List.map_map]
  rfl

/-- The fused ranking key is monotone-equivalent to `vis + (num/den)·lm` in the log domain: for
positive scores, `vis₁^den · lm₁^num < vis₂^den · lm₂^num`; with `num = 0` the LM is ignored. -/
theorem fusedKey_zero (e : Entry H R) : fusedKey (Ops.of R) 0 1 e = score (Ops.of R) e := by
  simp [fusedKey, powN, Ops.of]

end Semiring

section Field
variable {R : Type} [Field R] [LinearOrder R] [IsStrictOrderedRing R]

def FOps.of (R : Type) [Field R] [LinearOrder R] : Bag.FOps R :=
  { Ops.of R with div := (· / ·) }

omit [IsStrictOrderedRing R] in
private theorem posteriors_eq (ts : List R) :
    Bag.posteriors (FOps.of R) ts = ts.map fun t => t / ts.sum := by
  simp only [Bag.posteriors, Bag.total, FOps.of, Ops.of]
  rw [LmL.foldl_add_zero]

/-- Posteriors of positive totals are probabilities and sum to 1. -/
theorem posteriors_sum_one (ts : List R) (hpos : ∀ t ∈ ts, 0 < t) (hne : ts ≠ []) :
    (Bag.posteriors (FOps.of R) ts).sum = 1 := by
  rw [posteriors_eq]
  exact LmL.norm_sum_one ts hpos hne

theorem posteriors_range (ts : List R) (hpos : ∀ t ∈ ts, 0 < t) :
    ∀ p ∈ Bag.posteriors (FOps.of R) ts, 0 < p ∧ p ≤ 1 := by
  rw [posteriors_eq]
  exact LmL.norm_range ts hpos

/-- The hypothesis of maximal total score is the one whose posterior is the bag's confidence:
posteriors are the totals divided by one positive constant, so both arg-maxes coincide. -/
theorem confidence_is_best (ts : List R) (hpos : ∀ t ∈ ts, 0 < t) :
    Bag.argmaxIdx (FOps.of R).lt (Bag.posteriors (FOps.of R) ts) = Bag.argmaxIdx (FOps.of R).lt ts ∧
    Bag.confidence (FOps.of R) ts =
      (Bag.argmaxIdx (FOps.of R).lt ts).map fun i => (Bag.posteriors (FOps.of R) ts).getD i 0 := by
  have h1 : Bag.argmaxIdx (FOps.of R).lt (Bag.posteriors (FOps.of R) ts) =
      Bag.argmaxIdx (FOps.of R).lt ts := by
    rw [posteriors_eq]
    exact LmL.argmax_norm ts hpos
  refine ⟨h1, ?_⟩
  unfold Bag.confidence
  rw [h1]
  rfl

theorem confidence_range (ts : List R) (hpos : ∀ t ∈ ts, 0 < t) (c : R)
    (h : Bag.confidence (FOps.of R) ts = some c) : 0 < c ∧ c ≤ 1 := by
  rw [(confidence_is_best ts hpos).2] at h
  cases hi : Bag.argmaxIdx (FOps.of R).lt ts with
  | none => rw [hi] at h; cases h
  | some i =>
    rw [hi] at h
    simp only [Option.map_some, Option.some.injEq] at h
    obtain ⟨m, hm, -, -⟩ := LmL.argmaxIdx_some ts i hi
    have hlt : i < (Bag.posteriors (FOps.of R) ts).length := by
      have := (List.getElem?_eq_some_iff.mp hm).1
      simpa [Bag.posteriors] using this
    apply posteriors_range ts hpos
    rw [← h, List.getD_eq_getElem?_getD, List.getElem?_eq_getElem hlt, Option.getD_some]
    exact List.getElem_mem hlt

end Field

end C03
