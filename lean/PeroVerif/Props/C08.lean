import PeroVerif.Model.PageDecoder
namespace C08
theorem placeholder : (1:Nat) = 1 := rfl
end C08
