/-
C08 — property theorems (statements fixed by the architect; do not weaken).
`Gen.PageDecoder.resetsLastLine` is GENERATED from the source on every run; every proof that needs
it to be `true` must obtain that ONLY through `resets_last_line` below (proved by `rfl`).
Helper lemmas: PeroVerif/Lemmas/PageDecoder.lean.
-/
import PeroVerif.Model.PageDecoder
import PeroVerif.Lemmas.PageDecoder

namespace C08
open PD Py
variable {X H : Type}

/-- obligation on the generated flag -/
theorem resets_last_line : Gen.PageDecoder.resetsLastLine = true := rfl

/-- The output of a page does not depend on the state the decoder instance is in. -/
theorem page_state_independent (e : Env X H) (st st' : St H) (pg : List (Line X)) :
    (processPage e st pg).2 = (processPage e st' pg).2 := by
  rw [processPage_state_indep resets_last_line e st st' pg]

/-- History independence: decoding a page after ANY sequence of other pages (subsets, orders,
repetitions), with or without LM, carry-over, any confident-line marking, gives the result of
decoding it alone on a fresh instance. -/
theorem page_history_independent (e : Env X H) (hist : List (List (Line X))) (pg : List (Line X)) :
    (processPage e (run e hist).1 pg).2 = (processPage e init pg).2 := by
  rw [processPage_state_indep resets_last_line e (run e hist).1 init pg]

/-- The outputs of a whole run are, page by page, those of the pages decoded alone. -/
theorem run_is_pagewise (e : Env X H) (pages : List (List (Line X))) :
    (run e pages).2 = pages.map fun pg => (processPage e init pg).2 :=
  run_pagewise resets_last_line e pages

/-- Processing the same page twice gives identical output. -/
theorem page_idempotent (e : Env X H) (hist : List (List (Line X))) (pg : List (Line X)) :
    (run e (hist ++ [pg, pg])).2.getLast? = (run e (hist ++ [pg])).2.getLast? := by
  have h : hist ++ [pg, pg] = (hist ++ [pg]) ++ [pg] := by
    simp only [List.append_assoc, List.cons_append, List.nil_append]
  rw [h, run_snoc e (hist ++ [pg]) pg, run_snoc e hist pg]
  simp only [List.getLast?_append, List.getLast?_singleton, Option.some_or]
  rw [processPage_state_indep resets_last_line e _ (run e hist).1 pg]

-- `hsub` is part of the fixed statement but not needed by the proof
set_option linter.unusedVariables false in
/-- Any partition of the page list among workers (each worker a fresh instance fed a subsequence, as
`Pool.starmap` does), gives every page the output of the sequential run. -/
theorem partition_independent (e : Env X H) (pages : List (List (Line X))) (worker : List (List (Line X)))
    (hsub : worker.Sublist pages) :
    (run e worker).2 = worker.map fun pg => (processPage e init pg).2 :=
  run_pagewise resets_last_line e worker

/-- one output per line, in line order -/
theorem page_output_length (e : Env X H) (st : St H) (pg : List (Line X)) :
    (processPage e st pg).2.length = pg.length :=
  processPage_length e st pg

/-- Processing a page AGAIN after its results were written back onto its lines (the same page object a second time, a resumed or
repeated run over stored results) gives the same transcriptions: the confident-line test reads the logits only, a confident line
keeps its transcription, a decoded line is decoded from the same context. -/
theorem reprocess_fixpoint (e : Env X H) (st st' : St H) (pg : List (Line X)) :
    (processPage e st' (writeBack pg (processPage e st pg).2)).2 = (processPage e st pg).2 :=
  PD.processPage_writeBack resets_last_line e st st' pg

end C08
