/-
C13 — property theorems (statements fixed by the architect; do not weaken).
Helper lemmas go to PeroVerif/Lemmas/Lev.lean; this file only holds the property theorems and
non-vacuity examples.
-/
import PeroVerif.Model.Lev
import PeroVerif.Spec.Lev
import PeroVerif.Lemmas.Lev
import PeroVerif.Lemmas.LevSub

namespace C13
open Lev
variable {α : Type} [DecidableEq α]

/-- The DP value is a lower bound for EVERY alignment of `s` with `t` (any costs, any lengths). -/
theorem dist_le_cost (c : Costs) (s t : List α) (al : Alignment α)
    (hw : WellFormed al) (hs : srcOf al = s) (ht : tgtOf al = t) :
    dist c s t ≤ cost c al := (dist_isMin c s t).2 al hw hs ht

/-- ... and it is attained: `dist` is the true minimum edit cost. -/
theorem dist_attained (c : Costs) (s t : List α) :
    ∃ al : Alignment α, WellFormed al ∧ srcOf al = s ∧ tgtOf al = t ∧ cost c al = dist c s t :=
  (dist_isMin c s t).1

/-- `levenshtein_alignment` never runs out of the matrix, projects to both inputs and has exactly the
minimum cost. -/
theorem alignment_correct (c : Costs) (s t : List α) :
    ∃ al, alignment c s t = some al ∧ WellFormed al ∧ srcOf al = s ∧ tgtOf al = t ∧
      cost c al = dist c s t := alignment_ok c s t

/-- `levenshtein_alignment_path`: the `1 / 0 / -1` path fits both sequences and replays to the minimum. -/
theorem path_correct (c : Costs) (s t : List α) :
    ∃ p, alignmentPath c s t = some p ∧ pathCost c s t p = some (dist c s t) := by
  obtain ⟨al, hal, hw, hs, ht, hc⟩ := alignment_ok c s t
  refine ⟨pathOf al, by simp [alignmentPath, hal], ?_⟩
  have := pathCost_pathOf c al hw
  rwa [hs, ht, hc] at this

/-- Substring variant: optimal over all infixes of the longer sequence (stated for all costs). -/
theorem substring_optimal (c : Costs) (s t : List α) :
    (∃ u, u <:+: (orient s t).1 ∧ dist c u (orient s t).2 = distSub c s t) ∧
    (∀ u, u <:+: (orient s t).1 → distSub c s t ≤ dist c u (orient s t).2) :=
  distSub_optimal c _ _ _ (distSub_isMinInf c s t)

/-- Unit-cost distance is symmetric (needed because `from_lists` measures `(ref, hyp)` but aligns
`(hyp, ref)`). -/
theorem dist_unit_symm (s t : List α) : dist unit s t = dist unit t s :=
  dist_symm unit rfl s t

/-- A line's error summary: substitutions + insertions + deletions = distance, and the summary is
always produced. -/
theorem stats_sum (ref hyp : List α) :
    ∃ x, Summary.fromLists ref hyp = some x ∧ x.subs + x.inss + x.dels = x.errors ∧
      x.errors = dist unit ref hyp ∧ x.refLen = ref.length ∧ x.lines = 1 := by
  obtain ⟨al, hal, hw, hs, ht, hc⟩ := alignment_ok unit hyp ref
  refine ⟨_, fromLists_eq ref hyp al hal, ?_, rfl, rfl, rfl⟩
  show (editStats al).2.2.2.2 + (editStats al).2.2.1 + (editStats al).2.2.2.1 = dist unit ref hyp
  rw [editStats_sum al hw, hc]
  exact dist_symm unit rfl hyp ref

/-- Aggregation is plain (field-wise) addition. -/
theorem aggregate_append (xs ys : List Summary) :
    Summary.aggregate (xs ++ ys) = (Summary.aggregate xs).add (Summary.aggregate ys) :=
  aggregate_append' xs ys

theorem aggregate_singleton (x : Summary) : Summary.aggregate [x] = x :=
  Summary.zero_add x

/-! Non-vacuity: concrete instances, evaluated by the kernel. -/
example : dist unit [1, 2, 3, 4] [9, 1, 2] = 3 := by decide
example : distSub unit [1, 2, 3, 4] [9, 1, 2] = 1 := by decide
example : alignment unit [1, 2, 3] [1, 3] = some [(some 1, some 1), (some 2, none), (some 3, some 3)] := by decide

/-! ### substring alignment -/

/-- a free pair consumes only the longer sequence (the first one unless the call swapped them) -/
def isFree (swapped : Bool) (p : Option α × Option α) : Bool := if swapped then p.1.isNone else p.2.isNone

/-- `levenshtein_alignment_substring` never runs out of its matrix, projects to both inputs, and once its
free leading and trailing part is removed its cost is exactly the substring optimum. -/
theorem substring_alignment_correct (c : Costs) (s t : List α) :
    ∃ al, alignmentSub c s t = some al ∧ WellFormed al ∧ srcOf al = s ∧ tgtOf al = t ∧
      ∃ pre core suf, al = pre ++ core ++ suf ∧
        (∀ p ∈ pre, isFree (decide (t.length > s.length)) p = true) ∧
        (∀ p ∈ suf, isFree (decide (t.length > s.length)) p = true) ∧
        cost c (if decide (t.length > s.length) then core.map Prod.swap else core) = distSub c s t :=
  alignmentSub_ok c s t

end C13
