/-
C13 — property theorems (statements fixed by the architect; do not weaken).
Helper lemmas go to PeroVerif/Lemmas/Lev.lean; this file only holds the property theorems and
non-vacuity examples.
-/
import PeroVerif.Model.Lev
import PeroVerif.Spec.Lev
import PeroVerif.Lemmas.Lev
import PeroVerif.Lemmas.LevSub
import PeroVerif.Lemmas.LevExtra

namespace C13
open Lev
variable {α : Type} [DecidableEq α]

/-- The DP value is a lower bound for EVERY alignment of `s` with `t` (any costs, any lengths). -/
theorem dist_le_cost (c : Costs) (s t : List α) (al : Alignment α)
    (hw : WellFormed al) (hs : srcOf al = s) (ht : tgtOf al = t) :
    dist c s t ≤ cost c al := (dist_isMin c s t).2 al hw hs ht

/-- ... and it is attained: `dist` is the true minimum edit cost. -/
theorem dist_attained (c : Costs) (s t : List α) :
    ∃ al : Alignment α, WellFormed al ∧ srcOf al = s ∧ tgtOf al = t ∧ cost c al = dist c s t :=
  (dist_isMin c s t).1

/-- `levenshtein_alignment` never runs out of the matrix, projects to both inputs and has exactly the
minimum cost. -/
theorem alignment_correct (c : Costs) (s t : List α) :
    ∃ al, alignment c s t = some al ∧ WellFormed al ∧ srcOf al = s ∧ tgtOf al = t ∧
      cost c al = dist c s t := alignment_ok c s t

/-- `levenshtein_alignment_path`: the `1 / 0 / -1` path fits both sequences and replays to the minimum. -/
theorem path_correct (c : Costs) (s t : List α) :
    ∃ p, alignmentPath c s t = some p ∧ pathCost c s t p = some (dist c s t) := by
  obtain ⟨al, hal, hw, hs, ht, hc⟩ := alignment_ok c s t
  refine ⟨pathOf al, by simp [alignmentPath, hal], ?_⟩
  have := pathCost_pathOf c al hw
  rwa [hs, ht, hc] at this

/-- Substring variant: optimal over all infixes of the longer sequence (stated for all costs). -/
theorem substring_optimal (c : Costs) (s t : List α) :
    (∃ u, u <:+: (orient s t).1 ∧ dist c u (orient s t).2 = distSub c s t) ∧
    (∀ u, u <:+: (orient s t).1 → distSub c s t ≤ dist c u (orient s t).2) :=
  distSub_optimal c _ _ _ (distSub_isMinInf c s t)

/-- Unit-cost distance is symmetric (needed because `from_lists` measures `(ref, hyp)` but aligns
`(hyp, ref)`). -/
theorem dist_unit_symm (s t : List α) : dist unit s t = dist unit t s :=
  dist_symm unit rfl s t

/-- A sequence is at distance 0 from itself, for every cost table. -/
theorem dist_self (c : Costs) (s : List α) : dist c s s = 0 := Lev.dist_self c s

/-- With unit costs, zero errors means identical sequences (an error count of 0 is never reported
for a line that differs from its reference, and never a positive one for an identical line). -/
theorem dist_unit_eq_zero_iff (s t : List α) : dist unit s t = 0 ↔ s = t :=
  Lev.dist_unit_eq_zero_iff s t

/-- The unit-cost edit distance satisfies the triangle inequality (with `dist_self`, `dist_unit_symm` and
`dist_unit_eq_zero_iff`: it is a metric). -/
theorem dist_unit_triangle (s t u : List α) : dist unit s u ≤ dist unit s t + dist unit t u := by
  obtain ⟨al1, hw1, hs1, ht1, hc1⟩ := dist_attained unit s t
  obtain ⟨al2, hw2, hs2, ht2, hc2⟩ := dist_attained unit t u
  obtain ⟨hw, hs, ht, hc⟩ := compose_spec al1 al2 hw1 hw2 (by rw [ht1, hs2])
  have := dist_le_cost unit s u _ hw (by rw [hs, hs1]) (by rw [ht, ht2])
  omega

/-- The unit-cost distance is at least the difference of the lengths (both directions). -/
theorem dist_unit_ge_length_diff (s t : List α) :
    s.length ≤ t.length + dist unit s t ∧ t.length ≤ s.length + dist unit s t := by
  obtain ⟨al, _, hs, ht, hc⟩ := dist_attained unit s t
  have := len_le_cost al
  rw [hs, ht, hc] at this; exact this

/-- The unit-cost distance never exceeds the length of the longer sequence (pair the sequences
position by position and delete / insert the rest). -/
theorem dist_unit_le_max_length (s t : List α) : dist unit s t ≤ max s.length t.length := by
  obtain ⟨hw, hs, ht, hc⟩ := zipAl_props s t
  exact Nat.le_trans (dist_le_cost unit s t _ hw hs ht) hc

example : dist unit [1, 2, 3] [1, 2, 3] = 0 ∧ dist unit [1, 2, 3] [1, 3] = 1 := by decide

/-- A line's error summary: substitutions + insertions + deletions = distance, and the summary is
always produced. -/
theorem stats_sum (ref hyp : List α) :
    ∃ x, Summary.fromLists ref hyp = some x ∧ x.subs + x.inss + x.dels = x.errors ∧
      x.errors = dist unit ref hyp ∧ x.refLen = ref.length ∧ x.lines = 1 := by
  obtain ⟨al, hal, hw, hs, ht, hc⟩ := alignment_ok unit hyp ref
  refine ⟨_, fromLists_eq ref hyp al hal, ?_, rfl, rfl, rfl⟩
  show (editStats al).2.2.2.2 + (editStats al).2.2.1 + (editStats al).2.2.2.1 = dist unit ref hyp
  rw [editStats_sum al hw, hc]
  exact dist_symm unit rfl hyp ref

/-- The line-end classification of a line's error summary is always produced (the `AssertionError`s of
`get_match_type` and `BoundaryErrorsSummary` are unreachable from `from_lists`) and sets exactly one of the six flags:
the alignment is optimal, and an optimal alignment never ends in a run of errors that holds an insertion and a deletion
together (they would be cheaper as one substitution). -/
theorem ending_total (ref hyp : List α) :
    ∃ c, Summary.ending ref hyp = some c ∧ c ≠ .nothing := by
  obtain ⟨al, hal, hw, hs, ht, hc⟩ := alignment_ok unit hyp ref
  obtain ⟨h1, h2⟩ := optimal_suffix_no_ins_del hyp ref al hw hs ht hc
  obtain ⟨c, hc1, hc2⟩ := boundaryClass_ok _ h2 h1
  exact ⟨c, by simp only [Summary.ending, hal, matchTypes_wf al hw, hc1], hc2⟩

/-! Non-vacuity: a trailing deletion after a substitution (mixed), a clean end, trailing insertions. -/
example : Summary.ending [1, 2, 3, 4] [1, 2, 5] = some .mixedDel ∧ Summary.ending [1, 2] [1, 2] = some .correct ∧
    Summary.ending [1] [1, 7, 7] = some .pureIns := by decide

/-- Aggregation is plain (field-wise) addition. -/
theorem aggregate_append (xs ys : List Summary) :
    Summary.aggregate (xs ++ ys) = (Summary.aggregate xs).add (Summary.aggregate ys) :=
  aggregate_append' xs ys

theorem aggregate_singleton (x : Summary) : Summary.aggregate [x] = x :=
  Summary.zero_add x

/-- The aggregated confusion table counts every (hypothesis symbol, reference symbol) pair exactly as
often as the per-line tables together: aggregation of tables is plain addition, for any number of
summaries and any nesting (`aggregate_confusions_append`). -/
theorem aggregate_confusions_count (p : Option α × Option α) (xs : List (List (Option α × Option α))) :
    (aggregateConfusions xs).count p = (xs.map (List.count p)).sum := by
  have h : ∀ (acc : List (Option α × Option α)) (ys : List (List (Option α × Option α))),
      (ys.foldl (· ++ ·) acc).count p = acc.count p + (ys.map (List.count p)).sum := by
    intro acc ys
    induction ys generalizing acc with
    | nil => simp
    | cons y ys ih => simp [ih, List.count_append, Nat.add_assoc]
  simpa [aggregateConfusions] using h [] xs

theorem aggregate_confusions_append (p : Option α × Option α) (xs ys : List (List (Option α × Option α))) :
    (aggregateConfusions [aggregateConfusions xs, aggregateConfusions ys]).count p =
      (aggregateConfusions (xs ++ ys)).count p := by
  simp [aggregate_confusions_count]

/-- A line's confusion table holds one pair per reference symbol and one per insertion, and the
summary's counts are read off it: it is consistent with `ref_len` and `nb_inss`. -/
theorem confusions_total (ref hyp : List α) :
    ∃ x, Summary.fromLists ref hyp = some x ∧
      (Summary.confusions ref hyp).length = x.refLen + x.inss ∧
      ((Summary.confusions ref hyp).filter fun p => p.2 = none).length = x.inss := by
  obtain ⟨al, hal, hw, hs, ht, hc⟩ := alignment_ok unit hyp ref
  have hlen : ∀ l : Alignment α, (l.filter fun p => p.2 ≠ none).length = (tgtOf l).length := by
    intro l
    induction l with
    | nil => rfl
    | cons p l ih =>
      obtain ⟨a, b⟩ := p
      cases b <;> simp_all [tgtOf, List.filter_cons, List.filterMap_cons]
  have hsplit : ∀ l : Alignment α,
      (l.filter fun p => p.2 = none).length + (l.filter fun p => p.2 ≠ none).length = l.length := by
    intro l
    induction l with
    | nil => rfl
    | cons p l ih =>
      obtain ⟨a, b⟩ := p
      cases b <;> simp_all [List.filter_cons] <;> omega
  refine ⟨_, fromLists_eq ref hyp al hal, ?_, ?_⟩
  · show (Summary.confusions ref hyp).length = ref.length + (al.length - (al.filter fun p => p.2 ≠ none).length)
    have := hlen al; have := hsplit al
    simp only [Summary.confusions, hal, Option.getD_some]
    rw [ht] at *; omega
  · show ((Summary.confusions ref hyp).filter fun p => p.2 = none).length = al.length - (al.filter fun p => p.2 ≠ none).length
    have := hsplit al
    simp only [Summary.confusions, hal, Option.getD_some]
    omega

/-! Non-vacuity: concrete instances, evaluated by the kernel. -/
example : dist unit [1, 2, 3, 4] [9, 1, 2] = 3 := by decide
example : distSub unit [1, 2, 3, 4] [9, 1, 2] = 1 := by decide
example : alignment unit [1, 2, 3] [1, 3] = some [(some 1, some 1), (some 2, none), (some 3, some 3)] := by decide

/-! ### substring alignment -/

/-- a free pair consumes only the longer sequence (the first one unless the call swapped them) -/
def isFree (swapped : Bool) (p : Option α × Option α) : Bool := if swapped then p.1.isNone else p.2.isNone

/-- `levenshtein_alignment_substring` never runs out of its matrix, projects to both inputs, and once its
free leading and trailing part is removed its cost is exactly the substring optimum. -/
theorem substring_alignment_correct (c : Costs) (s t : List α) :
    ∃ al, alignmentSub c s t = some al ∧ WellFormed al ∧ srcOf al = s ∧ tgtOf al = t ∧
      ∃ pre core suf, al = pre ++ core ++ suf ∧
        (∀ p ∈ pre, isFree (decide (t.length > s.length)) p = true) ∧
        (∀ p ∈ suf, isFree (decide (t.length > s.length)) p = true) ∧
        cost c (if decide (t.length > s.length) then core.map Prod.swap else core) = distSub c s t :=
  alignmentSub_ok c s t

end C13
