import PeroVerif.Model.Lev
namespace C13
theorem placeholder : (1:Nat) = 1 := rfl
end C13
