/-
C20 — property theorems (statements fixed by the architect; do not weaken).  PARTIAL: the cache PROTOCOL
is decided here; float equality of the scores is checked differentially by the harness.
Helper lemmas: PeroVerif/Lemmas/KVCache.lean.
-/
import PeroVerif.Model.KVCache
import PeroVerif.Lemmas.KVCache
import PeroVerif.Model.Decoder
import PeroVerif.Lemmas.Decoder

namespace C20
open KV

/-- Within one batch started at step 1, whatever state the layer was left in by earlier batches (stale
caches of any batch size, garbage, nothing), every step `t` reads only slots written in THIS batch at steps
`1..t`, and the cross-attention keys/values of THIS batch. -/
theorem batch_reads_fresh (maxLen n B S steps : Nat) (ly : Layer) (hlen : steps ≤ maxLen)
    (hself : ∀ c, ly.selfCache = some c → c.length = maxLen)
    (hmem : ∀ b sl, ly.mem = some (b, sl) → sl.length = maxLen) :
    ∀ tr ∈ (runBatch maxLen n B S steps 1 ly).2, tr.2.fresh n tr.1 S = true :=
  runBatch_fresh maxLen n B S steps 0 ly (by omega) ⟨⟨hself, hmem⟩, fun h => absurd h (by omega)⟩

/-- For EVERY history of batches decoded with one model instance (equal or different batch sizes and source
lengths, any numbers of steps below the cache length), every read of every step is fresh: never garbage,
never a value of a previous batch — hence what the cached step computes from is exactly what recomputation
from scratch would supply at those positions. -/
theorem reads_fresh (maxLen : Nat) (hist : List Batch) (hsteps : ∀ b ∈ hist, b.steps ≤ maxLen) :
    ∀ r ∈ runHistory maxLen 0 hist Layer.init,
      r.2.2.fresh r.1 r.2.1 ((hist.getD r.1 ⟨0, 0, 0⟩).srcLen) = true := by
  intro r hr
  have h := (runHistory_fresh maxLen hist 0 Layer.init hsteps (lenInv_init maxLen) r hr).2
  simpa using h

/-- every batch of the history contributes exactly its steps, in order -/
theorem history_steps (maxLen : Nat) (hist : List Batch) :
    (runHistory maxLen 0 hist Layer.init).map (fun r => (r.1, r.2.1)) =
      (List.range hist.length).flatMap fun n => (List.range (hist.getD n ⟨0, 0, 0⟩).steps).map fun k => (n, k + 1) := by
  have h := runHistory_steps maxLen hist 0 Layer.init
  simpa using h

/-- The reshapes of the attention do not mix lanes: `(S, B, H·D) → view(-1, B·H, D)` addresses the same
memory cell, and the head-batch index `b·H + h` determines the line `b` and the head `h`. -/
theorem lanes_do_not_mix (B H D s b h d : Nat) :
    offSBE B H D s b h d = offView B H D s b h d :=
  offSBE_eq_offView B H D s b h d

theorem head_batch_index_injective (H b h b' h' : Nat) (hh : h < H) (hh' : h' < H)
    (heq : b * H + h = b' * H + h') : b = b' ∧ h = h' :=
  head_batch_inj H b h b' h' hh hh' heq

/-- Decoding always terminates: the loop stops after at most `W / 4 + 2` network evaluations (the fuel is
never exhausted), for every network `next`. -/
theorem loop_terminates (next : List (List Nat) → List Nat) (eos W B : Nat) :
    (transcribeLoop next eos W B).2 ≤ W / 4 + 2 ∧ 1 ≤ (transcribeLoop next eos W B).2 ∧
    (transcribeLoop next eos W B).1.length ≤ W / 4 + 1 := by
  unfold transcribeLoop
  obtain ⟨h1, _, h3, h4⟩ := loop_bounds next eos (W / 4) (W / 4 + 2) [] (List.replicate B true) 0
  have h3' := h3 (by omega)
  simp only [List.length_nil] at h4
  refine ⟨by omega, by omega, by omega⟩

/-- The emitted transcription is free of boundary and ignore symbols and keeps the order of the kept symbols. -/
theorem output_clean (eos ign : Nat) (line : List Nat) :
    eos ∉ postprocess eos ign line ∧ ign ∉ postprocess eos ign line ∧
    (postprocess eos ign line).Sublist line :=
  ⟨fun h => (postprocess_mem eos ign line eos h).1 rfl, fun h => (postprocess_mem eos ign line ign h).2 rfl,
    postprocess_sublist eos ign line⟩

/-! ### what is computed: cached = recomputed = teacher-forced (functional model `Model/Decoder.lean`)

For EVERY choice of the layer functions (projections, attention, norms, feed-forward: in particular the float
kernels the code calls), every number of layers, every symbol sequence and every state the decoder object was
left in by earlier batches (stale caches, `torch.empty` garbage). -/
section functional
open Dec
variable {V M K KM : Type}

/-- Step-by-step decoding WITH key/value caches returns, at every step `t`, exactly position `t` of the full
masked (teacher-forced) pass over the symbols fed — whatever the caches held before. -/
theorem cached_eq_full (fs : List (LayerFn V M K KM)) (mem : M) (xs : List V) (ss : List (LState V K KM))
    (hlen : ss.length = fs.length) (hroom : ∀ s ∈ ss, s.roomy xs.length) :
    (runSteps true fs mem [] xs ss).2 = (fullDecoder fs mem xs).map some :=
  Dec.runSteps_cached_eq_full fs mem xs ss hlen hroom

/-- Step-by-step decoding that re-projects keys and values at every step (`is_cached=False`) does the same. -/
theorem uncached_eq_full (fs : List (LayerFn V M K KM)) (mem : M) (xs : List V) (ss : List (LState V K KM))
    (hlen : ss.length = fs.length) (hroom : ∀ s ∈ ss, s.roomy xs.length) :
    (runSteps false fs mem [] xs ss).2 = (fullDecoder fs mem xs).map some :=
  Dec.runSteps_uncached_eq_full fs mem xs ss hlen hroom

/-- hence cached decoding = recomputation, step by step, from any two states -/
theorem cached_eq_uncached (fs : List (LayerFn V M K KM)) (mem : M) (xs : List V) (ss ss' : List (LState V K KM))
    (hlen : ss.length = fs.length) (hroom : ∀ s ∈ ss, s.roomy xs.length)
    (hlen' : ss'.length = fs.length) (hroom' : ∀ s ∈ ss', s.roomy xs.length) :
    (runSteps true fs mem [] xs ss).2 = (runSteps false fs mem [] xs ss').2 := by
  rw [cached_eq_full fs mem xs ss hlen hroom, uncached_eq_full fs mem xs ss' hlen' hroom']

/-- The masked pass is causal: the scores of the first `n` positions do not depend on later symbols (so the
scores of step `t` equal position `t` of the masked pass over the COMPLETE emitted sequence). -/
theorem full_prefix (fs : List (LayerFn V M K KM)) (mem : M) (xs : List V) (n : Nat) :
    fullDecoder fs mem (xs.take n) = (fullDecoder fs mem xs).take n :=
  Dec.fullDecoder_take fs mem xs n

/-- History independence: decoding a line with the decoder object left behind by ANY earlier line (other encoder
output, other symbols, other length) gives the scores of decoding it with fresh objects. -/
theorem history_independent (fs : List (LayerFn V M K KM)) (mem mem' : M) (xs xs' : List V)
    (ss : List (LState V K KM)) (n : Nat) (hlen : ss.length = fs.length) (hroom : ∀ s ∈ ss, s.roomy n)
    (hx : xs.length ≤ n) (hx' : xs'.length ≤ n) :
    (runSteps true fs mem [] xs (runSteps true fs mem' [] xs' ss).1).2 = (fullDecoder fs mem xs).map some :=
  Dec.runSteps_after_history fs mem mem' xs xs' ss n hlen hroom hx hx'

/-- a concrete layer over `Nat` for the non-vacuity check: every function is injective enough to tell inputs apart -/
def natLayer (c : Nat) : LayerFn Nat Nat Nat Nat where
  projKV y := 2 * y + c
  selfAttn y ks := y + 3 * ks.sum + ks.length
  projMem m := m + c
  crossAttn z km := z * km + 1
  add a b := a + 2 * b
  norm1 a := a + 1
  norm2 a := 2 * a
  norm3 a := a + c
  ff a := a * a

/-- non-vacuity: two layers, three symbols, caches of length 4 full of stale values (7, 8, 9): the hypotheses hold
and the cached run yields the values of the masked pass (no stale value is read) -/
example :
    let ss : List (LState Nat Nat Nat) := [⟨[7, 7, 7, 7], 8, [9, 9, 9, 9]⟩, ⟨[9, 8, 7, 6], 5, [4, 3, 2, 1]⟩]
    (ss.length = 2 ∧ ∀ s ∈ ss, s.roomy 3) ∧
    (runSteps true [natLayer 1, natLayer 2] 5 [] [1, 2, 3] ss).2 =
      (fullDecoder [natLayer 1, natLayer 2] 5 [1, 2, 3]).map some ∧
    (fullDecoder [natLayer 1, natLayer 2] 5 [1, 2, 3]) ≠ (fullDecoder [natLayer 1, natLayer 2] 5 [1, 2, 4]) := by
  refine ⟨⟨rfl, ?_⟩, by decide, by decide⟩
  intro s hs
  simp only [List.mem_cons, List.not_mem_nil, or_false] at hs
  rcases hs with rfl | rfl <;> simp [LState.roomy]

end functional

end C20
