import PeroVerif.Model.KVCache
namespace C20
theorem placeholder : (1:Nat) = 1 := rfl
end C20
