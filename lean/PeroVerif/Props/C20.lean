/-
C20 — property theorems (statements fixed by the architect; do not weaken).  PARTIAL: the cache PROTOCOL
is decided here; float equality of the scores is checked differentially by the harness.
Helper lemmas: PeroVerif/Lemmas/KVCache.lean.
-/
import PeroVerif.Model.KVCache
import PeroVerif.Lemmas.KVCache

namespace C20
open KV

/-- Within one batch started at step 1, whatever state the layer was left in by earlier batches (stale
caches of any batch size, garbage, nothing), every step `t` reads only slots written in THIS batch at steps
`1..t`, and the cross-attention keys/values of THIS batch. -/
theorem batch_reads_fresh (maxLen n B S steps : Nat) (ly : Layer) (hlen : steps ≤ maxLen)
    (hself : ∀ c, ly.selfCache = some c → c.length = maxLen)
    (hmem : ∀ b sl, ly.mem = some (b, sl) → sl.length = maxLen) :
    ∀ tr ∈ (runBatch maxLen n B S steps 1 ly).2, tr.2.fresh n tr.1 S = true :=
  runBatch_fresh maxLen n B S steps 0 ly (by omega) ⟨⟨hself, hmem⟩, fun h => absurd h (by omega)⟩

/-- For EVERY history of batches decoded with one model instance (equal or different batch sizes and source
lengths, any numbers of steps below the cache length), every read of every step is fresh: never garbage,
never a value of a previous batch — hence what the cached step computes from is exactly what recomputation
from scratch would supply at those positions. -/
theorem reads_fresh (maxLen : Nat) (hist : List Batch) (hsteps : ∀ b ∈ hist, b.steps ≤ maxLen) :
    ∀ r ∈ runHistory maxLen 0 hist Layer.init,
      r.2.2.fresh r.1 r.2.1 ((hist.getD r.1 ⟨0, 0, 0⟩).srcLen) = true := by
  intro r hr
  have h := (runHistory_fresh maxLen hist 0 Layer.init hsteps (lenInv_init maxLen) r hr).2
  simpa using h

/-- every batch of the history contributes exactly its steps, in order -/
theorem history_steps (maxLen : Nat) (hist : List Batch) :
    (runHistory maxLen 0 hist Layer.init).map (fun r => (r.1, r.2.1)) =
      (List.range hist.length).flatMap fun n => (List.range (hist.getD n ⟨0, 0, 0⟩).steps).map fun k => (n, k + 1) := by
  have h := runHistory_steps maxLen hist 0 Layer.init
  simpa using h

/-- The reshapes of the attention do not mix lanes: `(S, B, H·D) → view(-1, B·H, D)` addresses the same
memory cell, and the head-batch index `b·H + h` determines the line `b` and the head `h`. -/
theorem lanes_do_not_mix (B H D s b h d : Nat) :
    offSBE B H D s b h d = offView B H D s b h d :=
  offSBE_eq_offView B H D s b h d

theorem head_batch_index_injective (H b h b' h' : Nat) (hh : h < H) (hh' : h' < H)
    (heq : b * H + h = b' * H + h') : b = b' ∧ h = h' :=
  head_batch_inj H b h b' h' hh hh' heq

/-- Decoding always terminates: the loop stops after at most `W / 4 + 2` network evaluations (the fuel is
never exhausted), for every network `next`. -/
theorem loop_terminates (next : List (List Nat) → List Nat) (eos W B : Nat) :
    (transcribeLoop next eos W B).2 ≤ W / 4 + 2 ∧ 1 ≤ (transcribeLoop next eos W B).2 ∧
    (transcribeLoop next eos W B).1.length ≤ W / 4 + 1 := by
  unfold transcribeLoop
  obtain ⟨h1, _, h3, h4⟩ := loop_bounds next eos (W / 4) (W / 4 + 2) [] (List.replicate B true) 0
  have h3' := h3 (by omega)
  simp only [List.length_nil] at h4
  refine ⟨by omega, by omega, by omega⟩

/-- The emitted transcription is free of boundary and ignore symbols and keeps the order of the kept symbols. -/
theorem output_clean (eos ign : Nat) (line : List Nat) :
    eos ∉ postprocess eos ign line ∧ ign ∉ postprocess eos ign line ∧
    (postprocess eos ign line).Sublist line :=
  ⟨fun h => (postprocess_mem eos ign line eos h).1 rfl, fun h => (postprocess_mem eos ign line ign h).2 rfl,
    postprocess_sublist eos ign line⟩

end C20
