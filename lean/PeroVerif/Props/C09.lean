import PeroVerif.Model.LogitsStore
namespace C09
theorem placeholder : (1:Nat) = 1 := rfl
end C09
