/-
C09 — property theorems (statements fixed by the architect; do not weaken).
Helper lemmas: PeroVerif/Lemmas/LogitsStore.lean (incl. Py.Dict lemmas).
-/
import PeroVerif.Model.LogitsStore
import PeroVerif.Lemmas.LogitsStore

namespace C09
open LS Py
variable {L K C : Type}

/-- a line all of whose components are present -/
def Complete (l : Line L K C) : Prop := (∃ m, l.logits = .mat (some m)) ∧ l.chars.isSome ∧ l.coords.isSome

/-- the property's quantifier: distinct line ids, none equal to a reserved key -/
def GoodIds (lines : List (Line L K C)) : Prop :=
  (lines.map (·.id)).Nodup ∧ ∀ l ∈ lines, l.id ≠ kChars ∧ l.id ≠ kCoords

/-- Saving a complete page never fails (with or without the flag). -/
theorem save_ok (flag : Bool) (lines : List (Line L K C)) (hc : ∀ l ∈ lines, Complete l) :
    ∃ d, genLogits flag lines = .ok d := by
  have hfm : firstMissing lines = none := by
    rw [firstMissing_eq_none_iff]
    intro l hl
    obtain ⟨⟨m, hm⟩, h2, h3⟩ := hc l hl
    exact ⟨by rw [hm]; rfl, h2, h3⟩
  unfold genLogits
  cases flag <;> simp [hfm]

/-- Without the flag a missing component is reported instead of being saved silently. -/
theorem missing_reported (lines : List (Line L K C)) (l : Line L K C) (hl : l ∈ lines)
    (hm : ¬ Complete l) (hmat : ∀ l' ∈ lines, ∃ m, l'.logits = .mat m) :
    ∃ e, genLogits false lines = .error e ∧
      (e = .missingLogits ∨ e = .missingChars ∨ e = .missingCoords) := by
  have hne : firstMissing lines ≠ none := by
    intro h0
    rw [firstMissing_eq_none_iff] at h0
    obtain ⟨h1, h2, h3⟩ := h0 l hl
    obtain ⟨m, hlm⟩ := hmat l hl
    apply hm
    refine ⟨?_, h2, h3⟩
    cases m with
    | none => rw [hlm] at h1; cases h1
    | some x => exact ⟨x, hlm⟩
  unfold genLogits
  rcases firstMissing_cases lines with h | h | h | h
  · exact absurd h hne
  all_goals simp [h]

/-- Loading a saved page into a layout with the same line ids restores, for every line, the identical
logits, character table and frame window — whatever the target lines held before. -/
theorem load_save_restores (flag : Bool) (legacy : Option C) (src dst : List (Line L K C))
    (d : Dict Nat (Val L K C)) (hg : GoodIds src) (hs : genLogits flag src = .ok d)
    (hids : dst.map (·.id) = src.map (·.id)) :
    load legacy d dst = .ok src := by
  have hdst : ∀ l ∈ dst, l.id ≠ kChars ∧ l.id ≠ kCoords := by
    intro l hl
    have : l.id ∈ src.map (·.id) := hids ▸ List.mem_map.2 ⟨l, hl, rfl⟩
    obtain ⟨s, hs, e⟩ := List.mem_map.1 this
    have := hg.2 s hs
    rw [← e]; exact this
  rw [load_saved flag legacy src dst d hg.1 hs hdst, map_restore_eq src dst hg.1 hids]

/-- "… so a layout rebuilt from the saved PAGE XML plus logits re-decodes to the same transcriptions and exports the same ALTO
text": the PAGE XML round trip keeps the line ids in order (C01.import_export), so the rebuilt layout `dst` has the ids of `src`;
after loading the saved logits EVERY function of the lines (greedy / beam decoding of the dense logits, the ALTO words, the
confidences) gives what it gives on the original layout. -/
theorem rebuilt_layout_same_outputs {β : Type} (out : List (Line L K C) → β) (flag : Bool) (legacy : Option C)
    (src dst : List (Line L K C)) (d : Dict Nat (Val L K C)) (hg : GoodIds src) (hs : genLogits flag src = .ok d)
    (hids : dst.map (·.id) = src.map (·.id)) :
    (load legacy d dst).map out = .ok (out src) := by
  rw [load_save_restores flag legacy src dst d hg hs hids]
  rfl

/-- Lines absent from the file are left untouched; lines present get the file's payload (partial
files: the target may have more or fewer lines than the file). -/
theorem load_partial (flag : Bool) (legacy : Option C) (src dst : List (Line L K C))
    (d : Dict Nat (Val L K C)) (hg : GoodIds src) (hs : genLogits flag src = .ok d)
    (hdst : ∀ l ∈ dst, l.id ≠ kChars ∧ l.id ≠ kCoords) :
    ∃ out, load legacy d dst = .ok out ∧ out.length = dst.length ∧
      ∀ i (hi : i < dst.length) (ho : i < out.length),
        (∀ s ∈ src, s.id = dst[i].id → out[i] = s) ∧
        ((∀ s ∈ src, s.id ≠ dst[i].id) → out[i] = dst[i]) := by
  refine ⟨dst.map (restore src), load_saved flag legacy src dst d hg.1 hs hdst, by simp, ?_⟩
  intro i hi ho
  simp only [List.getElem_map]
  exact ⟨fun s hs hid => restore_of_mem src hg.1 _ s hs hid,
    fun h => restore_of_not_mem src _ h⟩

/-- The two hypotheses of `GoodIds` are necessary (recorded as known findings on the real code):
a duplicated id gives both lines the last payload; a reserved id yields a dict in place of logits. -/
theorem duplicate_id_last_wins (a b : L) (k : K) (c : C) :
    ∃ d, genLogits false
        [⟨5, .mat (some a), some k, some c⟩, ⟨5, .mat (some b), some k, some c⟩] = .ok d ∧
      ∀ legacy, load legacy d [⟨5, .mat none, none, none⟩, ⟨5, .mat none, none, none⟩] =
        .ok [⟨5, .mat (some b), some k, some c⟩, (⟨5, .mat (some b), some k, some c⟩ : Line L K C)] :=
  ⟨_, rfl, fun _ => rfl⟩

theorem reserved_id_collides (a : L) (k : K) (c : C) :
    ∃ d, genLogits false [(⟨kChars, .mat (some a), some k, some c⟩ : Line L K C)] = .ok d ∧
      ∀ legacy out, load legacy d [⟨kChars, .mat none, none, none⟩] = .ok out →
        ∀ l ∈ out, ∀ m, l.logits ≠ .mat (some m) := by
  refine ⟨_, rfl, ?_⟩
  intro legacy out h l hl m
  have h' : out = [⟨kChars, .charsD [(kChars, some k)], some k, some c⟩] := by
    have : (Except.ok [⟨kChars, .charsD [(kChars, some k)], some k, some c⟩] :
        Except Err (List (Line L K C))) = .ok out := h
    exact (Except.ok.inj this).symm
  subst h'
  rw [List.mem_singleton.1 hl]
  intro e; cases e

/-- Dense reconstruction: every stored logit unchanged, the floor for pruned entries. -/
theorem dense_stored {S : Type} [DecidableEq S] (zero floor s : S) (h : s ≠ zero) : dense zero floor s = s := by
  simp [dense, h]
theorem dense_pruned {S : Type} [DecidableEq S] (zero floor : S) : dense zero floor zero = floor := by
  simp [dense]

end C09
