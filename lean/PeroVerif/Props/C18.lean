/-
C18 — property theorems (statements fixed by the architect; do not weaken).  PARTIAL: only the
rotated-analysis coordinate clause is decided here; the ridge decoding is oracle-only.
Helper lemmas: PeroVerif/Lemmas/Rot90.lean.
-/
import PeroVerif.Model.Rot90
import PeroVerif.Model.OrderLines
import PeroVerif.Lemmas.Rot90
import PeroVerif.Lemmas.OrderLines

namespace C18
open Rot

/-- the rotated image has the transposed shape for odd rotations -/
theorem rotShape_spec (rot H W : Nat) :
    rotShape rot H W = (if rot % 2 = 1 then (W, H) else (H, W)) := rfl

/-- the source pixel of every pixel of the rotated image lies inside the original image -/
theorem rotSrc_in_range (rot H W i j : Nat) (hi : i < (rotShape rot H W).1) (hj : j < (rotShape rot H W).2) :
    (rotSrc rot H W i j).1 < H ∧ (rotSrc rot H W i j).2 < W := by
  rcases mod4_cases rot with h | h | h | h
  · rw [rotShape_even (by omega)] at hi hj
    rw [rotSrc_mod0 h]; exact ⟨hi, hj⟩
  · rw [rotShape_odd (by omega)] at hi hj
    rw [rotSrc_mod1 h]; dsimp only at hi hj ⊢; omega
  · rw [rotShape_even (by omega)] at hi hj
    rw [rotSrc_mod2 h]; dsimp only at hi hj ⊢; omega
  · rw [rotShape_odd (by omega)] at hi hj
    rw [rotSrc_mod3 h]; dsimp only at hi hj ⊢; omega

/-- `np.rot90` is a bijection of pixels: distinct rotated pixels come from distinct original pixels -/
theorem rotSrc_injective (rot H W i j i' j' : Nat)
    (hi : i < (rotShape rot H W).1) (hj : j < (rotShape rot H W).2)
    (hi' : i' < (rotShape rot H W).1) (hj' : j' < (rotShape rot H W).2)
    (h : rotSrc rot H W i j = rotSrc rot H W i' j') : i = i' ∧ j = j' := by
  rcases mod4_cases rot with hm | hm | hm | hm
  · rw [rotSrc_mod0 hm, rotSrc_mod0 hm] at h
    exact ⟨congrArg Prod.fst h, congrArg Prod.snd h⟩
  · rw [rotShape_odd (by omega)] at hi hj hi' hj'
    rw [rotSrc_mod1 hm, rotSrc_mod1 hm] at h
    have h1 := congrArg Prod.fst h
    have h2 := congrArg Prod.snd h
    dsimp only at hi hj hi' hj' h1 h2
    omega
  · rw [rotShape_even (by omega)] at hi hj hi' hj'
    rw [rotSrc_mod2 hm, rotSrc_mod2 hm] at h
    have h1 := congrArg Prod.fst h
    have h2 := congrArg Prod.snd h
    dsimp only at hi hj hi' hj' h1 h2
    omega
  · rw [rotShape_odd (by omega)] at hi hj hi' hj'
    rw [rotSrc_mod3 hm, rotSrc_mod3 hm] at h
    have h1 := congrArg Prod.fst h
    have h2 := congrArg Prod.snd h
    dsimp only at hi hj hi' hj' h1 h2
    omega

/-- When the page is analysed in a rotated orientation, every returned coordinate refers to the
original, un-rotated image within one pixel (each axis): for every `H, W ≥ 1` (non-square included),
every rotation 0..3 and every pixel `(i, j)` of the rotated image, `rotate_layout` applied to the
pixel's coordinates `(x', y') = (j, i)` lands within 1 of the original pixel's `(col, row)`. -/
theorem rotate_within_one_pixel (rot H W i j : Nat) (hr : rot < 4)
    (hi : i < (rotShape rot H W).1) (hj : j < (rotShape rot H W).2) :
    let src := rotSrc rot H W i j
    let q := rotateLayout rot (rotShape rot H W) ((j : Int), (i : Int))
    (q.1 - (src.2 : Int)).natAbs ≤ 1 ∧ (q.2 - (src.1 : Int)).natAbs ≤ 1 := by
  match rot, hr with
  | 0, _ =>
    intro src q
    have hs : src = (i, j) := rotSrc_mod0 rfl H W i j
    have hq : q = ((j : Int), (i : Int)) := rfl
    rw [hs, hq]; dsimp only; omega
  | 1, _ =>
    intro src q
    rw [rotShape_odd rfl] at hi hj
    have hs : src = (j, W - 1 - i) := rotSrc_mod1 rfl H W i j
    have hq : q = ((W : Int) - (i : Int), (j : Int)) := rfl
    rw [hs, hq]; dsimp only at hi hj ⊢; omega
  | 2, _ =>
    intro src q
    rw [rotShape_even rfl] at hi hj
    have hs : src = (H - 1 - i, W - 1 - j) := rotSrc_mod2 rfl H W i j
    have hq : q = ((W : Int) - (j : Int), (H : Int) - (i : Int)) := rfl
    rw [hs, hq]; dsimp only at hi hj ⊢; omega
  | 3, _ =>
    intro src q
    rw [rotShape_odd rfl] at hi hj
    have hs : src = (H - 1 - j, i) := rotSrc_mod3 rfl H W i j
    have hq : q = ((i : Int), (H : Int) - (j : Int)) := rfl
    rw [hs, hq]; dsimp only at hi hj ⊢; omega

/-- … and the bound is tight: the code uses `W - x` where the exact inverse is `W - 1 - x` -/
theorem rotate_offset_exact (H W i j : Nat) (hi : i < (rotShape 1 H W).1) (hj : j < (rotShape 1 H W).2) :
    (rotateLayout 1 (rotShape 1 H W) ((j : Int), (i : Int))).1 = ((rotSrc 1 H W i j).2 : Int) + 1 := by
  have _ := hj  -- `hj` is not needed for this clause
  rw [rotShape_odd rfl] at hi
  have hs : rotSrc 1 H W i j = (j, W - 1 - i) := rotSrc_mod1 rfl H W i j
  have hq : rotateLayout 1 (rotShape 1 H W) ((j : Int), (i : Int)) = ((W : Int) - (i : Int), (j : Int)) := rfl
  rw [hs, hq]; dsimp only at hi ⊢; omega

/-- un-rotated analysis leaves coordinates untouched -/
theorem rotate_zero (shape : Nat × Nat) (p : Int × Int) : rotateLayout 0 shape p = p := rfl

/-- the map is affine with unit steps: neighbouring points stay neighbours (so baselines, outlines and
region polygons keep their shape) -/
theorem rotate_affine (rot : Nat) (shape : Nat × Nat) (p d : Int × Int) (hr : rot < 4) :
    ∃ d' : Int × Int, rotateLayout rot shape (p.1 + d.1, p.2 + d.2) =
      ((rotateLayout rot shape p).1 + d'.1, (rotateLayout rot shape p).2 + d'.2) ∧
      d'.1 * d'.1 + d'.2 * d'.2 = d.1 * d.1 + d.2 * d.2 := by
  obtain ⟨p1, p2⟩ := p
  obtain ⟨d1, d2⟩ := d
  match rot, hr with
  | 0, _ => exact ⟨(d1, d2), rfl, rfl⟩
  | 1, _ =>
    refine ⟨(-d2, d1), ?_, ?_⟩
    · simp only [rotateLayout]
      refine Prod.ext ?_ rfl
      dsimp only; omega
    · dsimp only; rw [Int.neg_mul_neg, Int.add_comm]
  | 2, _ =>
    refine ⟨(-d1, -d2), ?_, ?_⟩
    · simp only [rotateLayout]
      refine Prod.ext ?_ ?_ <;> (dsimp only; omega)
    · dsimp only; rw [Int.neg_mul_neg, Int.neg_mul_neg]
  | 3, _ =>
    refine ⟨(d2, -d1), ?_, ?_⟩
    · simp only [rotateLayout]
      refine Prod.ext rfl ?_
      dsimp only; omega
    · dsimp only; rw [Int.neg_mul_neg, Int.add_comm]


/-! ### `order_lines_vertical`: the three parallel lists stay aligned -/
open OrdL

/-- `detect` orders baselines, heights and outlines by three SEPARATE sorts with the same (jittered) keys.
Position `i` of the three results holds the baseline, the heights and the outline of the SAME detected line:
zipping the three results gives the one sort of the zipped triples. -/
theorem order_lines_aligned {β η τ : Type} (keys : List Rat) (bs : List β) (hs : List η) (ts : List τ)
    (hb : bs.length = keys.length) (hh : hs.length = keys.length) (ht : ts.length = keys.length) :
    (orderLines keys bs hs ts).1.zip ((orderLines keys bs hs ts).2.1.zip (orderLines keys bs hs ts).2.2) =
      reorder keys (bs.zip (hs.zip ts)) := by
  exact orderLines_aligned keys bs hs ts hb hh ht

/-- Ordering only permutes the lines ... -/
theorem order_lines_perm {α : Type} (keys : List Rat) (xs : List α) (h : xs.length = keys.length) :
    (reorder keys xs).Perm xs := by
  exact reorder_perm keys xs (Nat.le_of_eq h)

/-- ... into non-decreasing order of their (jittered) vertical position. -/
theorem order_lines_sorted {α : Type} (keys : List Rat) (xs : List α) :
    ((sortByKey (keys.zip xs)).map Prod.fst).Pairwise (fun a b => a ≤ b) := by
  exact sortByKey_sorted (keys.zip xs)

/-- With pairwise distinct keys (what the jitter is for) the order is strict, so Python's tuple comparison
never looks at the payloads (NumPy arrays, which cannot be compared) and `sorted` is this sort by key. -/
theorem order_lines_strict {α : Type} (keys : List Rat) (xs : List α) (hk : keys.Nodup) :
    ((sortByKey (keys.zip xs)).map Prod.fst).Pairwise (fun a b => a < b) := by
  exact sortByKey_strict keys xs hk

example : orderLines [(5/2 : Rat), 1/2, 3/2] ["b2", "b0", "b1"] [2, 0, 1] ['c', 'a', 'b'] =
    (["b0", "b1", "b2"], [0, 1, 2], ['a', 'b', 'c']) := by decide +kernel

end C18
