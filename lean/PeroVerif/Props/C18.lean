import PeroVerif.Model.Rot90
namespace C18
theorem placeholder : (1:Nat) = 1 := rfl
end C18
