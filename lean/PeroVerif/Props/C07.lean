import PeroVerif.Model.Batching
namespace C07
theorem placeholder : (1:Nat) = 1 := rfl
end C07
