/-
C07 — property theorems (statements fixed by the architect; do not weaken).
Helper lemmas: PeroVerif/Lemmas/Batching.lean.
-/
import PeroVerif.Model.Batching
import PeroVerif.Lemmas.Batching

namespace C07
open Bat

/-- The processing order is a permutation of the input positions (stable sort by descending width). -/
theorem order_perm (ws : List Nat) : (order ws).Perm (List.range ws.length) :=
  order_perm' ws

/-- Every line is processed in exactly one batch: the batches partition the processing order, for
every list of widths (≥ 1 px) and every batch size ≥ 1; no batch is empty. -/
theorem batches_partition (ws : List Nat) (batchSize pad : Nat) (hb : 1 ≤ batchSize) :
    ((batches ws batchSize pad).flatMap (·.1)) = order ws ∧
    ∀ b ∈ batches ws batchSize pad, b.1 ≠ [] :=
  have _ := hb  -- not needed: `max 1 …` already guards the chunk size
  ⟨(batches_spec ws batchSize pad).1, (batches_spec ws batchSize pad).2.1⟩

/-- Hence every input position receives exactly one result, and it is the network's output for the
line at that position (`process_lines … = lines.map f` under the locality assumption): independent of
list order, of batch mates and of the batch size. -/
theorem scatter_total {β : Type} (ws : List Nat) (batchSize pad : Nat) (hb : 1 ≤ batchSize) (out : Nat → β) :
    scatter ws.length (batches ws batchSize pad) out = (List.range ws.length).map fun i => some (out i) := by
  have _ := hb
  unfold scatter
  apply List.map_congr_left
  intro i hi
  rw [mem_batches_of_lt ws batchSize pad i (List.mem_range.mp hi)]
  rfl

/-- The widest line of a batch determines the tensor width; no line of the batch is wider than the
un-padded part of the tensor unless the tensor was cropped to the engine maximum. -/
theorem batch_width (ws : List Nat) (batchSize pad : Nat) (hb : 1 ≤ batchSize) :
    ∀ b ∈ batches ws batchSize pad, ∀ i ∈ b.1,
      b.2 = 480 * batchSize ∨ widthOf ws i + 2 * pad ≤ b.2 :=
  have _ := hb
  (batches_spec ws batchSize pad).2.2

/-- The frame window is exactly the image of the un-padded columns `[pad, pad + w)` under the
sub-sampling: a frame `t` lies in the window iff its first input column `t * sub`… precisely:
`lo = pad / sub`, `hi = (pad + w) / sub`, so for `sub ∣ pad` the window has `⌊w / sub⌋` frames starting
at the line's first column. -/
theorem coords_window (pad sub w : Nat) (hs : 0 < sub) (hd : sub ∣ pad) :
    (coords pad sub w).1 * sub = pad ∧
    (coords pad sub w).2 - (coords pad sub w).1 = w / sub ∧
    (coords pad sub w).1 ≤ (coords pad sub w).2 := by
  obtain ⟨k, rfl⟩ := hd
  simp only [coords]
  rw [Nat.mul_div_cancel_left k hs, Nat.mul_add_div hs]
  generalize w / sub = q
  exact ⟨Nat.mul_comm _ _, by omega, by omega⟩

/-- Sparse storage keeps every logit whose posterior is at least the threshold unchanged and nothing
else (for any strict order given as a Boolean `lt`). -/
theorem sparsify_keeps {R : Type} (lt : R → R → Bool) (zero thr : R) (probs logits : List R)
    (hl : probs.length = logits.length) (i : Nat) (hi : i < logits.length) :
    (sparsify lt zero thr probs logits)[i]? =
      some (if lt (probs.getD i zero) thr then zero else logits.getD i zero) := by
  have hi' : i < probs.length := hl ▸ hi
  unfold sparsify
  rw [List.getElem?_zipWith, List.getElem?_eq_getElem hi', List.getElem?_eq_getElem hi]
  simp [List.getD_eq_getElem?_getD, List.getElem?_eq_getElem hi', List.getElem?_eq_getElem hi]

/-- The lines are taken in order of non-increasing width (so the first line of a batch is its widest). -/
theorem order_descending (ws : List Nat) :
    (order ws).Pairwise (fun a b => widthOf ws a ≥ widthOf ws b) := order_pairwise ws

/-- Pixel budget: a batch of more than one line never exceeds `480 * batch_size` columns in total at the
32-aligned width of any of its lines — only a single over-wide line may (and is then cropped, `batch_width`). -/
theorem batch_budget (ws : List Nat) (batchSize pad : Nat) :
    ∀ b ∈ batches ws batchSize pad,
      b.1.length = 1 ∨ ∀ i ∈ b.1, b.1.length * ceil32 (widthOf ws i) ≤ 480 * batchSize :=
  batchesAux_budget ws (480 * batchSize) pad ws.length (order ws) (order_pairwise ws)

/-! Non-vacuity (the loop on an explicit descending order: an over-wide single line, a single line, a pair). -/
example : batchesAux [100, 900, 40, 500] 960 16 4 [1, 3, 0, 2] = [([1], 960), ([3], 544), ([0, 2], 160)] := by decide

end C07
