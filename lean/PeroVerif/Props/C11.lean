import PeroVerif.Model.Assign
namespace C11
theorem placeholder : (1:Nat) = 1 := rfl
end C11
