/-
C11 — property theorems (statements fixed by the architect; do not weaken).  PARTIAL: everything shapely
computes is the parameter `mask`.  `Gen.Layout.rotSuffix` is GENERATED; it may be evaluated ONLY in
`rot_suffix` (by `rfl`).
Helper lemmas: PeroVerif/Lemmas/Assign.lean (may reuse PeroVerif/Lemmas/Decimal.lean).
-/
import PeroVerif.Model.Assign
import PeroVerif.Model.Clip
import PeroVerif.Lemmas.Decimal
import PeroVerif.Lemmas.Assign
import PeroVerif.Lemmas.Clip
import PeroVerif.Model.MergeLoop
import PeroVerif.Lemmas.MergeLoop

namespace C11
open Asg Py
variable {G : Type}

/-- obligation on the generated flag -/
theorem rot_suffix : Gen.Layout.rotSuffix = true := rfl

/-- The id scheme `'{}-l{:03d}'.format(region_id, i+1)` is injective in (region id, line index). -/
theorem lineId_injective (r r' : Str) (i i' : Nat) (h : lineId r i = lineId r' i') : r = r' ∧ i = i' :=
  lineId_inj r r' i i' h

/-- The bounding-box pre-filter never discards a line whose bounding box lies inside the region's
bounding box, unless the line is a single point: a baseline wholly inside a region is always offered to
the geometric test. -/
theorem prefilter_sound (l r : BBox) (hin : r.xmin ≤ l.xmin ∧ l.xmax ≤ r.xmax ∧ r.ymin ≤ l.ymin ∧ l.ymax ≤ r.ymax)
    (hwf : l.xmin ≤ l.xmax ∧ l.ymin ≤ l.ymax) (hnp : l.xmin < l.xmax ∨ l.ymin < l.ymax) :
    candidate l r = true := by
  have := hwf
  unfold candidate
  simp only [Bool.not_eq_true', Bool.and_eq_false_iff, Bool.or_eq_false_iff, decide_eq_false_iff_not]
  omega

/-- … and a line whose box is strictly separated from the region's box in both axes is never a candidate. -/
theorem prefilter_rejects (l r : BBox) (hy : l.ymax ≤ r.ymin ∨ l.ymin ≥ r.ymax) (hx : l.xmax ≤ r.xmin ∨ l.xmin ≥ r.xmax) :
    candidate l r = false := by
  unfold candidate
  simp only [Bool.not_eq_false', Bool.and_eq_true, Bool.or_eq_true, decide_eq_true_eq]
  exact ⟨hy, hx⟩

/-- What is stored in a region is exactly shapely's answer for the candidates, in detected-line order,
with the id of (region, line) and the line's own heights; existing lines are kept in front. -/
theorem assign_spec (mask : Nat → Nat → Option G) (lineBoxes : List BBox) (regs : List (Region G)) (ri : Nat)
    (r : Region G) (hr : regs[ri]? = some r) :
    ∃ r', (assign mask lineBoxes regs)[ri]? = some r' ∧ r'.id = r.id ∧ r'.bbox = r.bbox ∧
      r'.lines = r.lines ++ (List.range lineBoxes.length).filterMap fun li =>
        if candidate (lineBoxes.getD li ⟨0, 0, 0, 0⟩) r.bbox then (mask li ri).map fun g => ⟨lineId r.id li, g, li⟩ else none :=
  assign_spec' mask lineBoxes regs ri r hr

/-- A line shapely rejects (`mask = none`: it does not touch the region, or its piece is ≤ 2 px) is never placed. -/
theorem never_if_mask_none (mask : Nat → Nat → Option G) (lineBoxes : List BBox) (regs : List (Region G)) (ri li : Nat)
    (r : Region G) (hr : regs[ri]? = some r) (hm : mask li ri = none) (hold : ∀ p ∈ r.lines, p.id ≠ lineId r.id li) :
    ∀ r', (assign mask lineBoxes regs)[ri]? = some r' → ∀ p ∈ r'.lines, p.id ≠ lineId r.id li := by
  intro r' hr' p hp
  obtain ⟨r'', h1, -, -, h4⟩ := assign_spec' mask lineBoxes regs ri r hr
  rw [hr'] at h1
  cases h1
  rw [h4, List.mem_append] at hp
  rcases hp with hp | hp
  · exact hold p hp
  · rw [List.mem_filterMap] at hp
    obtain ⟨li', -, hp⟩ := hp
    split at hp
    · rw [Option.map_eq_some_iff] at hp
      obtain ⟨g, hg, rfl⟩ := hp
      intro he
      have := (lineId_inj _ _ _ _ he).2
      subst this
      rw [hm] at hg
      cases hg
    · cases hp

/-- All line ids produced by one assignment into empty regions with distinct ids are distinct. -/
theorem ids_nodup_one_call (mask : Nat → Nat → Option G) (lineBoxes : List BBox) (regs : List (Region G))
    (hid : (regs.map (·.id)).Nodup) (hempty : ∀ r ∈ regs, r.lines = []) :
    (((assign mask lineBoxes regs).flatMap (·.lines)).map (·.id)).Nodup :=
  ids_nodup mask lineBoxes regs hid hempty

/-- The longest piece is kept (first maximum). -/
theorem pickLongest_max (lens : List Nat) (k : Nat) (h : pickLongest lens = some k) :
    ∃ hk : k < lens.length, (∀ j (hj : j < lens.length), lens[j] ≤ lens[k]) ∧ ∀ j (hj : j < k), lens[j]'(by omega) < lens[k] :=
  pickLongest_spec lens k h

/-- Across the orientation passes over the same given region the ids stay distinct (each pass places
each detected line at most once; rotations are distinct). -/
theorem pass_ids_nodup (rid : Str) (rots : List Nat) (placed : Nat → List Nat)
    (hr : rots.Nodup) (hp : ∀ rot ∈ rots, (placed rot).Nodup) :
    (passIds rid rots placed).Nodup :=
  passIds_nodup rot_suffix rid rots placed hr hp


/-! ### Rectangular regions: clipping is a theorem, not a parameter -/
open Clip

/-- Segment clipping is exact: a parameter `t ∈ [0, 1]` of the segment lies in the clipped interval iff the point at
`t` lies in the (closed) rectangle.  (Soundness and completeness of the Liang–Barsky intervals.) -/
theorem clipSeg_exact (r : Rect) (p q : Pt) (t : Rat) (h0 : 0 ≤ t) (h1 : t ≤ 1) :
    inRect r (lerp p q t) ↔ ∃ t0 t1, clipSeg r p q = some (t0, t1) ∧ t0 ≤ t ∧ t ≤ t1 :=
  Clip.clipSeg_exact' r p q t h0 h1

/-- The clipped interval is a sub-interval of `[0, 1]`. -/
theorem clipSeg_range (r : Rect) (p q : Pt) (t0 t1 : Rat) (h : clipSeg r p q = some (t0, t1)) :
    0 ≤ t0 ∧ t0 ≤ t1 ∧ t1 ≤ 1 :=
  Clip.clipSeg_range' r p q t0 t1 h

/-- Every vertex of every placed piece lies inside the region. -/
theorem clip_in_rect (r : Rect) (pts : List Pt) :
    ∀ piece ∈ clipPolyline r pts, ∀ v ∈ piece, inRect r v :=
  Clip.clipPolyline_in_rect r pts

/-- Every vertex of every placed piece lies on the detected baseline: it is the point at some parameter `t ∈ [0, 1]` of
one of its segments. -/
theorem clip_on_polyline (r : Rect) (pts : List Pt) :
    ∀ piece ∈ clipPolyline r pts, ∀ v ∈ piece,
      ∃ (i : Nat) (p q : Pt) (t : Rat), pts[i]? = some p ∧ pts[i + 1]? = some q ∧ 0 ≤ t ∧ t ≤ 1 ∧ v = lerp p q t :=
  Clip.clipPolyline_on_polyline r pts

/-- A baseline wholly inside the region (all its points, hence all its vertices) is placed unchanged, as one piece. -/
theorem clip_inside_unchanged (r : Rect) (pts : List Pt) (hlen : 2 ≤ pts.length) (hin : ∀ v ∈ pts, inRect r v) :
    clipPolyline r pts = [pts] :=
  Clip.clipPolyline_inside r pts hlen hin

/-- A baseline that does not touch the region is never placed: if no point of any of its segments lies in the
rectangle, there is no piece. -/
theorem clip_untouched_empty (r : Rect) (pts : List Pt)
    (hout : ∀ (i : Nat) (p q : Pt) (t : Rat), pts[i]? = some p → pts[i + 1]? = some q → 0 ≤ t → t ≤ 1 → ¬ inRect r (lerp p q t)) :
    clipPolyline r pts = [] :=
  Clip.clipPolyline_untouched r pts hout

/-- Every piece has at least two vertices (a start and an end). -/
theorem clip_piece_length (r : Rect) (pts : List Pt) : ∀ piece ∈ clipPolyline r pts, 2 ≤ piece.length :=
  Clip.clipPolyline_length r pts

example : clipPolyline ⟨0, 0, 10, 10⟩ [(-5, 5), (5, 5), (5, 20), (8, 20), (8, 5)] =
    [[(0, 5), (5, 5), (5, 10)], [(8, 10), (8, 5)]] := by decide +kernel

/-! ### the merge loop of `LayoutExtractor.process_page` (`MERGE_LINES`): `merge_lines` + re-assignment until the
number of lines of the region stops changing.  Model: `Model/MergeLoop.lean`. -/
section mergeloop
open MergeLoop

/-- The grouping pass of `merge_lines` partitions the removed lines: `merged_lines` is exactly the concatenation of
the groups, without repetition, and holds only valid indices — every removed line goes into exactly one new line. -/
theorem merge_groups_partition (c : Nat → Nat → Bool) (n : Nat) :
    (grouping c n).1.flatten = (grouping c n).2 ∧ (grouping c n).2.Nodup ∧ (∀ i ∈ (grouping c n).2, i < n) ∧
    (grouping c n).1.length = n :=
  MergeLoop.grouping_partition c n

/-- `merge_lines` never returns more lines than it was given, whatever the compatibility relation. -/
theorem merge_count_le (c : Nat → Nat → Bool) (n : Nat) : mergedCount c n ≤ n :=
  MergeLoop.mergedCount_le c n

theorem mergeLines_length_le (ls : List Ln) : (mergeLines ls).length ≤ ls.length :=
  MergeLoop.mergeLines_length_le ls

/-- A line that is compatible with no other line is returned unchanged. -/
theorem merge_keeps_isolated (ls : List Ln) (i : Nat) (hi : i < ls.length)
    (hiso : ∀ j, j < ls.length → j ≠ i → compat (ls.getD i default) (ls.getD j default) = false ∧
      compat (ls.getD j default) (ls.getD i default) = false) :
    ls.getD i default ∈ mergeLines ls :=
  MergeLoop.mergeLines_keeps_isolated ls i hi hiso

/-- Re-assigning detected lines to ONE empty region places each line at most once. -/
theorem assign_count_le (mask : Nat → Nat → Option G) (lineBoxes : List BBox) (r : Region G) (hr : r.lines = []) :
    ∀ r', (assign mask lineBoxes [r])[0]? = some r' → r'.lines.length ≤ lineBoxes.length :=
  MergeLoop.assign_one_region_count mask lineBoxes r hr

/-- TERMINATION of the merge loop: for every step that does not increase the number of lines (merge, then re-assign
to the region) the loop stops after at most `n + 1` iterations (`n` = lines of the region); the fuel `n + 1` of the
model is never exhausted and more fuel changes nothing. -/
theorem merge_loop_terminates {α : Type} (step : List α → List α) (hstep : ∀ l, (step l).length ≤ l.length)
    (ls : List α) :
    ∃ r k, loop step (ls.length + 1) ls = some (r, k) ∧ 1 ≤ k ∧ k ≤ ls.length + 1 ∧ r.length ≤ ls.length ∧
      ∀ extra, loop step (ls.length + 1 + extra) ls = some (r, k) :=
  MergeLoop.loop_terminates step hstep ls

/-- … in particular for the modelled `merge_lines` followed by ANY re-assignment that places each line at most once
(`assign_count_le`), e.g. shapely dropping or clipping lines. -/
theorem merge_loop_terminates_model (reassign : List Ln → List Ln) (hre : ∀ l, (reassign l).length ≤ l.length)
    (ls : List Ln) :
    ∃ r k, loop (fun l => reassign (mergeLines l)) (ls.length + 1) ls = some (r, k) ∧ k ≤ ls.length + 1 :=
  let ⟨r, k, h, _, hk, _, _⟩ := MergeLoop.loop_terminates (fun l => reassign (mergeLines l))
    (fun l => Nat.le_trans (hre _) (MergeLoop.mergeLines_length_le l)) ls
  ⟨r, k, h, hk⟩

/-- When the loop stops, the last step did not change the number of lines (the code's exit condition). -/
theorem merge_loop_exit {α : Type} (step : List α → List α) (fuel : Nat) (ls r : List α) (k : Nat)
    (h : loop step fuel ls = some (r, k)) : ∃ prev, r = step prev ∧ (step prev).length = prev.length :=
  MergeLoop.loop_exit step fuel ls r k h

/-- non-vacuity: two adjacent words on one text line and a third line far below: the first pass fuses the two
(3 → 2 lines), the second pass changes nothing, the loop stops after 2 iterations -/
example :
    let ls : List Ln := [⟨0, 100, 50, 20, 5⟩, ⟨110, 200, 52, 20, 5⟩, ⟨0, 200, 300, 20, 5⟩]
    compat (ls.getD 0 default) (ls.getD 1 default) = true ∧ (mergeLines ls).length = 2 ∧
    (loop mergeLines 4 ls).map (fun r => (r.1.length, r.2)) = some (2, 2) := by
  decide

end mergeloop

end C11
