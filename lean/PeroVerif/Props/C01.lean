/-
C01 — property theorems (statements fixed by the architect; do not weaken).
`Gen.Page.sortKeyById` is GENERATED from the Python source on every run; every proof that needs it
to be `true` must obtain that fact ONLY through `key_by_id` below (proved by `rfl`).
Helper lemmas: PeroVerif/Lemmas/Decimal.lean (printing/parsing round trips) and
PeroVerif/Lemmas/PageXml.lean.
-/
import PeroVerif.Model.PageXml
import PeroVerif.Lemmas.Decimal
import PeroVerif.Lemmas.PageXml

namespace C01
open PX Py

/-- obligation on the generated flag -/
theorem key_by_id : Gen.Page.sortKeyById = true := rfl

theorem roKey_eq (ro : Dict Str Int) (r : Region) : roKey ro r = Dict.get? ro r.id := by
  simp [roKey, key_by_id]

/-! ### printing / parsing round trips -/

theorem parseInt_showInt (i : Int) : parseInt (showInt i) = some i := Py.parseInt_showInt i

/- FALSE for `k = 0` (`showFixed 0 5 = "5.0"`, whose fraction has 1 ≠ 0 digits; see `parseFixed_showFixed_false`):
theorem parseFixed_showFixed (k n : Nat) : parseFixed k (showFixed k n) = some n
The model only uses `k = 1` (heights) and `k = 3` (confidence). -/
theorem parseFixed_showFixed_false : parseFixed 0 (showFixed 0 5) = none := by decide

theorem parseFixed_showFixed_partial (k n : Nat) (hk : 0 < k) : parseFixed k (showFixed k n) = some n :=
  Py.parseFixed_showFixed_pos k n hk

theorem parsePoints_showPoints (ps : List (Int × Int)) (h : ps ≠ []) :
    parsePoints (showPoints ps) = .ok ps := PX.parsePoints_showPoints ps h

theorem parseHeights_showHeights (h : Nat × Nat) : parseHeights (showHeights h) = .ok h :=
  PX.parseHeights_showHeights h

/-! ### the round trip -/

def WFLine (l : Line) : Prop := l.baseline ≠ [] ∧ l.polygon ≠ [] ∧ (l.text = none → l.conf = none)

/-- the property's quantifier: every polygon / baseline has at least one point, a confidence only
accompanies a transcription, the reading order is a dict (distinct keys) -/
def WF (p : Page) : Prop :=
  (∀ r ∈ p.regions, r.polygon ≠ [] ∧ ∀ l ∈ r.lines, WFLine l) ∧
  (∀ ro, p.ro = some ro → (ro.map (·.1)).Nodup)

/-- Saving and loading back yields the same (quantised) page: same id and size, the regions in
reading order with ids, types, polygons, text, and the lines with ids, indices (position when absent),
baselines, polygons, heights, transcriptions and confidences — for both PAGE versions. -/
theorem import_export (v : Version) (p : Page) (h : WF p) :
    importPage (exportPage v p) = .ok (canon p) := importPage_exportPage v p h.1 h.2

theorem canon_idem (p : Page) (h : WF p) : canon (canon p) = canon p :=
  let _ := h; canon_canon p

theorem canon_wf (p : Page) (h : WF p) : WF (canon p) :=
  ⟨canon_regions_wf p h.1, canon_ro_wf p h.2⟩

/-- Fixpoint: exporting the re-loaded page and loading it again gives the same page, hence the
identical document (timestamps live in the abstract `Metadata` node). -/
theorem export_fixpoint (v : Version) (p : Page) (h : WF p) :
    ∃ p', importPage (exportPage v p) = .ok p' ∧
      ∃ p'', importPage (exportPage v p') = .ok p'' ∧ exportPage v p'' = exportPage v p' := by
  refine ⟨canon p, import_export v p h, canon (canon p), import_export v (canon p) (canon_wf p h), ?_⟩
  rw [canon_idem p h]

/-! ### reading order -/

/-- only reorders -/
theorem sortRO_perm (ro : Dict Str Int) (rs : List Region) : (sortRO ro rs).Perm rs := sortRO_perm' ro rs

/-- regions are held in reading order: keys non-decreasing, unlisted regions (key +∞) last -/
theorem sortRO_sorted (ro : Dict Str Int) (rs : List Region) :
    (sortRO ro rs).Pairwise fun a b => keyLe (Dict.get? ro a.id) (Dict.get? ro b.id) = true := by
  simpa only [roKey_eq] using sortRO_pairwise ro rs

/-- … otherwise stable: regions with the same key keep their relative order -/
theorem sortRO_stable (ro : Dict Str Int) (rs : List Region) (k : Option Int) :
    (sortRO ro rs).filter (fun r => Dict.get? ro r.id = k) = rs.filter (fun r => Dict.get? ro r.id = k) := by
  simpa only [roKey_eq] using sortRO_stable' ro rs k

/-- the exported document lists the regions in that order -/
theorem export_in_reading_order (v : Version) (p : Page) (ro : Dict Str Int) (h : p.ro = some ro) :
    ∃ pre, exportPageElem p =
      .node k_Page [(k_imageFilename, p.id), (k_imageWidth, showInt p.width), (k_imageHeight, showInt p.height)]
        none (pre :: (sortRO ro p.regions).map exportRegion) := by
  let _ := v
  refine ⟨exportRO ro, ?_⟩
  simp [exportPageElem, h]

/-! ### non-vacuity: 3 regions, partial reading order, negative coordinate, empty and absent text -/
def exLine (i : Str) (t : Option Str) : Line :=
  { id := i, index := none, baseline := [(-5, 7), (10, 7)], polygon := [(0, 0), (10, 0), (10, 9)],
    heights := some (123, 40), text := t, conf := t.map fun _ => 875 }
def exPage : Page :=
  { id := [112], height := 100, width := 200,
    regions := [⟨[97], none, [(0, 0)], none, [exLine [108, 49] (some []), exLine [108, 50] none]⟩,
                ⟨[98], some [104], [(1, 1)], some [120], []⟩,
                ⟨[99], none, [(2, 2)], none, [exLine [108, 51] (some [60, 38, 62])]⟩],
    ro := some [([99], 0), ([97], 1)] }
/-- the hypotheses of the round-trip theorems are satisfiable by a non-trivial page -/
theorem exPage_wf : WF exPage := by
  refine ⟨?_, ?_⟩
  · intro r hr
    simp only [exPage, List.mem_cons, List.not_mem_nil, or_false] at hr
    rcases hr with rfl | rfl | rfl <;> simp [WFLine, exLine]
  · intro ro h
    simp only [exPage, Option.some.injEq] at h
    subst h
    decide
/-- and the reading order really reorders it: c, a, then the unlisted b -/
theorem exPage_order : (canon exPage).regions.map (·.id) = [[99], [97], [98]] := by
  simp [canon, exPage, sortRO, List.mergeSort, List.MergeSort.Internal.splitInTwo, roKey_eq, Dict.get?, keyLe]

end C01
