import PeroVerif.Model.PageXml
namespace C01
theorem placeholder : (1:Nat) = 1 := rfl
end C01
