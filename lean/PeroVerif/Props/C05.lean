/-
C05 — property theorems (statements fixed by the architect; do not weaken).
Helper lemmas: PeroVerif/Lemmas/ForceAlign.lean (and PeroVerif/Lemmas/Ctc.lean for collapse facts).
-/
import PeroVerif.Model.ForceAlign
import PeroVerif.Lemmas.Ctc
import PeroVerif.Lemmas.ForceAlign

namespace C05
open Ctc FA

/-- number of adjacent equal label pairs (each needs a separating blank frame) -/
def repeats : List Nat → Nat
  | a :: b :: r => (if a = b then 1 else 0) + repeats (b :: r)
  | _ => 0

/-- Well-formed call: at least one frame, every frame has a column for the blank and every label. -/
def WF (M : List (List Cost)) (labels : List Nat) (blank : Nat) : Prop :=
  M ≠ [] ∧ ∀ row ∈ M, blank < row.length ∧ ∀ l ∈ labels, l < row.length

/-- Validity: one symbol per frame, collapsing exactly to the labels. -/
theorem align_valid (M : List (List Cost)) (labels : List Nat) (blank : Nat) (π : List Nat)
    (h : forceAlign M labels blank = .ok π) :
    π.length = M.length ∧ collapse blank π = labels := by
  obtain ⟨hb, _, p, _, rfl, hadm, hlen, _, _⟩ := forceAlign_ok_spec h
  exact ⟨by simpa using hlen, hadm.collapse_eq hb⟩

/-- The returned alignment has finite cost. -/
theorem align_finite (M : List (List Cost)) (labels : List Nat) (blank : Nat) (π : List Nat)
    (h : forceAlign M labels blank = .ok π) : (pathCost M π).isSome = true := by
  obtain ⟨_, _, p, _, _, _, _, hfin, _⟩ := forceAlign_ok_spec h
  exact hfin

/-- Optimality among ALL frame paths that collapse to the labels. -/
theorem align_optimal (M : List (List Cost)) (labels : List Nat) (blank : Nat) (π : List Nat)
    (h : forceAlign M labels blank = .ok π) (π' : List Nat) (hl : π'.length = M.length)
    (hc : collapse blank π' = labels) :
    leC (pathCost M π) (pathCost M π') = true := by
  obtain ⟨_, _, p, _, _, _, _, _, hopt⟩ := forceAlign_ok_spec h
  exact hopt π' hl hc

theorem reject_blank (M : List (List Cost)) (labels : List Nat) (blank : Nat) (h : blank ∈ labels) :
    forceAlign M labels blank = .error .blankInLabels := by
  simp [forceAlign, statePath, h, Except.map]

theorem reject_empty (M : List (List Cost)) (blank : Nat) :
    forceAlign M [] blank = .error .emptyLabels := by
  simp [forceAlign, statePath, Except.map]

/-- On well-formed calls the only failure is "unalignable", and it happens iff no finite-cost
alignment exists (an alignment of infinite cost = zero probability counts as non-existent). -/
theorem align_fails_iff (M : List (List Cost)) (labels : List Nat) (blank : Nat)
    (hb : blank ∉ labels) (hne : labels ≠ []) (hwf : WF M labels blank) :
    (forceAlign M labels blank = .error .unalignable ↔
      ¬ ∃ π : List Nat, π.length = M.length ∧ collapse blank π = labels ∧ (pathCost M π).isSome = true) ∧
    (∀ e, forceAlign M labels blank = .error e → e = .unalignable) :=
  forceAlign_fails hb hne hwf.1 hwf.2

/-- Finite matrices: failure iff too few frames for the labels plus the blanks needed between
repeated labels. -/
theorem fails_structural (M : List (List Cost)) (labels : List Nat) (blank : Nat)
    (hb : blank ∉ labels) (hne : labels ≠ []) (hwf : WF M labels blank)
    (hfin : ∀ row ∈ M, ∀ c ∈ row, c ≠ none) :
    forceAlign M labels blank = .error .unalignable ↔ M.length < labels.length + repeats labels := by
  have hrep : ∀ l : List Nat, repeats l = reps l := by
    intro l
    induction l with
    | nil => rfl
    | cons a r ih =>
      cases r with
      | nil => rfl
      | cons b r => simp only [repeats, reps, ih]
  rw [hrep]
  exact forceAlign_fails_structural hb hne hwf.1 hwf.2 hfin

/-- Character positions: one per label, strictly increasing, each a frame aligned to its label, and
among those frames one where the network is most confident (smallest frame-minimum cost). -/
theorem positions_spec (M : List (List Cost)) (labels : List Nat) (blank : Nat)
    (ps : List (Option Nat)) (h : alignText M labels blank = .ok ps) :
    ∃ (qs : List Nat) (pos : List (Option Nat)),
      forceAlignPos M labels blank = .ok pos ∧
      ps = qs.map some ∧ qs.length = labels.length ∧ qs.Pairwise (· < ·) ∧
      ∀ i (hi : i < qs.length),
        pos[qs[i]]? = some (some i) ∧
        ∀ t, pos[t]? = some (some i) →
          leC (frameMin (M.getD qs[i] [])) (frameMin (M.getD t [])) = true :=
  alignText_spec M labels blank ps h

/-! Non-vacuity -/
example : (match forceAlign [[some 1, some 5, some 0], [some 5, some 1, some 0], [some 1, some 5, some 0]] [0, 0] 2 with
    | .ok p => p == [0, 2, 0] | .error _ => false) = true := by decide
example : (match forceAlign [[some 1, some 5, some 0], [some 5, some 1, some 0]] [0, 0] 2 with
    | .error e => e == .unalignable | .ok _ => false) = true := by decide
example : WF [[some 1, some 5, some 0], [some 5, some 1, some 0]] [0, 0] 2 := by
  refine ⟨by simp, ?_⟩
  intro row hrow
  simp at hrow
  rcases hrow with rfl | rfl <;> simp
example : repeats [0, 0] = 1 := by decide

end C05
