import PeroVerif.Model.ForceAlign
namespace C05
theorem placeholder : (1:Nat) = 1 := rfl
end C05
