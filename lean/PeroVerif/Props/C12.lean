import PeroVerif.Model.SmartSort
namespace C12
theorem placeholder : (1:Nat) = 1 := rfl
end C12
