/-
C12 — property theorems (statements fixed by the architect; do not weaken).
Helper lemmas: PeroVerif/Lemmas/SmartSort.lean.
-/
import PeroVerif.Model.SmartSort
import PeroVerif.Model.Deskew
import PeroVerif.Lemmas.SmartSort
import PeroVerif.Lemmas.Deskew

namespace C12
open SS

/-- The smart sorter always terminates (the fuel `2n+2` is never exhausted) and only permutes the
regions — for every set of boxes (overlapping, nested, identical, degenerate), every intersection
parameter. Boxes are moved as whole records, so ids and geometry are untouched. -/
theorem smart_terminates_perm (num den : Nat) (bs : List Box) :
    ∃ out, smartSort num den bs = some out ∧ out.Perm bs := by
  unfold smartSort
  by_cases h : bs.length < 2
  · exact ⟨bs, by simp [h], List.Perm.refl _⟩
  · simp only [h, if_false]
    exact divide_total num den _ bs false false (by simp; omega)

/-- More fuel never changes the result: the recursion depth is bounded by the number of regions. -/
theorem divide_fuel_irrelevant (num den : Nat) (bs : List Box) (vertical hasParent : Bool) (f₁ f₂ : Nat)
    (h₁ : bs.length + 2 ≤ f₁) (h₂ : bs.length + 2 ≤ f₂) :
    divide num den f₁ bs vertical hasParent = divide num den f₂ bs vertical hasParent :=
  divide_fuel_gen num den f₁ f₂ bs vertical hasParent
    (by cases hasParent <;> simp <;> omega) (by cases hasParent <;> simp <;> omega)

/-- Pages with fewer than two regions are returned unchanged. -/
theorem smart_small (num den : Nat) (bs : List Box) (h : bs.length < 2) : smartSort num den bs = some bs := by
  simp [smartSort, h]

/-- The coupling loop partitions its input: nothing lost, nothing duplicated, no empty group. -/
theorem couple_partition (num den : Nat) (vertical : Bool) (bs : List Box) :
    ((couple num den vertical bs.length bs).flatMap (·.members)).Perm bs ∧
    ∀ g ∈ couple num den vertical bs.length bs, g.members ≠ [] :=
  couple_partition_gen num den vertical bs.length bs (Nat.le_refl _)

/-- The fallback ordering is a permutation. -/
theorem decoupleOrder_perm (bs : List Box) : (decoupleOrder bs).Perm bs :=
  SS.decoupleOrder_perm bs

/-- Naive sorter: for every labelling with labels `0..k-1` (what DBSCAN returns) the order is a
permutation of the region indices; no region is lost or duplicated. -/
theorem naive_perm (keys : List Int) (labels : List Nat)
    (hlab : ∀ c ∈ labels, c < (uniq labels).length) :
    ∃ o, naiveOrder keys labels = some o ∧ o.Perm (List.range labels.length) :=
  SS.naive_perm keys labels hlab

/-! Non-vacuity: two columns × two rows given in scrambled order; four mutually overlapping boxes
(the recursive fallback). -/
def exGrid : List Box := [⟨0, 500, 400, 850, 650⟩, ⟨1, 100, 100, 450, 350⟩, ⟨2, 500, 100, 850, 350⟩, ⟨3, 100, 400, 450, 650⟩]
def exOverlap : List Box := [⟨0, 0, 0, 500, 500⟩, ⟨1, 100, 100, 600, 600⟩, ⟨2, 50, 200, 550, 700⟩, ⟨3, 200, 50, 700, 550⟩]

/-- `exGrid` is put into reading order: top row left to right, then bottom row. -/
example : smartSort 1 10 exGrid = some [⟨1, 100, 100, 450, 350⟩, ⟨2, 500, 100, 850, 350⟩,
    ⟨3, 100, 400, 450, 650⟩, ⟨0, 500, 400, 850, 650⟩] := by
  simp [smartSort, exGrid, divide, couple, grow, pickFirst, intersect, ratioGt, BBox.init, BBox.addBox,
    BBox.update, Box.bbox, sortBy, List.mergeSort, List.MergeSort.Internal.splitInTwo, decoupleOrder]

/-- `exOverlap` goes through the "group did not split" fallback (`decoupleOrder`). -/
example : smartSort 1 10 exOverlap = some [⟨0, 0, 0, 500, 500⟩, ⟨2, 50, 200, 550, 700⟩,
    ⟨1, 100, 100, 600, 600⟩, ⟨3, 200, 50, 700, 550⟩] := by
  simp [smartSort, exOverlap, divide, couple, grow, pickFirst, intersect, ratioGt, BBox.init, BBox.addBox,
    BBox.update, Box.bbox, sortBy, List.mergeSort, List.MergeSort.Internal.splitInTwo, decoupleOrder, gaps]

/-- naive sorter: cluster 0 = {1, 3} (first key 1) before cluster 1 = {0, 2} (first key 5). -/
example : naiveOrder [5, 1, 3, 2] [1, 0, 1, 0] = some [1, 3, 2, 0] := by
  simp [naiveOrder, uniq, firstIdx, sortBy, List.mergeSort, List.MergeSort.Internal.splitInTwo,
    List.eraseDups_cons, List.range, List.range.loop, List.findIdx_cons]


/-! ### De-skew: rotating there and back leaves every geometry unchanged -/

/-- "Geometry unchanged as shapes": the sorter rotates every region outline, line polygon and baseline by `-angle`
before sorting and by `+angle` afterwards; in exact arithmetic that is the identity, vertex by vertex (floats add the
round-off the property allows). -/
theorem deskew_roundtrip (c s : Rat) (h : c * c + s * s = 1) (poly : List Deskew.Pt) :
    Deskew.thereAndBack c s poly = poly :=
  Deskew.thereAndBack_id c s h poly

/-- The de-skew rotation is an isometry: while the page is rotated, all distances (hence region and line shapes) are
those of the original page. -/
theorem deskew_isometry (c s : Rat) (h : c * c + s * s = 1) (p q : Deskew.Pt) :
    ((Deskew.rot c s p).1 - (Deskew.rot c s q).1) * ((Deskew.rot c s p).1 - (Deskew.rot c s q).1) +
      ((Deskew.rot c s p).2 - (Deskew.rot c s q).2) * ((Deskew.rot c s p).2 - (Deskew.rot c s q).2) =
    (p.1 - q.1) * (p.1 - q.1) + (p.2 - q.2) * (p.2 - q.2) :=
  Deskew.rot_dist c s h p q

/-- non-vacuity: the 3-4-5 rotation -/
example : Deskew.thereAndBack (3/5) (4/5) [(10, 20), (110, 20), (110, 70)] = [(10, 20), (110, 20), (110, 70)] := by
  decide +kernel

end C12
