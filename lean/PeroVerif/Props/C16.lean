/-
C16 — property theorems (statements fixed by the architect; do not weaken).
Helper lemmas: PeroVerif/Lemmas/Confidence.lean.
-/
import Mathlib.Algebra.Order.Field.Basic
import Mathlib.Analysis.SpecialFunctions.Log.Basic
import PeroVerif.Model.Confidence
import PeroVerif.Lemmas.Confidence

namespace C16
open Conf

/-- obligations on the GENERATED window border and end sentinel of `get_line_confidence` — the ONLY places that
evaluate `Gen.Confidence.nextBorder` / `Gen.Confidence.sentinel`: the border between the windows of two neighbouring
characters lies strictly after the first character's frame (`a < border`) and not after the second's
(`border ≤ a'`) — so every window contains its own character's frame —, it is their midpoint rounded as
`(a + 1 + a') / 2`, and the sentinel is at least the number of frames. -/
theorem cfg_nextBorder (a a' : Nat) : (Gen.Confidence.nextBorder (a : Int) (a' : Int)).toNat = (a + 1 + a') / 2 := by
  unfold Gen.Confidence.nextBorder
  rw [Py.floorDiv_two]
  omega

theorem cfg_sentinel (T : Nat) : (Gen.Confidence.sentinel (T : Int)).toNat = max 1000 T := by
  unfold Gen.Confidence.sentinel
  omega

section Field
variable {R : Type} [Field R] [LinearOrder R] [IsStrictOrderedRing R]

def COps.of (R : Type) [Field R] [LinearOrder R] : COps R :=
  { zero := 0, one := 1, add := (· + ·), mul := (· * ·), lt := fun a b => decide (a < b),
    div := (· / ·), sub := (· - ·) }

/-- posteriors: every frame has `C` entries in [0,1] (summing to 1: not even needed for the ranges) -/
def Probs (C : ℕ) (probs : List (List R)) : Prop :=
  ∀ row ∈ probs, row.length = C ∧ ∀ x ∈ row, 0 ≤ x ∧ x ≤ 1

/-- Per-character confidences are probabilities. -/
theorem lineConfidence_range (C : ℕ) (probs : List (List R)) (labels alignment : List ℕ) (cs : List R)
    (hp : Probs C probs) (h : getLineConfidence (COps.of R) probs labels alignment = some cs) :
    cs.length = labels.length ∧ ∀ c ∈ cs, 0 ≤ c ∧ c ≤ 1 := by
  exact Conf.lineConfidence_rangeL cfg_nextBorder (C := C) hp h

/-- The computation is defined (no NumPy error: every window is non-empty) whenever the alignment is
strictly increasing inside the matrix — which C05 proves for `align_text` — and there are ≥ 2 classes. -/
theorem lineConfidence_defined (C : ℕ) (hC : 2 ≤ C) (probs : List (List R)) (labels alignment : List ℕ)
    (hp : Probs C probs) (hl : labels.length = alignment.length) (hlab : ∀ l ∈ labels, l < C)
    (hal : alignment.Pairwise (· < ·)) (hT : ∀ a ∈ alignment, a < probs.length) :
    ∃ cs, lineConfidence (COps.of R) probs labels alignment = some cs := by
  exact Conf.lineConfidence_definedL cfg_nextBorder cfg_sentinel hC hp hl hlab hal hT

/-- One label: if the aligned frame gives the label probability 1 and, inside the label's window,
all mass of the other (non-blank, non-neighbour) symbols is 0 — as for one-hot posteriors — the
confidence is exactly 1. -/
theorem labelConfidence_onehot (C : ℕ) (probs : List (List R)) (labels al : List ℕ) (i lastBorder : ℕ)
    (c : R) (nb : ℕ) (hp : Probs C probs)
    (h : labelConfidence (COps.of R) probs labels al i lastBorder = some (c, nb))
    (hlab : ∀ row, probs[al.getD i 0]? = some row → row[labels.getD i 0]? = some 1)
    (hoth : ∀ row ∈ (probs.drop lastBorder).take (nb - lastBorder), ∀ j, j + 1 < C →
        j ≠ labels.getD i 0 → (i > 0 → j ≠ labels.getD (i - 1) 0) →
        (i + 1 < labels.length → j ≠ labels.getD (i + 1) 0) → row[j]? = some 0) :
    c = 1 := by
  exact Conf.labelConfidence_onehotL cfg_nextBorder (C := C) hp h hlab hoth

/-- Transformer lines: the confidence is the posterior of the label in its own frame. -/
theorem transformer_range (C : ℕ) (probs : List (List R)) (labels : List ℕ) (cs : List R)
    (hp : Probs C probs) (h : lineConfidenceTransformer probs labels = some cs) :
    ∀ c ∈ cs, 0 ≤ c ∧ c ≤ 1 := by
  exact (Conf.transformer_rangeL (C := C) hp h).2

/-- `get_letter_confidence` (exponentiated) and `compute_line_confidence` are probabilities. -/
theorem letterConfidence_range (C : ℕ) (probs : List (List R)) (alignment : List ℕ) (blank : ℕ)
    (cs : List R) (hp : Probs C probs)
    (h : letterConfidence (COps.of R) probs alignment blank = some cs) :
    ∀ c ∈ cs, 0 ≤ c ∧ c ≤ 1 := by
  exact Conf.letterConfidence_rangeL (C := C) hp h

theorem getProb_range (best : List (ℕ × R)) (h : ∀ b ∈ best, 0 ≤ b.2 ∧ b.2 ≤ 1) :
    0 ≤ getProb (COps.of R) best ∧ getProb (COps.of R) best ≤ 1 := by
  exact Conf.getProb_rangeL best h

/-- The two confidence notions of a line: the decoder's confident-line test looks at the SMALLEST per-frame best posterior, the stored
line confidence (`get_prob`) first merges runs of frames with the same best symbol (largest posterior of the run).  The stored value is
never below the decoder's: every lower bound of the per-frame best posteriors is a lower bound of `get_prob` — the two can differ, so a
threshold may separate them (which is why the confident-line test must not be answered from the stored value, cf. C08). -/
theorem getProb_ge_frame_min (best : List (ℕ × R)) (m : R) (hm : m ≤ 1) (h : ∀ b ∈ best, m ≤ b.2) :
    m ≤ getProb (COps.of R) best := by
  unfold getProb
  exact Conf.getProbAux_sel (Conf.cops R) (fun p : R => m ≤ p) best _ _ _ hm hm h

/-- The confident-line test is monotone in its threshold. -/
theorem confident_monotone (probs : List (List R)) (t₁ t₂ : R) (ht : t₁ ≤ t₂)
    (h : lineConfidentEnough (COps.of R) probs t₂ = some true) :
    lineConfidentEnough (COps.of R) probs t₁ = some true := by
  exact Conf.confident_monotoneL probs t₁ t₂ ht h

/-- Line / word confidence = median (`np.quantile(·, .5)`) of values in [0,1] is in [0,1]. -/
theorem median_range (xs : List R) (m : R) (hx : ∀ x ∈ xs, 0 ≤ x ∧ x ≤ 1)
    (h : median (COps.of R) 2 xs = some m) : 0 ≤ m ∧ m ≤ 1 := by
  exact Conf.median_rangeL xs m hx h

theorem median_defined (xs : List R) (hne : xs ≠ []) : ∃ m, median (COps.of R) 2 xs = some m := by
  exact Conf.median_definedL xs hne

end Field

section Real
open Real

/-- `logsumexp` of one frame -/
noncomputable def lse (x : List ℝ) : ℝ := Real.log (x.map Real.exp).sum

/-- `log_softmax` of one frame: `x - logaddexp.reduce(x)` -/
noncomputable def logSoftmax (x : List ℝ) : List ℝ := x.map fun a => a - lse x

/-- Row-normalised: the posteriors `exp(log_softmax x)` of a frame sum to 1 … -/
theorem exp_logSoftmax_sum_one (x : List ℝ) (hne : x ≠ []) :
    ((logSoftmax x).map Real.exp).sum = 1 := by
  unfold logSoftmax lse
  exact Conf.sum_exp_sub_log x hne

/-- … lie in (0, 1] … -/
theorem exp_logSoftmax_range (x : List ℝ) (hne : x ≠ []) :
    ∀ p ∈ (logSoftmax x).map Real.exp, 0 < p ∧ p ≤ 1 := by
  intro p hp
  have _ := hne
  unfold logSoftmax lse at hp
  rw [List.map_map] at hp
  obtain ⟨a, ha, rfl⟩ := List.mem_map.1 hp
  exact Conf.exp_sub_log_range x ha

/-- … and do not change when a constant is added to all logits of the frame. -/
theorem logSoftmax_shift (x : List ℝ) (c : ℝ) (hne : x ≠ []) :
    logSoftmax (x.map (· + c)) = logSoftmax x := by
  unfold logSoftmax lse
  rw [Conf.log_sum_exp_shift x c hne, List.map_map]
  apply List.map_congr_left
  intro a _
  simp only [Function.comp_apply]
  ring

end Real

end C16
