import PeroVerif.Model.Confidence
namespace C16
theorem placeholder : (1:Nat) = 1 := rfl
end C16
