import PeroVerif.Model.Merge
namespace C15
theorem placeholder : (1:Nat) = 1 := rfl
end C15
