/-
C15 — property theorems (statements fixed by the architect; do not weaken).
`Gen.Merge.mergeText/mergeLogits` are GENERATED from the Python source on every run; the lemmas
`mergeText_eq` / `mergeLogits_eq` are the proof obligations that an edit of the source can break —
everything else should be derived from them (do not unfold Gen.Merge.* anywhere else).
Helper lemmas go to PeroVerif/Lemmas/Merge.lean.
-/
import PeroVerif.Model.Merge
import PeroVerif.Lemmas.Merge

namespace C15
open Merge
variable {α β : Type} [DecidableEq α]

/-- Obligation on the generated slice expression: keep all but ⌈o/2⌉ symbols on the left, drop ⌊o/2⌋
on the right. -/
theorem mergeText_eq (r p : List α) (o : Nat) (h : o ≤ r.length) :
    Gen.Merge.mergeText r p (o : Int) = r.take (r.length - (o + 1) / 2) ++ p.drop (o / 2) := by
  simp only [Gen.Merge.mergeText]
  rw [Py.slice_to_nat (n := r.length - (o + 1) / 2), Py.slice_from_nat (n := o / 2)]
  all_goals (simp only [Py.len, Py.floorDiv_two]; omega)

theorem mergeLogits_eq (r p : List α) (lr lp : List β) (o : Nat) (h : o ≤ lr.length) :
    Gen.Merge.mergeLogits r p lr lp (o : Int) = lr.take (lr.length - (o + 1) / 2) ++ lp.drop (o / 2) := by
  simp only [Gen.Merge.mergeLogits]
  rw [Py.slice_to_nat (n := lr.length - (o + 1) / 2), Py.slice_from_nat (n := o / 2)]
  all_goals (simp only [Py.len, Py.floorDiv_two]; omega)

/-- The detected overlap never exceeds either text. -/
theorem findBestOverlap_le (a b : List α) : findBestOverlap a b ≤ min a.length b.length :=
  findBestOverlap_le_min a b

theorem findBestOverlap_nil_right (a : List α) : findBestOverlap a [] = 0 := by
  have := findBestOverlap_le a ([] : List α)
  simp only [List.length_nil] at this
  omega
theorem findBestOverlap_nil_left (b : List α) : findBestOverlap ([] : List α) b = 0 := by
  have := findBestOverlap_le ([] : List α) b
  simp only [List.length_nil] at this
  omega

/-! Helper forms of `mergeStep`, derived from the two obligations above (no unfolding of `Gen.Merge.*`). -/

theorem overlap_le_left (a b : List α) : findBestOverlap a b ≤ a.length :=
  Nat.le_trans (findBestOverlap_le a b) (Nat.min_le_left ..)

theorem overlap_le_right (a b : List α) : findBestOverlap a b ≤ b.length :=
  Nat.le_trans (findBestOverlap_le a b) (Nat.min_le_right ..)

theorem mergeStep_fst (acc p : List α × List β) :
    (mergeStep acc p).1 = cut acc.1 p.1 (findBestOverlap acc.1 p.1) := by
  simp only [mergeStep]
  exact mergeText_eq _ _ _ (overlap_le_left ..)

theorem mergeStep_snd (acc p : List α × List β) (h : findBestOverlap acc.1 p.1 ≤ acc.2.length) :
    (mergeStep acc p).2 = cut acc.2 p.2 (findBestOverlap acc.1 p.1) := by
  simp only [mergeStep]
  exact mergeLogits_eq _ _ _ _ _ h

theorem mergeAll_cons (p : List α × List β) (ps : List (List α × List β)) :
    mergeAll (p :: ps) = some ((ps.map shrink).foldl mergeStep (shrink p)) := by
  simp only [mergeAll, List.map_cons]

theorem foldl_mergeStep_length (qs : List (List α × List β)) : ∀ (acc : List α × List β),
    (qs.foldl mergeStep acc).1.length + (overlaps acc qs).sum
      = acc.1.length + (qs.map (·.1.length)).sum := by
  induction qs with
  | nil => intro acc; simp [overlaps]
  | cons q qs ih =>
    intro acc
    have h1 := ih (mergeStep acc q)
    have h2 := cut_length acc.1 q.1 _ (overlap_le_left acc.1 q.1) (overlap_le_right acc.1 q.1)
    rw [← mergeStep_fst] at h2
    simp only [List.foldl_cons, overlaps, List.sum_cons, List.map_cons]
    omega

theorem foldl_mergeStep_rows (qs : List (List α × List β))
    (hq : ∀ q ∈ qs, q.2.length = q.1.length) : ∀ (acc : List α × List β),
    acc.2.length = acc.1.length → (qs.foldl mergeStep acc).2.length = (qs.foldl mergeStep acc).1.length := by
  induction qs with
  | nil => intro acc h; exact h
  | cons q qs ih =>
    intro acc h
    rw [List.foldl_cons]
    apply ih (fun q' hq' => hq q' (List.mem_cons_of_mem _ hq'))
    have hl := overlap_le_left acc.1 q.1
    have hq1 := hq q (List.mem_cons_self ..)
    rw [mergeStep_fst, mergeStep_snd _ _ (by omega), cut_length' _ _ _ hl, cut_length' _ _ _ (by omega)]
    omega

theorem foldl_mergeStep_prefix (qs : List (List α × List β)) : ∀ (acc : List α × List β),
    acc.1.take (acc.1.length - ((overlaps acc qs).map (fun o => (o + 1) / 2)).sum)
      <+: (qs.foldl mergeStep acc).1 := by
  induction qs with
  | nil => intro acc; simp [overlaps]
  | cons q qs ih =>
    intro acc
    simp only [List.foldl_cons, overlaps, List.map_cons, List.sum_cons]
    refine List.IsPrefix.trans ?_ (ih (mergeStep acc q))
    have hl := overlap_le_left acc.1 q.1
    have hlen := cut_length' acc.1 q.1 _ hl
    rw [← mergeStep_fst] at hlen
    generalize ((overlaps (mergeStep acc q) qs).map (fun o => (o + 1) / 2)).sum = S at *
    have htake := take_cut acc.1 q.1 (findBestOverlap acc.1 q.1)
      (acc.1.length - ((findBestOverlap acc.1 q.1 + 1) / 2 + S)) (by omega)
    rw [← mergeStep_fst] at htake
    rw [← htake]
    exact List.take_prefix_take_left (by omega)

/-- Length law for one merge: |result| = |acc| + |part| − overlap. -/
theorem mergeStep_length (acc p : List α × List β) :
    (mergeStep acc p).1.length + findBestOverlap acc.1 p.1 = acc.1.length + p.1.length := by
  rw [mergeStep_fst]
  exact cut_length _ _ _ (overlap_le_left ..) (overlap_le_right ..)

/-- One logits row per character is preserved by a merge. -/
theorem mergeStep_rows (acc p : List α × List β) (ha : acc.2.length = acc.1.length)
    (hp : p.2.length = p.1.length) :
    (mergeStep acc p).2.length = (mergeStep acc p).1.length :=
  foldl_mergeStep_rows [p] (by intro q hq; rw [List.mem_singleton.mp hq]; exact hp) acc ha

/-- Parts that share no overlap (in particular empty parts) are concatenated unchanged. -/
theorem no_overlap_concat (acc p : List α × List β) (h : findBestOverlap acc.1 p.1 = 0) :
    mergeStep acc p = (acc.1 ++ p.1, acc.2 ++ p.2) := by
  apply Prod.ext
  · rw [mergeStep_fst, h, cut_zero]
  · rw [mergeStep_snd _ _ (by omega), h, cut_zero]

theorem empty_part_right (acc : List α × List β) (l : List β) :
    mergeStep acc ([], l) = (acc.1, acc.2 ++ l) := by
  rw [no_overlap_concat acc ([], l) (findBestOverlap_nil_right acc.1), List.append_nil]

/-- n parts: the length is the sum of the part lengths minus the detected overlaps. -/
theorem mergeAll_length (p : List α × List β) (ps : List (List α × List β)) :
    ∃ r, mergeAll (p :: ps) = some r ∧
      r.1.length + (overlaps (shrink p) (ps.map shrink)).sum = ((p :: ps).map (·.1.length)).sum := by
  refine ⟨_, mergeAll_cons p ps, ?_⟩
  rw [foldl_mergeStep_length]
  simp only [shrink, List.map_cons, List.sum_cons, List.map_map, Function.comp_def]

/-- n parts, logits with at least as many rows as characters: exactly one row per merged character. -/
theorem mergeAll_rows (p : List α × List β) (ps : List (List α × List β))
    (h : ∀ q ∈ p :: ps, q.1.length ≤ q.2.length) :
    ∃ r, mergeAll (p :: ps) = some r ∧ r.2.length = r.1.length := by
  have hs : ∀ q ∈ p :: ps, (shrink q).2.length = (shrink q).1.length := by
    intro q hq
    have := h q hq
    simp only [shrink, List.length_take]
    omega
  refine ⟨_, mergeAll_cons p ps, ?_⟩
  apply foldl_mergeStep_rows
  · intro q hq
    obtain ⟨q', hq', rfl⟩ := List.mem_map.mp hq
    exact hs q' (List.mem_cons_of_mem _ hq')
  · exact hs p (List.mem_cons_self ..)

/-- The result ends with the last part, less the left half (rounded down) of its overlap. -/
theorem mergeAll_suffix (p : List α × List β) (ps : List (List α × List β)) (last : List α × List β) :
    ∃ r o, mergeAll (p :: (ps ++ [last])) = some r ∧ o ≤ last.1.length ∧
      last.1.drop (o / 2) <:+ r.1 := by
  refine ⟨_, findBestOverlap ((ps.map shrink).foldl mergeStep (shrink p)).1 last.1,
    mergeAll_cons p (ps ++ [last]), overlap_le_right .., ?_⟩
  rw [List.map_append, List.foldl_append, List.map_singleton, List.foldl_cons, List.foldl_nil,
    mergeStep_fst]
  exact List.suffix_append _ _

/-- Two parts: the result begins with the first part less ⌈o/2⌉ symbols (at most half the overlap,
rounded up), followed by the second part less its first ⌊o/2⌋ symbols. -/
theorem merge_two (p q : List α × List β) :
    ∃ r, mergeAll [p, q] = some r ∧
      r.1 = p.1.take (p.1.length - (findBestOverlap p.1 q.1 + 1) / 2) ++ q.1.drop (findBestOverlap p.1 q.1 / 2) := by
  refine ⟨_, mergeAll_cons p [q], ?_⟩
  rw [List.map_singleton, List.foldl_cons, List.foldl_nil, mergeStep_fst]
  rfl

/-- n parts: the first part less the sum of the left cuts is a prefix of the result. -/
theorem mergeAll_prefix (p : List α × List β) (ps : List (List α × List β)) :
    ∃ r, mergeAll (p :: ps) = some r ∧
      p.1.take (p.1.length - ((overlaps (shrink p) (ps.map shrink)).map (fun o => (o + 1) / 2)).sum) <+: r.1 := by
  refine ⟨_, mergeAll_cons p ps, ?_⟩
  exact foldl_mergeStep_prefix (ps.map shrink) (shrink p)

/-- Window splitting: first window starts at 0, consecutive windows overlap by `mlw / 4`, each has
width `mlw` (before clipping), and the last one reaches the end of the line. -/
theorem windows_chain (width mlw : Nat) (h : 0 < mlw) :
    (∃ rest, windows width mlw = (0, mlw) :: rest) ∧
    List.IsChain (fun a b : Nat × Nat => b.1 + mlw / 4 = a.2 ∧ b.2 = b.1 + mlw ∧ a.2 < width) (windows width mlw) ∧
    (∀ l ∈ (windows width mlw).getLast?, width ≤ l.2) := by
  have hstep : 1 ≤ mlw - mlw / 4 := by omega
  have hw : width ≤ mlw + width * (mlw - mlw / 4) :=
    Nat.le_trans (Nat.le_mul_of_pos_right width hstep) (Nat.le_add_left ..)
  exact windowsAux_spec width mlw h width 0 mlw (by omega) hw

/-! ### Regrouping of the window results in `process_lines` (transformer mode) -/

/-- The spans cut the batch's window results into consecutive groups: nothing is lost, duplicated or reordered … -/
theorem regroup_flatten {γ : Type} (spans : List Nat) (xs : List γ) (h : spans.sum = xs.length) :
    (regroup spans xs).flatten = xs :=
  Merge.regroup_flatten' spans xs h

/-- … every line gets exactly as many window results as it was split into … -/
theorem regroup_lengths {γ : Type} (spans : List Nat) (xs : List γ) (h : spans.sum ≤ xs.length) :
    (regroup spans xs).map List.length = spans :=
  Merge.regroup_lengths' spans xs h

/-- … namely its OWN ones: line `k` gets the results that start after the windows of the lines before it, and its
transcription / logits are the stitching of exactly these parts (empty and blank-only parts included). -/
theorem line_result (spans : List Nat) (parts : List (List α × List β)) (k : Nat) (hk : k < spans.length) :
    (batchResults spans parts)[k]? = some (mergeAll ((parts.drop (spans.take k).sum).take (spans.getD k 0))) := by
  simp [batchResults, Merge.regroup_get' spans parts k hk]

example : batchResults [2, 1] [([1,2,3], [10,11,12]), ([3,4], [20,21]), ([9], [30])] =
    [some ([1,2,3,4], [10,11,20,21]), some ([9], [30])] := by decide

/-- The merged TEXT does not depend on the logits handed over with the parts: stitching the transcriptions alone (`no_logits`) gives the
text of stitching transcriptions and logits together. -/
theorem text_independent_of_logits {γ : Type} (parts : List (List α × List β)) (parts' : List (List α × List γ))
    (h : parts.map (·.1) = parts'.map (·.1)) : (mergeAll parts).map (·.1) = (mergeAll parts').map (·.1) :=
  Merge.mergeAll_text_indep parts parts' h

/-! Non-vacuity -/
example : mergeAll [([1,2,3,4,5], [10,11,12,13,14]), ([4,5,6], [20,21,22])] = some ([1,2,3,4,5,6], [10,11,12,13,21,22]) := by decide
example : mergeAll [([1,2,3], [10,11,12]), ([7,8,9], [20,21,22])] = some ([1,2,3,7,8,9], [10,11,12,20,21,22]) := by decide
example : findBestOverlap [1,2,3,4,5] [4,5,6] = 2 := by decide
example : windows 100 40 = [(0, 40), (30, 70), (60, 100)] := by decide

/-- `find_best_overlap` returns the FIRST overlap length of minimum character error rate below 1, and 0 exactly when no
overlap length has an error rate below 1 (error rates compared as exact fractions `ovDist i / i`). -/
theorem findBestOverlap_spec (t1 t2 : List α) :
    (findBestOverlap t1 t2 = 0 → ∀ i, 1 ≤ i → i ≤ min t1.length t2.length → i ≤ ovDist t1 t2 i) ∧
    (1 ≤ findBestOverlap t1 t2 →
      ovDist t1 t2 (findBestOverlap t1 t2) < findBestOverlap t1 t2 ∧
      ∀ i, 1 ≤ i → i ≤ min t1.length t2.length →
        ovDist t1 t2 (findBestOverlap t1 t2) * i ≤ ovDist t1 t2 i * findBestOverlap t1 t2 ∧
        (i < findBestOverlap t1 t2 →
          ovDist t1 t2 (findBestOverlap t1 t2) * i < ovDist t1 t2 i * findBestOverlap t1 t2)) := by
  obtain ⟨_, _, hcase, hle, hlt⟩ := findBestOverlap_inv t1 t2
  unfold findBestOverlap
  generalize (List.range (min t1.length t2.length)).foldl (overlapStep t1 t2) (1, 1, 0) = st at *
  constructor
  · intro h0 i h1 h2
    rcases hcase with ⟨_, hn, hd⟩ | ⟨hb, _⟩
    · have := hle i h1 h2; rw [hn, hd] at this; omega
    · omega
  · intro hb
    rcases hcase with ⟨h0, _, _⟩ | ⟨_, _, hn, hd, hnd⟩
    · omega
    · rw [hn, hd] at hnd
      refine ⟨hnd, fun i h1 h2 => ⟨?_, fun h3 => ?_⟩⟩
      · have := hle i h1 h2; rwa [hn, hd] at this
      · have := hlt i h1 h3; rwa [hn, hd] at this

/-- Windows of one text: when some suffix of the text so far literally IS a prefix of the next part, an overlap is detected, the
detected overlap is itself a literal one (error rate 0), and it is the SHORTEST literal overlap. -/
theorem exact_overlap_found (t1 t2 : List α)
    (h : ∃ i, 1 ≤ i ∧ i ≤ min t1.length t2.length ∧ t1.drop (t1.length - i) = t2.take i) :
    1 ≤ findBestOverlap t1 t2 ∧
    t1.drop (t1.length - findBestOverlap t1 t2) = t2.take (findBestOverlap t1 t2) ∧
    ∀ j, 1 ≤ j → j < findBestOverlap t1 t2 → t1.drop (t1.length - j) ≠ t2.take j := by
  obtain ⟨i, hi1, hi2, heq⟩ := h
  obtain ⟨h0, hpos⟩ := findBestOverlap_spec t1 t2
  have hdi : ovDist t1 t2 i = 0 := by unfold ovDist; rw [heq]; exact Lev.dist_self _ _
  have hb : 1 ≤ findBestOverlap t1 t2 := by
    rcases Nat.eq_zero_or_pos (findBestOverlap t1 t2) with hz | hp
    · have := h0 hz i hi1 hi2; omega
    · exact hp
  obtain ⟨_, hall⟩ := hpos hb
  have hle := (hall i hi1 hi2).1
  rw [hdi, Nat.zero_mul] at hle
  have hdo : ovDist t1 t2 (findBestOverlap t1 t2) = 0 := by
    rcases Nat.eq_zero_or_pos (ovDist t1 t2 (findBestOverlap t1 t2)) with hz | hp
    · exact hz
    · have := Nat.mul_pos hp (show 0 < i by omega); omega
  refine ⟨hb, (Lev.dist_unit_eq_zero_iff _ _).mp hdo, ?_⟩
  intro j hj1 hj2 hje
  have hj3 : j ≤ min t1.length t2.length := by
    have := findBestOverlap_le t1 t2; omega
  have hlt := (hall j hj1 hj3).2 hj2
  have hdj : ovDist t1 t2 j = 0 := by unfold ovDist; rw [hje]; exact Lev.dist_self _ _
  rw [hdo, hdj] at hlt; simp at hlt

/-! Non-vacuity: 'abcab' + 'abxy' has the literal overlaps 'ab' only; the shortest literal overlap wins over a longer one
('abab' + 'abab': 2, not 4); unrelated strings: 0. -/
example : findBestOverlap [1, 2, 3, 1, 2] [1, 2, 7, 8] = 2 ∧ findBestOverlap [1, 2, 1, 2] [1, 2, 1, 2] = 2 ∧
    findBestOverlap [1, 2, 3] [4, 5, 6] = 0 := by decide

end C15
