/-
C17 — property theorems (statements fixed by the architect; do not weaken).
`Gen.ParseFolder.*` are GENERATED from user_scripts/parse_folder.py on every run.  The four `cfg_*`
theorems below are the ONLY places allowed to evaluate the generated constants (by `rfl`/`decide`);
everything else must be derived from them, so that an edit of the script re-opens exactly these.
Helper lemmas: PeroVerif/Lemmas/Resume.lean.
-/
import PeroVerif.Model.Resume
import PeroVerif.Lemmas.Resume

namespace C17
open Resume Gen.ParseFolder Py

/-- requested-kinds predicate from five switches -/
def sel (a b c d e : Bool) : Kind → Bool
  | .xml => a | .render => b | .logits => c | .alto => d | .lines => e

/-! ### obligations on the generated configuration -/

/-- page ids are recovered with `os.path.splitext` -/
theorem cfg_matcher : matcher = .splitext := rfl

/-- every output kind is written, each exactly once -/
theorem cfg_write_order_complete : writeOrder.Perm [.xml, .render, .logits, .alto, .lines] := by decide

/-- whenever some consulted folder is requested, the LAST requested write of a page is into a
consulted folder (so its presence implies the presence of all the page's requested outputs) -/
theorem cfg_last_write_checked (a b c d e : Bool) :
    (checkedKinds.filter (sel a b c d e)) ≠ [] →
    ∃ k, (writeOrder.filter (sel a b c d e)).getLast? = some k ∧ k ∈ checkedKinds ∧ k ≠ .lines := by
  have key : ∀ x : Option Kind,
      (x.all fun k => decide (k ∈ checkedKinds) && decide (k ≠ .lines)) = true → x.isSome = true →
      ∃ k, x = some k ∧ k ∈ checkedKinds ∧ k ≠ .lines := by
    intro x hx hs
    cases x with
    | none => cases hs
    | some k => exact ⟨k, rfl, by simpa using hx⟩
  intro h
  suffices hh : ((writeOrder.filter (sel a b c d e)).getLast?.all
        fun k => decide (k ∈ checkedKinds) && decide (k ≠ .lines)) = true ∧
      (writeOrder.filter (sel a b c d e)).getLast?.isSome = true from key _ hh.1 hh.2
  revert h
  cases a <;> cases b <;> cases c <;> cases d <;> cases e <;> decide

/-- the final statistics survive an empty batch -/
theorem cfg_division_guarded : divisionGuarded = true := rfl

/-! ### the obligations in the form used by `PeroVerif/Lemmas/Resume.lean`
(derived from the four `cfg_*` theorems only) -/

theorem lastWriteChecked : LastWriteChecked := by
  intro r h
  have e : sel (r .xml) (r .render) (r .logits) (r .alto) (r .lines) = r :=
    funext fun k => by cases k <;> rfl
  have := cfg_last_write_checked (r .xml) (r .render) (r .logits) (r .alto) (r .lines)
  rw [e] at this
  exact this h

theorem writeOrder_nodup : writeOrder.Nodup :=
  cfg_write_order_complete.nodup_iff.2 (by decide)

theorem writeOrder_all (k : Kind) : k ∈ writeOrder :=
  cfg_write_order_complete.mem_iff.2 (by cases k <;> decide)

/-! ### the protocol -/

/-- an id from which `splitext` can recover itself: it has a character that is not a dot -/
def GoodId (id : Str) : Prop := id.any (· != cDot) = true

/-- distinct, recoverable page ids; crop file names of different pages do not collide -/
def GoodPages (pages : List Page) : Prop :=
  (pages.map (·.id)).Nodup ∧ (∀ p ∈ pages, GoodId p.id) ∧
  ∀ p ∈ pages, ∀ q ∈ pages, p ≠ q → ∀ f ∈ filesOf p .lines, f ∉ filesOf q .lines

/-- ids with dots and with output-extension substrings inside are recovered exactly -/
theorem stem_exact (id : Str) (h : GoodId id) :
    stemOf (id ++ extXml) = some id ∧ stemOf (id ++ extJpg) = some id ∧ stemOf (id ++ extLogits) = some id :=
  ⟨stemOf_ext cfg_matcher id h .xml, stemOf_ext cfg_matcher id h .render, stemOf_ext cfg_matcher id h .logits⟩

theorem goodBatch_of_goodPages {pages : List Page} (hp : GoodPages pages) : GoodBatch pages := hp

/-- Resuming after ANY sequence of kills (each between two writes, at any position, any number of
times) ends with exactly the requested outputs of every page — the same file set as an uninterrupted
run — for every subset of output kinds and every batch. -/
theorem resume_completes (K : List Kind) (pages : List Page) (crashes : List Nat) (hp : GoodPages pages) :
    ∀ f, f ∈ history K pages crashes ↔ f ∈ allOutputs K pages :=
  fullRun_complete cfg_matcher lastWriteChecked writeOrder_nodup (goodBatch_of_goodPages hp)
    (inv_foldl (goodBatch_of_goodPages hp) crashes [] (inv_nil K pages))

theorem uninterrupted_completes (K : List Kind) (pages : List Page) (hp : GoodPages pages) :
    ∀ f, f ∈ fullRun [] K pages ↔ f ∈ allOutputs K pages :=
  resume_completes K pages [] hp

/-- Pages whose outputs are all complete are not processed again (whenever at least one consulted
output kind is requested; the crops-only configuration is the recorded known finding). -/
theorem complete_not_reprocessed (K : List Kind) (pages : List Page) (crashes : List Nat) (hp : GoodPages pages)
    (hK : checkedKinds.filter (K.contains ·) ≠ []) :
    todo (history K pages crashes) K pages = [] :=
  todo_eq_nil_of_all_processed fun _ hpm =>
    all_processed cfg_matcher lastWriteChecked writeOrder_all (goodBatch_of_goodPages hp)
      (fun f hf => (resume_completes K pages crashes hp f).2 hf) hK hpm

/-- … and the crops-only configuration really re-processes everything (negation witness) -/
theorem crops_only_reprocesses (pages : List Page) (fs : FS) : todo fs [.lines] pages = pages :=
  todo_lines_only lastWriteChecked pages fs

/-- A run that finds nothing left to do exits cleanly. -/
theorem nothing_to_do_exits_cleanly (fs : FS) (K : List Kind) (pages : List Page) :
    exitsCleanly fs K pages = true := by
  unfold exitsCleanly
  rw [cfg_division_guarded]
  rfl

/-- After a kill, every page counted as processed has all its requested outputs on disk. -/
theorem processed_pages_complete (K : List Kind) (pages : List Page) (crashes : List Nat) (hp : GoodPages pages)
    (p : Page) (hpm : p ∈ pages)
    (hdone : p.id ∈ processed (crashes.foldl (fun fs k => crashRun fs K pages k) []) K) :
    ∀ f ∈ writes K p, f ∈ crashes.foldl (fun fs k => crashRun fs K pages k) [] :=
  processed_complete cfg_matcher lastWriteChecked writeOrder_nodup (goodBatch_of_goodPages hp)
    (inv_foldl (goodBatch_of_goodPages hp) crashes [] (inv_nil K pages)) hpm hdone

/-! non-vacuity: the harness' batch (ids with dots and extension substrings) is a good batch -/
def exPages : List Page :=
  [⟨[97, 46, 120, 109, 108, 46, 98], [[108, 48]]⟩,        -- "a.xml.b" with line "l0"
   ⟨[99, 46, 100], [[108, 48], [108, 49]]⟩,               -- "c.d"
   ⟨[112, 49], []⟩]                                        -- "p1"
theorem exPages_good : GoodPages exPages := by
  unfold GoodPages GoodId
  decide

end C17
