import PeroVerif.Model.Resume
namespace C17
theorem placeholder : (1:Nat) = 1 := rfl
end C17
