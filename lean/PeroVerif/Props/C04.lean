import PeroVerif.Model.Greedy
namespace C04
theorem placeholder : (1:Nat) = 1 := rfl
end C04
