/-
C04 — property theorems (statements fixed by the architect; do not weaken).
Helper lemmas: PeroVerif/Lemmas/Ctc.lean (shared collapse lemmas, reused by C02/C05) and
PeroVerif/Lemmas/Greedy.lean.
-/
import PeroVerif.Model.Greedy
import PeroVerif.Lemmas.Ctc
import PeroVerif.Lemmas.Greedy

namespace C04
open Ctc Greedy

/-- `argmaxFirst` is the first maximum (NumPy / Torch tie rule), for every non-empty frame. -/
theorem argmaxFirst_spec (l : List Int) (h : l ≠ []) :
    ∃ hi : argmaxFirst l < l.length,
      (∀ j (hj : j < l.length), l[j] ≤ l[argmaxFirst l]) ∧
      (∀ j (hj : j < argmaxFirst l), l[j]'(by omega) < l[argmaxFirst l]) := by
  obtain ⟨best, h1, h2, h3, h4⟩ := argmaxFirst_spec_opt l h
  have hb : l[argmaxFirst l] = best := by
    rw [List.getElem?_eq_getElem h1] at h2
    exact Option.some.inj h2
  refine ⟨h1, ?_, ?_⟩
  · intro j hj
    rw [hb]
    exact h3 j _ (List.getElem?_eq_getElem hj)
  · intro j hj
    rw [hb]
    exact h4 j _ hj (List.getElem?_eq_getElem (by omega))

/-- The engine's index pipeline is the CTC collapse of the arg-max path (every line, every length,
every number of classes ≥ 1; blank = last class). -/
theorem engineLine_eq (C : Nat) (hC : 0 < C) (am : List Nat) :
    engineLine C am = collapse (C - 1) am := by
  rw [engineLine_eq_engineAux, engineAux_eq_collapseAux C hC, collapseAux_some_blank, collapse]

/-- The stand-alone decoder (groupby heads, drop blanks) is the CTC collapse. -/
theorem standalone_eq (blank : Nat) (am : List Nat) :
    standalone blank am = collapse blank am := standalone_eq_collapse blank am

/-- `greedy_filtration`'s loop is the CTC collapse. -/
theorem filtration_eq (blank : Nat) (am : List Nat) :
    filtration blank none am = collapse blank am := by
  rw [filtration_eq_collapseAux blank none (by simp), collapse]

/-- Both decoders give the same text for the same network output. -/
theorem decoders_agree (C : Nat) (hC : 0 < C) (frames : List (List Int)) :
    engineLine C (argmaxPath frames) = standalone (C - 1) (argmaxPath frames) := by
  rw [engineLine_eq C hC, standalone_eq]

/-- Batched decoding is line-wise: line `i` of the batch result depends on line `i` only. -/
theorem batch_pointwise (C : Nat) (hC : 0 < C) (ams : List (List Nat)) (i : Nat) :
    (engineBatch C ams)[i]? = (ams[i]?).map (collapse (C - 1)) := by
  have : engineLine C = collapse (C - 1) := funext (engineLine_eq C hC)
  simp only [engineBatch, List.getElem?_map, this]

/-- Mapping through an injective character table commutes with everything above (the text is the
image of the collapsed index sequence). -/
theorem text_eq {χ : Type} (chars : Nat → χ) (C : Nat) (hC : 0 < C) (am : List Nat) :
    (engineLine C am).map chars = (collapse (C - 1) am).map chars := by
  rw [engineLine_eq C hC]

/-- The greedy transcription never contains the blank. -/
theorem collapse_no_blank (blank : Nat) (am : List Nat) : ∀ x ∈ collapse blank am, x ≠ blank := by
  rw [← standalone_eq]; intro x hx; simpa [standalone] using (List.mem_filter.1 hx).2

/-- ... contains only classes that are the arg-max of some frame, and is never longer than the line
has frames. -/
theorem collapse_sub (blank : Nat) (am : List Nat) :
    (∀ x ∈ collapse blank am, x ∈ am) ∧ (collapse blank am).length ≤ am.length := by
  rw [← standalone_eq]
  refine ⟨fun x hx => groupHeads_mem am x (List.mem_filter.1 hx).1, ?_⟩
  exact Nat.le_trans (List.length_filter_le _ _) (groupHeads_length_le am)

/-- A line whose every frame prefers the blank decodes to the empty transcription. -/
theorem collapse_all_blank (blank : Nat) (am : List Nat) (h : ∀ x ∈ am, x = blank) :
    collapse blank am = [] := by
  rw [← standalone_eq, standalone, List.filter_eq_nil_iff]
  intro x hx; simp [h x (groupHeads_mem am x hx)]

/-- The engine's index pipeline inherits all of it (blank = last class). -/
theorem engineLine_clean (C : Nat) (hC : 0 < C) (am : List Nat) :
    (∀ x ∈ engineLine C am, x ≠ C - 1 ∧ x ∈ am) ∧ (engineLine C am).length ≤ am.length := by
  rw [engineLine_eq C hC]
  exact ⟨fun x hx => ⟨collapse_no_blank _ _ x hx, (collapse_sub _ _).1 x hx⟩, (collapse_sub _ _).2⟩

/-! Non-vacuity: first frame non-blank, repeats split by blank, trailing blank, last class next to blank. -/
example : engineLine 3 [0, 0, 2, 0, 1, 1, 2] = [0, 0, 1] := by decide
example : collapse 2 [0, 0, 2, 0, 1, 1, 2] = [0, 0, 1] := by decide
example : engineLine 3 [2, 2, 2] = [] := by decide
example : argmaxFirst [3, 7, 7, 1] = 1 := by decide

end C04
