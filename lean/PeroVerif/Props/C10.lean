/-
C10 — property theorems (statements fixed by the architect; do not weaken).  PARTIAL: only the discrete /
algebraic skeleton is decided here (see the header of Model/Crop.lean).  `Gen.Crop.extrapolates` is GENERATED;
it may be evaluated ONLY in `cubic_extrapolates` (by `rfl`).
Helper lemmas: PeroVerif/Lemmas/Crop.lean (may import single Mathlib modules, e.g. Mathlib.Data.Rat.Floor,
Mathlib.Tactic.Linarith, Mathlib.Tactic.Ring, Mathlib.Tactic.FieldSimp).
-/
import PeroVerif.Model.Crop
import PeroVerif.Lemmas.Crop

namespace C10
open Crop

/-- obligation on the generated flag -/
theorem cubic_extrapolates : Gen.Crop.extrapolates = true := rfl

/-- Rows run linearly from the ascender height above the baseline (first row) to the descender height
below it (last row): `linspace` has `n` entries, starts at `a`, ends at `b`, constant step. -/
theorem rows_linear (a b : Rat) (n : Nat) (hn : 2 ≤ n) :
    (linspace a b n).length = n ∧ (linspace a b n)[0]? = some a ∧ (linspace a b n)[n - 1]? = some b ∧
    ∀ i, i + 1 < n → ∃ x y, (linspace a b n)[i]? = some x ∧ (linspace a b n)[i + 1]? = some y ∧
      y - x = (b - a) / ((n : Rat) - 1) := by
  refine ⟨linspace_length a b n hn, ?_, ?_, ?_⟩
  · rw [linspace_get a b n hn 0 (by omega)]; simp
  · rw [linspace_get a b n hn (n - 1) (by omega)]
    have hne := natCast_sub_one_ne n hn
    have hc : ((n - 1 : Nat) : Rat) = (n : Rat) - 1 := by
      rw [Nat.cast_sub (by omega)]; simp
    rw [hc, mul_div_assoc, div_self hne]
    congr 1; ring
  · intro i hi
    refine ⟨_, _, linspace_get a b n hn i (by omega), linspace_get a b n hn (i + 1) hi, ?_⟩
    push_cast
    ring

/-- The width is the arc length times target height over the (scaled) line height, rounded down. -/
theorem width_formula (arc h0 h1 s : Rat) (H : Nat) (hpos : 0 < (h0 + h1) * s) (harc : 0 ≤ arc) :
    let w := width arc h0 h1 s H
    0 ≤ w ∧ (w : Rat) * ((h0 + h1) * s) ≤ arc * H ∧ arc * H < ((w : Rat) + 1) * ((h0 + h1) * s) :=
  width_bounds arc h0 h1 s H hpos harc

/-- Same pixels on the fast and on the general path: if the sample point lies in the box spanned by
the floor/ceil of the extreme coordinates, sampling the sub-image at shifted coordinates equals
sampling the page (every neighbour with non-zero weight is inside the sub-image). -/
theorem fast_eq_full (im : Image) (xmin ymin xmax ymax : Int) (fx fy : Rat)
    (hx : (xmin : Rat) ≤ fx ∧ fx ≤ xmax) (hy : (ymin : Rat) ≤ fy ∧ fy ≤ ymax) :
    fastSample im xmin ymin xmax ymax fx fy = bilinear im fx fy :=
  fast_eq im xmin ymin xmax ymax fx fy hx hy

/-- Bilinear sampling is a convex combination: the value lies between the smallest and the largest
of the four neighbours, in particular inside the page it never leaves the grey range. -/
theorem bilinear_range (im : Image) (fx fy lo hi : Rat) (hlo : ∀ x y, lo ≤ im.at x y) (hhi : ∀ x y, im.at x y ≤ hi) :
    lo ≤ bilinear im fx fy ∧ bilinear im fx fy ≤ hi :=
  bilinear_bounds im fx fy lo hi hlo hhi

/-- Every evaluation point of the cubic interpolant is admissible for every non-degenerate baseline
(with the generated flag); without extrapolation there are lengths for which it is not
(kernel-checked witness: fractional part 0.95). -/
theorem cubic_domain_ok (L : Rat) (hL : 0 ≤ L) : cubicDomainOK L = true := by
  have _ := hL  -- not needed once the flag is set
  unfold cubicDomainOK
  rw [cubic_extrapolates, Bool.true_or]

theorem cubic_domain_witness : decide (cubicEvalMax (2395 / 100) ≤ 2395 / 100 + 1 / 10) = false := by
  rw [cubicEvalMax_witness]
  decide +kernel

/-- `crop` never raises and the result always has the configured height; it is blank exactly when
the inner computation raised. -/
theorem crop_height (H : Nat) (inner : Option Nat) :
    (match cropOutcome H inner with | .cropped h _ => h | .blank h => h) = H ∧
    ((∃ h, cropOutcome H inner = .blank h) ↔ inner = none) := by
  cases inner <;> simp [cropOutcome]

end C10
