import PeroVerif.Model.Crop
namespace C10
theorem placeholder : (1:Nat) = 1 := rfl
end C10
