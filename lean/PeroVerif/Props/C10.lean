/-
C10 — property theorems (statements fixed by the architect; do not weaken).  PARTIAL: only the discrete /
algebraic skeleton is decided here (see the header of Model/Crop.lean).  `Gen.Crop.extrapolates` is GENERATED;
it may be evaluated ONLY in `cubic_extrapolates` (by `rfl`); `Gen.Crop.polyDegrees` ONLY in `cfg_fit_degree` (by `decide`).
Helper lemmas: PeroVerif/Lemmas/Crop.lean (may import single Mathlib modules, e.g. Mathlib.Data.Rat.Floor,
Mathlib.Tactic.Linarith, Mathlib.Tactic.Ring, Mathlib.Tactic.FieldSimp).
-/
import PeroVerif.Model.Crop
import PeroVerif.Lemmas.Crop

namespace C10
open Crop

/-- obligation on the generated flag -/
theorem cubic_extrapolates : Gen.Crop.extrapolates = true := rfl

/-- obligation on the generated table: for every probed (INTERP, number of points) the source calls `np.polyfit` with `fitDegree` -/
theorem cfg_fit_degree : ∀ e ∈ Gen.Crop.polyDegrees, e.2.2 = fitDegree e.1 e.2.1 := by decide

/-- … and that degree is always determined by the points (fewer coefficients than points + 1): no under-determined fit, whose
minimum-norm solution would depend on the absolute position of the line (the shift defect fixed in decbd4e). -/
theorem fit_determined (poly n : Nat) (hp : 0 < poly) (hn : 2 ≤ n) : fitDegree poly n < n ∧ 1 ≤ fitDegree poly n := by
  unfold fitDegree
  split <;> omega

/-- Rows run linearly from the ascender height above the baseline (first row) to the descender height
below it (last row): `linspace` has `n` entries, starts at `a`, ends at `b`, constant step. -/
theorem rows_linear (a b : Rat) (n : Nat) (hn : 2 ≤ n) :
    (linspace a b n).length = n ∧ (linspace a b n)[0]? = some a ∧ (linspace a b n)[n - 1]? = some b ∧
    ∀ i, i + 1 < n → ∃ x y, (linspace a b n)[i]? = some x ∧ (linspace a b n)[i + 1]? = some y ∧
      y - x = (b - a) / ((n : Rat) - 1) := by
  refine ⟨linspace_length a b n hn, ?_, ?_, ?_⟩
  · rw [linspace_get a b n hn 0 (by omega)]; simp
  · rw [linspace_get a b n hn (n - 1) (by omega)]
    have hne := natCast_sub_one_ne n hn
    have hc : ((n - 1 : Nat) : Rat) = (n : Rat) - 1 := by
      rw [Nat.cast_sub (by omega)]; simp
    rw [hc, mul_div_assoc, div_self hne]
    congr 1; ring
  · intro i hi
    refine ⟨_, _, linspace_get a b n hn i (by omega), linspace_get a b n hn (i + 1) hi, ?_⟩
    push_cast
    ring

/-- The width is the arc length times target height over the (scaled) line height, rounded down. -/
theorem width_formula (arc h0 h1 s : Rat) (H : Nat) (hpos : 0 < (h0 + h1) * s) (harc : 0 ≤ arc) :
    let w := width arc h0 h1 s H
    0 ≤ w ∧ (w : Rat) * ((h0 + h1) * s) ≤ arc * H ∧ arc * H < ((w : Rat) + 1) * ((h0 + h1) * s) :=
  width_bounds arc h0 h1 s H hpos harc

/-- Same pixels on the fast and on the general path: if the sample point lies in the box spanned by
the floor/ceil of the extreme coordinates, sampling the sub-image at shifted coordinates equals
sampling the page (every neighbour with non-zero weight is inside the sub-image). -/
theorem fast_eq_full (im : Image) (xmin ymin xmax ymax : Int) (fx fy : Rat)
    (hx : (xmin : Rat) ≤ fx ∧ fx ≤ xmax) (hy : (ymin : Rat) ≤ fy ∧ fy ≤ ymax) :
    fastSample im xmin ymin xmax ymax fx fy = bilinear im fx fy :=
  fast_eq im xmin ymin xmax ymax fx fy hx hy

/-- Bilinear sampling is a convex combination: the value lies between the smallest and the largest
of the four neighbours, in particular inside the page it never leaves the grey range. -/
theorem bilinear_range (im : Image) (fx fy lo hi : Rat) (hlo : ∀ x y, lo ≤ im.at x y) (hhi : ∀ x y, im.at x y ≤ hi) :
    lo ≤ bilinear im fx fy ∧ bilinear im fx fy ≤ hi :=
  bilinear_bounds im fx fy lo hi hlo hhi

/-- Every evaluation point of the cubic interpolant is admissible for every non-degenerate baseline
(with the generated flag); without extrapolation there are lengths for which it is not
(kernel-checked witness: fractional part 0.95). -/
theorem cubic_domain_ok (L : Rat) (hL : 0 ≤ L) : cubicDomainOK L = true := by
  have _ := hL  -- not needed once the flag is set
  unfold cubicDomainOK
  rw [cubic_extrapolates, Bool.true_or]

theorem cubic_domain_witness : decide (cubicEvalMax (2395 / 100) ≤ 2395 / 100 + 1 / 10) = false := by
  rw [cubicEvalMax_witness]
  decide +kernel

/-- `crop` never raises and the result always has the configured height; it is blank exactly when
the inner computation raised. -/
theorem crop_height (H : Nat) (inner : Option Nat) :
    (match cropOutcome H inner with | .cropped h _ => h | .blank h => h) = H ∧
    ((∃ h, cropOutcome H inner = .blank h) ↔ inner = none) := by
  cases inner <;> simp [cropOutcome]


/-! ### Resampling along the baseline and the grid of a straight baseline -/

/-- `reverse_line_mapping` as `get_crop_inputs` uses it (forward mapping `0 :: F'` starting at 0 — it is
`concat([0], cumsum(...))` — and non-negative sample positions): the scan never advances, and every output is
the point of the CHORD between the first and the last sampled value at fraction `t / L` (`L` = total length).
So the columns advance uniformly in the baseline frame's x, from the first to the last sample. -/
theorem reverse_is_chord (F' ts X : List Rat) (hF : F' ≠ []) (hlen : X.length = F'.length + 1)
    (hL : F'.getLast hF ≠ 0) (hts : ∀ t ∈ ts, 0 ≤ t) :
    ∃ x0 xl, X.head? = some x0 ∧ X.getLast? = some xl ∧
      reverseLineMapping (0 :: F') ts X = some (ts.map fun t => x0 + t / (F'.getLast hF) * (xl - x0)) :=
  reverse_chord F' ts X hF hlen hL hts

/-- Documented consequence: it is NOT the inverse of the arc-length map (that would give 11 here). -/
example : reverseLineMapping [0, 1, 5/2] [1] [10, 11, 12] = some [54/5] := by decide +kernel

/-- number of target columns of a straight baseline with `n` unit samples -/
def straightCount (n : Nat) (h0 h1 : Rat) (H : Nat) : Nat :=
  ((((n : Nat) : Rat) - 1) * ((H : Nat) : Rat) / (h0 + h1)).floor.toNat

/-- The grid of a straight baseline exists (no exception inside), has the configured height and
`straightCount` columns. -/
theorem straight_grid_shape (R : Rot) (left y0 : Rat) (n : Nat) (h0 h1 : Rat) (H : Nat) (hn : 2 ≤ n) (hH : 2 ≤ H) :
    ∃ g, straightGrid R left y0 n h0 h1 H = some g ∧ g.length = H ∧
      ∀ row ∈ g, row.length = straightCount n h0 h1 H := by
  have _ := hH  -- not needed: `linspace` has `H` entries for every `H`
  exact straightGrid_shape R left y0 n h0 h1 H hn

/-- Columns advance uniformly along the baseline from its first to its last sample, rows run linearly from
`-h0` (first row) to `+h1` (last row) perpendicular to it: entry `(r, c)` of the grid is the rotation back of
`(left + (n-1)·c/(count-1), y0 - h0 + (h0+h1)·r/(H-1))`. -/
theorem straight_grid_entry (R : Rot) (left y0 : Rat) (n : Nat) (h0 h1 : Rat) (H : Nat) (hn : 2 ≤ n) (hH : 2 ≤ H)
    (hc : 2 ≤ straightCount n h0 h1 H) (g : List (List (Rat × Rat))) (hg : straightGrid R left y0 n h0 h1 H = some g)
    (r c : Nat) (hr : r < H) (hcc : c < straightCount n h0 h1 H) :
    (g[r]?.bind fun row => row[c]?) =
      some (R.apply (left + (((n : Nat) : Rat) - 1) * ((c : Nat) : Rat) / ((((straightCount n h0 h1 H : Nat)) : Rat) - 1),
                     y0 + (-h0 + (h1 - -h0) * ((r : Nat) : Rat) / (((H : Nat) : Rat) - 1)))) :=
  straightGrid_entry R left y0 n h0 h1 H hn hH (straightCount n h0 h1 H) rfl hc g hg r c hr hcc

/-- The rotation back to page coordinates preserves distances ... -/
theorem rot_isometry (R : Rot) (h : R.c * R.c + R.s * R.s = 1) (p q : Rat × Rat) :
    ((R.apply p).1 - (R.apply q).1) * ((R.apply p).1 - (R.apply q).1) +
      ((R.apply p).2 - (R.apply q).2) * ((R.apply p).2 - (R.apply q).2) =
    (p.1 - q.1) * (p.1 - q.1) + (p.2 - q.2) * (p.2 - q.2) :=
  rot_iso R h p q

/-- ... and right angles: a step along the baseline (dx) and a step across it (dy) stay perpendicular in
page coordinates, so in the crop of a straight baseline rows run perpendicular to the columns' direction. -/
theorem rot_perpendicular (R : Rot) (h : R.c * R.c + R.s * R.s = 1) (x y dx dy : Rat) :
    ((R.apply (x + dx, y)).1 - (R.apply (x, y)).1) * ((R.apply (x, y + dy)).1 - (R.apply (x, y)).1) +
      ((R.apply (x + dx, y)).2 - (R.apply (x, y)).2) * ((R.apply (x, y + dy)).2 - (R.apply (x, y)).2) = 0 := by
  have _ := h  -- not needed: holds for every matrix of the form [[c, s], [-s, c]]
  exact rot_perp R x y dx dy

/-- non-vacuity: a 3-4-5 rotation is admissible and the example grid is defined -/
example : ((3 : Rat) / 5) * (3 / 5) + (4 / 5) * (4 / 5) = 1 := by decide +kernel
example : (straightGrid ⟨3/5, 4/5⟩ 5 7 5 2 1 3).isSome = true := by decide +kernel

end C10
