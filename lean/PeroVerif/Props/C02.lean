/-
C02 — property theorems (statements fixed by the architect; do not weaken).
Helper lemmas: PeroVerif/Lemmas/CtcMass.lean (path-sum recursions) and PeroVerif/Lemmas/PrefixBeam.lean.
-/
import Mathlib.Algebra.Order.Ring.Defs
import PeroVerif.Model.PrefixBeam
import PeroVerif.Spec.CtcMass
import PeroVerif.Lemmas.Ctc
import PeroVerif.Lemmas.CtcMass
import PeroVerif.Lemmas.PrefixBeam

set_option linter.unusedSectionVars false

namespace C02
open Ctc PB

variable {R : Type} [CommSemiring R] [LinearOrder R] [IsStrictOrderedRing R]
variable {H : Type}

/-- An admissible beam cut (covers `np.argpartition`'s arbitrary tie-breaking): a sub-multiset of the
candidates of the requested size such that nothing left out is strictly better than something kept. -/
def IsCut (key : Entry H R → R) (choose : ℕ → List (Entry H R) → List (Entry H R)) : Prop :=
  ∀ k l, (choose k l).Subperm l ∧ (choose k l).length = min k l.length ∧
    ∀ a ∈ choose k l, ∀ b ∈ l, b ∉ choose k l → ¬ key a < key b

/-- Well-formed input: `C ≥ 1` columns (blank = `C-1`) in every row, non-negative entries. -/
def WFM (C : ℕ) (M : List (List R)) : Prop :=
  0 < C ∧ ∀ row ∈ M, row.length = C ∧ ∀ x ∈ row, 0 ≤ x

/-- The beam after the frames of `M` (no normalisation check). -/
def beamOf (lm : LM H R) (sel : R → Bool) (k : ℕ) (choose : ℕ → List (Entry H R) → List (Entry H R))
    (h0 : H) (M : List (List R)) : List (Entry H R) :=
  M.foldl (step (Ops.of R) lm sel k choose) (init (Ops.of R) h0)

/-- The executable cut used by the driver is admissible. -/
theorem topK_isCut (key : Entry H R → R) : IsCut key (topK (Ops.of R) key) :=
  PB.topK_isCut key

/-- Pairwise distinct transcripts, for every matrix, beam width, selector and admissible cut. -/
theorem beam_nodup (lm : LM H R) (sel : R → Bool) (k : ℕ) (key : Entry H R → R)
    (choose : ℕ → List (Entry H R) → List (Entry H R)) (hc : IsCut key choose) (h0 : H)
    (M : List (List R)) :
    ((beamOf lm sel k choose h0 M).map (·.pre)).Nodup :=
  (PB.foldl_step_OK lm sel k key choose hc M _ (PB.init_OK h0)).1

/-- Never over-counts: blank-ending / non-blank-ending partial scores are bounded by the corresponding
true path sums, hence the visual score never exceeds the true CTC probability. -/
theorem beam_le_mass (C : ℕ) (lm : LM H R) (sel : R → Bool) (k : ℕ) (key : Entry H R → R)
    (choose : ℕ → List (Entry H R) → List (Entry H R)) (hc : IsCut key choose) (h0 : H)
    (M : List (List R)) (hM : WFM C M) :
    ∀ e ∈ beamOf lm sel k choose h0 M,
      0 ≤ e.pb ∧ 0 ≤ e.pnb ∧
      e.pb ≤ massB C (C - 1) M e.pre ∧ e.pnb ≤ massNB C (C - 1) M e.pre ∧
      score (Ops.of R) e ≤ mass C (C - 1) M e.pre := by
  intro e he
  obtain ⟨h1, h2, h3, h4⟩ := PB.foldl_bd C lm sel k key choose hc h0 M hM e he
  refine ⟨h1, h2, h3, h4, ?_⟩
  rw [mass_eq_add]
  exact add_le_add h3 h4

/-- Neither the beam nor the pre-selection prunes anything along the run on `M`. -/
def NoPrune (lm : LM H R) (sel : R → Bool) (k : ℕ) (choose : ℕ → List (Entry H R) → List (Entry H R))
    (h0 : H) (M : List (List R)) : Prop :=
  (∀ p : R, 0 < p → sel p = true) ∧
  ∀ M' row rest, M = M' ++ row :: rest →
    ((candidates (Ops.of R) lm (selected (Ops.of R) sel row) (beamOf lm sel k choose h0 M') row).filter
      fun c => (Ops.of R).lt 0 (score (Ops.of R) c)).length ≤ k

/-- Exact and complete when unpruned. -/
theorem unpruned_exact (C : ℕ) (lm : LM H R) (sel : R → Bool) (k : ℕ) (key : Entry H R → R)
    (choose : ℕ → List (Entry H R) → List (Entry H R)) (hc : IsCut key choose) (h0 : H)
    (M : List (List R)) (hM : WFM C M) (hn : NoPrune lm sel k choose h0 M) :
    (∀ e ∈ beamOf lm sel k choose h0 M,
        e.pb = massB C (C - 1) M e.pre ∧ e.pnb = massNB C (C - 1) M e.pre ∧
        score (Ops.of R) e = mass C (C - 1) M e.pre) ∧
    (∀ ℓ : List ℕ, 0 < mass C (C - 1) M ℓ → ∃ e ∈ beamOf lm sel k choose h0 M, e.pre = ℓ) := by
  obtain ⟨h1, h2⟩ := PB.foldl_exact C lm k key choose hc h0 M hM hn.1 hn.2
  refine ⟨fun e he => ?_, fun ℓ hℓ => ?_⟩
  · obtain ⟨h3, h4⟩ := h1 e he
    refine ⟨h3, h4, ?_⟩
    rw [mass_eq_add, ← h3, ← h4]
    rfl
  · rw [mass_eq_add] at hℓ
    exact h2 ℓ hℓ

/-- Raw (ungrouped) contributions of one frame of textbook prefix beam search: every beam entry
contributes its stay and one extension per selected symbol; no joining. -/
def rawContrib (sel : R → Bool) (beam : List (Entry H R)) (row : List R) : List (List ℕ × R × R) :=
  let o := Ops.of R
  let S := selected o sel row
  beam.flatMap fun e =>
    (S.map fun c => (e.pre ++ [c], (0 : R), ext o row e c)) ++
    [(e.pre, stayPb o row e, e.pnb * (if S.contains e.last then rowAt o row e.last else 0))]

/-- Beam invariant needed for joining to be grouping: distinct prefixes, `last` is the last symbol. -/
def BeamOK (beam : List (Entry H R)) : Prop :=
  (beam.map (·.pre)).Nodup ∧ ∀ e ∈ beam, e.pre ≠ [] → e.pre.getLast? = some e.last

theorem beamOf_ok (lm : LM H R) (sel : R → Bool) (k : ℕ) (key : Entry H R → R)
    (choose : ℕ → List (Entry H R) → List (Entry H R)) (hc : IsCut key choose) (h0 : H)
    (M : List (List R)) : BeamOK (beamOf lm sel k choose h0 M) :=
  PB.foldl_step_OK lm sel k key choose hc M _ (PB.init_OK h0)

set_option linter.unusedVariables false in
/-- Joining implements grouping: for every prefix, the candidates carry exactly the summed raw
contributions for that prefix, and candidates with a positive score have pairwise distinct prefixes —
so one step is "group all contributions by prefix in a map, keep a top-k of the positive ones". -/
theorem joining_is_grouping (lm : LM H R) (sel : R → Bool) (beam : List (Entry H R)) (row : List R)
    (hb : BeamOK beam) (hnn : ∀ e ∈ beam, 0 ≤ e.pb ∧ 0 ≤ e.pnb) (hrow : ∀ x ∈ row, 0 ≤ x)
    (hS : (selected (Ops.of R) sel row) ≠ []) :
    let o := Ops.of R
    let cands := candidates o lm (selected o sel row) beam row
    (∀ ℓ : List ℕ,
      ((cands.filter fun c => c.pre = ℓ).map (·.pb)).sum =
        (((rawContrib sel beam row).filter fun x => x.1 = ℓ).map (·.2.1)).sum ∧
      ((cands.filter fun c => c.pre = ℓ).map (·.pnb)).sum =
        (((rawContrib sel beam row).filter fun x => x.1 = ℓ).map (·.2.2)).sum) ∧
    (((cands.filter fun c => o.lt 0 (score o c)).map (·.pre)).Nodup) := by
  intro o cands
  exact ⟨fun ℓ => PB.joining_sums lm _ (PB.nodup_selected _ sel row) hb row ℓ,
    PB.pos_pre_nodup lm _ (PB.nodup_selected _ sel row) beam row hb⟩

/-- One frame keeps an admissible top-k of the positive candidates (or, if no symbol is selected,
just moves all mass to the blank-ending score). -/
theorem step_is_cut (lm : LM H R) (sel : R → Bool) (k : ℕ) (key : Entry H R → R)
    (choose : ℕ → List (Entry H R) → List (Entry H R)) (hc : IsCut key choose)
    (beam : List (Entry H R)) (row : List R) (hS : (selected (Ops.of R) sel row) ≠ []) :
    let o := Ops.of R
    let pos := (candidates o lm (selected o sel row) beam row).filter fun c => o.lt 0 (score o c)
    let out := step o lm sel k choose beam row
    out.Subperm pos ∧ out.length = min k pos.length ∧
      ∀ a ∈ out, ∀ b ∈ pos, b ∉ out → ¬ key a < key b :=
  PB.step_is_cut lm sel k key choose hc beam row hS

/-- A row keeps the search alive if the blank or some selected symbol has positive probability
(true for every row-normalised row with fewer than e^10 symbols under the default selector). -/
def RowAlive (sel : R → Bool) (row : List R) : Prop :=
  0 < blankP (Ops.of R) row ∨ ∃ c ∈ selected (Ops.of R) sel row, 0 < rowAt (Ops.of R) row c

/-- The beam never dies: it is never empty and every entry has a positive score, so the cut size
`min k #positive` is at least 1 and decoding never fails. -/
theorem beam_alive (C : ℕ) (lm : LM H R) (sel : R → Bool) (k : ℕ) (hk : 1 ≤ k) (key : Entry H R → R)
    (choose : ℕ → List (Entry H R) → List (Entry H R)) (hc : IsCut key choose) (h0 : H)
    (M : List (List R)) (hM : WFM C M) (ha : ∀ row ∈ M, RowAlive sel row) :
    beamOf lm sel k choose h0 M ≠ [] ∧
    ∀ e ∈ beamOf lm sel k choose h0 M, 0 < score (Ops.of R) e :=
  PB.foldl_alive C lm sel k hk key choose hc h0 M hM ha

/-- Unnormalised input is rejected rather than decoded. -/
theorem reject_unnormalised (lm : LM H R) (sel : R → Bool) (k : ℕ)
    (choose : ℕ → List (Entry H R) → List (Entry H R)) (tol : R) (h0 : H) (modelEos : Bool)
    (M : List (List R)) (row : List R) (hrow : row ∈ M)
    (hdev : 1 + tol < row.sum ∨ row.sum + tol < 1) :
    ∃ e, decode (Ops.of R) lm sel k choose tol h0 modelEos M = .error e :=
  PB.reject_unnormalised lm sel k choose tol h0 modelEos M row hrow hdev

/-- ... and normalised input is decoded: the result is the finished beam. -/
theorem accept_normalised (lm : LM H R) (sel : R → Bool) (k : ℕ)
    (choose : ℕ → List (Entry H R) → List (Entry H R)) (tol : R) (h0 : H) (modelEos : Bool)
    (M : List (List R)) (hn : ∀ row ∈ M, ¬ (1 + tol < row.sum) ∧ ¬ (row.sum + tol < 1)) :
    decode (Ops.of R) lm sel k choose tol h0 modelEos M =
      .ok (finish (Ops.of R) lm modelEos (beamOf lm sel k choose h0 M)) :=
  PB.accept_normalised lm sel k choose tol h0 modelEos M hn

end C02
