import PeroVerif.Model.PrefixBeam
namespace C02
theorem placeholder : (1:Nat) = 1 := rfl
end C02
