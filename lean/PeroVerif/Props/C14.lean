import PeroVerif.Model.ConfNet
namespace C14
theorem placeholder : (1:Nat) = 1 := rfl
end C14
