/-
C14 — property theorems (statements fixed by the architect; do not weaken).
`Gen.ConfNet.advanceOnAppend` is GENERATED from the Python source on every run (does the append branch
of add_hypothese advance cn_pointer?). Theorems that need it to be `true` must obtain that fact ONLY
through the lemma `adv_true` below (proved by `rfl`/`decide`), so that a source change re-opens them.
Helper lemmas: PeroVerif/Lemmas/ConfNet.lean.
-/
import Mathlib.Algebra.Order.Field.Basic
import PeroVerif.Model.ConfNet
import PeroVerif.Spec.ConfNet
import PeroVerif.Generated.ConfNet
import PeroVerif.Lemmas.Lev
import PeroVerif.Lemmas.ConfNet

namespace C14
open CN Py

/-- obligation on the generated flag -/
theorem adv_true : Gen.ConfNet.advanceOnAppend = true := rfl

section Any
variable {W : Type} (o : WOps W)

/-- Adding a hypothesis never fails (no IndexError) and keeps the network well-formed. -/
theorem addHyp_total (cn : Net W) (tr : List Nat) (s : W) (h : WFNet cn) :
    ∃ cn', addHyp o Gen.ConfNet.advanceOnAppend cn tr s = some cn' ∧ WFNet cn' := by
  by_cases hne : cn = []
  · subst hne
    exact ⟨_, CNL.addHyp_nil o _ tr s, CNL.wf_first s tr⟩
  · obtain ⟨cn', h', hw⟩ := CNL.addHyp_walk o _ adv_true cn tr s hne h
    exact ⟨cn', h', hw.wf⟩

/-- Every string readable before is readable afterwards (non-empty network). -/
theorem add_keeps (cn cn' : Net W) (tr : List Nat) (s : W) (w : List Nat) (hne : cn ≠ [])
    (hr : Readable cn w) (h : addHyp o Gen.ConfNet.advanceOnAppend cn tr s = some cn') :
    Readable cn' w :=
  (CNL.addHyp_walk' o _ adv_true cn cn' tr s hne h).keeps w hr

/-- The new hypothesis is readable in its original symbol order. -/
theorem add_reads_new (cn cn' : Net W) (tr : List Nat) (s : W) (hwf : WFNet cn)
    (h : addHyp o Gen.ConfNet.advanceOnAppend cn tr s = some cn') :
    Readable cn' tr := by
  by_cases hne : cn = []
  · subst hne
    rw [CNL.addHyp_nil] at h
    cases h
    exact CNL.readable_first s tr
  · exact (CNL.addHyp_walk' o _ adv_true cn cn' tr s hne h).reads_new

/-- For every history whose first hypothesis is non-empty: building never fails and EVERY added
hypothesis is readable from the final network (normalised or not). -/
theorem history_readable (first : List Nat × W) (rest : List (List Nat × W)) (norm : Bool)
    (hne : first.1 ≠ []) :
    ∃ cn, fromHyps o Gen.ConfNet.advanceOnAppend (first :: rest) norm = some cn ∧
      ∀ h ∈ first :: rest, Readable cn h.1 := by
  have hne₁ : (first.1.map fun c => ([(some c, first.2)] : Pos W)) ≠ [] := by
    simpa using hne
  obtain ⟨cn', h', hk, hr⟩ := CNL.foldlM_hyps o _ adv_true rest _ hne₁ (CNL.wf_first first.2 first.1)
  have hall : ∀ h ∈ first :: rest, Readable cn' h.1 := by
    intro h hh
    rcases List.mem_cons.1 hh with rfl | hh
    · exact hk _ (CNL.readable_first _ _)
    · exact hr h hh
  refine ⟨if norm then normalize o cn' else cn', ?_, ?_⟩
  · simp only [fromHyps, List.foldlM_cons, CNL.addHyp_nil, Option.bind_eq_bind, Option.bind_some]
    rw [h']; rfl
  · intro h hh
    split
    · exact CNL.readable_normalize o cn' _ (hall h hh)
    · exact hall h hh

/-- `sorted_cn_paths` is a permutation of the full Cartesian product of the arcs (each combination
exactly once), and a network built from a single hypothesis has exactly one path. -/
theorem paths_perm (cn : Net W) (hne : cn ≠ []) :
    (sortedPaths o cn).Perm
      ((product (cn.map (sortDesc o))).map fun arcs => (pathString arcs, pathProb o arcs)) := by
  simp only [sortedPaths, if_neg hne]
  exact List.mergeSort_perm _ _

theorem product_complete (ps : List (List (Arc × W))) :
    (product ps).length = (ps.map List.length).foldl (· * ·) 1 ∧
    ∀ choice : List (Arc × W), choice ∈ product ps ↔
      (choice.length = ps.length ∧ ∀ i (hi : i < choice.length) (hj : i < ps.length), choice[i] ∈ ps[i]) := by
  rw [CNL.product_eq]
  exact ⟨CNL.prod'_length ps, CNL.mem_prod' ps⟩

theorem product_nodup (ps : List (List (Arc × W))) (h : ∀ p ∈ ps, p.Nodup) : (product ps).Nodup := by
  rw [CNL.product_eq]; exact CNL.prod'_nodup ps h

/-- the known corner (recorded as a finding): a leading empty hypothesis leaves no trace -/
theorem empty_first_forgotten (s : W) (c : Nat) :
    addHyp o Gen.ConfNet.advanceOnAppend [] [] s = some [] ∧
    ∀ cn', addHyp o Gen.ConfNet.advanceOnAppend [] [c] s = some cn' → ¬ Readable cn' [] := by
  refine ⟨by simp [CNL.addHyp_nil], ?_⟩
  intro cn' h
  rw [CNL.addHyp_nil] at h
  cases h
  rintro ⟨a, ha, w', _, hw⟩
  simp [Dict.keys] at ha
  subst ha
  simp at hw

end Any

section Field
variable {W : Type} [Field W] [LinearOrder W] [IsStrictOrderedRing W]

def WOps.of (W : Type) [Field W] [LinearOrder W] : WOps W :=
  { zero := 0, one := 1, add := (· + ·), mul := (· * ·), lt := fun a b => decide (a < b),
    div := (· / ·), ofNat := fun n => (n : W) }

omit [IsStrictOrderedRing W] in
theorem WOps.of_eq : WOps.of W = CNL.fieldOps W := rfl

/-- `bump` adds exactly the score on one arc and touches nothing else. -/
theorem bump_spec (p : Pos W) (k : Arc) (s : W) :
    posTotal (WOps.of W) (bump (WOps.of W) p k s) = posTotal (WOps.of W) p + s ∧
    (∀ k', k' ≠ k → Dict.get? (bump (WOps.of W) p k s) k' = Dict.get? p k') ∧
    Dict.get? (bump (WOps.of W) p k s) k = some ((Dict.get? p k).getD 0 + s) := by
  rw [WOps.of_eq]
  exact ⟨CNL.posTotal_bump p k s, fun k' h => CNL.get?_bump_ne p k k' s h, CNL.get?_bump_self p k s⟩

/-- No weight is lost: if every position carries total `T`, then after adding a hypothesis of score
`s` every position (old and new) carries `T + s`; a first hypothesis gives total `s`. -/
theorem add_weight (cn cn' : Net W) (tr : List Nat) (s T : W) (hne : cn ≠ []) (hwf : WFNet cn)
    (hu : Uniform (WOps.of W) cn T)
    (h : addHyp (WOps.of W) Gen.ConfNet.advanceOnAppend cn tr s = some cn') :
    Uniform (WOps.of W) cn' (T + s) := by
  rw [WOps.of_eq] at *
  exact CNL.addHyp_uniform _ adv_true cn cn' tr s T hne hu h

theorem add_weight_first (tr : List Nat) (s : W) :
    ∃ cn', addHyp (WOps.of W) Gen.ConfNet.advanceOnAppend [] tr s = some cn' ∧
      Uniform (WOps.of W) cn' s ∧ cn'.length = tr.length := by
  rw [WOps.of_eq]
  exact ⟨_, CNL.addHyp_nil _ _ tr s, CNL.uniform_first tr s, by simp⟩

/-- After normalisation the weights at every position sum to 1. -/
theorem normalize_sums_one (cn : Net W) (h : ∀ p ∈ cn, posTotal (WOps.of W) p ≠ 0) :
    Uniform (WOps.of W) (normalize (WOps.of W) cn) 1 := by
  rw [WOps.of_eq] at *
  exact CNL.normalize_uniform cn h

/-- Paths come out in non-increasing probability order. -/
theorem paths_sorted (cn : Net W) :
    (sortedPaths (WOps.of W) cn).Pairwise fun a b => b.2 ≤ a.2 := by
  rw [WOps.of_eq]
  exact CNL.sortedPaths_pairwise cn

/-- The probabilities of all paths of a network whose positions each sum to 1 sum to 1. -/
theorem paths_sum_one (cn : Net W) (hne : cn ≠ []) (hu : Uniform (WOps.of W) cn 1) :
    ((sortedPaths (WOps.of W) cn).map (·.2)).sum = 1 := by
  rw [WOps.of_eq] at *
  exact CNL.sortedPaths_sum cn hne hu

/-- A network built from a single hypothesis reads back as that hypothesis. -/
theorem single_hyp_reads_back (tr : List Nat) (s : W) (hs : 0 < s) (hne : tr ≠ []) :
    ∃ cn, fromHyps (WOps.of W) Gen.ConfNet.advanceOnAppend [(tr, s)] true = some cn ∧
      bestPath (WOps.of W) cn = some tr ∧ sortedPaths (WOps.of W) cn = [(tr, 1)] := by
  rw [WOps.of_eq]
  refine ⟨tr.map fun c => ([(some c, 1)] : Pos W), ?_, ?_, CNL.sortedPaths_single tr hne⟩
  · simp only [fromHyps, List.foldlM_cons, List.foldlM_nil, CNL.addHyp_nil, Option.bind_eq_bind,
      Option.bind_some, if_true]
    show some (normalize (CNL.fieldOps W) _) = _
    rw [CNL.normalize_first tr s (ne_of_gt hs)]
  · simp [bestPath, CNL.getPivot_single, List.filterMap_map]

end Field

end C14
