/-
Decimal printing / parsing of integers and fixed-point numbers on code-point lists
(`Str = List Nat`), so that the round-trip lemmas are provable instead of trusting `toString`.
Core Lean only.

* `showNat / showInt`      — Python `str(int)`, `f'{i:d}'`
* `parseInt`               — Python `int(s)` for a plain decimal literal (optional leading '-'),
                             `none` for anything else (Python raises ValueError)
* `showFixed k n`          — `f'{x:.kf}'` for the non-negative number `n / 10^k`
* `parseFixed k`           — inverse of `showFixed k` (what `float(...)`/`json.loads` recover, re-quantised)
* `splitOn`, `join`        — `str.split(sep)` with an explicit separator, `sep.join`
-/
namespace Py

abbrev Str := List Nat

def c0 : Nat := 48         -- '0'
def cMinus : Nat := 45     -- '-'
def cDot : Nat := 46       -- '.'
def cComma : Nat := 44     -- ','
def cSpace : Nat := 32     -- ' '
def cColon : Nat := 58     -- ':'
def cLBr : Nat := 91       -- '['
def cRBr : Nat := 93       -- ']'

/-- most significant digit first; `fuel` bounds the number of digits -/
def showNatAux : Nat → Nat → Str → Str
  | 0, _, acc => acc
  | fuel + 1, n, acc =>
    if n < 10 then (c0 + n) :: acc else showNatAux fuel (n / 10) ((c0 + n % 10) :: acc)

def showNat (n : Nat) : Str := showNatAux (n + 1) n []

def showInt (i : Int) : Str :=
  if i < 0 then cMinus :: showNat i.natAbs else showNat i.toNat

def isDigit (c : Nat) : Bool := c0 ≤ c && c ≤ c0 + 9

/-- all characters digits, at least one -/
def parseNat (s : Str) : Option Nat :=
  if s.isEmpty || !s.all isDigit then none
  else some (s.foldl (fun acc c => acc * 10 + (c - c0)) 0)

def parseInt (s : Str) : Option Int :=
  match s with
  | c :: r => if c = cMinus then (parseNat r).map fun n => -(n : Int) else (parseNat s).map fun n => (n : Int)
  | [] => none

/-- `str.split(sep)` for a one-character separator (never returns `[]`). -/
def splitOn (sep : Nat) : Str → List Str
  | [] => [[]]
  | c :: r =>
    if c = sep then [] :: splitOn sep r
    else match splitOn sep r with
      | w :: ws => (c :: w) :: ws
      | [] => [[c]]

def join (sep : Str) : List Str → Str
  | [] => []
  | [w] => w
  | w :: ws => w ++ sep ++ join sep ws

/-- left-pad with '0' to `k` digits -/
def padZeros (k : Nat) (s : Str) : Str := List.replicate (k - s.length) c0 ++ s

/-- `f'{n / 10^k:.kf}'` -/
def showFixed (k : Nat) (n : Nat) : Str :=
  showNat (n / 10 ^ k) ++ [cDot] ++ padZeros k (showNat (n % 10 ^ k))

/-- parse `int.frac` with exactly `k` fractional digits back to `n = int * 10^k + frac` -/
def parseFixed (k : Nat) (s : Str) : Option Nat :=
  match splitOn cDot s with
  | [a, b] =>
    if b.length = k then
      match parseNat a, parseNat b with
      | some x, some y => some (x * 10 ^ k + y)
      | _, _ => none
    else none
  | _ => none

end Py
