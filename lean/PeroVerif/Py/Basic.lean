/-
Python semantics used by the models (core Lean only).

* `Py.floorDiv a b`  — Python's `a // b` on integers (floor).
* `Py.slice l lo hi` — Python's `l[lo:hi]` (step 1) with negative / missing / out-of-range bounds.
-/
namespace Py

/-- Python `a // b` for integers (floor division); `b = 0` raises in Python and is never used. -/
def floorDiv (a b : Int) : Int := Int.fdiv a b

/-- Normalise a slice bound against length `n` (CPython `PySlice_AdjustIndices`, step 1). -/
def normIdx (n : Nat) (i : Int) : Nat :=
  if i < 0 then (i + n).toNat else min i.toNat n

def slice {α : Type} (l : List α) (lo hi : Option Int) : List α :=
  let n := l.length
  let a := match lo with | none => 0 | some i => normIdx n i
  let b := match hi with | none => n | some i => normIdx n i
  (l.drop a).take (b - a)

/-- Python `len(x)` as an integer. -/
def len {α : Type} (l : List α) : Int := l.length

theorem floorDiv_two (a : Int) : floorDiv a 2 = a / 2 := by
  unfold floorDiv
  rw [Int.fdiv_eq_ediv_of_nonneg] ; omega

theorem slice_to {α : Type} (l : List α) (k : Int) (h0 : 0 ≤ k) :
    slice l none (some k) = l.take k.toNat := by
  simp only [slice, normIdx]
  have : ¬ k < 0 := by omega
  simp [this]

theorem slice_from {α : Type} (l : List α) (k : Int) (h0 : 0 ≤ k) :
    slice l (some k) none = l.drop k.toNat := by
  simp only [slice, normIdx]
  have : ¬ k < 0 := by omega
  simp [this]
  by_cases h : k.toNat ≤ l.length
  · rw [Nat.min_eq_left h]
    apply List.take_of_length_le
    simp
  · have : l.length ≤ k.toNat := by omega
    rw [Nat.min_eq_right this, List.drop_of_length_le this, List.drop_of_length_le (Nat.le_refl _)]
    simp

theorem slice_to_neg {α : Type} (l : List α) (k : Int) (h0 : k < 0) :
    slice l none (some k) = l.take (k + l.length).toNat := by
  simp [slice, normIdx, h0]

end Py
