/-
Python `dict` with insertion order, as an association list (core Lean only).
`set` on an existing key keeps the key's position; a new key goes to the end.
-/
namespace Py

abbrev Dict (κ ν : Type) := List (κ × ν)

namespace Dict
variable {κ ν : Type} [DecidableEq κ]

def get? (d : Dict κ ν) (k : κ) : Option ν :=
  match d with
  | [] => none
  | (k', v) :: r => if k' = k then some v else get? r k

def contains (d : Dict κ ν) (k : κ) : Bool := (get? d k).isSome

def set (d : Dict κ ν) (k : κ) (v : ν) : Dict κ ν :=
  match d with
  | [] => [(k, v)]
  | (k', v') :: r => if k' = k then (k', v) :: r else (k', v') :: set r k v

def keys (d : Dict κ ν) : List κ := d.map (·.1)
def values (d : Dict κ ν) : List ν := d.map (·.2)

end Dict
end Py
