"""C15 — stitching the parts of an over-long line (DESIGN §5-C15).

Tie to the code: (1) translator regenerates the two slice expressions of
merge_transcriptions_and_logits into Generated/Merge.lean on every run — the theorems in Props/C15.lean
are re-checked against them; (2) exact correspondence of real merge / find_best_overlap / window
splitting with the Lean model; (3) oracle: the property's clauses evaluated on the real output.
"""
import os

import numpy as np

from . import common

LEAN_MODULES = []


def translate(ctx):
    from translator import merge
    from translator.pyexpr import Unsupported
    try:
        merge.write(common.REPO, common.LEAN)
        ctx.cov['translated'] = ['line_ocr_engine.py:merge_transcriptions_and_logits -> Generated/Merge.lean']
    except (Unsupported, SyntaxError, OSError) as e:
        ctx.brk('translator:merge', repr(e))


def gen_parts(rng, quick):
    mode = rng.random()
    alpha = rng.choice(['ab', 'abc', 'abcdefghij', 'abcdefghijklmnopqrstuvwxyz '])
    rnd = lambda n: ''.join(rng.choice(alpha) for _ in range(n))
    nparts = rng.choice([1, 2, 2, 2, 3, 3, 4, 5, 6])
    if mode < 0.45:
        # true overlapping windows of one text (optionally with noise in the overlap)
        noise = rng.random() < 0.4
        text = rnd(rng.randrange(4, 60))
        w = rng.randrange(2, max(3, len(text) // max(1, nparts - 1) + 3))
        ov = rng.randrange(0, w)
        parts = []
        start = 0
        for _ in range(nparts):
            p = text[start:start + w]
            if noise and p:
                p = list(p)
                for _ in range(rng.randrange(0, 3)):
                    k = rng.randrange(len(p))
                    r = rng.random()
                    if r < 0.4:
                        p[k] = rng.choice(alpha)
                    elif r < 0.7:
                        for _ in range(rng.choice([1, 1, 2, 3])):      # runs of adjacent inserted characters (a smudge read as "''" or "...")
                            p.insert(k, rng.choice(alpha))
                    elif len(p) > 1:
                        del p[k]
                p = ''.join(p)
            parts.append(p)
            start += max(1, w - ov)
        kind = 'windows-noisy' if noise else 'windows'
    elif mode < 0.7:
        parts = [rnd(rng.randrange(0, 12)) for _ in range(nparts)]
        kind = 'unrelated'
    elif mode < 0.85:
        parts = [rnd(rng.randrange(0, 8)) if rng.random() < 0.6 else '' for _ in range(nparts)]
        kind = 'with-empty'
    else:
        # pairwise disjoint alphabets, one per part: certainly no overlap (no suffix of the text so far shares a single character
        # with a prefix of the next part); neighbouring alphabets may differ in letter case only ('NO' then 'no.'); empty parts between
        pool = [('ABC', 'abc'), ('xyz', 'XYZ'), ('012', ',.;')]
        rng.shuffle(pool)
        alph = [x for pr in pool for x in (pr if rng.random() < 0.5 else pr[::-1])][:nparts]
        parts = [''.join(rng.choice(a) for _ in range(rng.randrange(1, 8))) for a in alph]
        for i in range(1, len(parts)):
            if alph[i].lower() == alph[i - 1].lower() and rng.random() < 0.8:
                k = rng.randrange(1, len(parts[i - 1]) + 1)
                parts[i] = parts[i - 1][-k:].swapcase() + parts[i]   # begins with the previous part's ending in the other case
        if len(parts) >= 2 and rng.random() < 0.2:
            parts.insert(rng.randrange(1, len(parts)), '')
        kind = 'disjoint'
    extra = [rng.choice([0, 0, 1, 3]) for _ in parts]
    return kind, parts, extra


def make_logits(parts, extra):
    """Row r of part k is the 1-vector [1000*k + r]: rows are identifiable after merging."""
    return [np.arange(len(p) + e, dtype=np.int64).reshape(-1, 1) + 1000 * k for k, (p, e) in enumerate(zip(parts, extra))]


def ref_lev(a, b):
    """textbook unit-cost Levenshtein distance (independent of pero_ocr.sequence_alignment)"""
    prev = list(range(len(b) + 1))
    for i, x in enumerate(a, 1):
        cur = [i]
        for j, y in enumerate(b, 1):
            cur.append(min(prev[j] + 1, cur[j - 1] + 1, prev[j - 1] + (x != y)))
        prev = cur
    return prev[-1]


def ref_overlap(a, b):
    """the documented overlap detector: the shortest-first scan over i = 1..min(len), keeping the first i with the strictly
    smallest character error rate dist(a[-i:], b[:i]) / i below 1 (exact fractions)"""
    from fractions import Fraction
    best, best_i = Fraction(1), 0
    for i in range(1, min(len(a), len(b)) + 1):
        cer = Fraction(ref_lev(a[-i:], b[:i]), i)
        if cer < best:
            best, best_i = cer, i
    return best_i


def oracle(ctx, loe, kind, parts, extra, res_t, res_l):
    """The property's clauses, evaluated on the real output, using the real overlap detector."""
    inp = dict(parts=parts, extra_rows=extra)
    r = parts[0]
    overlaps = []
    ok_concat = True
    for p in parts[1:]:
        o = int(loe.find_best_overlap(r, p))
        if not (0 <= o <= min(len(r), len(p))):
            ctx.violation('overlap-range', 'find_best_overlap outside [0, min(len)]', dict(a=r, b=p), o)
            return
        ro = ref_overlap(r, p)
        if o != ro:
            ctx.violation('overlap-detector', 'detected overlap is not the suffix/prefix length with the smallest character error rate', dict(a=r, b=p), o, ro)
            return
        overlaps.append(o)
        r = r[:len(r) - (o + 1) // 2] + p[o // 2:]
    total = sum(len(p) for p in parts) - sum(overlaps)
    zero = any(o == 0 for o in overlaps)
    tag = 'zero-overlap' if zero else 'positive-overlaps'
    if len(res_t) != total:
        ctx.violation('length:' + tag, 'merged length != sum of part lengths - detected overlaps', inp, res_t, total)
    elif res_t != r:
        ctx.violation('text:' + tag, 'merged text differs from keep-left-half/right-half stitching', inp, res_t, r)
    if len(parts) >= 1 and overlaps:
        if not res_t.endswith(parts[-1][overlaps[-1] // 2:]):
            ctx.violation('suffix:' + tag, 'result does not end with the last part (less the left half of its overlap)', inp, res_t)
    if len(parts) == 2:
        o = overlaps[0]
        keep = len(parts[0]) - (o + 1) // 2
        if res_t[:keep] != parts[0][:keep]:
            ctx.violation('prefix:' + tag, 'result does not begin with the first part less half the overlap', inp, res_t)
    if res_l.shape[0] != len(res_t):
        ctx.violation('logit-rows:' + tag, 'merged logits do not have one row per merged character', inp, int(res_l.shape[0]), len(res_t))
    if kind == 'disjoint' and res_t != ''.join(parts):
        ctx.violation('concat:disjoint', 'parts that share no character (so no overlap) are not concatenated unchanged', inp, res_t, ''.join(parts))
    elif all(o == 0 for o in overlaps) and res_t != ''.join(parts):
        ctx.violation('concat:' + tag, 'parts without overlap are not concatenated unchanged', inp, res_t, ''.join(parts))
    return overlaps


class StubEngine:
    pass


def run_windows(ctx, loe, widths, mlw, bs):
    """Drive the real BaseEngineLineOCR.process_lines (transformer mode) with a recording run_ocr."""
    import torch
    eng = object.__new__(loe.BaseEngineLineOCR)
    eng.line_px_height = 2
    eng.max_line_width = mlw
    eng.model_type = 'transformer'
    eng.device = torch.device('cpu')
    eng.batch_size = bs
    eng.line_padding_px = 32
    eng.max_input_horizontal_pixels = 480 * bs
    eng.net_subsampling = 4
    seen = []

    def run_ocr(batch):
        outs_t, outs_l = [], []
        for img in batch:
            cols = img[0, :, :].astype(np.int64)
            idx = np.nonzero(cols[:, 0])[0]
            if len(idx):
                vals = (cols[idx, 0] - 1) + 251 * cols[idx, 1] + 251 * 256 * cols[idx, 2]
                seen.append((int(vals[0]), int(vals[-1]) + 1, int(idx[0])))
            else:
                seen.append(None)
            outs_t.append('')
            outs_l.append(np.zeros((0, 3)))
        return outs_t, outs_l
    eng.run_ocr = run_ocr
    lines = []
    for w in widths:
        im = np.zeros((2, w, 3), dtype=np.uint8)
        c = np.arange(w)
        im[:, :, 0] = (c % 251) + 1
        im[:, :, 1] = (c // 251) % 256
        im[:, :, 2] = c // (251 * 256)
        lines.append(im)
    eng.process_lines(lines, sparse_logits=False)
    return seen


def run_regroup(ctx, loe, rng, widths, mlw, bs):
    """process_lines (transformer mode) end to end with a run_ocr that answers every window with a PREPARED part text (empty,
    blank-only, ordinary): the line's result must be the stitching of exactly its own windows' parts, in order."""
    import torch
    eng = object.__new__(loe.BaseEngineLineOCR)
    eng.line_px_height = 2
    eng.max_line_width = mlw
    eng.model_type = 'transformer'
    eng.device = torch.device('cpu')
    eng.batch_size = bs
    eng.line_padding_px = 32
    eng.max_input_horizontal_pixels = 480 * bs
    eng.net_subsampling = 4

    def nwin(w):
        if w <= mlw:
            return 1
        ov, end, k = mlw // 4, mlw, 0
        while end < w:
            k += 1
            end += mlw - ov
        return k + 1
    alpha = 'abc '
    parts, logits = [], []
    for li, w in enumerate(widths):
        ps = []
        for k in range(nwin(w)):
            r = rng.random()
            ps.append('' if r < 0.15 else rng.choice([' ', '  ', ' ']) if r < 0.4 else ''.join(rng.choice(alpha) for _ in range(rng.randrange(1, 7))))
        parts.append(ps)
        logits.append([np.arange(len(p) + rng.choice([0, 0, 2]), dtype=np.int64).reshape(-1, 1) * np.ones((1, 3), dtype=np.int64) + 1000 * k + 100000 * li
                       for k, p in enumerate(ps)])
    unknown = []
    calls = []

    def run_ocr(batch):
        outs_t, outs_l = [], []
        calls.append([])
        for img in batch:
            cols = img[0, :, :].astype(np.int64)
            idx = np.nonzero(cols[:, 0])[0]
            if not len(idx):
                unknown.append('blank image')
                outs_t.append('')
                outs_l.append(np.zeros((0, 3), dtype=np.int64))
                continue
            start = int((cols[idx[0], 0] - 1) + 251 * cols[idx[0], 1] + 251 * 256 * cols[idx[0], 2])
            li = int(img[1, idx[0], 0]) - 1
            step = mlw - mlw // 4
            k = start // step if widths[li] > mlw else 0
            if li < 0 or li >= len(parts) or k >= len(parts[li]) or (widths[li] > mlw and start % step):
                unknown.append([li, start])
                outs_t.append('')
                outs_l.append(np.zeros((0, 3), dtype=np.int64))
                continue
            outs_t.append(parts[li][k])
            outs_l.append(logits[li][k].copy())
            calls[-1].append((li, k))
        return outs_t, outs_l
    eng.run_ocr = run_ocr
    lines = []
    for li, w in enumerate(widths):
        im = np.zeros((2, w, 3), dtype=np.uint8)
        c = np.arange(w)
        im[0, :, 0] = (c % 251) + 1
        im[0, :, 1] = (c // 251) % 256
        im[0, :, 2] = c // (251 * 256)
        im[1, :, 0] = li + 1
        lines.append(im)
    inp = dict(stage='process_lines(transformer)', widths=widths, max_line_width=mlw, batch_size=bs, parts=parts)
    try:
        tr, lg, co = eng.process_lines(lines, sparse_logits=False)
        if rng.random() < 0.4:
            # the same lines in no-logits mode: the same texts, no logits
            trn, lgn, con = eng.process_lines(lines, no_logits=True)
            if list(trn) != list(tr) or any(x is not None for x in lgn):
                ctx.violation('regroup:no-logits', 'process_lines(no_logits=True) does not return the same transcriptions (and no logits) as with logits', inp,
                              list(trn), list(tr))
                return
            ctx.count('regroup_no_logits')
    except AttributeError as e:
        # the engine object is built without its constructor (no checkpoint): an attribute the loop newly needs is missing on the stand-in
        ctx.count('regroup_engine_standin_unusable')
        if 'stand-in engine' not in ' '.join(ctx.notes):
            ctx.notes.append('stand-in engine object lacks an attribute process_lines uses (%r): regroup correspondence skipped' % (e,))
        return
    except Exception as e:
        ctx.violation('regroup-raises:' + type(e).__name__, 'process_lines raised %r' % (e,), inp)
        return
    if unknown:
        ctx.count('regroup_unidentified_windows', len(unknown))
        return
    for li in range(len(widths)):
        et, el = loe.merge_transcriptions_and_logits(list(parts[li]), [x.copy() for x in logits[li]])
        gl = np.asarray(lg[li])
        if tr[li] != et or gl.shape != np.asarray(el).shape or not np.array_equal(gl, np.asarray(el)):
            ctx.violation('regroup', "the text / logits returned for a split line are not the stitching of its own windows' parts (in order, blank-only and empty "
                          'parts included)', inp, [li, tr[li]], et)
            return
        if len(parts[li]) >= 2 and sum(len(p) for p in parts[li]) - len(et) == 0 and et != ''.join(parts[li]):
            ctx.violation('regroup:concat', 'parts without overlap are not concatenated unchanged', inp, [li, tr[li]], ''.join(parts[li]))
            return
        if list(co[li]) != [0, len(et)]:
            ctx.violation('regroup:coords', 'frame window of a transformer line is not [0, len(text)]', inp, co[li])
    if any(len(p) >= 2 for p in parts):
        ctx.nontriv(['regroup', widths, mlw, parts])
    ctx.count('regroup_cases')
    # model request per network call: the spans (windows per line, in batch order) and the window results -> per-line stitching
    out = []
    for call in calls:
        order, spans = [], []
        for li, k in call:
            if order and order[-1] == li:
                spans[-1] += 1
            else:
                order.append(li)
                spans.append(1)
        req = dict(p='C15', op='regroup', spans=spans,
                   parts=[[[ord(ch) for ch in parts[li][k]], [int(x) for x in logits[li][k][:, 0]]] for li, k in call])
        got = [[[ord(ch) for ch in tr[li]], [int(x) for x in np.asarray(lg[li])[:, 0]]] for li in order]
        out.append((req, got, inp))
    return out


def run(ctx):
    from pero_ocr.ocr_engine import line_ocr_engine as loe
    rng = ctx.rng
    ctx.rule = ('seeded part lists: true overlapping windows of one text (with/without recognition noise), unrelated '
                'strings, empty parts anywhere, disjoint alphabets; 1..6 parts; logits with >= as many rows as characters. '
                'non-trivial = >= 2 parts and at least one detected overlap > 0')
    ctx.assumptions += ['float comparison of quotients of small integers (cer) orders them like exact rationals (D2)']
    n = 1000 if ctx.quick() else 12000
    reqs, impl, cases = [], [], []
    for _ in range(n):
        kind, parts, extra = gen_parts(rng, ctx.quick())
        logits = make_logits(parts, extra)
        ctx.evaluations += 1
        ctx.count('kind:' + kind)
        try:
            rt, rl = loe.merge_transcriptions_and_logits(list(parts), [l.copy() for l in logits])
        except Exception as e:
            ctx.violation('merge-raises:' + type(e).__name__, 'merge raised %r' % (e,), dict(parts=parts, extra_rows=extra))
            continue
        ovs = oracle(ctx, loe, kind, parts, extra, rt, rl)
        if ovs and any(o > 0 for o in ovs) and len(parts) >= 2:
            ctx.nontriv([parts, extra])
        ctx.count('overlap>0', sum(1 for o in (ovs or []) if o > 0))
        ctx.count('overlap=0', sum(1 for o in (ovs or []) if o == 0))
        ctx.sample(dict(kind=kind, parts=parts, merged=rt, overlaps=ovs), limit=5)
        cases.append((parts, extra))
        impl.append(([ord(ch) for ch in rt], [int(x) for x in rl[:, 0]]))
        reqs.append(dict(p='C15', op='merge', parts=[[[ord(ch) for ch in p], [int(x) for x in l[:, 0]]] for p, l in zip(parts, logits)]))
    # windows
    wcases = []
    for _ in range(25 if ctx.quick() else 400):
        mlw = rng.choice([4, 8, 40, 64, 100, 257, 1000])
        bs = rng.choice([1, 2, 8, 16])
        widths = [rng.choice([1, mlw - 1, mlw, mlw + 1, 2 * mlw, rng.randrange(1, 6 * mlw)]) for _ in range(rng.randrange(1, 4))]
        widths = [max(1, min(w, 480 * bs - 64)) for w in widths]
        wcases.append((widths, mlw, bs))
    wimpl = []
    for widths, mlw, bs in wcases:
        ctx.evaluations += 1
        try:
            seen = run_windows(ctx, loe, widths, mlw, bs)
        except Exception as e:
            ctx.violation('windows-raise:' + type(e).__name__, 'process_lines raised %r' % (e,), dict(widths=widths, mlw=mlw, bs=bs))
            seen = None
        wimpl.append(seen)
        if seen is None:
            continue
        # oracle: per line (sorted by width desc, stable), windows cover the line, consecutive ones overlap by mlw//4
        order = sorted(range(len(widths)), key=lambda i: -widths[i])
        # process_lines may truncate very wide batches; generator keeps width + 2*pad <= budget
        pos = 0
        # batches are consumed in order; each line contributes its windows consecutively
        for i in order:
            w = widths[i]
            wins = []
            while pos < len(seen):
                s = seen[pos]
                if s is None:
                    break
                wins.append(s)
                pos += 1
                if s[1] >= w:
                    break
            inp = dict(width=w, max_line_width=mlw)
            if not wins or wins[0][0] != 0 or wins[-1][1] != w:
                ctx.violation('windows-cover', 'windows do not cover the line', inp, wins)
            for a, b in zip(wins, wins[1:]):
                if b[0] != a[1] - mlw // 4:
                    ctx.violation('windows-overlap', 'consecutive windows do not overlap by max_line_width//4', inp, wins)
            if any(s[2] != 32 for s in wins):
                ctx.violation('windows-padding', 'window not placed after the left padding', inp, wins)
            reqs.append(dict(p='C15', op='windows', width=w, mlw=mlw))
            impl.append([[a, b] for a, b, _ in wins])
            cases.append(('win', w, mlw))
            if len(wins) > 1:
                ctx.nontriv(['win', w, mlw])
    for _ in range(60 if ctx.quick() else 600):
        mlw = rng.choice([8, 40, 64, 100])
        bs = rng.choice([1, 2, 8])
        widths = [max(1, min(rng.choice([mlw - 1, mlw + 1, 2 * mlw, rng.randrange(1, 5 * mlw)]), 480 * bs - 64)) for _ in range(rng.randrange(1, 4))]
        ctx.evaluations += 1
        for req, got, rinp in (run_regroup(ctx, loe, rng, widths, mlw, bs) or []):
            reqs.append(req)
            impl.append(got)
            cases.append(('regroup', rinp))
    if ctx.driver_ok:
        rep = common.Driver(ctx).batch(reqs)
        for r, got, case in zip(rep, impl, cases):
            m = r.get('ok', r.get('err'))
            if case[0] == 'regroup':
                if m != got:
                    ctx.disagree('C15.regroup model != implementation (per-line stitching of the window results of one network call)', case[1], got, m)
                else:
                    ctx.traces_validated += 1
                continue
            if case[0] == 'win':
                m = [[a, min(b, case[1])] for a, b in m] if case[1] > case[2] else [[0, case[1]]]
                if m != got:
                    ctx.disagree('C15.windows model != implementation', dict(width=case[1], mlw=case[2]), got, m)
                else:
                    ctx.traces_validated += 1
                continue
            if not isinstance(m, list) or [m[0], m[1]] != [got[0], got[1]]:
                ctx.disagree('C15.merge model != implementation', dict(parts=case[0], extra_rows=case[1]), got, m)
            else:
                ctx.traces_validated += 1
    else:
        ctx.notes.append('driver unavailable: correspondence skipped, oracle only')


def replay(data):
    from pero_ocr.ocr_engine import line_ocr_engine as loe
    rc = 0
    for v in data.get('violations', []):
        inp = v['input']
        if 'parts' in inp:
            parts, extra = inp['parts'], inp['extra_rows']
            rt, rl = loe.merge_transcriptions_and_logits(list(parts), make_logits(parts, extra))
            print('replay', v['key'], 'parts=%r -> merged=%r rows=%d' % (parts, rt, rl.shape[0]), '|', v['what'])
            rc = 1
        elif 'a' in inp and 'b' in inp:
            print('replay', v['key'], 'find_best_overlap(%r, %r) = %r; smallest-error-rate overlap = %r' % (
                inp['a'], inp['b'], int(loe.find_best_overlap(inp['a'], inp['b'])), ref_overlap(inp['a'], inp['b'])))
            rc = 1
    return rc
