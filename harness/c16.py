"""C16 — every reported confidence is a probability derived from normalised posteriors (DESIGN §5-C16).

Domain D2: the probabilities the real code computes (np.exp of its own log-softmax) are sent to the model as their
exact dyadic values; the model computes in Rat; outputs must agree within 1e-12.  Oracle on the real outputs:
range [0,1], invariance under a per-frame constant, one-hot => 1, monotone threshold test, posteriors sum to 1.
"""
import math
from fractions import Fraction as F

import numpy as np

from . import common


def rat(x):
    f = F(float(x))
    return [f.numerator, f.denominator]


def gen_logits(rng, T, C, labels, peaky):
    """Dense logits such that `labels` is alignable (T >= needed)."""
    L = np.array([[rng.uniform(-6, 2) for _ in range(C)] for _ in range(T)])
    # plant the labels along the frames
    need = len(labels) + sum(1 for a, b in zip(labels, labels[1:]) if a == b)
    slots = sorted(rng.sample(range(T), min(T, need)))
    t = 0
    k = 0
    prev = None
    for lab in labels:
        if prev == lab and k < len(slots):
            L[slots[k], C - 1] += 8
            k += 1
        if k < len(slots):
            L[slots[k], lab] += (12 if peaky else 3)
            k += 1
        prev = lab
    return L


def translate(ctx):
    """window border and end sentinel of get_line_confidence -> Generated/Confidence.lean (obligations C16.cfg_nextBorder / cfg_sentinel)"""
    from translator import confidence
    from translator.pyexpr import Unsupported
    try:
        confidence.write(common.REPO, common.LEAN)
        ctx.cov['translated'] = ['confidence_estimation.py:get_line_confidence (next_border, sentinel) -> Generated/Confidence.lean']
    except (Unsupported, SyntaxError, OSError) as e:
        ctx.brk('translator:confidence', repr(e))


def run(ctx):
    from scipy import sparse
    from pero_ocr.core import confidence_estimation as ce
    from pero_ocr.core.layout import TextLine, log_softmax
    from pero_ocr.core.force_alignment import align_text
    from pero_ocr.document_ocr import page_parser as pp
    from pero_ocr.decoding.bag_of_hypotheses import BagOfHypotheses
    rng = ctx.rng
    ctx.rule = ('random dense and sparse-with-floor logit matrices (T<=14, C<=6) with alignable transcriptions (peaky / diffuse), '
                'one-hot posteriors, transformer-shaped lines (one frame per label); random hypothesis bags with/without LM scores and '
                'LM weights in [0,3]; thresholds: in [0,1], negative (incl. -inf), 0, 1, > 1 (incl. inf), next to the decisive value. non-trivial = >= 2 labels and not all confidences in {0,1}')
    ctx.assumptions += ['np.exp/logaddexp/logsumexp (float) approximate the real functions; model compared on the exact dyadic '
                        'values of the probabilities the code itself computed (D2), outputs within 1e-12']
    reqs, impl = [], []
    n = 500 if ctx.quick() else 6000
    for it in range(n):
        C = rng.randrange(2, 7)
        nl = rng.randrange(1, 6)
        labels = [rng.randrange(C - 1) for _ in range(nl)]
        need = nl + sum(1 for a, b in zip(labels, labels[1:]) if a == b)
        T = rng.randrange(need, need + 9)
        mode = rng.choice(['dense', 'sparse', 'onehot', 'transformer'])
        long_line = it % 40 == 7
        if long_line:
            mode = 'long'
            T = rng.randrange(1001, 1400)
        peaky = rng.random() < 0.5
        if mode == 'transformer':
            T = nl
        L = gen_logits(rng, T, C, labels, peaky)
        if mode == 'long':
            # a long line (> 1000 frames) whose characters sit near the end
            L = np.full((T, C), -6.0)
            L[:, C - 1] = 4.0
            pos = sorted(rng.sample(range(T - 300, T), need))
            k = 0
            prev = None
            for lab in labels:
                if prev == lab:
                    k += 1
                L[pos[min(k, len(pos) - 1)], lab] = 9.0
                k += 1
                prev = lab
        if mode == 'onehot':
            # one-hot posteriors consistent with the transcription: every frame all mass on one symbol of a valid path
            path = []
            prev = None
            for lab in labels:
                if prev == lab:
                    path.append(C - 1)
                path.append(lab)
                prev = lab
            while len(path) < T:
                k = rng.randrange(len(path) + 1)
                path.insert(k, path[k - 1] if (k > 0 and rng.random() < 0.5) else (C - 1))
            # keep it a valid CTC path for the labels
            from .c04 import ref_collapse
            if ref_collapse(path, C - 1) != labels:
                path = []
                prev = None
                for lab in labels:
                    if prev == lab:
                        path.append(C - 1)
                    path.append(lab)
                    prev = lab
                path += [C - 1] * (T - len(path))
            T = len(path)
            L = np.full((T, C), -200.0)
            for t, s in enumerate(path):
                L[t, s] = 50.0
        if mode == 'transformer' and rng.random() < 0.6:
            # sparsified as the engine stores them (weak symbols pruned to 0), while the transcription was corrected afterwards
            # (decoder / by hand): a label may be a symbol that is pruned at its step
            probs0 = np.exp(log_softmax(L))
            L = L.copy()
            L[probs0 < rng.choice([1e-2, 0.2])] = 0
            labels = [rng.randrange(C - 1) for _ in range(nl)]
            ctx.count('transformer:sparsified')
        if mode == 'sparse':
            probs0 = np.exp(log_softmax(L))
            L = L.copy()
            L[probs0 < 1e-2] = 0
        line = TextLine(id='l', logits=sparse.csc_matrix(L), characters=[chr(97 + i) for i in range(C - 1)])
        ctx.evaluations += 1
        ctx.count('mode:' + mode)
        inp = dict(mode=mode, logits=np.round(L, 3).tolist() if T < 50 else 'T=%d frames, blank everywhere except label peaks near the end' % T, labels=labels, T=T, C=C)
        try:
            lp = line.get_full_logprobs()
            probs = np.exp(lp)
            if abs(probs.sum(axis=1) - 1).max() > 1e-9:
                ctx.violation('not-normalised', 'dense reconstruction is not row-normalised', inp)
            if mode == 'transformer':
                al = None
                conf = ce.get_line_confidence(line, np.array(labels))
            else:
                al = align_text(-lp, np.array(labels), C - 1)
                conf = ce.get_line_confidence(line, np.array(labels), al, lp)
        except Exception as e:
            ctx.violation('raises:' + type(e).__name__ + (':long-line' if T > 1000 else ''), 'confidence computation raised %r on an alignable line' % (e,), inp)
            continue
        conf = [float(x) for x in conf]
        if any((c < -1e-12 or c > 1 + 1e-12 or math.isnan(c)) for c in conf):
            ctx.violation('range:line', 'character confidence outside [0,1]', inp, conf)
        if mode == 'onehot' and any(abs(c - 1) > 1e-9 for c in conf):
            ctx.violation('onehot', 'one-hot posteriors do not give confidence 1', inp, conf)
        # shift invariance (dense log-probs path and raw-logit consumers)
        # per-frame constants of ordinary and of extreme magnitude (frames hundreds of units apart: exp() of a difference to a
        # GLOBAL maximum underflows; the normalisation has to be stabilised per frame), float64 and the engine's float32
        big = rng.random() < 0.4
        shift = np.array([(rng.choice([-800.0, -150.0, 0.0, 150.0, 800.0]) if big else 0.0) + rng.uniform(-30, 30) for _ in range(T)])[:, None]
        dense = line.get_dense_logits()
        lp2 = log_softmax(dense + shift)
        if not np.all(np.abs(lp2 - lp) <= 1e-9):
            ctx.violation('shift:log_softmax' + (':extreme' if big else ''), 'log-probabilities change when a constant is added to a frame',
                          dict(inp, shift=[float(x) for x in shift[:, 0]]))
        shift32 = np.array([rng.choice([-150.0, 0.0, 0.0, 120.0]) for _ in range(T)], dtype=np.float32)[:, None]
        d32 = dense.astype(np.float32)
        lp32a, lp32b = log_softmax(d32), log_softmax(d32 + shift32)
        if not np.all(np.abs(lp32a.astype(np.float64) - lp32b.astype(np.float64)) <= 2e-3 * (1 + np.abs(lp32a.astype(np.float64)))):
            ctx.violation('shift:log_softmax:float32', 'float32 log-probabilities change when a constant is added to a frame',
                          dict(inp, shift=[float(x) for x in shift32[:, 0]]))
        if big:
            ctx.count('extreme_shift_cases')
        if mode != 'transformer':
            conf2 = [float(x) for x in ce.get_line_confidence(line, np.array(labels), al, lp2)]
            if max(abs(a - b) for a, b in zip(conf, conf2)) > 1e-9:
                ctx.violation('shift:line', 'line confidence changes under a per-frame shift', inp, conf2, conf)
            fa = None
            try:
                from pero_ocr.core.force_alignment import force_align
                fa = force_align(-lp, labels, C - 1)
                lc1 = ce.get_letter_confidence(dense, fa, C - 1)
                lc2 = ce.get_letter_confidence(dense + shift, fa, C - 1)
                if max(abs(a - b) for a, b in zip(lc1, lc2)) > 1e-9:
                    ctx.violation('shift:letter', 'letter confidence changes under a per-frame shift', inp)
                if any(math.exp(x) > 1 + 1e-12 or math.exp(x) < 0 for x in lc1):
                    ctx.violation('range:letter', 'exp(letter confidence) outside [0,1]', inp, lc1)
            except Exception as e:
                ctx.violation('raises-letter:' + type(e).__name__, 'get_letter_confidence raised %r' % (e,), inp)
        mm = float(np.exp(np.min(np.max(lp, axis=1))))

        def pick_thr():
            r = rng.random()
            if r < 0.45:
                return rng.random()
            if r < 0.6:
                return rng.choice([-1e-9, -0.25, -1.0, -1e6, -math.inf])
            if r < 0.75:
                return rng.choice([0.0, 1.0, 1.5, 1e6, math.inf])
            return mm + rng.choice([-1e-3, 1e-3, -0.1, 0.1])
        thr1, thr2 = sorted([pick_thr(), pick_thr()])
        ctx.count('threshold:' + ('negative' if thr1 < 0 else 'in[0,1]' if thr1 <= 1 else '>1'))
        e1 = bool(pp.line_confident_enough(dense, thr1))
        e2 = bool(pp.line_confident_enough(dense, thr2))
        e1s = bool(pp.line_confident_enough(dense + shift, thr1))
        if e2 and not e1:
            ctx.violation('threshold-monotone', 'confident at a higher threshold but not at a lower one', inp, [thr1, thr2])
        for thr, e in ((thr1, e1), (thr2, e2)):
            if abs(mm - thr) > 1e-9 and e != (mm > thr):
                ctx.violation('threshold-semantics:' + ('negative' if thr < 0 else 'nonnegative'),
                              'confident-line test is not "smallest per-frame best posterior exceeds the threshold"', inp, [thr, e], mm)
        if e1 != e1s and abs(np.exp(np.min(np.max(lp, axis=1))) - thr1) > 1e-9:
            ctx.violation('shift:enough', 'confident-line test changes under a per-frame shift', inp)
        cl = pp.PageParser.compute_line_confidence(line)
        if not (-1e-12 <= cl <= 1 + 1e-12):
            ctx.violation('range:compute_line_confidence', 'line confidence outside [0,1]', inp, float(cl))
        # the stored line confidence is never below the decoder's own measure, the smallest per-frame best posterior (theorem
        # getProb_ge_frame_min); the two may differ
        if float(cl) < mm - 1e-9:
            ctx.violation('line-confidence-below-frame-min', 'the line confidence is below the smallest per-frame best posterior', inp, float(cl), mm)
        elif float(cl) > mm + 1e-9:
            ctx.count('line_confidence_above_frame_min')
        # reference from the stored sparse logits themselves (0.0 = pruned = floor -80): the smallest, over runs of frames with the same
        # best symbol, of the largest posterior of that symbol within the run
        dz = np.asarray(line.logits.toarray(), dtype=np.float64)
        dz[dz == 0] = -80.0
        pz = np.exp(dz - np.logaddexp.reduce(dz, axis=1)[:, np.newaxis])
        ids_z, best_z = pz.argmax(axis=1), pz.max(axis=1)
        srt = np.sort(pz, axis=1)
        if pz.shape[1] < 2 or (srt[:, -1] - srt[:, -2]).min() > 1e-9:
            runs, prev = [], None
            for i_z, b_z in zip(ids_z, best_z):
                if i_z == prev:
                    runs[-1] = max(runs[-1], b_z)
                else:
                    runs.append(b_z)
                    prev = i_z
            ref_cl = min(runs) if runs else 1.0
            if abs(float(cl) - ref_cl) > 1e-9:
                ctx.violation('line-confidence-value', 'the line confidence is not the smallest (over runs of frames with the same best symbol) of the largest '
                              'normalised posterior within the run', inp, float(cl), float(ref_cl))
        med = float(np.quantile(conf, .5)) if conf else None
        if len(labels) >= 2 and any(1e-9 < c < 1 - 1e-9 for c in conf):
            ctx.nontriv(inp)
        ctx.sample(dict(mode=mode, labels=labels, T=T, C=C, conf=conf), limit=4)
        P = [[rat(x) for x in row] for row in probs]
        if mode == 'transformer':
            reqs.append(dict(p='C16', op='transformer', probs=P, labels=labels))
            impl.append((inp, conf, 1e-12))
        else:
            reqs.append(dict(p='C16', op='line', probs=P, labels=labels, alignment=[int(a) for a in al]))
            impl.append((inp, conf, 1e-12))
            reqs.append(dict(p='C16', op='letters', probs=P, alignment=[int(a) for a in fa], blank=C - 1))
            impl.append((inp, [math.exp(x) for x in lc1], 1e-9))
        if math.isfinite(thr1):
            reqs.append(dict(p='C16', op='enough', probs=P, thr=rat(thr1)))
            impl.append((inp, e1, None))
        reqs.append(dict(p='C16', op='getprob', ids=[int(i) for i in np.argmax(lp, axis=-1)], ps=[rat(x) for x in np.exp(np.max(lp, axis=-1))]))
        impl.append((inp, [float(cl)], 1e-12))
        reqs.append(dict(p='C16', op='median', xs=[rat(c) for c in conf]))
        impl.append((inp, [med], 1e-12))
    # bags
    for it in range(150 if ctx.quick() else 3000):
        w = rng.choice([0.0, 0.5, 1.0, 2.0, 3.0, rng.uniform(0, 3)])
        bag = BagOfHypotheses(lm_weight=w)
        with_lm = rng.random() < 0.6
        # mixed bags: some hypotheses carry an LM score and some do not (a greedy hypothesis merged into a re-scored beam);
        # LM scores may be positive (insertion bonus)
        mixed = rng.random() < 0.3
        nh = rng.randrange(1, 7)
        for i in range(nh):
            has = (rng.random() < 0.6) if mixed else with_lm
            bag.add('h%d' % i, rng.uniform(-30, 0), rng.uniform(-20, 3 if mixed else 0) if has else None)
        ctx.count('bag:mixed' if mixed else 'bag:uniform')
        ctx.evaluations += 1
        post = [math.exp(p) for p in bag.posteriors()]
        conf = bag.confidence()
        inp = dict(bag=[[h.transcript, h.vis_sc, h.lm_sc] for h in bag], lm_weight=w)
        if abs(sum(post) - 1) > 1e-9 or any(p < 0 or p > 1 + 1e-12 for p in post):
            ctx.violation('bag-posteriors', 'hypothesis posteriors are not probabilities summing to 1', inp, post)
        if not (0 <= conf <= 1 + 1e-12) or abs(conf - max(post)) > 1e-12:
            ctx.violation('bag-confidence', 'bag confidence is not the largest posterior in [0,1]', inp, conf)
        tc = bag.transcript_confidence('h0')
        if abs(tc - post[0]) > 1e-12 or bag.transcript_confidence('zzz') != 0.0:
            ctx.violation('bag-transcript-confidence', 'transcript confidence is not that hypothesis posterior', inp, tc)
        tcs = [bag.transcript_confidence('h%d' % i) for i in range(nh)]
        if any(not (0 <= t <= 1 + 1e-12) for t in tcs) or abs(sum(tcs) - 1) > 1e-9 or any(abs(a - b) > 1e-12 for a, b in zip(tcs, post)):
            ctx.violation('bag-transcript-confidence:all', 'the transcript confidences of a bag are not its posteriors (in [0,1], summing to 1)', inp, tcs)
        if nh >= 2:
            ctx.nontriv(inp)
        # the same bag queried again after its (public) LM weight changed, and after another hypothesis was added
        for w2 in (rng.choice([0.0, 0.25, 2.0, 3.0]), w):
            bag.lm_weight = w2
            post2 = [math.exp(p) for p in bag.posteriors()]
            conf2 = bag.confidence()
            if abs(sum(post2) - 1) > 1e-9 or any(p < 0 or p > 1 + 1e-12 for p in post2) or abs(conf2 - max(post2)) > 1e-12:
                ctx.violation('bag-posteriors:after-weight-change', 'posteriors / confidence of a bag are not probabilities after its LM weight was changed',
                              dict(inp, new_lm_weight=w2), [sum(post2), conf2])
        bag.add('extra', rng.uniform(-30, 0), rng.uniform(-20, 0) if with_lm else None)
        post3 = [math.exp(p) for p in bag.posteriors()]
        if abs(sum(post3) - 1) > 1e-9 or abs(bag.confidence() - max(post3)) > 1e-12:
            ctx.violation('bag-posteriors:after-add', 'posteriors of a bag do not sum to 1 after a hypothesis was added', inp, sum(post3))
    if ctx.driver_ok:
        rep = common.Driver(ctx).batch(reqs)
        for r, (inp, got, tol), q in zip(rep, impl, reqs):
            m = r.get('ok')
            if m is None:
                ctx.disagree('C16 model error on %s' % q['op'], inp, got, r)
            elif tol is None:
                if m != got:
                    ctx.disagree('C16 %s differs' % q['op'], inp, got, m)
                else:
                    ctx.traces_validated += 1
            else:
                mv = [float(F(*x)) for x in m] if (m and isinstance(m[0], list)) else ([float(F(*m))] if m else [])
                if len(mv) != len(got) or any(abs(a - b) > tol for a, b in zip(mv, got)):
                    ctx.disagree('C16 %s differs' % q['op'], dict(inp, req=q['op']), got, mv)
                else:
                    ctx.traces_validated += 1
    else:
        ctx.notes.append('driver unavailable: correspondence skipped, oracle only')


def replay(data):
    for v in data.get('violations', []):
        print('replay', v['key'], v['what'], str(v['input'])[:400], 'observed', v['observed'])
    return 1 if data.get('violations') else 0
