"""C05 — forced alignment is a valid, minimum-cost CTC alignment (DESIGN §5-C05).

Exact domain D1: integer-valued or +inf cost matrices; the model replicates the code's tie-breaking, so
whole frame paths are compared; a differing but valid+optimal path is a benign divergence (§2.4).
"""
import itertools

import numpy as np

from . import common
from .c04 import ref_collapse

INF = float('inf')


def brute(M, labels, blank):
    """min cost over all symbol paths collapsing to labels (None if none finite), by DP over explicit enumeration."""
    T = len(M)
    C = len(M[0]) if T else 0
    best = None
    for p in itertools.product(range(C), repeat=T):
        if ref_collapse(p, blank) != list(labels):
            continue
        c = sum(M[t][p[t]] for t in range(T))
        if c != INF and (best is None or c < best):
            best = c
    return best


def call_align(fa, M, labels, blank):
    try:
        out = fa.force_align(np.array(M, dtype=float), list(labels), blank)
        return [int(x) for x in out]
    except ValueError as e:
        return 'failure'          # the property speaks of "reports failure": any ValueError, whatever its message
    except IndexError:
        return 'index-error'


def call_positions(fa, M, labels, blank):
    try:
        out = fa.align_text(np.array(M, dtype=float), np.array(labels, dtype=int), blank)
        return [int(x) for x in out]
    except ValueError as e:
        return 'failure'
    except IndexError:
        return 'index-error'


def gen(ctx):
    rng = ctx.rng
    cases = []
    # exhaustive small scope: T<=3(quick)/4, C=3, costs {0,1,inf}, blank=2, all label strings over {0,1} of length 1..T+1
    Tm = 3 if ctx.quick() else 4
    vals = [0, 1, INF]
    cnt = 0
    for T in range(1, Tm + 1):
        mats = list(itertools.product(vals, repeat=T * 3))
        if len(mats) > (600 if ctx.quick() else 6000):
            mats = rng.sample(mats, 600 if ctx.quick() else 6000)
        else:
            cnt += 1
        for flat in mats:
            M = [list(flat[i * 3:(i + 1) * 3]) for i in range(T)]
            L = rng.randrange(1, T + 2)
            labels = [rng.randrange(2) for _ in range(L)]
            cases.append(('exh', M, labels, 2))
    ctx.cov['exhaustive_scope'] = 'all 0/1/inf matrices with C=3 for T<=%d (sampled above), random labels' % cnt
    n = 400 if ctx.quick() else 8000
    for _ in range(n):
        T = rng.randrange(1, 9)
        C = rng.randrange(2, 6)
        blank = rng.randrange(C) if rng.random() < 0.5 else C - 1
        mode = rng.random()
        if mode < 0.3:
            M = [[rng.randrange(0, 3) for _ in range(C)] for _ in range(T)]          # many ties
        elif mode < 0.6:
            M = [[rng.randrange(0, 50) for _ in range(C)] for _ in range(T)]
        else:
            M = [[(INF if rng.random() < 0.3 else rng.randrange(0, 9)) for _ in range(C)] for _ in range(T)]
        L = rng.randrange(1, T + 2)
        nb = [c for c in range(C) if c != blank]
        labels = []
        for _ in range(L):
            if labels and rng.random() < 0.35:
                labels.append(labels[-1])       # immediate repeat
            else:
                labels.append(rng.choice(nb))
        r = rng.random()
        if r < 0.04:
            labels[rng.randrange(len(labels))] = blank
        elif r < 0.06:
            labels = []
        cases.append(('rnd', M, labels, blank))
        if rng.random() < 0.25 and labels and mode < 0.6:
            # the same integer matrix at an extreme magnitude: costs in the thousands (exp(-cost) underflows) or around 1e-17
            # (exp(-cost) rounds to 1); order and ties of the costs are unchanged, so the same frames are the most confident
            cases.append((rng.choice(['x300', 'x1e-17']), M, labels, blank))
        if rng.random() < 0.3 and labels and blank not in labels and C ** T <= 20000:
            # the same integer matrix handed over as float32 (what the network produces), plain or with every finite entry raised by
            # 2^23: each entry is still exact in float32, but a running sum kept in float32 loses the unit differences after 2-3 frames
            cases.append((rng.choice(['f32', 'f32+2^23', 'f32+2^23']), M, labels, blank))
    return cases


def enc(M):
    return [[None if x == INF else int(x) for x in row] for row in M]


def run(ctx):
    from pero_ocr.core import force_alignment as fa
    ctx.rule = ('integer / +inf cost matrices T<=8, C<=5, any blank index, labels of length 1..T+1 with immediate repeats, '
                'blank among labels, empty labels, many ties; the same matrices scaled to extreme magnitudes (x300, x1e-17) for the position clause and as float32 matrices (plain / every entry + 2^23) for validity and optimality; non-trivial = alignable, >1 admissible path and T > len(labels)')
    ctx.assumptions += ['NumPy float arithmetic on small integers and inf is exact (D1)',
                        'numba-compiled compute_update behaves as its Python body (the jitted version is what runs)']
    cases = gen(ctx)
    reqs, impl = [], []
    for kind, M, labels, blank in cases:
        ctx.evaluations += 1
        ctx.count('kind:' + kind)
        inp = dict(M=enc(M), labels=labels, blank=blank)
        if kind in ('x300', 'x1e-17'):
            f = 300.0 if kind == 'x300' else 1e-17
            Ms = [[x * f for x in row] for row in M]
            inp['cost_scale'] = f
            pos = call_positions(fa, Ms, labels, blank)
            if isinstance(pos, list):
                try:
                    seq = [int(x) for x in fa.force_align(np.array(Ms, dtype=float), list(labels), blank, return_seq_positions=True)]
                    best_cost = [min(row) for row in Ms]
                    okp = all(a < b for a, b in zip(pos, pos[1:])) and len(pos) == len(labels)
                    for i, pp in enumerate(pos):
                        fr = [t for t in range(len(Ms)) if seq[t] == i]
                        if pp not in fr or any(best_cost[t] < best_cost[pp] for t in fr):
                            okp = False
                    if not okp:
                        ctx.violation('positions:extreme-costs', 'align_text positions are not the most confident aligned frame (costs at an extreme magnitude)', inp, pos)
                except Exception as e:
                    ctx.violation('positions-raises:' + type(e).__name__, 'force_align raised %r' % (e,), inp)
            continue
        if kind.startswith('f32'):
            off = 2 ** 23 if kind.endswith('2^23') else 0
            A = np.array([[x + off if x != INF else INF for x in row] for row in M], dtype=np.float32)
            inp['dtype'] = 'float32'
            inp['offset'] = off
            try:
                got32 = [int(x) for x in fa.force_align(A, list(labels), blank)]
            except ValueError:
                got32 = 'failure'
            except Exception as e:
                ctx.violation('raises:float32:' + type(e).__name__, 'force_align raised %r on a float32 matrix' % (e,), inp)
                continue
            best = brute(M, labels, blank)
            if isinstance(got32, list):
                if len(got32) != len(M) or ref_collapse(got32, blank) != list(labels):
                    ctx.violation('invalid:float32', 'force_align result does not collapse to the labels (float32 costs)', inp, got32)
                else:
                    c = sum(M[t][got32[t]] for t in range(len(M)))
                    if best is None or c != best:
                        ctx.violation('suboptimal:float32', 'force_align result is not a minimum-cost alignment (float32 cost matrix; '
                                      'every entry and every path sum is exactly representable in float64)', inp, got32, best)
            elif best is not None:
                ctx.violation('false-failure:float32', 'force_align reports failure although a finite-cost alignment exists (float32 costs)', inp, got32, best)
            continue
        got = call_align(fa, M, labels, blank)
        T, C = len(M), len(M[0])
        if blank == C - 1 and blank not in labels and ctx.rng.random() < 0.3:
            # the last class addressed from the end (blank = -1), as Python indexing allows: the same alignment
            got_neg = call_align(fa, M, labels, -1)
            if isinstance(got_neg, list):
                got_neg = [x % C for x in got_neg]        # the blank may come back as -1: the same class
            pos_neg = call_positions(fa, M, labels, -1) if labels else 'failure'
            if got_neg != got or (labels and pos_neg != call_positions(fa, M, labels, blank)):
                ctx.violation('blank-index:-1', 'with the blank given as -1 (the last class) force_align / align_text give another answer than with its positive index',
                              dict(inp, blank=-1), [got_neg, pos_neg], got)
            ctx.count('blank_as_-1')
        small = C ** T <= 20000
        best = brute(M, labels, blank) if (small and labels and blank not in labels) else None
        cls = 'ok' if isinstance(got, list) else got
        ctx.count('outcome:' + cls)
        if isinstance(got, list):
            if len(got) != T or ref_collapse(got, blank) != list(labels):
                ctx.violation('invalid', 'force_align result does not collapse to the labels / wrong length', inp, got)
            elif small:
                c = sum(M[t][got[t]] for t in range(T))
                if best is None or c != best:
                    ctx.violation('suboptimal', 'force_align result is not a minimum-cost alignment', inp, got, best)
            if T > len(labels):
                ctx.nontriv(inp)
        elif got == 'failure':
            if small and best is not None:
                ctx.violation('false-failure', 'force_align reports failure although a finite-cost alignment exists', inp, got, best)
        if small and labels and blank not in labels and best is None and isinstance(got, list):
            ctx.violation('missed-failure', 'force_align returns a path although no finite-cost alignment exists', inp, got)
        pos = call_positions(fa, M, labels, blank) if labels else 'failure'
        if isinstance(pos, list) and isinstance(got, list):
            ok = all(a < b for a, b in zip(pos, pos[1:])) and len(pos) == len(labels)
            # most confident among the frames aligned to the character
            try:
                seq = fa.force_align(np.array(M, dtype=float), list(labels), blank, return_seq_positions=True)
                seq = [int(x) for x in seq]
                mx = [max(-x for x in row) for row in M]
                for i, p in enumerate(pos):
                    fr = [t for t in range(T) if seq[t] == i]
                    if p not in fr or any(mx[t] > mx[p] for t in fr):
                        ok = False
            except Exception:
                ok = False
            if not ok:
                ctx.violation('positions', 'align_text positions not strictly increasing / not the most confident aligned frame', inp, pos)
        ctx.sample(dict(kind=kind, **inp, path=got, positions=pos), limit=4) if kind == 'rnd' else None
        reqs.append(dict(p='C05', op='align', M=enc(M), labels=labels, blank=blank))
        reqs.append(dict(p='C05', op='positions', M=enc(M), labels=labels, blank=blank))
        impl.append((got, pos, best, small))
    if ctx.driver_ok:
        rep = common.Driver(ctx).batch(reqs)
        for k, (got, pos, best, small) in enumerate(impl):
            ra, rp = rep[2 * k], rep[2 * k + 1]
            ma = ra.get('ok', ra.get('err'))
            mp = rp.get('ok', rp.get('err'))
            ma = 'failure' if ma in ('reject', 'unalignable') else ma
            mp = 'failure' if mp in ('reject', 'unalignable') else mp
            q = reqs[2 * k]
            if ma != got:
                # admissibility fallback: both ok, impl valid and optimal (already judged by the oracle above when small)
                if isinstance(ma, list) and isinstance(got, list) and small:
                    ctx.count('benign_divergence')
                else:
                    ctx.disagree('C05.align model != implementation', q, got, ma)
            elif mp != pos and not (q['labels'] == []):
                ctx.disagree('C05.positions model != implementation', q, pos, mp)
            else:
                ctx.traces_validated += 1
    else:
        ctx.notes.append('driver unavailable: correspondence skipped, oracle only')


def replay(data):
    from pero_ocr.core import force_alignment as fa
    for v in data.get('violations', []):
        inp = v['input']
        M = [[INF if x is None else x for x in row] for row in inp['M']]
        if 'cost_scale' in inp:
            Ms = [[x * inp['cost_scale'] for x in row] for row in M]
            print('replay', v['key'], 'costs x', inp['cost_scale'], 'positions ->', call_positions(fa, Ms, inp['labels'], inp['blank']),
                  'frame->char', [int(x) for x in fa.force_align(np.array(Ms, dtype=float), list(inp['labels']), inp['blank'], return_seq_positions=True)],
                  'best cost per frame', [min(r) for r in Ms])
            continue
        got = call_align(fa, M, inp['labels'], inp['blank'])
        print('replay', v['key'], inp, '-> force_align:', got, '| brute-force optimum:', brute(M, inp['labels'], inp['blank']))
    return 1 if data.get('violations') else 0
