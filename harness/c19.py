"""C19 — engine merging keeps, per line, the most confident engine's result (DESIGN §5-C19).

Real: user_scripts/merge_ocr_results.py:merge_layouts on in-memory PageLayouts.  The per-engine mean
character confidence (the property's own notion) is computed with the script's get_confidences on
copies before merging and sent to the model as exact dyadic rationals (D2).
"""
import contextlib
import copy
import io
import importlib.util
import os
from fractions import Fraction as F

import numpy as np

from . import common


def load_script():
    path = os.path.join(common.REPO, 'user_scripts', 'merge_ocr_results.py')
    spec = importlib.util.spec_from_file_location('merge_ocr_results_verif', path)
    mod = importlib.util.module_from_spec(spec)
    spec.loader.exec_module(mod)
    return mod


def rat(x):
    f = F(float(x))
    return [f.numerator, f.denominator]


def same_sparse(a, b):
    """sparse matrices equal (shape and every entry); scipy's `!=` degenerates to a bool for different shapes"""
    if a is None or b is None:
        return a is b
    if a.shape != b.shape:
        return False
    d = (a != b)
    return (d.nnz == 0) if hasattr(d, 'nnz') else (not d)


def make_layouts(rng, n_eng, n_lines, same=False):
    from scipy import sparse
    from pero_ocr.core.layout import PageLayout, RegionLayout, TextLine
    layouts = []
    charsets = []
    for e in range(n_eng):
        k = rng.randrange(2, 6)
        chars = rng.sample('abcdefgh', k)
        charsets.append(chars)
    base = None
    # how each engine's export groups the (identical) lines into regions: usually all engines alike and one region;
    # sometimes several regions, regions without text lines, and a different grouping per engine
    def cuts():
        m = rng.randrange(1, 4)
        return sorted(rng.randrange(0, n_lines + 1) for _ in range(m - 1))
    shared = [] if rng.random() < 0.5 else cuts()
    differ = rng.random() < 0.4
    first_lines = []
    for e in range(n_eng):
        pl = PageLayout(id='p', page_size=(100, 200))
        reg = RegionLayout('r1', np.array([[0, 0], [200, 0], [200, 100], [0, 100]]))
        my_cuts = cuts() if (differ and not same) else shared
        lines_all = []
        chars = charsets[0] if same else charsets[e]
        C = len(chars) + 1
        for li in range(n_lines):
            mode = rng.random()
            if mode < 0.15:
                text = ''
            elif e > 0 and rng.random() < 0.35 and li < len(first_lines) and \
                    all(ch in chars for ch in (first_lines[li].transcription or '')):
                text = first_lines[li].transcription      # engines agreeing on the text (different logits / charset order)
            else:
                text = ''.join(rng.choice(chars) for _ in range(rng.randrange(1, 5)))
            T = rng.randrange(max(1, 2 * len(text)), 2 * len(text) + 6)
            if text and rng.random() < 0.3:
                # a tightly sampled line: barely more frames than characters (plus the blanks between doubled letters)
                need_t = len(text) + sum(1 for a, b in zip(text, text[1:]) if a == b)
                T = need_t + rng.randrange(1, 3)
            L = np.array([[rng.uniform(-4, 1) for _ in range(C)] for _ in range(T)])
            peak = rng.choice([0.5, 3, 8])
            pos = sorted(rng.sample(range(T), min(T, len(text))))
            for p, ch in zip(pos, text):
                L[p, chars.index(ch)] += peak
            if text and len(pos) == len(text) and rng.random() < 0.25:
                # a saturated character: a run of 2..4 frames in which it has all the mass (log-probability exactly 0 after the floor),
                # next to a frame with some mass for another character
                j = rng.randrange(len(text))
                p0 = pos[j]
                p1 = min(T - 1, p0 + rng.randrange(1, 4)) if j + 1 >= len(pos) else min(pos[j + 1] - 1, p0 + rng.randrange(1, 4))
                if p1 > p0:
                    L[p0:p1 + 1, :] = 0.0
                    L[p0:p1 + 1, chars.index(text[j])] = 20.0
            if len(text) >= 3 and len(pos) == len(text) and rng.random() < 0.35:
                # the reader hesitates at the first (last) character between it and the LAST (first) character of the line
                a, b = (0, -1) if rng.random() < 0.5 else (-1, 0)
                if text[a] != text[b]:
                    L[pos[a], chars.index(text[b])] += peak - rng.choice([0.1, 0.5, 1.0])
            if mode > 0.9:
                T = max(1, len(text) - 1)   # too short to align -> ValueError path -> 0.5
                L = L[:T]
            Ls = sparse.csc_matrix(L)
            if rng.random() < 0.25 and T > 0:
                # an engine that builds its sparse logits from (row, col, value) triplets of the kept symbols: a kept logit that is
                # exactly 0.0 is STORED explicitly (it still reads 0.0 = pruned everywhere in the system)
                L2 = L.copy()
                for _ in range(rng.randrange(1, 4)):
                    L2[rng.randrange(T), rng.randrange(C)] = 0.0
                rr, cc = np.nonzero(np.ones_like(L2))
                Ls = sparse.csc_matrix((L2[rr, cc], (rr, cc)), shape=L2.shape)
                L = L2
            line = TextLine(id='r1-l%03d' % li, baseline=np.array([[0, 10 * li], [100, 10 * li]]),
                            polygon=np.array([[0, 10 * li - 3], [100, 10 * li - 3], [100, 10 * li + 2], [0, 10 * li + 2]]),
                            heights=[3, 2], transcription=text, logits=Ls, characters=list(chars),
                            logit_coords=[0, T])
            # a confidence already stored with the line (PAGE XML `conf`, earlier export): None, low or high
            line.transcription_confidence = rng.choice([None, None, round(rng.random(), 3), 0.95, 1.0, 0.0])
            lines_all.append(line)
        if e == 0:
            first_lines = lines_all
        bounds = [0] + list(my_cuts) + [n_lines]
        for ri in range(len(bounds) - 1):
            reg = RegionLayout('r%d' % (ri + 1), np.array([[0, 0], [200, 0], [200, 100], [0, 100]]))
            reg.lines = lines_all[bounds[ri]:bounds[ri + 1]]
            pl.regions.append(reg)
        layouts.append(pl)
    if same:
        layouts = [layouts[0]] + [copy.deepcopy(layouts[0]) for _ in range(n_eng - 1)]
    return layouts


def ref_confidences(line):
    """The mean character confidence as the property defines it, computed independently of get_line_confidence: probability of the
    aligned label minus the best competing probability in the character's window (the label itself and its two neighbours in the
    text excused, blank excluded), clipped at 0; 0.5 per character when the line cannot be aligned."""
    from pero_ocr.core.force_alignment import force_align
    text = line.transcription
    if not text:
        return np.asarray([])
    labels = [line.characters.index(c) for c in text]
    # the posteriors from the stored sparse logits themselves: an entry that reads 0.0 (stored or not) is a pruned logit = floor -80
    dense = np.asarray(line.logits.toarray(), dtype=np.float64)
    dense[dense == 0] = -80.0
    lp = dense - np.logaddexp.reduce(dense, axis=1)[:, np.newaxis]
    probs = np.exp(lp)
    T, C = probs.shape
    if T == len(labels):
        return np.array([probs[i, l] for i, l in enumerate(labels)])
    need = len(labels) + sum(1 for a, b in zip(labels, labels[1:]) if a == b)
    try:
        # the minimum-cost alignment (C05), then for every character the FIRST of its frames in which the network is most confident
        seq = [int(x) for x in force_align(-lp, list(labels), C - 1, return_seq_positions=True)]
    except ValueError:
        if T >= need and (C - 1) not in labels and np.all(np.isfinite(lp)):
            # enough frames for the labels plus a blank between adjacent repeats, all costs finite: an alignment exists (C05), the 0.5
            # fallback is not justified - report with a value no engine can produce
            return np.ones(len(labels)) * -1.0
        return np.ones(len(labels)) * 0.5
    best = lp.max(axis=1)
    al = []
    for i in range(len(labels)):
        fr = [t for t in range(T) if seq[t] == i]
        if not fr:
            return np.ones(len(labels)) * 0.5
        al.append(max(fr, key=lambda t: (best[t], -t)))
    ends = al + [max(1000, T)]
    out, last = [], 0
    for i, l in enumerate(labels):
        nb = (ends[i] + 1 + ends[i + 1]) // 2
        window = probs[last:nb]
        if window.shape[0] == 0:
            return np.ones(len(labels)) * 0.5
        excused = {l} | ({labels[i - 1]} if i > 0 else set()) | ({labels[i + 1]} if i + 1 < len(labels) else set())
        other = max([0.0] + [float(window[t, c]) for t in range(window.shape[0]) for c in range(C - 1) if c not in excused])
        out.append(max(0.0, float(probs[ends[i], l]) - other))
        last = nb
    return np.asarray(out)


def run(ctx):
    with contextlib.redirect_stdout(io.StringIO()):
        _run(ctx)


def _run(ctx):
    ms = load_script()
    rng = ctx.rng
    ctx.rule = ('1..4 in-memory page layouts with identical line ids, 1..4 lines, per-engine charsets (possibly different), empty '
                'transcriptions, peaky/diffuse/too-short logits (the 0.5 fallback), merging a layout with copies of itself; lines arriving with a stored confidence (None/low/high); merged layouts merged again (with themselves, with a further engine); '
                'non-trivial = >= 2 engines and the winner is not engine 0')
    ctx.assumptions += ['mean character confidences computed by the real get_confidences are sent to the model as exact dyadics; '
                        'ties are exact float equalities (same object content)']
    reqs, impl = [], []
    n = 400 if ctx.quick() else 4000
    for it in range(n):
        n_eng = rng.randrange(1, 5)
        n_lines = rng.randrange(1, 5)
        same = rng.random() < 0.2
        layouts = make_layouts(rng, n_eng, n_lines, same)
        before = copy.deepcopy(layouts)
        ctx.evaluations += 1
        # per-engine confidences, as the script defines them
        confs = []
        for pl in before:
            row = []
            for line in pl.lines_iterator():
                c = ms.get_confidences(line)
                row.append(float(c.mean()) if c.size > 0 else -10.0)
                rc = ref_confidences(line)
                if rc.shape != np.asarray(c).shape or (rc.size and np.abs(rc - c).max() > 1e-9):
                    ctx.violation('confidence-source', "an engine's character confidences are not 'probability of the aligned label minus the best competing "
                                  "probability (label and text neighbours excused), clipped at 0': the merge would rank the engines by other numbers",
                                  dict(text=line.transcription, characters=line.characters, logits=np.round(line.logits.toarray(), 4).tolist()),
                                  np.asarray(c).tolist(), rc.tolist())
            confs.append(row)
        inp = dict(engines=n_eng, lines=n_lines, self_merge=same, regions=[[len(r.lines) for r in pl.regions] for pl in before],
                   texts=[[l.transcription for l in pl.lines_iterator()] for pl in before], confidences=confs,
                   stored_confidences=[[l.transcription_confidence for l in pl.lines_iterator()] for pl in before])
        try:
            ms.merge_layouts(layouts)
        except BaseException as e:
            ctx.violation('raises:' + type(e).__name__, 'merge_layouts raised %r' % (e,), inp)
            continue
        merged = list(layouts[0].lines_iterator())
        orig0 = list(before[0].lines_iterator())
        for li, ml in enumerate(merged):
            cs = [confs[e][li] for e in range(n_eng)]
            best = max(cs)
            win = cs.index(best) if best > 0 else 0
            src = list(before[win].lines_iterator())[li]
            ok_fields = (ml.transcription == src.transcription and ml.characters == src.characters
                         and same_sparse(ml.logits, src.logits))
            if not ok_fields:
                ctx.violation('wrong-engine', 'merged line does not carry text+logits+charset of the first most confident engine', inp, li)
            if best > 0:
                if ml.transcription_confidence is None or abs(ml.transcription_confidence - best) > 1e-12:
                    ctx.violation('confidence-not-recorded', 'maximum mean confidence not recorded as line confidence', inp, li)
            o = orig0[li]
            if ml.id != o.id or not np.array_equal(ml.baseline, o.baseline) or not np.array_equal(ml.polygon, o.polygon) \
                    or list(ml.heights) != list(o.heights):
                ctx.violation('geometry-changed', 'ids or geometry altered by merging', inp, li)
            if same:
                if ml.transcription != o.transcription or not same_sparse(ml.logits, o.logits) or ml.characters != o.characters:
                    ctx.violation('self-merge', 'merging a result with itself changed it', inp, li)
            if n_eng >= 2 and win != 0:
                ctx.nontriv([it, li])
            # model request: payload ids name (engine, line)
            engines = []
            for e in range(n_eng):
                bl = list(before[e].lines_iterator())[li]
                engines.append(dict(id=li, geom=100 + e, text=e, logits=e, chars=e, conf=rat(cs[e]),
                                    tconf=None if bl.transcription_confidence is None else rat(bl.transcription_confidence)))
            reqs.append(dict(p='C19', op='merge', engines=engines))
            # which engine's payload does the merged line carry?
            def which(field, eq):
                for e in range(n_eng):
                    if eq(getattr(ml, field), getattr(list(before[e].lines_iterator())[li], field)):
                        return e
                return -1
            got = dict(id=li, geom=100, win_text=ml.transcription, win=win,
                       tconf=None if ml.transcription_confidence is None else float(ml.transcription_confidence))
            impl.append((inp, li, got, [list(before[e].lines_iterator())[li].transcription for e in range(n_eng)]))
        # chained merges: the merged layout goes through merge_layouts again (with itself, and with one more engine); the outcome
        # must be that of merging freshly built layouts with the same content (no state may survive on the line objects)
        if n_eng >= 2 and rng.random() < 0.5:
            def fresh(pl):
                from pero_ocr.core.layout import PageLayout, RegionLayout, TextLine
                npl = PageLayout(id=pl.id, page_size=pl.page_size)
                for r in pl.regions:
                    nr = RegionLayout(r.id, np.array(r.polygon))
                    for l in r.lines:
                        nl = TextLine(id=l.id, baseline=np.array(l.baseline), polygon=np.array(l.polygon), heights=list(l.heights),
                                      transcription=l.transcription, logits=None if l.logits is None else l.logits.copy(),
                                      characters=None if l.characters is None else list(l.characters),
                                      logit_coords=None if l.logit_coords is None else list(l.logit_coords))
                        nl.transcription_confidence = l.transcription_confidence
                        nr.lines.append(nl)
                    npl.regions.append(nr)
                return npl
            extra = make_layouts(rng, 1, n_lines)[0] if not same else fresh(layouts[0])
            for name, second in (('self', None), ('third-engine', extra)):
                try:
                    a = [layouts[0], layouts[0] if second is None else second]
                    ref_in = [fresh(layouts[0]), fresh(layouts[0] if second is None else second)]
                    ms.merge_layouts(ref_in)
                    ms.merge_layouts(a)
                except BaseException as e:
                    ctx.violation('chained-raises:' + type(e).__name__, 'chained merge_layouts raised %r' % (e,), inp)
                    break
                for la, lb in zip(a[0].lines_iterator(), ref_in[0].lines_iterator()):
                    ca, cb = la.transcription_confidence, lb.transcription_confidence
                    if la.transcription != lb.transcription or la.characters != lb.characters or not same_sparse(la.logits, lb.logits) or \
                            (ca is None) != (cb is None) or (ca is not None and abs(ca - cb) > 1e-12):
                        ctx.violation('chained:' + name, 'merging an already merged layout again (%s) differs from merging fresh layouts with the same content' % name,
                                      dict(inp, chained=name), [la.transcription, ca], [lb.transcription, cb])
                        break
            ctx.count('chained_merges')
        ctx.sample(dict(texts=inp['texts'], confidences=confs, merged=[l.transcription for l in merged]), limit=3)
    if ctx.driver_ok:
        rep = common.Driver(ctx).batch(reqs)
        for r, (inp, li, got, texts) in zip(rep, impl):
            m = r.get('ok')
            if m is None:
                ctx.disagree('C19 model error', inp, got, r)
                continue
            mt = None if m['tconf'] is None else float(F(*m['tconf']))
            same_conf = (mt is None and got['tconf'] is None) or (mt is not None and got['tconf'] is not None and abs(mt - got['tconf']) < 1e-12)
            if texts[m['text']] != got['win_text'] or m['geom'] != 100 or m['id'] != li or not same_conf or m['text'] != m['logits'] or m['text'] != m['chars']:
                ctx.disagree('C19 merged line differs', dict(inp, line=li), got, m)
            else:
                ctx.traces_validated += 1
    else:
        ctx.notes.append('driver unavailable: correspondence skipped, oracle only')


def replay(data):
    for v in data.get('violations', []):
        print('replay', v['key'], v['what'], str(v['input'])[:500], 'line', v['observed'])
    return 1 if data.get('violations') else 0
