"""Shared helpers for C02/C03: matrix generators, toy LM, oracle implementations (exact fractions)."""
import itertools
import math
from fractions import Fraction as F

import numpy as np

from .c04 import ref_collapse

E10 = math.exp(-10)
TOL = F(1, 100000)       # max_unnormalization default 1e-5 (checked by the translator)


def gen_matrix(rng, T=None, C=None):
    """Row-normalised matrix as integer weights (exact rational rows)."""
    T = T or rng.randrange(1, 8)
    C = C or rng.randrange(2, 6)
    mode = rng.random()
    rows = []
    for _ in range(T):
        r = rng.random()
        if mode < 0.25:      # ties galore
            w = [rng.choice([1, 1, 2]) for _ in range(C)]
        elif r < 0.2:        # near-deterministic
            w = [rng.choice([0, 1]) for _ in range(C)]
            w[rng.randrange(C)] = 10 ** 6
        elif r < 0.35:       # every non-blank below the pre-selection threshold
            w = [rng.choice([0, 1, 2]) for _ in range(C - 1)] + [10 ** 7]
        elif r < 0.5:        # zeros
            w = [rng.choice([0, 0, 1, 3, 5]) for _ in range(C)]
        else:
            w = [rng.randrange(1, 30) for _ in range(C)]
        if sum(w) == 0:
            w[rng.randrange(C)] = 1
        rows.append(w)
    if mode > 0.8 and T >= 3:   # repeated symbol with / without a separating blank
        c = rng.randrange(C - 1)
        rows[0] = [1] * C
        rows[0][c] = 50
        rows[1] = [1] * C
        rows[1][rng.choice([c, C - 1])] = 50
        rows[2] = [1] * C
        rows[2][c] = 50
    return rows


def near_threshold(rows):
    for w in rows:
        W = sum(w)
        for x in w[:-1]:
            if x and abs(math.log(x / W) + 10) < 1e-6:
                return True
    return False


def to_probs(rows):
    return [[F(x, sum(w)) for x in w] for w in rows]


def to_logits(rows):
    return np.array([[math.log(x / sum(w)) if x else -np.inf for x in w] for w in rows], dtype=float)


def rat(fr):
    return [fr.numerator, fr.denominator]


def masses(P, blank):
    """dict label-tuple -> exact CTC probability, by enumerating all C^T paths."""
    T = len(P)
    C = len(P[0])
    out = {}
    for path in itertools.product(range(C), repeat=T):
        w = F(1)
        for t, s in enumerate(path):
            w *= P[t][s]
            if w == 0:
                break
        if w == 0:
            continue
        lab = tuple(ref_collapse(path, blank))
        out[lab] = out.get(lab, 0) + w
    return out


class ToyLM:
    """History-hash toy LM (numpy side); mirrors Drv.C02.toyLM."""

    def __init__(self, m, table, eos, nchars):
        self.m = m
        self.table = table
        self.eos = eos
        self.nchars = nchars
        self.calls = 0

    def initial_h(self, batch_size):
        return np.array([0] * batch_size, dtype=np.int64)

    def adv1(self, h, c):
        return (int(h) * 31 + int(c) + 7) % self.m

    def prob1(self, h, c):
        return self.table[(int(h) * 13 + int(c) * 5) % len(self.table)]

    def eos1(self, h):
        return self.eos[int(h) % len(self.eos)]

    def advance_h0(self, x, h0):
        return np.array([self.adv1(h, c) for h, c in zip(h0, x)], dtype=np.int64)

    def log_probs(self, h):
        self.calls += 1
        return np.array([[math.log(self.prob1(hh, c)) for c in range(self.nchars)] for hh in h], dtype=float)

    def eos_scores(self, h):
        return np.array([math.log(self.eos1(hh)) for hh in h], dtype=float)

    def score(self, h0, pre, bonus):
        """exact LM weight of a transcript (probability domain, bonus factor per char)"""
        h = h0
        w = F(1)
        for c in pre:
            w *= self.prob1(h, c) * bonus
            h = self.adv1(h, c)
        return w, h


def gen_toy(rng, nchars):
    m = rng.choice([5, 17, 101, 1009])
    table = [F(rng.randrange(1, 20), 20) for _ in range(rng.choice([3, 7, 11]))]
    eos = [F(rng.randrange(1, 10), 10) for _ in range(rng.choice([2, 5]))]
    return ToyLM(m, table, eos, nchars)


def ref_prefix_beam(P, k, thr, blank, lm=None, h0=0, bonus=F(1), num=0, den=1):
    """Textbook frame-synchronous prefix beam search with dict grouping (the specification of C02's
    'with pruning' clause), in exact fractions. Returns (dict prefix -> (pb, pnb), min cut margin)."""
    beam = {(): (F(1), F(0))}
    margin = None

    def key(pre, sc):
        if lm is None or num == 0:
            return sc ** den if num == 0 and lm is not None else sc
        w, _ = lm.score(h0, pre, bonus)
        return sc ** den * w ** num
    for row in P:
        S = [c for c in range(len(row) - 1) if row[c] > thr]
        if not S:
            beam = {p: ((pb + pnb) * row[blank], F(0)) for p, (pb, pnb) in beam.items()}
            continue
        new = {}

        def acc(p, dpb, dpnb):
            a, b = new.get(p, (F(0), F(0)))
            new[p] = (a + dpb, b + dpnb)
        for p, (pb, pnb) in beam.items():
            last = p[-1] if p else None
            acc(p, (pb + pnb) * row[blank], pnb * (row[last] if (last is not None and last in S) else 0))
            for c in S:
                v = (pb + (0 if c == last else pnb)) * row[c]
                acc(p + (c,), 0, v)
        items = [(p, v) for p, v in new.items() if v[0] + v[1] > 0]
        items.sort(key=lambda it: -key(it[0], it[1][0] + it[1][1]))
        kk = min(k, len(items))
        if kk < len(items):
            a = key(items[kk - 1][0], sum(items[kk - 1][1]))
            b = key(items[kk][0], sum(items[kk][1]))
            mg = (a - b) / a if a else F(0)
            margin = mg if margin is None else min(margin, mg)
        beam = dict(items[:kk])
    return beam, margin


def ref_prefix_beam_all(P, k, thr, blank, limit=300, eps=F(1, 10 ** 6)):
    """All outcomes of textbook prefix beam search under every way of breaking (near-)ties at the cut:
    candidates within `eps` relative of the k-th best value are interchangeable.  Returns a list of beams
    (dict prefix -> (pb, pnb)) or None when more than `limit` beams are reachable."""
    import itertools
    states = {frozenset({((), (F(1), F(0)))})}
    for row in P:
        S = [c for c in range(len(row) - 1) if row[c] > thr]
        nxt = set()
        for st in states:
            beam = dict(st)
            if not S:
                nxt.add(frozenset((p, ((pb + pnb) * row[blank], F(0))) for p, (pb, pnb) in beam.items()))
                continue
            new = {}
            for p, (pb, pnb) in beam.items():
                last = p[-1] if p else None
                a, b = new.get(p, (F(0), F(0)))
                new[p] = (a + (pb + pnb) * row[blank], b + pnb * (row[last] if (last is not None and last in S) else 0))
                for c in S:
                    v = (pb + (0 if c == last else pnb)) * row[c]
                    a, b = new.get(p + (c,), (F(0), F(0)))
                    new[p + (c,)] = (a, b + v)
            items = [(p, v) for p, v in new.items() if v[0] + v[1] > 0]
            items.sort(key=lambda it: -(it[1][0] + it[1][1]))
            if len(items) <= k:
                nxt.add(frozenset(items))
                continue
            kth = items[k - 1][1][0] + items[k - 1][1][1]
            forced = [it for it in items if sum(it[1]) > kth * (1 + eps)]
            free = [it for it in items if kth * (1 - eps) <= sum(it[1]) <= kth * (1 + eps)]
            need = k - len(forced)
            if math.comb(len(free), need) > limit:
                return None
            for ch in itertools.combinations(free, need):
                nxt.add(frozenset(forced + list(ch)))
            if len(nxt) > limit:
                return None
        states = nxt
    return [dict(st) for st in states]
