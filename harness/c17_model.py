"""Correspondence of the Lean Resume model with the crash histories run on the real parse_folder (C17)."""
import os

from . import common

KMAP = {'o_xml': 'xml', 'o_render': 'render', 'o_logits': 'logits', 'o_alto': 'alto', 'o_lines': 'lines'}


def cps(s):
    return [ord(c) for c in s]


def correspond(ctx):
    if not ctx.driver_ok:
        ctx.notes.append('driver unavailable: correspondence skipped, oracle only')
        return
    hist = getattr(ctx, 'hist', [])
    from .c17 import PAGES
    # page k has 1 + (k % 3) lines named r1-l00i (stubs.build_batch); processing order = sorted image names
    pages = [dict(id=cps(pid), lines=[cps('r1-l%03d' % li) for li in range(1 + (k % 3))]) for k, pid in enumerate(PAGES)]
    order = sorted(range(len(PAGES)), key=lambda k: PAGES[k] + '.png')
    pages = [pages[k] for k in order]
    reqs = [dict(p='C17', op='history', kinds=kinds, pages=pages, crashes=h) for kinds, h, logs, lst in hist]
    # stem matcher on file names
    names = ['p1.xml', 'a.xml.b.xml', 'a.xml.b.logits', 'c.d.jpg', 'x.jpg.logits', '.xml', '..xml', 'a.txt', 'noext', 'a.b.c-r1-l000.jpg']
    reqs += [dict(p='C17', op='stem', name=cps(n)) for n in names]
    rep = common.Driver(ctx).batch(reqs)
    for r, (kinds, h, logs, lst) in zip(rep, hist):
        m = r.get('ok')
        inp = dict(kinds=kinds, crash_before_write=h)
        if m is None:
            ctx.disagree('C17 model error', inp, 'ran', r)
            continue
        mlogs = [[[k, ''.join(chr(c) for c in n)] for k, n in run] for run in m['logs']]
        ilogs = [[[KMAP[p.split(os.sep)[0]], p.split(os.sep)[1]] for p in run] for run in logs]
        if mlogs[:len(ilogs)] != ilogs:
            ctx.disagree('C17 write sequence of an interrupted run differs', inp, ilogs, mlogs[:len(ilogs)])
            continue
        mfinal = {}
        for k, n in m['final']:
            mfinal.setdefault(k, []).append(''.join(chr(c) for c in n))
        mfinal = {k: sorted(v) for k, v in mfinal.items()}
        if mfinal != {k: v for k, v in lst.items() if v}:
            ctx.disagree('C17 final directory contents differ', inp, lst, mfinal)
            continue
        ctx.traces_validated += 1
    import importlib.util
    spec = importlib.util.spec_from_file_location('parse_folder_verif2', os.path.join(common.REPO, 'user_scripts', 'parse_folder.py'))
    pf = importlib.util.module_from_spec(spec)
    spec.loader.exec_module(pf)
    import tempfile, shutil
    d = tempfile.mkdtemp(prefix='verif_c17s_')
    try:
        for n in names:
            open(os.path.join(d, n), 'w').close()
        got_all = pf.load_already_processed_files_in_directory(d)
    finally:
        shutil.rmtree(d, ignore_errors=True)
    mstems = set()
    for r, n in zip(rep[len(hist):], names):
        m = r.get('ok')
        if m is not None:
            mstems.add(''.join(chr(c) for c in m))
    if mstems != set(got_all):
        ctx.disagree('C17 stem matcher differs', dict(names=names), sorted(got_all), sorted(mstems))
    else:
        ctx.traces_validated += 1
